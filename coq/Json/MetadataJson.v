(* Model of rust/src/protocol_types/metadata.rs:
     TransactionMetadatum trees (lines 113-211), MetadataMap::insert (LinkedHashMap, line 22-28),
     encode_json_value_to_metadatum (lines 507-623) and decode_metadatum_to_json_value (lines 636-751)
     for the three schemas, hex_string_to_bytes / bytes_to_hex_string (lines 491-501).
   JSON text <-> serde_json::Value is external (harness side).  Definitions only; lemmas in
   MetadataJsonProofs.v. *)
From CSL Require Import Base.Prelude Base.Hex Json.Decimal Json.Json.
Local Open Scope N_scope.

(* ---------- metadata trees ---------- *)
(* MMap: LinkedHashMap in insertion order (keys pairwise distinct: [md_wf]); MInt: Int(i128), modelled on Z
   (every range check the code does is modelled explicitly); MBytes / MText: at most 64 bytes when built
   through new_bytes / new_text / from_bytes ([md_wf]). *)
Inductive md : Type :=
| MMap (l : list (md * md))
| MList (l : list md)
| MInt (z : Z)
| MBytes (b : bytes)
| MText (s : bytes).

Inductive schema := NoConv | Basic | Detailed.
Definition schema_eqb (a b : schema) : bool :=
  match a, b with NoConv, NoConv | Basic, Basic | Detailed, Detailed => true | _, _ => false end.

Fixpoint md_eqb (a b : md) : bool :=
  match a, b with
  | MMap x, MMap y =>
      (fix go (x y : list (md * md)) : bool :=
         match x, y with
         | [], [] => true
         | (ka, va) :: x', (kb, vb) :: y' => md_eqb ka kb && md_eqb va vb && go x' y'
         | _, _ => false
         end) x y
  | MList x, MList y =>
      (fix go (x y : list md) : bool :=
         match x, y with
         | [], [] => true
         | a :: x', b :: y' => md_eqb a b && go x' y'
         | _, _ => false
         end) x y
  | MInt x, MInt y => (x =? y)%Z
  | MBytes x, MBytes y => bytes_eqb x y
  | MText x, MText y => bytes_eqb x y
  | _, _ => false
  end.

(* hashlink LinkedHashMap::insert: an existing key is moved to the back and its value replaced *)
Definition lhm_insert (k v : md) (m : list (md * md)) : list (md * md) :=
  filter (fun kv => negb (md_eqb (fst kv) k)) m ++ [(k, v)].
Definition lhm_of_list (l : list (md * md)) : list (md * md) :=
  fold_left (fun acc kv => lhm_insert (fst kv) (snd kv) acc) l [].

Definition MD_MAX_LEN : N := 64.
Definition new_bytes (b : bytes) : result md := if MD_MAX_LEN <? blen b then Err else Ok (MBytes b).
Definition new_text (s : bytes) : result md := if MD_MAX_LEN <? blen s then Err else Ok (MText s).

(* ---------- behaviour switches for defects that were repaired in /repo ---------- *)
(* [true] = the behaviour before the repair; the current code is [cur_cfg]. *)
Record cfg := { c_negmin_panics : bool;     (* encode_number: [-x as u64] negates i64::MIN (debug overflow panic) *)
                c_key_unchecked : bool;     (* BasicConversions key: parse::<i128>() stored without range check *)
                c_entry_lenient : bool }.   (* detailed map entry objects may carry keys besides "k" and "v" *)

(* ---------- JSON -> metadata ---------- *)
Definition as_u64 (j : json) : option Z :=
  match j with JInt z => if in_range 0 u64_max z then Some z else None | _ => None end.
Definition as_i64 (j : json) : option Z :=
  match j with
  | JInt z => if in_range i64_min i64_max z then Some z else None
  | JNegZero => Some 0%Z
  | _ => None
  end.

(* lines 513-523 *)
Definition encode_number (c : cfg) (j : json) : result md :=
  match as_u64 j with
  | Some x => Ok (MInt x)
  | None =>
      match as_i64 j with
      | Some x => if c_negmin_panics c && (x =? i64_min)%Z then Panic else Ok (MInt x)
      | None => Err
      end
  end.

(* lines 491-497 *)
Definition hex_string_to_bytes (s : bytes) : option bytes :=
  if starts_with k_0x s then unhex (skipn 2 s) else None.
Definition bytes_to_hex_string (b : bytes) : bytes := k_0x ++ hex b.

(* lines 524-536 *)
Definition encode_string (s : bytes) (sc : schema) : result md :=
  match sc with
  | Basic => match hex_string_to_bytes s with Some b => new_bytes b | None => new_text s end
  | _ => new_text s
  end.

(* lines 559-566: key of a JSON object under NoConversions / BasicConversions *)
Definition int_key_range (c : cfg) (x : Z) : bool :=
  c_key_unchecked c || in_range (- u64_max) u64_max x.
Definition encode_key (c : cfg) (sc : schema) (raw : bytes) : result md :=
  match sc with
  | Basic => match parse_i128 raw with
             | Some x => if int_key_range c x then Ok (MInt x) else encode_string raw sc
             | None => encode_string raw sc
             end
  | _ => new_text raw
  end.

Definition entry_shape_ok (c : cfg) (l : list (bytes * json)) : bool :=
  has_key k_k l && has_key k_v l && (c_entry_lenient c || (List.length l =? 2)%nat).

Fixpoint j2m (c : cfg) (sc : schema) (j : json) {struct j} : result md :=
  match sc with
  | Detailed =>
      match j with
      | JObj [(k, v)] =>
          if bytes_eqb k k_int then
            match v with
            | JInt _ | JNegZero | JFloat _ => encode_number c v
            | _ => Err
            end
          else if bytes_eqb k k_string then
            match v with JStr s => encode_string s sc | _ => Err end
          else if bytes_eqb k k_bytes then
            match v with
            | JStr s => match unhex s with Some b => new_bytes b | None => Err end
            | _ => Err
            end
          else if bytes_eqb k k_list then
            match v with
            | JArr l => let* xs := mapM (j2m c sc) l in Ok (MList xs)
            | _ => Err
            end
          else if bytes_eqb k k_map then
            match v with
            | JArr es =>
                let* kvs := mapM (fun e =>
                   match e with
                   | JObj l2 =>
                       if entry_shape_ok c l2 then
                         let* mk := on_key k_k (j2m c sc) Err l2 in
                         let* mv := on_key k_v (j2m c sc) Err l2 in
                         Ok (mk, mv)
                       else Err
                   | _ => Err
                   end) es in
                Ok (MMap (lhm_of_list kvs))
            | _ => Err
            end
          else Err
      | _ => Err
      end
  | _ =>
      match j with
      | JNull => Err
      | JBool _ => Err
      | JInt _ | JNegZero | JFloat _ => encode_number c j
      | JStr s => encode_string s sc
      | JArr l => let* xs := mapM (j2m c sc) l in Ok (MList xs)
      | JObj l =>
          let* kvs := mapM (fun kv => match kv with (rk, v) =>
                               let* mk := encode_key c sc rk in
                               let* mv := j2m c sc v in
                               Ok (mk, mv) end) l in
          Ok (MMap (lhm_of_list kvs))
      end
  end.

(* ---------- metadata -> JSON ---------- *)
(* lines 689-697 and 654-660: Int -> u64 / i64 conversion *)
Definition int_json_range (z : Z) : bool :=
  if (0 <=? z)%Z then (z <=? u64_max)%Z else (i64_min <=? z)%Z.

(* lines 645-679 (only reached under NoConversions / BasicConversions; the DetailedSchema arms of the
   Rust function are dead code because detailed maps never call decode_key) *)
Definition decode_key (sc : schema) (k : md) : result bytes :=
  match k with
  | MText s => Ok s
  | MBytes b => match sc with NoConv => Err | _ => Ok (bytes_to_hex_string b) end
  | MInt z => match sc with NoConv => Err | _ => if int_json_range z then Ok (print_Z z) else Err end
  | _ => Err
  end.

Definition wrap (sc : schema) (type_key : bytes) (v : json) : json :=
  match sc with Detailed => JObj [(type_key, v)] | _ => v end.

Fixpoint m2j (sc : schema) (m : md) {struct m} : result json :=
  match m with
  | MMap l =>
      match sc with
      | Detailed =>
          let* es := mapM (fun kv => match kv with (k, v) =>
                              let* jk := m2j sc k in
                              let* jv := m2j sc v in
                              Ok (JObj [(k_k, jk); (k_v, jv)]) end) l in
          Ok (wrap sc k_map (JArr es))
      | _ =>
          let* kvs := mapM (fun kv => match kv with (k, v) =>
                               let* ks := decode_key sc k in
                               let* jv := m2j sc v in
                               Ok (ks, jv) end) l in
          Ok (wrap sc k_map (JObj (obj_of_list kvs)))
      end
  | MList l => let* xs := mapM (m2j sc) l in Ok (wrap sc k_list (JArr xs))
  | MInt z => if int_json_range z then Ok (wrap sc k_int (JInt z)) else Err
  | MBytes b =>
      match sc with
      | NoConv => Err
      | Basic => Ok (wrap sc k_bytes (JStr (bytes_to_hex_string b)))
      | Detailed => Ok (wrap sc k_bytes (JStr (hex b)))
      end
  | MText s => Ok (wrap sc k_string (JStr s))
  end.

(* the current code: all three defects repaired *)
Definition cur_cfg : cfg := {| c_negmin_panics := false; c_key_unchecked := false; c_entry_lenient := false |}.
Definition old_cfg : cfg := {| c_negmin_panics := true; c_key_unchecked := true; c_entry_lenient := true |}.

(* ---------- representation invariant of TransactionMetadatum values ---------- *)
Definition bytes_okb (b : bytes) : bool := forallb (fun x => x <? 256) b.
Fixpoint keys_nodupb (ks : list md) : bool :=
  match ks with [] => true | k :: r => negb (existsb (md_eqb k) r) && keys_nodupb r end.
Definition pairs_all (fk fv : md -> bool) : list (md * md) -> bool :=
  fix go (l : list (md * md)) : bool :=
    match l with [] => true | (k, v) :: r => fk k && fv v && go r end.
Fixpoint md_wf (m : md) : bool :=
  match m with
  | MMap l => keys_nodupb (List.map fst l) && pairs_all md_wf md_wf l
  | MList l => forallb md_wf l
  | MInt _ => true
  | MBytes b => bytes_okb b && (blen b <=? MD_MAX_LEN)
  | MText s => blen s <=? MD_MAX_LEN
  end.

(* ---------- spec side: normal forms, schema domains, known classes ---------- *)
(* maps whose (text) keys are strictly ascending in serde_json's key order, recursively *)
Definition key_text (k : md) : bytes := match k with MText s => s | _ => [] end.
Fixpoint md_sorted (m : md) : bool :=
  match m with
  | MMap l => keys_ascending (List.map (fun kv => (key_text (fst kv), snd kv)) l) &&
              pairs_all (fun _ => true) md_sorted l
  | MList l => forallb md_sorted l
  | _ => true
  end.

(* known class C17-noconv-unsorted-map: some map (at any depth) whose keys are not strictly ascending in the
   byte order of serde_json's sorted objects *)
Definition md_unsorted_map (m : md) : bool := negb (md_sorted m).

Definition lower_hexb (s : bytes) : bool :=
  forallb (fun c => ((48 <=? c) && (c <=? 57)) || ((97 <=? c) && (c <=? 102))) s && N.even (blen s).
Definition num_in_json_range (j : json) : bool :=
  match j with JInt z => in_range i64_min u64_max z | _ => false end.

(* string values in normal form under BasicConversions *)
Definition basic_str_nf (s : bytes) : bool :=
  if starts_with k_0x s then
    match unhex (skipn 2 s) with
    | Some b => lower_hexb (skipn 2 s) && (blen b <=? MD_MAX_LEN)
    | None => blen s <=? MD_MAX_LEN
    end
  else blen s <=? MD_MAX_LEN.
(* object keys in normal form under BasicConversions: the canonical decimal text of an integer that JSON
   can carry, or a string in normal form that does not parse as an integer *)
Definition basic_key_nf (s : bytes) : bool :=
  match parse_i128 s with
  | Some x => if in_range (- u64_max) u64_max x
              then in_range i64_min u64_max x && bytes_eqb (print_Z x) s
              else basic_str_nf s
  | None => basic_str_nf s
  end.

Fixpoint nf_plain (sc : schema) (j : json) : bool :=    (* sc = NoConv or Basic *)
  match j with
  | JNull | JBool _ | JNegZero | JFloat _ => false
  | JInt z => in_range i64_min u64_max z
  | JStr s => match sc with Basic => basic_str_nf s | _ => blen s <=? MD_MAX_LEN end
  | JArr l => forallb (nf_plain sc) l
  | JObj l => obj_all (fun k => match sc with Basic => basic_key_nf k | _ => blen k <=? MD_MAX_LEN end) (nf_plain sc) l
  end.

Fixpoint json_nodupb (l : list json) : bool :=
  match l with [] => true | x :: r => negb (existsb (json_eqb x) r) && json_nodupb r end.

Fixpoint nf_detailed (j : json) : bool :=
  match j with
  | JObj [(k, v)] =>
      if bytes_eqb k k_int then num_in_json_range v
      else if bytes_eqb k k_string then match v with JStr s => blen s <=? MD_MAX_LEN | _ => false end
      else if bytes_eqb k k_bytes then
        match v with JStr s => lower_hexb s && (blen s <=? 2 * MD_MAX_LEN) | _ => false end
      else if bytes_eqb k k_list then match v with JArr l => forallb nf_detailed l | _ => false end
      else if bytes_eqb k k_map then
        match v with
        | JArr es =>
            json_nodupb (List.map (fun e => match e with JObj ((_, kj) :: _) => kj | _ => JNull end) es) &&
            entries_all k_k k_v nf_detailed es
        | _ => false
        end
      else false
  | _ => false
  end.

Definition nf (sc : schema) (j : json) : bool :=
  match sc with Detailed => nf_detailed j | _ => nf_plain sc j end.

(* the documented input language of each schema (the domain on which a conversion is defined) *)
Definition num_in_schema (j : json) : bool :=
  match j with JInt z => in_range i64_min u64_max z | JNegZero => true | _ => false end.
Definition basic_str_dom (s : bytes) : bool :=
  match hex_string_to_bytes s with Some b => blen b <=? MD_MAX_LEN | None => blen s <=? MD_MAX_LEN end.
Definition basic_key_dom (s : bytes) : bool :=
  match parse_i128 s with
  | Some x => in_range (- u64_max) u64_max x || basic_str_dom s
  | None => basic_str_dom s
  end.
Fixpoint dom_plain (sc : schema) (j : json) : bool :=
  match j with
  | JNull | JBool _ => false
  | JInt _ | JNegZero | JFloat _ => num_in_schema j
  | JStr s => match sc with Basic => basic_str_dom s | _ => blen s <=? MD_MAX_LEN end
  | JArr l => forallb (dom_plain sc) l
  | JObj l => obj_all (fun k => match sc with Basic => basic_key_dom k | _ => blen k <=? MD_MAX_LEN end) (dom_plain sc) l
  end.
Fixpoint dom_detailed (j : json) : bool :=
  match j with
  | JObj [(k, v)] =>
      if bytes_eqb k k_int then num_in_schema v
      else if bytes_eqb k k_string then match v with JStr s => blen s <=? MD_MAX_LEN | _ => false end
      else if bytes_eqb k k_bytes then
        match v with JStr s => match unhex s with Some b => blen b <=? MD_MAX_LEN | None => false end | _ => false end
      else if bytes_eqb k k_list then match v with JArr l => forallb dom_detailed l | _ => false end
      else if bytes_eqb k k_map then
        match v with
        | JArr es =>
            entries_all k_k k_v dom_detailed es
        | _ => false
        end
      else false
  | _ => false
  end.
Definition in_schema (sc : schema) (j : json) : bool :=
  match sc with Detailed => dom_detailed j | _ => dom_plain sc j end.
