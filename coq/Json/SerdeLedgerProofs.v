(* The annotations of SerdeLedger.v are well-formed (distinct field and variant names), to every depth of the
   recursive types; instantiation of the generic serde theorems on the table. *)
From CSL Require Import Base.Prelude Base.Hex Codec.Schema Ledger.Schemas Json.Decimal Json.Json Json.Assoc
  Json.SerdeSchema Json.SerdeSchemaProofs Json.SerdeLedger.
Local Open Scope N_scope.

Lemma a_NativeScript_wfj d : wfj (a_NativeScript d) = true.
Proof.
  induction d as [|d IH]; [vm_compute; reflexivity|].
  cbn [a_NativeScript]. cbn [wfj all_wfj_opt all_wfj]. rewrite IH. vm_compute. reflexivity.
Qed.

(* annotations that contain the recursive NativeScript annotation or the (function-valued) embedded converters:
   unfold down to those, then compute *)
Ltac wfj_tac d :=
  cbv [a_GeneralTransactionMetadata a_Metadatum a_ScriptRef a_TransactionOutput a_TransactionOutputs a_TransactionBody
       a_Redeemers a_DataOption a_Datum a_TransactionWitnessSet a_AuxiliaryData a_Transaction a_BootstrapWitness a_NativeScripts a_Block a_Header a_HeaderBody a_VRFCert];
  cbn [wfj all_wfj all_wfj_opt forallb]; rewrite ?a_NativeScript_wfj; vm_compute; reflexivity.

Theorem serde_table_wfj emb unemb d : Forall (fun e => wfj (snd e) = true) (serde_table emb unemb d).
Proof.
  unfold serde_table. repeat (apply Forall_cons; [cbn [snd]; first [apply a_NativeScript_wfj | (cbn [a_NativeScripts wfj]; apply a_NativeScript_wfj) | wfj_tac d]|]).
  apply Forall_nil.
Qed.

(* For every annotated type: JSON written for a value in the annotation's domain whose maps were filled in ascending
   key order reads back as that value - hence == and the same CBOR bytes - whatever the external string functions. *)
Theorem serde_table_roundtrip (ext_str : N -> bytes -> bytes) (ext_of_str : N -> bytes -> option bytes) emb unemb d name s a v :
  In (name, s, a) (serde_table emb unemb d) ->
  jwf ext_str ext_of_str a v = true -> canonical ext_str a v = true ->
  exists v', of_json_s ext_of_str a (json_s ext_str a v) = Ok v' /\ v' = v /\ enc s v' = enc s v.
Proof.
  intros Hin Hv Hc. exists v. split; [|split; reflexivity]. apply serde_roundtrip; [|exact Hv|exact Hc].
  pose proof (serde_table_wfj emb unemb d) as W. rewrite Forall_forall in W. exact (W _ Hin).
Qed.

(* non-vacuity: values of several annotated types inside the premises (placeholder external strings) *)
Definition ex_value : val :=
  VAlt 1 (VList [VNat 5; VMap [(VBytes (List.repeat 1 28%nat), VMap [(VBytes [], VNat 7); (VBytes [1; 2], VNat 18446744073709551615)]);
                               (VBytes (List.repeat 2 28%nat), VMap [(VBytes [255], VNat 1)])]]).
Example ex_value_ok : wfv Value ex_value = true /\ jwf ph_str ph_of_str a_Value ex_value = true /\ canonical ph_str a_Value ex_value = true.
Proof. repeat split; vm_compute; reflexivity. Qed.
Definition ex_cert : val :=
  VVar 16 [VVar 1 [VBytes (List.repeat 9 28%nat)]; VNat 2000000; VList [VText [104; 116; 116; 112]; VBytes (List.repeat 3 32%nat)]].
Example ex_cert_ok : wfv Certificate ex_cert = true /\ jwf ph_str ph_of_str a_Certificate ex_cert = true /\ canonical ph_str a_Certificate ex_cert = true.
Proof. repeat split; vm_compute; reflexivity. Qed.
Definition ex_withdrawals : val :=
  VMap [(VBytes (225 :: List.repeat 1 28%nat), VNat 1); (VBytes (225 :: List.repeat 2 28%nat), VNat 2)].
Example ex_withdrawals_ok : wfv Withdrawals ex_withdrawals = true /\ jwf ph_str ph_of_str a_Withdrawals ex_withdrawals = true /\
                            canonical ph_str a_Withdrawals ex_withdrawals = true.
Proof. repeat split; vm_compute; reflexivity. Qed.
(* ... and a value outside the premise: the same withdrawals inserted in the other order come back re-ordered *)
Definition ex_withdrawals_rev : val :=
  VMap [(VBytes (225 :: List.repeat 2 28%nat), VNat 2); (VBytes (225 :: List.repeat 1 28%nat), VNat 1)].
Example ex_withdrawals_rev_reordered :
  canonical ph_str a_Withdrawals ex_withdrawals_rev = false /\
  of_json_s ph_of_str a_Withdrawals (json_s ph_str a_Withdrawals ex_withdrawals_rev) = Ok ex_withdrawals.
Proof. split; vm_compute; reflexivity. Qed.
