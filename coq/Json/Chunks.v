(* Model of rust/src/protocol_types/metadata.rs:421-445: encode_arbitrary_bytes_as_metadatum /
   decode_arbitrary_bytes_from_metadatum.  Definitions only; lemmas in ChunksProofs.v. *)
From CSL Require Import Base.Prelude Json.Json Json.MetadataJson.
Local Open Scope N_scope.

(* [slice::chunks(64)]: consecutive pieces of 64 bytes, the last one shorter; nothing for the empty slice.
   The fuel is the length of the input (each step consumes at least one byte). *)
Fixpoint chunks_fuel (fuel : nat) (bs : bytes) : list bytes :=
  match fuel with
  | O => []
  | S f => match bs with [] => [] | _ :: _ => firstn 64 bs :: chunks_fuel f (skipn 64 bs) end
  end.
Definition chunks (bs : bytes) : list bytes := chunks_fuel (List.length bs) bs.

(* new_bytes(chunk).unwrap(): a chunk longer than 64 bytes would be a panic *)
Definition chunk_md (ch : bytes) : result md :=
  match new_bytes ch with Ok m => Ok m | _ => Panic end.
Definition encode_arbitrary_bytes (bs : bytes) : result md :=
  let* l := mapM chunk_md (chunks bs) in Ok (MList l).

Definition decode_arbitrary_bytes (m : md) : result bytes :=
  match m with
  | MList l =>
      (fix go (l : list md) : result bytes :=
         match l with
         | [] => Ok []
         | MBytes b :: r => let* t := go r in Ok (b ++ t)
         | _ :: _ => Err
         end) l
  | _ => Err
  end.
