(* Lemmas about Json.v: the byte-string order, sorted-object insertion, induction principle, mapM. *)
From CSL Require Import Base.Prelude Json.Json.
Local Open Scope N_scope.

(* ---------- bytes_cmp is a strict total order ---------- *)
Lemma bytes_cmp_refl a : bytes_cmp a a = Eq.
Proof. induction a as [|x a IH]; cbn; [reflexivity|]. now rewrite N.compare_refl. Qed.

Lemma bytes_cmp_eq a : forall b, bytes_cmp a b = Eq -> a = b.
Proof.
  induction a as [|x a IH]; intros [|y b]; cbn; try discriminate; [reflexivity|].
  destruct (N.compare x y) eqn:E; try discriminate.
  apply N.compare_eq in E. intros H. f_equal; auto.
Qed.

Lemma bytes_eqb_eq a b : bytes_eqb a b = true <-> a = b.
Proof.
  unfold bytes_eqb. split.
  - destruct (bytes_cmp a b) eqn:E; try discriminate. intros _. now apply bytes_cmp_eq.
  - intros ->. now rewrite bytes_cmp_refl.
Qed.
Lemma bytes_eqb_refl a : bytes_eqb a a = true.
Proof. now apply bytes_eqb_eq. Qed.
Lemma bytes_eqb_neq a b : bytes_eqb a b = false <-> a <> b.
Proof.
  split.
  - intros H E. apply bytes_eqb_eq in E. congruence.
  - intros H. destruct (bytes_eqb a b) eqn:E; [apply bytes_eqb_eq in E; contradiction|reflexivity].
Qed.

Lemma bytes_cmp_antisym a : forall b, bytes_cmp b a = CompOpp (bytes_cmp a b).
Proof.
  induction a as [|x a IH]; intros [|y b]; cbn; try reflexivity.
  rewrite (N.compare_antisym x y). destruct (N.compare x y); cbn; auto.
Qed.

Lemma bytes_cmp_lt_trans a : forall b c, bytes_cmp a b = Lt -> bytes_cmp b c = Lt -> bytes_cmp a c = Lt.
Proof.
  induction a as [|x a IH]; intros [|y b] [|z c]; cbn; try discriminate; try reflexivity.
  destruct (N.compare x y) eqn:E1; try discriminate.
  - apply N.compare_eq in E1. subst y. destruct (N.compare x z); try discriminate; eauto.
  - intros _. destruct (N.compare y z) eqn:E2; try discriminate.
    + apply N.compare_eq in E2. subst z. now rewrite E1.
    + intros _. rewrite N.compare_lt_iff in *. assert (H : x < z) by lia.
      apply N.compare_lt_iff in H. now rewrite H.
Qed.

Lemma bytes_ltb_trans a b c : bytes_ltb a b = true -> bytes_ltb b c = true -> bytes_ltb a c = true.
Proof.
  unfold bytes_ltb. destruct (bytes_cmp a b) eqn:E1; try discriminate.
  destruct (bytes_cmp b c) eqn:E2; try discriminate. intros _ _.
  now rewrite (bytes_cmp_lt_trans _ _ _ E1 E2).
Qed.
Lemma bytes_ltb_irrefl a : bytes_ltb a a = false.
Proof. unfold bytes_ltb. now rewrite bytes_cmp_refl. Qed.
Lemma bytes_ltb_gt a b : bytes_ltb a b = true -> bytes_cmp b a = Gt.
Proof.
  unfold bytes_ltb. rewrite (bytes_cmp_antisym a b). destruct (bytes_cmp a b); try discriminate. reflexivity.
Qed.

(* ---------- sorted objects ---------- *)
Definition all_lt {A} (l : list (bytes * A)) (k : bytes) : Prop := Forall (fun kv => bytes_ltb (fst kv) k = true) l.

Lemma obj_insert_last k v l : all_lt l k -> obj_insert k v l = l ++ [(k, v)].
Proof.
  induction 1 as [|[k' v'] r H _ IH]; [reflexivity|]. cbn [obj_insert app]. cbn [fst] in H.
  rewrite (bytes_ltb_gt _ _ H). now rewrite IH.
Qed.

Lemma keys_ascending_cons {A} k (v : A) r :
  keys_ascending ((k, v) :: r) = true ->
  keys_ascending r = true /\ Forall (fun kv => bytes_ltb k (fst kv) = true) r.
Proof.
  revert k v. induction r as [|[k' v'] r IH]; intros k v H; [split; [reflexivity|constructor]|].
  cbn [keys_ascending] in H. apply andb_prop in H as [H1 H2]. split; [exact H2|].
  constructor; [exact H1|]. destruct (IH k' v' H2) as [_ F].
  eapply Forall_impl; [|exact F]. intros kv Hk. eapply bytes_ltb_trans; eauto.
Qed.

Lemma obj_of_list_sorted_gen l : forall acc,
  keys_ascending (acc ++ l) = true ->
  fold_left (fun acc kv => obj_insert (fst kv) (snd kv) acc) l acc = acc ++ l.
Proof.
  induction l as [|[k v] r IH]; intros acc H; cbn [fold_left]; [now rewrite app_nil_r|].
  cbn [fst snd]. rewrite obj_insert_last.
  - rewrite IH; rewrite <- app_assoc; [reflexivity|exact H].
  - clear IH. induction acc as [|[k' v'] acc IHa]; [constructor|].
    cbn [app] in H. pose proof (keys_ascending_cons _ _ _ H) as [H1 H2].
    constructor.
    + cbn [fst]. rewrite Forall_app in H2. destruct H2 as [_ H2]. now inversion H2.
    + now apply IHa.
Qed.

Theorem obj_of_list_sorted l : keys_ascending l = true -> obj_of_list l = l.
Proof. intros H. unfold obj_of_list. now rewrite obj_of_list_sorted_gen. Qed.

Lemma keys_ascending_map_snd {A B} (f : A -> B) (l : list (bytes * A)) :
  keys_ascending (List.map (fun kv => (fst kv, f (snd kv))) l) = keys_ascending l.
Proof.
  induction l as [|[k v] r IH]; [reflexivity|]. destruct r as [|[k' v'] r']; [reflexivity|].
  cbn [List.map keys_ascending fst snd] in *. now rewrite IH.
Qed.

(* ---------- induction principle for the nested type ---------- *)
Section JsonInd.
  Variable P : json -> Prop.
  Hypothesis HNull : P JNull.
  Hypothesis HBool : forall b, P (JBool b).
  Hypothesis HInt : forall z, P (JInt z).
  Hypothesis HNegZero : P JNegZero.
  Hypothesis HFloat : forall l, P (JFloat l).
  Hypothesis HStr : forall s, P (JStr s).
  Hypothesis HArr : forall l, Forall P l -> P (JArr l).
  Hypothesis HObj : forall l, Forall (fun kv => P (snd kv)) l -> P (JObj l).
  Fixpoint json_ind' (j : json) : P j :=
    match j with
    | JNull => HNull | JBool b => HBool b | JInt z => HInt z | JNegZero => HNegZero
    | JFloat l => HFloat l | JStr s => HStr s
    | JArr l => HArr l ((fix go (l : list json) : Forall P l :=
                          match l with [] => Forall_nil _ | x :: r => Forall_cons _ (json_ind' x) (go r) end) l)
    | JObj l => HObj l ((fix go (l : list (bytes * json)) : Forall (fun kv => P (snd kv)) l :=
                          match l with [] => Forall_nil _ | (k, v) :: r => Forall_cons (k, v) (json_ind' v) (go r) end) l)
    end.
End JsonInd.

(* ---------- json_eqb decides equality ---------- *)
Lemma json_eqb_eq a : forall b, json_eqb a b = true <-> a = b.
Proof.
  induction a using json_ind'; intros [] ; cbn [json_eqb]; try (split; [discriminate|discriminate]); try (split; reflexivity).
  - rewrite Bool.eqb_true_iff. split; [now intros ->|now intros [= ->]].
  - rewrite Z.eqb_eq. split; [now intros ->|now intros [= ->]].
  - rewrite bytes_eqb_eq. split; [now intros ->|now intros [= ->]].
  - rewrite bytes_eqb_eq. split; [now intros ->|now intros [= ->]].
  - rename l0 into l2. revert l2. induction H as [|x r Hx _ IH]; intros [|y l2]; try (split; [discriminate|discriminate]); [split; reflexivity|].
    rewrite andb_true_iff, Hx. specialize (IH l2). split.
    + intros [-> H2]. apply IH in H2. now inversion H2.
    + intros [= -> ->]. split; [reflexivity|]. now apply IH.
  - rename l0 into l2. revert l2. induction H as [|[k x] r Hx _ IH]; intros [|[k2 y] l2]; try (split; [discriminate|discriminate]); [split; reflexivity|].
    rewrite !andb_true_iff, bytes_eqb_eq. cbn [snd] in Hx. rewrite Hx. specialize (IH l2). split.
    + intros [[-> ->] H2]. apply IH in H2. now inversion H2.
    + intros [= -> -> ->]. repeat split. now apply IH.
Qed.
Lemma json_eqb_refl a : json_eqb a a = true.
Proof. now apply json_eqb_eq. Qed.

(* ---------- mapM ---------- *)
Lemma mapM_ok_Forall2 {A B} (f : A -> result B) l : forall ys,
  mapM f l = Ok ys -> Forall2 (fun x y => f x = Ok y) l ys.
Proof.
  induction l as [|x r IH]; cbn [mapM]; intros ys H; [inversion H; constructor|].
  destruct (f x) eqn:E; try discriminate. cbn [bind] in H.
  destruct (mapM f r) eqn:E2; try discriminate. cbn [bind] in H. inversion H; subst. constructor; auto.
Qed.

Lemma Forall2_mapM {A B} (f : A -> result B) l ys :
  Forall2 (fun x y => f x = Ok y) l ys -> mapM f l = Ok ys.
Proof. induction 1 as [|x y l ys H _ IH]; cbn [mapM]; [reflexivity|]. now rewrite H, IH. Qed.

Lemma mapM_ext_in {A B} (f g : A -> result B) l :
  Forall (fun x => f x = g x) l -> mapM f l = mapM g l.
Proof. induction 1 as [|x r H _ IH]; cbn [mapM]; [reflexivity|]. now rewrite H, IH. Qed.

Lemma on_key_get {B} key (f : json -> result B) d l :
  on_key key f d l = match obj_get key l with Some v => f v | None => d end.
Proof. induction l as [|[k v] r IH]; cbn [on_key obj_get]; [reflexivity|]. destruct (bytes_eqb k key); auto. Qed.

(* ---------- a size measure for well-founded arguments over the nested type ---------- *)
Fixpoint jsize (j : json) : nat :=
  match j with
  | JArr l => S ((fix go (l : list json) : nat := match l with [] => 0%nat | x :: r => (jsize x + go r)%nat end) l)
  | JObj l => S ((fix go (l : list (bytes * json)) : nat := match l with [] => 0%nat | (_, v) :: r => (jsize v + go r)%nat end) l)
  | _ => 1%nat
  end.
Lemma jsize_arr_in x l : In x l -> (jsize x < jsize (JArr l))%nat.
Proof.
  cbn [jsize]. induction l as [|y r IH]; [intros []|]. intros [->|H]; [lia|]. specialize (IH H). lia.
Qed.
Lemma jsize_obj_in k v l : In (k, v) l -> (jsize v < jsize (JObj l))%nat.
Proof.
  cbn [jsize]. induction l as [|[k' y] r IH]; [intros []|]. intros [[= -> ->]|H]; [lia|]. specialize (IH H). lia.
Qed.
