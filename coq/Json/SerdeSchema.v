(* The serde JSON form of the typed ledger values ([T::to_json] / [T::from_json],
   serialization_macros.rs:110-133), as an annotation language [jshape] interpreted over the value trees [val]
   of the C01 schemas (Codec/Schema.v): [json_s a v] is the JSON tree serde writes for the value v of a type
   annotated a, [of_json_s a j] the value serde reads back, [norm a v] the value that comes back from
   [json_s a v] (maps re-ordered by the key order of the Rust BTreeMap they pass through, isomorphic
   re-packings undone), [jwf] the values in the domain of the shape, [canonical] the premise of the property
   ("map-typed parts filled in ascending key order", default wire forms).
   Strings produced by external code (bech32 text of addresses and keys) are two parameters [ext_str] /
   [ext_of_str]; no law is assumed about them: [jwf] asks that they round-trip ON THE VALUE AT HAND.
   Definitions only; the generic theorems are in SerdeSchemaProofs.v, the per-type annotations in SerdeLedger.v. *)
From CSL Require Import Base.Prelude Base.Hex Codec.Schema Json.Decimal Json.Json Json.Assoc.
Local Open Scope N_scope.

Inductive leaf :=
| LNumStr                 (* VNat n            <-> "n"  (BigNum and other u64 written as decimal strings) *)
| LNum (lim : N)          (* VNat n, n < lim   <-> n    (u32 / u16 / u8 fields written as JSON numbers) *)
| LIntStr                 (* Int: VAlt 0 (VNat n) <-> "n", VAlt 1 (VNeg n) <-> "-(n+1)" *)
| LHex (lo hi : N)        (* VBytes b          <-> lower-case hex string *)
| LByteArr (lo hi : N)    (* VBytes b          <-> [b0, b1, ...]  (Vec<u8> fields without a string form) *)
| LText (hi : N)          (* VText b           <-> string *)
| LBool
| LExt (id : N)           (* VBytes b          <-> string produced by external code (bech32) *)
| LEnumStr (names : list bytes).   (* VNat i     <-> the i-th name (field-less enum used as a map key) *)

Inductive jshape :=
| JLeaf (l : leaf)
| JRec (fs : list (bytes * jshape))              (* VList [v1..vn]  <-> {name_i: v_i} *)
| JOptRec (fs : list (bytes * jshape))           (* VStruct [o1..on] <-> {name_i: v_i | null} *)
| JEnum (vs : list (bytes * option jshape))      (* VVar i l <-> "Name_i" (no payload) | {"Name_i": payload of (VList l)} *)
| JSingle (a : jshape)                           (* VList [v] <-> v   (payload of a newtype variant) *)
| JSeq (a : jshape)                              (* VList l  <-> [..] *)
| JTuple (fs : list jshape)                      (* VList [v1..vn] <-> [v1, .., vn] *)
| JMapObj (k : leaf) (okey : val -> bytes) (a : jshape)
                                                 (* VMap l <-> {key string: value}; read back in the order of [okey] *)
| JNullable (a : jshape)                         (* VNull <-> null *)
| JIso (f g : val -> val) (a : jshape)           (* v <-> json of (f v); read back through g *)
| JCustom (w : val -> json) (r : json -> result val).
                                                 (* a hand-written Serialize / Deserialize pair (embedded datum / metadatum JSON) *)

Fixpoint name_index (s : bytes) (names : list bytes) (i : N) : option N :=
  match names with [] => None | n :: r => if bytes_eqb n s then Some i else name_index s r (i + 1) end.

Definition is_jnull (j : json) : bool := match j with JNull => true | _ => false end.
Definition is_nullable (a : jshape) : bool := match a with JNullable _ => true | _ => false end.

(* ---------- traversal combinators (top-level so that lemmas can name them) ---------- *)
Definition zip_fields {B} (f : jshape -> val -> B) : list (bytes * jshape) -> list val -> list (bytes * B) :=
  fix go (fs : list (bytes * jshape)) (vs : list val) : list (bytes * B) :=
    match fs, vs with
    | (n, a') :: fr, x :: xr => (n, f a' x) :: go fr xr
    | _, _ => []
    end.
Definition zip_ofields {B} (f : jshape -> option val -> B) : list (bytes * jshape) -> list (option val) -> list (bytes * B) :=
  fix go (fs : list (bytes * jshape)) (os : list (option val)) : list (bytes * B) :=
    match fs, os with
    | (n, a') :: fr, o :: orr => (n, f a' o) :: go fr orr
    | _, _ => []
    end.
Definition zip_shapes {B} (f : jshape -> val -> B) : list jshape -> list val -> list B :=
  fix go (fs : list jshape) (vs : list val) : list B :=
    match fs, vs with
    | a' :: fr, x :: xr => f a' x :: go fr xr
    | _, _ => []
    end.
(* all fields satisfy f; [strict]: the lists must have the same length *)
Definition all_fields (strict : bool) (f : jshape -> val -> bool) : list (bytes * jshape) -> list val -> bool :=
  fix go (fs : list (bytes * jshape)) (vs : list val) : bool :=
    match fs, vs with
    | [], [] => true
    | (_, a') :: fr, x :: xr => f a' x && go fr xr
    | _, _ => negb strict
    end.
Definition all_ofields (strict : bool) (f : jshape -> option val -> bool) : list (bytes * jshape) -> list (option val) -> bool :=
  fix go (fs : list (bytes * jshape)) (os : list (option val)) : bool :=
    match fs, os with
    | [], [] => true
    | (_, a') :: fr, o :: orr => f a' o && go fr orr
    | _, _ => negb strict
    end.
Definition all_shapes (strict : bool) (f : jshape -> val -> bool) : list jshape -> list val -> bool :=
  fix go (fs : list jshape) (vs : list val) : bool :=
    match fs, vs with
    | [], [] => true
    | a' :: fr, x :: xr => f a' x && go fr xr
    | _, _ => negb strict
    end.
Definition pick_variant {B} (dflt : B) (f : bytes -> option jshape -> B) : list (bytes * option jshape) -> nat -> B :=
  fix pick (vs : list (bytes * option jshape)) (i : nat) : B :=
    match vs, i with
    | (n, p) :: _, O => f n p
    | _ :: r, S i' => pick r i'
    | [], _ => dflt
    end.
Definition find_variant (s : bytes) (f : nat -> option jshape -> result val) : list (bytes * option jshape) -> nat -> result val :=
  fix find (vs : list (bytes * option jshape)) (i : nat) : result val :=
    match vs with
    | [] => Err
    | (n, p) :: r => if bytes_eqb n s then f i p else find r (S i)
    end.
Definition read_fields {B} (f : jshape -> option json -> result B) (l : list (bytes * json)) : list (bytes * jshape) -> result (list B) :=
  fix go (fs : list (bytes * jshape)) : result (list B) :=
    match fs with
    | [] => Ok []
    | (n, a') :: fr => let* x := f a' (obj_get n l) in let* xs := go fr in Ok (x :: xs)
    end.
Definition read_tuple (f : jshape -> json -> result val) : list jshape -> list json -> result (list val) :=
  fix go (fs : list jshape) (l : list json) : result (list val) :=
    match fs, l with
    | [], [] => Ok []
    | a' :: fr, x :: xr => let* y := f a' x in let* ys := go fr xr in Ok (y :: ys)
    | _, _ => Err
    end.
Definition all_wfj (f : jshape -> bool) : list (bytes * jshape) -> bool :=
  fix go (fs : list (bytes * jshape)) : bool := match fs with [] => true | (_, a') :: r => f a' && go r end.
Definition all_wfj_opt (f : jshape -> bool) : list (bytes * option jshape) -> bool :=
  fix go (vs : list (bytes * option jshape)) : bool :=
    match vs with [] => true | (_, p) :: r => (match p with Some a' => f a' | None => true end) && go r end.

Section Ext.
  Variable ext_str : N -> bytes -> bytes.
  Variable ext_of_str : N -> bytes -> option bytes.

  (* ---------- leaves ---------- *)
  Definition leaf_str (l : leaf) (v : val) : option bytes :=
    match l, v with
    | LNumStr, VNat n => Some (print_Z (Z.of_N n))
    | LIntStr, VAlt O (VNat n) => Some (print_Z (Z.of_N n))
    | LIntStr, VAlt (S O) (VNeg n) => Some (print_Z (- Z.of_N n - 1))
    | LHex _ _, VBytes b => Some (hex b)
    | LText _, VText b => Some b
    | LExt id, VBytes b => Some (ext_str id b)
    | LEnumStr names, VNat i => nth_error names (N.to_nat i)
    | _, _ => None
    end.
  Definition leaf_of_str (l : leaf) (s : bytes) : result val :=
    match l with
    | LNumStr => match parse_unsigned s with
                 | Some z => if (z <=? u64_max)%Z then Ok (VNat (Z.to_N z)) else Err
                 | None => Err
                 end
    | LIntStr => match parse_i128 s with
                 | Some x => if in_range (- two64Z) u64_max x
                             then Ok (if (0 <=? x)%Z then VAlt 0 (VNat (Z.to_N x)) else VAlt 1 (VNeg (Z.to_N (- x - 1))))
                             else Err
                 | None => Err
                 end
    | LHex lo hi => match unhex s with
                    | Some b => if (lo <=? blen b) && (blen b <=? hi) then Ok (VBytes b) else Err
                    | None => Err
                    end
    | LText hi => if blen s <=? hi then Ok (VText s) else Err
    | LExt id => match ext_of_str id s with Some b => Ok (VBytes b) | None => Err end
    | LEnumStr names => match name_index s names 0 with Some i => Ok (VNat i) | None => Err end
    | _ => Err
    end.
  Definition leaf_json (l : leaf) (v : val) : json :=
    match l, v with
    | LNum _, VNat n => JInt (Z.of_N n)
    | LBool, VBool b => JBool b
    | LByteArr _ _, VBytes b => JArr (List.map (fun x => JInt (Z.of_N x)) b)
    | _, _ => match leaf_str l v with Some s => JStr s | None => JNull end
    end.
  Definition byte_of_json (x : json) : result N :=
    match x with JInt z => if in_range 0 255 z then Ok (Z.to_N z) else Err | _ => Err end.
  Definition leaf_of_json (l : leaf) (j : json) : result val :=
    match l, j with
    | LNum lim, JInt z => if (0 <=? z)%Z && (z <? Z.of_N lim)%Z then Ok (VNat (Z.to_N z)) else Err
    | LBool, JBool b => Ok (VBool b)
    | LByteArr lo hi, JArr xs =>
        let* bs := mapM byte_of_json xs in
        if (lo <=? blen bs) && (blen bs <=? hi) then Ok (VBytes bs) else Err
    | LNum _, _ | LBool, _ | LByteArr _ _, _ => Err
    | _, JStr s => leaf_of_str l s
    | _, _ => Err
    end.
  Definition bytes_val_okb (b : bytes) : bool := forallb (fun x => x <? 256) b.
  Definition leaf_wf (l : leaf) (v : val) : bool :=
    match l, v with
    | LNumStr, VNat n => n <? two64
    | LNum lim, VNat n => n <? lim
    | LIntStr, VAlt O (VNat n) => n <? two64
    | LIntStr, VAlt (S O) (VNeg n) => n <? two64
    | LHex lo hi, VBytes b => bytes_val_okb b && (lo <=? blen b) && (blen b <=? hi)
    | LByteArr lo hi, VBytes b => bytes_val_okb b && (lo <=? blen b) && (blen b <=? hi)
    | LText hi, VText b => blen b <=? hi
    | LBool, VBool _ => true
    | LExt id, VBytes b => match ext_of_str id (ext_str id b) with Some b' => bytes_eqb b' b | None => false end
    | LEnumStr names, VNat i =>
        match nth_error names (N.to_nat i) with
        | Some s => match name_index s names 0 with Some j => j =? i | None => false end
        | None => false
        end
    | _, _ => false
    end.

  (* ---------- serde writes ---------- *)
  Fixpoint json_s (a : jshape) (v : val) {struct a} : json :=
    match a with
    | JLeaf l => leaf_json l v
    | JRec fs => match v with VList vs => JObj (obj_of_list (zip_fields json_s fs vs)) | _ => JNull end
    | JOptRec fs =>
        match v with
        | VStruct os =>
            JObj (obj_of_list (zip_ofields (fun a' o => match o with Some x => json_s a' x | None => JNull end) fs os))
        | _ => JNull
        end
    | JEnum vs =>
        match v with
        | VVar i l =>
            pick_variant JNull (fun n p => match p with None => JStr n | Some a' => JObj [(n, json_s a' (VList l))] end) vs i
        | _ => JNull
        end
    | JSingle a' => match v with VList [x] => json_s a' x | _ => JNull end
    | JSeq a' => match v with VList l => JArr (List.map (json_s a') l) | _ => JNull end
    | JTuple fs => match v with VList vs => JArr (zip_shapes json_s fs vs) | _ => JNull end
    | JMapObj k _ a' =>
        match v with
        | VMap l =>
            JObj (obj_of_list (List.map (fun kv => (match leaf_str k (fst kv) with Some s => s | None => [] end,
                                                     json_s a' (snd kv))) l))
        | _ => JNull
        end
    | JNullable a' => match v with VNull => JNull | _ => json_s a' v end
    | JIso f _ a' => json_s a' (f v)
    | JCustom w _ => w v
    end.

  (* ---------- serde reads ---------- *)
  (* entries read from a JSON object, re-inserted into the Rust BTreeMap: order of [okey], a later entry with an
     equal key replaces the earlier one *)
  Definition osort (okey : val -> bytes) (l : list (val * val)) : list (val * val) :=
    List.map snd (aof_list (List.map (fun kv => (okey (fst kv), kv)) l)).

  Fixpoint of_json_s (a : jshape) (j : json) {struct a} : result val :=
    match a with
    | JLeaf l => leaf_of_json l j
    | JRec fs =>
        match j with
        | JObj l =>
            let* vs := read_fields (fun a' o => match o with
                                                | Some jx => of_json_s a' jx
                                                | None => if is_nullable a' then Ok VNull else Err   (* a missing Option field *)
                                                end) l fs in
            Ok (VList vs)
        | _ => Err
        end
    | JOptRec fs =>
        match j with
        | JObj l =>
            let* os := read_fields (fun a' o => match o with
                                                | Some JNull | None => Ok None
                                                | Some jx => let* x := of_json_s a' jx in Ok (Some x)
                                                end) l fs in
            Ok (VStruct os)
        | _ => Err
        end
    | JEnum vs =>
        match j with
        | JStr s => find_variant s (fun i p => match p with None => Ok (VVar i []) | Some _ => Err end) vs O
        | JObj [(s, jp)] =>
            find_variant s (fun i p => match p with
                                       | Some a' => let* pv := of_json_s a' jp in
                                                    match pv with VList l => Ok (VVar i l) | _ => Err end
                                       | None => Err
                                       end) vs O
        | _ => Err
        end
    | JSingle a' => let* x := of_json_s a' j in Ok (VList [x])
    | JSeq a' => match j with JArr l => let* xs := mapM (of_json_s a') l in Ok (VList xs) | _ => Err end
    | JTuple fs => match j with JArr l => let* vs := read_tuple of_json_s fs l in Ok (VList vs) | _ => Err end
    | JMapObj k okey a' =>
        match j with
        | JObj l =>
            let* es := mapM (fun e => match e with (ks, jv) =>
                               let* kv := leaf_of_str k ks in
                               let* vv := of_json_s a' jv in
                               Ok (kv, vv) end) l in
            Ok (VMap (osort okey es))
        | _ => Err
        end
    | JNullable a' => match j with JNull => Ok VNull | _ => of_json_s a' j end
    | JIso _ g a' => let* x := of_json_s a' j in Ok (g x)
    | JCustom _ r => r j
    end.

  (* ---------- what comes back ---------- *)
  Definition key_str (k : leaf) (x : val) : bytes := match leaf_str k x with Some s => s | None => [] end.
  Definition as_var (i : nat) (dflt : val) (v : val) : val := match v with VList l' => VVar i l' | _ => dflt end.

  Fixpoint norm_s (a : jshape) (v : val) {struct a} : val :=
    match a with
    | JLeaf _ => v
    | JRec fs => match v with VList vs => VList (List.map snd (zip_fields norm_s fs vs)) | _ => v end
    | JOptRec fs =>
        match v with
        | VStruct os =>
            VStruct (List.map snd (zip_ofields (fun a' o => match o with Some x => Some (norm_s a' x) | None => None end) fs os))
        | _ => v
        end
    | JEnum vs =>
        match v with
        | VVar i l =>
            pick_variant v (fun _ p => match p with
                                       | None => VVar i []
                                       | Some a' => as_var i v (norm_s a' (VList l))
                                       end) vs i
        | _ => v
        end
    | JSingle a' => match v with VList [x] => VList [norm_s a' x] | _ => v end
    | JSeq a' => match v with VList l => VList (List.map (norm_s a') l) | _ => v end
    | JTuple fs => match v with VList vs => VList (zip_shapes norm_s fs vs) | _ => v end
    | JMapObj k okey a' =>
        match v with
        | VMap l =>
            VMap (osort okey
                    (List.map (fun e => (fst (snd e), norm_s a' (snd (snd e))))
                       (aof_list (List.map (fun kv => (key_str k (fst kv), kv)) l))))
        | _ => v
        end
    | JNullable a' => match v with VNull => VNull | _ => norm_s a' v end
    | JIso f g a' => g (norm_s a' (f v))
    | JCustom w r => match r (w v) with Ok v' => v' | _ => v end
    end.

  (* ---------- domain ---------- *)
  Definition is_vlist (v : val) : bool := match v with VList _ => true | _ => false end.
  Fixpoint jwf (a : jshape) (v : val) {struct a} : bool :=
    match a with
    | JLeaf l => leaf_wf l v
    | JRec fs => match v with VList vs => all_fields true jwf fs vs | _ => false end
    | JOptRec fs =>
        match v with
        | VStruct os =>
            all_ofields true (fun a' o => match o with
                                          | Some x => jwf a' x && negb (is_jnull (json_s a' x))
                                          | None => true
                                          end) fs os
        | _ => false
        end
    | JEnum vs =>
        match v with
        | VVar i l =>
            pick_variant false (fun _ p => match p with
                                           | None => match l with [] => true | _ => false end
                                           | Some a' => jwf a' (VList l) && is_vlist (norm_s a' (VList l))
                                           end) vs i
        | _ => false
        end
    | JSingle a' => match v with VList [x] => jwf a' x | _ => false end
    | JSeq a' => match v with VList l => forallb (jwf a') l | _ => false end
    | JTuple fs => match v with VList vs => all_shapes true jwf fs vs | _ => false end
    | JMapObj k _ a' =>
        match v with
        | VMap l =>
            forallb (fun kv => leaf_wf k (fst kv) &&
                               (match leaf_str k (fst kv) with Some _ => true | None => false end) &&
                               jwf a' (snd kv)) l
        | _ => false
        end
    | JNullable a' => match v with VNull => true | _ => jwf a' v && negb (is_jnull (json_s a' v)) end
    | JIso f _ a' => jwf a' (f v)
    | JCustom w r => is_ok (r (w v))
    end.

  (* ---------- decidable equality on values (used by [canonical] at JIso nodes) ---------- *)
  Definition leqb {A} (f : A -> A -> bool) : list A -> list A -> bool :=
    fix go (x y : list A) : bool :=
      match x, y with
      | [], [] => true
      | a :: x', b :: y' => f a b && go x' y'
      | _, _ => false
      end.
  Fixpoint val_eqb (a b : val) {struct a} : bool :=
    match a, b with
    | VNat x, VNat y => x =? y
    | VNeg x, VNeg y => x =? y
    | VBytes x, VBytes y => bytes_eqb x y
    | VText x, VText y => bytes_eqb x y
    | VBool x, VBool y => Bool.eqb x y
    | VNull, VNull => true
    | VList x, VList y => leqb val_eqb x y
    | VStruct x, VStruct y =>
        leqb (fun p q => match p, q with Some u, Some w => val_eqb u w | None, None => true | _, _ => false end) x y
    | VVar i x, VVar j y => Nat.eqb i j && leqb val_eqb x y
    | VMap x, VMap y => leqb (fun p q => match p, q with (k1, v1), (k2, v2) => val_eqb k1 k2 && val_eqb v1 v2 end) x y
    | VAlt i x, VAlt j y => Nat.eqb i j && val_eqb x y
    | _, _ => false
    end.

  (* ---------- the premise of the property ---------- *)
  Fixpoint bytes_nodupb (l : list bytes) : bool :=
    match l with [] => true | x :: r => negb (existsb (bytes_eqb x) r) && bytes_nodupb r end.

  Fixpoint canonical (a : jshape) (v : val) {struct a} : bool :=
    match a with
    | JLeaf _ => true
    | JRec fs => match v with VList vs => all_fields false canonical fs vs | _ => true end
    | JOptRec fs =>
        match v with
        | VStruct os => all_ofields false (fun a' o => match o with Some x => canonical a' x | None => true end) fs os
        | _ => true
        end
    | JEnum vs =>
        match v with
        | VVar i l => pick_variant true (fun _ p => match p with None => true | Some a' => canonical a' (VList l) end) vs i
        | _ => true
        end
    | JSingle a' => match v with VList [x] => canonical a' x | _ => true end
    | JSeq a' => match v with VList l => forallb (canonical a') l | _ => true end
    | JTuple fs => match v with VList vs => all_shapes false canonical fs vs | _ => true end
    | JMapObj k okey a' =>
        match v with
        | VMap l =>
            keys_ascending (List.map (fun kv => (okey (fst kv), kv)) l) &&          (* filled in ascending key order *)
            bytes_nodupb (List.map (fun kv => key_str k (fst kv)) l) &&
            forallb (fun kv => canonical a' (snd kv)) l
        | _ => true
        end
    | JNullable a' => match v with VNull => true | _ => canonical a' v end
    | JIso f g a' => canonical a' (f v) && val_eqb (g (f v)) v
    | JCustom w r => match r (w v) with Ok v' => val_eqb v' v | _ => false end
    end.

  (* ---------- well-formed annotations: distinct field / variant names ---------- *)
  Fixpoint wfj (a : jshape) : bool :=
    match a with
    | JLeaf _ => true
    | JRec fs => bytes_nodupb (List.map fst fs) && all_wfj wfj fs
    | JOptRec fs => bytes_nodupb (List.map fst fs) && all_wfj wfj fs
    | JEnum vs => bytes_nodupb (List.map fst vs) && all_wfj_opt wfj vs
    | JSingle a' => wfj a'
    | JSeq a' => wfj a'
    | JTuple fs => forallb wfj fs
    | JMapObj _ _ a' => wfj a'
    | JNullable a' => wfj a'
    | JIso _ _ a' => wfj a'
    | JCustom _ _ => true
    end.
End Ext.
