(* The property's executable statement, evaluated on (case, implementation result) by the extracted driver.
   Known-finding classes: 1 = C17-noconv-unsorted-map, 2 = C17-plutus-map-empty-values,
   3 = C17-plutus-script-language-lost, 4 = C17-metadatum-int-below-i64-min (typed observation stream). *)
From CSL Require Import Base.Prelude Base.Hex Json.Decimal Json.Json Json.MetadataJson Json.Chunks Json.PlutusJson Json.SerdeForms.
Local Open Scope N_scope.

Inductive verdict := Holds | NA | Fails (cls : N).

(* JSON -> metadata (-> JSON) *)
Definition judge_j2m (sc : schema) (j : json) (r1 : result md) (r2 : option (result json)) : verdict :=
  if negb (json_wf j) then NA
  else if negb (in_schema sc j) then match r1 with Err => Holds | _ => Fails 0 end
  else match r1 with
       | Ok _ =>
           if nf sc j then
             match r2 with Some (Ok j') => if json_eqb j j' then Holds else Fails 0 | _ => Fails 0 end
           else match r2 with Some Panic => Fails 0 | _ => Holds end
       | _ => Fails 0
       end.

(* metadata -> JSON (-> metadata); [eq] = the library's own == and to_bytes comparison *)
Definition judge_m2j (sc : schema) (m : md) (r1 : result json) (r2 : option (result md * bool)) : verdict :=
  if negb (md_wf m) then NA
  else match r1 with
       | Ok _ =>
           match sc with
           | Basic => match r2 with Some (Panic, _) => Fails 0 | _ => NA end
           | _ =>
               let ok := match r2 with Some (Ok m', eq) => md_eqb m m' && eq | _ => false end in
               if ok then Holds
               else if schema_eqb sc NoConv && negb (md_sorted m) then Fails 1 else Fails 0
           end
       | Err => NA
       | _ => Fails 0
       end.

Definition judge_j2p (sc : pschema) (j : json) (r1 : result pd) (r2 : option (result json)) : verdict :=
  if negb (json_wf j) then NA
  else match sc with
       | PBasic =>
           (* no round-trip claim under BasicConversions; the conversion is defined exactly on the schema's language *)
           if pbasic_json_dom j then match r1, r2 with Ok _, Some Panic => Fails 0 | Ok _, _ => Holds | _, _ => Fails 0 end
           else match r1 with Err => Holds | _ => Fails 0 end
       | PDetailed =>
           if pdom_detailed j then match r1, r2 with Ok _, Some (Ok _) => Holds | _, _ => Fails 0 end
           else match r1 with Err => Holds | _ => Fails 0 end
       end.

Definition judge_p2j (sc : pschema) (p : pd) (r1 : result json) (r2 : option (result pd * bool)) : verdict :=
  if negb (pd_wf p) then NA
  else match sc with
       | PBasic =>
           (* a datum the Basic schema cannot express (a key with no or several values, a structured key) must be refused *)
           if pbasic_dom p then match r1, r2 with Ok _, Some (Panic, _) => Fails 0 | Ok _, _ => Holds | _, _ => Fails 0 end
           else match r1 with Err => Holds | _ => Fails 0 end
       | PDetailed =>
           let ok := match r1, r2 with Ok _, Some (Ok p', eq) => pd_eqb p p' && eq | _, _ => false end in
           if ok then Holds else if pd_has_empty_values p then Fails 2 else Fails 0
       end.

Definition judge_chunk (bs : bytes) (r1 : result md) (r2 : option (result bytes)) : verdict :=
  match r1, r2 with
  | Ok m, Some (Ok bs') => if md_wf m && bytes_eqb bs bs' then Holds else Fails 0
  | _, _ => Fails 0
  end.

Definition is_bytes_list (m : md) : bool :=
  match m with MList l => forallb (fun x => match x with MBytes _ => true | _ => false end) l | _ => false end.
Definition judge_unchunk (m : md) (r : result bytes) : verdict :=
  match r with
  | Ok _ => if is_bytes_list m then Holds else Fails 0
  | Err => if is_bytes_list m then Fails 0 else Holds
  | _ => Fails 0
  end.

Definition sval_eqb (a b : sval) : bool :=
  match a, b with SVNum x, SVNum y => (x =? y)%Z | SVBytes x, SVBytes y => bytes_eqb x y | _, _ => false end.
(* Deserialize then Serialize: canonical text comes back unchanged; text outside the form is an error *)
Definition judge_sfd (t : sform) (j : json) (r1 : result sval) (r2 : option (result json)) : verdict :=
  match sf_de_gen false t j with
  | Ok v =>
      match r1, r2 with
      | Ok v', Some (Ok j') =>
          if sval_eqb v v' && json_eqb j' (sf_ser t v) && (negb (sf_canonical t j) || json_eqb j j') then Holds else Fails 0
      | _, _ => Fails 0
      end
  | _ => match r1 with Err => Holds | _ => Fails 0 end
  end.
Definition judge_sfs (t : sform) (v : sval) (r1 : result json) (r2 : option (result sval * bool)) : verdict :=
  if negb (sval_ok t v) then NA
  else match r1, r2 with
       | Ok _, Some (Ok v', eq) => if sval_eqb v v' && eq then Holds else Fails 0
       | _, _ => Fails 0
       end.

(* typed values (observation stream): x = from_bytes(case), y = from_json(to_json(x)).
   [first]: 0 = to_json and from_json succeeded, 1 = to_json failed, 2 = from_json failed.
   - y (maps filled in ascending order, default encodings) must round-trip exactly: ==, to_bytes, JSON text ([fx]);
   - x == y unless the premise of the property is not met ([unsorted]: an insertion-ordered map of x that the JSON
     form writes sorted - Withdrawals, ProposedProtocolParameterUpdates, GeneralTransactionMetadata,
     AuxiliaryDataSet - is not ascending; then the CBOR content must still agree up to map-entry order or be
     explained by a class) or the difference is a known class: 3 = C17-plutus-script-language-lost (x holds a Plutus
     V2/V3 script: the JSON form of a PlutusScript is its bytes only), 4 = C17-metadatum-int-below-i64-min (to_json fails);
   - equal to_bytes imply ==. *)
Definition judge_ty (first : N) (eq bytes norm fx lang negint unsorted : bool) : verdict :=
  match first with
  | 0 =>
      if negb fx then Fails 0
      else if eq then Holds
      else if bytes then Fails 0
      else if lang then Fails 3
      else if unsorted then NA
      else Fails 0
  | 1 => if negint then Fails 4 else Fails 0
  | _ => Fails 0
  end.
