(* Executable statement of the typed-value clause for annotated types (the `tj` stream), evaluated by the
   extracted driver on the implementation's results. *)
From CSL Require Import Base.Prelude Base.Hex Codec.Schema Ledger.Schemas Json.Decimal Json.Json Json.Assoc
  Json.SerdeSchema Json.SerdeLedger Json.Judge.
Local Open Scope N_scope.

Definition j_json := json_s ph_str.
Definition j_of_json := of_json_s ph_of_str.
Definition j_norm := norm_s ph_str.
Definition j_wf := jwf ph_str ph_of_str.
Definition j_canonical := canonical ph_str.

Fixpoint lookup_serde (name : bytes) (t : list (bytes * Schema.schema * jshape)) : option (Schema.schema * jshape) :=
  match t with
  | [] => None
  | (n, s, a) :: r => if bytes_eqb n name then Some (s, a) else lookup_serde name r
  end.

(* the premise of the property for an annotated value *)
Definition j_table := serde_table ph_emb ph_unemb.

Definition tj_premise (s : Schema.schema) (a : jshape) (v : val) : bool := wfv s v && j_wf a v && j_canonical a v.

(* [to_json_impl]: JSON the library wrote for x = from_bytes(enc s v);
   [back]: bytes of from_json(JSON the model wrote), and whether that value == x *)
Definition judge_tj (s : Schema.schema) (a : jshape) (v : val) (to_json_impl : result json)
                    (back : option (result bytes * bool)) : verdict :=
  if negb (wfv s v) then NA
  else if negb (j_wf a v) then
    (* outside the annotation's domain: the library must refuse to write it (known class 4: a metadatum integer below
       -2^63 makes to_json fail); writing it anyway means the annotation does not describe the type *)
    match to_json_impl with Err => Fails 4 | _ => Fails 0 end
  else match to_json_impl, back with
       | Ok j, Some (Ok b, eq) =>
           if negb (json_eqb j (j_json a v)) then Fails 0
           else if j_canonical a v then (if bytes_eqb b (enc s v) && eq then Holds else Fails 0)
           else NA
       | _, _ => Fails 0
       end.
