(* Hand-written serde string forms of the typed JSON ([T::to_json] / [T::from_json]):
     BigNum  (numeric/big_num.rs:167-201, from_str = str::parse::<u64>),
     Int     (numeric/int.rs:88-130, from_str = parse::<i128> + |x| <= u64::MAX),
     BigInt  (numeric/big_int.rs:12-34, num_bigint from_str / to_string),
     hashes  (crypto/impl_hash_type_macro.rs:102-124, hex of exactly N bytes),
     AssetName (lib.rs:1247-1271, hex of at most 32 bytes).
   The serde derive expansions around them and JSON text are external.  Definitions only. *)
From CSL Require Import Base.Prelude Base.Hex Json.Decimal Json.Json Json.MetadataJson Json.PlutusJson.
Local Open Scope N_scope.

Inductive sform := SBigNum | SInt | SBigInt | SHash (n : N) | SAssetName.
Inductive sval := SVNum (z : Z) | SVBytes (b : bytes).

(* values the Rust types can hold *)
Definition sval_ok (t : sform) (v : sval) : bool :=
  match t, v with
  | SBigNum, SVNum z => in_range 0 u64_max z
  | SInt, SVNum z => in_range (- two64Z) u64_max z       (* from CBOR: -2^64 .. 2^64-1 *)
  | SBigInt, SVNum _ => true
  | SHash n, SVBytes b => bytes_okb b && (blen b =? n)
  | SAssetName, SVBytes b => bytes_okb b && (blen b <=? 32)
  | _, _ => false
  end.

Definition sf_ser (t : sform) (v : sval) : json :=
  match v with SVNum z => JStr (print_Z z) | SVBytes b => JStr (hex b) end.

(* [old_int] = Int::from_str before /repo a6f00b9 (C14): x.abs() on the parsed i128 overflowed for i128::MIN in
   builds with overflow checks, and the accepted range -(2^64-1)..2^64-1 left out -2^64, which Int can hold *)
Definition sf_de_gen (old_int : bool) (t : sform) (j : json) : result sval :=
  match j with
  | JStr s =>
      match t with
      | SBigNum => match parse_unsigned s with
                   | Some z => if (z <=? u64_max)%Z then Ok (SVNum z) else Err
                   | None => Err
                   end
      | SInt => match parse_i128 s with
                | Some x => if old_int && (x =? i128_min)%Z then Panic
                            else if in_range (if old_int then - u64_max else - two64Z) u64_max x then Ok (SVNum x) else Err
                | None => Err
                end
      | SBigInt => match parse_bigint s with Some z => Ok (SVNum z) | None => Err end
      | SHash n => match unhex s with Some b => if blen b =? n then Ok (SVBytes b) else Err | None => Err end
      | SAssetName => match unhex s with Some b => if blen b <=? 32 then Ok (SVBytes b) else Err | None => Err end
      end
  | _ => Err
  end.
Definition sf_de := sf_de_gen false.

(* the documented text form of each type (the strings [sf_de] accepts in canonical form) *)
Definition sf_canonical (t : sform) (j : json) : bool :=
  match j with
  | JStr s =>
      match t with
      | SBigNum => match parse_unsigned s with Some z => (z <=? u64_max)%Z && bytes_eqb (print_Z z) s | None => false end
      | SInt => match parse_i128 s with Some x => in_range (- two64Z) u64_max x && bytes_eqb (print_Z x) s | None => false end
      | SBigInt => match parse_bigint s with Some z => bytes_eqb (print_Z z) s | None => false end
      | SHash n => lower_hexb s && (blen s =? 2 * n)
      | SAssetName => lower_hexb s && (blen s <=? 64)
      end
  | _ => false
  end.
