(* Every Plutus datum round-trips through detailed-schema JSON (PlutusJson.v). *)
From CSL Require Import Base.Prelude Base.Hex Json.Decimal Json.Json Json.JsonProofs Json.MetadataJson Json.MetadataJsonProofs Json.PlutusJson.
Local Open Scope N_scope.

(* ---------- induction principle and decidable equality ---------- *)
Section PdInd.
  Variable P : pd -> Prop.
  Hypothesis HC : forall a fs, Forall P fs -> P (PConstr a fs).
  Hypothesis HM : forall l, Forall (fun kv => P (fst kv) /\ Forall P (snd kv)) l -> P (PMap l).
  Hypothesis HL : forall l, Forall P l -> P (PList l).
  Hypothesis HI : forall z, P (PInt z).
  Hypothesis HB : forall b, P (PBytes b).
  Fixpoint pd_ind' (p : pd) : P p :=
    let all := fix go (l : list pd) : Forall P l :=
      match l with [] => Forall_nil _ | x :: r => Forall_cons _ (pd_ind' x) (go r) end in
    match p with
    | PConstr a fs => HC a fs (all fs)
    | PMap l => HM l ((fix go (l : list (pd * list pd)) : Forall (fun kv => P (fst kv) /\ Forall P (snd kv)) l :=
                         match l with
                         | [] => Forall_nil _
                         | (k, vs) :: r => Forall_cons (k, vs) (conj (pd_ind' k) (all vs)) (go r)
                         end) l)
    | PList l => HL l (all l)
    | PInt z => HI z
    | PBytes b => HB b
    end.
End PdInd.

Lemma list_eqb_eq {A} (f : A -> A -> bool) l :
  Forall (fun x => forall y, f x y = true <-> x = y) l -> forall l2, list_eqb f l l2 = true <-> l = l2.
Proof.
  induction 1 as [|x r Hx _ IH]; intros [|y l2]; cbn [list_eqb]; try (split; discriminate); [split; reflexivity|].
  rewrite andb_true_iff, Hx, IH. split; [intros [-> ->]; reflexivity|intros [= -> ->]; split; reflexivity].
Qed.

Lemma pd_eqb_eq a : forall b, pd_eqb a b = true <-> a = b.
Proof.
  induction a as [n fs IH|l IH|l IH|z|bs] using pd_ind'; intros []; cbn [pd_eqb]; try (split; discriminate).
  - rewrite andb_true_iff, Z.eqb_eq, (list_eqb_eq _ _ IH). split; [intros [-> ->]; reflexivity|intros [= -> ->]; split; reflexivity].
  - rewrite list_eqb_eq; [split; [intros ->; reflexivity|intros [= ->]; reflexivity]|].
    eapply Forall_impl; [|exact IH]. intros [k vs] [Hk Hvs] [k2 vs2]. cbn [fst snd] in *.
    rewrite andb_true_iff, Hk, (list_eqb_eq _ _ Hvs). split; [intros [-> ->]; reflexivity|intros [= -> ->]; split; reflexivity].
  - rewrite (list_eqb_eq _ _ IH). split; [intros ->; reflexivity|intros [= ->]; reflexivity].
  - rewrite Z.eqb_eq. split; [now intros ->|now intros [= ->]].
  - rewrite bytes_eqb_eq. split; [now intros ->|now intros [= ->]].
Qed.
Lemma pd_eqb_refl a : pd_eqb a a = true.
Proof. now apply pd_eqb_eq. Qed.

(* ---------- add_value over the flattened pairs of a map rebuilds the map ---------- *)
Lemma pm_find_none k m : ~ In k (List.map fst m) -> pm_find k m = None.
Proof.
  induction m as [|[k' vs] r IH]; [reflexivity|]. cbn [List.map fst In pm_find]. intros H.
  destruct (pd_eqb k' k) eqn:E; [apply pd_eqb_eq in E; subst; exfalso; apply H; now left|]. apply IH. tauto.
Qed.
Lemma filter_fresh k (m : list (pd * list pd)) :
  ~ In k (List.map fst m) -> filter (fun kv => negb (pd_eqb (fst kv) k)) m = m.
Proof.
  induction m as [|[k' vs] r IH]; [reflexivity|]. cbn [List.map fst In filter]. intros H.
  destruct (pd_eqb k' k) eqn:E; [apply pd_eqb_eq in E; subst; exfalso; apply H; now left|].
  cbn [negb]. f_equal. apply IH. tauto.
Qed.
Lemma add_value_fresh k v m : ~ In k (List.map fst m) -> add_value k v m = m ++ [(k, [v])].
Proof. intros H. unfold add_value. now rewrite pm_find_none. Qed.
Lemma add_value_last k v acc ws :
  ~ In k (List.map fst acc) -> add_value k v (acc ++ [(k, ws)]) = acc ++ [(k, ws ++ [v])].
Proof.
  intros H. unfold add_value.
  assert (F : pm_find k (acc ++ [(k, ws)]) = Some ws).
  { induction acc as [|[k' vs] r IH]; cbn [app pm_find]; [now rewrite pd_eqb_refl|].
    cbn [List.map fst In] in H. destruct (pd_eqb k' k) eqn:E; [apply pd_eqb_eq in E; subst; exfalso; apply H; now left|].
    apply IH. tauto. }
  rewrite F, filter_app, filter_fresh by assumption. cbn [filter fst]. rewrite pd_eqb_refl. cbn [negb]. now rewrite app_nil_r.
Qed.

Definition flatten (l : list (pd * list pd)) : list (pd * pd) :=
  concat (List.map (fun kv => List.map (pair (fst kv)) (snd kv)) l).

Lemma fold_values k vs : forall acc ws, ~ In k (List.map fst acc) ->
  fold_left (fun a kv => add_value (fst kv) (snd kv) a) (List.map (pair k) vs) (acc ++ [(k, ws)]) = acc ++ [(k, ws ++ vs)].
Proof.
  induction vs as [|v r IH]; intros acc ws H; cbn [List.map fold_left]; [now rewrite app_nil_r|].
  cbn [fst snd]. rewrite add_value_last by assumption. rewrite IH by assumption. now rewrite <- app_assoc.
Qed.

Lemma pmap_of_list_flatten_gen l : forall acc,
  NoDup (List.map fst (acc ++ l)) -> Forall (fun kv => snd kv <> []) l ->
  fold_left (fun a kv => add_value (fst kv) (snd kv) a) (flatten l) acc = acc ++ l.
Proof.
  induction l as [|[k vs] r IH]; intros acc Hnd Hne; [cbn; now rewrite app_nil_r|].
  inversion Hne as [|? ? Hk Hr]; subst. cbn [snd] in Hk. destruct vs as [|v vs]; [contradiction|].
  unfold flatten. cbn [List.map concat fst snd]. rewrite fold_left_app. cbn [List.map fold_left fst snd].
  assert (Hf : ~ In k (List.map fst acc)).
  { rewrite map_app in Hnd. cbn [List.map fst] in Hnd. apply NoDup_remove_2 in Hnd. intros Hin. apply Hnd. apply in_or_app. now left. }
  rewrite add_value_fresh by assumption. rewrite fold_values by assumption. cbn [app].
  change (concat (List.map (fun kv => List.map (pair (fst kv)) (snd kv)) r)) with (flatten r).
  rewrite IH; [now rewrite <- app_assoc|now rewrite <- app_assoc|assumption].
Qed.
Theorem pmap_of_list_flatten l :
  NoDup (List.map fst l) -> Forall (fun kv => snd kv <> []) l -> pmap_of_list (flatten l) = l.
Proof. intros H1 H2. unfold pmap_of_list. now rewrite pmap_of_list_flatten_gen. Qed.

Lemma pkeys_nodupb_NoDup ks : pkeys_nodupb ks = true <-> NoDup ks.
Proof.
  induction ks as [|k r IH]; cbn [pkeys_nodupb]; [split; [constructor|reflexivity]|].
  rewrite andb_true_iff, negb_true_iff, IH. split.
  - intros [H1 H2]. constructor; [|exact H2]. intros Hin.
    assert (existsb (pd_eqb k) r = true) by (apply existsb_exists; exists k; split; [exact Hin|apply pd_eqb_refl]). congruence.
  - intros H. inversion H; subst. split; [|assumption].
    destruct (existsb (pd_eqb k) r) eqn:E; [|reflexivity]. apply existsb_exists in E as [x [Hin Hx]].
    apply pd_eqb_eq in Hx. subst. contradiction.
Qed.
Lemma ppairs_all_Forall fk fv l :
  ppairs_all fk fv l = true <-> Forall (fun kv => fk (fst kv) = true /\ fv (snd kv) = true) l.
Proof.
  induction l as [|[k v] r IH]; cbn [ppairs_all]; [split; [constructor|reflexivity]|].
  rewrite !andb_true_iff, IH. split.
  - intros [[H1 H2] H3]. constructor; [split; assumption|assumption].
  - intros H. inversion H; subst. cbn [fst snd] in *. tauto.
Qed.

(* ---------- mapM over appended lists ---------- *)
Lemma mapM_app {A B} (f : A -> result B) l1 l2 ys1 ys2 :
  mapM f l1 = Ok ys1 -> mapM f l2 = Ok ys2 -> mapM f (l1 ++ l2) = Ok (ys1 ++ ys2).
Proof.
  revert ys1. induction l1 as [|x r IH]; intros ys1 H1 H2; cbn [mapM app] in *; [inversion H1; exact H2|].
  destruct (f x) as [y| | |]; cbn [bind] in *; try discriminate.
  destruct (mapM f r) as [ys| | |] eqn:E; cbn [bind] in *; try discriminate. inversion H1; subst.
  now rewrite (IH ys eq_refl H2).
Qed.

(* ---------- unfolding equations ---------- *)
Definition pentry_enc1 (k v : pd) : result json :=
  let* jk := p2j PDetailed k in let* jv := p2j PDetailed v in Ok (JObj [(k_k, jk); (k_v, jv)]).
Definition pentry_enc (kv : pd * list pd) : result (list json) :=
  match kv with (k, vs) => mapM (pentry_enc1 k) vs end.
Definition pentry_dec (c : cfg) (e : json) : result (pd * pd) :=
  match e with
  | JObj l2 =>
      if p_entry_shape_ok c l2 then
        let* pk := on_key k_k (j2p c PDetailed) Err l2 in
        let* pv := on_key k_v (j2p c PDetailed) Err l2 in
        Ok (pk, pv)
      else Err
  | _ => Err
  end.

Lemma p2j_det_constr a fs : p2j PDetailed (PConstr a fs) =
  let* xs := mapM (p2j PDetailed) fs in Ok (JObj [(k_constructor, JInt a); (k_fields, JArr xs)]).
Proof. reflexivity. Qed.
Lemma p2j_det_map l : p2j PDetailed (PMap l) =
  let* ess := mapM pentry_enc l in Ok (JObj [(k_map, JArr (concat ess))]).
Proof. reflexivity. Qed.
Lemma p2j_det_list l : p2j PDetailed (PList l) =
  let* xs := mapM (p2j PDetailed) l in Ok (JObj [(k_list, JArr xs)]).
Proof. reflexivity. Qed.
Lemma j2p_det_constr c a f : j2p c PDetailed (JObj [(k_constructor, a); (k_fields, f)]) =
  match as_u64 a with
  | Some alt => match f with JArr fs => let* xs := mapM (j2p c PDetailed) fs in Ok (PConstr alt xs) | _ => Err end
  | None => Err
  end.
Proof. reflexivity. Qed.
Lemma j2p_det_map c es : j2p c PDetailed (JObj [(k_map, JArr es)]) =
  let* kvs := mapM (pentry_dec c) es in Ok (PMap (pmap_of_list kvs)).
Proof. reflexivity. Qed.
Lemma j2p_det_list c l : j2p c PDetailed (JObj [(k_list, JArr l)]) =
  let* xs := mapM (j2p c PDetailed) l in Ok (PList xs).
Proof. reflexivity. Qed.
Lemma j2p_det_bytes c s : j2p c PDetailed (JObj [(k_bytes, JStr s)]) = p_encode_string s PDetailed false.
Proof. reflexivity. Qed.
Lemma j2p_det_int c z : j2p c PDetailed (JObj [(k_int, JInt z)]) = Ok (PInt z).
Proof. reflexivity. Qed.
Lemma pentry_dec_exact c jk jv :
  pentry_dec c (JObj [(k_k, jk); (k_v, jv)]) =
  let* pk := j2p c PDetailed jk in let* pv := j2p c PDetailed jv in Ok (pk, pv).
Proof.
  unfold pentry_dec, p_entry_shape_ok. change (has_key k_k [(k_k, jk); (k_v, jv)]) with true.
  change (has_key k_v [(k_k, jk); (k_v, jv)]) with true. cbn [andb List.length Nat.eqb].
  rewrite orb_true_r. reflexivity.
Qed.

Lemma hexc_le n : n < 16 -> hexc n <= 102.
Proof. intros H. unfold hexc. destruct (n <? 10) eqn:E; lia. Qed.
Lemma hex_no_0x b : starts_with k_0x (hex b) = false.
Proof.
  destruct b as [|x r]; [reflexivity|]. cbn [hex]. unfold k_0x. cbn [starts_with].
  pose proof (hexc_le (x mod 16) ltac:(apply N.mod_lt; lia)) as H.
  destruct (120 =? hexc (x mod 16)) eqn:E; [lia|]. now rewrite andb_false_r.
Qed.

(* ===== every datum round-trips through DetailedSchema JSON ===== *)
Theorem pd_json_pd_detailed c p :
  pd_wf p = true -> pd_values_nonempty p = true ->
  exists j, p2j PDetailed p = Ok j /\ j2p c PDetailed j = Ok p.
Proof.
  induction p as [a fs IH|l IH|l IH|z|b] using pd_ind'; intros Hwf Hne.
  - cbn [pd_wf pd_values_nonempty] in Hwf, Hne. apply andb_prop in Hwf as [Ha Hwf].
    rewrite forallb_forall in Hwf, Hne.
    assert (Hm : exists xs, mapM (p2j PDetailed) fs = Ok xs /\ mapM (j2p c PDetailed) xs = Ok fs).
    { induction fs as [|x r IHl]; [exists []; split; reflexivity|].
      inversion IH as [|? ? Px Pr]; subst.
      destruct (Px (Hwf x (or_introl eq_refl)) (Hne x (or_introl eq_refl))) as [jx [E1 E2]].
      destruct (IHl Pr (fun y Hy => Hwf y (or_intror Hy)) (fun y Hy => Hne y (or_intror Hy))) as [xs [E3 E4]].
      exists (jx :: xs). cbn [mapM]. rewrite E1, E3, E2, E4. split; reflexivity. }
    destruct Hm as [xs [E1 E2]]. eexists. rewrite p2j_det_constr, E1. split; [reflexivity|].
    rewrite j2p_det_constr. cbn [as_u64]. rewrite Ha, E2. reflexivity.
  - cbn [pd_wf pd_values_nonempty] in Hwf, Hne. apply andb_prop in Hwf as [Hnd Hwf].
    apply pkeys_nodupb_NoDup in Hnd. apply ppairs_all_Forall in Hwf. apply ppairs_all_Forall in Hne.
    assert (Hm : exists ess, mapM pentry_enc l = Ok ess /\ mapM (pentry_dec c) (concat ess) = Ok (flatten l)).
    { clear Hnd. induction l as [|[k vs] r IHl]; [exists []; split; reflexivity|].
      inversion IH as [|? ? [Pk Pvs] Pr]; subst. inversion Hwf as [|? ? [Wk Wvs] Wr]; subst.
      inversion Hne as [|? ? [Nk Nvs] Nr]; subst. cbn [fst snd] in *.
      destruct (IHl Pr Wr Nr) as [ess [E1 E2]].
      destruct (Pk Wk Nk) as [jk [K1 K2]].
      assert (Nvs' : forallb pd_values_nonempty vs = true) by (destruct vs; [discriminate|exact Nvs]).
      rewrite forallb_forall in Wvs, Nvs'.
      assert (Hv : exists es, mapM (pentry_enc1 k) vs = Ok es /\ mapM (pentry_dec c) es = Ok (List.map (pair k) vs)).
      { clear - Pvs Wvs Nvs' K1 K2. induction vs as [|v vr IHv]; [exists []; split; reflexivity|].
        inversion Pvs as [|? ? Pv Pvr]; subst.
        destruct (Pv (Wvs v (or_introl eq_refl)) (Nvs' v (or_introl eq_refl))) as [jv [V1 V2]].
        destruct (IHv Pvr (fun y Hy => Wvs y (or_intror Hy)) (fun y Hy => Nvs' y (or_intror Hy))) as [es [V3 V4]].
        exists (JObj [(k_k, jk); (k_v, jv)] :: es). cbn [mapM List.map]. unfold pentry_enc1 at 1.
        rewrite K1, V1, V3. cbn [bind]. rewrite pentry_dec_exact, K2, V2, V4. split; reflexivity. }
      destruct Hv as [es [V1 V2]]. exists (es :: ess). cbn [mapM pentry_enc]. rewrite V1, E1. split; [reflexivity|].
      cbn [concat]. unfold flatten. cbn [List.map concat fst snd]. now apply mapM_app. }
    destruct Hm as [ess [E1 E2]]. eexists. rewrite p2j_det_map, E1. split; [reflexivity|].
    rewrite j2p_det_map, E2. cbn [bind]. rewrite pmap_of_list_flatten; [reflexivity|exact Hnd|].
    eapply Forall_impl; [|exact Hne]. intros [k vs] [_ H]. cbn [snd] in *. destruct vs; [discriminate|discriminate].
  - cbn [pd_wf pd_values_nonempty] in Hwf, Hne. rewrite forallb_forall in Hwf, Hne.
    assert (Hm : exists xs, mapM (p2j PDetailed) l = Ok xs /\ mapM (j2p c PDetailed) xs = Ok l).
    { induction l as [|x r IHl]; [exists []; split; reflexivity|].
      inversion IH as [|? ? Px Pr]; subst.
      destruct (Px (Hwf x (or_introl eq_refl)) (Hne x (or_introl eq_refl))) as [jx [E1 E2]].
      destruct (IHl Pr (fun y Hy => Hwf y (or_intror Hy)) (fun y Hy => Hne y (or_intror Hy))) as [xs [E3 E4]].
      exists (jx :: xs). cbn [mapM]. rewrite E1, E3, E2, E4. split; reflexivity. }
    destruct Hm as [xs [E1 E2]]. eexists. rewrite p2j_det_list, E1. split; [reflexivity|].
    rewrite j2p_det_list, E2. reflexivity.
  - eexists. split; [reflexivity|]. cbn [p_wrap]. apply j2p_det_int.
  - eexists. split; [reflexivity|]. rewrite j2p_det_bytes. unfold p_encode_string. rewrite hex_no_0x.
    cbn [pd_wf] in Hwf. now rewrite (unhex_hex _ (bytes_okb_ok _ Hwf)).
Qed.

(* the known class is exactly what is excluded: a key with no values disappears *)
Example pd_empty_values_refuted :
  exists p j, pd_wf p = true /\ p2j PDetailed p = Ok j /\ j2p cur_cfg PDetailed j <> Ok p.
Proof. exists (PMap [(PInt 1, [])]). eexists. split; [reflexivity|]. split; [reflexivity|]. vm_compute. discriminate. Qed.

(* ===== the detailed conversion is defined exactly on the schema's language; outside it the result is Err ===== *)
Section PDomain.
  Variable c : cfg.
  Hypothesis Hlen : c_entry_lenient c = false.

  Lemma j2p_det_single k v : j2p c PDetailed (JObj [(k, v)]) =
    if bytes_eqb k k_int then match v with JInt _ | JNegZero | JFloat _ => p_encode_number v | _ => Err end
    else if bytes_eqb k k_bytes then match v with JStr s => p_encode_string s PDetailed false | _ => Err end
    else if bytes_eqb k k_list then
      match v with JArr l => let* xs := mapM (j2p c PDetailed) l in Ok (PList xs) | _ => Err end
    else if bytes_eqb k k_map then
      match v with JArr es => let* kvs := mapM (pentry_dec c) es in Ok (PMap (pmap_of_list kvs)) | _ => Err end
    else Err.
  Proof. reflexivity. Qed.

  Lemma j2p_det_pair k1 v1 k2 v2 : j2p c PDetailed (JObj [(k1, v1); (k2, v2)]) =
    let l := [(k1, v1); (k2, v2)] in
    match obj_get k_constructor l with
    | Some a =>
        match as_u64 a with
        | Some alt =>
            if has_key k_fields l then
              on_key k_fields (fun f => match f with
                                        | JArr fs => let* xs := mapM (j2p c PDetailed) fs in Ok (PConstr alt xs)
                                        | _ => Err
                                        end) Err l
            else Err
        | None => Err
        end
    | None => Err
    end.
  Proof. reflexivity. Qed.

  Lemma pentry_dec_domain e :
    json_wf e = true ->
    (forall x, (jsize x < jsize e)%nat -> json_wf x = true -> res_dom (j2p c PDetailed x) (pdom_detailed x)) ->
    res_dom (pentry_dec c e) (entry_okb pdom_detailed e).
  Proof.
    intros Hwf IH. destruct e as [| | | | | | |l2]; try reflexivity.
    unfold pentry_dec, p_entry_shape_ok. rewrite Hlen. cbn [orb].
    destruct l2 as [|[a x] [|[b y] [|p r]]].
    - reflexivity.
    - cbn [List.length Nat.eqb]. rewrite !andb_false_r. reflexivity.
    - cbn [json_wf keys_ascending obj_all] in Hwf. rewrite !andb_true_iff in Hwf. destruct Hwf as [[Hlt _] [[_ Wx] [[_ Wy] _]]].
      unfold has_key. cbn [obj_get List.length Nat.eqb entry_okb]. rewrite andb_true_r.
      destruct (bytes_eqb a k_k) eqn:Ea; destruct (bytes_eqb b k_v) eqn:Eb.
      + apply bytes_eqb_eq in Ea, Eb. subst a b. change (bytes_eqb k_k k_v) with false. cbn [andb].
        pose proof (jsize_obj_in k_k x [(k_k, x); (k_v, y)] (or_introl eq_refl)) as S1.
        pose proof (jsize_obj_in k_v y [(k_k, x); (k_v, y)] (or_intror (or_introl eq_refl))) as S2.
        cbn [on_key]. rewrite bytes_eqb_refl. change (bytes_eqb k_k k_v) with false. rewrite bytes_eqb_refl.
        apply res_dom_pair; apply IH; assumption.
      + apply bytes_eqb_eq in Ea. subst a. change (bytes_eqb k_k k_v) with false. rewrite andb_false_r. reflexivity.
      + apply bytes_eqb_eq in Eb. subst b. change (bytes_eqb k_v k_k) with false. cbn [andb]. reflexivity.
      + cbn [andb]. destruct (bytes_eqb b k_k) eqn:Eb2; [|reflexivity].
        destruct (bytes_eqb a k_v) eqn:Ea2; [|reflexivity].
        apply bytes_eqb_eq in Eb2, Ea2. subst a b. vm_compute in Hlt. discriminate.
    - cbn [List.length Nat.eqb]. rewrite !andb_false_r. reflexivity.
  Qed.

  Lemma p_encode_number_dom v :
    res_dom (match v with JInt _ | JNegZero | JFloat _ => p_encode_number v | _ => Err end)
            (match v with JInt _ | JNegZero => true | JFloat lit => is_some (parse_bigint lit) | _ => false end).
  Proof. destruct v; try reflexivity; cbn [p_encode_number res_dom]; eauto. destruct (parse_bigint lit); cbn; eauto. Qed.

  Theorem j2p_detailed_domain_sized n : forall j, (jsize j < n)%nat -> json_wf j = true ->
    res_dom (j2p c PDetailed j) (pdom_detailed j).
  Proof.
    induction n as [|n IHn]; intros j Hn Hwf; [lia|].
    destruct j as [| | | | | | |l]; try reflexivity.
    destruct l as [|[k v] [|[k2 v2] [|]]]; try reflexivity.
    - rewrite j2p_det_single. cbn [pdom_detailed].
      cbn [json_wf keys_ascending obj_all] in Hwf. rewrite !andb_true_iff in Hwf. destruct Hwf as [_ [[_ Wv] _]].
      pose proof (jsize_obj_in k v [(k, v)] (or_introl eq_refl)) as Sv.
      destruct (bytes_eqb k k_int); [apply p_encode_number_dom|].
      destruct (bytes_eqb k k_bytes).
      { destruct v; try reflexivity. unfold p_encode_string. destruct (starts_with k_0x s); [reflexivity|].
        cbn [negb andb]. destruct (unhex s); cbn; eauto. }
      destruct (bytes_eqb k k_list).
      { destruct v as [| | | | | |l|]; try reflexivity. apply res_dom_bind. apply res_dom_mapM.
        cbn [json_wf] in Wv. rewrite forallb_forall in Wv. apply Forall_forall. intros x Hx.
        apply IHn; [pose proof (jsize_arr_in x l Hx); lia|now apply Wv]. }
      destruct (bytes_eqb k k_map); [|reflexivity].
      destruct v as [| | | | | |es|]; try reflexivity. apply res_dom_bind. rewrite entries_all_forallb. apply res_dom_mapM.
      cbn [json_wf] in Wv. rewrite forallb_forall in Wv. apply Forall_forall. intros e He.
      apply pentry_dec_domain; [now apply Wv|]. intros x Hx Wx. apply IHn; [pose proof (jsize_arr_in e es He); lia|exact Wx].
    - rewrite j2p_det_pair. cbn [pdom_detailed].
      cbn [json_wf keys_ascending obj_all] in Hwf. rewrite !andb_true_iff in Hwf. destruct Hwf as [[Hlt _] [[_ W1] [[_ W2] _]]].
      pose proof (jsize_obj_in k2 v2 [(k, v); (k2, v2)] (or_intror (or_introl eq_refl))) as S2.
      cbv zeta. unfold has_key. cbn [obj_get on_key].
      destruct (bytes_eqb k k_constructor) eqn:E1.
      + apply bytes_eqb_eq in E1. subst k. change (bytes_eqb k_constructor k_fields) with false. cbn [andb].
        destruct (as_u64 v) as [alt|]; [|cbn [is_some andb]; rewrite andb_false_r; reflexivity]. cbn [is_some andb]. rewrite andb_true_r.
        destruct (bytes_eqb k2 k_fields) eqn:E2; [|reflexivity]. cbn [andb].
        destruct v2 as [| | | | | |fs|]; try reflexivity. apply res_dom_bind. apply res_dom_mapM.
        cbn [json_wf] in W2. rewrite forallb_forall in W2. apply Forall_forall. intros x Hx.
        apply IHn; [pose proof (jsize_arr_in x fs Hx); lia|now apply W2].
      + cbn [andb]. destruct (bytes_eqb k2 k_constructor) eqn:E2; [|reflexivity].
        apply bytes_eqb_eq in E2. subst k2. destruct (as_u64 v2); [|reflexivity].
        destruct (bytes_eqb k k_fields) eqn:E3.
        * apply bytes_eqb_eq in E3. subst k. vm_compute in Hlt. discriminate.
        * change (bytes_eqb k_constructor k_fields) with false. reflexivity.
  Qed.

  Theorem j2p_detailed_out_of_schema_is_error j :
    json_wf j = true -> pdom_detailed j = false -> j2p c PDetailed j = Err.
  Proof.
    intros Hwf H. pose proof (j2p_detailed_domain_sized (S (jsize j)) j (le_n _) Hwf) as D. now rewrite H in D.
  Qed.
  Theorem j2p_detailed_in_schema_converts j :
    json_wf j = true -> pdom_detailed j = true -> exists p, j2p c PDetailed j = Ok p.
  Proof.
    intros Hwf H. pose proof (j2p_detailed_domain_sized (S (jsize j)) j (le_n _) Hwf) as D. now rewrite H in D.
  Qed.
End PDomain.

(* ===== BasicConversions: both directions are defined exactly on the schema's language; outside it the result is Err ===== *)
Lemma ppairs_all_forallb fk fv l : ppairs_all fk fv l = forallb (fun kv => fk (fst kv) && fv (snd kv)) l.
Proof. induction l as [|[k v] r IH]; cbn [ppairs_all forallb fst snd]; [reflexivity|]. now rewrite IH. Qed.

Lemma p2j_basic_map l : p2j PBasic (PMap l) =
  let* kvs := mapM (fun kv => match kv with (k, vs) =>
                      let* ks := p_decode_key k in
                      match vs with [v] => let* jv := p2j PBasic v in Ok (ks, jv) | _ => Err end end) l in
  Ok (JObj (obj_of_list kvs)).
Proof. reflexivity. Qed.
Lemma p2j_basic_constr a fs : p2j PBasic (PConstr a fs) =
  let* xs := mapM (p2j PBasic) fs in Ok (JObj [(k_constructor, JInt a); (k_fields, JArr xs)]).
Proof. reflexivity. Qed.
Lemma p2j_basic_list l : p2j PBasic (PList l) = let* xs := mapM (p2j PBasic) l in Ok (JArr xs).
Proof. reflexivity. Qed.

Theorem p2j_basic_domain p : res_dom (p2j PBasic p) (pbasic_dom p).
Proof.
  induction p as [a fs IH|l IH|l IH|z|b] using pd_ind'.
  - rewrite p2j_basic_constr. cbn [pbasic_dom]. apply res_dom_bind. now apply res_dom_mapM.
  - rewrite p2j_basic_map. cbn [pbasic_dom]. apply res_dom_bind. rewrite ppairs_all_forallb. apply res_dom_mapM.
    eapply Forall_impl; [|exact IH]. intros [k vs] [_ Hvs]. cbn [fst snd] in *.
    destruct k; cbn [p_decode_key pbasic_key_ok bind andb]; try reflexivity.
    + destruct vs as [|v [|]]; try reflexivity. inversion Hvs; subst. now apply res_dom_bind.
    + destruct (utf8_valid b); cbn [bind]; (destruct vs as [|v [|]]; try reflexivity; inversion Hvs; subst; now apply res_dom_bind).
  - rewrite p2j_basic_list. cbn [pbasic_dom]. apply res_dom_bind. now apply res_dom_mapM.
  - cbn. now eexists.
  - cbn. now eexists.
Qed.
Theorem p2j_basic_out_of_schema_is_error p : pbasic_dom p = false -> p2j PBasic p = Err.
Proof. intros H. pose proof (p2j_basic_domain p) as D. now rewrite H in D. Qed.
Theorem p2j_basic_in_schema_converts p : pbasic_dom p = true -> exists j, p2j PBasic p = Ok j.
Proof. intros H. pose proof (p2j_basic_domain p) as D. now rewrite H in D. Qed.

Lemma j2p_basic_arr c l : j2p c PBasic (JArr l) = let* xs := mapM (j2p c PBasic) l in Ok (PList xs).
Proof. reflexivity. Qed.
Lemma j2p_basic_obj c l : j2p c PBasic (JObj l) =
  let* kvs := mapM (fun kv => match kv with (rk, rv) =>
                      let* k := p_encode_string rk PBasic true in let* v := j2p c PBasic rv in Ok (k, v) end) l in
  Ok (PMap (pmap_of_list kvs)).
Proof. reflexivity. Qed.
Lemma p_encode_string_basic_dom s is_key : res_dom (p_encode_string s PBasic is_key) (pbasic_str_ok s).
Proof.
  unfold p_encode_string, pbasic_str_ok. destruct (starts_with k_0x s).
  - destruct (unhex (skipn 2 s)); cbn; eauto.
  - destruct is_key; [destruct (parse_bigint s)|]; cbn; eauto.
Qed.

Theorem j2p_basic_domain c j : res_dom (j2p c PBasic j) (pbasic_json_dom j).
Proof.
  induction j as [|b|z| |lit|s|l IH|l IH] using json_ind'; try reflexivity.
  - cbn. now eexists.
  - cbn. now eexists.
  - cbn [pbasic_json_dom]. change (j2p c PBasic (JFloat lit)) with (p_encode_number (JFloat lit)). cbn [p_encode_number].
    destruct (parse_bigint lit); cbn; eauto.
  - apply p_encode_string_basic_dom.
  - rewrite j2p_basic_arr. cbn [pbasic_json_dom]. apply res_dom_bind. now apply res_dom_mapM.
  - rewrite j2p_basic_obj. cbn [pbasic_json_dom]. apply res_dom_bind. rewrite obj_all_forallb. apply res_dom_mapM.
    eapply Forall_impl; [|exact IH]. intros [rk rv] Hv. cbn [fst snd] in *.
    apply res_dom_pair; [apply p_encode_string_basic_dom|exact Hv].
Qed.
Theorem j2p_basic_out_of_schema_is_error c j : pbasic_json_dom j = false -> j2p c PBasic j = Err.
Proof. intros H. pose proof (j2p_basic_domain c j) as D. now rewrite H in D. Qed.
Theorem j2p_basic_in_schema_converts c j : pbasic_json_dom j = true -> exists p, j2p c PBasic j = Ok p.
Proof. intros H. pose proof (j2p_basic_domain c j) as D. now rewrite H in D. Qed.
