(* Round trips of the hand-written serde string forms (SerdeForms.v). *)
From CSL Require Import Base.Prelude Base.Hex Json.Decimal Json.DecimalProofs Json.Json Json.JsonProofs
  Json.MetadataJson Json.MetadataJsonProofs Json.PlutusJson Json.SerdeForms.
From Coq Require Import Decimal DecimalZ DecimalPos.
Local Open Scope N_scope.

Lemma strip_digits l : forallb is_digit l = true -> strip_underscores l = l.
Proof.
  induction l as [|c r IH]; [reflexivity|]. cbn [forallb strip_underscores filter]. intros H.
  apply andb_prop in H as [Hc Hr]. unfold is_digit in Hc. destruct (c =? 95) eqn:E; [lia|]. cbn [negb]. f_equal.
  now apply IH.
Qed.

Lemma parse_biguint_digits u : u <> Nil -> parse_biguint (uint_digits u) = Some (Z.of_int (Decimal.Pos u)).
Proof.
  intros Hn. destruct (uint_digits_head u Hn) as [c [r [Hs Hc]]].
  pose proof (uint_digits_all_digits u) as Hall. pose proof (digits_uint_digits u) as Hd.
  assert (G : option_map (fun u0 => Z.of_int (Decimal.Pos u0)) (digits_uint (strip_underscores (uint_digits u)))
              = Some (Z.of_int (Decimal.Pos u))) by (now rewrite strip_digits, Hd).
  unfold parse_biguint. rewrite Hs in *. unfold is_digit in Hc. destruct c as [|p]; [discriminate|].
  do 7 (destruct p as [p|p|]; try exact G; try (exfalso; lia)).
Qed.

Theorem parse_bigint_print z : parse_bigint (print_Z z) = Some z.
Proof.
  unfold print_Z. destruct (Z.to_int z) as [u|u] eqn:E.
  - assert (Hn : u <> Nil) by (destruct z; cbn in E; inversion E; subst; try discriminate; apply Unsigned.to_uint_nonnil).
    pose proof (parse_biguint_digits u Hn) as P.
    destruct (uint_digits_head u Hn) as [c [r [Hs Hc]]]. unfold parse_bigint. rewrite Hs in *.
    rewrite <- (DecimalZ.of_to z), E. unfold is_digit in Hc. destruct c as [|p]; [discriminate|].
    do 6 (destruct p as [p|p|]; try exact P; try (exfalso; lia)).
  - assert (Hn : u <> Nil) by (destruct z; cbn in E; inversion E; subst; apply Unsigned.to_uint_nonnil).
    pose proof (parse_biguint_digits u Hn) as P.
    destruct (uint_digits_head u Hn) as [c [r [Hs Hc]]]. cbn [parse_bigint]. rewrite Hs in *.
    assert (Hz : z = (- Z.of_int (Decimal.Pos u))%Z).
    { rewrite <- (DecimalZ.of_to z), E. cbn [Z.of_int]. reflexivity. }
    assert (G : option_map Z.opp (parse_biguint (c :: r)) = Some z) by (rewrite P, Hz; reflexivity).
    unfold is_digit in Hc. destruct c as [|p]; [discriminate|].
    do 6 (destruct p as [p|p|]; try exact G; try (exfalso; lia)).
Qed.

Lemma hex_length b : blen (hex b) = 2 * blen b.
Proof.
  unfold blen. induction b as [|x r IH]; [reflexivity|]. cbn [hex List.length]. rewrite !Nat2N.inj_succ. lia.
Qed.

(* ===== Serialize then Deserialize gives the value back, for every value the type can hold ===== *)
Theorem sf_ser_de t v : sval_ok t v = true -> sf_de t (sf_ser t v) = Ok v.
Proof.
  unfold sf_de. destruct t, v; cbn [sval_ok]; try discriminate; intros H; cbn [sf_ser sf_de_gen].
  - unfold in_range in H. apply andb_prop in H as [H0 H1]. rewrite parse_unsigned_print by lia. now rewrite H1.
  - rewrite parse_i128_print.
    + cbn [andb]. now rewrite H.
    + unfold in_range, two64Z, u64_max, i128_min, i128_max in *. lia.
  - now rewrite parse_bigint_print.
  - apply andb_prop in H as [H0 H1]. rewrite (unhex_hex _ (bytes_okb_ok _ H0)). now rewrite H1.
  - apply andb_prop in H as [H0 H1]. rewrite (unhex_hex _ (bytes_okb_ok _ H0)). now rewrite H1.
Qed.

(* ===== Deserialize then Serialize is the identity on canonical text ===== *)
Theorem sf_de_ser t j : sf_canonical t j = true -> exists v, sf_de t j = Ok v /\ sf_ser t v = j.
Proof.
  unfold sf_de. destruct j; try discriminate. destruct t; cbn [sf_canonical sf_de_gen]; intros H.
  - destruct (parse_unsigned s) as [z|]; [|discriminate]. apply andb_prop in H as [H1 H2]. apply bytes_eqb_eq in H2.
    rewrite H1. exists (SVNum z). split; [reflexivity|]. cbn [sf_ser]. now rewrite H2.
  - destruct (parse_i128 s) as [z|]; [|discriminate]. apply andb_prop in H as [H1 H2]. apply bytes_eqb_eq in H2.
    cbn [andb]. rewrite H1. exists (SVNum z). split; [reflexivity|]. cbn [sf_ser]. now rewrite H2.
  - destruct (parse_bigint s) as [z|]; [|discriminate]. apply bytes_eqb_eq in H.
    exists (SVNum z). split; [reflexivity|]. cbn [sf_ser]. now rewrite H.
  - apply andb_prop in H as [H1 H2]. destruct (lower_hexb_unhex _ H1) as [b [Hu Hh]]. rewrite Hu.
    pose proof (unhex_length _ _ Hu) as Hl. destruct (blen b =? n) eqn:E; [|lia].
    exists (SVBytes b). split; [reflexivity|]. cbn [sf_ser]. now rewrite Hh.
  - apply andb_prop in H as [H1 H2]. destruct (lower_hexb_unhex _ H1) as [b [Hu Hh]]. rewrite Hu.
    pose proof (unhex_length _ _ Hu) as Hl. destruct (blen b <=? 32) eqn:E; [|lia].
    exists (SVBytes b). split; [reflexivity|]. cbn [sf_ser]. now rewrite Hh.
Qed.

(* ===== anything but a JSON string is an error; the result is never a panic ===== *)
Theorem sf_de_non_string t j : (forall s, j <> JStr s) -> sf_de t j = Err.
Proof. destruct j; try reflexivity. intros H. exfalso. now apply (H s). Qed.
Theorem sf_de_total t j : sf_de t j = Err \/ exists v, sf_de t j = Ok v.
Proof.
  unfold sf_de. destruct j; try (left; reflexivity). destruct t; cbn [sf_de_gen andb].
  - destruct (parse_unsigned s); [|now left]. destruct (_ <=? _)%Z; eauto.
  - destruct (parse_i128 s); [|now left]. destruct (in_range _ _ _); eauto.
  - destruct (parse_bigint s); eauto.
  - destruct (unhex s); [|now left]. destruct (_ =? _); eauto.
  - destruct (unhex s); [|now left]. destruct (_ <=? _); eauto.
Qed.

(* the behaviour of Int::from_str before /repo a6f00b9 broke both statements *)
Example sf_old_int_refuted :
  sf_de_gen true SInt (sf_ser SInt (SVNum (- two64Z))) = Err /\
  sf_de_gen true SInt (JStr (print_Z i128_min)) = Panic.
Proof. split; vm_compute; reflexivity. Qed.
