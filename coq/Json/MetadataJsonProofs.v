(* Theorems about the metadata <-> JSON model (MetadataJson.v). *)
From CSL Require Import Base.Prelude Base.Hex Json.Decimal Json.DecimalProofs Json.Json Json.JsonProofs Json.MetadataJson.
Local Open Scope N_scope.

(* ---------- induction principle and decidable equality for md ---------- *)
Section MdInd.
  Variable P : md -> Prop.
  Hypothesis HMap : forall l, Forall (fun kv => P (fst kv) /\ P (snd kv)) l -> P (MMap l).
  Hypothesis HList : forall l, Forall P l -> P (MList l).
  Hypothesis HInt : forall z, P (MInt z).
  Hypothesis HBytes : forall b, P (MBytes b).
  Hypothesis HText : forall s, P (MText s).
  Fixpoint md_ind' (m : md) : P m :=
    match m with
    | MMap l => HMap l ((fix go (l : list (md * md)) : Forall (fun kv => P (fst kv) /\ P (snd kv)) l :=
                           match l with
                           | [] => Forall_nil _
                           | (k, v) :: r => Forall_cons (k, v) (conj (md_ind' k) (md_ind' v)) (go r)
                           end) l)
    | MList l => HList l ((fix go (l : list md) : Forall P l :=
                             match l with [] => Forall_nil _ | x :: r => Forall_cons _ (md_ind' x) (go r) end) l)
    | MInt z => HInt z | MBytes b => HBytes b | MText s => HText s
    end.
End MdInd.

Lemma md_eqb_eq a : forall b, md_eqb a b = true <-> a = b.
Proof.
  induction a using md_ind'; intros []; cbn [md_eqb]; try (split; discriminate).
  - rename l0 into l2. revert l2. induction H as [|[k x] r [Hk Hx] _ IH]; intros [|[k2 y] l2]; try (split; discriminate); [split; reflexivity|].
    cbn [fst snd] in Hk, Hx. rewrite !andb_true_iff, Hk, Hx. specialize (IH l2). split.
    + intros [[-> ->] H2]. apply IH in H2. now inversion H2.
    + intros [= -> -> ->]. repeat split. now apply IH.
  - rename l0 into l2. revert l2. induction H as [|x r Hx _ IH]; intros [|y l2]; try (split; discriminate); [split; reflexivity|].
    rewrite andb_true_iff, Hx. specialize (IH l2). split.
    + intros [-> H2]. apply IH in H2. now inversion H2.
    + intros [= -> ->]. split; [reflexivity|]. now apply IH.
  - rewrite Z.eqb_eq. split; [now intros ->|now intros [= ->]].
  - rewrite bytes_eqb_eq. split; [now intros ->|now intros [= ->]].
  - rewrite bytes_eqb_eq. split; [now intros ->|now intros [= ->]].
Qed.
Lemma md_eqb_refl a : md_eqb a a = true.
Proof. now apply md_eqb_eq. Qed.

(* ---------- LinkedHashMap insertion of pairwise distinct keys keeps the list ---------- *)
Lemma keys_nodupb_NoDup ks : keys_nodupb ks = true <-> NoDup ks.
Proof.
  induction ks as [|k r IH]; cbn [keys_nodupb]; [split; [constructor|reflexivity]|].
  rewrite andb_true_iff, negb_true_iff, IH. split.
  - intros [H1 H2]. constructor; [|exact H2]. intros Hin.
    assert (existsb (md_eqb k) r = true) by (apply existsb_exists; exists k; split; [exact Hin|apply md_eqb_refl]). congruence.
  - intros H. inversion H; subst. split; [|assumption].
    destruct (existsb (md_eqb k) r) eqn:E; [|reflexivity]. apply existsb_exists in E as [x [Hin Hx]].
    apply md_eqb_eq in Hx. subst. contradiction.
Qed.

Lemma lhm_insert_fresh k v acc : ~ In k (List.map fst acc) -> lhm_insert k v acc = acc ++ [(k, v)].
Proof.
  intros H. unfold lhm_insert. f_equal. induction acc as [|[k' v'] r IH]; [reflexivity|].
  cbn [filter fst]. cbn [List.map fst In] in H.
  destruct (md_eqb k' k) eqn:E; [apply md_eqb_eq in E; subst; exfalso; apply H; now left|].
  cbn [negb]. f_equal. apply IH. intros Hin. apply H. now right.
Qed.

Lemma lhm_of_list_nodup_gen l : forall acc, NoDup (List.map fst (acc ++ l)) ->
  fold_left (fun acc kv => lhm_insert (fst kv) (snd kv) acc) l acc = acc ++ l.
Proof.
  induction l as [|[k v] r IH]; intros acc H; cbn [fold_left]; [now rewrite app_nil_r|].
  cbn [fst snd]. rewrite lhm_insert_fresh.
  - rewrite IH; rewrite <- app_assoc; [reflexivity|exact H].
  - rewrite map_app in H. cbn [List.map fst] in H. apply NoDup_remove_2 in H.
    intros Hin. apply H. apply in_or_app. now left.
Qed.
Theorem lhm_of_list_nodup l : NoDup (List.map fst l) -> lhm_of_list l = l.
Proof. intros H. unfold lhm_of_list. now rewrite lhm_of_list_nodup_gen. Qed.

(* ---------- hex ---------- *)
Lemma bytes_okb_ok b : bytes_okb b = true -> bytes_ok b.
Proof.
  unfold bytes_okb, bytes_ok. rewrite forallb_forall, Forall_forall. intros H x Hx. specialize (H x Hx). lia.
Qed.

Lemma hexc_unhexc_lower c n :
  ((48 <=? c) && (c <=? 57)) || ((97 <=? c) && (c <=? 102)) = true -> unhexc c = Some n -> hexc n = c /\ n < 16.
Proof.
  unfold unhexc, hexc. intros H.
  destruct ((48 <=? c) && (c <=? 57)) eqn:E1.
  - intros [= <-]. split; [|lia]. destruct (c - 48 <? 10) eqn:E; lia.
  - destruct ((97 <=? c) && (c <=? 102)) eqn:E2; [|cbn in H; discriminate].
    intros [= <-]. split; [|lia]. destruct (c - 87 <? 10) eqn:E; lia.
Qed.

Lemma list_ind2 {A} (P : list A -> Prop) :
  P [] -> (forall x, P [x]) -> (forall x y r, P r -> P (x :: y :: r)) -> forall l, P l.
Proof.
  intros H0 H1 H2. fix go 1. intros [|x [|y r]]; [exact H0|apply H1|apply H2, go].
Qed.

Lemma hex_unhex_lower s : forall b,
  forallb (fun c => ((48 <=? c) && (c <=? 57)) || ((97 <=? c) && (c <=? 102))) s = true ->
  unhex s = Some b -> hex b = s.
Proof.
  induction s as [|h|h l r IH] using list_ind2; intros b Hl Hu.
  - cbn in Hu. inversion Hu. reflexivity.
  - cbn in Hu. discriminate.
  - cbn [unhex] in Hu. cbn [forallb] in Hl. apply andb_prop in Hl as [Hh Hl]. apply andb_prop in Hl as [Hl Hr].
    destruct (unhexc h) as [a|] eqn:Ea; [|discriminate].
    destruct (unhexc l) as [bb|] eqn:Eb; [|discriminate].
    destruct (unhex r) as [t|] eqn:Et; [|discriminate]. inversion Hu; subst b. clear Hu.
    destruct (hexc_unhexc_lower _ _ Hh Ea) as [Ha La]. destruct (hexc_unhexc_lower _ _ Hl Eb) as [Hb Lb].
    cbn [hex]. rewrite (IH t Hr eq_refl).
    replace ((a * 16 + bb) / 16) with a by (apply N.div_unique with bb; lia).
    replace ((a * 16 + bb) mod 16) with bb by (apply N.mod_unique with a; lia).
    now rewrite Ha, Hb.
Qed.

Lemma unhex_length s : forall b, unhex s = Some b -> blen s = 2 * blen b.
Proof.
  induction s as [|h|h l r IH] using list_ind2; intros b Hu.
  - inversion Hu. reflexivity.
  - discriminate.
  - cbn [unhex] in Hu. destruct (unhexc h); [|discriminate]. destruct (unhexc l); [|discriminate].
    destruct (unhex r) as [t|] eqn:Et; [|discriminate]. inversion Hu; subst b.
    specialize (IH t eq_refl). unfold blen in *. cbn [List.length] in *. rewrite !Nat2N.inj_succ. lia.
Qed.

Lemma starts_with_app p s : starts_with p s = true -> s = p ++ skipn (List.length p) s.
Proof.
  revert s. induction p as [|x p IH]; intros s H; [reflexivity|].
  destruct s as [|y s]; [discriminate|]. cbn [starts_with] in H. apply andb_prop in H as [H1 H2].
  apply N.eqb_eq in H1. subst. cbn [app List.length skipn]. f_equal. now apply IH.
Qed.

(* ---------- helper combinators ---------- *)
Lemma obj_all_Forall fk fv l :
  obj_all fk fv l = true <-> Forall (fun kv => fk (fst kv) = true /\ fv (snd kv) = true) l.
Proof.
  induction l as [|[k v] r IH]; cbn [obj_all]; [split; [constructor|reflexivity]|].
  rewrite !andb_true_iff, IH. split.
  - intros [[H1 H2] H3]. constructor; [split; assumption|assumption].
  - intros H. inversion H; subst. cbn [fst snd] in *. tauto.
Qed.
Lemma pairs_all_Forall fk fv l :
  pairs_all fk fv l = true <-> Forall (fun kv => fk (fst kv) = true /\ fv (snd kv) = true) l.
Proof.
  induction l as [|[k v] r IH]; cbn [pairs_all]; [split; [constructor|reflexivity]|].
  rewrite !andb_true_iff, IH. split.
  - intros [[H1 H2] H3]. constructor; [split; assumption|assumption].
  - intros H. inversion H; subst. cbn [fst snd] in *. tauto.
Qed.
Lemma entries_all_Forall kk kv f es :
  entries_all kk kv f es = true <->
  Forall (fun e => exists kj vj, e = JObj [(kk, kj); (kv, vj)] /\ f kj = true /\ f vj = true) es.
Proof.
  induction es as [|e r IH]; cbn [entries_all]; [split; [constructor|reflexivity]|].
  split.
  - destruct e as [| | | | | | |l]; try discriminate. destruct l as [|[a kj] [|[b vj] [|]]]; try discriminate.
    rewrite !andb_true_iff, IH, !bytes_eqb_eq. intros [[[[-> ->] H1] H2] H3].
    constructor; [|assumption]. now exists kj, vj.
  - intros H. inversion H as [|? ? [kj [vj [-> [H1 H2]]]] H3]; subst.
    rewrite !bytes_eqb_refl, H1, H2. cbn [andb]. now apply IH.
Qed.

Lemma keys_ascending_keys {A B} (l1 : list (bytes * A)) : forall (l2 : list (bytes * B)),
  List.map fst l1 = List.map fst l2 -> keys_ascending l1 = keys_ascending l2.
Proof.
  induction l1 as [|[k v] r IH]; intros [|[k2 v2] r2] H; try discriminate; [reflexivity|].
  cbn [List.map fst] in H. inversion H; subst. specialize (IH r2 H2).
  destruct r as [|[k' v'] r']; destruct r2 as [|[k2' v2'] r2']; try discriminate; [reflexivity|].
  cbn [keys_ascending] in *. cbn [List.map fst] in H2. inversion H2; subst. now rewrite IH.
Qed.

Lemma keys_ascending_NoDup {A} (l : list (bytes * A)) : keys_ascending l = true -> NoDup (List.map fst l).
Proof.
  induction l as [|[k v] r IH]; intros H; [constructor|].
  destruct (keys_ascending_cons _ _ _ H) as [H1 H2]. cbn [List.map fst]. constructor; [|auto].
  intros Hin. apply in_map_iff in Hin as [[k' v'] [E Hin]]. cbn [fst] in E. subst k'.
  rewrite Forall_forall in H2. specialize (H2 _ Hin). cbn [fst] in H2. now rewrite bytes_ltb_irrefl in H2.
Qed.

(* ---------- unfolding equations (all by computation on the closed key words) ---------- *)
Definition entry_dec (c : cfg) (e : json) : result (md * md) :=
  match e with
  | JObj l2 =>
      if entry_shape_ok c l2 then
        let* mk := on_key k_k (j2m c Detailed) Err l2 in
        let* mv := on_key k_v (j2m c Detailed) Err l2 in
        Ok (mk, mv)
      else Err
  | _ => Err
  end.
Definition pair_enc (c : cfg) (sc : schema) (kv : bytes * json) : result (md * md) :=
  match kv with (rk, v) => let* mk := encode_key c sc rk in let* mv := j2m c sc v in Ok (mk, mv) end.
Definition entry_enc (kv : md * md) : result json :=
  match kv with (k, v) => let* jk := m2j Detailed k in let* jv := m2j Detailed v in Ok (JObj [(k_k, jk); (k_v, jv)]) end.
Definition pair_dec (sc : schema) (kv : md * md) : result (bytes * json) :=
  match kv with (k, v) => let* ks := decode_key sc k in let* jv := m2j sc v in Ok (ks, jv) end.

Lemma j2m_det_int c v : j2m c Detailed (JObj [(k_int, v)]) =
  match v with JInt _ | JNegZero | JFloat _ => encode_number c v | _ => Err end.
Proof. reflexivity. Qed.
Lemma j2m_det_string c v : j2m c Detailed (JObj [(k_string, v)]) =
  match v with JStr s => new_text s | _ => Err end.
Proof. reflexivity. Qed.
Lemma j2m_det_bytes c v : j2m c Detailed (JObj [(k_bytes, v)]) =
  match v with JStr s => match unhex s with Some b => new_bytes b | None => Err end | _ => Err end.
Proof. reflexivity. Qed.
Lemma j2m_det_list c v : j2m c Detailed (JObj [(k_list, v)]) =
  match v with JArr l => let* xs := mapM (j2m c Detailed) l in Ok (MList xs) | _ => Err end.
Proof. reflexivity. Qed.
Lemma j2m_det_map c v : j2m c Detailed (JObj [(k_map, v)]) =
  match v with JArr es => let* kvs := mapM (entry_dec c) es in Ok (MMap (lhm_of_list kvs)) | _ => Err end.
Proof. reflexivity. Qed.
Lemma j2m_plain_obj c sc l : sc <> Detailed ->
  j2m c sc (JObj l) = let* kvs := mapM (pair_enc c sc) l in Ok (MMap (lhm_of_list kvs)).
Proof. destruct sc; [reflexivity|reflexivity|contradiction]. Qed.
Lemma j2m_plain_arr c sc l : sc <> Detailed ->
  j2m c sc (JArr l) = let* xs := mapM (j2m c sc) l in Ok (MList xs).
Proof. destruct sc; [reflexivity|reflexivity|contradiction]. Qed.
Lemma m2j_det_map l : m2j Detailed (MMap l) = let* es := mapM entry_enc l in Ok (JObj [(k_map, JArr es)]).
Proof. reflexivity. Qed.
Lemma m2j_plain_map sc l : sc <> Detailed ->
  m2j sc (MMap l) = let* kvs := mapM (pair_dec sc) l in Ok (JObj (obj_of_list kvs)).
Proof. destruct sc; [reflexivity|reflexivity|contradiction]. Qed.
Lemma m2j_list sc l : m2j sc (MList l) = let* xs := mapM (m2j sc) l in Ok (wrap sc k_list (JArr xs)).
Proof. reflexivity. Qed.

Lemma entry_dec_exact c jk jv :
  entry_dec c (JObj [(k_k, jk); (k_v, jv)]) =
  let* mk := j2m c Detailed jk in let* mv := j2m c Detailed jv in Ok (mk, mv).
Proof.
  unfold entry_dec, entry_shape_ok. change (has_key k_k [(k_k, jk); (k_v, jv)]) with true.
  change (has_key k_v [(k_k, jk); (k_v, jv)]) with true. cbn [andb List.length Nat.eqb].
  rewrite orb_true_r. reflexivity.
Qed.

Lemma md_wf_map l : md_wf (MMap l) = true ->
  NoDup (List.map fst l) /\ Forall (fun kv => md_wf (fst kv) = true /\ md_wf (snd kv) = true) l.
Proof.
  cbn [md_wf]. rewrite andb_true_iff, keys_nodupb_NoDup, pairs_all_Forall. tauto.
Qed.
Lemma md_wf_list l : md_wf (MList l) = true -> Forall (fun x => md_wf x = true) l.
Proof. cbn [md_wf]. rewrite forallb_forall, Forall_forall. auto. Qed.

Lemma in_range_json z : in_range i64_min u64_max z = int_json_range z.
Proof.
  unfold in_range, int_json_range, i64_min, u64_max.
  destruct (Z.leb_spec 0 z); destruct (Z.leb_spec (-9223372036854775808) z); destruct (Z.leb_spec z 18446744073709551615); cbn; try reflexivity; lia.
Qed.

Section WithCfg.
  Variable c : cfg.
  Hypothesis Hneg : c_negmin_panics c = false.

  Lemma encode_number_spec j :
    encode_number c j = if num_in_schema j then Ok (MInt (match j with JInt z => z | _ => 0%Z end)) else Err.
  Proof.
    unfold encode_number, as_u64, as_i64, num_in_schema. rewrite Hneg. cbn [andb].
    destruct j; try reflexivity.
    unfold in_range, i64_min, i64_max, u64_max.
    destruct (Z.leb_spec 0 z); destruct (Z.leb_spec (-9223372036854775808) z);
      destruct (Z.leb_spec z 18446744073709551615); destruct (Z.leb_spec z 9223372036854775807); cbn; try reflexivity; lia.
  Qed.

  (* ===== metadata -> JSON -> metadata, DetailedSchema ===== *)
  Theorem md_json_md_detailed m : forall j,
    md_wf m = true -> m2j Detailed m = Ok j -> j2m c Detailed j = Ok m.
  Proof.
    induction m as [l IH|l IH|z|b|s] using md_ind'; intros j Hwf Hj.
    - rewrite m2j_det_map in Hj. destruct (mapM entry_enc l) as [es| | |] eqn:E; cbn [bind] in Hj; try discriminate.
      inversion Hj; subst j; clear Hj. rewrite j2m_det_map.
      destruct (md_wf_map _ Hwf) as [Hnd Hwfs].
      assert (Hm : mapM (entry_dec c) es = Ok l).
      { clear Hnd Hwf. revert es E. induction l as [|[k v] r IHl]; intros es E.
        - cbn in E. inversion E. reflexivity.
        - cbn [mapM entry_enc] in E.
          destruct (m2j Detailed k) as [jk| | |] eqn:Ek; cbn [bind] in E; try discriminate.
          destruct (m2j Detailed v) as [jv| | |] eqn:Ev; cbn [bind] in E; try discriminate.
          destruct (mapM entry_enc r) as [es'| | |] eqn:Er; cbn [bind] in E; try discriminate.
          inversion E; subst es; clear E. inversion IH as [|? ? [Pk Pv] IHr]; subst.
          inversion Hwfs as [|? ? [Wk Wv] Wr]; subst. cbn [fst snd] in *.
          cbn [mapM]. rewrite entry_dec_exact, (Pk _ Wk Ek), (Pv _ Wv Ev). cbn [bind].
          now rewrite (IHl IHr Wr es' eq_refl). }
      rewrite Hm. cbn [bind]. now rewrite lhm_of_list_nodup.
    - rewrite m2j_list in Hj. destruct (mapM (m2j Detailed) l) as [xs| | |] eqn:E; cbn [bind] in Hj; try discriminate.
      inversion Hj; subst j; clear Hj. cbn [wrap]. rewrite j2m_det_list.
      pose proof (md_wf_list _ Hwf) as Hwfs.
      assert (Hm : mapM (j2m c Detailed) xs = Ok l).
      { clear Hwf. revert xs E. induction l as [|x r IHl]; intros xs E.
        - cbn in E. inversion E. reflexivity.
        - cbn [mapM] in E. destruct (m2j Detailed x) as [jx| | |] eqn:Ex; cbn [bind] in E; try discriminate.
          destruct (mapM (m2j Detailed) r) as [xs'| | |] eqn:Er; cbn [bind] in E; try discriminate.
          inversion E; subst xs; clear E. inversion IH; subst. inversion Hwfs; subst.
          cbn [mapM]. rewrite (H1 _ H3 Ex). cbn [bind]. now rewrite (IHl H2 H4 xs' eq_refl). }
      now rewrite Hm.
    - cbn [m2j] in Hj. destruct (int_json_range z) eqn:E; [|discriminate]. inversion Hj; subst j. cbn [wrap].
      rewrite j2m_det_int, encode_number_spec. cbn [num_in_schema]. now rewrite in_range_json, E.
    - cbn [m2j] in Hj. inversion Hj; subst j. cbn [wrap]. rewrite j2m_det_bytes.
      cbn [md_wf] in Hwf. apply andb_prop in Hwf as [H1 H2].
      rewrite (unhex_hex _ (bytes_okb_ok _ H1)). unfold new_bytes.
      destruct (MD_MAX_LEN <? blen b) eqn:E; [lia|reflexivity].
    - cbn [m2j] in Hj. inversion Hj; subst j. cbn [wrap]. rewrite j2m_det_string.
      cbn [md_wf] in Hwf. unfold new_text. destruct (MD_MAX_LEN <? blen s) eqn:E; [lia|reflexivity].
  Qed.

  (* ===== metadata -> JSON -> metadata, NoConversions (maps with ascending text keys) ===== *)
  Lemma md_sorted_map l : md_sorted (MMap l) = true ->
    keys_ascending (List.map (fun kv => (key_text (fst kv), snd kv)) l) = true /\
    Forall (fun kv => md_sorted (snd kv) = true) l.
  Proof.
    cbn [md_sorted]. rewrite andb_true_iff, pairs_all_Forall. intros [H1 H2]. split; [exact H1|].
    eapply Forall_impl; [|exact H2]. cbn. tauto.
  Qed.

  Theorem md_json_md_noconv m : forall j,
    md_wf m = true -> md_sorted m = true -> m2j NoConv m = Ok j -> j2m c NoConv j = Ok m.
  Proof.
    induction m as [l IH|l IH|z|b|s] using md_ind'; intros j Hwf Hs Hj.
    - rewrite m2j_plain_map in Hj by discriminate.
      destruct (mapM (pair_dec NoConv) l) as [kvs| | |] eqn:E; cbn [bind] in Hj; try discriminate.
      inversion Hj; subst j; clear Hj. rewrite j2m_plain_obj by discriminate.
      destruct (md_wf_map _ Hwf) as [Hnd Hwfs]. destruct (md_sorted_map _ Hs) as [Hasc Hss].
      assert (Hm : List.map fst kvs = List.map (fun kv => key_text (fst kv)) l /\ mapM (pair_enc c NoConv) kvs = Ok l).
      { clear Hnd Hwf Hs Hasc. revert kvs E. induction l as [|[k v] r IHl]; intros kvs E.
        - cbn in E. inversion E. split; reflexivity.
        - cbn [mapM pair_dec] in E.
          destruct (decode_key NoConv k) as [ks| | |] eqn:Ek; cbn [bind] in E; try discriminate.
          destruct (m2j NoConv v) as [jv| | |] eqn:Ev; cbn [bind] in E; try discriminate.
          destruct (mapM (pair_dec NoConv) r) as [kvs'| | |] eqn:Er; cbn [bind] in E; try discriminate.
          inversion E; subst kvs; clear E. inversion IH as [|? ? [Pk Pv] IHr]; subst.
          inversion Hwfs as [|? ? [Wk Wv] Wr]; subst. inversion Hss as [|? ? Sv Sr]; subst. cbn [fst snd] in *.
          destruct (IHl IHr Wr Sr kvs' eq_refl) as [Hk Hr].
          destruct k; cbn [decode_key] in Ek; try discriminate. inversion Ek; subst ks.
          split; [cbn [List.map fst key_text]; now rewrite Hk|].
          cbn [mapM pair_enc encode_key]. unfold new_text. cbn [md_wf] in Wk.
          destruct (MD_MAX_LEN <? blen s) eqn:El; [lia|]. cbn [bind].
          rewrite (Pv _ Wv Sv Ev). cbn [bind]. now rewrite Hr. }
      destruct Hm as [Hk Hm].
      rewrite obj_of_list_sorted.
      + rewrite Hm. cbn [bind]. now rewrite lhm_of_list_nodup.
      + rewrite <- Hasc. apply keys_ascending_keys. rewrite Hk, map_map. reflexivity.
    - rewrite m2j_list in Hj. destruct (mapM (m2j NoConv) l) as [xs| | |] eqn:E; cbn [bind] in Hj; try discriminate.
      inversion Hj; subst j; clear Hj. cbn [wrap]. rewrite j2m_plain_arr by discriminate.
      pose proof (md_wf_list _ Hwf) as Hwfs.
      assert (Hss : Forall (fun x => md_sorted x = true) l).
      { cbn [md_sorted] in Hs. rewrite forallb_forall in Hs. now apply Forall_forall. }
      assert (Hm : mapM (j2m c NoConv) xs = Ok l).
      { clear Hwf Hs. revert xs E. induction l as [|x r IHl]; intros xs E.
        - cbn in E. inversion E. reflexivity.
        - cbn [mapM] in E. destruct (m2j NoConv x) as [jx| | |] eqn:Ex; cbn [bind] in E; try discriminate.
          destruct (mapM (m2j NoConv) r) as [xs'| | |] eqn:Er; cbn [bind] in E; try discriminate.
          inversion E; subst xs; clear E. inversion IH; subst. inversion Hwfs; subst. inversion Hss; subst.
          cbn [mapM]. rewrite (H1 _ H3 H5 Ex). cbn [bind]. now rewrite (IHl H2 H4 H6 xs' eq_refl). }
      now rewrite Hm.
    - cbn [m2j] in Hj. destruct (int_json_range z) eqn:E; [|discriminate]. inversion Hj; subst j. cbn [wrap].
      change (j2m c NoConv (JInt z)) with (encode_number c (JInt z)).
      rewrite encode_number_spec. cbn [num_in_schema]. now rewrite in_range_json, E.
    - cbn [m2j] in Hj. discriminate.
    - cbn [m2j] in Hj. inversion Hj; subst j. cbn [wrap].
      change (j2m c NoConv (JStr s)) with (new_text s).
      cbn [md_wf] in Hwf. unfold new_text. destruct (MD_MAX_LEN <? blen s) eqn:E; [lia|reflexivity].
  Qed.

  (* ===== JSON -> metadata -> JSON on each schema's normal form ===== *)
  Hypothesis Hkey : c_key_unchecked c = false.

  Lemma lower_hexb_unhex s : lower_hexb s = true -> exists b, unhex s = Some b /\ hex b = s.
  Proof.
    unfold lower_hexb. rewrite andb_true_iff. intros [Hl He].
    assert (exists b, unhex s = Some b) as [b Hb].
    { clear -Hl He. induction s as [|h|h l r IH] using list_ind2.
      - now exists [].
      - cbn in He. discriminate.
      - cbn [forallb] in Hl. apply andb_prop in Hl as [Hh Hl]. apply andb_prop in Hl as [Hl Hr].
        destruct IH as [t Ht]; [exact Hr| |].
        { unfold blen in *. cbn [List.length] in He. rewrite !Nat2N.inj_succ in He.
          rewrite <- N.even_succ_succ. exact He. }
        cbn [unhex]. rewrite Ht.
        assert (forall x, ((48 <=? x) && (x <=? 57)) || ((97 <=? x) && (x <=? 102)) = true -> exists n, unhexc x = Some n) as U.
        { intros x Hx. unfold unhexc. destruct ((48 <=? x) && (x <=? 57)); [eauto|].
          destruct ((97 <=? x) && (x <=? 102)); [eauto|discriminate]. }
        destruct (U _ Hh) as [a ->]. destruct (U _ Hl) as [bb ->]. eauto. }
    exists b. split; [exact Hb|]. now apply hex_unhex_lower.
  Qed.

  Lemma basic_str_rt s : basic_str_nf s = true ->
    exists m, encode_string s Basic = Ok m /\ m2j Basic m = Ok (JStr s) /\ decode_key Basic m = Ok s.
  Proof.
    unfold basic_str_nf, encode_string, hex_string_to_bytes. intros H.
    assert (Ht : blen s <=? MD_MAX_LEN = true ->
                 exists m, new_text s = Ok m /\ m2j Basic m = Ok (JStr s) /\ decode_key Basic m = Ok s).
    { intros Hl. exists (MText s). unfold new_text. destruct (MD_MAX_LEN <? blen s) eqn:E; [lia|]. repeat split. }
    destruct (starts_with k_0x s) eqn:E0; [|now apply Ht].
    destruct (unhex (skipn 2 s)) as [b|] eqn:Eu; [|now apply Ht].
    apply andb_prop in H as [H1 H2]. exists (MBytes b). unfold new_bytes.
    destruct (MD_MAX_LEN <? blen b) eqn:E; [lia|].
    assert (Hs : bytes_to_hex_string b = s).
    { unfold bytes_to_hex_string. unfold lower_hexb in H1. apply andb_prop in H1 as [H1 _].
      rewrite (hex_unhex_lower _ _ H1 Eu). symmetry. exact (starts_with_app k_0x s E0). }
    repeat split; cbn [m2j decode_key wrap]; now rewrite Hs.
  Qed.

  Definition key_nf (sc : schema) (k : bytes) : bool :=
    match sc with Basic => basic_key_nf k | _ => blen k <=? MD_MAX_LEN end.

  Lemma key_rt sc rk : sc <> Detailed -> key_nf sc rk = true ->
    exists mk, encode_key c sc rk = Ok mk /\ decode_key sc mk = Ok rk.
  Proof.
    intros Hsc H.
    assert (Ht : blen rk <=? MD_MAX_LEN = true -> exists mk, new_text rk = Ok mk /\ decode_key sc mk = Ok rk).
    { intros Hl. exists (MText rk). unfold new_text. destruct (MD_MAX_LEN <? blen rk) eqn:E; [lia|]. split; reflexivity. }
    destruct sc; [now apply Ht| |contradiction].
    cbn [key_nf] in H. unfold basic_key_nf in H. cbn [encode_key]. unfold int_key_range. rewrite Hkey. cbn [orb].
    destruct (parse_i128 rk) as [x|].
    - destruct (in_range (- u64_max) u64_max x).
      + apply andb_prop in H as [H1 H2]. apply bytes_eqb_eq in H2. exists (MInt x). split; [reflexivity|].
        cbn [decode_key]. rewrite <- in_range_json, H1. now rewrite H2.
      + destruct (basic_str_rt _ H) as [m [E1 [_ E3]]]. eauto.
    - destruct (basic_str_rt _ H) as [m [E1 [_ E3]]]. eauto.
  Qed.

  Lemma decode_key_nodup sc (kvs : list (md * md)) : forall (l : list (bytes * json)),
    Forall2 (fun a b => decode_key sc (fst a) = Ok (fst b)) kvs l ->
    NoDup (List.map fst l) -> NoDup (List.map fst kvs).
  Proof.
    induction kvs as [|[mk mv] r IH]; intros l F Hnd; [constructor|].
    inversion F as [|? [rk v] ? l' Hd F']; subst. cbn [List.map fst] in *. inversion Hnd; subst.
    constructor; [|eauto]. intros Hin. apply H1. clear -Hin F' Hd.
    induction F' as [|[mk' mv'] [rk' v'] r l' Hd' F' IHF]; [destruct Hin|].
    cbn [List.map fst In] in *. destruct Hin as [->|Hin]; [left; congruence|right; auto].
  Qed.

  Theorem json_md_json_plain sc j : sc <> Detailed ->
    json_wf j = true -> nf_plain sc j = true -> exists m, j2m c sc j = Ok m /\ m2j sc m = Ok j.
  Proof.
    intros Hsc. induction j as [|b|z| |lit|s|l IH|l IH] using json_ind'; intros Hwf Hnf; try discriminate.
    - exists (MInt z). cbn [nf_plain] in Hnf.
      assert (E : j2m c sc (JInt z) = encode_number c (JInt z)) by (destruct sc; [reflexivity|reflexivity|contradiction]).
      rewrite E, encode_number_spec. cbn [num_in_schema]. rewrite Hnf. split; [reflexivity|].
      cbn [m2j]. rewrite <- in_range_json, Hnf. destruct sc; [reflexivity|reflexivity|contradiction].
    - destruct sc; [|clear Hsc|contradiction].
      + cbn [nf_plain] in Hnf. exists (MText s). change (j2m c NoConv (JStr s)) with (new_text s).
        unfold new_text. destruct (MD_MAX_LEN <? blen s) eqn:E; [lia|]. split; reflexivity.
      + cbn [nf_plain] in Hnf. destruct (basic_str_rt _ Hnf) as [m [E1 [E2 _]]]. exists m. split; [exact E1|exact E2].
    - cbn [json_wf nf_plain] in Hwf, Hnf. rewrite forallb_forall in Hwf, Hnf.
      assert (Hm : exists xs, mapM (j2m c sc) l = Ok xs /\ mapM (m2j sc) xs = Ok l).
      { induction l as [|x r IHl]; [exists []; split; reflexivity|].
        inversion IH as [|? ? Px Pr]; subst.
        destruct (Px (Hwf x (or_introl eq_refl)) (Hnf x (or_introl eq_refl))) as [mx [E1 E2]].
        destruct (IHl Pr (fun y Hy => Hwf y (or_intror Hy)) (fun y Hy => Hnf y (or_intror Hy))) as [xs [E3 E4]].
        exists (mx :: xs). cbn [mapM]. rewrite E1, E3, E2, E4. split; reflexivity. }
      destruct Hm as [xs [E1 E2]]. exists (MList xs). rewrite j2m_plain_arr, E1 by assumption.
      split; [reflexivity|]. rewrite m2j_list, E2. destruct sc; [reflexivity|reflexivity|contradiction].
    - cbn [json_wf nf_plain] in Hwf, Hnf. apply andb_prop in Hwf as [Hasc Hwf].
      rewrite obj_all_Forall in Hwf, Hnf. change (fun k => match sc with Basic => basic_key_nf k | _ => blen k <=? MD_MAX_LEN end) with (key_nf sc) in Hnf.
      assert (Hm : exists kvs, mapM (pair_enc c sc) l = Ok kvs /\ mapM (pair_dec sc) kvs = Ok l /\
                               Forall2 (fun a b => decode_key sc (fst a) = Ok (fst b)) kvs l).
      { clear Hasc. induction l as [|[rk v] r IHl]; [exists []; repeat split; constructor|].
        inversion IH as [|? ? Pv Pr]; subst. inversion Hwf as [|? ? [_ Wv] Wr]; subst.
        inversion Hnf as [|? ? [Nk Nv] Nr]; subst. cbn [fst snd] in *.
        destruct (key_rt sc rk Hsc Nk) as [mk [K1 K2]]. destruct (Pv Wv Nv) as [mv [V1 V2]].
        destruct (IHl Pr Wr Nr) as [kvs [E1 [E2 E3]]].
        exists ((mk, mv) :: kvs). cbn [mapM pair_enc pair_dec]. rewrite K1, V1, E1, K2, V2, E2.
        repeat split. constructor; [exact K2|exact E3]. }
      destruct Hm as [kvs [E1 [E2 E3]]]. exists (MMap kvs). rewrite j2m_plain_obj, E1 by assumption. cbn [bind].
      rewrite lhm_of_list_nodup by (eapply decode_key_nodup; [exact E3|now apply keys_ascending_NoDup]).
      split; [reflexivity|]. rewrite m2j_plain_map, E2 by assumption. cbn [bind]. now rewrite obj_of_list_sorted.
  Qed.

  Lemma json_nodupb_NoDup l : json_nodupb l = true <-> NoDup l.
  Proof.
    induction l as [|k r IH]; cbn [json_nodupb]; [split; [constructor|reflexivity]|].
    rewrite andb_true_iff, negb_true_iff, IH. split.
    - intros [H1 H2]. constructor; [|exact H2]. intros Hin.
      assert (existsb (json_eqb k) r = true) by (apply existsb_exists; exists k; split; [exact Hin|apply json_eqb_refl]). congruence.
    - intros H. inversion H; subst. split; [|assumption].
      destruct (existsb (json_eqb k) r) eqn:E; [|reflexivity]. apply existsb_exists in E as [x [Hin Hx]].
      apply json_eqb_eq in Hx. subst. contradiction.
  Qed.

  Definition entry_key (e : json) : json := match e with JObj ((_, kj) :: _) => kj | _ => JNull end.

  Lemma m2j_key_nodup (kvs : list (md * md)) : forall (es : list json),
    Forall2 (fun a e => m2j Detailed (fst a) = Ok (entry_key e)) kvs es ->
    NoDup (List.map entry_key es) -> NoDup (List.map fst kvs).
  Proof.
    induction kvs as [|[mk mv] r IH]; intros es F Hnd; [constructor|].
    inversion F as [|? e ? es' Hd F']; subst. cbn [List.map fst] in *. inversion Hnd; subst.
    constructor; [|eauto]. intros Hin. apply H1. clear -Hin F' Hd.
    induction F' as [|[mk' mv'] e' r es' Hd' F' IHF]; [destruct Hin|].
    cbn [List.map fst In] in *. destruct Hin as [->|Hin]; [left; congruence|right; auto].
  Qed.

  Theorem json_md_json_detailed_sized n : forall j, (jsize j < n)%nat ->
    nf_detailed j = true -> exists m, j2m c Detailed j = Ok m /\ m2j Detailed m = Ok j.
  Proof.
    induction n as [|n IHn]; intros j Hn Hnf; [lia|].
    destruct j as [| | | | | | |l]; try discriminate.
    destruct l as [|[k v] [|]]; try discriminate. cbn [nf_detailed] in Hnf.
    destruct (bytes_eqb k k_int) eqn:E1.
    { apply bytes_eqb_eq in E1. subst k. destruct v; try discriminate. cbn [num_in_json_range] in Hnf.
      exists (MInt z). rewrite j2m_det_int, encode_number_spec. cbn [num_in_schema]. rewrite Hnf. split; [reflexivity|].
      cbn [m2j]. now rewrite <- in_range_json, Hnf. }
    destruct (bytes_eqb k k_string) eqn:E2.
    { apply bytes_eqb_eq in E2. subst k. destruct v; try discriminate.
      exists (MText s). rewrite j2m_det_string. unfold new_text. destruct (MD_MAX_LEN <? blen s) eqn:E; [lia|]. split; reflexivity. }
    destruct (bytes_eqb k k_bytes) eqn:E3.
    { apply bytes_eqb_eq in E3. subst k. destruct v; try discriminate. apply andb_prop in Hnf as [H1 H2].
      destruct (lower_hexb_unhex _ H1) as [b [Hu Hh]]. exists (MBytes b). rewrite j2m_det_bytes, Hu.
      pose proof (unhex_length _ _ Hu) as Hl. unfold new_bytes. destruct (MD_MAX_LEN <? blen b) eqn:E; [unfold MD_MAX_LEN in *; lia|].
      split; [reflexivity|]. cbn [m2j wrap]. now rewrite Hh. }
    destruct (bytes_eqb k k_list) eqn:E4.
    { apply bytes_eqb_eq in E4. subst k. destruct v as [| | | | | |l|]; try discriminate.
      rewrite forallb_forall in Hnf.
      assert (Hs : forall x, In x l -> (jsize x < n)%nat).
      { intros x Hx. pose proof (jsize_arr_in x l Hx). pose proof (jsize_obj_in k_list (JArr l) [(k_list, JArr l)] (or_introl eq_refl)). lia. }
      assert (Hm : exists xs, mapM (j2m c Detailed) l = Ok xs /\ mapM (m2j Detailed) xs = Ok l).
      { clear Hn. induction l as [|x r IHl]; [exists []; split; reflexivity|].
        destruct (IHn x (Hs x (or_introl eq_refl)) (Hnf x (or_introl eq_refl))) as [mx [X1 X2]].
        destruct (IHl (fun y Hy => Hnf y (or_intror Hy)) (fun y Hy => Hs y (or_intror Hy))) as [xs [R1 R2]].
        exists (mx :: xs). cbn [mapM]. rewrite X1, R1, X2, R2. split; reflexivity. }
      destruct Hm as [xs [X1 X2]]. exists (MList xs). rewrite j2m_det_list, X1. split; [reflexivity|].
      now rewrite m2j_list, X2. }
    destruct (bytes_eqb k k_map) eqn:E5; [|discriminate].
    apply bytes_eqb_eq in E5. subst k. destruct v as [| | | | | |es|]; try discriminate.
    apply andb_prop in Hnf as [Hnd Hes]. apply json_nodupb_NoDup in Hnd. apply entries_all_Forall in Hes.
    change (fun e : json => match e with JObj ((_, kj) :: _) => kj | _ => JNull end) with entry_key in Hnd.
    assert (Hs : forall e, In e es -> (jsize e < n)%nat).
    { intros x Hx. pose proof (jsize_arr_in x es Hx). pose proof (jsize_obj_in k_map (JArr es) [(k_map, JArr es)] (or_introl eq_refl)). lia. }
    assert (Hm : exists kvs, mapM (entry_dec c) es = Ok kvs /\ mapM entry_enc kvs = Ok es /\
                             Forall2 (fun a e => m2j Detailed (fst a) = Ok (entry_key e)) kvs es).
    { clear Hn Hnd. induction es as [|e r IHes]; [exists []; repeat split; constructor|].
      inversion Hes as [|? ? [kj [vj [-> [Nk Nv]]]] Hr]; subst.
      pose proof (Hs _ (or_introl eq_refl)) as He.
      pose proof (jsize_obj_in k_k kj [(k_k, kj); (k_v, vj)] (or_introl eq_refl)) as S1.
      pose proof (jsize_obj_in k_v vj [(k_k, kj); (k_v, vj)] (or_intror (or_introl eq_refl))) as S2.
      destruct (IHn kj ltac:(lia) Nk) as [mk [K1 K2]]. destruct (IHn vj ltac:(lia) Nv) as [mv [V1 V2]].
      destruct (IHes Hr (fun y Hy => Hs y (or_intror Hy))) as [kvs [R1 [R2 R3]]].
      exists ((mk, mv) :: kvs). cbn [mapM entry_enc]. rewrite entry_dec_exact, K1, V1, R1, K2, V2, R2.
      repeat split. constructor; [exact K2|exact R3]. }
    destruct Hm as [kvs [X1 [X2 X3]]]. exists (MMap kvs). rewrite j2m_det_map, X1. cbn [bind].
    rewrite lhm_of_list_nodup by (eapply m2j_key_nodup; eassumption).
    split; [reflexivity|]. now rewrite m2j_det_map, X2.
  Qed.

  Theorem json_md_json sc j :
    json_wf j = true -> nf sc j = true -> exists m, j2m c sc j = Ok m /\ m2j sc m = Ok j.
  Proof.
    intros Hwf Hnf. destruct sc.
    - apply json_md_json_plain; [discriminate|assumption|assumption].
    - apply json_md_json_plain; [discriminate|assumption|assumption].
    - apply (json_md_json_detailed_sized (S (jsize j))); [lia|assumption].
  Qed.

  (* ===== the conversion is defined exactly on the schema's language; outside it the result is Err ===== *)
  Hypothesis Hlen : c_entry_lenient c = false.

  Definition res_dom {A} (r : result A) (b : bool) : Prop := if b then exists a, r = Ok a else r = Err.

  Lemma res_dom_mapM {A B} (f : A -> result B) (g : A -> bool) l :
    Forall (fun x => res_dom (f x) (g x)) l -> res_dom (mapM f l) (forallb g l).
  Proof.
    induction 1 as [|x r Hx _ IH]; cbn [mapM forallb]; [now exists []|].
    unfold res_dom in *. destruct (g x).
    - destruct Hx as [y ->]. cbn [bind andb]. destruct (forallb g r).
      + destruct IH as [ys ->]. now eexists.
      + now rewrite IH.
    - now rewrite Hx.
  Qed.
  Lemma res_dom_pair {A B} (r1 : result A) (r2 : result B) b1 b2 :
    res_dom r1 b1 -> res_dom r2 b2 -> res_dom (let* a := r1 in let* b := r2 in Ok (a, b)) (b1 && b2).
  Proof.
    unfold res_dom. destruct b1; [intros [a ->]|intros ->; reflexivity]. cbn [bind andb].
    destruct b2; [intros [b ->]; now eexists|intros ->; reflexivity].
  Qed.
  Lemma res_dom_bind {A B} (r : result A) (f : A -> B) b :
    res_dom r b -> res_dom (let* a := r in Ok (f a)) b.
  Proof. unfold res_dom. destruct b; [intros [a ->]; now eexists|intros ->; reflexivity]. Qed.
  Lemma obj_all_forallb fk fv l : obj_all fk fv l = forallb (fun kv => fk (fst kv) && fv (snd kv)) l.
  Proof. induction l as [|[k v] r IH]; cbn [obj_all forallb fst snd]; [reflexivity|]. now rewrite IH. Qed.

  Lemma new_text_dom s : res_dom (new_text s) (blen s <=? MD_MAX_LEN).
  Proof. unfold new_text, res_dom. destruct (MD_MAX_LEN <? blen s) eqn:E; destruct (blen s <=? MD_MAX_LEN) eqn:E2; try lia; eauto. Qed.
  Lemma new_bytes_dom s : res_dom (new_bytes s) (blen s <=? MD_MAX_LEN).
  Proof. unfold new_bytes, res_dom. destruct (MD_MAX_LEN <? blen s) eqn:E; destruct (blen s <=? MD_MAX_LEN) eqn:E2; try lia; eauto. Qed.
  Lemma encode_number_dom j : res_dom (encode_number c j) (num_in_schema j).
  Proof. rewrite encode_number_spec. unfold res_dom. destruct (num_in_schema j); eauto. Qed.
  Lemma encode_string_basic_dom s : res_dom (encode_string s Basic) (basic_str_dom s).
  Proof.
    unfold encode_string, basic_str_dom. destruct (hex_string_to_bytes s); [apply new_bytes_dom|apply new_text_dom].
  Qed.
  Definition key_dom (sc : schema) (k : bytes) : bool :=
    match sc with Basic => basic_key_dom k | _ => blen k <=? MD_MAX_LEN end.
  Lemma encode_key_dom sc rk : sc <> Detailed -> res_dom (encode_key c sc rk) (key_dom sc rk).
  Proof.
    intros Hsc. destruct sc; [apply new_text_dom| |contradiction].
    cbn [encode_key key_dom]. unfold basic_key_dom, int_key_range. rewrite Hkey. cbn [orb].
    destruct (parse_i128 rk) as [x|]; [|apply encode_string_basic_dom].
    destruct (in_range (- u64_max) u64_max x); cbn [orb]; [now eexists|apply encode_string_basic_dom].
  Qed.

  Theorem j2m_plain_domain sc j : sc <> Detailed -> res_dom (j2m c sc j) (dom_plain sc j).
  Proof.
    intros Hsc. induction j as [|b|z| |lit|s|l IH|l IH] using json_ind'.
    - destruct sc; [reflexivity|reflexivity|contradiction].
    - destruct sc; [reflexivity|reflexivity|contradiction].
    - replace (j2m c sc (JInt z)) with (encode_number c (JInt z)) by (destruct sc; [reflexivity|reflexivity|contradiction]). apply encode_number_dom.
    - replace (j2m c sc JNegZero) with (encode_number c JNegZero) by (destruct sc; [reflexivity|reflexivity|contradiction]). apply encode_number_dom.
    - replace (j2m c sc (JFloat lit)) with (encode_number c (JFloat lit)) by (destruct sc; [reflexivity|reflexivity|contradiction]). apply encode_number_dom.
    - destruct sc; [apply new_text_dom|apply encode_string_basic_dom|contradiction].
    - rewrite j2m_plain_arr by assumption. cbn [dom_plain]. apply res_dom_bind. now apply res_dom_mapM.
    - rewrite j2m_plain_obj by assumption. cbn [dom_plain]. apply res_dom_bind.
      change (fun k => match sc with Basic => basic_key_dom k | _ => blen k <=? MD_MAX_LEN end) with (key_dom sc).
      rewrite obj_all_forallb. apply res_dom_mapM.
      eapply Forall_impl; [|exact IH]. intros [rk v] Hv. cbn [fst snd pair_enc] in *.
      apply res_dom_pair; [now apply encode_key_dom|exact Hv].
  Qed.

  Lemma j2m_det_single k v : j2m c Detailed (JObj [(k, v)]) =
    if bytes_eqb k k_int then match v with JInt _ | JNegZero | JFloat _ => encode_number c v | _ => Err end
    else if bytes_eqb k k_string then match v with JStr s => new_text s | _ => Err end
    else if bytes_eqb k k_bytes then
      match v with JStr s => match unhex s with Some b => new_bytes b | None => Err end | _ => Err end
    else if bytes_eqb k k_list then
      match v with JArr l => let* xs := mapM (j2m c Detailed) l in Ok (MList xs) | _ => Err end
    else if bytes_eqb k k_map then
      match v with JArr es => let* kvs := mapM (entry_dec c) es in Ok (MMap (lhm_of_list kvs)) | _ => Err end
    else Err.
  Proof. reflexivity. Qed.

  Definition entry_okb (f : json -> bool) (e : json) : bool :=
    match e with
    | JObj [(a, kj); (b, vj)] => bytes_eqb a k_k && bytes_eqb b k_v && f kj && f vj
    | _ => false
    end.
  Lemma entries_all_forallb f es : entries_all k_k k_v f es = forallb (entry_okb f) es.
  Proof.
    induction es as [|e r IH]; [reflexivity|]. cbn [entries_all forallb]. unfold entry_okb at 1.
    destruct e as [| | | | | | |l]; try reflexivity. destruct l as [|[a kj] [|[b vj] [|]]]; try reflexivity. now rewrite IH.
  Qed.

  Lemma entry_dec_domain e :
    json_wf e = true ->
    (forall x, (jsize x < jsize e)%nat -> json_wf x = true -> res_dom (j2m c Detailed x) (dom_detailed x)) ->
    res_dom (entry_dec c e) (entry_okb dom_detailed e).
  Proof.
    intros Hwf IH. destruct e as [| | | | | | |l2]; try reflexivity.
    unfold entry_dec, entry_shape_ok. rewrite Hlen. cbn [orb].
    destruct l2 as [|[a x] [|[b y] [|p r]]].
    - reflexivity.
    - cbn [List.length Nat.eqb]. rewrite !andb_false_r. reflexivity.
    - cbn [json_wf keys_ascending obj_all] in Hwf. rewrite !andb_true_iff in Hwf. destruct Hwf as [[Hlt _] [[_ Wx] [[_ Wy] _]]].
      unfold has_key. cbn [obj_get List.length Nat.eqb entry_okb]. rewrite andb_true_r.
      destruct (bytes_eqb a k_k) eqn:Ea; destruct (bytes_eqb b k_v) eqn:Eb.
      + apply bytes_eqb_eq in Ea, Eb. subst a b. change (bytes_eqb k_k k_v) with false. cbn [andb].
        pose proof (jsize_obj_in k_k x [(k_k, x); (k_v, y)] (or_introl eq_refl)) as S1.
        pose proof (jsize_obj_in k_v y [(k_k, x); (k_v, y)] (or_intror (or_introl eq_refl))) as S2.
        cbn [on_key]. rewrite bytes_eqb_refl. change (bytes_eqb k_k k_v) with false. rewrite bytes_eqb_refl.
        apply res_dom_pair; apply IH; assumption.
      + apply bytes_eqb_eq in Ea. subst a. change (bytes_eqb k_k k_v) with false. rewrite andb_false_r. reflexivity.
      + apply bytes_eqb_eq in Eb. subst b. change (bytes_eqb k_v k_k) with false. cbn [andb]. reflexivity.
      + cbn [andb]. destruct (bytes_eqb b k_k) eqn:Eb2; [|reflexivity].
        destruct (bytes_eqb a k_v) eqn:Ea2; [|reflexivity].
        apply bytes_eqb_eq in Eb2, Ea2. subst a b. vm_compute in Hlt. discriminate.
    - cbn [List.length Nat.eqb]. rewrite !andb_false_r. reflexivity.
  Qed.

  Theorem j2m_detailed_domain_sized n : forall j, (jsize j < n)%nat -> json_wf j = true ->
    res_dom (j2m c Detailed j) (dom_detailed j).
  Proof.
    induction n as [|n IHn]; intros j Hn Hwf; [lia|].
    destruct j as [| | | | | | |l]; try reflexivity.
    destruct l as [|[k v] [|]]; try reflexivity. rewrite j2m_det_single. cbn [dom_detailed].
    cbn [json_wf keys_ascending obj_all] in Hwf. rewrite !andb_true_iff in Hwf. destruct Hwf as [_ [[_ Wv] _]].
    pose proof (jsize_obj_in k v [(k, v)] (or_introl eq_refl)) as Sv.
    destruct (bytes_eqb k k_int); [destruct v; try reflexivity; apply encode_number_dom|].
    destruct (bytes_eqb k k_string); [destruct v; try reflexivity; apply new_text_dom|].
    destruct (bytes_eqb k k_bytes).
    { destruct v; try reflexivity. destruct (unhex s); [apply new_bytes_dom|reflexivity]. }
    destruct (bytes_eqb k k_list).
    { destruct v as [| | | | | |l|]; try reflexivity. apply res_dom_bind. apply res_dom_mapM.
      cbn [json_wf] in Wv. rewrite forallb_forall in Wv. apply Forall_forall. intros x Hx.
      apply IHn; [pose proof (jsize_arr_in x l Hx); lia|now apply Wv]. }
    destruct (bytes_eqb k k_map); [|reflexivity].
    destruct v as [| | | | | |es|]; try reflexivity. apply res_dom_bind. rewrite entries_all_forallb. apply res_dom_mapM.
    cbn [json_wf] in Wv. rewrite forallb_forall in Wv. apply Forall_forall. intros e He.
    apply entry_dec_domain; [now apply Wv|]. intros x Hx Wx. apply IHn; [pose proof (jsize_arr_in e es He); lia|exact Wx].
  Qed.

  Theorem j2m_domain sc j : json_wf j = true -> res_dom (j2m c sc j) (in_schema sc j).
  Proof.
    intros Hwf. destruct sc.
    - apply j2m_plain_domain. discriminate.
    - apply j2m_plain_domain. discriminate.
    - apply (j2m_detailed_domain_sized (S (jsize j))); [lia|exact Hwf].
  Qed.

  Theorem out_of_schema_is_error sc j : json_wf j = true -> in_schema sc j = false -> j2m c sc j = Err.
  Proof. intros Hwf H. pose proof (j2m_domain sc j Hwf) as D. now rewrite H in D. Qed.
  Theorem in_schema_converts sc j : json_wf j = true -> in_schema sc j = true -> exists m, j2m c sc j = Ok m.
  Proof. intros Hwf H. pose proof (j2m_domain sc j Hwf) as D. now rewrite H in D. Qed.
End WithCfg.
