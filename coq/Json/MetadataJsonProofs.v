(* Theorems about the metadata <-> JSON model (MetadataJson.v). *)
From CSL Require Import Base.Prelude Base.Hex Json.Decimal Json.DecimalProofs Json.Json Json.JsonProofs Json.MetadataJson.
Local Open Scope N_scope.

(* ---------- induction principle and decidable equality for md ---------- *)
Section MdInd.
  Variable P : md -> Prop.
  Hypothesis HMap : forall l, Forall (fun kv => P (fst kv) /\ P (snd kv)) l -> P (MMap l).
  Hypothesis HList : forall l, Forall P l -> P (MList l).
  Hypothesis HInt : forall z, P (MInt z).
  Hypothesis HBytes : forall b, P (MBytes b).
  Hypothesis HText : forall s, P (MText s).
  Fixpoint md_ind' (m : md) : P m :=
    match m with
    | MMap l => HMap l ((fix go (l : list (md * md)) : Forall (fun kv => P (fst kv) /\ P (snd kv)) l :=
                           match l with
                           | [] => Forall_nil _
                           | (k, v) :: r => Forall_cons (k, v) (conj (md_ind' k) (md_ind' v)) (go r)
                           end) l)
    | MList l => HList l ((fix go (l : list md) : Forall P l :=
                             match l with [] => Forall_nil _ | x :: r => Forall_cons _ (md_ind' x) (go r) end) l)
    | MInt z => HInt z | MBytes b => HBytes b | MText s => HText s
    end.
End MdInd.

Lemma md_eqb_eq a : forall b, md_eqb a b = true <-> a = b.
Proof.
  induction a using md_ind'; intros []; cbn [md_eqb]; try (split; discriminate).
  - rename l0 into l2. revert l2. induction H as [|[k x] r [Hk Hx] _ IH]; intros [|[k2 y] l2]; try (split; discriminate); [split; reflexivity|].
    cbn [fst snd] in Hk, Hx. rewrite !andb_true_iff, Hk, Hx. specialize (IH l2). split.
    + intros [[-> ->] H2]. apply IH in H2. now inversion H2.
    + intros [= -> -> ->]. repeat split. now apply IH.
  - rename l0 into l2. revert l2. induction H as [|x r Hx _ IH]; intros [|y l2]; try (split; discriminate); [split; reflexivity|].
    rewrite andb_true_iff, Hx. specialize (IH l2). split.
    + intros [-> H2]. apply IH in H2. now inversion H2.
    + intros [= -> ->]. split; [reflexivity|]. now apply IH.
  - rewrite Z.eqb_eq. split; [now intros ->|now intros [= ->]].
  - rewrite bytes_eqb_eq. split; [now intros ->|now intros [= ->]].
  - rewrite bytes_eqb_eq. split; [now intros ->|now intros [= ->]].
Qed.
Lemma md_eqb_refl a : md_eqb a a = true.
Proof. now apply md_eqb_eq. Qed.

(* ---------- LinkedHashMap insertion of pairwise distinct keys keeps the list ---------- *)
Lemma keys_nodupb_NoDup ks : keys_nodupb ks = true <-> NoDup ks.
Proof.
  induction ks as [|k r IH]; cbn [keys_nodupb]; [split; [constructor|reflexivity]|].
  rewrite andb_true_iff, negb_true_iff, IH. split.
  - intros [H1 H2]. constructor; [|exact H2]. intros Hin.
    assert (existsb (md_eqb k) r = true) by (apply existsb_exists; exists k; split; [exact Hin|apply md_eqb_refl]). congruence.
  - intros H. inversion H; subst. split; [|assumption].
    destruct (existsb (md_eqb k) r) eqn:E; [|reflexivity]. apply existsb_exists in E as [x [Hin Hx]].
    apply md_eqb_eq in Hx. subst. contradiction.
Qed.

Lemma lhm_insert_fresh k v acc : ~ In k (List.map fst acc) -> lhm_insert k v acc = acc ++ [(k, v)].
Proof.
  intros H. unfold lhm_insert. f_equal. induction acc as [|[k' v'] r IH]; [reflexivity|].
  cbn [filter fst]. cbn [List.map fst In] in H.
  destruct (md_eqb k' k) eqn:E; [apply md_eqb_eq in E; subst; exfalso; apply H; now left|].
  cbn [negb]. f_equal. apply IH. intros Hin. apply H. now right.
Qed.

Lemma lhm_of_list_nodup_gen l : forall acc, NoDup (List.map fst (acc ++ l)) ->
  fold_left (fun acc kv => lhm_insert (fst kv) (snd kv) acc) l acc = acc ++ l.
Proof.
  induction l as [|[k v] r IH]; intros acc H; cbn [fold_left]; [now rewrite app_nil_r|].
  cbn [fst snd]. rewrite lhm_insert_fresh.
  - rewrite IH; rewrite <- app_assoc; [reflexivity|exact H].
  - rewrite map_app in H. cbn [List.map fst] in H. apply NoDup_remove_2 in H.
    intros Hin. apply H. apply in_or_app. now left.
Qed.
Theorem lhm_of_list_nodup l : NoDup (List.map fst l) -> lhm_of_list l = l.
Proof. intros H. unfold lhm_of_list. now rewrite lhm_of_list_nodup_gen. Qed.

(* ---------- hex ---------- *)
Lemma bytes_okb_ok b : bytes_okb b = true -> bytes_ok b.
Proof.
  unfold bytes_okb, bytes_ok. rewrite forallb_forall, Forall_forall. intros H x Hx. specialize (H x Hx). lia.
Qed.

Lemma hexc_unhexc_lower c n :
  ((48 <=? c) && (c <=? 57)) || ((97 <=? c) && (c <=? 102)) = true -> unhexc c = Some n -> hexc n = c /\ n < 16.
Proof.
  unfold unhexc, hexc. intros H.
  destruct ((48 <=? c) && (c <=? 57)) eqn:E1.
  - intros [= <-]. split; [|lia]. destruct (c - 48 <? 10) eqn:E; lia.
  - destruct ((97 <=? c) && (c <=? 102)) eqn:E2; [|cbn in H; discriminate].
    intros [= <-]. split; [|lia]. destruct (c - 87 <? 10) eqn:E; lia.
Qed.

Lemma list_ind2 {A} (P : list A -> Prop) :
  P [] -> (forall x, P [x]) -> (forall x y r, P r -> P (x :: y :: r)) -> forall l, P l.
Proof.
  intros H0 H1 H2. fix go 1. intros [|x [|y r]]; [exact H0|apply H1|apply H2, go].
Qed.

Lemma hex_unhex_lower s : forall b,
  forallb (fun c => ((48 <=? c) && (c <=? 57)) || ((97 <=? c) && (c <=? 102))) s = true ->
  unhex s = Some b -> hex b = s.
Proof.
  induction s as [|h|h l r IH] using list_ind2; intros b Hl Hu.
  - cbn in Hu. inversion Hu. reflexivity.
  - cbn in Hu. discriminate.
  - cbn [unhex] in Hu. cbn [forallb] in Hl. apply andb_prop in Hl as [Hh Hl]. apply andb_prop in Hl as [Hl Hr].
    destruct (unhexc h) as [a|] eqn:Ea; [|discriminate].
    destruct (unhexc l) as [bb|] eqn:Eb; [|discriminate].
    destruct (unhex r) as [t|] eqn:Et; [|discriminate]. inversion Hu; subst b. clear Hu.
    destruct (hexc_unhexc_lower _ _ Hh Ea) as [Ha La]. destruct (hexc_unhexc_lower _ _ Hl Eb) as [Hb Lb].
    cbn [hex]. rewrite (IH t Hr eq_refl).
    replace ((a * 16 + bb) / 16) with a by (apply N.div_unique with bb; lia).
    replace ((a * 16 + bb) mod 16) with bb by (apply N.mod_unique with a; lia).
    now rewrite Ha, Hb.
Qed.

Lemma unhex_length s : forall b, unhex s = Some b -> blen s = 2 * blen b.
Proof.
  induction s as [|h|h l r IH] using list_ind2; intros b Hu.
  - inversion Hu. reflexivity.
  - discriminate.
  - cbn [unhex] in Hu. destruct (unhexc h); [|discriminate]. destruct (unhexc l); [|discriminate].
    destruct (unhex r) as [t|] eqn:Et; [|discriminate]. inversion Hu; subst b.
    specialize (IH t eq_refl). unfold blen in *. cbn [List.length] in *. rewrite !Nat2N.inj_succ. lia.
Qed.

Lemma starts_with_app p s : starts_with p s = true -> s = p ++ skipn (List.length p) s.
Proof.
  revert s. induction p as [|x p IH]; intros s H; [reflexivity|].
  destruct s as [|y s]; [discriminate|]. cbn [starts_with] in H. apply andb_prop in H as [H1 H2].
  apply N.eqb_eq in H1. subst. cbn [app List.length skipn]. f_equal. now apply IH.
Qed.

(* ---------- helper combinators ---------- *)
Lemma obj_all_Forall fk fv l :
  obj_all fk fv l = true <-> Forall (fun kv => fk (fst kv) = true /\ fv (snd kv) = true) l.
Proof.
  induction l as [|[k v] r IH]; cbn [obj_all]; [split; [constructor|reflexivity]|].
  rewrite !andb_true_iff, IH. split.
  - intros [[H1 H2] H3]. constructor; [split; assumption|assumption].
  - intros H. inversion H; subst. cbn [fst snd] in *. tauto.
Qed.
Lemma pairs_all_Forall fk fv l :
  pairs_all fk fv l = true <-> Forall (fun kv => fk (fst kv) = true /\ fv (snd kv) = true) l.
Proof.
  induction l as [|[k v] r IH]; cbn [pairs_all]; [split; [constructor|reflexivity]|].
  rewrite !andb_true_iff, IH. split.
  - intros [[H1 H2] H3]. constructor; [split; assumption|assumption].
  - intros H. inversion H; subst. cbn [fst snd] in *. tauto.
Qed.
Lemma entries_all_Forall kk kv f es :
  entries_all kk kv f es = true <->
  Forall (fun e => exists kj vj, e = JObj [(kk, kj); (kv, vj)] /\ f kj = true /\ f vj = true) es.
Proof.
  induction es as [|e r IH]; cbn [entries_all]; [split; [constructor|reflexivity]|].
  split.
  - destruct e as [| | | | | | |l]; try discriminate. destruct l as [|[a kj] [|[b vj] [|]]]; try discriminate.
    rewrite !andb_true_iff, IH, !bytes_eqb_eq. intros [[[[-> ->] H1] H2] H3].
    constructor; [|assumption]. now exists kj, vj.
  - intros H. inversion H as [|? ? [kj [vj [-> [H1 H2]]]] H3]; subst.
    rewrite !bytes_eqb_refl, H1, H2. cbn [andb]. now apply IH.
Qed.

Lemma keys_ascending_keys {A B} (l1 : list (bytes * A)) : forall (l2 : list (bytes * B)),
  List.map fst l1 = List.map fst l2 -> keys_ascending l1 = keys_ascending l2.
Proof.
  induction l1 as [|[k v] r IH]; intros [|[k2 v2] r2] H; try discriminate; [reflexivity|].
  cbn [List.map fst] in H. inversion H; subst. specialize (IH r2 H2).
  destruct r as [|[k' v'] r']; destruct r2 as [|[k2' v2'] r2']; try discriminate; [reflexivity|].
  cbn [keys_ascending] in *. cbn [List.map fst] in H2. inversion H2; subst. now rewrite IH.
Qed.

Lemma keys_ascending_NoDup {A} (l : list (bytes * A)) : keys_ascending l = true -> NoDup (List.map fst l).
Proof.
  induction l as [|[k v] r IH]; intros H; [constructor|].
  destruct (keys_ascending_cons _ _ _ H) as [H1 H2]. cbn [List.map fst]. constructor; [|auto].
  intros Hin. apply in_map_iff in Hin as [[k' v'] [E Hin]]. cbn [fst] in E. subst k'.
  rewrite Forall_forall in H2. specialize (H2 _ Hin). cbn [fst] in H2. now rewrite bytes_ltb_irrefl in H2.
Qed.

(* ---------- unfolding equations (all by computation on the closed key words) ---------- *)
Definition entry_dec (c : cfg) (e : json) : result (md * md) :=
  match e with
  | JObj l2 =>
      if entry_shape_ok c l2 then
        let* mk := on_key k_k (j2m c Detailed) Err l2 in
        let* mv := on_key k_v (j2m c Detailed) Err l2 in
        Ok (mk, mv)
      else Err
  | _ => Err
  end.
Definition pair_enc (c : cfg) (sc : schema) (kv : bytes * json) : result (md * md) :=
  match kv with (rk, v) => let* mk := encode_key c sc rk in let* mv := j2m c sc v in Ok (mk, mv) end.
Definition entry_enc (kv : md * md) : result json :=
  match kv with (k, v) => let* jk := m2j Detailed k in let* jv := m2j Detailed v in Ok (JObj [(k_k, jk); (k_v, jv)]) end.
Definition pair_dec (sc : schema) (kv : md * md) : result (bytes * json) :=
  match kv with (k, v) => let* ks := decode_key sc k in let* jv := m2j sc v in Ok (ks, jv) end.

Lemma j2m_det_int c v : j2m c Detailed (JObj [(k_int, v)]) =
  match v with JInt _ | JNegZero | JFloat _ => encode_number c v | _ => Err end.
Proof. reflexivity. Qed.
Lemma j2m_det_string c v : j2m c Detailed (JObj [(k_string, v)]) =
  match v with JStr s => new_text s | _ => Err end.
Proof. reflexivity. Qed.
Lemma j2m_det_bytes c v : j2m c Detailed (JObj [(k_bytes, v)]) =
  match v with JStr s => match unhex s with Some b => new_bytes b | None => Err end | _ => Err end.
Proof. reflexivity. Qed.
Lemma j2m_det_list c v : j2m c Detailed (JObj [(k_list, v)]) =
  match v with JArr l => let* xs := mapM (j2m c Detailed) l in Ok (MList xs) | _ => Err end.
Proof. reflexivity. Qed.
Lemma j2m_det_map c v : j2m c Detailed (JObj [(k_map, v)]) =
  match v with JArr es => let* kvs := mapM (entry_dec c) es in Ok (MMap (lhm_of_list kvs)) | _ => Err end.
Proof. reflexivity. Qed.
Lemma j2m_plain_obj c sc l : sc <> Detailed ->
  j2m c sc (JObj l) = let* kvs := mapM (pair_enc c sc) l in Ok (MMap (lhm_of_list kvs)).
Proof. destruct sc; [reflexivity|reflexivity|contradiction]. Qed.
Lemma j2m_plain_arr c sc l : sc <> Detailed ->
  j2m c sc (JArr l) = let* xs := mapM (j2m c sc) l in Ok (MList xs).
Proof. destruct sc; [reflexivity|reflexivity|contradiction]. Qed.
Lemma m2j_det_map l : m2j Detailed (MMap l) = let* es := mapM entry_enc l in Ok (JObj [(k_map, JArr es)]).
Proof. reflexivity. Qed.
Lemma m2j_plain_map sc l : sc <> Detailed ->
  m2j sc (MMap l) = let* kvs := mapM (pair_dec sc) l in Ok (JObj (obj_of_list kvs)).
Proof. destruct sc; [reflexivity|reflexivity|contradiction]. Qed.
Lemma m2j_list sc l : m2j sc (MList l) = let* xs := mapM (m2j sc) l in Ok (wrap sc k_list (JArr xs)).
Proof. reflexivity. Qed.

Lemma entry_dec_exact c jk jv :
  entry_dec c (JObj [(k_k, jk); (k_v, jv)]) =
  let* mk := j2m c Detailed jk in let* mv := j2m c Detailed jv in Ok (mk, mv).
Proof.
  unfold entry_dec, entry_shape_ok. change (has_key k_k [(k_k, jk); (k_v, jv)]) with true.
  change (has_key k_v [(k_k, jk); (k_v, jv)]) with true. cbn [andb List.length Nat.eqb].
  rewrite orb_true_r. reflexivity.
Qed.

Lemma md_wf_map l : md_wf (MMap l) = true ->
  NoDup (List.map fst l) /\ Forall (fun kv => md_wf (fst kv) = true /\ md_wf (snd kv) = true) l.
Proof.
  cbn [md_wf]. rewrite andb_true_iff, keys_nodupb_NoDup, pairs_all_Forall. tauto.
Qed.
Lemma md_wf_list l : md_wf (MList l) = true -> Forall (fun x => md_wf x = true) l.
Proof. cbn [md_wf]. rewrite forallb_forall, Forall_forall. auto. Qed.

Lemma in_range_json z : in_range i64_min u64_max z = int_json_range z.
Proof.
  unfold in_range, int_json_range, i64_min, u64_max.
  destruct (Z.leb_spec 0 z); destruct (Z.leb_spec (-9223372036854775808) z); destruct (Z.leb_spec z 18446744073709551615); cbn; try reflexivity; lia.
Qed.

Section WithCfg.
  Variable c : cfg.
  Hypothesis Hneg : c_negmin_panics c = false.

  Lemma encode_number_spec j :
    encode_number c j = if num_in_schema j then Ok (MInt (match j with JInt z => z | _ => 0%Z end)) else Err.
  Proof.
    unfold encode_number, as_u64, as_i64, num_in_schema. rewrite Hneg. cbn [andb].
    destruct j; try reflexivity.
    unfold in_range, i64_min, i64_max, u64_max.
    destruct (Z.leb_spec 0 z); destruct (Z.leb_spec (-9223372036854775808) z);
      destruct (Z.leb_spec z 18446744073709551615); destruct (Z.leb_spec z 9223372036854775807); cbn; try reflexivity; lia.
  Qed.

  (* ===== metadata -> JSON -> metadata, DetailedSchema ===== *)
  Theorem md_json_md_detailed m : forall j,
    md_wf m = true -> m2j Detailed m = Ok j -> j2m c Detailed j = Ok m.
  Proof.
    induction m as [l IH|l IH|z|b|s] using md_ind'; intros j Hwf Hj.
    - rewrite m2j_det_map in Hj. destruct (mapM entry_enc l) as [es| | |] eqn:E; cbn [bind] in Hj; try discriminate.
      inversion Hj; subst j; clear Hj. rewrite j2m_det_map.
      destruct (md_wf_map _ Hwf) as [Hnd Hwfs].
      assert (Hm : mapM (entry_dec c) es = Ok l).
      { clear Hnd Hwf. revert es E. induction l as [|[k v] r IHl]; intros es E.
        - cbn in E. inversion E. reflexivity.
        - cbn [mapM entry_enc] in E.
          destruct (m2j Detailed k) as [jk| | |] eqn:Ek; cbn [bind] in E; try discriminate.
          destruct (m2j Detailed v) as [jv| | |] eqn:Ev; cbn [bind] in E; try discriminate.
          destruct (mapM entry_enc r) as [es'| | |] eqn:Er; cbn [bind] in E; try discriminate.
          inversion E; subst es; clear E. inversion IH as [|? ? [Pk Pv] IHr]; subst.
          inversion Hwfs as [|? ? [Wk Wv] Wr]; subst. cbn [fst snd] in *.
          cbn [mapM]. rewrite entry_dec_exact, (Pk _ Wk Ek), (Pv _ Wv Ev). cbn [bind].
          now rewrite (IHl IHr Wr es' eq_refl). }
      rewrite Hm. cbn [bind]. now rewrite lhm_of_list_nodup.
    - rewrite m2j_list in Hj. destruct (mapM (m2j Detailed) l) as [xs| | |] eqn:E; cbn [bind] in Hj; try discriminate.
      inversion Hj; subst j; clear Hj. cbn [wrap]. rewrite j2m_det_list.
      pose proof (md_wf_list _ Hwf) as Hwfs.
      assert (Hm : mapM (j2m c Detailed) xs = Ok l).
      { clear Hwf. revert xs E. induction l as [|x r IHl]; intros xs E.
        - cbn in E. inversion E. reflexivity.
        - cbn [mapM] in E. destruct (m2j Detailed x) as [jx| | |] eqn:Ex; cbn [bind] in E; try discriminate.
          destruct (mapM (m2j Detailed) r) as [xs'| | |] eqn:Er; cbn [bind] in E; try discriminate.
          inversion E; subst xs; clear E. inversion IH; subst. inversion Hwfs; subst.
          cbn [mapM]. rewrite (H1 _ H3 Ex). cbn [bind]. now rewrite (IHl H2 H4 xs' eq_refl). }
      now rewrite Hm.
    - cbn [m2j] in Hj. destruct (int_json_range z) eqn:E; [|discriminate]. inversion Hj; subst j. cbn [wrap].
      rewrite j2m_det_int, encode_number_spec. cbn [num_in_schema]. now rewrite in_range_json, E.
    - cbn [m2j] in Hj. inversion Hj; subst j. cbn [wrap]. rewrite j2m_det_bytes.
      cbn [md_wf] in Hwf. apply andb_prop in Hwf as [H1 H2].
      rewrite (unhex_hex _ (bytes_okb_ok _ H1)). unfold new_bytes.
      destruct (MD_MAX_LEN <? blen b) eqn:E; [lia|reflexivity].
    - cbn [m2j] in Hj. inversion Hj; subst j. cbn [wrap]. rewrite j2m_det_string.
      cbn [md_wf] in Hwf. unfold new_text. destruct (MD_MAX_LEN <? blen s) eqn:E; [lia|reflexivity].
  Qed.
End WithCfg.
