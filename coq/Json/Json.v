(* JSON trees as [serde_json::Value] holds them in this build of the library:
   - [serde_json] is built with [arbitrary_precision] (default feature [arbitrary-precision-json]): a number
     keeps its literal text.  A literal is modelled as [JInt z] when it is the canonical decimal text of the
     integer z ("0", "-5", "18446744073709551616"), [JNegZero] for the literal "-0", and [JFloat lit] for every
     other literal (fraction and/or exponent) with [lit] its text;
   - [serde_json] is built WITHOUT [preserve_order]: an object is a [BTreeMap<String, Value>], i.e. an
     association list with strictly ascending keys in byte-wise lexicographic order ([json_wf]);
   - strings are their UTF-8 bytes.
   JSON text <-> tree ([serde_json::from_str] / [to_string]) is external and happens on the harness side.
   Model definitions only; lemmas in JsonProofs.v. *)
From CSL Require Import Base.Prelude.
From Coq Require Import Ascii String.
Local Open Scope N_scope.

(* ---------- byte strings: comparison (Rust [String]/[Vec<u8>] Ord = lexicographic on bytes) ---------- *)
Fixpoint bytes_cmp (a b : bytes) : comparison :=
  match a, b with
  | [], [] => Eq
  | [], _ :: _ => Lt
  | _ :: _, [] => Gt
  | x :: a', y :: b' => match N.compare x y with Eq => bytes_cmp a' b' | c => c end
  end.
Definition bytes_eqb (a b : bytes) : bool := match bytes_cmp a b with Eq => true | _ => false end.
Definition bytes_ltb (a b : bytes) : bool := match bytes_cmp a b with Lt => true | _ => false end.

Definition ascii_bytes (s : string) : bytes := List.map N_of_ascii (list_ascii_of_string s).

Fixpoint starts_with (p s : bytes) : bool :=
  match p, s with
  | [], _ => true
  | _ :: _, [] => false
  | x :: p', y :: s' => (x =? y) && starts_with p' s'
  end.
Definition blen (b : bytes) : N := N.of_nat (List.length b).

(* ---------- JSON trees ---------- *)
Inductive json : Type :=
| JNull
| JBool (b : bool)
| JInt (z : Z)
| JNegZero
| JFloat (lit : bytes)
| JStr (s : bytes)
| JArr (l : list json)
| JObj (l : list (bytes * json)).

(* [serde_json::Map::insert] on a BTreeMap: sorted insertion, an equal key has its value replaced *)
Fixpoint obj_insert (k : bytes) (v : json) (l : list (bytes * json)) : list (bytes * json) :=
  match l with
  | [] => [(k, v)]
  | (k', v') :: r =>
      match bytes_cmp k k' with
      | Lt => (k, v) :: l
      | Eq => (k, v) :: r
      | Gt => (k', v') :: obj_insert k v r
      end
  end.
Definition obj_of_list (l : list (bytes * json)) : list (bytes * json) :=
  fold_left (fun acc kv => obj_insert (fst kv) (snd kv) acc) l [].

Fixpoint obj_get (k : bytes) (l : list (bytes * json)) : option json :=
  match l with
  | [] => None
  | (k', v) :: r => if bytes_eqb k' k then Some v else obj_get k r
  end.

(* strictly ascending keys (adjacent pairs; equivalent to all pairs since the order is transitive) *)
Fixpoint keys_ascending {A} (l : list (bytes * A)) : bool :=
  match l with
  | [] => true
  | (k, _) :: r => match r with [] => true | (k', _) :: _ => bytes_ltb k k' && keys_ascending r end
  end.

(* universally quantified checks usable under nested recursion *)
Definition obj_all (fk : bytes -> bool) (fv : json -> bool) : list (bytes * json) -> bool :=
  fix go (l : list (bytes * json)) : bool :=
    match l with [] => true | (k, v) :: r => fk k && fv v && go r end.
(* every element is an object with exactly the keys "k" and "v" whose values satisfy [f] *)
Definition entries_all (kk kv : bytes) (f : json -> bool) : list json -> bool :=
  fix go (es : list json) : bool :=
    match es with
    | [] => true
    | JObj [(a, kj); (b, vj)] :: r => bytes_eqb a kk && bytes_eqb b kv && f kj && f vj && go r
    | _ => false
    end.

(* the representation invariant of [serde_json::Value] in this build *)
Fixpoint json_wf (j : json) : bool :=
  match j with
  | JArr l => forallb json_wf l
  | JObj l => keys_ascending l && obj_all (fun _ => true) json_wf l
  | _ => true
  end.

(* structural equality (used by the judge to compare an implementation result with the expected tree) *)
Fixpoint json_eqb (a b : json) : bool :=
  match a, b with
  | JNull, JNull => true
  | JBool x, JBool y => Bool.eqb x y
  | JInt x, JInt y => (x =? y)%Z
  | JNegZero, JNegZero => true
  | JFloat x, JFloat y => bytes_eqb x y
  | JStr x, JStr y => bytes_eqb x y
  | JArr x, JArr y =>
      (fix go (x y : list json) : bool :=
         match x, y with
         | [], [] => true
         | a :: x', b :: y' => json_eqb a b && go x' y'
         | _, _ => false
         end) x y
  | JObj x, JObj y =>
      (fix go (x y : list (bytes * json)) : bool :=
         match x, y with
         | [], [] => true
         | (ka, a) :: x', (kb, b) :: y' => bytes_eqb ka kb && json_eqb a b && go x' y'
         | _, _ => false
         end) x y
  | _, _ => false
  end.

(* ---------- sequencing helpers usable under nested recursion ---------- *)
Definition mapM {A B} (f : A -> result B) : list A -> result (list B) :=
  fix go (l : list A) : result (list B) :=
    match l with
    | [] => Ok []
    | x :: r => let* y := f x in let* ys := go r in Ok (y :: ys)
    end.

(* run [f] on the value stored under [key] (objects have unique keys) *)
Definition on_key {B} (key : bytes) (f : json -> result B) (dflt : result B)
  : list (bytes * json) -> result B :=
  fix go (l : list (bytes * json)) : result B :=
    match l with
    | [] => dflt
    | (k, v) :: r => if bytes_eqb k key then f v else go r
    end.
Definition has_key (key : bytes) (l : list (bytes * json)) : bool :=
  match obj_get key l with Some _ => true | None => false end.

(* ---------- the key words of the schemas ---------- *)
Definition k_int : bytes := Eval compute in ascii_bytes "int".
Definition k_string : bytes := Eval compute in ascii_bytes "string".
Definition k_bytes : bytes := Eval compute in ascii_bytes "bytes".
Definition k_list : bytes := Eval compute in ascii_bytes "list".
Definition k_map : bytes := Eval compute in ascii_bytes "map".
Definition k_k : bytes := Eval compute in ascii_bytes "k".
Definition k_v : bytes := Eval compute in ascii_bytes "v".
Definition k_constructor : bytes := Eval compute in ascii_bytes "constructor".
Definition k_fields : bytes := Eval compute in ascii_bytes "fields".
Definition k_0x : bytes := Eval compute in ascii_bytes "0x".
