(* serde annotations of ledger types: for each annotated type T, [a_T] describes the JSON that T::to_json writes
   for a value whose wire shape is the C01 schema T (Ledger/Schemas.v).  Read from the derive attributes and the
   hand-written Serialize/Deserialize impls under rust/src/protocol_types (field names = Rust field names, enums
   externally tagged, numbers above 32 bits as decimal strings, hashes as hex, addresses as bech32).
   These annotations are MODEL: tied to the Rust code by the exact correspondence of the `tj` stream. *)
From CSL Require Import Base.Prelude Base.Hex Codec.Schema Ledger.Schemas Json.Decimal Json.Json Json.Assoc Json.SerdeSchema
  Json.MetadataJson Json.PlutusJson Json.SerdeData.
From Coq Require Import Strings.Byte.

(* names are written as string literals but elaborate to lists of bytes at parse time (no Coq [string] reaches the
   extracted code, where it would shadow OCaml's) *)
Inductive bname := BN (l : list Byte.byte).
Definition bn_of (l : list Byte.byte) : bname := BN l.
Definition bn_to (b : bname) : list Byte.byte := match b with BN l => l end.
Declare Scope bn_scope.
Delimit Scope bn_scope with bn.
String Notation bname bn_of bn_to : bn_scope.
Local Open Scope N_scope.
Local Open Scope bn_scope.

Definition nm (b : bname) : bytes := match b with BN l => List.map Byte.to_N l end.

(* external string forms *)
Definition EXT_ADDRESS : N := 1.          (* Address::to_bech32 / from_bech32 *)
Definition EXT_REWARD_ADDRESS : N := 1.   (* RewardAddress: the same text form *)
Definition EXT_VKEY : N := 3.             (* PublicKey::to_bech32: "ed25519_pk1..." *)

Definition hex28 := JLeaf (LHex 28 28).
Definition hex32 := JLeaf (LHex 32 32).
Definition hex64 := JLeaf (LHex 64 64).
Definition numstr := JLeaf LNumStr.
Definition intstr := JLeaf LIntStr.
Definition u32 := JLeaf (LNum 4294967296).
Definition u16 := JLeaf (LNum 65536).
Definition text128 := JLeaf (LText 128).
Definition reward_addr := JLeaf (LExt EXT_REWARD_ADDRESS).
Definition address := JLeaf (LExt EXT_ADDRESS).

(* a field-less enum stored as a small integer: VNat i <-> "Name_i" *)
Definition unit_enum (names : list bname) : jshape :=
  JIso (fun v => match v with VNat i => VVar (N.to_nat i) [] | _ => v end)
       (fun v => match v with VVar i _ => VNat (N.of_nat i) | _ => v end)
       (JEnum (List.map (fun s => (nm s, None)) names)).
(* a two-way choice of wire forms presented as an enum with one-field variants: VAlt i x <-> VVar i [x] *)
Definition alt_enum (vs : list (bname * jshape)) : jshape :=
  JIso (fun v => match v with VAlt i x => VVar i [x] | _ => v end)
       (fun v => match v with VVar i [x] => VAlt i x | _ => v end)
       (JEnum (List.map (fun p => (nm (fst p), Some (JSingle (snd p)))) vs)).
(* an insertion-ordered map written as an array of records / tuples: VMap l <-> VList [VList [k; v] ...] *)
Definition pairs_iso (a : jshape) : jshape :=
  JIso (fun v => match v with VMap l => VList (List.map (fun kv => VList [fst kv; snd kv]) l) | _ => v end)
       (fun v => match v with
                 | VList l => VMap (List.map (fun e => match e with VList [k; x] => (k, x) | _ => (VNull, VNull) end) l)
                 | _ => v
                 end)
       (JSeq a).
(* the fields of a variant wrapped in one named field: VList l <-> {name: {fields of l}} *)
Definition wrapped (name : bname) (a : jshape) : jshape :=
  JIso (fun v => VList [v]) (fun v => match v with VList [x] => x | _ => v end) (JRec [(nm name, a)]).

Definition a_TransactionInput := JRec [(nm "transaction_id", hex32); (nm "index", u32)].
Definition a_TransactionInputs := JSeq a_TransactionInput.
Definition a_Credential := JEnum [(nm "Key", Some (JSingle hex28)); (nm "Script", Some (JSingle hex28))].
Definition a_Credentials := JSeq a_Credential.
Definition a_Ed25519KeyHashes := JSeq hex28.
Definition a_DRep := JEnum [(nm "KeyHash", Some (JSingle hex28)); (nm "ScriptHash", Some (JSingle hex28));
                            (nm "AlwaysAbstain", None); (nm "AlwaysNoConfidence", None)].
Definition a_Anchor := JRec [(nm "anchor_url", text128); (nm "anchor_data_hash", hex32)].
Definition a_UnitInterval := JRec [(nm "numerator", numstr); (nm "denominator", numstr)].
Definition a_PoolMetadata := JRec [(nm "url", text128); (nm "pool_metadata_hash", hex32)].
Definition a_ProtocolVersion := JRec [(nm "major", u32); (nm "minor", u32)].
Definition a_ExUnits := JRec [(nm "mem", numstr); (nm "steps", numstr)].
Definition a_ExUnitPrices := JRec [(nm "mem_price", a_UnitInterval); (nm "step_price", a_UnitInterval)].
(* Nonce: var [(0, []); (1, [H32])]  <->  {"hash": null | [bytes]} *)
Definition a_Nonce :=
  JIso (fun v => match v with VVar O [] => VList [VNull] | VVar _ [h] => VList [h] | _ => v end)
       (fun v => match v with VList [VNull] => VVar 0 [] | VList [h] => VVar 1 [h] | _ => v end)
       (JRec [(nm "hash", JNullable (JLeaf (LByteArr 32 32)))]).
Definition a_Relay := JEnum [
  (nm "SingleHostAddr", Some (JRec [(nm "port", JNullable u16); (nm "ipv4", JNullable (JLeaf (LByteArr 4 4)));
                                    (nm "ipv6", JNullable (JLeaf (LByteArr 16 16)))]));
  (nm "SingleHostName", Some (JRec [(nm "port", JNullable u16); (nm "dns_name", text128)]));
  (nm "MultiHostName", Some (JRec [(nm "dns_name", text128)]))].
Definition a_Relays := JSeq a_Relay.

Definition a_MIRToStakeCredentials := pairs_iso (JRec [(nm "stake_cred", a_Credential); (nm "amount", intstr)]).
Definition a_MoveInstantaneousReward :=
  JRec [(nm "pot", unit_enum ["Reserves"; "Treasury"]);
        (nm "variant", alt_enum [("ToOtherPot", numstr); ("ToStakeCredentials", a_MIRToStakeCredentials)])].

Definition a_PoolParams := JRec [
  (nm "operator", hex28); (nm "vrf_keyhash", hex32); (nm "pledge", numstr); (nm "cost", numstr);
  (nm "margin", a_UnitInterval); (nm "reward_account", reward_addr); (nm "pool_owners", a_Ed25519KeyHashes);
  (nm "relays", a_Relays); (nm "pool_metadata", JNullable a_PoolMetadata)].

(* Certificate: 19 wire alternatives; the JSON enum has one StakeRegistration / StakeDeregistration variant with an
   optional coin for the legacy (0, 1) and Conway (7, 8) wire forms *)
Definition cert_f (v : val) : val :=
  match v with
  | VVar 0 [c] => VVar 0 [c; VNull]
  | VVar 1 [c] => VVar 1 [c; VNull]
  | VVar 7 [c; x] => VVar 0 [c; x]
  | VVar 8 [c; x] => VVar 1 [c; x]
  | _ => v
  end.
Definition cert_g (v : val) : val :=
  match v with
  | VVar 0 [c; VNull] => VVar 0 [c]
  | VVar 1 [c; VNull] => VVar 1 [c]
  | VVar 0 [c; x] => VVar 7 [c; x]
  | VVar 1 [c; x] => VVar 8 [c; x]
  | _ => v
  end.
Definition a_Certificate := JIso cert_f cert_g (JEnum [
  (nm "StakeRegistration", Some (JRec [(nm "stake_credential", a_Credential); (nm "coin", JNullable numstr)]));
  (nm "StakeDeregistration", Some (JRec [(nm "stake_credential", a_Credential); (nm "coin", JNullable numstr)]));
  (nm "StakeDelegation", Some (JRec [(nm "stake_credential", a_Credential); (nm "pool_keyhash", hex28)]));
  (nm "PoolRegistration", Some (wrapped "pool_params" a_PoolParams));
  (nm "PoolRetirement", Some (JRec [(nm "pool_keyhash", hex28); (nm "epoch", u32)]));
  (nm "GenesisKeyDelegation", Some (JRec [(nm "genesishash", hex28); (nm "genesis_delegate_hash", hex28); (nm "vrf_keyhash", hex32)]));
  (nm "MoveInstantaneousRewardsCert", Some (JRec [(nm "move_instantaneous_reward", a_MoveInstantaneousReward)]));
  (nm "#7", None);       (* wire alternatives 7 and 8 are presented under variants 0 and 1 *)
  (nm "#8", None);
  (nm "VoteDelegation", Some (JRec [(nm "stake_credential", a_Credential); (nm "drep", a_DRep)]));
  (nm "StakeAndVoteDelegation", Some (JRec [(nm "stake_credential", a_Credential); (nm "pool_keyhash", hex28); (nm "drep", a_DRep)]));
  (nm "StakeRegistrationAndDelegation", Some (JRec [(nm "stake_credential", a_Credential); (nm "pool_keyhash", hex28); (nm "coin", numstr)]));
  (nm "VoteRegistrationAndDelegation", Some (JRec [(nm "stake_credential", a_Credential); (nm "drep", a_DRep); (nm "coin", numstr)]));
  (nm "StakeVoteRegistrationAndDelegation", Some (JRec [(nm "stake_credential", a_Credential); (nm "pool_keyhash", hex28); (nm "drep", a_DRep); (nm "coin", numstr)]));
  (nm "CommitteeHotAuth", Some (JRec [(nm "committee_cold_credential", a_Credential); (nm "committee_hot_credential", a_Credential)]));
  (nm "CommitteeColdResign", Some (JRec [(nm "committee_cold_credential", a_Credential); (nm "anchor", JNullable a_Anchor)]));
  (nm "DRepRegistration", Some (JRec [(nm "voting_credential", a_Credential); (nm "coin", numstr); (nm "anchor", JNullable a_Anchor)]));
  (nm "DRepDeregistration", Some (JRec [(nm "voting_credential", a_Credential); (nm "coin", numstr)]));
  (nm "DRepUpdate", Some (JRec [(nm "voting_credential", a_Credential); (nm "anchor", JNullable a_Anchor)]))]).
Definition a_Certificates := JSeq a_Certificate.

(* values *)
Definition a_Assets := JMapObj (LHex 0 32) (enc AssetNameS) numstr.
Definition a_MultiAsset := JMapObj (LHex 28 28) (enc H28) a_Assets.
(* Value: coin | [coin, multiasset] on the wire; {"coin", "multiasset": null | {..}} in JSON; the writer emits the
   multiasset only when some policy holds an asset *)
Definition ma_nonempty (m : val) : bool :=
  match m with VMap l => existsb (fun kv => match snd kv with VMap (_ :: _) => true | _ => false end) l | _ => false end.
Definition a_Value :=
  JIso (fun v => match v with VAlt O c => VList [c; VNull] | VAlt _ (VList [c; m]) => VList [c; m] | _ => v end)
       (fun v => match v with
                 | VList [c; VNull] => VAlt 0 c
                 | VList [c; m] => if ma_nonempty m then VAlt 1 (VList [c; m]) else VAlt 0 c
                 | _ => v
                 end)
       (JRec [(nm "coin", numstr); (nm "multiasset", JNullable a_MultiAsset)]).
Definition a_MintAssets := JMapObj (LHex 0 32) (enc AssetNameS) intstr.
(* Mint: a Vec of (policy, assets) pairs, written as an array of 2-element arrays *)
Definition a_Mint :=
  JIso (fun v => match v with VMap l => VList (List.map (fun kv => VList [fst kv; snd kv]) l) | _ => v end)
       (fun v => match v with
                 | VList l => VMap (List.map (fun e => match e with VList [k; x] => (k, x) | _ => (VNull, VNull) end) l)
                 | _ => v
                 end)
       (JSeq (JTuple [hex28; a_MintAssets])).
Definition okey_reward (k : val) : bytes := reward_sort_key (enc RewardAddressS k).
Definition a_Withdrawals := JMapObj (LExt EXT_REWARD_ADDRESS) okey_reward numstr.
Definition a_TreasuryWithdrawals := JMapObj (LExt EXT_REWARD_ADDRESS) okey_reward numstr.

(* governance *)
Definition a_GovernanceActionId := JRec [(nm "transaction_id", hex32); (nm "index", u32)].
(* Voter: wire tags 0/1 committee hot key/script, 2/3 DRep key/script, 4 pool *)
Definition a_Voter :=
  JIso (fun v => match v with
                 | VVar 0 [h] => VVar 0 [VVar 0 [h]] | VVar 1 [h] => VVar 0 [VVar 1 [h]]
                 | VVar 2 [h] => VVar 1 [VVar 0 [h]] | VVar 3 [h] => VVar 1 [VVar 1 [h]]
                 | VVar 4 [h] => VVar 2 [h]
                 | _ => v
                 end)
       (fun v => match v with
                 | VVar 0 [VVar 0 [h]] => VVar 0 [h] | VVar 0 [VVar 1 [h]] => VVar 1 [h]
                 | VVar 1 [VVar 0 [h]] => VVar 2 [h] | VVar 1 [VVar 1 [h]] => VVar 3 [h]
                 | VVar 2 [h] => VVar 4 [h]
                 | _ => v
                 end)
       (JEnum [(nm "ConstitutionalCommitteeHotCred", Some (JSingle a_Credential));
               (nm "DRep", Some (JSingle a_Credential));
               (nm "StakingPool", Some (JSingle hex28))]).
Definition a_VotingProcedure := JRec [(nm "vote", unit_enum ["No"; "Yes"; "Abstain"]); (nm "anchor", JNullable a_Anchor)].
Definition a_Constitution := JRec [(nm "anchor", a_Anchor); (nm "script_hash", JNullable hex28)].
Definition a_PoolVotingThresholds := JRec [
  (nm "motion_no_confidence", a_UnitInterval); (nm "committee_normal", a_UnitInterval);
  (nm "committee_no_confidence", a_UnitInterval); (nm "hard_fork_initiation", a_UnitInterval);
  (nm "security_relevant_threshold", a_UnitInterval)].
Definition a_DRepVotingThresholds := JRec [
  (nm "motion_no_confidence", a_UnitInterval); (nm "committee_normal", a_UnitInterval);
  (nm "committee_no_confidence", a_UnitInterval); (nm "update_constitution", a_UnitInterval);
  (nm "hard_fork_initiation", a_UnitInterval); (nm "pp_network_group", a_UnitInterval);
  (nm "pp_economic_group", a_UnitInterval); (nm "pp_technical_group", a_UnitInterval);
  (nm "pp_governance_group", a_UnitInterval); (nm "treasury_withdrawal", a_UnitInterval)].

(* protocol parameters *)
Definition a_CostModel := JSeq intstr.
Definition a_Costmdls :=
  JMapObj (LEnumStr [nm "PlutusV1"; nm "PlutusV2"; nm "PlutusV3"]) (enc Language) a_CostModel.
Definition a_ProtocolParamUpdate := JOptRec [
  (nm "minfee_a", numstr); (nm "minfee_b", numstr); (nm "max_block_body_size", u32); (nm "max_tx_size", u32);
  (nm "max_block_header_size", u32); (nm "key_deposit", numstr); (nm "pool_deposit", numstr); (nm "max_epoch", u32);
  (nm "n_opt", u32); (nm "pool_pledge_influence", a_UnitInterval); (nm "expansion_rate", a_UnitInterval);
  (nm "treasury_growth_rate", a_UnitInterval); (nm "d", a_UnitInterval); (nm "extra_entropy", a_Nonce);
  (nm "protocol_version", a_ProtocolVersion); (nm "min_pool_cost", numstr); (nm "ada_per_utxo_byte", numstr);
  (nm "cost_models", a_Costmdls); (nm "execution_costs", a_ExUnitPrices); (nm "max_tx_ex_units", a_ExUnits);
  (nm "max_block_ex_units", a_ExUnits); (nm "max_value_size", u32); (nm "collateral_percentage", u32);
  (nm "max_collateral_inputs", u32); (nm "pool_voting_thresholds", a_PoolVotingThresholds);
  (nm "drep_voting_thresholds", a_DRepVotingThresholds); (nm "min_committee_size", u32); (nm "committee_term_limit", u32);
  (nm "governance_action_validity_period", u32); (nm "governance_action_deposit", numstr); (nm "drep_deposit", numstr);
  (nm "drep_inactivity_period", u32); (nm "ref_script_coins_per_byte", a_UnitInterval)].
Definition a_ProposedProtocolParameterUpdates := JMapObj (LHex 28 28) (enc H28) a_ProtocolParamUpdate.
Definition a_Update := JRec [(nm "proposed_protocol_parameter_updates", a_ProposedProtocolParameterUpdates); (nm "epoch", u32)].

(* voting *)
Definition a_VotingProcedures :=
  pairs_iso (JRec [(nm "voter", a_Voter);
                   (nm "votes", pairs_iso (JRec [(nm "action_id", a_GovernanceActionId); (nm "voting_procedure", a_VotingProcedure)]))]).
Definition a_CommitteeMembers := pairs_iso (JRec [(nm "stake_credential", a_Credential); (nm "term_limit", u32)]).
(* UpdateCommitteeAction: wire [gov_action_id, members_to_remove, members, quorum]; JSON {gov_action_id, committee: {members,
   quorum_threshold}, members_to_remove} *)
Definition a_UpdateCommitteePayload :=
  JIso (fun v => match v with VList [g; rem; mem; q] => VList [g; VList [mem; q]; rem] | _ => v end)
       (fun v => match v with VList [g; VList [mem; q]; rem] => VList [g; rem; mem; q] | _ => v end)
       (JRec [(nm "gov_action_id", JNullable a_GovernanceActionId);
              (nm "committee", JRec [(nm "members", a_CommitteeMembers); (nm "quorum_threshold", a_UnitInterval)]);
              (nm "members_to_remove", a_Credentials)]).
Definition a_GovernanceAction := JEnum [
  (nm "ParameterChangeAction", Some (JRec [(nm "gov_action_id", JNullable a_GovernanceActionId);
                                           (nm "protocol_param_updates", a_ProtocolParamUpdate);
                                           (nm "policy_hash", JNullable hex28)]));
  (nm "HardForkInitiationAction", Some (JRec [(nm "gov_action_id", JNullable a_GovernanceActionId);
                                              (nm "protocol_version", a_ProtocolVersion)]));
  (nm "TreasuryWithdrawalsAction", Some (JRec [(nm "withdrawals", a_TreasuryWithdrawals); (nm "policy_hash", JNullable hex28)]));
  (nm "NoConfidenceAction", Some (JRec [(nm "gov_action_id", JNullable a_GovernanceActionId)]));
  (nm "UpdateCommitteeAction", Some a_UpdateCommitteePayload);
  (nm "NewConstitutionAction", Some (JRec [(nm "gov_action_id", JNullable a_GovernanceActionId); (nm "constitution", a_Constitution)]));
  (nm "InfoAction", Some (JTuple []))].
Definition a_VotingProposal := JRec [(nm "deposit", numstr); (nm "reward_account", reward_addr);
                                     (nm "governance_action", a_GovernanceAction); (nm "anchor", a_Anchor)].
Definition a_VotingProposals := JSeq a_VotingProposal.

(* witnesses and header parts *)
Definition a_Vkeywitness := JRec [(nm "vkey", JLeaf (LExt EXT_VKEY)); (nm "signature", hex64)].
Definition a_Vkeywitnesses := JSeq a_Vkeywitness.
Definition a_OperationalCert := JRec [(nm "hot_vkey", hex32); (nm "sequence_number", u32); (nm "kes_period", u32); (nm "sigma", hex64)].
Definition a_Int := intstr.

(* native scripts, to every depth *)
Fixpoint a_NativeScript (d : nat) : jshape :=
  match d with
  | O => JEnum [(nm "ScriptPubkey", Some (JRec [(nm "addr_keyhash", hex28)]));
                (nm "TimelockStart", Some (JRec [(nm "slot", numstr)]));
                (nm "TimelockExpiry", Some (JRec [(nm "slot", numstr)]))]
  | S d' =>
      let sub := JSeq (a_NativeScript d') in
      JEnum [(nm "ScriptPubkey", Some (JRec [(nm "addr_keyhash", hex28)]));
             (nm "ScriptAll", Some (JRec [(nm "native_scripts", sub)]));
             (nm "ScriptAny", Some (JRec [(nm "native_scripts", sub)]));
             (nm "ScriptNOfK", Some (JRec [(nm "n", u32); (nm "native_scripts", sub)]));
             (nm "TimelockStart", Some (JRec [(nm "slot", numstr)]));
             (nm "TimelockExpiry", Some (JRec [(nm "slot", numstr)]))]
  end.
Definition a_NativeScripts (d : nat) := JSeq (a_NativeScript d).

(* ---------- types that embed a datum / metadatum as a JSON string (JSON text inside JSON text) ----------
   [emb j] is the JSON value that holds the text of j (real code: a string with serde_json::to_string(j));
   [unemb] its inverse.  Both are parameters: text <-> tree is external. *)
Section Emb.
  Variable emb : json -> json.
  Variable unemb : json -> option json.

  (* PlutusData: Serialize = decode_plutus_datum_to_json_str(DetailedSchema), Deserialize = encode_json_str_to_plutus_datum *)
  Definition a_Datum (d : nat) : jshape :=
    JCustom (fun v => match pd_of_val d v with
                      | Some p => match p2j PDetailed p with Ok j => emb j | _ => JNull end
                      | None => JNull
                      end)
            (fun j => match unemb j with
                      | Some j' => match j2p cur_cfg PDetailed j' with
                                   | Ok p => match val_of_pd d p with Some v => Ok v | None => Err end
                                   | _ => Err
                                   end
                      | None => Err
                      end).
  (* TransactionMetadatum: the same with the metadata converters *)
  Definition a_Metadatum (d : nat) : jshape :=
    JCustom (fun v => match md_of_val d v with
                      | Some m => match m2j Detailed m with Ok j => emb j | _ => JNull end
                      | None => JNull
                      end)
            (fun j => match unemb j with
                      | Some j' => match j2m cur_cfg Detailed j' with
                                   | Ok m => match val_of_md d m with Some v => Ok v | None => Err end
                                   | _ => Err
                                   end
                      | None => Err
                      end).
  Definition a_GeneralTransactionMetadata (d : nat) := JMapObj LNumStr (enc U64) (a_Metadatum d).

  Definition a_DataOption (d : nat) := JEnum [(nm "DataHash", Some (JSingle hex32)); (nm "Data", Some (JSingle (a_Datum d)))].
  (* ScriptRef: wire variants 0 native, 1..3 Plutus V1..V3; the JSON of a Plutus script is its bytes only, so every
     Plutus script comes back as V1 (known finding C17-plutus-script-language-lost: [canonical] is false for V2 / V3) *)
  Definition a_ScriptRef (d : nat) :=
    JIso (fun v => match v with VVar O [x] => VVar 0 [x] | VVar _ [x] => VVar 1 [x] | _ => v end)
         (fun v => v)
         (JEnum [(nm "NativeScript", Some (JSingle (a_NativeScript d)));
                 (nm "PlutusScript", Some (JSingle (JLeaf (LHex 0 18446744073709551615))))]).
  (* TransactionOutput: legacy array (with or without data hash) or map form on the wire, one record in JSON; a value
     read from JSON is written in map form exactly when it has an inline datum or a script reference *)
  Definition out_f (v : val) : val :=
    match v with
    | VAlt O (VAlt O (VList [a; x])) => VList [a; x; VNull; VNull]
    | VAlt O (VAlt _ (VList [h; a; x])) => VList [a; x; VVar 0 [h]; VNull]
    | VAlt _ (VStruct [Some a; Some x; od; os]) =>
        VList [a; x; match od with Some dv => dv | None => VNull end; match os with Some sv => sv | None => VNull end]
    | _ => v
    end.
  Definition out_g (v : val) : val :=
    match v with
    | VList [a; x; VNull; VNull] => VAlt 0 (VAlt 0 (VList [a; x]))
    | VList [a; x; VVar O [h]; VNull] => VAlt 0 (VAlt 1 (VList [h; a; x]))
    | VList [a; x; dv; sv] =>
        VAlt 1 (VStruct [Some a; Some x; match dv with VNull => None | _ => Some dv end; match sv with VNull => None | _ => Some sv end])
    | _ => v
    end.
  Definition a_TransactionOutput (d : nat) :=
    JIso out_f out_g (JRec [(nm "address", address); (nm "amount", a_Value);
                            (nm "plutus_data", JNullable (a_DataOption d)); (nm "script_ref", JNullable (a_ScriptRef d))]).
  Definition a_TransactionOutputs (d : nat) := JSeq (a_TransactionOutput d).

  Definition a_TransactionBody (d : nat) := JOptRec [
    (nm "inputs", a_TransactionInputs); (nm "outputs", a_TransactionOutputs d); (nm "fee", numstr); (nm "ttl", numstr);
    (nm "certs", a_Certificates); (nm "withdrawals", a_Withdrawals); (nm "update", a_Update);
    (nm "auxiliary_data_hash", hex32); (nm "validity_start_interval", numstr); (nm "mint", a_Mint);
    (nm "script_data_hash", hex32); (nm "collateral", a_TransactionInputs); (nm "required_signers", a_Ed25519KeyHashes);
    (nm "network_id", unit_enum ["Testnet"; "Mainnet"]); (nm "collateral_return", a_TransactionOutput d);
    (nm "total_collateral", numstr); (nm "reference_inputs", a_TransactionInputs);
    (nm "voting_procedures", a_VotingProcedures); (nm "voting_proposals", a_VotingProposals);
    (nm "current_treasury_value", numstr); (nm "donation", numstr)].

  (* Redeemers: array or map form on the wire, an array of records in JSON; read back in map form *)
  Definition a_RedeemerTag := unit_enum ["Spend"; "Mint"; "Cert"; "Reward"; "Vote"; "VotingProposal"].
  Definition red_f (v : val) : val :=
    match v with
    | VAlt O (VMap l) => VList (List.map (fun kv => match fst kv, snd kv with
                                                    | VList [t; i], VList [dv; e] => VList [t; i; dv; e]
                                                    | _, _ => VNull end) l)
    | VAlt _ (VList l) => VList l
    | _ => v
    end.
  Definition red_g (v : val) : val :=
    match v with
    | VList l => VAlt 0 (VMap (List.map (fun e => match e with
                                                  | VList [t; i; dv; x] => (VList [t; i], VList [dv; x])
                                                  | _ => (VNull, VNull) end) l))
    | _ => v
    end.
  Definition a_Redeemers (d : nat) :=
    JIso red_f red_g (JSeq (JRec [(nm "tag", a_RedeemerTag); (nm "index", numstr); (nm "data", a_Datum d); (nm "ex_units", a_ExUnits)])).

  (* witness set: wire slots (writer's order) vkeys, native scripts, bootstraps, Plutus V1, V2, V3 scripts, plutus data,
     redeemers; the JSON has ONE plutus_scripts array (languages are lost: everything comes back as V1) and the
     plutus data list with its framing flag *)
  Definition hexany := JLeaf (LHex 0 18446744073709551615).
  Definition bytearr_any := JLeaf (LByteArr 0 18446744073709551615).
  Definition a_BootstrapWitness := JRec [(nm "vkey", JLeaf (LExt EXT_VKEY)); (nm "signature", hex64);
                                         (nm "chain_code", bytearr_any); (nm "attributes", bytearr_any)].
  Definition opt_items (o : option val) : list val := match o with Some (VList l) => l | _ => [] end.
  Definition ws_f (v : val) : val :=
    match v with
    | VStruct [a; b; c; p1; p2; p3; pl; r] =>
        VStruct [a; b; c;
                 match p1, p2, p3 with None, None, None => None | _, _, _ => Some (VList (opt_items p1 ++ opt_items p2 ++ opt_items p3)) end;
                 match pl with Some (VAlt i (VList l)) => Some (VList [VList l; VBool (Nat.eqb i 0)]) | _ => None end;
                 r]
    | _ => v
    end.
  Definition ws_g (v : val) : val :=
    match v with
    | VStruct [a; b; c; p; pl; r] =>
        VStruct [a; b; c; p; None; None;
                 match pl with
                 | Some (VList [VList l; VBool bdef]) => Some (VAlt (if bdef then 0%nat else 1%nat) (VList l))
                 | Some (VList [VList l; _]) => Some (arr_any l)
                 | _ => None
                 end;
                 r]
    | _ => v
    end.
  Definition a_TransactionWitnessSet (d : nat) :=
    JIso ws_f ws_g (JOptRec [
      (nm "vkeys", a_Vkeywitnesses); (nm "native_scripts", a_NativeScripts d); (nm "bootstraps", JSeq a_BootstrapWitness);
      (nm "plutus_scripts", JSeq hexany);
      (nm "plutus_data", JRec [(nm "elems", JSeq (a_Datum d)); (nm "definite_encoding", JNullable (JLeaf LBool))]);
      (nm "redeemers", a_Redeemers d)]).

  (* auxiliary data: three wire forms (Shelley map, Shelley-MA pair, Alonzo tagged map), one record with a format flag *)
  Definition opt_null (o : option val) : val := match o with Some x => x | None => VNull end.
  Definition null_opt (v : val) : option val := match v with VNull => None | _ => Some v end.
  Definition aux_f (v : val) : val :=
    match v with
    | VAlt O m => VList [m; VNull; VNull; VBool false]
    | VAlt (S O) (VList [m; ns]) => VList [m; ns; VNull; VBool false]
    | VAlt _ (VStruct [om; on; p1; p2; p3]) =>
        VList [opt_null om; opt_null on;
               match p1, p2, p3 with None, None, None => VNull | _, _, _ => VList (opt_items p1 ++ opt_items p2 ++ opt_items p3) end;
               VBool true]
    | _ => v
    end.
  Definition aux_g (v : val) : val :=
    match v with
    | VList [m; ns; p; VBool pref] =>
        if negb pref && negb (match m with VNull => true | _ => false end) && (match p with VNull => true | _ => false end)
        then match ns with VNull => VAlt 0 m | _ => VAlt 1 (VList [m; ns]) end
        else VAlt 2 (VStruct [null_opt m; null_opt ns; null_opt p; None; None])
    | _ => v
    end.
  Definition a_AuxiliaryData (d : nat) :=
    JIso aux_f aux_g (JRec [(nm "metadata", JNullable (a_GeneralTransactionMetadata d));
                            (nm "native_scripts", JNullable (a_NativeScripts d));
                            (nm "plutus_scripts", JNullable (JSeq hexany));
                            (nm "prefer_alonzo_format", JLeaf LBool)]).
  Definition a_Transaction (d : nat) :=
    JRec [(nm "body", a_TransactionBody d); (nm "witness_set", a_TransactionWitnessSet d); (nm "is_valid", JLeaf LBool);
          (nm "auxiliary_data", JNullable (a_AuxiliaryData d))].

  (* blocks: the header body is written flat (15 items with the TPraos pair of VRF certificates, 14 with the single Praos
     result); the JSON nests the leader certificate (an enum), the operational certificate and the protocol version *)
  Definition a_VRFCert := JRec [(nm "output", bytearr_any); (nm "proof", JLeaf (LByteArr 80 80))].
  Definition hb_f (v : val) : val :=
    match v with
    | VList [bn; sl; pv; ik; vk; c1; c2; sz; bh; hk; sq; kp; sg; mj; mn] =>
        VList [bn; sl; pv; ik; vk; VVar 0 [c1; c2]; sz; bh; VList [hk; sq; kp; sg]; VList [mj; mn]]
    | VList [bn; sl; pv; ik; vk; c1; sz; bh; hk; sq; kp; sg; mj; mn] =>
        VList [bn; sl; pv; ik; vk; VVar 1 [c1]; sz; bh; VList [hk; sq; kp; sg]; VList [mj; mn]]
    | _ => v
    end.
  Definition hb_g (v : val) : val :=
    match v with
    | VList [bn; sl; pv; ik; vk; VVar O [c1; c2]; sz; bh; VList [hk; sq; kp; sg]; VList [mj; mn]] =>
        VList [bn; sl; pv; ik; vk; c1; c2; sz; bh; hk; sq; kp; sg; mj; mn]
    | VList [bn; sl; pv; ik; vk; VVar _ [c1]; sz; bh; VList [hk; sq; kp; sg]; VList [mj; mn]] =>
        VList [bn; sl; pv; ik; vk; c1; sz; bh; hk; sq; kp; sg; mj; mn]
    | _ => v
    end.
  Definition a_HeaderBody :=
    JIso hb_f hb_g (JRec [
      (nm "block_number", u32); (nm "slot", numstr); (nm "prev_hash", JNullable hex32);
      (nm "issuer_vkey", JLeaf (LExt EXT_VKEY)); (nm "vrf_vkey", hex32);
      (nm "leader_cert", JEnum [(nm "NonceAndLeader", Some (JTuple [a_VRFCert; a_VRFCert])); (nm "VrfResult", Some (JSingle a_VRFCert))]);
      (nm "block_body_size", u32); (nm "block_body_hash", hex32); (nm "operational_cert", a_OperationalCert);
      (nm "protocol_version", a_ProtocolVersion)]).
  Definition a_Header := JRec [(nm "header_body", a_HeaderBody); (nm "body_signature", JLeaf (LHex 448 448))].
  Definition a_Block (d : nat) := JRec [
    (nm "header", a_Header); (nm "transaction_bodies", JSeq (a_TransactionBody d));
    (nm "transaction_witness_sets", JSeq (a_TransactionWitnessSet d));
    (nm "auxiliary_data_set", JMapObj LNumStr (enc U32) (a_AuxiliaryData d));
    (nm "invalid_transactions", JSeq u32)].

  (* the table: name (as used by the C01 generator and the harness), wire schema, annotation *)
  Definition serde_table (d : nat) : list (bytes * Schema.schema * jshape) := [
  (nm "TransactionInput", TransactionInput, a_TransactionInput);
  (nm "TransactionInputs", TransactionInputs, a_TransactionInputs);
  (nm "Credential", Credential, a_Credential);
  (nm "Credentials", Credentials, a_Credentials);
  (nm "Ed25519KeyHashes", Ed25519KeyHashes, a_Ed25519KeyHashes);
  (nm "DRep", DRep, a_DRep);
  (nm "Anchor", Anchor, a_Anchor);
  (nm "UnitInterval", UnitInterval, a_UnitInterval);
  (nm "Relay", Relay, a_Relay);
  (nm "Relays", Relays, a_Relays);
  (nm "PoolMetadata", PoolMetadata, a_PoolMetadata);
  (nm "ProtocolVersion", ProtocolVersion, a_ProtocolVersion);
  (nm "ExUnits", ExUnits, a_ExUnits);
  (nm "ExUnitPrices", ExUnitPrices, a_ExUnitPrices);
  (nm "Nonce", Nonce, a_Nonce);
  (nm "MoveInstantaneousReward", MoveInstantaneousReward, a_MoveInstantaneousReward);
  (nm "Certificate", Certificate, a_Certificate);
  (nm "Certificates", Certificates, a_Certificates);
  (nm "Assets", Assets, a_Assets);
  (nm "MultiAsset", MultiAsset, a_MultiAsset);
  (nm "Value", Value, a_Value);
  (nm "Mint", Mint, a_Mint);
  (nm "Withdrawals", Withdrawals, a_Withdrawals);
  (nm "Voter", Voter, a_Voter);
  (nm "GovernanceActionId", GovernanceActionId, a_GovernanceActionId);
  (nm "VotingProcedure", VotingProcedure, a_VotingProcedure);
  (nm "PoolVotingThresholds", PoolVotingThresholds, a_PoolVotingThresholds);
  (nm "DRepVotingThresholds", DRepVotingThresholds, a_DRepVotingThresholds);
  (nm "Constitution", Constitution, a_Constitution);
  (nm "NativeScript", NativeScript d, a_NativeScript d);
  (nm "NativeScripts", NativeScripts d, a_NativeScripts d);
  (nm "Vkeywitness", Vkeywitness, a_Vkeywitness);
  (nm "Vkeywitnesses", Vkeywitnesses, a_Vkeywitnesses);
  (nm "OperationalCert", OperationalCert, a_OperationalCert);
  (nm "Int", IntS, a_Int);
  (nm "Costmdls", Costmdls, a_Costmdls);
  (nm "ProtocolParamUpdate", ProtocolParamUpdate, a_ProtocolParamUpdate);
  (nm "ProposedProtocolParameterUpdates", ProposedProtocolParameterUpdates, a_ProposedProtocolParameterUpdates);
  (nm "Update", Update, a_Update);
  (nm "VotingProcedures", VotingProcedures, a_VotingProcedures);
  (nm "GovernanceAction", GovernanceAction, a_GovernanceAction);
  (nm "VotingProposal", VotingProposal, a_VotingProposal);
  (nm "VotingProposals", VotingProposals, a_VotingProposals);
  (nm "GeneralTransactionMetadata", GeneralTransactionMetadata d, a_GeneralTransactionMetadata d);
  (nm "ScriptRef", ScriptRef d, a_ScriptRef d);
  (nm "TransactionOutput", TransactionOutput d, a_TransactionOutput d);
  (nm "TransactionOutputs", TransactionOutputs d, a_TransactionOutputs d);
  (nm "TransactionBody", TransactionBody d, a_TransactionBody d);
  (nm "Redeemers", Redeemers d, a_Redeemers d);
  (nm "BootstrapWitness", BootstrapWitness, a_BootstrapWitness);
  (nm "TransactionWitnessSet", TransactionWitnessSet d, a_TransactionWitnessSet d);
  (nm "AuxiliaryData", AuxiliaryData d, a_AuxiliaryData d);
  (nm "Transaction", Transaction d, a_Transaction d);
  (nm "VRFCert", VRFCert, a_VRFCert);
  (nm "HeaderBody", HeaderBody, a_HeaderBody);
  (nm "HeaderBodyPraos", HeaderBodyPraos, a_HeaderBody);
  (nm "Header", Header, a_Header);
  (nm "HeaderPraos", HeaderPraos, a_Header);
  (nm "Block", Block d, a_Block d);
  (nm "PlutusScripts", PlutusScripts, JSeq hexany)
].
End Emb.

(* placeholder string form of externally produced strings (bech32): the harness rewrites every such string of the
   implementation's JSON into this form (and back), so that the correspondence is exact without a model of bech32;
   the theorems hold for ANY pair of functions, under the per-value premise [jwf] that they round-trip *)
Definition ph_str (id : N) (b : bytes) : bytes := 1 :: (48 + id) :: hex b.
Definition ph_of_str (id : N) (s : bytes) : option bytes :=
  match s with
  | 1 :: c :: r => if c =? 48 + id then unhex r else None
  | _ => None
  end.

(* placeholder for embedded JSON text: the harness replaces a string that holds JSON text by this array (and back) *)
Definition ph_emb (j : json) : json := JArr [JStr [1; 88]; j].
Definition ph_unemb (j : json) : option json :=
  match j with
  | JArr [JStr [1; 88]; j'] => Some j'
  | _ => None
  end.
