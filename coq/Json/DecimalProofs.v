(* Printing then parsing a decimal integer gives the integer back (Rust's to_string / parse pair). *)
From CSL Require Import Base.Prelude Json.Decimal.
From Coq Require Import Decimal DecimalZ DecimalPos.
Local Open Scope N_scope.

Lemma digits_uint_digits u : digits_uint (uint_digits u) = Some u.
Proof. induction u; cbn [uint_digits digits_uint]; try reflexivity; now rewrite IHu. Qed.

Definition is_digit (c : N) : bool := (48 <=? c) && (c <=? 57).

Lemma uint_digits_all_digits u : forallb is_digit (uint_digits u) = true.
Proof. induction u; cbn [uint_digits forallb]; try reflexivity; rewrite IHu; reflexivity. Qed.

Lemma uint_digits_head u : u <> Nil -> exists c r, uint_digits u = c :: r /\ is_digit c = true.
Proof. destruct u; intros H; try contradiction; cbn [uint_digits]; eexists; eexists; split; reflexivity. Qed.

Lemma parse_signed_digits s c r u :
  s = c :: r -> is_digit c = true -> digits_uint s = Some u -> parse_signed s = Some (Z.of_int (Decimal.Pos u)).
Proof.
  intros -> Hc Hu. unfold parse_signed. rewrite Hu. unfold is_digit in Hc.
  destruct c as [|p]; [discriminate|].
  (* the head is neither '-' (45) nor '+' (43) *)
  assert (Npos p <> 45 /\ Npos p <> 43) as [H1 H2] by lia.
  do 6 (destruct p as [p|p|]; try reflexivity; try (exfalso; lia)).
Qed.

Theorem parse_signed_print z : parse_signed (print_Z z) = Some z.
Proof.
  unfold print_Z. destruct (Z.to_int z) as [u|u] eqn:E.
  - assert (Hn : u <> Nil).
    { destruct z; cbn in E; inversion E; subst; try discriminate. apply Unsigned.to_uint_nonnil. }
    destruct (uint_digits_head u Hn) as [c [r [Hs Hc]]].
    rewrite (parse_signed_digits _ c r u Hs Hc (digits_uint_digits u)). rewrite <- E. now rewrite DecimalZ.of_to.
  - assert (Hn : u <> Nil).
    { destruct z; cbn in E; inversion E; subst. apply Unsigned.to_uint_nonnil. }
    destruct (uint_digits_head u Hn) as [c [r [Hs Hc]]].
    cbn [parse_signed]. rewrite Hs. rewrite <- Hs. rewrite digits_uint_digits. cbn [option_map].
    rewrite <- E. now rewrite DecimalZ.of_to.
Qed.

Theorem parse_i128_print z : in_range i128_min i128_max z = true -> parse_i128 (print_Z z) = Some z.
Proof. intros H. unfold parse_i128. now rewrite parse_signed_print, H. Qed.

Lemma print_Z_nonneg_head z : (0 <= z)%Z -> exists c r, print_Z z = c :: r /\ is_digit c = true.
Proof.
  intros Hz. unfold print_Z. destruct z as [|p|p]; try lia; cbn [Z.to_int].
  - exists 48, []. split; reflexivity.
  - apply uint_digits_head. apply Unsigned.to_uint_nonnil.
Qed.

Theorem parse_unsigned_print z : (0 <= z)%Z -> parse_unsigned (print_Z z) = Some z.
Proof.
  intros Hz. destruct (print_Z_nonneg_head z Hz) as [c [r [Hs Hc]]].
  unfold parse_unsigned. pose proof (parse_signed_print z) as P. rewrite Hs in *.
  unfold is_digit in Hc. destruct c as [|p]; [discriminate|].
  do 6 (destruct p as [p|p|]; try exact P; try (exfalso; lia)).
Qed.
