(* Refutations (witnesses found by the correspondence run / by reading, replayed on the real code) and
   non-vacuity examples for the premises of the C17 theorems. *)
From CSL Require Import Base.Prelude Base.Hex Json.Decimal Json.Json Json.MetadataJson Json.Chunks Json.PlutusJson Json.SerdeForms.
From Coq Require Import String.
Local Open Scope string_scope.
Local Open Scope N_scope.

Definition t (s : String.string) : bytes := ascii_bytes s.

(* {"b":1,"a":2} as metadata: keys inserted in the order b, a *)
Definition w_unsorted : md := MMap [(MText (t "b"), MInt 1); (MText (t "a"), MInt 2)].
Lemma noconv_unsorted_refuted :
  exists m j, md_wf m = true /\ m2j NoConv m = Ok j /\ j2m cur_cfg NoConv j <> Ok m.
Proof. exists w_unsorted. eexists. split; [vm_compute; reflexivity|]. split; [vm_compute; reflexivity|]. vm_compute. discriminate. Qed.
Lemma noconv_unsorted_in_class : md_unsorted_map w_unsorted = true.
Proof. vm_compute. reflexivity. Qed.

(* behaviour before the three repairs in /repo (eac05aa, 4362d12, 7c4c3d9) *)
Definition cfg_old_negmin : cfg := {| c_negmin_panics := true; c_key_unchecked := false; c_entry_lenient := false |}.
Definition cfg_old_key : cfg := {| c_negmin_panics := false; c_key_unchecked := true; c_entry_lenient := false |}.
Definition cfg_old_lenient : cfg := {| c_negmin_panics := false; c_key_unchecked := false; c_entry_lenient := true |}.

Lemma old_negmin_refuted :
  j2m cfg_old_negmin NoConv (JInt i64_min) = Panic /\
  (exists m j, md_wf m = true /\ m2j Detailed m = Ok j /\ j2m cfg_old_negmin Detailed j = Panic).
Proof. split; [vm_compute; reflexivity|]. exists (MInt i64_min). eexists. split; [vm_compute; reflexivity|]. split; [vm_compute; reflexivity|vm_compute; reflexivity]. Qed.

Definition w_bigkey : json := JObj [(t "99999999999999999999999", JInt 1)].
Lemma old_key_unchecked_refuted :
  json_wf w_bigkey = true /\ nf Basic w_bigkey = true /\
  exists m, j2m cfg_old_key Basic w_bigkey = Ok m /\ m2j Basic m = Err.
Proof. split; [vm_compute; reflexivity|]. split; [vm_compute; reflexivity|]. eexists. split; [vm_compute; reflexivity|vm_compute; reflexivity]. Qed.

Definition w_extra : json :=
  JObj [(k_map, JArr [JObj [(k_k, JObj [(k_int, JInt 1)]); (k_v, JObj [(k_int, JInt 2)]); (t "z", JNull)]])].
Lemma old_lenient_refuted :
  json_wf w_extra = true /\ in_schema Detailed w_extra = false /\ exists m, j2m cfg_old_lenient Detailed w_extra = Ok m.
Proof. split; [vm_compute; reflexivity|]. split; [vm_compute; reflexivity|]. eexists. vm_compute. reflexivity. Qed.
Lemma old_lenient_plutus_refuted :
  pdom_detailed w_extra = false /\ exists p, j2p cfg_old_lenient PDetailed w_extra = Ok p.
Proof. split; [vm_compute; reflexivity|]. eexists. vm_compute. reflexivity. Qed.

(* a key with no values: PlutusMap::insert(k, &PlutusMapValues::new()) *)
Definition w_empty_values : pd := PMap [(PInt 1, [])].
Lemma plutus_empty_values_refuted :
  exists p j, pd_wf p = true /\ p2j PDetailed p = Ok j /\ j2p cur_cfg PDetailed j <> Ok p.
Proof. exists w_empty_values. eexists. split; [vm_compute; reflexivity|]. split; [vm_compute; reflexivity|]. vm_compute. discriminate. Qed.
Lemma plutus_empty_values_in_class : pd_has_empty_values w_empty_values = true.
Proof. vm_compute. reflexivity. Qed.

(* ---------- non-vacuity of the premises ---------- *)
Definition ex_md : md :=
  MMap [(MText (t "a"), MList [MInt (-9223372036854775808); MInt 18446744073709551615; MText (t "0x00")]);
        (MText (t "b"), MMap [(MText (t ""), MText (t "x")); (MText (t "k"), MList [])])].
Example ex_md_noconv : md_wf ex_md = true /\ md_unsorted_map ex_md = false /\ exists j, m2j NoConv ex_md = Ok j.
Proof. split; [vm_compute; reflexivity|]. split; [vm_compute; reflexivity|]. eexists. vm_compute. reflexivity. Qed.

Definition ex_md_detailed_v : md :=
  MMap [(MInt (-5), MBytes [0; 255]); (MMap [(MList [MInt 1], MText (t "v"))], MList [MText (t "b"); MText (t "a")]);
        (MBytes [], MInt 18446744073709551615)].
Example ex_md_detailed : md_wf ex_md_detailed_v = true /\ exists j, m2j Detailed ex_md_detailed_v = Ok j.
Proof. split; [vm_compute; reflexivity|]. eexists. vm_compute. reflexivity. Qed.

Definition ex_json_noconv : json :=
  JObj [(t "a", JArr [JInt (-9223372036854775808); JStr (t "0xzz")]); (t "b", JObj [(t "c", JInt 18446744073709551615)])].
Example ex_nf_noconv : json_wf ex_json_noconv = true /\ nf NoConv ex_json_noconv = true.
Proof. split; [vm_compute; reflexivity|vm_compute; reflexivity]. Qed.
Definition ex_json_basic : json :=
  JObj [(t "-7", JStr (t "0x00ff")); (t "0x0a", JArr [JInt 1; JStr (t "text")]); (t "99999999999999999999999", JInt 0);
        (t "key", JObj [(t "18446744073709551615", JStr (t "0xZZ"))])].
Example ex_nf_basic : json_wf ex_json_basic = true /\ nf Basic ex_json_basic = true.
Proof. split; [vm_compute; reflexivity|vm_compute; reflexivity]. Qed.
Definition ex_json_detailed : json :=
  JObj [(k_map, JArr [JObj [(k_k, JObj [(k_int, JInt (-1))]); (k_v, JObj [(k_bytes, JStr (t "00ff"))])];
                      JObj [(k_k, JObj [(k_list, JArr [JObj [(k_string, JStr (t "s"))]])]); (k_v, JObj [(k_map, JArr [])])]])].
Example ex_nf_detailed : json_wf ex_json_detailed = true /\ nf Detailed ex_json_detailed = true.
Proof. split; [vm_compute; reflexivity|vm_compute; reflexivity]. Qed.
Example ex_out_of_schema : json_wf w_extra = true /\ in_schema Detailed w_extra = false /\ in_schema NoConv (JFloat (t "1.5")) = false.
Proof. repeat split; vm_compute; reflexivity. Qed.

Definition ex_pd : pd :=
  PConstr 18446744073709551615
    [PMap [(PInt (-340282366920938463463374607431768211456), [PBytes [1; 2]; PList []]); (PBytes [], [PConstr 0 []])];
     PList [PInt 0; PMap []]].
Example ex_pd_ok : pd_wf ex_pd = true /\ pd_has_empty_values ex_pd = false.
Proof. split; [vm_compute; reflexivity|vm_compute; reflexivity]. Qed.

Example ex_serde : sval_ok SInt (SVNum (- two64Z)) = true /\ sval_ok (SHash 28) (SVBytes (List.repeat 7 28%nat)) = true /\
                   sf_canonical SBigNum (JStr (t "18446744073709551615")) = true /\ sf_canonical SAssetName (JStr (t "00ff")) = true.
Proof. repeat split; vm_compute; reflexivity. Qed.
