(* Bridge between the wire value trees [val] of the C01 schemas [PlutusData d] / [Metadatum d] (Ledger/Schemas.v) and
   the datum / metadatum trees of the JSON converters (PlutusJson.v [pd], MetadataJson.v [md]):
     pd_of_val : what the CBOR reader builds (bignum bytes to integers, map entries grouped by key as
                 PlutusMap::add_value_move does, framing forgotten);
     val_of_pd : what the CBOR writer emits for a datum WITHOUT remembered original bytes (a value that came from
                 JSON): compact constructor tags up to alternative 127, the general form above, a non-empty list in
                 indefinite framing and an empty one as 0x80, integers as uint / nint inside -2^64..2^64-1 and as
                 bignums with minimal big-endian bytes outside, map entries flattened in key order.
   rust/src/serialization/plutus/plutus_data.rs:5-25, 78-95, 217-239; serialization/numeric/big_int.rs:4-55;
   serialization/metadata.rs.  Model definitions only. *)
From CSL Require Import Base.Prelude Base.Hex Codec.Schema Ledger.Schemas Json.Decimal Json.Json Json.MetadataJson Json.PlutusJson.
Local Open Scope N_scope.

Fixpoint omap {A B} (f : A -> option B) (l : list A) : option (list B) :=
  match l with
  | [] => Some []
  | x :: r => match f x, omap f r with Some y, Some ys => Some (y :: ys) | _, _ => None end
  end.

(* big-endian value of a byte string and the minimal big-endian bytes of a number *)
Definition be_val (b : bytes) : Z := fold_left (fun acc x => (acc * 256 + Z.of_N x)%Z) b 0%Z.
Fixpoint be_bytes_fuel (fuel : nat) (n : N) (acc : bytes) : bytes :=
  match fuel with
  | O => acc
  | S f => if n =? 0 then acc else be_bytes_fuel f (n / 256) ((n mod 256) :: acc)
  end.
Definition be_bytes (n : N) : bytes := be_bytes_fuel (S (N.to_nat (N.log2 n))) n [].

(* a BigInt on the wire, as alternatives of the PlutusData choice: [iu in ib tg] are the positions of uint, nint, and
   of the tag choice, [t2 t3] the positions of tags 2 and 3 inside the tag choice *)
Definition int_val (iu inn tg t2 t3 : nat) (z : Z) : val :=
  if (0 <=? z)%Z then
    if (z <=? u64_max)%Z then VAlt iu (VNat (Z.to_N z)) else VAlt tg (VAlt t2 (VBytes (be_bytes (Z.to_N z))))
  else
    if (- two64Z <=? z)%Z then VAlt inn (VNeg (Z.to_N (- z - 1))) else VAlt tg (VAlt t3 (VBytes (be_bytes (Z.to_N (- z - 1))))).

Definition arr_any (l : list val) : val := VAlt (match l with [] => 0%nat | _ => 1%nat end) (VList l).

Fixpoint pd_of_val (d : nat) (v : val) {struct d} : option pd :=
  match d with
  | O =>
      match v with
      | VAlt 0 (VAlt 0 (VBytes b)) => Some (PInt (be_val b))
      | VAlt 0 (VAlt 1 (VBytes b)) => Some (PInt (- 1 - be_val b))
      | VAlt 1 (VNat n) => Some (PInt (Z.of_N n))
      | VAlt 2 (VNeg n) => Some (PInt (- 1 - Z.of_N n))
      | VAlt 3 (VBytes b) => Some (PBytes b)
      | _ => None
      end
  | S d' =>
      let items := omap (pd_of_val d') in
      match v with
      | VAlt 0 (VAlt t x) =>
          if (t <? 128)%nat then
            match x with VAlt _ (VList l) => option_map (PConstr (Z.of_nat t)) (items l) | _ => None end
          else if (t =? 128)%nat then
            match x with
            | VList [VNat alt; VAlt _ (VList l)] => option_map (PConstr (Z.of_N alt)) (items l)
            | _ => None
            end
          else if (t =? 129)%nat then match x with VBytes b => Some (PInt (be_val b)) | _ => None end
          else if (t =? 130)%nat then match x with VBytes b => Some (PInt (- 1 - be_val b)) | _ => None end
          else None
      | VAlt 1 (VMap l) =>
          option_map (fun kvs => PMap (pmap_of_list kvs))
            (omap (fun kv => match pd_of_val d' (fst kv), pd_of_val d' (snd kv) with
                             | Some k, Some x => Some (k, x) | _, _ => None end) l)
      | VAlt 2 (VAlt _ (VList l)) => option_map PList (items l)
      | VAlt 3 (VNat n) => Some (PInt (Z.of_N n))
      | VAlt 4 (VNeg n) => Some (PInt (- 1 - Z.of_N n))
      | VAlt 5 (VBytes b) => Some (PBytes b)
      | _ => None
      end
  end.

Fixpoint val_of_pd (d : nat) (p : pd) {struct d} : option val :=
  match d with
  | O =>
      match p with
      | PInt z => Some (int_val 1 2 0 0 1 z)
      | PBytes b => Some (VAlt 3 (VBytes b))
      | _ => None
      end
  | S d' =>
      let items := omap (val_of_pd d') in
      match p with
      | PConstr alt fs =>
          match items fs with
          | Some l =>
              if (alt <=? 127)%Z then Some (VAlt 0 (VAlt (Z.to_nat alt) (arr_any l)))
              else Some (VAlt 0 (VAlt 128 (VList [VNat (Z.to_N alt); arr_any l])))
          | None => None
          end
      | PMap l =>
          option_map (fun ess => VAlt 1 (VMap (concat ess)))
            (omap (fun kv => match val_of_pd d' (fst kv) with
                             | Some k => omap (fun x => option_map (pair k) (val_of_pd d' x)) (snd kv)
                             | None => None
                             end) l)
      | PList l => option_map (fun l' => VAlt 2 (arr_any l')) (items l)
      | PInt z => Some (int_val 3 4 0 129 130 z)
      | PBytes b => Some (VAlt 5 (VBytes b))
      end
  end.

(* ---------- metadata ---------- *)
Fixpoint md_of_val (d : nat) (v : val) {struct d} : option md :=
  match d with
  | O =>
      match v with
      | VAlt 0 (VNat n) => Some (MInt (Z.of_N n))
      | VAlt 1 (VNeg n) => Some (MInt (- 1 - Z.of_N n))
      | VAlt 2 (VBytes b) => Some (MBytes b)
      | VAlt 3 (VText b) => Some (MText b)
      | _ => None
      end
  | S d' =>
      match v with
      | VAlt 0 (VMap l) =>
          option_map MMap (omap (fun kv => match md_of_val d' (fst kv), md_of_val d' (snd kv) with
                                           | Some k, Some x => Some (k, x) | _, _ => None end) l)
      | VAlt 1 (VList l) => option_map MList (omap (md_of_val d') l)
      | VAlt 2 (VNat n) => Some (MInt (Z.of_N n))
      | VAlt 3 (VNeg n) => Some (MInt (- 1 - Z.of_N n))
      | VAlt 4 (VBytes b) => Some (MBytes b)
      | VAlt 5 (VText b) => Some (MText b)
      | _ => None
      end
  end.
Definition md_int_val (iu inn : nat) (z : Z) : option val :=
  if (0 <=? z)%Z then (if (z <=? u64_max)%Z then Some (VAlt iu (VNat (Z.to_N z))) else None)
  else (if (- two64Z <=? z)%Z then Some (VAlt inn (VNeg (Z.to_N (- z - 1)))) else None).
Fixpoint val_of_md (d : nat) (m : md) {struct d} : option val :=
  match d with
  | O =>
      match m with
      | MInt z => md_int_val 0 1 z
      | MBytes b => Some (VAlt 2 (VBytes b))
      | MText b => Some (VAlt 3 (VText b))
      | _ => None
      end
  | S d' =>
      match m with
      | MMap l =>
          option_map (fun l' => VAlt 0 (VMap l'))
            (omap (fun kv => match val_of_md d' (fst kv), val_of_md d' (snd kv) with
                             | Some k, Some x => Some (k, x) | _, _ => None end) l)
      | MList l => option_map (fun l' => VAlt 1 (VList l')) (omap (val_of_md d') l)
      | MInt z => md_int_val 2 3 z
      | MBytes b => Some (VAlt 4 (VBytes b))
      | MText b => Some (VAlt 5 (VText b))
      end
  end.
