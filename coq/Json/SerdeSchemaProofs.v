(* Generic theorems about the serde layer (SerdeSchema.v), by induction on the annotation:
     serde_read_write : of_json_s a (json_s a v) = Ok (norm_s a v)        for every value in the domain of a
     serde_canonical  : norm_s a v = v                                     when maps were filled in ascending key order
   hence of_json_s a (json_s a v) = Ok v and the same CBOR bytes, for ANY external string functions. *)
From CSL Require Import Base.Prelude Base.Hex Codec.Schema Json.Decimal Json.DecimalProofs Json.Json Json.JsonProofs
  Json.Assoc Json.SerdeSchema.
From Coq Require Import Permutation.
Local Open Scope N_scope.

(* ---------- induction principles for the nested types ---------- *)
Section JsInd.
  Variable P : jshape -> Prop.
  Hypothesis HLeaf : forall l, P (JLeaf l).
  Hypothesis HRec : forall fs, Forall (fun f => P (snd f)) fs -> P (JRec fs).
  Hypothesis HOptRec : forall fs, Forall (fun f => P (snd f)) fs -> P (JOptRec fs).
  Definition opt_P (p : option jshape) : Prop := match p with Some a => P a | None => True end.
  Hypothesis HEnum : forall vs, Forall (fun v => opt_P (snd v)) vs -> P (JEnum vs).
  Hypothesis HSingle : forall a, P a -> P (JSingle a).
  Hypothesis HSeq : forall a, P a -> P (JSeq a).
  Hypothesis HTuple : forall fs, Forall P fs -> P (JTuple fs).
  Hypothesis HMapObj : forall k okey a, P a -> P (JMapObj k okey a).
  Hypothesis HNullable : forall a, P a -> P (JNullable a).
  Hypothesis HIso : forall f g a, P a -> P (JIso f g a).
  Hypothesis HCustom : forall w r, P (JCustom w r).
  Fixpoint jshape_ind' (a : jshape) : P a :=
    let fields := fix go (fs : list (bytes * jshape)) : Forall (fun f => P (snd f)) fs :=
      match fs with [] => Forall_nil _ | (n, a') :: r => Forall_cons (n, a') (jshape_ind' a') (go r) end in
    match a with
    | JLeaf l => HLeaf l
    | JRec fs => HRec fs (fields fs)
    | JOptRec fs => HOptRec fs (fields fs)
    | JEnum vs => HEnum vs ((fix go (vs : list (bytes * option jshape)) : Forall (fun v => opt_P (snd v)) vs :=
                               match vs with
                               | [] => Forall_nil _
                               | (n, p) :: r =>
                                   @Forall_cons _ (fun v => opt_P (snd v)) (n, p) r
                                     (match p as q return opt_P q with Some a' => jshape_ind' a' | None => I end) (go r)
                               end) vs)
    | JSingle a' => HSingle a' (jshape_ind' a')
    | JSeq a' => HSeq a' (jshape_ind' a')
    | JTuple fs => HTuple fs ((fix go (fs : list jshape) : Forall P fs :=
                                 match fs with [] => Forall_nil _ | a' :: r => Forall_cons a' (jshape_ind' a') (go r) end) fs)
    | JMapObj k okey a' => HMapObj k okey a' (jshape_ind' a')
    | JNullable a' => HNullable a' (jshape_ind' a')
    | JIso f g a' => HIso f g a' (jshape_ind' a')
    | JCustom w r => HCustom w r
    end.
End JsInd.

Section ValInd.
  Variable P : val -> Prop.
  Hypothesis HNat : forall n, P (VNat n).
  Hypothesis HNeg : forall n, P (VNeg n).
  Hypothesis HBytes : forall b, P (VBytes b).
  Hypothesis HText : forall b, P (VText b).
  Hypothesis HBool : forall b, P (VBool b).
  Hypothesis HNull : P VNull.
  Hypothesis HList : forall l, Forall P l -> P (VList l).
  Definition opt_PV (o : option val) : Prop := match o with Some v => P v | None => True end.
  Hypothesis HStruct : forall l, Forall opt_PV l -> P (VStruct l).
  Hypothesis HVar : forall i l, Forall P l -> P (VVar i l).
  Hypothesis HMap : forall l, Forall (fun kv => P (fst kv) /\ P (snd kv)) l -> P (VMap l).
  Hypothesis HAlt : forall i v, P v -> P (VAlt i v).
  Fixpoint val_ind' (v : val) : P v :=
    let all := fix go (l : list val) : Forall P l :=
      match l with [] => Forall_nil _ | x :: r => Forall_cons x (val_ind' x) (go r) end in
    match v with
    | VNat n => HNat n | VNeg n => HNeg n | VBytes b => HBytes b | VText b => HText b | VBool b => HBool b
    | VNull => HNull
    | VList l => HList l (all l)
    | VStruct l => HStruct l ((fix go (l : list (option val)) : Forall opt_PV l :=
                                 match l with
                                 | [] => Forall_nil _
                                 | o :: r => @Forall_cons _ opt_PV o r
                                               (match o as q return opt_PV q with Some x => val_ind' x | None => I end) (go r)
                                 end) l)
    | VVar i l => HVar i l (all l)
    | VMap l => HMap l ((fix go (l : list (val * val)) : Forall (fun kv => P (fst kv) /\ P (snd kv)) l :=
                           match l with
                           | [] => Forall_nil _
                           | (k, x) :: r => Forall_cons (k, x) (conj (val_ind' k) (val_ind' x)) (go r)
                           end) l)
    | VAlt i x => HAlt i x (val_ind' x)
    end.
End ValInd.

(* ---------- val_eqb is sound ---------- *)
Lemma leqb_sound {A} (f : A -> A -> bool) l :
  Forall (fun x => forall y, f x y = true -> x = y) l -> forall l2, leqb f l l2 = true -> l = l2.
Proof.
  induction 1 as [|x r Hx _ IH]; intros [|y l2] H; cbn [leqb] in H; try discriminate; [reflexivity|].
  apply andb_prop in H as [H1 H2]. f_equal; auto.
Qed.
Lemma val_eqb_sound a : forall b, val_eqb a b = true -> a = b.
Proof.
  induction a as [n|n|x|x|x| |l IH|l IH|i l IH|l IH|i x IH] using val_ind'; intros b H; destruct b; cbn [val_eqb] in H; try discriminate.
  - apply N.eqb_eq in H. now subst.
  - apply N.eqb_eq in H. now subst.
  - apply bytes_eqb_eq in H. now subst.
  - apply bytes_eqb_eq in H. now subst.
  - apply Bool.eqb_prop in H. now subst.
  - reflexivity.
  - f_equal. now apply (leqb_sound _ _ IH).
  - f_equal. eapply leqb_sound; [|exact H]. eapply Forall_impl; [|exact IH].
    intros [u|] Hu [w|] E; try discriminate; [f_equal; now apply Hu|reflexivity].
  - apply andb_prop in H as [H1 H2]. apply Nat.eqb_eq in H1. subst. f_equal. now apply (leqb_sound _ _ IH).
  - f_equal. eapply leqb_sound; [|exact H]. eapply Forall_impl; [|exact IH].
    intros [k1 v1] [Hk Hv] [k2 v2] E. cbn [fst snd] in *. apply andb_prop in E as [E1 E2]. f_equal; auto.
  - apply andb_prop in H as [H1 H2]. apply Nat.eqb_eq in H1. subst. f_equal. auto.
Qed.

(* ---------- small facts ---------- *)
Lemma bytes_nodupb_NoDup l : bytes_nodupb l = true -> NoDup l.
Proof.
  induction l as [|x r IH]; cbn [bytes_nodupb]; intros H; [constructor|]. apply andb_prop in H as [H1 H2].
  constructor; [|auto]. intros Hin. apply negb_true_iff in H1.
  assert (existsb (bytes_eqb x) r = true) by (apply existsb_exists; exists x; split; [exact Hin|apply bytes_eqb_refl]). congruence.
Qed.

Lemma pick_nth {B} (d : B) f vs : forall i,
  pick_variant d f vs i = match nth_error vs i with Some (n, p) => f n p | None => d end.
Proof.
  induction vs as [|[n p] r IH]; intros [|i]; cbn [pick_variant nth_error]; try reflexivity. apply IH.
Qed.
Lemma find_nth s f vs : forall i k p,
  NoDup (List.map fst vs) -> nth_error vs i = Some (s, p) -> find_variant s f vs k = f (k + i)%nat p.
Proof.
  induction vs as [|[n q] r IH]; intros [|i] k p Hnd Hn; cbn [nth_error] in Hn; try discriminate.
  - inversion Hn; subst. cbn [find_variant]. rewrite bytes_eqb_refl. now rewrite Nat.add_0_r.
  - cbn [find_variant]. cbn [List.map fst] in Hnd. inversion Hnd; subst.
    destruct (bytes_eqb n s) eqn:E.
    + apply bytes_eqb_eq in E. subst. exfalso. apply H1. apply nth_error_In in Hn.
      apply in_map_iff. exists (s, p). split; [reflexivity|exact Hn].
    + rewrite (IH i (S k) p H2 Hn). f_equal. lia.
Qed.

Lemma zip_fields_fst {B} (f : jshape -> val -> B) fs : forall vs,
  length fs = length vs -> List.map fst (zip_fields f fs vs) = List.map fst fs.
Proof.
  induction fs as [|[n a'] fr IH]; intros [|x xr] H; cbn in H; try discriminate; [reflexivity|].
  cbn [zip_fields List.map fst]. f_equal. apply IH. lia.
Qed.
Lemma zip_ofields_fst {B} (f : jshape -> option val -> B) fs : forall os,
  length fs = length os -> List.map fst (zip_ofields f fs os) = List.map fst fs.
Proof.
  induction fs as [|[n a'] fr IH]; intros [|x xr] H; cbn in H; try discriminate; [reflexivity|].
  cbn [zip_ofields List.map fst]. f_equal. apply IH. lia.
Qed.
Lemma all_fields_length f fs : forall vs, all_fields true f fs vs = true -> length fs = length vs.
Proof.
  induction fs as [|[n a'] fr IH]; intros [|x xr] H; cbn [all_fields negb] in H; try discriminate; [reflexivity|].
  apply andb_prop in H as [_ H]. cbn [length]. f_equal. now apply IH.
Qed.
Lemma all_ofields_length f fs : forall os, all_ofields true f fs os = true -> length fs = length os.
Proof.
  induction fs as [|[n a'] fr IH]; intros [|x xr] H; cbn [all_ofields negb] in H; try discriminate; [reflexivity|].
  apply andb_prop in H as [_ H]. cbn [length]. f_equal. now apply IH.
Qed.

Section Ext.
  Variable ext_str : N -> bytes -> bytes.
  Variable ext_of_str : N -> bytes -> option bytes.
  Notation json_s := (json_s ext_str).
  Notation of_json_s := (of_json_s ext_of_str).
  Notation norm_s := (norm_s ext_str).
  Notation jwf := (jwf ext_str ext_of_str).
  Notation leaf_wf := (leaf_wf ext_str ext_of_str).
  Notation leaf_str := (leaf_str ext_str).
  Notation leaf_of_str := (leaf_of_str ext_of_str).
  Notation leaf_json := (leaf_json ext_str).
  Notation leaf_of_json := (leaf_of_json ext_of_str).
  Notation canonical := (canonical ext_str).
  Notation key_str := (key_str ext_str).

  (* ---------- leaves ---------- *)
  Lemma bytes_val_okb_ok b : bytes_val_okb b = true -> bytes_ok b.
  Proof. unfold bytes_val_okb, bytes_ok. rewrite forallb_forall, Forall_forall. intros H x Hx. specialize (H x Hx). lia. Qed.

  Lemma leaf_of_str_str l v s : leaf_wf l v = true -> leaf_str l v = Some s -> leaf_of_str l s = Ok v.
  Proof.
    destruct l; destruct v; cbn [SerdeSchema.leaf_wf SerdeSchema.leaf_str]; try discriminate; intros Hw Hs.
    - inversion Hs; subst s. cbn [SerdeSchema.leaf_of_str]. rewrite parse_unsigned_print by lia.
      unfold u64_max, two64 in *. destruct (Z.leb_spec (Z.of_N n) 18446744073709551615); [|lia]. now rewrite N2Z.id.
    - destruct i as [|[|i]]; try discriminate; destruct v; try discriminate; inversion Hs; subst s; cbn [SerdeSchema.leaf_of_str].
      + rewrite parse_i128_print by (unfold in_range, i128_min, i128_max, two64 in *; lia).
        assert (R : in_range (- two64Z) u64_max (Z.of_N n) = true) by (unfold in_range, two64Z, u64_max, two64 in *; lia).
        rewrite R. destruct (Z.leb_spec 0 (Z.of_N n)); [|lia]. now rewrite N2Z.id.
      + rewrite parse_i128_print by (unfold in_range, i128_min, i128_max, two64 in *; lia).
        assert (R : in_range (- two64Z) u64_max (- Z.of_N n - 1) = true) by (unfold in_range, two64Z, u64_max, two64 in *; lia).
        rewrite R. destruct (Z.leb_spec 0 (- Z.of_N n - 1)); [lia|].
        replace (- (- Z.of_N n - 1) - 1)%Z with (Z.of_N n) by lia. now rewrite N2Z.id.
    - inversion Hs; subst s. cbn [SerdeSchema.leaf_of_str]. apply andb_prop in Hw as [Hw H3]. apply andb_prop in Hw as [H1 H2].
      rewrite (unhex_hex _ (bytes_val_okb_ok _ H1)). now rewrite H2, H3.
    - inversion Hs; subst s. cbn [SerdeSchema.leaf_of_str]. now rewrite Hw.
    - inversion Hs; subst s. cbn [SerdeSchema.leaf_of_str]. destruct (ext_of_str id (ext_str id b)) as [b'|]; [|discriminate].
      apply bytes_eqb_eq in Hw. now subst.
    - rewrite Hs in Hw. cbn [SerdeSchema.leaf_of_str]. destruct (name_index s names 0) as [j|]; [|discriminate].
      apply N.eqb_eq in Hw. now subst.
  Qed.

  Lemma mapM_bytes b : bytes_val_okb b = true ->
    mapM byte_of_json (List.map (fun x => JInt (Z.of_N x)) b) = Ok b.
  Proof.
    unfold bytes_val_okb. induction b as [|x r IH]; cbn [forallb List.map mapM]; intros H; [reflexivity|].
    apply andb_prop in H as [Hx Hr]. cbn [byte_of_json]. unfold in_range.
    destruct (Z.leb_spec 0 (Z.of_N x)); [|lia]. destruct (Z.leb_spec (Z.of_N x) 255); [|lia]. cbn [andb bind].
    rewrite (IH Hr). cbn [bind]. now rewrite N2Z.id.
  Qed.

  Lemma leaf_roundtrip l v : leaf_wf l v = true -> leaf_of_json l (leaf_json l v) = Ok v.
  Proof.
    intros Hw.
    assert (S : forall s, leaf_str l v = Some s -> leaf_of_str l s = Ok v) by (intros s; now apply leaf_of_str_str).
    destruct l; destruct v; cbn [SerdeSchema.leaf_wf] in Hw; try discriminate;
      cbn [SerdeSchema.leaf_json SerdeSchema.leaf_of_json SerdeSchema.leaf_str] in *.
    - now apply S.
    - destruct (Z.leb_spec 0 (Z.of_N n)); [|lia]. destruct (Z.ltb_spec (Z.of_N n) (Z.of_N lim)); [|lia]. cbn [andb]. now rewrite N2Z.id.
    - destruct i as [|[|i]]; try discriminate; destruct v; try discriminate; now apply S.
    - now apply S.
    - apply andb_prop in Hw as [Hw H3]. apply andb_prop in Hw as [H1 H2]. rewrite (mapM_bytes _ H1). cbn [bind]. now rewrite H2, H3.
    - now apply S.
    - reflexivity.
    - now apply S.
    - destruct (nth_error names (N.to_nat n)) as [s|] eqn:En; [|discriminate]. now apply S.
  Qed.

  (* ---------- reading back what was written ---------- *)
  Definition RW (a : jshape) : Prop :=
    wfj a = true -> forall v, jwf a v = true -> of_json_s a (json_s a v) = Ok (norm_s a v).

  Definition read_field (a' : jshape) (o : option json) : result val :=
    match o with Some jx => of_json_s a' jx | None => if is_nullable a' then Ok VNull else Err end.
  Definition read_ofield (a' : jshape) (o : option json) : result (option val) :=
    match o with Some JNull | None => Ok None | Some jx => let* x := of_json_s a' jx in Ok (Some x) end.
  Definition write_ofield (a' : jshape) (o : option val) : json := match o with Some x => json_s a' x | None => JNull end.
  Definition norm_ofield (a' : jshape) (o : option val) : option val := match o with Some x => Some (norm_s a' x) | None => None end.
  Definition wf_ofield (a' : jshape) (o : option val) : bool :=
    match o with Some x => jwf a' x && negb (is_jnull (json_s a' x)) | None => true end.

  Lemma all_wfj_Forall fs : all_wfj wfj fs = true -> Forall (fun f => wfj (snd f) = true) fs.
  Proof.
    induction fs as [|[n a'] r IH]; cbn [all_wfj]; intros H; [constructor|]. apply andb_prop in H as [H1 H2].
    constructor; [exact H1|auto].
  Qed.

  Lemma read_fields_rec (L : list (bytes * json)) fs : forall vs,
    Forall (fun f => RW (snd f)) fs -> Forall (fun f => wfj (snd f) = true) fs ->
    all_fields true jwf fs vs = true ->
    (forall n j, In (n, j) (zip_fields json_s fs vs) -> obj_get n L = Some j) ->
    read_fields read_field L fs = Ok (List.map snd (zip_fields norm_s fs vs)).
  Proof.
    induction fs as [|[n a'] fr IH]; intros [|x xr] HP HW Hwf HL; cbn [all_fields negb] in Hwf; try discriminate; [reflexivity|].
    apply andb_prop in Hwf as [Hx Hr]. inversion HP as [|? ? Pa Pr]; subst. inversion HW as [|? ? Wa Wr]; subst. cbn [snd] in *.
    cbn [read_fields zip_fields List.map snd]. rewrite (HL n (json_s a' x)) by (cbn [zip_fields]; now left).
    cbn [read_field]. rewrite (Pa Wa x Hx). cbn [bind].
    rewrite (IH xr Pr Wr Hr); [reflexivity|]. intros n' j' Hin. apply HL. cbn [zip_fields]. now right.
  Qed.

  Lemma read_ofields_rec (L : list (bytes * json)) fs : forall os,
    Forall (fun f => RW (snd f)) fs -> Forall (fun f => wfj (snd f) = true) fs ->
    all_ofields true wf_ofield fs os = true ->
    (forall n j, In (n, j) (zip_ofields write_ofield fs os) -> obj_get n L = Some j) ->
    read_fields read_ofield L fs = Ok (List.map snd (zip_ofields norm_ofield fs os)).
  Proof.
    induction fs as [|[n a'] fr IH]; intros [|o orr] HP HW Hwf HL; cbn [all_ofields negb] in Hwf; try discriminate; [reflexivity|].
    apply andb_prop in Hwf as [Hx Hr]. inversion HP as [|? ? Pa Pr]; subst. inversion HW as [|? ? Wa Wr]; subst. cbn [snd] in *.
    cbn [read_fields zip_ofields List.map snd]. rewrite (HL n (write_ofield a' o)) by (cbn [zip_ofields]; now left).
    assert (E : read_ofield a' (Some (write_ofield a' o)) = Ok (norm_ofield a' o)).
    { destruct o as [x|]; cbn [write_ofield norm_ofield wf_ofield] in *; [|reflexivity].
      apply andb_prop in Hx as [H1 H2]. apply negb_true_iff in H2.
      unfold read_ofield. destruct (json_s a' x) eqn:Ej; try discriminate; rewrite <- Ej, (Pa Wa x H1); reflexivity. }
    rewrite E. cbn [bind].
    rewrite (IH orr Pr Wr Hr); [reflexivity|]. intros n' j' Hin. apply HL. cbn [zip_ofields]. now right.
  Qed.

  Lemma lookup_written (pairs : list (bytes * json)) :
    NoDup (List.map fst pairs) -> forall n j, In (n, j) pairs -> obj_get n (obj_of_list pairs) = Some j.
  Proof. intros Hnd n j Hin. rewrite obj_get_aget, obj_of_list_aof_list. now apply aget_of_list. Qed.

  Lemma read_tuple_rec fs : forall vs,
    Forall RW fs -> forallb wfj fs = true -> all_shapes true jwf fs vs = true ->
    read_tuple of_json_s fs (zip_shapes json_s fs vs) = Ok (zip_shapes norm_s fs vs).
  Proof.
    induction fs as [|a' fr IH]; intros [|x xr] HP HW Hwf; cbn [all_shapes negb] in Hwf; try discriminate; [reflexivity|].
    apply andb_prop in Hwf as [Hx Hr]. inversion HP as [|? ? Pa Pr]; subst. cbn [forallb] in HW. apply andb_prop in HW as [Wa Wr].
    cbn [zip_shapes read_tuple]. rewrite (Pa Wa x Hx). cbn [bind]. now rewrite (IH xr Pr Wr Hr).
  Qed.

  Lemma mapM_seq a' l : RW a' -> wfj a' = true -> forallb (jwf a') l = true ->
    mapM (of_json_s a') (List.map (json_s a') l) = Ok (List.map (norm_s a') l).
  Proof.
    intros Pa Wa. induction l as [|x r IH]; cbn [forallb List.map mapM]; intros H; [reflexivity|].
    apply andb_prop in H as [Hx Hr]. rewrite (Pa Wa x Hx). cbn [bind]. now rewrite (IH Hr).
  Qed.

  Theorem serde_read_write a : RW a.
  Proof.
    induction a as [l|fs IH|fs IH|vs IH|a' IH|a' IH|fs IH|k okey a' IH|a' IH|f g a' IH|w r] using jshape_ind'; intros Hw v Hv.
    - (* leaf *) cbn [SerdeSchema.json_s SerdeSchema.of_json_s SerdeSchema.norm_s]. now apply leaf_roundtrip.
    - (* record *)
      cbn [SerdeSchema.wfj] in Hw. apply andb_prop in Hw as [Hn Hws]. destruct v; try discriminate. cbn [SerdeSchema.jwf] in Hv.
      cbn [SerdeSchema.json_s SerdeSchema.of_json_s SerdeSchema.norm_s].
      change (read_fields (fun a' o => match o with Some jx => of_json_s a' jx | None => if is_nullable a' then Ok VNull else Err end))
        with (read_fields read_field).
      rewrite (read_fields_rec _ fs l IH (all_wfj_Forall _ Hws) Hv); [reflexivity|].
      apply lookup_written. rewrite zip_fields_fst by (now apply all_fields_length with (f := jwf)). now apply bytes_nodupb_NoDup.
    - (* record with optional fields *)
      cbn [SerdeSchema.wfj] in Hw. apply andb_prop in Hw as [Hn Hws]. destruct v; try discriminate. cbn [SerdeSchema.jwf] in Hv.
      cbn [SerdeSchema.json_s SerdeSchema.of_json_s SerdeSchema.norm_s].
      change (read_fields (fun a' o => match o with Some JNull | None => Ok None | Some jx => let* x := of_json_s a' jx in Ok (Some x) end))
        with (read_fields read_ofield).
      change (zip_ofields (fun a' o => match o with Some x => json_s a' x | None => JNull end)) with (zip_ofields write_ofield).
      change (zip_ofields (fun a' o => match o with Some x => Some (norm_s a' x) | None => None end)) with (zip_ofields norm_ofield).
      change (all_ofields true (fun a' o => match o with Some x => jwf a' x && negb (is_jnull (json_s a' x)) | None => true end))
        with (all_ofields true wf_ofield) in Hv.
      rewrite (read_ofields_rec _ fs l IH (all_wfj_Forall _ Hws) Hv); [reflexivity|].
      apply lookup_written. rewrite zip_ofields_fst by (now apply all_ofields_length with (f := wf_ofield)). now apply bytes_nodupb_NoDup.
    - (* enum *)
      cbn [SerdeSchema.wfj] in Hw. apply andb_prop in Hw as [Hn Hws]. apply bytes_nodupb_NoDup in Hn.
      destruct v; try discriminate. cbn [SerdeSchema.jwf] in Hv. cbn [SerdeSchema.json_s SerdeSchema.norm_s].
      rewrite !pick_nth. rewrite pick_nth in Hv. destruct (nth_error vs i) as [[n p]|] eqn:En; [|discriminate].
      assert (Hp : opt_P RW p).
      { apply nth_error_In in En. rewrite Forall_forall in IH. exact (IH _ En). }
      assert (Wp : match p with Some a' => wfj a' = true | None => True end).
      { clear -Hws En. revert i En. induction vs as [|[n' p'] r IHr]; intros [|i] En; cbn [nth_error] in En; try discriminate.
        - inversion En; subst. cbn [all_wfj_opt] in Hws. apply andb_prop in Hws as [H _]. destruct p; [exact H|exact I].
        - cbn [all_wfj_opt] in Hws. apply andb_prop in Hws as [_ H]. now apply (IHr H i). }
      destruct p as [a'|].
      + apply andb_prop in Hv as [H1 H2]. cbn [SerdeSchema.of_json_s].
        rewrite (find_nth n _ vs i 0%nat (Some a') Hn En). cbn [opt_P] in Hp. rewrite (Hp Wp _ H1). cbn [bind].
        destruct (norm_s a' (VList l)); try discriminate. reflexivity.
      + destruct l; [|discriminate]. cbn [SerdeSchema.of_json_s]. now rewrite (find_nth n _ vs i 0%nat None Hn En).
    - (* single *) destruct v as [| | | | | |[|x [|]]| | | |]; try discriminate. cbn [SerdeSchema.jwf] in Hv.
      cbn [SerdeSchema.json_s SerdeSchema.of_json_s SerdeSchema.norm_s]. now rewrite (IH Hw x Hv).
    - (* sequence *) destruct v; try discriminate. cbn [SerdeSchema.jwf] in Hv.
      cbn [SerdeSchema.json_s SerdeSchema.of_json_s SerdeSchema.norm_s]. now rewrite (mapM_seq a' l IH Hw Hv).
    - (* tuple *) destruct v; try discriminate. cbn [SerdeSchema.jwf SerdeSchema.wfj] in Hv, Hw.
      cbn [SerdeSchema.json_s SerdeSchema.of_json_s SerdeSchema.norm_s]. now rewrite (read_tuple_rec fs l IH Hw Hv).
    - (* map written as an object *)
      destruct v; try discriminate. cbn [SerdeSchema.jwf SerdeSchema.wfj] in Hv, Hw.
      cbn [SerdeSchema.json_s SerdeSchema.of_json_s SerdeSchema.norm_s].
      set (K := List.map (fun kv : val * val => (key_str k (fst kv), kv)) l).
      assert (EJ : obj_of_list (List.map (fun kv => (match leaf_str k (fst kv) with Some s => s | None => [] end, json_s a' (snd kv))) l)
                   = List.map (fun e => (fst e, json_s a' (snd (snd e)))) (aof_list K)).
      { rewrite obj_of_list_aof_list. rewrite <- (aof_list_map (fun kv : val * val => json_s a' (snd kv))). unfold K.
        rewrite map_map. reflexivity. }
      rewrite EJ. clear EJ.
      assert (HM : forall E, (forall e, In e E -> In e K) ->
                 mapM (fun e : bytes * json => let (ks, jv) := e in
                                               let* kv := leaf_of_str k ks in let* vv := of_json_s a' jv in Ok (kv, vv))
                      (List.map (fun e => (fst e, json_s a' (snd (snd e)))) E)
                 = Ok (List.map (fun e => (fst (snd e), norm_s a' (snd (snd e)))) E)).
      { induction E as [|e r IHE]; intros HE; [reflexivity|]. cbn [List.map mapM].
        assert (He : In e K) by (apply HE; now left). unfold K in He. apply in_map_iff in He as [[kk vv] [<- Hin]].
        cbn [fst snd]. rewrite forallb_forall in Hv. specialize (Hv _ Hin). cbn [fst snd] in Hv.
        apply andb_prop in Hv as [Hv H3]. apply andb_prop in Hv as [H1 H2].
        unfold SerdeSchema.key_str. destruct (leaf_str k kk) as [s|] eqn:Es; [|discriminate].
        rewrite (leaf_of_str_str k kk s H1 Es). cbn [bind]. rewrite (IH Hw vv H3). cbn [bind].
        rewrite IHE by (intros e' He'; apply HE; now right). reflexivity. }
      rewrite (HM (aof_list K)) by (intros e He; now apply aof_list_in). reflexivity.
    - (* nullable *)
      cbn [SerdeSchema.wfj] in Hw. destruct v; cbn [SerdeSchema.jwf] in Hv; try reflexivity;
        cbn [SerdeSchema.json_s SerdeSchema.norm_s]; apply andb_prop in Hv as [H1 H2]; apply negb_true_iff in H2;
        cbn [SerdeSchema.of_json_s]; rewrite <- (IH Hw _ H1);
        match goal with |- context [json_s a' ?x] => destruct (json_s a' x) eqn:Ej; try discriminate; reflexivity end.
    - (* iso *)
      cbn [SerdeSchema.wfj SerdeSchema.jwf] in Hw, Hv. cbn [SerdeSchema.json_s SerdeSchema.of_json_s SerdeSchema.norm_s].
      now rewrite (IH Hw _ Hv).
    - (* hand-written pair *)
      cbn [SerdeSchema.jwf SerdeSchema.json_s SerdeSchema.of_json_s SerdeSchema.norm_s] in *.
      destruct (r (w v)); try discriminate. reflexivity.
  Qed.

  (* ---------- values whose maps were filled in ascending key order come back unchanged ---------- *)
  Definition CN (a : jshape) : Prop :=
    wfj a = true -> forall v, jwf a v = true -> canonical a v = true -> norm_s a v = v.

  Lemma norm_fields_id fs : forall vs,
    Forall (fun f => CN (snd f)) fs -> Forall (fun f => wfj (snd f) = true) fs ->
    all_fields true jwf fs vs = true -> all_fields false canonical fs vs = true ->
    List.map snd (zip_fields norm_s fs vs) = vs.
  Proof.
    induction fs as [|[n a'] fr IH]; intros [|x xr] HP HW Hwf Hc; cbn [all_fields negb] in Hwf, Hc; try discriminate; [reflexivity|].
    apply andb_prop in Hwf as [Hx Hr]. apply andb_prop in Hc as [Cx Cr].
    inversion HP as [|? ? Pa Pr]; subst. inversion HW as [|? ? Wa Wr]; subst. cbn [snd] in *.
    cbn [zip_fields List.map snd]. rewrite (Pa Wa x Hx Cx). f_equal. now apply IH.
  Qed.
  Definition can_ofield (a' : jshape) (o : option val) : bool := match o with Some x => canonical a' x | None => true end.
  Lemma norm_ofields_id fs : forall os,
    Forall (fun f => CN (snd f)) fs -> Forall (fun f => wfj (snd f) = true) fs ->
    all_ofields true wf_ofield fs os = true -> all_ofields false can_ofield fs os = true ->
    List.map snd (zip_ofields norm_ofield fs os) = os.
  Proof.
    induction fs as [|[n a'] fr IH]; intros [|o orr] HP HW Hwf Hc; cbn [all_ofields negb] in Hwf, Hc; try discriminate; [reflexivity|].
    apply andb_prop in Hwf as [Hx Hr]. apply andb_prop in Hc as [Cx Cr].
    inversion HP as [|? ? Pa Pr]; subst. inversion HW as [|? ? Wa Wr]; subst. cbn [snd] in *.
    cbn [zip_ofields List.map snd]. f_equal; [|now apply IH].
    destruct o as [x|]; [|reflexivity]. cbn [norm_ofield wf_ofield can_ofield] in *. apply andb_prop in Hx as [Hx _].
    now rewrite (Pa Wa x Hx Cx).
  Qed.
  Lemma norm_shapes_id fs : forall vs,
    Forall CN fs -> forallb wfj fs = true -> all_shapes true jwf fs vs = true -> all_shapes false canonical fs vs = true ->
    zip_shapes norm_s fs vs = vs.
  Proof.
    induction fs as [|a' fr IH]; intros [|x xr] HP HW Hwf Hc; cbn [all_shapes negb] in Hwf, Hc; try discriminate; [reflexivity|].
    apply andb_prop in Hwf as [Hx Hr]. apply andb_prop in Hc as [Cx Cr].
    inversion HP as [|? ? Pa Pr]; subst. cbn [forallb] in HW. apply andb_prop in HW as [Wa Wr].
    cbn [zip_shapes]. rewrite (Pa Wa x Hx Cx). f_equal. now apply IH.
  Qed.

  Lemma map_snd_keyed {A} (f : A -> bytes) (l : list A) : List.map snd (List.map (fun x => (f x, x)) l) = l.
  Proof. induction l as [|x r IH]; [reflexivity|]. cbn [List.map snd]. now rewrite IH. Qed.

  Theorem serde_canonical a : CN a.
  Proof.
    induction a as [l|fs IH|fs IH|vs IH|a' IH|a' IH|fs IH|k okey a' IH|a' IH|f g a' IH|w r] using jshape_ind'; intros Hw v Hv Hc.
    - reflexivity.
    - cbn [SerdeSchema.wfj] in Hw. apply andb_prop in Hw as [Hn Hws]. destruct v; try discriminate.
      cbn [SerdeSchema.jwf SerdeSchema.canonical SerdeSchema.norm_s] in *. f_equal.
      now apply (norm_fields_id fs l IH (all_wfj_Forall _ Hws)).
    - cbn [SerdeSchema.wfj] in Hw. apply andb_prop in Hw as [Hn Hws]. destruct v; try discriminate.
      cbn [SerdeSchema.jwf SerdeSchema.canonical SerdeSchema.norm_s] in *. f_equal.
      change (zip_ofields (fun a' o => match o with Some x => Some (norm_s a' x) | None => None end)) with (zip_ofields norm_ofield).
      now apply (norm_ofields_id fs l IH (all_wfj_Forall _ Hws)).
    - cbn [SerdeSchema.wfj] in Hw. apply andb_prop in Hw as [Hn Hws].
      destruct v; try discriminate. cbn [SerdeSchema.jwf SerdeSchema.canonical SerdeSchema.norm_s] in *.
      rewrite pick_nth in Hv, Hc. rewrite pick_nth. destruct (nth_error vs i) as [[n p]|] eqn:En; [|discriminate].
      assert (Hp : opt_P CN p).
      { apply nth_error_In in En. rewrite Forall_forall in IH. exact (IH _ En). }
      assert (Wp : match p with Some a' => wfj a' = true | None => True end).
      { clear -Hws En. revert i En. induction vs as [|[n' p'] r IHr]; intros [|i] En; cbn [nth_error] in En; try discriminate.
        - inversion En; subst. cbn [all_wfj_opt] in Hws. apply andb_prop in Hws as [H _]. destruct p; [exact H|exact I].
        - cbn [all_wfj_opt] in Hws. apply andb_prop in Hws as [_ H]. now apply (IHr H i). }
      destruct p as [a'|].
      + apply andb_prop in Hv as [H1 H2]. cbn [opt_P] in Hp. now rewrite (Hp Wp _ H1 Hc).
      + destruct l; [reflexivity|discriminate].
    - destruct v as [| | | | | |[|x [|]]| | | |]; try discriminate. cbn [SerdeSchema.jwf SerdeSchema.canonical SerdeSchema.norm_s SerdeSchema.wfj] in *.
      now rewrite (IH Hw x Hv Hc).
    - destruct v; try discriminate. cbn [SerdeSchema.jwf SerdeSchema.canonical SerdeSchema.norm_s SerdeSchema.wfj] in *. f_equal.
      rewrite forallb_forall in Hv, Hc. transitivity (List.map (fun x : val => x) l); [|apply map_id].
      apply map_ext_in. intros x Hx. apply IH; auto.
    - destruct v; try discriminate. cbn [SerdeSchema.jwf SerdeSchema.canonical SerdeSchema.norm_s SerdeSchema.wfj] in *. f_equal.
      now apply norm_shapes_id.
    - destruct v; try discriminate. cbn [SerdeSchema.jwf SerdeSchema.canonical SerdeSchema.norm_s SerdeSchema.wfj] in *. f_equal.
      apply andb_prop in Hc as [Hc C3]. apply andb_prop in Hc as [C1 C2].
      set (K := List.map (fun kv : val * val => (key_str k (fst kv), kv)) l).
      assert (PK : Permutation (aof_list K) K).
      { apply aof_list_perm. unfold K. rewrite map_map. cbn [fst]. now apply bytes_nodupb_NoDup. }
      (* the entries come back with unchanged values *)
      assert (EN : List.map (fun e : bytes * (val * val) => (fst (snd e), norm_s a' (snd (snd e)))) (aof_list K) = List.map snd (aof_list K)).
      { apply map_ext_in. intros e He. apply aof_list_in in He. unfold K in He. apply in_map_iff in He as [[kk vv] [<- Hin]].
        cbn [fst snd]. rewrite forallb_forall in Hv, C3. specialize (Hv _ Hin). specialize (C3 _ Hin). cbn [fst snd] in Hv, C3.
        apply andb_prop in Hv as [_ H3]. now rewrite (IH Hw vv H3 C3). }
      rewrite EN. unfold osort.
      assert (PL : Permutation (List.map snd (aof_list K)) l).
      { eapply Permutation_trans; [apply Permutation_map; exact PK|]. unfold K. rewrite map_snd_keyed. reflexivity. }
      rewrite (aof_list_of_perm (List.map (fun kv : val * val => (okey (fst kv), kv)) l)); [apply map_snd_keyed|exact C1|].
      apply Permutation_map. exact PL.
    - cbn [SerdeSchema.wfj] in Hw. destruct v; cbn [SerdeSchema.jwf SerdeSchema.canonical SerdeSchema.norm_s] in *; try reflexivity;
        apply andb_prop in Hv as [H1 _]; now apply IH.
    - cbn [SerdeSchema.wfj SerdeSchema.jwf SerdeSchema.canonical SerdeSchema.norm_s] in *. apply andb_prop in Hc as [C1 C2].
      rewrite (IH Hw _ Hv C1). now apply val_eqb_sound.
    - cbn [SerdeSchema.canonical SerdeSchema.norm_s] in *. destruct (r (w v)); try discriminate. now apply val_eqb_sound.
  Qed.

  (* ===== the typed-value clause for an annotated type ===== *)
  Theorem serde_roundtrip a v :
    wfj a = true -> jwf a v = true -> canonical a v = true -> of_json_s a (json_s a v) = Ok v.
  Proof. intros Hw Hv Hc. rewrite (serde_read_write a Hw v Hv). now rewrite (serde_canonical a Hw v Hv Hc). Qed.

  Corollary serde_roundtrip_bytes (s : schema) a v :
    wfj a = true -> jwf a v = true -> canonical a v = true ->
    exists v', of_json_s a (json_s a v) = Ok v' /\ v' = v /\ enc s v' = enc s v.
  Proof. intros Hw Hv Hc. exists v. split; [now apply serde_roundtrip|split; reflexivity]. Qed.
End Ext.
