(* Decimal text of integers, as Rust prints ([to_string] of u64/i64/i128, num-bigint) and parses
   ([str::parse::<iN>]): model only, lemmas are in DecimalProofs.v.  Characters are ASCII codes.
   Built on the standard library's [Decimal.uint] / [Z.to_int] / [Z.of_int]. *)
From CSL Require Import Base.Prelude.
From Coq Require Import Decimal.
Local Open Scope N_scope.

Fixpoint uint_digits (u : Decimal.uint) : list N :=
  match u with
  | Nil => []
  | D0 r => 48 :: uint_digits r | D1 r => 49 :: uint_digits r | D2 r => 50 :: uint_digits r
  | D3 r => 51 :: uint_digits r | D4 r => 52 :: uint_digits r | D5 r => 53 :: uint_digits r
  | D6 r => 54 :: uint_digits r | D7 r => 55 :: uint_digits r | D8 r => 56 :: uint_digits r
  | D9 r => 57 :: uint_digits r
  end.

Definition digit_cons (c : N) (u : Decimal.uint) : option Decimal.uint :=
  match c with
  | 48 => Some (D0 u) | 49 => Some (D1 u) | 50 => Some (D2 u) | 51 => Some (D3 u) | 52 => Some (D4 u)
  | 53 => Some (D5 u) | 54 => Some (D6 u) | 55 => Some (D7 u) | 56 => Some (D8 u) | 57 => Some (D9 u)
  | _ => None
  end.

(* all characters must be ASCII digits; the empty string gives [Nil] *)
Fixpoint digits_uint (l : list N) : option Decimal.uint :=
  match l with
  | [] => Some Nil
  | c :: r => match digits_uint r with Some u => digit_cons c u | None => None end
  end.

(* [format!("{}", x)] of a Rust integer / [BigInt::to_string]: no leading zeros, "-" for negatives, "0" *)
Definition print_Z (z : Z) : list N :=
  match Z.to_int z with
  | Decimal.Pos u => uint_digits u
  | Decimal.Neg u => 45 :: uint_digits u
  end.

(* Rust [<iN as FromStr>::from_str] before the range check: optional '+' or '-', then one or more
   ASCII digits (leading zeros allowed; "-0" is 0); anything else is an error. *)
Definition parse_signed (s : list N) : option Z :=
  match s with
  | [] => None
  | 45 :: r => match r with [] => None | _ => option_map (fun u => Z.of_int (Decimal.Neg u)) (digits_uint r) end
  | 43 :: r => match r with [] => None | _ => option_map (fun u => Z.of_int (Decimal.Pos u)) (digits_uint r) end
  | _ => option_map (fun u => Z.of_int (Decimal.Pos u)) (digits_uint s)
  end.

(* [<uN as FromStr>::from_str] before the range check: optional '+', digits; a '-' is an error *)
Definition parse_unsigned (s : list N) : option Z :=
  match s with
  | [] => None
  | 45 :: _ => None
  | _ => parse_signed s
  end.

Definition in_range (lo hi z : Z) : bool := (lo <=? z)%Z && (z <=? hi)%Z.
Definition i128_min : Z := (-170141183460469231731687303715884105728)%Z.
Definition i128_max : Z := 170141183460469231731687303715884105727%Z.
Definition i64_min : Z := (-9223372036854775808)%Z.
Definition i64_max : Z := 9223372036854775807%Z.
Definition u64_max : Z := 18446744073709551615%Z.

Definition parse_i128 (s : list N) : option Z :=
  match parse_signed s with Some z => if in_range i128_min i128_max z then Some z else None | None => None end.
