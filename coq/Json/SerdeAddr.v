(* The external-string parameters of the serde layer instantiated with the CONCRETE models of C11: the bech32 crate
   (Addr/Bech32.v, round trip proved in Addr/Bech32Proofs.v), the address byte forms (Addr/Shelley.v) and the library's
   prefix selection (Addr/Bech32Iface.v default_prefix: "stake" for reward addresses, "addr" otherwise, "_test" for
   network id 0 ONLY - ids 2..15 get the main-network prefix - address.rs:570-601).  With them the address / public-key
   leg of the typed round trip needs no premise: every well-formed address that has a network id, on ANY of the 16
   network ids and of any kind, is in the domain of the address leaf. *)
From CSL Require Import Base.Prelude Addr.Crc32 Addr.Byron Addr.Shelley Addr.ShelleyProofs Addr.Bech32 Addr.Bech32Proofs
  Addr.Bech32Iface Addr.TextProofs.
From CSL Require Codec.Schema Json.Json Json.JsonProofs Json.SerdeSchema Json.SerdeLedger.
Local Open Scope N_scope.

Definition addr_text (b : bytes) : bytes :=
  match Shelley.from_bytes b with
  | Ok a => match to_bech32 Bech32.b32_encode None a with Ok s => s | _ => [] end
  | _ => []
  end.
Definition addr_of_text (s : bytes) : option bytes :=
  match from_bech32 Bech32.b32_decode s with Ok a => Some (Shelley.to_bytes a) | _ => None end.

Definition hrp_pk : list N := [101; 100; 50; 53; 53; 49; 57; 95; 112; 107].          (* "ed25519_pk" *)
Definition vkey_text (b : bytes) : bytes := match Bech32.b32_encode hrp_pk b with Some s => s | None => [] end.
Definition vkey_of_text (s : bytes) : option bytes :=
  match Bech32.b32_decode s with
  | Some (h, d) => if Json.bytes_eqb h hrp_pk then Some d else None
  | None => None
  end.

Definition conc_str (id : N) (b : bytes) : bytes := if id =? SerdeLedger.EXT_VKEY then vkey_text b else addr_text b.
Definition conc_of_str (id : N) (s : bytes) : option bytes :=
  if id =? SerdeLedger.EXT_VKEY then vkey_of_text s else addr_of_text s.

Theorem addr_text_roundtrip a :
  wf_address a -> (exists p, default_prefix a = Ok p) -> addr_of_text (addr_text (Shelley.to_bytes a)) = Some (Shelley.to_bytes a).
Proof.
  intros Hwf [p Hp]. unfold addr_text, addr_of_text. rewrite (address_roundtrip a Hwf).
  destruct (to_bech32_default_total a p Hp) as [s Hs]. rewrite Hs.
  now rewrite (bech32_roundtrip_concrete None a s Hwf Hs).
Qed.

Theorem vkey_text_roundtrip b : bytes_ok b -> vkey_of_text (vkey_text b) = Some b.
Proof.
  intros Hb. unfold vkey_text, vkey_of_text.
  assert (Hc : exists c, check_hrp hrp_pk = Ok c /\ hrp_lower c hrp_pk = hrp_pk) by (eexists; split; vm_compute; reflexivity).
  destruct Hc as [c [Hc Hl]]. destruct (b32_encode_total hrp_pk b c Hc) as [s Hs]. rewrite Hs.
  destruct (b32_roundtrip hrp_pk b s Hb Hs) as [c' [Hc' Hd]]. rewrite Hd.
  assert (c' = c) by congruence. subst. rewrite Hl. now rewrite JsonProofs.bytes_eqb_refl.
Qed.

(* the address leaf of every annotation: premise-free on all network ids and kinds *)
Theorem address_leaf_in_domain a :
  wf_address a -> (exists p, default_prefix a = Ok p) ->
  SerdeSchema.leaf_wf conc_str conc_of_str (SerdeSchema.LExt SerdeLedger.EXT_ADDRESS) (Schema.VBytes (Shelley.to_bytes a)) = true.
Proof.
  intros Hwf Hp. cbn [SerdeSchema.leaf_wf]. unfold conc_str, conc_of_str.
  change (SerdeLedger.EXT_ADDRESS =? SerdeLedger.EXT_VKEY) with false. cbv iota.
  rewrite (addr_text_roundtrip a Hwf Hp). apply JsonProofs.bytes_eqb_refl.
Qed.
Theorem vkey_leaf_in_domain b :
  bytes_ok b ->
  SerdeSchema.leaf_wf conc_str conc_of_str (SerdeSchema.LExt SerdeLedger.EXT_VKEY) (Schema.VBytes b) = true.
Proof.
  intros Hb. cbn [SerdeSchema.leaf_wf]. unfold conc_str, conc_of_str.
  change (SerdeLedger.EXT_VKEY =? SerdeLedger.EXT_VKEY) with true. cbv iota.
  rewrite (vkey_text_roundtrip b Hb). apply JsonProofs.bytes_eqb_refl.
Qed.

(* every Shelley address kind has a default prefix, whatever its network id *)
Lemma shelley_has_prefix a : (match a with Byron _ => False | _ => True end) -> exists p, default_prefix a = Ok p.
Proof. destruct a; intros H; try contradiction; unfold default_prefix; cbn [network_id bind]; eauto. Qed.
