(* C12 — model of emip3.rs: password-based encryption container
     salt (32) ++ nonce (12) ++ tag (16) ++ ciphertext
   with hex-text inputs and outputs.  kdf / aead_enc / aead_dec are the external primitives of Iface.v. *)
From CSL Require Import Base.Prelude Base.Hex Crypto.Iface.
Local Open Scope N_scope.

(* [true] = repaired code (fixes/C12-emip3-empty-plaintext.patch): decrypt needs at least 60 bytes;
   [false] = code as found: decrypt rejects every input of length <= 60, so the encryption of an empty plaintext is refused *)
Definition fixed_emip3_empty : bool := true.

Definition SALT_SIZE : N := 32.
Definition NONCE_SIZE : N := 12.
Definition TAG_SIZE : N := 16.
Definition METADATA_SIZE : N := 60.

Definition unhex_r (t : text) : result bytes := match unhex t with Some b => Ok b | None => Err end.

Section Emip3.
Variable P : prims.

Definition container (salt nonce tag ct : bytes) : bytes := salt ++ nonce ++ tag ++ ct.

Definition encrypt_with_password (password salt nonce data : text) : result text :=
  let* password := unhex_r password in
  let* salt := unhex_r salt in
  let* nonce := unhex_r nonce in
  let* data := unhex_r data in
  if negb (len salt =? SALT_SIZE) then Err
  else if negb (len nonce =? NONCE_SIZE) then Err
  else if len password =? 0 then Err
  else
    let key := kdf P password salt in
    let '(ct, tag) := aead_enc P key nonce data in
    Ok (hex (container salt nonce tag ct)).

Definition too_short_gen (fx : bool) (n : N) : bool := if fx then n <? METADATA_SIZE else n <=? METADATA_SIZE.

Definition decrypt_with_password_gen (fx : bool) (password data : text) : result text :=
  let* password := unhex_r password in
  let* data := unhex_r data in
  if too_short_gen fx (len data) then Err
  else
    let salt := firstn 32 data in
    let nonce := firstn 12 (skipn 32 data) in
    let tag := firstn 16 (skipn 44 data) in
    let ct := skipn 60 data in
    let key := kdf P password salt in
    match aead_dec P key nonce ct tag with
    | Some p => Ok (hex p)
    | None => Err
    end.
Definition decrypt_with_password := decrypt_with_password_gen fixed_emip3_empty.

End Emip3.
