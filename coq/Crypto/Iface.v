(* C12 — interface to the EXTERNAL cryptographic crates (cryptoxide 0.4 ed25519 / pbkdf2 / chacha20poly1305,
   ed25519-bip32 0.4, bech32 0.7).  None of that code is modelled or proved here: the primitives are the
   fields of a record [prims] (an ordinary value, so every theorem quantifies over it), and what is assumed
   about them is a list of named [law_*] propositions.  A theorem of Props/C12.v names, as explicit
   premises, exactly the laws it uses.  The correspondence run instantiates [prims] by tables of calls made
   to the real crates.  Model definitions only (no proofs in this file). *)
From CSL Require Import Base.Prelude Base.Hex.
From Coq Require Import String Ascii.
Local Open Scope N_scope.

(* text = list of character codes (ASCII / UTF-8 bytes) *)
Definition text := list N.
Fixpoint text_of (s : string) : text :=
  match s with EmptyString => [] | String a r => N_of_ascii a :: text_of r end.

Fixpoint list_eqb (a b : list N) : bool :=
  match a, b with
  | [], [] => true
  | x :: a', y :: b' => (x =? y) && list_eqb a' b'
  | _, _ => false
  end.

Definition len (bs : list N) : N := N.of_nat (List.length bs).
(* a byte string of exactly n bytes *)
Definition wfb (n : N) (bs : bytes) : Prop := len bs = n /\ bytes_ok bs.

Record prims := {
  (* cryptoxide::ed25519 *)
  ed_keypair_pk : bytes -> bytes;                 (* keypair(seed32).1                     seed -> public key *)
  ed_sign       : bytes -> bytes -> bytes;        (* signature(msg, keypair(seed32).0)     seed -> msg -> sig *)
  ed_ext_pub    : bytes -> bytes;                 (* extended_to_public(ext64)             ext -> public key *)
  ed_sign_ext   : bytes -> bytes -> bytes;        (* signature_extended(msg, ext64)        ext -> msg -> sig *)
  ed_verify     : bytes -> bytes -> bytes -> bool;(* verify(msg, pk32, sig64)              pk -> msg -> sig -> ok *)
  (* ed25519-bip32, DerivationScheme::V2 *)
  xprv_public   : bytes -> bytes;                 (* XPrv::public                          xprv96 -> xpub64 *)
  xprv_derive   : bytes -> N -> bytes;            (* XPrv::derive(V2, i) *)
  xpub_derive   : bytes -> N -> option bytes;     (* XPub::derive(V2, i) *)
  xprv_normalize3 : bytes -> bytes;               (* XPrv::normalize_bytes_force3rd *)
  pbkdf2_bip39  : bytes -> bytes -> bytes;        (* PBKDF2-HMAC-SHA512(password, salt = entropy, 4096, 96 bytes) *)
  (* cryptoxide pbkdf2 / chacha20poly1305 as used by EMIP-3 *)
  kdf           : bytes -> bytes -> bytes;        (* PBKDF2-HMAC-SHA512(password, salt, 19162, 32 bytes) *)
  aead_enc      : bytes -> bytes -> bytes -> bytes * bytes;          (* key nonce plaintext -> (ciphertext, tag), aad = [] *)
  aead_dec      : bytes -> bytes -> bytes -> bytes -> option bytes;  (* key nonce ciphertext tag *)
  (* bech32 crate *)
  b32_to_base32   : bytes -> list N;              (* ToBase32: 8 -> 5 bit regrouping *)
  b32_from_base32 : list N -> option bytes;       (* FromBase32: fails on bad padding *)
  b32_encode      : text -> list N -> option text;(* bech32::encode(hrp, u5 data) *)
  b32_decode      : text -> option (text * list N);(* bech32::decode *)
  (* cryptoxide blake2b, 28-byte digest, no key: an UNINTERPRETED function (no law beyond its output size is assumed or needed) *)
  blake2b224      : bytes -> bytes
}.

(* ---- laws (assumptions about the external crates; each is a premise wherever it is used) ---- *)
Section Laws.
Variable P : prims.

(* cryptoxide's Ge::scalarmult_base precondition on the scalar of an extended key: a[31] <= 127 *)
Definition ext_scalar_ok (e : bytes) : bool := nth 31 e 0 <? 128.

(* shapes of the outputs *)
Definition law_shapes : Prop :=
  (forall k, wfb 32 (ed_keypair_pk P k)) /\ (forall k m, wfb 64 (ed_sign P k m)) /\
  (forall e, wfb 32 (ed_ext_pub P e)) /\ (forall e m, wfb 64 (ed_sign_ext P e m)) /\
  (forall k, wfb 96 k -> wfb 64 (xprv_public P k)) /\
  (forall k i, wfb 96 k -> wfb 96 (xprv_derive P k i)) /\
  (forall p i q, wfb 64 p -> xpub_derive P p i = Some q -> wfb 64 q).

Definition law_hash_shape : Prop := forall b, wfb 28 (blake2b224 P b).

(* Ed25519: a signature made with a key verifies under the public key of that key *)
Definition law_sign_normal : Prop :=
  forall k m, wfb 32 k -> ed_verify P (ed_keypair_pk P k) m (ed_sign P k m) = true.
Definition law_sign_extended : Prop :=
  forall e m, wfb 64 e -> ext_scalar_ok e = true -> ed_verify P (ed_ext_pub P e) m (ed_sign_ext P e m) = true.

(* layout of XPrv / XPub: xprv = extended secret (64) ++ chain code (32), xpub = public key (32) ++ chain code (32),
   and XPrv::public keeps the chain code *)
Definition law_xpub_layout : Prop :=
  forall k, wfb 96 k -> xprv_public P k = ed_ext_pub P (firstn 64 k) ++ skipn 64 k.

(* BIP32-Ed25519 V2: soft derivation commutes with taking the public key; hardened derivation needs the private key *)
Definition soft (i : N) : bool := i <? 2147483648.
Definition law_soft_derivation : Prop :=
  forall k i, wfb 96 k -> soft i = true ->
    xpub_derive P (xprv_public P k) i = Some (xprv_public P (xprv_derive P k i)).
Definition law_hard_refused : Prop :=
  forall p i, soft i = false -> xpub_derive P p i = None.

(* the structure check of XPrv::from_bytes_verified (concrete: three bits at each end of the scalar) *)
Definition xprv_bits_ok (k : bytes) : bool :=
  ((nth 31 k 0 / 64) mod 4 =? 1) && (nth 0 k 0 mod 8 =? 0).
Definition law_normalize3 : Prop :=
  forall b, wfb 96 b -> wfb 96 (xprv_normalize3 P b) /\ xprv_bits_ok (xprv_normalize3 P b) = true.
Definition law_pbkdf2_bip39_shape : Prop := forall pw e, wfb 96 (pbkdf2_bip39 P pw e).

(* AEAD (ChaCha20-Poly1305, empty associated data), functional laws:
   - decryption inverts encryption;
   - shapes: the ciphertext is as long as the plaintext, the tag has 16 bytes;
   - authenticity, functional form: decryption accepts (c, t) only if (c, t) is exactly what encryption of the
     returned plaintext produces under the same key and nonce (the tag is a function of key, nonce, ciphertext and
     the plaintext is a function of key, nonce, ciphertext).  This is NOT the computational statement that
     forgeries are infeasible; see Emip3Proofs.v for how far it goes. *)
Definition law_aead_roundtrip : Prop :=
  forall k n p, bytes_ok p -> aead_dec P k n (fst (aead_enc P k n p)) (snd (aead_enc P k n p)) = Some p.
Definition law_aead_shapes : Prop :=
  forall k n p, bytes_ok p ->
    len (fst (aead_enc P k n p)) = len p /\ wfb 16 (snd (aead_enc P k n p)) /\ bytes_ok (fst (aead_enc P k n p)).
Definition law_aead_authentic : Prop :=
  forall k n c t p, aead_dec P k n c t = Some p -> bytes_ok p /\ aead_enc P k n p = (c, t).

(* the plaintext returned by decryption does not depend on the tag offered (stream cipher: plaintext = ciphertext xor keystream) *)
Definition law_aead_plain_by_ct : Prop :=
  forall k n c t t' p p', aead_dec P k n c t = Some p -> aead_dec P k n c t' = Some p' -> p = p'.

(* bech32 crate: 8 <-> 5 bit regrouping round-trips; encode succeeds for a well-formed lower-case HRP and decode
   inverts it, returning the same HRP *)
Definition hrp_char_ok (c : N) : bool := (33 <=? c) && (c <=? 126) && negb ((65 <=? c) && (c <=? 90)).
(* bech32 check_hrp: 1..83 characters, printable ASCII, and (our HRPs) no upper-case letter, so that decode returns it unchanged *)
Definition hrp_valid (h : text) : bool := negb (list_eqb h []) && (List.length h <=? 83)%nat && forallb hrp_char_ok h.
Definition law_base32_roundtrip : Prop :=
  forall bs, bytes_ok bs -> b32_from_base32 P (b32_to_base32 P bs) = Some bs.
Definition law_bech32_roundtrip : Prop :=
  forall h bs, hrp_valid h = true -> bytes_ok bs ->
    exists s, b32_encode P h (b32_to_base32 P bs) = Some s /\ b32_decode P s = Some (h, b32_to_base32 P bs).

End Laws.

(* human-readable parts *)
Definition hrp_ed25519_sk  : text := Eval compute in text_of "ed25519_sk".
Definition hrp_ed25519e_sk : text := Eval compute in text_of "ed25519e_sk".
Definition hrp_ed25519_pk  : text := Eval compute in text_of "ed25519_pk".
Definition hrp_ed25519_sig : text := Eval compute in text_of "ed25519_sig".
Definition hrp_xprv        : text := Eval compute in text_of "xprv".
Definition hrp_xpub        : text := Eval compute in text_of "xpub".
Definition hrp_legacy_xprv : text := Eval compute in text_of "legacy_xprv".
