(* C12 — the serialized form of the witnesses made by the helpers: Vkeywitness::to_bytes / BootstrapWitness::to_bytes written with
   the C01 schemas (Ledger/Schemas.v Vkeywitness = [vkey: bytes 32, signature: bytes 64], BootstrapWitness = [vkey, signature,
   chain_code: bytes, attributes: bytes]) and the generic schema encoder of Codec/Schema.v.  Model definitions only. *)
From CSL Require Import Base.Prelude Cbor.Head Crypto.Iface Crypto.Wrappers.
From CSL Require Codec.Schema Ledger.Schemas.

Definition vkeywitness_val (w : vkeywitness) : Schema.val :=
  Schema.VList [Schema.VBytes (vw_vkey w); Schema.VBytes (vw_sig w)].
Definition vkeywitness_to_bytes (w : vkeywitness) : bytes := Schema.enc Schemas.Vkeywitness (vkeywitness_val w).

Definition bootstrapwitness_val (w : bootstrapwitness) : Schema.val :=
  Schema.VList [Schema.VBytes (bw_vkey w); Schema.VBytes (bw_sig w); Schema.VBytes (bw_cc w); Schema.VBytes (bw_attrs w)].
Definition bootstrapwitness_to_bytes (w : bootstrapwitness) : bytes := Schema.enc Schemas.BootstrapWitness (bootstrapwitness_val w).
