(* C12 — the serialized witnesses: byte layout, and decoding by the C01 schema decoder gives back the key and the signature, which
   verify for exactly the hash (under the signature laws). *)
From CSL Require Import Base.Prelude Base.Hex Cbor.Head Crypto.Iface Crypto.Wrappers Crypto.WrappersProofs Crypto.WitnessCbor.
From CSL Require Codec.Schema Codec.SchemaProofs Ledger.Schemas.
Local Open Scope N_scope.

Lemma bytes_okb_of b : bytes_ok b -> Schema.bytes_okb b = true.
Proof.
  unfold Schema.bytes_okb, bytes_ok. rewrite Forall_forall. intros H. apply forallb_forall. intros x Hx. specialize (H x Hx). lia.
Qed.

Lemma vkeywitness_wfv w : wfb 32 (vw_vkey w) -> wfb 64 (vw_sig w) -> Schema.wfv Schemas.Vkeywitness (vkeywitness_val w) = true.
Proof.
  intros [L1 B1] [L2 B2]. unfold len in L1, L2. cbn. rewrite (bytes_okb_of _ B1), (bytes_okb_of _ B2), L1, L2. reflexivity.
Qed.

Lemma vkeywitness_layout w : wfb 32 (vw_vkey w) -> wfb 64 (vw_sig w) ->
  vkeywitness_to_bytes w = [130; 88; 32] ++ vw_vkey w ++ [88; 64] ++ vw_sig w.
Proof.
  intros [L1 _] [L2 _]. unfold len in L1, L2. unfold vkeywitness_to_bytes, vkeywitness_val. cbn. rewrite L1, L2.
  cbn. rewrite app_nil_r. reflexivity.
Qed.

Theorem vkeywitness_decodes w rest : wfb 32 (vw_vkey w) -> wfb 64 (vw_sig w) ->
  Schema.dec Schemas.Vkeywitness (vkeywitness_to_bytes w ++ rest) = Ok (vkeywitness_val w, rest).
Proof.
  intros H1 H2. apply SchemaProofs.schema_roundtrip; [vm_compute; reflexivity|apply vkeywitness_wfv; assumption].
Qed.

Lemma bootstrapwitness_wfv w : wfb 32 (bw_vkey w) -> wfb 64 (bw_sig w) -> bytes_ok (bw_cc w) -> bytes_ok (bw_attrs w) ->
  len (bw_cc w) < two64 -> len (bw_attrs w) < two64 ->
  Schema.wfv Schemas.BootstrapWitness (bootstrapwitness_val w) = true.
Proof.
  intros [L1 B1] [L2 B2] B3 B4 L3 L4. unfold len in *. cbn.
  rewrite (bytes_okb_of _ B1), (bytes_okb_of _ B2), (bytes_okb_of _ B3), (bytes_okb_of _ B4), L1, L2. cbn.
  unfold two64 in *. lia.
Qed.

Lemma bootstrapwitness_layout w : wfb 32 (bw_vkey w) -> wfb 64 (bw_sig w) ->
  bootstrapwitness_to_bytes w =
  [132; 88; 32] ++ bw_vkey w ++ [88; 64] ++ bw_sig w ++ encode_head 2 (len (bw_cc w)) ++ bw_cc w ++ encode_head 2 (len (bw_attrs w)) ++ bw_attrs w.
Proof.
  intros [L1 _] [L2 _]. unfold len in *. unfold bootstrapwitness_to_bytes, bootstrapwitness_val. cbn. rewrite L1, L2.
  cbn. rewrite app_nil_r. rewrite <- !app_assoc. reflexivity.
Qed.

Theorem bootstrapwitness_decodes w rest : wfb 32 (bw_vkey w) -> wfb 64 (bw_sig w) -> bytes_ok (bw_cc w) -> bytes_ok (bw_attrs w) ->
  len (bw_cc w) < two64 -> len (bw_attrs w) < two64 ->
  Schema.dec Schemas.BootstrapWitness (bootstrapwitness_to_bytes w ++ rest) = Ok (bootstrapwitness_val w, rest).
Proof.
  intros. apply SchemaProofs.schema_roundtrip; [vm_compute; reflexivity|apply bootstrapwitness_wfv; assumption].
Qed.

Section WitnessBytes.
Variable P : prims.

Lemma sk_wfb k m : law_shapes P -> wfb 32 (sk_to_public P k) /\ wfb 64 (sk_sign P k m).
Proof. intros (A & B & C & D & _). destruct k; cbn; split; auto. Qed.

(* the serialized vkey witness: [vkey, signature] with the public key of the signing key and the signature over exactly the hash;
   the C01 decoder reads these two values back and they verify *)
Theorem vkey_witness_bytes h sk rest : law_sign_normal P -> law_sign_extended P -> law_shapes P -> sk_signable sk ->
  let b := vkeywitness_to_bytes (make_vkey_witness P h sk) in
  b = [130; 88; 32] ++ sk_to_public P sk ++ [88; 64] ++ sk_sign P sk h /\
  Schema.dec Schemas.Vkeywitness (b ++ rest) =
    Ok (Schema.VList [Schema.VBytes (sk_to_public P sk); Schema.VBytes (sk_sign P sk h)], rest) /\
  pk_verify P (sk_to_public P sk) h (sk_sign P sk h) = true.
Proof.
  intros LN LE LS S. destruct (sk_wfb sk h LS) as [W1 W2]. cbn zeta. split; [|split].
  - apply (vkeywitness_layout (make_vkey_witness P h sk)); assumption.
  - apply (vkeywitness_decodes (make_vkey_witness P h sk)); assumption.
  - apply sk_sign_verifies; assumption.
Qed.

(* the serialized Icarus bootstrap witness: [vkey, signature, chain_code, attributes] *)
Theorem icarus_witness_bytes h attrs k rest : law_sign_extended P -> law_shapes P -> law_xpub_layout P ->
  xprv_valid k -> bytes_ok attrs -> len attrs < two64 ->
  let w := make_icarus_bootstrap_witness P h attrs k in
  let b := bootstrapwitness_to_bytes w in
  b = [132; 88; 32] ++ ed_ext_pub P (firstn 64 k) ++ [88; 64] ++ ed_sign_ext P (firstn 64 k) h ++
      [88; 32] ++ skipn 64 k ++ encode_head 2 (len attrs) ++ attrs /\
  Schema.dec Schemas.BootstrapWitness (b ++ rest) = Ok (bootstrapwitness_val w, rest) /\
  pk_verify P (bw_vkey w) h (bw_sig w) = true.
Proof.
  intros LE LS LL V Ba La. cbn zeta.
  destruct (icarus_witness_signs_hash P h attrs k LE LS LL V) as (_ & Hv & _ & Lc & _). cbn zeta in *.
  set (w := make_icarus_bootstrap_witness P h attrs k) in *.
  destruct (sk_wfb (xprv_to_raw_key k) h LS) as [W1 W2].
  assert (Bc : bytes_ok (bw_cc w)) by (apply bytes_ok_skipn; exact (wfb_ok _ _ (proj1 V))).
  split; [|split; [|exact Hv]].
  - rewrite (bootstrapwitness_layout w W1 W2). rewrite Lc. reflexivity.
  - apply bootstrapwitness_decodes; try assumption. rewrite Lc. reflexivity.
Qed.

End WitnessBytes.
