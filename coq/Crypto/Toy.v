(* C12 — the laws of Iface.v are jointly satisfiable: a (cryptographically worthless) instance of the primitives that obeys
   every one of them.  Used only as the non-vacuity witness for the premises of the C12 theorems. *)
From CSL Require Import Base.Prelude Base.Hex Crypto.Iface Crypto.Wrappers Crypto.WrappersProofs.
Local Open Scope N_scope.

Definition norm (n : nat) (b : bytes) : bytes := firstn n (map (fun x => x mod 256) b ++ repeat 0 n).
Definition bytes_okb (b : bytes) : bool := forallb (fun x => x <? 256) b.
Definition toy_root : bytes := repeat 0 31 ++ [64] ++ repeat 0 64.

Definition toy : prims :=
  {| ed_keypair_pk := norm 32; ed_sign := fun _ _ => norm 64 []; ed_ext_pub := norm 32; ed_sign_ext := fun _ _ => norm 64 [];
     ed_verify := fun _ _ _ => true;
     xprv_public := fun k => norm 32 (firstn 64 k) ++ skipn 64 k;
     xprv_derive := fun k _ => k;
     xpub_derive := fun p i => if soft i then Some p else None;
     xprv_normalize3 := fun _ => toy_root;
     pbkdf2_bip39 := fun _ _ => repeat 0 96;
     kdf := fun _ _ => [];
     aead_enc := fun _ _ p => (p, repeat 0 16);
     aead_dec := fun _ _ c t => if list_eqb t (repeat 0 16) && bytes_okb c then Some c else None;
     b32_to_base32 := fun b => b;
     b32_from_base32 := fun d => Some d;
     b32_encode := fun h d => Some (len h :: h ++ d);
     b32_decode := fun s => match s with [] => None | n :: r => Some (firstn (N.to_nat n) r, skipn (N.to_nat n) r) end;
     blake2b224 := fun _ => repeat 0 28 |}.

Lemma bytes_ok_repeat0 n : bytes_ok (repeat 0 n).
Proof. induction n; constructor; [lia|assumption]. Qed.

Lemma wfb_norm n b : wfb (N.of_nat n) (norm n b).
Proof.
  unfold norm, wfb, len. split.
  - rewrite firstn_length, app_length, repeat_length. lia.
  - apply bytes_ok_firstn, bytes_ok_app; [|apply bytes_ok_repeat0].
    unfold bytes_ok. apply Forall_forall. intros x Hx. apply in_map_iff in Hx as (y & <- & _). apply N.mod_lt. lia.
Qed.

Lemma bytes_okb_iff b : bytes_okb b = true <-> bytes_ok b.
Proof.
  unfold bytes_okb, bytes_ok. rewrite forallb_forall, Forall_forall. split; intros H x Hx; specialize (H x Hx); lia.
Qed.

Lemma W32 b : wfb 32 (norm 32 b). Proof. apply (wfb_norm 32). Qed.
Lemma W64 b : wfb 64 (norm 64 b). Proof. apply (wfb_norm 64). Qed.
Lemma WP k : wfb 96 k -> wfb 64 (norm 32 (firstn 64 k) ++ skipn 64 k).
Proof. intros Hk. replace 64 with (32 + (96 - N.of_nat 64)) by reflexivity. apply wfb_app; [apply W32|apply wfb_skipn; exact Hk]. Qed.

Lemma toy_shapes : law_shapes toy.
Proof.
  unfold law_shapes; cbn [toy ed_keypair_pk ed_sign ed_ext_pub ed_sign_ext xprv_public xprv_derive xpub_derive].
  repeat split; intros; try apply W32; try apply W64; try (apply WP; assumption); try apply H.
  all: destruct (soft i); [|discriminate]; injection H0 as <-; apply H.
Qed.

Lemma toy_sign_normal : law_sign_normal toy. Proof. intros k m _. reflexivity. Qed.
Lemma toy_sign_extended : law_sign_extended toy. Proof. intros k m _ _. reflexivity. Qed.
Lemma toy_xpub_layout : law_xpub_layout toy. Proof. intros k _. reflexivity. Qed.
Lemma toy_soft : law_soft_derivation toy.
Proof. intros k i _ H. cbn [toy xpub_derive xprv_public xprv_derive]. rewrite H. reflexivity. Qed.
Lemma toy_hard : law_hard_refused toy.
Proof. intros p i H. cbn [toy xpub_derive]. rewrite H. reflexivity. Qed.
Lemma toy_root_ok : wfb 96 toy_root /\ xprv_bits_ok toy_root = true.
Proof.
  split; [split; [reflexivity|]|vm_compute; reflexivity].
  unfold toy_root. repeat apply bytes_ok_app; try apply bytes_ok_repeat0. constructor; [lia|constructor].
Qed.
Lemma toy_normalize3 : law_normalize3 toy. Proof. intros b _. exact toy_root_ok. Qed.
Lemma toy_pbkdf2 : law_pbkdf2_bip39_shape toy.
Proof. intros pw e. split; [reflexivity|apply bytes_ok_repeat0]. Qed.
Lemma toy_aead_roundtrip : law_aead_roundtrip toy.
Proof.
  intros k n p Hp. cbn [toy aead_enc aead_dec fst snd]. rewrite list_eqb_refl. cbn [andb].
  rewrite (proj2 (bytes_okb_iff p) Hp). reflexivity.
Qed.
Lemma toy_aead_shapes : law_aead_shapes toy.
Proof.
  intros k n p Hp. cbn [toy aead_enc fst snd]. repeat split; [|exact Hp]. apply bytes_ok_repeat0.
Qed.
Lemma toy_aead_authentic : law_aead_authentic toy.
Proof.
  intros k n c t p. cbn [toy aead_enc aead_dec]. destruct (list_eqb t (repeat 0 16) && bytes_okb c) eqn:E; [|discriminate].
  intros [= <-]. apply andb_true_iff in E as [E1 E2]. apply list_eqb_eq in E1. apply bytes_okb_iff in E2. subst t. auto.
Qed.
Lemma toy_plain_by_ct : law_aead_plain_by_ct toy.
Proof.
  intros k n c t t' p p'. cbn [toy aead_dec].
  destruct (list_eqb t (repeat 0 16) && bytes_okb c); [|discriminate].
  destruct (list_eqb t' (repeat 0 16) && bytes_okb c); [|discriminate]. congruence.
Qed.
Lemma toy_base32 : law_base32_roundtrip toy. Proof. intros bs _. reflexivity. Qed.
Lemma toy_bech32 : law_bech32_roundtrip toy.
Proof.
  intros h bs _ _. cbn [toy b32_encode b32_decode b32_to_base32]. eexists. split; [reflexivity|].
  unfold len. rewrite Nat2N.id. rewrite firstn_app_exact, skipn_app_exact by reflexivity. reflexivity.
Qed.

Theorem toy_laws :
  law_shapes toy /\ law_sign_normal toy /\ law_sign_extended toy /\ law_xpub_layout toy /\ law_soft_derivation toy /\
  law_hard_refused toy /\ law_normalize3 toy /\ law_pbkdf2_bip39_shape toy /\
  law_aead_roundtrip toy /\ law_aead_shapes toy /\ law_aead_authentic toy /\ law_aead_plain_by_ct toy /\
  law_base32_roundtrip toy /\ law_bech32_roundtrip toy.
Proof.
  exact (conj toy_shapes (conj toy_sign_normal (conj toy_sign_extended (conj toy_xpub_layout (conj toy_soft
        (conj toy_hard (conj toy_normalize3 (conj toy_pbkdf2 (conj toy_aead_roundtrip (conj toy_aead_shapes
        (conj toy_aead_authentic (conj toy_plain_by_ct (conj toy_base32 toy_bech32))))))))))))).
Qed.

Lemma toy_hash_shape : law_hash_shape toy.
Proof. intros b. split; [reflexivity|apply bytes_ok_repeat0]. Qed.
