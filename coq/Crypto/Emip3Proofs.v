(* C12 — theorems about the EMIP-3 container (Emip3.v) under the functional AEAD laws of Iface.v.
   What is proved: the container is assembled and cut at the same offsets, the length checks admit exactly the valid
   parameter lengths, decryption inverts encryption, and decryption accepts ONLY byte-exact outputs of encryption.
   What is not (and cannot be) proved: that a forger cannot produce such an output; see [emip3_rejects_non_images]. *)
From CSL Require Import Base.Prelude Base.Hex Crypto.Iface Crypto.Wrappers Crypto.WrappersProofs Crypto.Emip3.
Local Open Scope N_scope.

Lemma unhexc_lt c n : unhexc c = Some n -> n < 16.
Proof.
  unfold unhexc. destruct ((48 <=? c) && (c <=? 57)) eqn:E1; [intros [= <-]; lia|].
  destruct ((97 <=? c) && (c <=? 102)) eqn:E2; [intros [= <-]; lia|].
  destruct ((65 <=? c) && (c <=? 70)) eqn:E3; [intros [= <-]; lia|discriminate].
Qed.

Lemma unhex_bytes_ok_n n : forall cs bs, (List.length cs <= n)%nat -> unhex cs = Some bs -> bytes_ok bs.
Proof.
  induction n as [|n IH]; intros cs bs Hl H.
  - destruct cs; [|cbn in Hl; lia]. injection H as <-. constructor.
  - destruct cs as [|h [|l r]]; [injection H as <-; constructor|discriminate|].
    cbn [unhex] in H. destruct (unhexc h) as [a|] eqn:Ea; [|discriminate].
    destruct (unhexc l) as [b|] eqn:Eb; [|discriminate]. destruct (unhex r) as [t|] eqn:Et; [|discriminate].
    injection H as <-. constructor.
    + apply unhexc_lt in Ea, Eb. lia.
    + apply (IH r t); [cbn in Hl; lia|exact Et].
Qed.

Lemma unhex_bytes_ok cs bs : unhex cs = Some bs -> bytes_ok bs.
Proof. apply (unhex_bytes_ok_n (List.length cs)). lia. Qed.

Lemma skipn_skipn {A} a b (l : list A) : skipn a (skipn b l) = skipn (b + a) l.
Proof. revert l; induction b; intros l; [reflexivity|]. destruct l; cbn [skipn Nat.add]; [apply skipn_nil|apply IHb]. Qed.

Lemma split_container (c : bytes) :
  c = container (firstn 32 c) (firstn 12 (skipn 32 c)) (firstn 16 (skipn 44 c)) (skipn 60 c).
Proof.
  unfold container.
  rewrite <- (firstn_skipn 32 c) at 1. f_equal.
  rewrite <- (firstn_skipn 12 (skipn 32 c)) at 1. f_equal. rewrite skipn_skipn. cbn [Nat.add].
  rewrite <- (firstn_skipn 16 (skipn 44 c)) at 1. f_equal. rewrite skipn_skipn. reflexivity.
Qed.

Lemma cut_container salt nonce tag ct : len salt = 32 -> len nonce = 12 -> len tag = 16 ->
  let c := container salt nonce tag ct in
  firstn 32 c = salt /\ firstn 12 (skipn 32 c) = nonce /\ firstn 16 (skipn 44 c) = tag /\ skipn 60 c = ct /\ len c = 60 + len ct.
Proof.
  unfold len, container. intros H1 H2 H3. cbn zeta.
  assert (A : skipn 32 (salt ++ nonce ++ tag ++ ct) = nonce ++ tag ++ ct) by (apply skipn_app_exact; lia).
  assert (B : skipn 44 (salt ++ nonce ++ tag ++ ct) = tag ++ ct).
  { replace 44%nat with (32 + 12)%nat by reflexivity. rewrite <- skipn_skipn, A. apply skipn_app_exact; lia. }
  assert (C : skipn 60 (salt ++ nonce ++ tag ++ ct) = ct).
  { replace 60%nat with (44 + 16)%nat by reflexivity. rewrite <- skipn_skipn, B. apply skipn_app_exact; lia. }
  rewrite A, B, C. repeat split.
  - apply firstn_app_exact; lia.
  - apply firstn_app_exact; lia.
  - apply firstn_app_exact; lia.
  - rewrite !app_length. lia.
Qed.

Section Proofs.
Variable P : prims.

(* parameters accepted by encryption: any hex texts decoding to a 32-byte salt, a 12-byte nonce, a non-empty password *)
Definition emip3_params (tp ts tn td : text) (pw salt nonce data : bytes) : Prop :=
  unhex tp = Some pw /\ unhex ts = Some salt /\ unhex tn = Some nonce /\ unhex td = Some data /\
  len salt = 32 /\ len nonce = 12 /\ len pw <> 0.

Lemma encrypt_shape tp ts tn td pw salt nonce data : law_aead_shapes P ->
  emip3_params tp ts tn td pw salt nonce data ->
  let key := kdf P pw salt in
  let ct := fst (aead_enc P key nonce data) in let tag := snd (aead_enc P key nonce data) in
  encrypt_with_password P tp ts tn td = Ok (hex (container salt nonce tag ct)) /\
  bytes_ok (container salt nonce tag ct) /\ len tag = 16 /\ len ct = len data.
Proof.
  intros LS (Hp & Hs & Hn & Hd & Ls & Ln & Lp). cbn zeta.
  destruct (LS (kdf P pw salt) nonce data (unhex_bytes_ok _ _ Hd)) as (Lc & [Lt Bt] & Bc).
  unfold encrypt_with_password, unhex_r. rewrite Hp, Hs, Hn, Hd. cbn [bind].
  rewrite Ls, Ln. cbn [N.eqb negb]. rewrite !N.eqb_refl. cbn [negb].
  apply N.eqb_neq in Lp. rewrite Lp.
  destruct (aead_enc P (kdf P pw salt) nonce data) as [ct tag]. cbn [fst snd] in *.
  repeat split; auto. unfold container.
  repeat apply bytes_ok_app; eauto using unhex_bytes_ok.
Qed.

(* decryption returns the plaintext that was encrypted, for every valid parameter combination; the code as found needs a
   non-empty plaintext *)
Theorem emip3_roundtrip fx tp ts tn td pw salt nonce data :
  law_aead_roundtrip P -> law_aead_shapes P ->
  emip3_params tp ts tn td pw salt nonce data -> (fx = true \/ data <> []) ->
  exists c, encrypt_with_password P tp ts tn td = Ok c /\ decrypt_with_password_gen P fx tp c = Ok (hex data).
Proof.
  intros LR LS Hpar Hne. destruct (encrypt_shape _ _ _ _ _ _ _ _ LS Hpar) as (E & Bc & Lt & Lc).
  destruct Hpar as (Hp & Hs & Hn & Hd & Ls & Ln & Lp).
  eexists. split; [exact E|].
  unfold decrypt_with_password_gen, unhex_r. rewrite Hp, (unhex_hex _ Bc). cbn [bind].
  destruct (cut_container salt nonce _ (fst (aead_enc P (kdf P pw salt) nonce data)) Ls Ln Lt) as (C1 & C2 & C3 & C4 & C5).
  rewrite C1, C2, C3, C4, C5, Lc.
  assert (S : too_short_gen fx (60 + len data) = false).
  { unfold too_short_gen, METADATA_SIZE. destruct fx; [apply N.ltb_ge; lia|]. apply N.leb_gt.
    destruct Hne as [|Hne]; [discriminate|]. destruct data; [contradiction|]. unfold len. cbn [List.length]. lia. }
  rewrite S, (LR _ _ _ (unhex_bytes_ok _ _ Hd)). reflexivity.
Qed.

(* code as found: the encryption of the empty plaintext (a container of exactly 60 bytes) is refused *)
Theorem emip3_empty_plaintext_unfixed_refuted tp ts tn pw salt nonce :
  law_aead_shapes P -> emip3_params tp ts tn [] pw salt nonce [] ->
  exists c, encrypt_with_password P tp ts tn [] = Ok c /\ decrypt_with_password_gen P false tp c = Err.
Proof.
  intros LS Hpar. destruct (encrypt_shape _ _ _ _ _ _ _ _ LS Hpar) as (E & Bc & Lt & Lc).
  destruct Hpar as (Hp & Hs & Hn & Hd & Ls & Ln & Lp).
  eexists. split; [exact E|].
  unfold decrypt_with_password_gen, unhex_r. rewrite Hp, (unhex_hex _ Bc). cbn [bind].
  destruct (cut_container salt nonce _ (fst (aead_enc P (kdf P pw salt) nonce [])) Ls Ln Lt) as (_ & _ & _ & _ & C5).
  rewrite C5, Lc. reflexivity.
Qed.

(* decryption accepts ONLY byte-exact outputs of encryption: an accepted container is what encrypt_with_password returns for
   the returned plaintext with the salt and nonce the container carries *)
Theorem emip3_accepts_only_images fx tp tc r : law_aead_authentic P ->
  decrypt_with_password_gen P fx tp tc = Ok r ->
  exists pw c p, unhex tp = Some pw /\ unhex tc = Some c /\ r = hex p /\ bytes_ok p /\ 60 <= len c /\
    aead_enc P (kdf P pw (firstn 32 c)) (firstn 12 (skipn 32 c)) p = (skipn 60 c, firstn 16 (skipn 44 c)) /\
    (len pw <> 0 -> encrypt_with_password P tp (hex (firstn 32 c)) (hex (firstn 12 (skipn 32 c))) (hex p) = Ok (hex c)).
Proof.
  intros LA. unfold decrypt_with_password_gen, unhex_r.
  destruct (unhex tp) as [pw|] eqn:Hp; [|discriminate]. destruct (unhex tc) as [c|] eqn:Hc; [|discriminate]. cbn [bind].
  destruct (too_short_gen fx (len c)) eqn:S; [discriminate|].
  destruct (aead_dec P _ _ _ _) as [p|] eqn:D; [|discriminate]. intros [= <-].
  destruct (LA _ _ _ _ _ D) as [Bp E].
  assert (L60 : 60 <= len c).
  { unfold too_short_gen, METADATA_SIZE in S. destruct fx; [apply N.ltb_ge in S|apply N.leb_gt in S]; lia. }
  exists pw, c, p. repeat split; auto.
  intros Lp. pose proof (unhex_bytes_ok _ _ Hc) as Bc.
  assert (Ls : len (firstn 32 c) = 32) by (apply (len_firstn 32); unfold len in L60; lia).
  assert (Ln : len (firstn 12 (skipn 32 c)) = 12).
  { apply (len_firstn 12). rewrite skipn_length. unfold len in L60. lia. }
  unfold encrypt_with_password, unhex_r. rewrite Hp.
  rewrite !unhex_hex by (try exact Bp; try apply bytes_ok_firstn; try apply bytes_ok_skipn; exact Bc).
  cbn [bind]. rewrite Ls, Ln. cbn [N.eqb negb]. rewrite !N.eqb_refl. cbn [negb].
  apply N.eqb_neq in Lp. rewrite Lp, E. rewrite <- split_container. reflexivity.
Qed.

(* consequently: a container that is NOT the AEAD encryption of any plaintext under the key derived from the offered
   password and the salt it carries is rejected.  The premise is where cryptography enters: for a container obtained by
   changing the salt, nonce, ciphertext or password of a genuine one it says "the change did not happen to produce a second
   complete valid encryption", which is the (computational) unforgeability of ChaCha20-Poly1305 / collision resistance of
   PBKDF2, not a mathematical truth; it is a premise about the given instance only *)
Theorem emip3_rejects_non_images fx tp tc pw c : law_aead_authentic P ->
  unhex tp = Some pw -> unhex tc = Some c ->
  (forall p, aead_enc P (kdf P pw (firstn 32 c)) (firstn 12 (skipn 32 c)) p <> (skipn 60 c, firstn 16 (skipn 44 c))) ->
  decrypt_with_password_gen P fx tp tc = Err.
Proof.
  intros LA Hp Hc Hno. destruct (decrypt_with_password_gen P fx tp tc) eqn:D; try reflexivity.
  - destruct (emip3_accepts_only_images _ _ _ _ LA D) as (pw' & c' & p & Hp' & Hc' & _ & _ & _ & E & _).
    rewrite Hp in Hp'. rewrite Hc in Hc'. injection Hp' as <-. injection Hc' as <-. exfalso. exact (Hno p E).
  - exfalso. revert D. unfold decrypt_with_password_gen, unhex_r. rewrite Hp, Hc. cbn [bind].
    destruct (too_short_gen _ _); [discriminate|]. destruct (aead_dec _ _ _ _ _); discriminate.
  - exfalso. revert D. unfold decrypt_with_password_gen, unhex_r. rewrite Hp, Hc. cbn [bind].
    destruct (too_short_gen _ _); [discriminate|]. destruct (aead_dec _ _ _ _ _); discriminate.
Qed.

(* no cryptographic premise is needed for a modified TAG: the same salt, nonce and ciphertext under the same password with
   any other 16-byte tag is rejected *)
Theorem emip3_rejects_modified_tag fx tp ts tn td pw salt nonce data tag' :
  law_aead_roundtrip P -> law_aead_shapes P -> law_aead_authentic P -> law_aead_plain_by_ct P ->
  emip3_params tp ts tn td pw salt nonce data ->
  let key := kdf P pw salt in
  let ct := fst (aead_enc P key nonce data) in let tag := snd (aead_enc P key nonce data) in
  wfb 16 tag' -> tag' <> tag ->
  decrypt_with_password_gen P fx tp (hex (container salt nonce tag' ct)) = Err.
Proof.
  intros LR LS LA LP Hpar. cbn zeta. intros [Lt' Bt'] Hne.
  destruct (encrypt_shape _ _ _ _ _ _ _ _ LS Hpar) as (_ & Bc & Lt & Lc).
  destruct Hpar as (Hp & Hs & Hn & Hd & Ls & Ln & Lp).
  set (key := kdf P pw salt) in *. set (ct := fst (aead_enc P key nonce data)) in *.
  assert (Bc' : bytes_ok (container salt nonce tag' ct)).
  { unfold container in *. unfold bytes_ok in *. rewrite !Forall_app in *. tauto. }
  destruct (cut_container salt nonce tag' ct Ls Ln Lt') as (C1 & C2 & C3 & C4 & C5).
  unfold decrypt_with_password_gen, unhex_r. rewrite Hp, (unhex_hex _ Bc'). cbn [bind].
  rewrite C1, C2, C3, C4. fold key. destruct (too_short_gen fx _); [reflexivity|].
  destruct (aead_dec P key nonce ct tag') as [p|] eqn:D1; [exfalso|reflexivity].
  pose proof (LR key nonce data (unhex_bytes_ok _ _ Hd)) as D0. fold ct in D0.
  pose proof (LP _ _ _ _ _ _ _ D0 D1) as <-.
  destruct (LA _ _ _ _ _ D1) as [_ E]. apply Hne. rewrite E. reflexivity.
Qed.

End Proofs.

(* decryption looks at the password only through the key derived from it and the carried salt: two passwords deriving the same
   key give the same result.  PBKDF2-HMAC has such pairs by construction (HMAC zero-pads its key to the block size, so P and
   P ++ [0] derive the same key; a password longer than 128 bytes is equivalent to its SHA-512 digest): for them "another password"
   is accepted, and the per-instance premise of [emip3_rejects_non_images] is false.  This is a property of the external KDF. *)
Theorem emip3_depends_on_key_only (P : prims) fx tp tp' tc pw pw' c :
  unhex tp = Some pw -> unhex tp' = Some pw' -> unhex tc = Some c ->
  kdf P pw (firstn 32 c) = kdf P pw' (firstn 32 c) ->
  decrypt_with_password_gen P fx tp tc = decrypt_with_password_gen P fx tp' tc.
Proof.
  intros H1 H2 H3 K. unfold decrypt_with_password_gen, unhex_r. rewrite H1, H2, H3. cbn [bind]. rewrite K. reflexivity.
Qed.
