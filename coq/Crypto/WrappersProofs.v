(* C12 — theorems about the wrapper layer (Wrappers.v) under explicit laws of the external crates (Iface.v). *)
From CSL Require Import Base.Prelude Base.Hex Cbor.Head Crypto.Iface Crypto.Wrappers.
Local Open Scope N_scope.

(* ---------- small list facts ---------- *)
Lemma list_eqb_refl a : list_eqb a a = true.
Proof. induction a; cbn; [reflexivity|]. rewrite N.eqb_refl, IHa. reflexivity. Qed.

Lemma list_eqb_eq a b : list_eqb a b = true <-> a = b.
Proof.
  split; [|intros ->; apply list_eqb_refl].
  revert b; induction a as [|x a IH]; destruct b as [|y b]; cbn; try discriminate; auto.
  intros H. apply andb_true_iff in H as [H1 H2]. apply N.eqb_eq in H1. f_equal; auto.
Qed.

Lemma list_eqb_neq a b : a <> b -> list_eqb a b = false.
Proof. intros H. destruct (list_eqb a b) eqn:E; [|reflexivity]. apply list_eqb_eq in E. contradiction. Qed.

Lemma len_app a b : len (a ++ b) = len a + len b.
Proof. unfold len. rewrite app_length. lia. Qed.

Lemma len_firstn k l : (k <= List.length l)%nat -> len (firstn k l) = N.of_nat k.
Proof. intros H. unfold len. rewrite firstn_length. lia. Qed.

Lemma len_skipn k l : len (skipn k l) = len l - N.of_nat k.
Proof. unfold len. rewrite skipn_length. lia. Qed.

Lemma bytes_ok_app a b : bytes_ok a -> bytes_ok b -> bytes_ok (a ++ b).
Proof. unfold bytes_ok. intros. apply Forall_app; auto. Qed.

Lemma In_firstn' {A} k (l : list A) x : In x (firstn k l) -> In x l.
Proof. revert l; induction k; destruct l; cbn; auto; try tauto. intros [H|H]; auto. Qed.

Lemma bytes_ok_firstn k l : bytes_ok l -> bytes_ok (firstn k l).
Proof. unfold bytes_ok. intros H. apply Forall_forall. intros x Hx. rewrite Forall_forall in H. apply H. eapply In_firstn'; eauto. Qed.

Lemma In_skipn {A} k (l : list A) x : In x (skipn k l) -> In x l.
Proof. revert l; induction k; destruct l; cbn; auto. Qed.

Lemma bytes_ok_skipn k l : bytes_ok l -> bytes_ok (skipn k l).
Proof. unfold bytes_ok. intros H. apply Forall_forall. intros x Hx. rewrite Forall_forall in H. apply H. eapply In_skipn; eauto. Qed.

Lemma wfb_len n b : wfb n b -> len b = n.
Proof. intros [H _]; exact H. Qed.
Lemma wfb_ok n b : wfb n b -> bytes_ok b.
Proof. intros [_ H]; exact H. Qed.

Lemma wfb_firstn n k b : wfb n b -> (N.of_nat k <= n) -> wfb (N.of_nat k) (firstn k b).
Proof.
  intros [H1 H2] Hk. split; [|apply bytes_ok_firstn; exact H2].
  apply len_firstn. unfold len in H1. lia.
Qed.

Lemma wfb_first64 k : wfb 96 k -> wfb 64 (firstn 64 k).
Proof. intros H. replace 64 with (N.of_nat 64) by reflexivity. apply (wfb_firstn 96); [exact H|lia]. Qed.

Lemma wfb_skipn n k b : wfb n b -> wfb (n - N.of_nat k) (skipn k b).
Proof. intros [H1 H2]. split; [rewrite len_skipn, H1; reflexivity|apply bytes_ok_skipn; exact H2]. Qed.

Lemma wfb_app n m a b : wfb n a -> wfb m b -> wfb (n + m) (a ++ b).
Proof. intros [A1 A2] [B1 B2]. split; [rewrite len_app; lia|apply bytes_ok_app; auto]. Qed.

Lemma firstn_app_exact {A} (a b : list A) k : List.length a = k -> firstn k (a ++ b) = a.
Proof. intros <-. rewrite firstn_app, Nat.sub_diag, firstn_all. cbn. apply app_nil_r. Qed.

Lemma skipn_app_exact {A} (a b : list A) k : List.length a = k -> skipn k (a ++ b) = b.
Proof. intros <-. rewrite skipn_app, Nat.sub_diag, skipn_all. reflexivity. Qed.

Lemma nth_firstn_lt {A} (l : list A) k i d : (i < k)%nat -> nth i (firstn k l) d = nth i l d.
Proof.
  revert l i; induction k; intros l i H; [lia|].
  destruct l; [destruct i; reflexivity|]. destruct i; cbn; [reflexivity|]. apply IHk. lia.
Qed.

(* the structure check of a BIP32 private key implies cryptoxide's precondition on the scalar *)
Lemma bytes_ok_nth l i : bytes_ok l -> nth i l 0 < 256.
Proof.
  intros H. revert i; induction H as [|x l Hx _ IH]; intros i; destruct i; cbn; try lia. apply IH.
Qed.

Lemma xprv_bits_scalar_ok k : bytes_ok k -> xprv_bits_ok k = true -> ext_scalar_ok (firstn 64 k) = true.
Proof.
  unfold xprv_bits_ok, ext_scalar_ok. intros Hb H. apply andb_true_iff in H as [H _].
  rewrite nth_firstn_lt by lia. apply N.eqb_eq in H. apply N.ltb_lt.
  pose proof (bytes_ok_nth k 31 Hb) as Hlt.
  set (b := nth 31 k 0) in *. clearbody b. lia.
Qed.

Section Proofs.
Variable P : prims.

(* ================= key encodings ================= *)
Definition kt_valid (T : ktype) (bs : bytes) : Prop := kt_from_binary T bs = Ok bs /\ bytes_ok bs.

Lemma kt_from_binary_ok T bs r : kt_from_binary T bs = Ok r -> r = bs /\ len bs = kt_size T /\ kt_check T bs = true.
Proof.
  unfold kt_from_binary. destruct ((len bs =? kt_size T) && kt_check T bs) eqn:E; [|discriminate].
  intros [= <-]. apply andb_true_iff in E as [E1 E2]. apply N.eqb_eq in E1. auto.
Qed.

Lemma kt_hex_roundtrip T bs : kt_valid T bs -> kt_from_hex T (kt_to_hex bs) = Ok bs.
Proof. intros [H Hb]. unfold kt_from_hex, kt_to_hex. rewrite unhex_hex by exact Hb. exact H. Qed.

Lemma kt_bech32_roundtrip T bs :
  law_base32_roundtrip P -> law_bech32_roundtrip P -> hrp_valid (kt_hrp T) = true -> kt_valid T bs ->
  exists s, kt_to_bech32 P T bs = Ok s /\ kt_from_bech32 P T s = Ok bs.
Proof.
  intros L1 L2 Hh [H Hb]. destruct (L2 (kt_hrp T) bs Hh Hb) as (s & E & D).
  exists s. unfold kt_to_bech32, to_bech32_from_bytes, kt_from_bech32, try_from_bech32_to_bytes.
  rewrite E, D, list_eqb_refl, (L1 bs Hb). cbn. auto.
Qed.

(* a text produced by the bech32 encoder under ANOTHER human-readable part is rejected *)
Lemma kt_hrp_checked T h bs s :
  law_bech32_roundtrip P -> hrp_valid h = true -> bytes_ok bs -> h <> kt_hrp T ->
  b32_encode P h (b32_to_base32 P bs) = Some s -> kt_from_bech32 P T s = Err.
Proof.
  intros L2 Hh Hb Hne E. destruct (L2 h bs Hh Hb) as (s' & E' & D). rewrite E in E'. injection E' as <-.
  unfold kt_from_bech32, try_from_bech32_to_bytes. rewrite D, (list_eqb_neq _ _ Hne). reflexivity.
Qed.

(* every HRP of the library is well-formed and they are pairwise different where two are tried in turn *)
Lemma hrps_valid :
  hrp_valid hrp_ed25519_sk = true /\ hrp_valid hrp_ed25519e_sk = true /\ hrp_valid hrp_ed25519_pk = true /\
  hrp_valid hrp_ed25519_sig = true /\ hrp_valid hrp_xprv = true /\ hrp_valid hrp_xpub = true /\
  hrp_valid hrp_legacy_xprv = true.
Proof. repeat split; vm_compute; reflexivity. Qed.

(* PrivateKey: the two-way dispatch of from_hex / from_bech32 returns the same kind of key *)
Definition sk_valid (k : privkey) : Prop := kt_valid (sk_type k) (sk_as_bytes k).

Lemma sk_hex_roundtrip k : sk_valid k -> sk_from_hex (hex (sk_as_bytes k)) = Ok k.
Proof.
  intros [H Hb]. unfold sk_from_hex. rewrite unhex_hex by exact Hb.
  destruct k as [b|b]; cbn [sk_as_bytes sk_type] in *.
  - rewrite H. reflexivity.
  - destruct (kt_from_binary_ok _ _ _ H) as (_ & Hl & _). cbn in Hl.
    unfold kt_from_binary at 1. cbn [kt_size T_sk_normal]. rewrite Hl. cbn. fold T_sk_ext in H. rewrite H. reflexivity.
Qed.

Lemma sk_bech32_roundtrip k :
  law_base32_roundtrip P -> law_bech32_roundtrip P -> sk_valid k ->
  exists s, sk_to_bech32 P k = Ok s /\ sk_from_bech32 P s = Ok k.
Proof.
  intros L1 L2 Hv. pose proof hrps_valid as (Hn & He & _).
  destruct k as [b|b]; unfold sk_to_bech32; cbn [sk_type sk_as_bytes] in *.
  - destruct (kt_bech32_roundtrip T_sk_normal b L1 L2 Hn Hv) as (s & E & D). exists s. split; [exact E|].
    unfold sk_from_bech32. rewrite D.
    unfold kt_to_bech32, to_bech32_from_bytes in E. destruct (b32_encode P (kt_hrp T_sk_normal) (b32_to_base32 P b)) eqn:E0; [|discriminate].
    injection E as ->.
    rewrite (kt_hrp_checked T_sk_ext _ b s L2 Hn (proj2 Hv)); [reflexivity| |exact E0].
    vm_compute. discriminate.
  - destruct (kt_bech32_roundtrip T_sk_ext b L1 L2 He Hv) as (s & E & D). exists s. split; [exact E|].
    unfold sk_from_bech32. rewrite D. reflexivity.
Qed.

(* PrivateKey::from_bech32 rejects every text encoded under a human-readable part other than its two own *)
Lemma sk_hrp_checked h bs s :
  law_bech32_roundtrip P -> hrp_valid h = true -> bytes_ok bs -> h <> hrp_ed25519_sk -> h <> hrp_ed25519e_sk ->
  b32_encode P h (b32_to_base32 P bs) = Some s -> sk_from_bech32 P s = Err.
Proof.
  intros L2 Hh Hb N1 N2 E. unfold sk_from_bech32.
  rewrite (kt_hrp_checked T_sk_ext h bs s L2 Hh Hb N2 E), (kt_hrp_checked T_sk_normal h bs s L2 Hh Hb N1 E). reflexivity.
Qed.

(* ================= 128-byte form ================= *)
Definition xprv_valid (k : bytes) : Prop := wfb 96 k /\ xprv_bits_ok k = true.

Lemma xprv_valid_kt k : xprv_valid k -> kt_valid T_xprv k.
Proof.
  intros [[Hl Hb] Hx]. split; [|exact Hb]. unfold kt_from_binary. cbn [kt_size kt_check T_xprv]. rewrite Hl, Hx. reflexivity.
Qed.

Lemma to_128_layout k : law_shapes P -> law_xpub_layout P -> wfb 96 k ->
  to_128_xprv P k = firstn 64 k ++ ed_ext_pub P (firstn 64 k) ++ skipn 64 k /\ len (to_128_xprv P k) = 128.
Proof.
  intros LS LL Hk. pose proof LS as (_ & _ & Hpub & _).
  unfold to_128_xprv, xprv_to_raw_key, sk_as_bytes, xpub_to_raw_key, xprv_to_public, xprv_chaincode.
  rewrite (LL k Hk). destruct (Hpub (firstn 64 k)) as [Hl _]. unfold len in Hl.
  rewrite firstn_app_exact by lia. split; [reflexivity|].
  rewrite !len_app, len_skipn, (wfb_len _ _ Hk). rewrite len_firstn by (destruct Hk as [H _]; unfold len in H; lia).
  unfold len. lia.
Qed.

Theorem xprv128_roundtrip fx k : law_shapes P -> law_xpub_layout P -> xprv_valid k ->
  from_128_xprv_gen fx (to_128_xprv P k) = Ok k.
Proof.
  intros LS LL Hv. destruct (to_128_layout k LS LL (proj1 Hv)) as [E L]. pose proof LS as (_ & _ & Hpub & _).
  destruct (Hpub (firstn 64 k)) as [Hl _]. destruct Hv as [Hk Hx]. pose proof (wfb_len _ _ Hk) as Hlk. unfold len in Hl, Hlk.
  assert (F64 : List.length (firstn 64 k) = 64%nat) by (rewrite firstn_length; lia).
  assert (R : firstn 64 (to_128_xprv P k) ++ firstn 32 (skipn 96 (to_128_xprv P k)) = k).
  { rewrite E. rewrite firstn_app_exact by exact F64.
    replace (firstn 64 k ++ ed_ext_pub P (firstn 64 k) ++ skipn 64 k)
      with ((firstn 64 k ++ ed_ext_pub P (firstn 64 k)) ++ skipn 64 k) by (rewrite app_assoc; reflexivity).
    rewrite skipn_app_exact by (rewrite app_length; lia).
    rewrite (firstn_all2 (n:=32) (skipn 64 k)) by (rewrite skipn_length; lia). apply firstn_skipn. }
  unfold from_128_xprv_gen. rewrite L. destruct fx; cbn [N.eqb N.ltb]; rewrite ?N.eqb_refl.
  - rewrite R. apply xprv_valid_kt. split; assumption.
  - replace (128 <? 128) with false by reflexivity. rewrite R. apply xprv_valid_kt. split; assumption.
Qed.

(* repaired code: every input that is not exactly 128 bytes long is an error, never a panic *)
Theorem from_128_xprv_length_checked bs : len bs <> 128 -> from_128_xprv_gen true bs = Err.
Proof. intros H. unfold from_128_xprv_gen. apply N.eqb_neq in H. rewrite H. reflexivity. Qed.

Theorem from_128_xprv_never_panics bs : from_128_xprv_gen true bs <> Panic.
Proof.
  unfold from_128_xprv_gen, xprv_from_bytes, kt_from_binary. destruct (len bs =? 128); [|discriminate].
  destruct (_ && _); discriminate.
Qed.

(* what an accepted 128-byte form determines: the secret part and the chain code; the public-key part (bytes 64..96) is not read *)
Theorem from_128_xprv_reads bs k : from_128_xprv_gen true bs = Ok k ->
  len bs = 128 /\ k = firstn 64 bs ++ firstn 32 (skipn 96 bs) /\ xprv_bits_ok k = true.
Proof.
  unfold from_128_xprv_gen. destruct (len bs =? 128) eqn:E; [|discriminate]. apply N.eqb_eq in E.
  intros H. apply kt_from_binary_ok in H as (H1 & _ & H3). subst k. cbn [kt_check T_xprv] in H3. auto.
Qed.

(* code as found: short inputs panic, long inputs are accepted with the tail ignored *)
Theorem from_128_xprv_unfixed_refuted :
  (exists bs, from_128_xprv_gen false bs = Panic) /\
  (exists bs, len bs <> 128 /\ is_ok (from_128_xprv_gen false bs) = true).
Proof.
  split.
  - exists []. reflexivity.
  - exists (repeat 64 129). split; vm_compute; [discriminate|reflexivity].
Qed.

(* ================= derivation ================= *)
Theorem soft_derivation_commutes : law_shapes P -> law_soft_derivation P ->
  forall path k, wfb 96 k -> forallb soft path = true ->
  derive_pub_path P (xprv_to_public P k) path = Ok (xprv_to_public P (derive_prv_path P k path)).
Proof.
  intros LS L. pose proof LS as (_ & _ & _ & _ & _ & Hd & _).
  induction path as [|i r IH]; intros k Hk Hs; cbn [derive_pub_path derive_prv_path]; [reflexivity|].
  cbn in Hs. apply andb_true_iff in Hs as [Hi Hr].
  unfold bip32_derive_pub, xprv_to_public at 1. rewrite (L k i Hk Hi). cbn [bind].
  apply IH; [apply Hd; exact Hk|exact Hr].
Qed.

Theorem hardened_from_public_refused : law_hard_refused P ->
  forall path p, forallb soft path = false -> derive_pub_path P p path = Err.
Proof.
  intros L. induction path as [|i r IH]; intros p H; [discriminate|].
  cbn in H. cbn [derive_pub_path]. unfold bip32_derive_pub. destruct (soft i) eqn:Si.
  - cbn in H. destruct (xpub_derive P p i); cbn [bind]; [apply IH; exact H|reflexivity].
  - rewrite (L p i Si). reflexivity.
Qed.

(* keys made from BIP39 entropy are structurally valid BIP32 keys, so they survive from_bytes (as_bytes k) *)
Theorem bip39_root_valid entropy password : law_normalize3 P -> law_pbkdf2_bip39_shape P ->
  xprv_valid (from_bip39_entropy P entropy password) /\
  xprv_from_bytes (from_bip39_entropy P entropy password) = Ok (from_bip39_entropy P entropy password).
Proof.
  intros L1 L2. unfold from_bip39_entropy. destruct (L1 _ (L2 password entropy)) as [A B].
  assert (V : xprv_valid (xprv_normalize3 P (pbkdf2_bip39 P password entropy))) by (split; assumption).
  split; [exact V|]. apply (xprv_valid_kt _ V).
Qed.

(* ================= witnesses ================= *)
Definition sk_signable (k : privkey) : Prop :=
  match k with SkNormal b => wfb 32 b | SkExtended b => wfb 64 b /\ ext_scalar_ok b = true end.

Lemma sk_sign_verifies k m : law_sign_normal P -> law_sign_extended P -> sk_signable k ->
  pk_verify P (sk_to_public P k) m (sk_sign P k m) = true.
Proof.
  intros LN LE H. destruct k as [b|b]; cbn [sk_signable sk_to_public sk_sign] in *; unfold pk_verify.
  - apply LN; exact H.
  - apply LE; apply H.
Qed.

(* make_vkey_witness: the message given to the signing primitive is exactly the hash bytes, the key in the witness is the
   public key of the signing key, and the signature verifies under it for the hash *)
Theorem vkey_witness_signs_hash h sk : law_sign_normal P -> law_sign_extended P -> sk_signable sk ->
  let w := make_vkey_witness P h sk in
  vw_vkey w = sk_to_public P sk /\ vw_sig w = sk_sign P sk h /\ pk_verify P (vw_vkey w) h (vw_sig w) = true.
Proof. intros LN LE H. cbn [make_vkey_witness vw_vkey vw_sig]. repeat split. apply sk_sign_verifies; assumption. Qed.

(* Icarus bootstrap witness: signs exactly the hash with the extended secret of the BIP32 key, verifies, and
   public key ++ chain code of the witness is the extended public key of the signing key; attributes are passed through *)
Theorem icarus_witness_signs_hash h attrs k : law_sign_extended P -> law_shapes P -> law_xpub_layout P -> xprv_valid k ->
  let w := make_icarus_bootstrap_witness P h attrs k in
  bw_sig w = ed_sign_ext P (firstn 64 k) h /\
  pk_verify P (bw_vkey w) h (bw_sig w) = true /\
  bw_vkey w ++ bw_cc w = xprv_public P k /\ len (bw_cc w) = 32 /\ bw_attrs w = attrs.
Proof.
  intros LE LS LL [Hk Hx]. unfold make_icarus_bootstrap_witness.
  cbn [bw_sig bw_vkey bw_cc bw_attrs sk_to_public sk_sign xprv_to_raw_key]. repeat split.
  - unfold pk_verify. apply LE; [apply wfb_first64; exact Hk|apply xprv_bits_scalar_ok; [exact (wfb_ok _ _ Hk)|exact Hx]].
  - unfold xprv_chaincode. symmetry. apply LL; exact Hk.
  - unfold xprv_chaincode. rewrite len_skipn, (wfb_len _ _ Hk). reflexivity.
Qed.

(* Daedalus bootstrap witness: the two unwraps never fire for a 96-byte key *)
Theorem daedalus_witness_signs_hash h attrs k : law_sign_extended P -> law_shapes P ->
  wfb 96 k -> ext_scalar_ok (firstn 64 k) = true ->
  exists w, make_daedalus_bootstrap_witness P h attrs k = Ok w /\
    bw_sig w = ed_sign_ext P (firstn 64 k) h /\ bw_vkey w = ed_ext_pub P (firstn 64 k) /\
    pk_verify P (bw_vkey w) h (bw_sig w) = true /\ bw_cc w = skipn 64 k /\ len (bw_cc w) = 32 /\ bw_attrs w = attrs.
Proof.
  intros LE LS Hk Hs. pose proof LS as (_ & _ & Hpub & Hsig & _).
  destruct (Hpub (firstn 64 k)) as [Hpl Hpb]. destruct (Hsig (firstn 64 k) h) as [Hsl Hsb].
  unfold make_daedalus_bootstrap_witness, legacy_public, legacy_sign.
  assert (E1 : kt_from_binary T_xpub (ed_ext_pub P (firstn 64 k) ++ skipn 64 k) = Ok (ed_ext_pub P (firstn 64 k) ++ skipn 64 k)).
  { unfold kt_from_binary. cbn [kt_size kt_check T_xpub no_check]. rewrite len_app, len_skipn, Hpl, (wfb_len _ _ Hk). reflexivity. }
  assert (E2 : kt_from_binary T_sig (ed_sign_ext P (firstn 64 k) h) = Ok (ed_sign_ext P (firstn 64 k) h)).
  { unfold kt_from_binary. cbn [kt_size kt_check T_sig no_check]. rewrite Hsl. reflexivity. }
  rewrite E1, E2. cbn [unwrap bind]. eexists. split; [reflexivity|]. cbn [bw_sig bw_vkey bw_cc bw_attrs].
  unfold xpub_to_raw_key. unfold len in Hpl. rewrite firstn_app_exact by lia. repeat split.
  - unfold pk_verify. apply LE; [apply wfb_first64; exact Hk|exact Hs].
  - rewrite len_skipn, (wfb_len _ _ Hk). reflexivity.
Qed.

(* PublicKey::hash: the digest of exactly the 32 key bytes, a well-formed 28-byte key hash *)
Theorem pk_hash_is_keyhash pk : law_hash_shape P ->
  pk_hash P pk = blake2b224 P pk /\ hash_from_bytes 28 (pk_hash P pk) = Ok (pk_hash P pk).
Proof.
  intros L. split; [reflexivity|]. unfold hash_from_bytes, pk_hash. rewrite (proj1 (L pk)). reflexivity.
Qed.

(* ================= hash types ================= *)
Theorem hash_bech32_roundtrip n prefix bs :
  law_base32_roundtrip P -> law_bech32_roundtrip P -> hrp_valid prefix = true -> wfb n bs ->
  forall fx, exists s, hash_to_bech32 P prefix bs = Ok s /\ hash_from_bech32_gen P fx n s = Ok bs.
Proof.
  intros L1 L2 Hh [Hl Hb] fx. destruct (L2 prefix bs Hh Hb) as (s & E & D). exists s.
  unfold hash_to_bech32, hash_from_bech32_gen, hash_from_bytes. rewrite E, D, (L1 bs Hb), Hl, N.eqb_refl. auto.
Qed.

Theorem hash_from_bech32_never_panics n s : hash_from_bech32_gen P true n s <> Panic.
Proof.
  unfold hash_from_bech32_gen, hash_from_bytes. destruct (b32_decode P s) as [[h d]|]; [|discriminate].
  destruct (b32_from_base32 P d); [|discriminate]. destruct (_ =? _); discriminate.
Qed.

End Proofs.

(* code as found: a checksum-valid text whose 5-bit groups do not regroup into bytes makes from_bech32 panic
   (witnessed with a table-like instance of the primitives: decode succeeds, from_base32 fails) *)
Definition prims_bad_padding : prims :=
  {| ed_keypair_pk := fun k => k; ed_sign := fun _ _ => []; ed_ext_pub := fun e => e; ed_sign_ext := fun _ _ => [];
     ed_verify := fun _ _ _ => true; xprv_public := fun k => k; xprv_derive := fun k _ => k; xpub_derive := fun _ _ => None;
     xprv_normalize3 := fun b => b; pbkdf2_bip39 := fun _ _ => []; kdf := fun _ _ => [];
     aead_enc := fun _ _ p => (p, []); aead_dec := fun _ _ _ _ => None;
     b32_to_base32 := fun b => b; b32_from_base32 := fun _ => None;
     b32_encode := fun _ _ => None; b32_decode := fun s => Some ([], s); blake2b224 := fun _ => [] |}.

Theorem hash_from_bech32_unfixed_refuted :
  exists P n s, hash_from_bech32_gen P false n s = Panic.
Proof. exists prims_bad_padding, 28, [1]. reflexivity. Qed.
