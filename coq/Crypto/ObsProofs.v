(* C12 — the model satisfies the judge's statement: for EVERY case (all inputs), under the laws of the primitives, the proved part
   [stmt] of the property holds on the model's own observation, which never contains a panic.  Together with the correspondence
   (implementation observation = model observation on the generated cases) this is what makes the judge's verdict meaningful. *)
From CSL Require Import Base.Prelude Base.Hex Cbor.Head Crypto.Iface Crypto.Wrappers Crypto.WrappersProofs
  Crypto.Emip3 Crypto.Emip3Proofs Crypto.Obs Crypto.Bech32Inst.
Local Open Scope N_scope.

Definition all_laws (P : prims) : Prop :=
  law_shapes P /\ law_sign_normal P /\ law_sign_extended P /\ law_xpub_layout P /\ law_soft_derivation P /\
  law_hard_refused P /\ law_normalize3 P /\ law_pbkdf2_bip39_shape P /\
  law_aead_roundtrip P /\ law_aead_shapes P /\ law_aead_authentic P /\ law_aead_plain_by_ct P /\
  law_base32_roundtrip P /\ law_bech32_roundtrip P.

(* byte strings in a case are byte strings *)
Definition case_wf (c : case) : Prop :=
  match c with
  | CEnc _ bs => bytes_ok bs
  | CSign _ k _ _ k2 => bytes_ok k /\ bytes_ok k2
  | CWit _ _ k _ _ => bytes_ok k
  | CDerive r _ => bytes_ok r
  | CPubDerive x _ => bytes_ok x
  | CX128 k => bytes_ok k
  | _ => True
  end.

Lemma res_eqb_refl r : res_eqb r r = true.
Proof. destruct r; cbn; auto using list_eqb_refl. Qed.
Lemma obs_eqb_refl o : obs_eqb o o = true.
Proof. induction o; cbn; [reflexivity|]. rewrite res_eqb_refl, IHo. reflexivity. Qed.

Lemma ktype_hrp_valid tk : hrp_valid (kt_hrp (ktype_of tk)) = true.
Proof. destruct tk as [|[[[p|p|]|[p|p|]|]|[[p|p|]|[p|p|]|]|]]; reflexivity. Qed.

Lemma kt_from_binary_cases T bs : kt_from_binary T bs = Ok bs \/ kt_from_binary T bs = Err.
Proof. unfold kt_from_binary. destruct (_ && _); auto. Qed.

Lemma try_from_bech32_cases P h s : (exists b, try_from_bech32_to_bytes P h s = Ok b) \/ try_from_bech32_to_bytes P h s = Err.
Proof.
  unfold try_from_bech32_to_bytes. destruct (b32_decode P s) as [[h' d]|]; auto.
  destruct (list_eqb h' h); auto. destruct (b32_from_base32 P d); eauto.
Qed.

Lemma kt_from_bech32_cases P T s : (exists b, kt_from_bech32 P T s = Ok b) \/ kt_from_bech32 P T s = Err.
Proof.
  unfold kt_from_bech32. destruct (try_from_bech32_cases P (kt_hrp T) s) as [[b E]|E]; rewrite E; cbn [bind]; auto.
  destruct (kt_from_binary_cases T b) as [E'|E']; rewrite E'; eauto.
Qed.

Lemma sk_from_bech32_cases P s : (exists k, sk_from_bech32 P s = Ok k) \/ sk_from_bech32 P s = Err.
Proof.
  unfold sk_from_bech32. destruct (kt_from_bech32_cases P T_sk_ext s) as [[b E]|E]; rewrite E; eauto.
  destruct (kt_from_bech32_cases P T_sk_normal s) as [[b E']|E']; rewrite E'; eauto.
Qed.

(* bech32 encoding of a valid value: text, decoding, and what the decoder sees *)
Lemma kt_bech32_full P T bs : law_base32_roundtrip P -> law_bech32_roundtrip P -> hrp_valid (kt_hrp T) = true -> kt_valid T bs ->
  exists s, kt_to_bech32 P T bs = Ok s /\ kt_from_bech32 P T s = Ok bs /\ b32_decode P s = Some (kt_hrp T, b32_to_base32 P bs).
Proof.
  intros L1 L2 Hh [H Hb]. destruct (L2 (kt_hrp T) bs Hh Hb) as (s & E & D).
  exists s. unfold kt_to_bech32, to_bech32_from_bytes, kt_from_bech32, try_from_bech32_to_bytes.
  rewrite E, D, list_eqb_refl, (L1 bs Hb). cbn. auto.
Qed.

Section JudgeProofs.
Variable P : prims.
Hypothesis LAWS : all_laws P.

Ltac laws := destruct LAWS as (LS & LN & LE & LL & LSo & LH & LN3 & LPB & LAR & LAS & LAA & LAP & LB1 & LB2).

Definition good (c : case) : Prop := has_panic (model_obs P c) = false /\ stmt P c (model_obs P c) = true.

(* ---------- enc ---------- *)
Lemma good_enc_kt tk bs : (tk <=? 1) = false -> bytes_ok bs -> good (CEnc tk bs).
Proof.
  laws. intros Htk Hb. unfold good. cbn [model_obs]. unfold obs_enc. rewrite Htk.
  destruct (tk =? 6) eqn:E6.
  - apply N.eqb_eq in E6. subst tk.
    destruct (kt_from_binary_cases T_legacy bs) as [E|E]; rewrite E; [|split; reflexivity].
    destruct (kt_bech32_full P T_legacy bs LB1 LB2 eq_refl (conj E Hb)) as (s & A & B & C).
    rewrite A. cbn [bind]. rewrite B. split; [reflexivity|].
    cbn [stmt N.leb]. change (6 <=? 1) with false. cbn [N.eqb]. change (6 =? 6) with true.
    rewrite C, !list_eqb_refl, res_eqb_refl. reflexivity.
  - set (T := ktype_of tk).
    destruct (kt_from_binary_cases T bs) as [E|E]; rewrite E; [|split; reflexivity].
    destruct (kt_bech32_full P T bs LB1 LB2 (ktype_hrp_valid tk) (conj E Hb)) as (s & A & B & C).
    rewrite A. cbn [bind]. pose proof (kt_hex_roundtrip T bs (conj E Hb)) as HX. unfold kt_to_hex in HX. rewrite B, HX. split; [reflexivity|].
    cbn [stmt]. rewrite Htk, E6. fold T. rewrite C, !list_eqb_refl, !res_eqb_refl. reflexivity.
Qed.

Lemma sk_from_bytes_tk_cases tk bs :
  (sk_from_bytes_tk tk bs = Ok (if tk =? 0 then SkNormal bs else SkExtended bs) /\
   kt_from_binary (if tk =? 0 then T_sk_normal else T_sk_ext) bs = Ok bs) \/ sk_from_bytes_tk tk bs = Err.
Proof.
  unfold sk_from_bytes_tk, sk_from_normal_bytes, sk_from_extended_bytes. destruct (tk =? 0).
  - destruct (kt_from_binary_cases T_sk_normal bs) as [E|E]; rewrite E; cbn [bind]; auto.
  - destruct (kt_from_binary_cases T_sk_ext bs) as [E|E]; rewrite E; cbn [bind]; auto.
Qed.

Lemma good_enc_sk tk bs : (tk <=? 1) = true -> bytes_ok bs -> good (CEnc tk bs).
Proof.
  laws. intros Htk Hb. unfold good. cbn [model_obs]. unfold obs_enc. rewrite Htk.
  destruct (sk_from_bytes_tk_cases tk bs) as [[E V]|E]; rewrite E; [|split; reflexivity].
  set (k := if tk =? 0 then SkNormal bs else SkExtended bs) in *.
  assert (Hk : sk_as_bytes k = bs /\ sk_repr k = tk :: bs /\ sk_type k = ktype_of tk /\ sk_valid k).
  { assert (tk = 0 \/ tk = 1) as [->| ->] by (apply N.leb_le in Htk; lia); cbn in *; repeat split; auto. }
  destruct Hk as (K1 & K2 & K3 & K4).
  rewrite (sk_hex_roundtrip k K4).
  destruct (sk_bech32_roundtrip P k LB1 LB2 K4) as (s & A & B). rewrite A. cbn [bind]. rewrite B. cbn [rmap]. rewrite K1, K2.
  split; [reflexivity|]. cbn [stmt]. rewrite Htk.
  assert (D : b32_decode P s = Some (kt_hrp (ktype_of tk), b32_to_base32 P bs)).
  { unfold sk_to_bech32 in A. rewrite K1, K3 in A.
    destruct (kt_bech32_full P (ktype_of tk) bs LB1 LB2 (ktype_hrp_valid tk)) as (s' & A' & _ & C').
    - rewrite <- K3, <- K1. exact K4.
    - rewrite A in A'. injection A' as <-. exact C'. }
  rewrite D, !list_eqb_refl, !res_eqb_refl.
  assert (tk =? 6 = false) as -> by (apply N.leb_le in Htk; apply N.eqb_neq; lia). reflexivity.
Qed.

Lemma good_enc tk bs : bytes_ok bs -> good (CEnc tk bs).
Proof. intros Hb. destruct (tk <=? 1) eqn:E; [apply good_enc_sk|apply good_enc_kt]; assumption. Qed.

(* ---------- dec ---------- *)
Lemma rmap_sk_not_panic (r : result privkey) : (exists k, r = Ok k) \/ r = Err -> is_panic (rmap sk_repr r) = false.
Proof. intros [[k ->]| ->]; reflexivity. Qed.

Lemma sk_from_hex_cases t : (exists k, sk_from_hex t = Ok k) \/ sk_from_hex t = Err.
Proof.
  unfold sk_from_hex. destruct (unhex t) as [d|]; auto.
  destruct (kt_from_binary_cases T_sk_normal d) as [E|E]; rewrite E; eauto.
  destruct (kt_from_binary_cases T_sk_ext d) as [E'|E']; rewrite E'; eauto.
Qed.

Lemma hash_from_bech32_cases n s : (exists b, hash_from_bech32 P n s = Ok b) \/ hash_from_bech32 P n s = Err.
Proof.
  unfold hash_from_bech32, hash_from_bech32_gen, hash_from_bytes. destruct (b32_decode P s) as [[h d]|]; auto.
  destruct (b32_from_base32 P d); auto. destruct (_ =? _); eauto.
Qed.

Lemma from_128_cases bs : (exists b, from_128_xprv bs = Ok b) \/ from_128_xprv bs = Err.
Proof.
  unfold from_128_xprv, from_128_xprv_gen, xprv_from_bytes. cbn [fixed_xprv128_length]. destruct (len bs =? 128); auto.
  destruct (kt_from_binary_cases T_xprv (firstn 64 bs ++ firstn 32 (skipn 96 bs))) as [E|E]; rewrite E; eauto.
Qed.

Lemma good_dec tk fmt i : good (CDec tk fmt i).
Proof.
  unfold good. cbn [model_obs]. unfold obs_dec.
  destruct (tk <=? 1) eqn:T1.
  { (* PrivateKey *)
    set (r := if fmt =? 0 then sk_from_bytes_tk tk i else if fmt =? 1 then sk_from_hex i else sk_from_bech32 P i).
    assert (R : (exists k, r = Ok k) \/ r = Err).
    { unfold r. destruct (fmt =? 0); [destruct (sk_from_bytes_tk_cases tk i) as [[E _]|E]; rewrite E; eauto|].
      destruct (fmt =? 1); [apply sk_from_hex_cases|apply sk_from_bech32_cases]. }
    split; [cbn [has_panic existsb]; rewrite (rmap_sk_not_panic r R); reflexivity|].
    cbn [stmt]. destruct (fmt =? 2) eqn:F2.
    - apply N.eqb_eq in F2. subst fmt. unfold r. change (2 =? 0) with false. change (2 =? 1) with false. cbn iota.
      unfold sk_from_bech32, kt_from_bech32, try_from_bech32_to_bytes. cbn [kt_hrp T_sk_ext T_sk_ext_gen T_sk_normal].
      destruct (b32_decode P i) as [[h d]|]; [|reflexivity].
      unfold hrp_accepted. rewrite T1.
      destruct (list_eqb h hrp_ed25519_sk) eqn:H1; [reflexivity|].
      destruct (list_eqb h hrp_ed25519e_sk) eqn:H2; [reflexivity|]. reflexivity.
    - assert ((fmt =? 3) && (tk =? 4) = false) as ->; [|reflexivity].
      apply andb_false_iff. right. apply N.eqb_neq. apply N.leb_le in T1. lia. }
  destruct (7 <=? tk) eqn:T7.
  { (* hash types *)
    set (n := hash_size tk).
    set (r := if fmt =? 0 then hash_from_bytes n i else if fmt =? 1 then match unhex i with Some b => hash_from_bytes n b | None => Err end
              else hash_from_bech32 P n i).
    assert (R : (exists b, r = Ok b) \/ r = Err).
    { unfold r, hash_from_bytes. destruct (fmt =? 0); [destruct (_ =? _); eauto|].
      destruct (fmt =? 1); [destruct (unhex i); [destruct (_ =? _); eauto|auto]|apply hash_from_bech32_cases]. }
    split; [destruct R as [[b ->]| ->]; reflexivity|].
    cbn [stmt]. destruct (fmt =? 2) eqn:F2.
    - apply N.eqb_eq in F2. subst fmt. unfold r. change (2 =? 0) with false. change (2 =? 1) with false. cbn iota.
      unfold hash_from_bech32, hash_from_bech32_gen. destruct (b32_decode P i) as [[h d]|]; [|reflexivity].
      unfold hrp_accepted. rewrite T1, T7. reflexivity.
    - assert ((fmt =? 3) && (tk =? 4) = false) as ->; [|reflexivity].
      apply andb_false_iff. right. apply N.eqb_neq. apply N.leb_le in T7. lia. }
  destruct ((tk =? 4) && (fmt =? 3)) eqn:X.
  { apply andb_true_iff in X as [X1 X2]. apply N.eqb_eq in X1, X2. subst tk fmt.
    split; [destruct (from_128_cases i) as [[b E]|E]; rewrite E; reflexivity|].
    cbn [stmt]. change (3 =? 2) with false. change ((3 =? 3) && (4 =? 4)) with true. cbn iota.
    destruct (len i =? 128) eqn:L; [reflexivity|].
    unfold from_128_xprv. cbn [fixed_xprv128_length]. rewrite from_128_xprv_length_checked; [reflexivity|apply N.eqb_neq; exact L]. }
  set (T := ktype_of tk).
  set (r := if fmt =? 0 then kt_from_binary T i else if fmt =? 1 then kt_from_hex T i else kt_from_bech32 P T i).
  assert (R : (exists b, r = Ok b) \/ r = Err).
  { unfold r. destruct (fmt =? 0); [destruct (kt_from_binary_cases T i) as [E|E]; rewrite E; eauto|].
    destruct (fmt =? 1); [|apply kt_from_bech32_cases].
    unfold kt_from_hex. destruct (unhex i) as [d|]; auto. destruct (kt_from_binary_cases T d) as [E|E]; rewrite E; eauto. }
  split; [destruct R as [[b ->]| ->]; reflexivity|].
  cbn [stmt]. destruct (fmt =? 2) eqn:F2.
  - apply N.eqb_eq in F2. subst fmt. unfold r. change (2 =? 0) with false. change (2 =? 1) with false. cbn iota.
    unfold kt_from_bech32, try_from_bech32_to_bytes. destruct (b32_decode P i) as [[h d]|]; [|reflexivity].
    unfold hrp_accepted. rewrite T1, T7. fold T. destruct (list_eqb h (kt_hrp T)); reflexivity.
  - destruct ((fmt =? 3) && (tk =? 4)) eqn:Y; [|reflexivity].
    apply andb_true_iff in Y as [Y1 Y2]. rewrite Y2, Y1 in X. discriminate.
Qed.

(* ---------- sign / witnesses ---------- *)
Lemma sk_of_tk_signable tk bs : bytes_ok bs ->
  kt_from_binary (if tk =? 0 then T_sk_normal else T_sk_ext) bs = Ok bs ->
  let k := if tk =? 0 then SkNormal bs else SkExtended bs in sk_signable k /\ sk_usable k = true.
Proof.
  intros Hb V. destruct (tk =? 0); apply kt_from_binary_ok in V as (_ & L & C); cbn in *.
  - split; [split; assumption|reflexivity].
  - split; [split; [split; assumption|exact C]|exact C].
Qed.

Lemma sk_shapes k m : law_shapes P -> len (sk_sign P k m) = 64 /\ len (sk_to_public P k) = 32.
Proof.
  intros (A & B & C & D & _). destruct k; cbn; split;
  first [apply (proj1 (A _)) | apply (proj1 (B _ _)) | apply (proj1 (C _)) | apply (proj1 (D _ _))].
Qed.

Lemma good_sign tk k m m2 k2 : bytes_ok k -> bytes_ok k2 -> good (CSign tk k m m2 k2).
Proof.
  laws. intros Hb Hb2. unfold good. cbn [model_obs]. unfold obs_sign.
  destruct (sk_from_bytes_tk_cases tk k) as [[E V]|E]; rewrite E; [|split; reflexivity].
  destruct (sk_from_bytes_tk_cases tk k2) as [[E2 V2]|E2]; rewrite E2; [|split; reflexivity].
  destruct (sk_of_tk_signable tk k Hb V) as [S U]. destruct (sk_of_tk_signable tk k2 Hb2 V2) as [_ U2].
  cbn zeta in *. rewrite U, U2. cbn [andb]. split; [reflexivity|].
  cbn [stmt]. rewrite (sk_sign_verifies P _ m LN LE S).
  destruct (sk_shapes (if tk =? 0 then SkNormal k else SkExtended k) m LS) as [A B]. rewrite A, B. reflexivity.
Qed.

Lemma nth31_first64 k : ext_scalar_ok (firstn 64 k) = ext_scalar_ok k.
Proof. unfold ext_scalar_ok. rewrite nth_firstn_lt by lia. reflexivity. Qed.

Lemma good_wit wk h k dp mg : bytes_ok k -> good (CWit wk h k dp mg).
Proof.
  laws. intros Hb. unfold good. cbn [model_obs]. unfold obs_wit.
  destruct (wk <=? 1) eqn:W1.
  { destruct (sk_from_bytes_tk_cases wk k) as [[E V]|E]; rewrite E; [|split; reflexivity].
    destruct (sk_of_tk_signable wk k Hb V) as [S U]. cbn zeta in *. rewrite U. split; [reflexivity|].
    cbn [stmt]. rewrite W1, E.
    destruct (vkey_witness_signs_hash P h _ LN LE S) as (A & B & C). cbn zeta in *.
    rewrite C. cbn [make_vkey_witness vw_vkey vw_sig]. rewrite !list_eqb_refl, obs_eqb_refl. reflexivity. }
  destruct (wk =? 2) eqn:W2.
  { unfold xprv_from_bytes. destruct (kt_from_binary_cases T_xprv k) as [E|E]; rewrite E; [|split; reflexivity].
    split; [reflexivity|]. cbn [stmt]. rewrite W1.
    assert (V : xprv_valid k) by (apply kt_from_binary_ok in E as (_ & L & C); split; [split|]; assumption).
    destruct (icarus_witness_signs_hash P h (byron_attributes dp mg) k LE LS LL V) as (A & B & _). cbn zeta in *.
    rewrite B. cbn [make_icarus_bootstrap_witness bw_vkey bw_sig bw_cc bw_attrs sk_to_public sk_sign xprv_to_raw_key].
    rewrite !list_eqb_refl. unfold xprv_chaincode. rewrite obs_eqb_refl. reflexivity. }
  destruct (kt_from_binary_cases T_legacy k) as [E|E]; rewrite E; [|split; reflexivity].
  apply kt_from_binary_ok in E as (_ & L & C). cbn [kt_check T_legacy T_legacy_gen ext_check_gen fixed_ext_scalar_check] in C.
  rewrite nth31_first64, C.
  destruct (daedalus_witness_signs_hash P h (byron_attributes dp mg) k LE LS (conj L Hb)) as (w & A & B1 & B2 & B3 & B4 & _ & B6);
    [rewrite nth31_first64; exact C|].
  rewrite A. destruct w as [wv ws wc wa]. cbn [bw_vkey bw_sig bw_cc bw_attrs] in *. subst wv ws wc wa.
  split; [reflexivity|]. cbn [stmt]. rewrite W1, B3, !list_eqb_refl, obs_eqb_refl. reflexivity.
Qed.

(* ---------- derivation ---------- *)
Lemma derive_prv_path_wfb path k : law_shapes P -> wfb 96 k -> wfb 96 (derive_prv_path P k path).
Proof.
  intros (_ & _ & _ & _ & _ & Hd & _). revert k; induction path as [|i r IH]; intros k Hk; [exact Hk|].
  cbn [derive_prv_path]. apply IH. apply Hd. exact Hk.
Qed.

Lemma derive_pub_path_cases path p : (exists q, derive_pub_path P p path = Ok q) \/ derive_pub_path P p path = Err.
Proof.
  revert p; induction path as [|i r IH]; intros p; cbn [derive_pub_path]; eauto.
  unfold bip32_derive_pub. destruct (xpub_derive P p i); cbn [bind]; auto.
Qed.

Lemma good_derive root path : bytes_ok root -> good (CDerive root path).
Proof.
  laws. intros Hb. unfold good. cbn [model_obs]. unfold obs_derive, xprv_from_bytes.
  destruct (kt_from_binary_cases T_xprv root) as [E|E]; rewrite E; [|split; reflexivity].
  apply kt_from_binary_ok in E as (_ & L & C).
  assert (Hk : wfb 96 root) by (split; assumption).
  set (kf := derive_prv_path P root path).
  assert (Hf : wfb 96 kf) by (apply derive_prv_path_wfb; assumption).
  split.
  - cbn [has_panic existsb is_panic]. destruct (derive_pub_path_cases path (xprv_to_public P root)) as [[q ->]| ->];
      destruct (kt_from_binary_cases T_xprv kf) as [-> | ->]; reflexivity.
  - cbn [stmt]. unfold all_soft.
    assert (RP : (if forallb soft path then res_eqb (derive_pub_path P (xprv_to_public P root) path) (Ok (xprv_to_public P kf))
                  else is_err_b (derive_pub_path P (xprv_to_public P root) path)) = true).
    { destruct (forallb soft path) eqn:S.
      - rewrite (soft_derivation_commutes P LS LSo path root Hk S). apply res_eqb_refl.
      - rewrite (hardened_from_public_refused P LH path _ S). reflexivity. }
    rewrite RP. cbn [andb].
    unfold xprv_to_public, xprv_to_raw_key, sk_to_public, xpub_to_raw_key, xprv_chaincode, xpub_chaincode.
    rewrite (LL kf Hf).
    pose proof LS as (_ & _ & Hpub & _). destruct (Hpub (firstn 64 kf)) as [Hl _]. unfold len in Hl.
    rewrite firstn_app_exact, skipn_app_exact by lia. rewrite !list_eqb_refl. reflexivity.
Qed.

Lemma good_pubderive x path : good (CPubDerive x path).
Proof.
  laws. unfold good. cbn [model_obs]. unfold obs_pubderive.
  destruct (kt_from_binary_cases T_xpub x) as [E|E]; rewrite E; [|split; [reflexivity|cbn [stmt]; destruct (all_soft path); reflexivity]].
  split.
  - destruct (derive_pub_path_cases path x) as [[q ->]| ->]; reflexivity.
  - cbn [stmt]. unfold all_soft. destruct (forallb soft path) eqn:S; [reflexivity|].
    rewrite (hardened_from_public_refused P LH path x S). reflexivity.
Qed.

Lemma good_pkhash pk : good (CPkHash pk).
Proof.
  unfold good. cbn [model_obs]. unfold obs_pkhash.
  destruct (kt_from_binary_cases T_pk pk) as [E|E]; rewrite E; split; reflexivity.
Qed.

Lemma good_bip39 e pw : good (CBip39 e pw).
Proof.
  laws. unfold good. cbn [model_obs]. unfold obs_bip39.
  destruct (bip39_root_valid P e pw LN3 LPB) as [_ E]. rewrite E. split; [reflexivity|]. cbn [stmt]. apply res_eqb_refl.
Qed.

Lemma good_x128 k : bytes_ok k -> good (CX128 k).
Proof.
  laws. intros Hb. unfold good. cbn [model_obs]. unfold obs_x128, xprv_from_bytes.
  destruct (kt_from_binary_cases T_xprv k) as [E|E]; rewrite E; [|split; reflexivity].
  apply kt_from_binary_ok in E as (_ & L & C).
  assert (V : xprv_valid k) by (split; [split|]; assumption).
  unfold from_128_xprv, fixed_xprv128_length. rewrite (xprv128_roundtrip P true k LS LL V).
  split; [reflexivity|]. cbn [stmt]. destruct (to_128_layout P k LS LL (proj1 V)) as [X XL]. rewrite XL, res_eqb_refl. cbn [N.eqb andb].
  change (128 =? 128) with true. cbn [andb]. rewrite X.
  pose proof LS as (_ & _ & Hpub & _). destruct (Hpub (firstn 64 k)) as [Hl _]. change (kt_size T_xprv) with 96 in L. unfold len in Hl, L.
  assert (F64 : List.length (firstn 64 k) = 64%nat) by (rewrite firstn_length; lia).
  rewrite firstn_app_exact by exact F64.
  replace (firstn 64 k ++ ed_ext_pub P (firstn 64 k) ++ skipn 64 k)
    with ((firstn 64 k ++ ed_ext_pub P (firstn 64 k)) ++ skipn 64 k) by (rewrite app_assoc; reflexivity).
  rewrite skipn_app_exact by (rewrite app_length; lia). rewrite !list_eqb_refl. reflexivity.
Qed.

(* ---------- EMIP-3 ---------- *)
Lemma len_hex b : len (hex b) = 2 * len b.
Proof. unfold len. induction b; cbn [hex List.length]; lia. Qed.

Lemma decrypt_cases tp tc : (exists r, decrypt_with_password P tp tc = Ok r) \/ decrypt_with_password P tp tc = Err.
Proof.
  unfold decrypt_with_password, decrypt_with_password_gen, unhex_r.
  destruct (unhex tp); cbn [bind]; auto. destruct (unhex tc); cbn [bind]; auto.
  destruct (too_short_gen _ _); auto. destruct (aead_dec _ _ _ _ _); eauto.
Qed.

Lemma good_dec3 tp tc : good (CDec3 tp tc).
Proof.
  unfold good. cbn [model_obs]. unfold obs_dec3. split; [|reflexivity].
  destruct (decrypt_cases tp tc) as [[r ->]| ->]; reflexivity.
Qed.

Lemma good_enc3 tp ts tn td : good (CEnc3 tp ts tn td).
Proof.
  laws. unfold good. cbn [model_obs]. unfold obs_enc3. cbn [stmt].
  destruct (unhex tp) as [pw|] eqn:Hp; [|unfold encrypt_with_password, unhex_r; rewrite Hp; split; reflexivity].
  destruct (unhex ts) as [s|] eqn:Hs; [|unfold encrypt_with_password, unhex_r; rewrite Hp, Hs; split; reflexivity].
  destruct (unhex tn) as [n|] eqn:Hn; [|unfold encrypt_with_password, unhex_r; rewrite Hp, Hs, Hn; split; reflexivity].
  destruct (unhex td) as [d|] eqn:Hd; [|unfold encrypt_with_password, unhex_r; rewrite Hp, Hs, Hn, Hd; split; reflexivity].
  destruct ((len s =? 32) && (len n =? 12) && negb (len pw =? 0)) eqn:V.
  - apply andb_true_iff in V as [V V3]. apply andb_true_iff in V as [V1 V2].
    apply N.eqb_eq in V1, V2. apply negb_true_iff in V3. apply N.eqb_neq in V3.
    assert (Hpar : emip3_params tp ts tn td pw s n d) by (repeat split; assumption).
    destruct (encrypt_shape P tp ts tn td pw s n d LAS Hpar) as (E & Bc & Lt & Lc).
    destruct (emip3_roundtrip P true tp ts tn td pw s n d LAR LAS Hpar (or_introl eq_refl)) as (c & E' & D).
    rewrite E in E'. injection E' as <-. rewrite E.
    unfold decrypt_with_password, fixed_emip3_empty. rewrite D. split; [reflexivity|].
    rewrite res_eqb_refl, len_hex. cbn [andb].
    destruct (cut_container s n _ (fst (aead_enc P (kdf P pw s) n d)) V1 V2 Lt) as (_ & _ & _ & _ & C5).
    rewrite C5, Lc. apply N.eqb_refl.
  - assert (E : encrypt_with_password P tp ts tn td = Err).
    { unfold encrypt_with_password, unhex_r, SALT_SIZE, NONCE_SIZE. rewrite Hp, Hs, Hn, Hd. cbn [bind].
      destruct (len s =? 32); [|reflexivity]. destruct (len n =? 12); [|reflexivity].
      cbn [andb negb] in *. destruct (len pw =? 0); [reflexivity|discriminate]. }
    rewrite E. split; reflexivity.
Qed.

(* ---------- the judge accepts the model on every case ---------- *)
Theorem model_satisfies_stmt c : case_wf c -> good c.
Proof.
  destruct c; cbn [case_wf]; intros H.
  - apply good_enc; exact H.
  - apply good_dec.
  - apply good_sign; apply H.
  - apply good_wit; exact H.
  - apply good_derive; exact H.
  - apply good_pkhash.
  - apply good_pubderive.
  - apply good_bip39.
  - apply good_x128; exact H.
  - apply good_enc3.
  - apply good_dec3.
Qed.

(* consequently: whenever the implementation's observation equals the model's, the only way the judge can fail is the TESTED
   part (verification under another message / key, structure check of derived keys) *)
Definition tested_verdict (c : case) : verdict :=
  if stmt_tested P c (model_obs P c) then Holds
  else if known_class P c =? 0 then FailsUnknown else FailsKnown (known_class P c).

Theorem judge_on_model c : case_wf c -> judge P c (model_obs P c) = tested_verdict c.
Proof.
  intros H. destruct (model_satisfies_stmt c H) as [A B]. unfold judge, tested_verdict.
  rewrite A, obs_eqb_refl, B. cbn [negb andb]. reflexivity.
Qed.

(* sequences: the model of a sequence is made of the models of the steps taken alone (purity), and the judge of a sequence
   accepts it when it accepts every step *)
Theorem judge_seq_on_model l : Forall case_wf l ->
  forallb (fun c => stmt_tested P c (model_obs P c)) l = true -> judge_seq P l (model_seq P l) = Holds.
Proof.
  induction 1 as [|c l Hc _ IH]; [reflexivity|].
  cbn [model_seq map judge_seq forallb]. intros T. apply andb_true_iff in T as [T1 T2].
  rewrite (judge_on_model c Hc). unfold tested_verdict. rewrite T1. exact (IH T2).
Qed.

End JudgeProofs.

(* with the concrete bech32 codec only the twelve laws about the cryptographic primitives remain premises *)
Definition crypto_laws (P : prims) : Prop :=
  law_shapes P /\ law_sign_normal P /\ law_sign_extended P /\ law_xpub_layout P /\ law_soft_derivation P /\
  law_hard_refused P /\ law_normalize3 P /\ law_pbkdf2_bip39_shape P /\
  law_aead_roundtrip P /\ law_aead_shapes P /\ law_aead_authentic P /\ law_aead_plain_by_ct P.

Lemma all_laws_concrete P : crypto_laws P -> all_laws (with_bech32 P).
Proof.
  intros (A & B & C & D & E & F & G & H & I & J & K & L).
  exact (conj A (conj B (conj C (conj D (conj E (conj F (conj G (conj H (conj I (conj J (conj K (conj L
        (conj (concrete_base32_roundtrip P) (concrete_bech32_roundtrip P)))))))))))))).
Qed.
