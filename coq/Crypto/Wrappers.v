(* C12 — model of /repo's own wrapper logic around the external primitives of Iface.v:
     chain_crypto/bech32.rs (to_bech32_from_bytes / try_from_bech32_to_bytes, HRP check),
     chain_crypto/key.rs + sign.rs (from_binary, Bech32 impls of SecretKey / PublicKey / Signature),
     chain_crypto/algorithms/{ed25519,ed25519_extended,ed25519_derive,legacy_daedalus}.rs (sizes, HRPs, compute_public, sign glue),
     chain_crypto/derive.rs, impl_mockchain/key.rs (EitherEd25519SecretKey dispatch),
     protocol_types/crypto/{private_key,public_key,bip32_private_key,bip32_public_key,legacy_daedalus_private_key}.rs,
     impl_signature_macro.rs (Ed25519Signature), impl_hash_type_macro.rs (to_bech32 / from_bech32 / from_bytes of hash types),
     utils.rs make_vkey_witness / make_icarus_bootstrap_witness / make_daedalus_bootstrap_witness,
     legacy_address/address.rs Attributes::serialize (what ByronAddress::attributes returns).
   Keys are byte strings; [Panic] is a Rust panic.  No proofs in this file. *)
From CSL Require Import Base.Prelude Base.Hex Cbor.Head Crypto.Iface.
Local Open Scope N_scope.

(* Switches: [true] = the repaired code now in /repo (fixes/C12-*.patch), [false] = the code as found.
   The model, the judge and the theorems read the switch; the *_refuted theorems speak about the [false] variants. *)
Definition fixed_xprv128_length : bool := true.       (* from_128_xprv checks the length instead of slicing blindly *)
Definition fixed_hash_bech32_padding : bool := true.  (* <hash>::from_bech32 reports invalid padding instead of unwrapping *)
Definition fixed_ext_scalar_check : bool := true.     (* Ed25519Extended / LegacyDaedalus secret_from_binary reject a scalar with bit 255 set *)


Definition unwrap {A} (r : result A) : result A := match r with Ok a => Ok a | OutOfFuel => OutOfFuel | _ => Panic end.

(* a fixed-size byte-string type: size, structure check, bech32 HRP *)
Record ktype := { kt_size : N; kt_check : bytes -> bool; kt_hrp : text }.
Definition no_check (_ : bytes) : bool := true.

Definition ext_check_gen (fx : bool) (b : bytes) : bool := if fx then ext_scalar_ok b else true.

Definition T_sk_normal : ktype := {| kt_size := 32; kt_check := no_check; kt_hrp := hrp_ed25519_sk |}.
Definition T_sk_ext_gen (fx : bool) : ktype := {| kt_size := 64; kt_check := ext_check_gen fx; kt_hrp := hrp_ed25519e_sk |}.
Definition T_sk_ext := T_sk_ext_gen fixed_ext_scalar_check.
Definition T_pk   : ktype := {| kt_size := 32; kt_check := no_check; kt_hrp := hrp_ed25519_pk |}.
Definition T_sig  : ktype := {| kt_size := 64; kt_check := no_check; kt_hrp := hrp_ed25519_sig |}.
Definition T_xprv : ktype := {| kt_size := 96; kt_check := xprv_bits_ok; kt_hrp := hrp_xprv |}.
Definition T_xpub : ktype := {| kt_size := 64; kt_check := no_check; kt_hrp := hrp_xpub |}.
Definition T_legacy_gen (fx : bool) : ktype := {| kt_size := 96; kt_check := ext_check_gen fx; kt_hrp := hrp_legacy_xprv |}.
Definition T_legacy := T_legacy_gen fixed_ext_scalar_check.

Section Wrappers.
Variable P : prims.

(* ---- chain_crypto/bech32.rs:17-35 ---- *)
Definition to_bech32_from_bytes (hrp : text) (bs : bytes) : result text :=
  match b32_encode P hrp (b32_to_base32 P bs) with Some s => Ok s | None => Panic end.
Definition try_from_bech32_to_bytes (hrp : text) (s : text) : result bytes :=
  match b32_decode P s with
  | None => Err
  | Some (h, d) =>
      if list_eqb h hrp
      then match b32_from_base32 P d with Some bs => Ok bs | None => Err end
      else Err
  end.

(* ---- from_binary / hex / bech32 of a fixed-size type ---- *)
Definition kt_from_binary (T : ktype) (bs : bytes) : result bytes :=
  if (len bs =? kt_size T) && kt_check T bs then Ok bs else Err.
Definition kt_to_hex (bs : bytes) : text := hex bs.
Definition kt_from_hex (T : ktype) (t : text) : result bytes :=
  match unhex t with None => Err | Some d => kt_from_binary T d end.
Definition kt_to_bech32 (T : ktype) (bs : bytes) : result text := to_bech32_from_bytes (kt_hrp T) bs.
Definition kt_from_bech32 (T : ktype) (s : text) : result bytes :=
  let* bs := try_from_bech32_to_bytes (kt_hrp T) s in kt_from_binary T bs.

(* ---- PrivateKey = EitherEd25519SecretKey (private_key.rs, impl_mockchain/key.rs) ---- *)
Inductive privkey := SkNormal (b : bytes) | SkExtended (b : bytes).
Definition sk_as_bytes (k : privkey) : bytes := match k with SkNormal b => b | SkExtended b => b end.
Definition sk_type (k : privkey) : ktype := match k with SkNormal _ => T_sk_normal | SkExtended _ => T_sk_ext end.
Definition sk_from_normal_bytes (bs : bytes) : result privkey := let* b := kt_from_binary T_sk_normal bs in Ok (SkNormal b).
Definition sk_from_extended_bytes (bs : bytes) : result privkey := let* b := kt_from_binary T_sk_ext bs in Ok (SkExtended b).
(* from_hex tries the normal size first, then the extended one *)
Definition sk_from_hex (t : text) : result privkey :=
  match unhex t with
  | None => Err
  | Some d =>
      match kt_from_binary T_sk_normal d with
      | Ok b => Ok (SkNormal b)
      | _ => match kt_from_binary T_sk_ext d with Ok b => Ok (SkExtended b) | _ => Err end
      end
  end.
(* from_bech32 tries the extended HRP first, then the normal one *)
Definition sk_from_bech32 (s : text) : result privkey :=
  match kt_from_bech32 T_sk_ext s with
  | Ok b => Ok (SkExtended b)
  | Err => match kt_from_bech32 T_sk_normal s with Ok b => Ok (SkNormal b) | Err => Err | Panic => Panic | OutOfFuel => OutOfFuel end
  | Panic => Panic
  | OutOfFuel => OutOfFuel
  end.
Definition sk_to_bech32 (k : privkey) : result text := kt_to_bech32 (sk_type k) (sk_as_bytes k).
Definition sk_to_public (k : privkey) : bytes :=
  match k with SkNormal b => ed_keypair_pk P b | SkExtended b => ed_ext_pub P b end.
Definition sk_sign (k : privkey) (m : bytes) : bytes :=
  match k with SkNormal b => ed_sign P b m | SkExtended b => ed_sign_ext P b m end.
Definition pk_verify (pk m sg : bytes) : bool := ed_verify P pk m sg.
(* PublicKey::hash = Ed25519KeyHash::from(blake2b224(as_bytes)) *)
Definition pk_hash (pk : bytes) : bytes := blake2b224 P pk.

(* ---- Bip32PrivateKey / Bip32PublicKey (96 = extended secret 64 ++ chain code 32; 64 = public key 32 ++ chain code 32) ---- *)
Definition xprv_from_bytes (bs : bytes) : result bytes := kt_from_binary T_xprv bs.
Definition xprv_chaincode (k : bytes) : bytes := skipn 64 k.
Definition xprv_to_raw_key (k : bytes) : privkey := SkExtended (firstn 64 k).
Definition xprv_to_public (k : bytes) : bytes := xprv_public P k.
Definition xpub_to_raw_key (p : bytes) : bytes := firstn 32 p.
Definition xpub_chaincode (p : bytes) : bytes := skipn 32 p.
Definition bip32_derive_prv (k : bytes) (i : N) : bytes := xprv_derive P k i.
Definition bip32_derive_pub (p : bytes) (i : N) : result bytes :=
  match xpub_derive P p i with Some q => Ok q | None => Err end.
Fixpoint derive_prv_path (k : bytes) (path : list N) : bytes :=
  match path with [] => k | i :: r => derive_prv_path (bip32_derive_prv k i) r end.
Fixpoint derive_pub_path (p : bytes) (path : list N) : result bytes :=
  match path with [] => Ok p | i :: r => let* q := bip32_derive_pub p i in derive_pub_path q r end.
Definition from_bip39_entropy (entropy password : bytes) : bytes :=
  xprv_normalize3 P (pbkdf2_bip39 P password entropy).

(* 128-byte form: extended secret (64) ++ public key (32) ++ chain code (32) *)
Definition to_128_xprv (k : bytes) : bytes :=
  sk_as_bytes (xprv_to_raw_key k) ++ xpub_to_raw_key (xprv_to_public k) ++ xprv_chaincode k.
Definition from_128_xprv_gen (fx : bool) (bs : bytes) : result bytes :=
  if fx then
    if len bs =? 128 then xprv_from_bytes (firstn 64 bs ++ firstn 32 (skipn 96 bs)) else Err
  else
    if len bs <? 128 then Panic                                   (* bytes[0..64] / bytes[96..128] out of range *)
    else xprv_from_bytes (firstn 64 bs ++ firstn 32 (skipn 96 bs)). (* anything after byte 128 is ignored *)
Definition from_128_xprv := from_128_xprv_gen fixed_xprv128_length.

(* ---- hash types (impl_hash_type_macro.rs): any HRP is accepted, only the length is checked ---- *)
Definition hash_from_bytes (n : N) (bs : bytes) : result bytes := if len bs =? n then Ok bs else Err.
Definition hash_to_bech32 (prefix : text) (bs : bytes) : result text :=
  match b32_encode P prefix (b32_to_base32 P bs) with Some s => Ok s | None => Err end.
Definition hash_from_bech32_gen (fx : bool) (n : N) (s : text) : result bytes :=
  match b32_decode P s with
  | None => Err
  | Some (_, d) =>
      match b32_from_base32 P d with
      | Some bs => hash_from_bytes n bs
      | None => if fx then Err else Panic                          (* from_base32(..).unwrap() *)
      end
  end.
Definition hash_from_bech32 := hash_from_bech32_gen fixed_hash_bech32_padding.

(* ---- ByronAddress::attributes = CBOR of legacy_address Attributes {derivation_path, protocol_magic} ---- *)
Definition cbor_bytes (b : bytes) : bytes := encode_head 2 (len b) ++ b.
Definition byron_attributes (dp : option bytes) (magic : option N) : bytes :=
  encode_head 5 ((if dp then 1 else 0) + (if magic then 1 else 0)) ++
  (match dp with Some d => encode_head 0 1 ++ cbor_bytes d | None => [] end) ++
  (match magic with Some m => encode_head 0 2 ++ cbor_bytes (encode_head 0 m) | None => [] end).

(* ---- witness constructors (utils.rs:545-581) ---- *)
Record vkeywitness := { vw_vkey : bytes; vw_sig : bytes }.
Record bootstrapwitness := { bw_vkey : bytes; bw_sig : bytes; bw_cc : bytes; bw_attrs : bytes }.

Definition make_vkey_witness (tx_hash : bytes) (sk : privkey) : vkeywitness :=
  {| vw_vkey := sk_to_public sk; vw_sig := sk_sign sk tx_hash |}.

Definition make_icarus_bootstrap_witness (tx_hash attrs k : bytes) : bootstrapwitness :=
  let raw := xprv_to_raw_key k in
  {| bw_vkey := sk_to_public raw; bw_sig := sk_sign raw tx_hash; bw_cc := xprv_chaincode k; bw_attrs := attrs |}.

(* LegacyDaedalus: compute_public = extended_to_public(key[0..64]) ++ key[64..96]; sign = signature_extended(msg, key[0..64]) *)
Definition legacy_public (k : bytes) : bytes := ed_ext_pub P (firstn 64 k) ++ skipn 64 k.
Definition legacy_sign (k m : bytes) : bytes := ed_sign_ext P (firstn 64 k) m.
Definition make_daedalus_bootstrap_witness (tx_hash attrs k : bytes) : result bootstrapwitness :=
  let* xpub := unwrap (kt_from_binary T_xpub (legacy_public k)) in
  let* sg := unwrap (kt_from_binary T_sig (legacy_sign k tx_hash)) in
  Ok {| bw_vkey := xpub_to_raw_key xpub; bw_sig := sg; bw_cc := skipn 64 k; bw_attrs := attrs |}.

End Wrappers.
