(* C12 — the bech32 fields of [prims] instantiated with the executable model of the bech32 crate (Addr/Bech32.v, proved in
   Addr/Bech32Proofs.v by C11): for this instance the two bech32 laws of Iface.v are THEOREMS, not premises. *)
From CSL Require Import Base.Prelude Crypto.Iface.
From CSL Require Addr.Bech32 Addr.Bech32Proofs.
Local Open Scope N_scope.

Definition opt {A} (r : result A) : option A := match r with Ok a => Some a | _ => None end.

(* [P] with its four bech32 fields replaced by the concrete codec; every other primitive is kept *)
Definition with_bech32 (P : prims) : prims :=
  {| ed_keypair_pk := ed_keypair_pk P; ed_sign := ed_sign P; ed_ext_pub := ed_ext_pub P; ed_sign_ext := ed_sign_ext P;
     ed_verify := ed_verify P; xprv_public := xprv_public P; xprv_derive := xprv_derive P; xpub_derive := xpub_derive P;
     xprv_normalize3 := xprv_normalize3 P; pbkdf2_bip39 := pbkdf2_bip39 P; kdf := kdf P; aead_enc := aead_enc P; aead_dec := aead_dec P;
     b32_to_base32 := Bech32.to_base32;
     b32_from_base32 := fun d => opt (Bech32.from_base32 d);
     b32_encode := fun h d => opt (Bech32.encode h d);
     b32_decode := fun s => opt (Bech32.decode s);
     blake2b224 := blake2b224 P |}.

(* a well-formed lower-case HRP passes the crate's check_hrp and is returned unchanged by decode *)
Lemma check_go_valid h : forallb hrp_char_ok h = true -> forall hl,
  exists c, Bech32.check_hrp_go h hl false = Ok c /\ c <> Bech32.CUpper.
Proof.
  induction h as [|b t IH]; intros H hl; cbn [Bech32.check_hrp_go].
  - exists (if hl then Bech32.CLower else Bech32.CNone). destruct hl; split; try reflexivity; discriminate.
  - cbn [forallb] in H. apply andb_true_iff in H as [Hb Ht]. unfold hrp_char_ok in Hb.
    apply andb_true_iff in Hb as [Hb Hu]. apply andb_true_iff in Hb as [H1 H2].
    assert (E : (b <? 33) || (126 <? b) = false) by lia. rewrite E.
    assert (U : Bech32.is_upper b = false) by (unfold Bech32.is_upper; apply negb_true_iff in Hu; exact Hu).
    rewrite U. destruct (Bech32.is_lower b); cbn [andb]; rewrite ?andb_false_r; apply IH; exact Ht.
Qed.

Lemma hrp_valid_check h : hrp_valid h = true -> exists c, Bech32.check_hrp h = Ok c /\ Bech32.hrp_lower c h = h.
Proof.
  unfold hrp_valid. intros H. apply andb_true_iff in H as [H Hc]. apply andb_true_iff in H as [Hn Hl].
  unfold Bech32.check_hrp.
  assert (E0 : (List.length h =? 0)%nat = false) by (destruct h; [discriminate|reflexivity]).
  assert (E1 : (83 <? List.length h)%nat = false) by (apply Nat.ltb_ge; apply Nat.leb_le; exact Hl).
  rewrite E0, E1. cbn [orb]. destruct (check_go_valid h Hc false) as (c & E & Hne).
  exists c. split; [exact E|]. destruct c; [contradiction|reflexivity|reflexivity].
Qed.

Theorem concrete_base32_roundtrip P : law_base32_roundtrip (with_bech32 P).
Proof. intros bs Hb. cbn [with_bech32 b32_from_base32 b32_to_base32]. rewrite (Bech32Proofs.base32_roundtrip bs Hb). reflexivity. Qed.

Theorem concrete_bech32_roundtrip P : law_bech32_roundtrip (with_bech32 P).
Proof.
  intros h bs Hh Hb. cbn [with_bech32 b32_encode b32_decode b32_to_base32].
  destruct (hrp_valid_check h Hh) as (c & Ec & El).
  pose proof (Bech32Proofs.encode_shape h (Bech32.to_base32 bs) c Ec) as E. rewrite E. cbn [opt].
  eexists. split; [reflexivity|].
  destruct (Bech32Proofs.decode_encode h (Bech32.to_base32 bs) _ (Bech32Proofs.to_base32_lt32 bs Hb) E) as (c' & Ec' & D).
  rewrite Ec in Ec'. injection Ec' as <-. rewrite D, El. reflexivity.
Qed.

(* the other laws do not look at the bech32 fields *)
Lemma with_bech32_keeps P :
  (law_shapes P -> law_shapes (with_bech32 P)) /\ (law_sign_normal P -> law_sign_normal (with_bech32 P)) /\
  (law_sign_extended P -> law_sign_extended (with_bech32 P)) /\ (law_xpub_layout P -> law_xpub_layout (with_bech32 P)) /\
  (law_soft_derivation P -> law_soft_derivation (with_bech32 P)) /\ (law_hard_refused P -> law_hard_refused (with_bech32 P)) /\
  (law_normalize3 P -> law_normalize3 (with_bech32 P)) /\ (law_pbkdf2_bip39_shape P -> law_pbkdf2_bip39_shape (with_bech32 P)) /\
  (law_aead_roundtrip P -> law_aead_roundtrip (with_bech32 P)) /\ (law_aead_shapes P -> law_aead_shapes (with_bech32 P)) /\
  (law_aead_authentic P -> law_aead_authentic (with_bech32 P)) /\ (law_aead_plain_by_ct P -> law_aead_plain_by_ct (with_bech32 P)).
Proof. repeat (split; [let H := fresh in (intro H; exact H)|]). intros H; exact H. Qed.
