(* C12 — correspondence cases, the model's observation for each case, and the judge (the property's executable statement
   evaluated on the IMPLEMENTATION's observation).  Every observation field is a [result bytes] (texts are their character
   codes, booleans are [1]/[0]).  The primitives [P] are instantiated in the driver by tables of calls to the real crates. *)
From CSL Require Import Base.Prelude Base.Hex Cbor.Head Crypto.Iface Crypto.Wrappers Crypto.Emip3 Crypto.WitnessCbor.
Local Open Scope N_scope.

Inductive verdict := Holds | FailsKnown (n : N) | FailsUnknown | NA.

Definition obs := list (result bytes).
Definition ob (b : bool) : result bytes := Ok [if b then 1 else 0].
Definition rmap {A B} (f : A -> B) (r : result A) : result B :=
  match r with Ok a => Ok (f a) | Err => Err | Panic => Panic | OutOfFuel => OutOfFuel end.

Definition res_eqb (a b : result bytes) : bool :=
  match a, b with
  | Ok x, Ok y => list_eqb x y
  | Err, Err => true
  | Panic, Panic => true
  | OutOfFuel, OutOfFuel => true
  | _, _ => false
  end.
Fixpoint obs_eqb (a b : obs) : bool :=
  match a, b with
  | [], [] => true
  | x :: a', y :: b' => res_eqb x y && obs_eqb a' b'
  | _, _ => false
  end.
Definition is_panic (r : result bytes) : bool := match r with Panic => true | _ => false end.
Definition has_panic (o : obs) : bool := existsb is_panic o.

(* type tags: 0 PrivateKey(normal) 1 PrivateKey(extended) 2 PublicKey 3 Ed25519Signature 4 Bip32PrivateKey 5 Bip32PublicKey
   6 LegacyDaedalus secret key 7 28-byte hash (Ed25519KeyHash) 8 32-byte hash (TransactionHash)
   formats: 0 bytes, 1 hex text, 2 bech32 text, 3 128-byte xprv (type 4 only) *)
Inductive case :=
| CEnc (tk : N) (bs : bytes)
| CDec (tk fmt : N) (input : bytes)
| CSign (tk : N) (key msg msg2 key2 : bytes)
| CWit (wk : N) (hash key : bytes) (dp : option bytes) (magic : option N)   (* 0/1 vkey witness normal/extended, 2 Icarus, 3 Daedalus *)
| CDerive (root : bytes) (path : list N)
| CPkHash (pk : bytes)                              (* PublicKey::from_bytes(pk).hash() *)
| CPubDerive (xpub : bytes) (path : list N)        (* Bip32PublicKey::from_bytes then derive along the path *)
| CBip39 (entropy password : bytes)
| CX128 (k : bytes)
| CEnc3 (tp ts tn td : text)
| CDec3 (tp tc : text).

Definition ktype_of (tk : N) : ktype :=
  match tk with 0 => T_sk_normal | 1 => T_sk_ext | 2 => T_pk | 3 => T_sig | 4 => T_xprv | 5 => T_xpub | _ => T_legacy end.
Definition hash_size (tk : N) : N := if tk =? 7 then 28 else 32.
Definition sk_repr (k : privkey) : bytes := match k with SkNormal b => 0 :: b | SkExtended b => 1 :: b end.
(* cryptoxide's scalarmult_base has a debug assertion behind its precondition a[31] <= 127: in the (debug-assertion) build
   of the harness an extended key outside it panics as soon as its public key or a signature is computed *)
Definition sk_usable (k : privkey) : bool := match k with SkNormal _ => true | SkExtended b => ext_scalar_ok b end.

Section Obs.
Variable P : prims.

Definition sk_from_bytes_tk (tk : N) (bs : bytes) : result privkey :=
  if tk =? 0 then sk_from_normal_bytes bs else sk_from_extended_bytes bs.

Definition obs_enc (tk : N) (bs : bytes) : obs :=
  if tk <=? 1 then
    match sk_from_bytes_tk tk bs with
    | Ok k => [Ok (sk_repr k); Ok (hex (sk_as_bytes k)); rmap sk_repr (sk_from_hex (hex (sk_as_bytes k)));
               sk_to_bech32 P k; (let* s := sk_to_bech32 P k in rmap sk_repr (sk_from_bech32 P s))]
    | r => [rmap sk_repr r]
    end
  else if tk =? 6 then
    match kt_from_binary T_legacy bs with
    | Ok b => [Ok b; Ok (skipn 64 b); Ok (skipn 64 b); kt_to_bech32 P T_legacy b;
               (let* s := kt_to_bech32 P T_legacy b in kt_from_bech32 P T_legacy s)]
    | r => [r]
    end
  else
    let T := ktype_of tk in
    match kt_from_binary T bs with
    | Ok b => [Ok b; Ok (hex b); kt_from_hex T (hex b); kt_to_bech32 P T b;
               (let* s := kt_to_bech32 P T b in kt_from_bech32 P T s)]
    | r => [r]
    end.

Definition obs_dec (tk fmt : N) (input : bytes) : obs :=
  if tk <=? 1 then
    [rmap sk_repr (if fmt =? 0 then sk_from_bytes_tk tk input else if fmt =? 1 then sk_from_hex input else sk_from_bech32 P input)]
  else if 7 <=? tk then
    let n := hash_size tk in
    [if fmt =? 0 then hash_from_bytes n input
     else if fmt =? 1 then match unhex input with Some b => hash_from_bytes n b | None => Err end
     else hash_from_bech32 P n input]
  else if (tk =? 4) && (fmt =? 3) then [from_128_xprv input]
  else
    let T := ktype_of tk in
    [if fmt =? 0 then kt_from_binary T input else if fmt =? 1 then kt_from_hex T input else kt_from_bech32 P T input].

Definition obs_sign (tk : N) (key msg msg2 key2 : bytes) : obs :=
  match sk_from_bytes_tk tk key, sk_from_bytes_tk tk key2 with
  | Ok k, Ok k2 =>
      if sk_usable k && sk_usable k2 then
        let pub := sk_to_public P k in let sg := sk_sign P k msg in
        [Ok pub; Ok sg; ob (pk_verify P pub msg sg); ob (pk_verify P pub msg2 sg); ob (pk_verify P (sk_to_public P k2) msg sg)]
      else [Panic]
  | _, _ => [Err]
  end.

Definition obs_wit (wk : N) (hash key : bytes) (dp : option bytes) (magic : option N) : obs :=
  let attrs := byron_attributes dp magic in
  if wk <=? 1 then
    match sk_from_bytes_tk wk key with
    | Ok k => if sk_usable k then
                let w := make_vkey_witness P hash k in
                [Ok (vw_vkey w); Ok (vw_sig w); ob (pk_verify P (vw_vkey w) hash (vw_sig w)); Ok (vkeywitness_to_bytes w)]
              else [Panic]
    | _ => [Err]
    end
  else if wk =? 2 then
    match xprv_from_bytes key with
    | Ok k => let w := make_icarus_bootstrap_witness P hash attrs k in
              [Ok (bw_vkey w); Ok (bw_sig w); ob (pk_verify P (bw_vkey w) hash (bw_sig w)); Ok (bw_cc w); Ok (bw_attrs w); Ok (bootstrapwitness_to_bytes w)]
    | _ => [Err]
    end
  else
    match kt_from_binary T_legacy key with
    | Ok k => if ext_scalar_ok (firstn 64 k) then
                match make_daedalus_bootstrap_witness P hash attrs k with
                | Ok w => [Ok (bw_vkey w); Ok (bw_sig w); ob (pk_verify P (bw_vkey w) hash (bw_sig w)); Ok (bw_cc w); Ok (bw_attrs w); Ok (bootstrapwitness_to_bytes w)]
                | Err => [Err] | Panic => [Panic] | OutOfFuel => [OutOfFuel]
                end
              else [Panic]
    | _ => [Err]
    end.

Definition obs_derive (root : bytes) (path : list N) : obs :=
  match xprv_from_bytes root with
  | Ok k =>
      let kf := derive_prv_path P k path in
      let pf := xprv_to_public P kf in
      [Ok kf; Ok pf; derive_pub_path P (xprv_to_public P k) path; xprv_from_bytes kf;
       Ok (sk_to_public P (xprv_to_raw_key kf)); Ok (xpub_to_raw_key pf); Ok (xprv_chaincode kf); Ok (xpub_chaincode pf)]
  | _ => [Err]
  end.

Definition obs_pubderive (xpub : bytes) (path : list N) : obs :=
  match kt_from_binary T_xpub xpub with
  | Ok p => [derive_pub_path P p path]
  | _ => [Err]
  end.

Definition obs_pkhash (pk : bytes) : obs :=
  match kt_from_binary T_pk pk with Ok b => [Ok (pk_hash P b)] | _ => [Err] end.

Definition obs_bip39 (entropy password : bytes) : obs :=
  let k := from_bip39_entropy P entropy password in [Ok k; xprv_from_bytes k].

Definition obs_x128 (k : bytes) : obs :=
  match xprv_from_bytes k with
  | Ok k => [Ok (to_128_xprv P k); from_128_xprv (to_128_xprv P k)]
  | _ => [Err]
  end.

Definition obs_enc3 (tp ts tn td : text) : obs :=
  match encrypt_with_password P tp ts tn td with
  | Ok c => [Ok c; decrypt_with_password P tp c]
  | r => [r]
  end.

Definition obs_dec3 (tp tc : text) : obs := [decrypt_with_password P tp tc].

Definition model_obs (c : case) : obs :=
  match c with
  | CEnc tk bs => obs_enc tk bs
  | CDec tk fmt i => obs_dec tk fmt i
  | CSign tk k m m2 k2 => obs_sign tk k m m2 k2
  | CWit wk h k dp mg => obs_wit wk h k dp mg
  | CDerive r p => obs_derive r p
  | CPubDerive x p => obs_pubderive x p
  | CPkHash pk => obs_pkhash pk
  | CBip39 e pw => obs_bip39 e pw
  | CX128 k => obs_x128 k
  | CEnc3 tp ts tn td => obs_enc3 tp ts tn td
  | CDec3 tp tc => obs_dec3 tp tc
  end.

(* ---------------- known classes (only while the matching switch is off) ---------------- *)
(* 1: from_128_xprv on an input that is not exactly 128 bytes long *)
Definition known_xprv128_length (c : case) : bool :=
  negb fixed_xprv128_length &&
  match c with CDec tk fmt i => (tk =? 4) && (fmt =? 3) && negb (len i =? 128) | _ => false end.
(* 2: <hash>::from_bech32 on a checksum-valid text whose 5-bit groups do not regroup into bytes *)
Definition known_hash_padding (c : case) : bool :=
  negb fixed_hash_bech32_padding &&
  match c with
  | CDec tk fmt i => (7 <=? tk) && (fmt =? 2) &&
      match b32_decode P i with Some (_, d) => match b32_from_base32 P d with None => true | Some _ => false end | None => false end
  | _ => false
  end.
(* 3: an extended (or legacy Daedalus) secret key whose scalar has bit 255 set is accepted and then cannot sign *)
Definition bad_scalar (b : bytes) : bool := (64 <=? len b) && negb (ext_scalar_ok b).
Definition known_ext_scalar (c : case) : bool :=
  negb fixed_ext_scalar_check &&
  match c with
  | CSign tk k _ _ k2 => (tk =? 1) && (bad_scalar k || bad_scalar k2)
  | CWit wk _ k _ _ => ((wk =? 1) || (wk =? 3)) && bad_scalar k
  | CEnc tk k => ((tk =? 1) || (tk =? 6)) && bad_scalar k
  | CDec tk fmt k => ((tk =? 1) || (tk =? 6)) && (fmt =? 0) && bad_scalar k
  | _ => false
  end.
(* 4: EMIP-3 with an empty plaintext *)
Definition known_emip3_empty (c : case) : bool :=
  negb fixed_emip3_empty &&
  match c with CEnc3 _ _ _ td => match unhex td with Some [] => true | _ => false end | _ => false end.

(* 5 (not repaired): a BIP32 private key whose scalar has bit 253 set passes the structure check of from_bytes (only bits 255/254 and the
   three lowest are tested), and deriving from it can carry into bit 255: the derived key is then no valid key any more (from_bytes of its
   own bytes fails).  BIP32-Ed25519 admits only roots with bit 253 clear, but bit 253 is legitimately set in DERIVED keys, so the import
   check cannot simply demand it.  Class = derivation from a root with bit 253 set that ends in a key failing the structure check. *)
Definition bit253 (k : bytes) : bool := (nth 31 k 0 / 32) mod 2 =? 1.
Definition known_bit253_overflow (c : case) : bool :=
  match c with
  | CDerive root path => is_ok (xprv_from_bytes root) && bit253 root && negb (xprv_bits_ok (derive_prv_path P root path))
  | _ => false
  end.

Definition known_class (c : case) : N :=
  if known_xprv128_length c then 1 else if known_hash_padding c then 2 else if known_ext_scalar c then 3
  else if known_emip3_empty c then 4 else if known_bit253_overflow c then 5 else 0.

(* ---------------- the property's statement on an observation ---------------- *)
Definition all_soft (path : list N) : bool := forallb soft path.
Definition is_ok_b (r : result bytes) : bool := match r with Ok _ => true | _ => false end.
Definition is_err_b (r : result bytes) : bool := match r with Err => true | _ => false end.

(* expected HRP of a bech32 input, when the type has one *)
Definition hrp_accepted (tk : N) (h : text) : bool :=
  if tk <=? 1 then list_eqb h hrp_ed25519_sk || list_eqb h hrp_ed25519e_sk
  else if 7 <=? tk then true
  else list_eqb h (kt_hrp (ktype_of tk)).

Definition stmt (c : case) (io : obs) : bool :=
  match c, io with
  (* encodings: bytes, hex and bech32 forms of an accepted value all lead back to the same value *)
  | CEnc tk bs, [Ok v; Ok h; rh; Ok s; rb] =>
      let want := if tk <=? 1 then tk :: bs else bs in
      list_eqb v want && (if tk =? 6 then true else list_eqb h (hex bs) && res_eqb rh (Ok want)) && res_eqb rb (Ok want) &&
      match b32_decode P s with Some (hrp, _) => list_eqb hrp (kt_hrp (ktype_of tk)) | None => false end
  | CEnc tk bs, [Err] => true
  (* decoding: a bech32 text with a human-readable part the type does not accept is an error *)
  | CDec tk fmt i, [r] =>
      if fmt =? 2 then
        match b32_decode P i with
        | Some (h, _) => if hrp_accepted tk h then true else is_err_b r
        | None => is_err_b r
        end
      else if (fmt =? 3) && (tk =? 4) then (if len i =? 128 then true else is_err_b r)
      else true
  (* signatures verify under the matching key, not under another message / key *)
  | CSign tk k m m2 k2, [Ok pub; Ok sg; v1; v2; v3] =>
      res_eqb v1 (ob true) && (len sg =? 64) && (len pub =? 32)
  | CSign _ _ _ _ _, [Err] => true
  (* witnesses: signature over exactly the hash bytes, verifying under the key in the witness *)
  | CWit wk h k dp mg, Ok vk :: Ok sg :: v :: rest =>
      res_eqb v (ob true) &&
      (if wk <=? 1 then
         match sk_from_bytes_tk wk k with Ok sk => list_eqb sg (sk_sign P sk h) && list_eqb vk (sk_to_public P sk) | _ => false end &&
         (* the serialized witness is the CBOR array [vkey, signature] of exactly these two values *)
         obs_eqb rest [Ok (vkeywitness_to_bytes {| vw_vkey := vk; vw_sig := sg |})]
       else
         list_eqb sg (ed_sign_ext P (firstn 64 k) h) && list_eqb vk (ed_ext_pub P (firstn 64 k)) &&
         obs_eqb rest [Ok (skipn 64 k); Ok (byron_attributes dp mg);
                       Ok (bootstrapwitness_to_bytes {| bw_vkey := vk; bw_sig := sg; bw_cc := skipn 64 k; bw_attrs := byron_attributes dp mg |})])
  | CWit _ _ _ _ _, [Err] => true
  (* derivation: public derivation along a soft path agrees with private derivation; a hardened index is refused;
     derived keys keep round-tripping; raw public key and chain code agree on both routes *)
  | CDerive root path, [Ok kf; Ok pf; rp; rk; Ok ra; Ok rb; Ok ca; Ok cb] =>
      (if all_soft path then res_eqb rp (Ok pf) else is_err_b rp) && list_eqb ra rb && list_eqb ca cb
  | CDerive _ _, [Err] => true
  | CPubDerive _ path, [r] => if all_soft path then true else is_err_b r
  | CPkHash _, [r] => true          (* the hash function is uninterpreted: the statement is the equality with the model *)
  | CBip39 _ _, [Ok k; rk] => res_eqb rk (Ok k)
  | CX128 k, [Ok x; rk] => res_eqb rk (Ok k) && (len x =? 128) && list_eqb (firstn 64 x) (firstn 64 k) && list_eqb (skipn 96 x) (skipn 64 k)
  | CX128 _, [Err] => true
  (* EMIP-3: valid parameters encrypt, and the result decrypts to the plaintext; anything else is an error *)
  | CEnc3 tp ts tn td, io =>
      match unhex tp, unhex ts, unhex tn, unhex td with
      | Some pw, Some s, Some n, Some d =>
          if (len s =? 32) && (len n =? 12) && negb (len pw =? 0) then
            match io with [Ok c; rd] => res_eqb rd (Ok (hex d)) && (len c =? 2 * (60 + len d)) | _ => false end
          else obs_eqb io [Err]
      | _, _, _, _ => obs_eqb io [Err]
      end
  | CDec3 _ _, [r] => true
  | _, _ => false
  end.

(* the part of the property that no functional law of the primitives gives (it is TESTED on the real crates, not proved):
   a signature does not verify under another message or another key; keys derived along the path still pass the structure
   check of from_bytes *)
Definition stmt_tested (c : case) (io : obs) : bool :=
  match c, io with
  | CSign tk k m m2 k2, [Ok pub; Ok sg; v1; v2; v3] =>
      (list_eqb m m2 || res_eqb v2 (ob false)) &&
      (* "another key" = another PUBLIC key: two extended secrets with the same scalar share the public key *)
      (match sk_from_bytes_tk tk k2 with Ok sk2 => list_eqb pub (sk_to_public P sk2) | _ => true end || res_eqb v3 (ob false))
  | CDerive root path, [Ok kf; Ok pf; rp; rk; Ok ra; Ok rb; Ok ca; Ok cb] => res_eqb rk (Ok kf)
  | _, _ => true
  end.

Definition judge (c : case) (io : obs) : verdict :=
  let kc := known_class c in
  if has_panic io then (if kc =? 0 then FailsUnknown else FailsKnown kc)
  else if negb (obs_eqb io (model_obs c)) then
    (* the implementation does not do what the modelled wrapper does *)
    (if kc =? 0 then FailsUnknown else FailsKnown kc)
  else if stmt c io && stmt_tested c io then Holds
  else (if kc =? 0 then FailsUnknown else FailsKnown kc).

(* ---------------- sequences of calls made one after the other in ONE process and thread ----------------
   The model of a sequence is the list of the models of its steps: [model_obs] is a function of the step alone, so whatever an
   implementation remembers from earlier calls (caches, thread-locals, statics) and lets influence a later result shows up as a
   disagreement at that step; every step is judged by the statement of its own kind. *)
Definition model_seq (l : list case) : list obs := map model_obs l.
Fixpoint judge_seq (l : list case) (ios : list obs) : verdict :=
  match l, ios with
  | [], [] => Holds
  | c :: l', io :: ios' => match judge c io with Holds => judge_seq l' ios' | v => v end
  | _, _ => FailsUnknown
  end.

End Obs.
