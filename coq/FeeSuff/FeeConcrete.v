(* FeeSuff/FeeConcrete.v — C06: the size environment made CONCRETE on the sub-class of builder states that
   MinAda/TxSize.v (C07, on C13's encoder lemmas) and Witnesses/* (C18) cover:

       key and Byron inputs, plain / asset / datum / script-ref outputs;
       no explicit required signers (they are also a body field, key 14, outside TxSize.v's bodies with keys 0, 1, 2), no
       certificates, withdrawals, mint, proposals, scripts, reference inputs, collateral, ttl, auxiliary data.

   [cenv I a b max_tx] instantiates FeeModel.env:
       K(st)   = 3 + 7 + witness_set_size (count_needed_vkeys ops) (bootstrap witness sizes) + inputs_size
                 (TxSize.full_tx_size without its fee and outputs terms; the witness counts are C18's model of
                 count_needed_vkeys / get_bootstraps on the history [ops_of I st] of the builder's inputs and signers)
       obase   = OutputSize.out_size of the output with coin 0 and no assets, minus that one-byte coin
       ex-unit and reference-script parts = 0
   and [fee_exact] holds for the oracle [with_fee (cenv ..) base] by definition — no oracle premise is left.

   [signed_by_required I st F x]: x is a concrete transaction (Batch/Denote values of Ledger/Schemas.v) that carries the
   inputs and outputs of st, the fee F, one vkey witness per key of C18's required_keys_spec and one bootstrap witness
   (of the size C18 proves for it) per address of required_boots_spec.

   Theorems
     concrete_size_is_encoding   tx_size (cenv ..) st F = length (enc (Transaction d) x)
     add_change_concrete         add_change = Ok st'  ->  a * |enc (signed st')| + b <= fee st'        (C06_sufficient_concrete)
     build_tx_concrete           build_tx = Ok body   ->  a * |enc (signed st)| + b <= b_fee body       (C06_validate_concrete) *)
From CSL Require Import Base.Prelude Base.U64 Cbor.Head Cbor.HeadProofs Num.Value Deposits.Deposits
  Builder.Totals Builder.Change FeeSuff.FeeModel FeeSuff.FeeSpec FeeSuff.FeeProofs.
From CSL Require Codec.Schema Ledger.Schemas MinAda.OutputSize MinAda.SchemaTie MinAda.TxSize
  Witnesses.Witnesses Witnesses.WitnessSpec Witnesses.WitnessProofs.
From Coq Require Import Permutation.
Local Open Scope N_scope.


(* ------------------------------------------------------------------------------------------- *)
(* interpretation of the identifiers of C05's state *)

Inductive iowner : Type := IKey (k : N) | IByron (a : N).

Record interp : Type := mkInterp {
  i_index : N -> N;                    (* output index of the outpoint of input id *)
  i_owner : N -> iowner;               (* payment key hash / Byron address of input id *)
  i_attrs : Witnesses.WitnessSpec.attr_table;             (* length of the attributes of every Byron address *)
  i_addr_len : N -> N;                 (* byte length of address id *)
  i_datum : N -> MinAda.OutputSize.datum;             (* datum / script reference of the identifier o_extra *)
  i_sref : N -> option MinAda.OutputSize.sref
}.

Definition owner_of (w : iowner) : Witnesses.Witnesses.owner := match w with IKey k => Witnesses.Witnesses.OKey k | IByron a => Witnesses.Witnesses.OByron a end.

(* the history of the builder as far as witnesses go: one add per input (the inputs of C05's state are a map:
   one entry per outpoint); nothing else *)
Definition ops_of (I : interp) (st : state) : Witnesses.Witnesses.tx_ops :=
  Witnesses.Witnesses.Build_tx_ops (map (fun e => Witnesses.Witnesses.InAdd (fst e) (owner_of (i_owner I (fst e)))) (s_inputs st))
                 [] [] [] [] [] [] [] [] [] false.

Definition boot_sizes (I : interp) (l : list N) : list N :=
  map (fun a => Witnesses.WitnessSpec.boot_witness_size (Witnesses.WitnessSpec.attr_len (i_attrs I) a)) l.

(* the fake full transaction outside its fee integer and its outputs *)
Definition concrete_k (I : interp) (st : state) : N :=
  3 + 7 + MinAda.TxSize.witness_set_size (Witnesses.Witnesses.count_needed_vkeys (ops_of I st)) (boot_sizes I (Witnesses.Witnesses.needed_bootstraps (ops_of I st)))
  + MinAda.TxSize.inputs_size (map (fun e => i_index I (fst e)) (s_inputs st)).

Definition concrete_obase (I : interp) (a x : N) : N :=
  MinAda.OutputSize.out_size (MinAda.OutputSize.mkOut (i_addr_len I a) 0 [] (i_datum I x) (i_sref I x)) - 1.

Definition cenv (I : interp) (a b max_tx : N) : env :=
  mkEnv a b max_tx (concrete_k I) (concrete_obase I) (fun _ => Ok 0) (fun _ => Ok 0).

(* the sub-class *)
Definition plain_state (st : state) : Prop :=
  s_certs st = None /\ s_withdrawals st = None /\ s_mint st = None /\ s_proposals st = None.

(* ------------------------------------------------------------------------------------------- *)
(* the concrete signed transaction *)

Definition opt_cma (m : option multiasset) : MinAda.SchemaTie.cma := match m with Some x => x | None => [] end.

Section Concrete.
Variable d : nat.

(* a concrete output for an output of the state *)
Definition out_rel (I : interp) (o : output) (co : MinAda.SchemaTie.coutput) : Prop :=
  MinAda.SchemaTie.len (MinAda.SchemaTie.co_addr co) = i_addr_len I (o_addr o) /\
  MinAda.SchemaTie.co_coin co = coin (o_amount o) /\
  MinAda.SchemaTie.co_ma co = opt_cma (multiasset_of (o_amount o)) /\
  MinAda.SchemaTie.shape_datum d (MinAda.SchemaTie.co_datum co) = i_datum I (o_extra o) /\
  option_map (MinAda.SchemaTie.shape_sref d) (MinAda.SchemaTie.co_sref co) = i_sref I (o_extra o).

Definition signed_by_required (I : interp) (st : state) (F : N) (x : MinAda.TxSize.ctx) : Prop :=
  MinAda.TxSize.ctx_ok x /\
  map snd (MinAda.TxSize.x_inputs x) = map (fun e => i_index I (fst e)) (s_inputs st) /\
  Forall2 (out_rel I) (s_outputs st) (MinAda.TxSize.x_outputs x) /\
  MinAda.TxSize.x_fee x = F /\
  (* exactly the required keys sign *)
  length (MinAda.TxSize.x_vkeys x) = length (Witnesses.WitnessSpec.required_keys_spec (ops_of I st)) /\
  (* one bootstrap witness per required Byron address, of the size C18 proves for real witnesses *)
  map (fun b => MinAda.SchemaTie.len (Codec.Schema.enc Ledger.Schemas.BootstrapWitness b)) (MinAda.TxSize.x_boots x)
  = boot_sizes I (Witnesses.WitnessSpec.required_boots_spec (ops_of I st)).

(* ---- sizes of values and outputs: FeeModel's algebra = OutputSize's ---- *)

Lemma os_sumN l : MinAda.OutputSize.sumN l = sumN l.
Proof. reflexivity. Qed.

Lemma assets_size_eq (a : assets) :
  MinAda.OutputSize.assets_size (map (fun x => (MinAda.SchemaTie.len (fst x), snd x)) a) = assets_size a.
Proof.
  unfold MinAda.OutputSize.assets_size, assets_size, MinAda.OutputSize.lenN, lenN. rewrite map_length, map_map. reflexivity.
Qed.

Lemma ma_size_eq (m : multiasset) :
  Forall (fun p => MinAda.SchemaTie.len (fst p) = 28) m -> MinAda.OutputSize.ma_size (MinAda.SchemaTie.shape_ma m) = ma_size m.
Proof.
  intros H. unfold MinAda.OutputSize.ma_size, ma_size, MinAda.SchemaTie.shape_ma, MinAda.OutputSize.lenN, lenN. rewrite map_length, map_map. f_equal.
  rewrite os_sumN. induction H as [|p m Hp _ IH]; [reflexivity|].
  cbn [map]. unfold sumN in *. cbn [fold_right]. rewrite IH. f_equal.
  unfold MinAda.OutputSize.policy_size, policy_size. rewrite assets_size_eq. unfold MinAda.SchemaTie.len in Hp. unfold lenN. rewrite Hp. reflexivity.
Qed.

Lemma ma_present_eq (m : multiasset) :
  MinAda.OutputSize.ma_present (MinAda.SchemaTie.shape_ma m) = match ma_reduce_empty_to_none m with Some _ => true | None => false end.
Proof.
  unfold ma_reduce_empty_to_none.
  assert (E : MinAda.OutputSize.ma_present (MinAda.SchemaTie.shape_ma m)
              = existsb (fun pa : bytes * assets => match snd pa with [] => false | _ => true end) m).
  { unfold MinAda.OutputSize.ma_present, MinAda.SchemaTie.shape_ma.
    induction m as [|[p a] m IH]; [reflexivity|]. cbn [map existsb snd]. rewrite IH. destruct a; reflexivity. }
  rewrite E. destruct (existsb _ m); reflexivity.
Qed.

Lemma value_size_eq (v : value) :
  Forall (fun p => MinAda.SchemaTie.len (fst p) = 28) (opt_cma (multiasset_of v)) ->
  MinAda.OutputSize.value_size (coin v) (MinAda.SchemaTie.shape_ma (opt_cma (multiasset_of v))) = value_size v.
Proof.
  intros H. unfold MinAda.OutputSize.value_size, value_size, value_extra.
  destruct (multiasset_of v) as [m|]; cbn [opt_cma] in *.
  - rewrite ma_present_eq. unfold ma_reduce_empty_to_none.
    destruct (existsb _ m); [rewrite (ma_size_eq m H); lia | lia].
  - cbn. lia.
Qed.

(* OutputSize.out_size = a part that ignores the value + the size of the value *)
Lemma os_out_size_split al c ma dt sr :
  MinAda.OutputSize.out_size (MinAda.OutputSize.mkOut al c ma dt sr) = (MinAda.OutputSize.out_size (MinAda.OutputSize.mkOut al 0 [] dt sr) - 1) + MinAda.OutputSize.value_size c ma.
Proof.
  unfold MinAda.OutputSize.out_size, MinAda.OutputSize.map_form, MinAda.OutputSize.out_value_size. cbn [MinAda.OutputSize.o_addr MinAda.OutputSize.o_coin MinAda.OutputSize.o_ma MinAda.OutputSize.o_datum MinAda.OutputSize.o_sref].
  change (MinAda.OutputSize.value_size 0 []) with 1.
  destruct (MinAda.OutputSize.is_inline dt || MinAda.OutputSize.is_some sr); lia.
Qed.

Lemma out_size_concrete (I : interp) a b mx (o : output) (co : MinAda.SchemaTie.coutput) :
  out_rel I o co -> MinAda.SchemaTie.ids28 (MinAda.SchemaTie.co_ma co) ->
  MinAda.OutputSize.out_size (MinAda.SchemaTie.shape d co) = out_size (cenv I a b mx) o.
Proof.
  intros (Ha & Hc & Hm & Hd & Hs) H28. unfold MinAda.SchemaTie.shape. rewrite Ha, Hc, Hm, Hd, Hs.
  rewrite os_out_size_split. unfold out_size, cenv, concrete_obase. cbn [e_obase].
  rewrite value_size_eq; [reflexivity|]. rewrite <- Hm. exact H28.
Qed.

Lemma forall2_length {A B} (R : A -> B -> Prop) l l' : Forall2 R l l' -> length l = length l'.
Proof. induction 1; cbn; congruence. Qed.

Lemma outs_size_concrete (I : interp) a b mx (outs : list output) (couts : list MinAda.SchemaTie.coutput) :
  Forall2 (out_rel I) outs couts -> Forall (fun co => MinAda.SchemaTie.ids28 (MinAda.SchemaTie.co_ma co)) couts ->
  MinAda.TxSize.outputs_size (map (MinAda.SchemaTie.shape d) couts) = outs_size (cenv I a b mx) outs.
Proof.
  intros H H28. unfold MinAda.TxSize.outputs_size, outs_size, MinAda.OutputSize.lenN, lenN. rewrite map_length.
  rewrite <- (forall2_length _ _ _ H). f_equal. rewrite os_sumN.
  induction H as [|o co outs couts Ho _ IH]; [reflexivity|].
  inversion H28; subst. cbn [map]. unfold sumN in *. cbn [fold_right].
  rewrite IH by assumption. f_equal. apply out_size_concrete; assumption.
Qed.

Lemma perm_sumN (l l' : list N) : Permutation l l' -> sumN l = sumN l'.
Proof. unfold sumN. induction 1; cbn [fold_right]; lia. Qed.

Lemma wss_perm v (l l' : list N) : Permutation l l' -> MinAda.TxSize.witness_set_size v l = MinAda.TxSize.witness_set_size v l'.
Proof.
  intros H. unfold MinAda.TxSize.witness_set_size, MinAda.OutputSize.lenN.
  assert (E1 : length l = length l') by (apply Permutation_length; exact H).
  assert (E2 : MinAda.OutputSize.sumN l = MinAda.OutputSize.sumN l') by (rewrite !os_sumN; apply perm_sumN; exact H).
  rewrite E1, E2. reflexivity.
Qed.

Lemma ops_of_core I st : ops_of I (core st) = ops_of I st.
Proof. destruct st; reflexivity. Qed.

Lemma known_genesis_plain I st : Witnesses.WitnessSpec.known_genesis (ops_of I st) = false.
Proof.
  unfold Witnesses.WitnessSpec.known_genesis, Witnesses.Witnesses.needed_vkeys_gen, ops_of. cbn. rewrite Nat.eqb_refl. reflexivity.
Qed.

(* the size the fee is computed from is the length of the encoded transaction signed by exactly the required keys *)
Theorem concrete_size_is_encoding (I : interp) a b mx (st : state) (F : N) (x : MinAda.TxSize.ctx) :
  signed_by_required I st F x -> Witnesses.WitnessProofs.all_consistent (ops_of I st) = true ->
  tx_size (cenv I a b mx) st F = MinAda.SchemaTie.len (MinAda.TxSize.enc_tx d x).
Proof.
  intros (Hok & Hin & Hout & Hfee & Hvk & Hbt) HC.
  rewrite (MinAda.TxSize.full_tx_size_is_encoding d x Hok).
  pose proof (Witnesses.WitnessProofs.signers_union (ops_of I st) HC (known_genesis_plain I st)) as Hcount.
  pose proof (Witnesses.WitnessProofs.boots_spec (ops_of I st) HC) as Hperm.
  destruct Hok as (_ & Ho28 & _).
  unfold tx_size, MinAda.TxSize.full_tx_size, MinAda.TxSize.ctx_shape, MinAda.TxSize.mkTx0, MinAda.TxSize.extras_size.
  cbn [MinAda.TxSize.t_inputs MinAda.TxSize.t_outputs MinAda.TxSize.t_fee MinAda.TxSize.t_vkeys MinAda.TxSize.t_boots MinAda.TxSize.t_col_inputs MinAda.TxSize.t_col_return MinAda.TxSize.t_col_total MinAda.TxSize.t_aux].
  cbn [cenv e_k]. unfold concrete_k. rewrite ops_of_core.
  replace (s_inputs (core st)) with (s_inputs st) by (destruct st; reflexivity).
  rewrite Hin, Hfee, Hbt.
  rewrite (outs_size_concrete I a b mx (s_outputs st) (MinAda.TxSize.x_outputs x) Hout)
    by (eapply Forall_impl; [|exact Ho28]; intros co (H28 & _); exact H28).
  assert (EV : MinAda.OutputSize.lenN (MinAda.TxSize.x_vkeys x) = Witnesses.Witnesses.count_needed_vkeys (ops_of I st)).
  { unfold MinAda.OutputSize.lenN. rewrite Hvk. symmetry. exact Hcount. }
  rewrite EV.
  assert (EB : MinAda.TxSize.witness_set_size (Witnesses.Witnesses.count_needed_vkeys (ops_of I st)) (boot_sizes I (Witnesses.WitnessSpec.required_boots_spec (ops_of I st)))
               = MinAda.TxSize.witness_set_size (Witnesses.Witnesses.count_needed_vkeys (ops_of I st)) (boot_sizes I (Witnesses.Witnesses.needed_bootstraps (ops_of I st)))).
  { apply wss_perm. unfold boot_sizes. apply Permutation_map. apply Permutation_sym.
    change (Witnesses.Witnesses.needed_bootstraps (ops_of I st)) with (Witnesses.Witnesses.needed_bootstraps_gen true (ops_of I st)). exact Hperm. }
  rewrite EB. lia.
Qed.

Lemma with_fee_exact {O} (e : env) (base : @oracle O) : fee_exact e (with_fee e base).
Proof. intros st o. reflexivity. Qed.

Lemma need_concrete I a b mx st F : need (cenv I a b mx) st F = a * tx_size (cenv I a b mx) st F + b.
Proof. unfold need, need_w, tx_size. cbn [cenv e_a e_b e_ex e_ref e_k res_or0]. lia. Qed.

(* C06_sufficient_concrete: no oracle premise.  The fee answers are the concrete linear fee of the concrete size; min-ADA,
   size-test and selection answers ([base]) are arbitrary. *)
Theorem add_change_concrete {O} (base : @oracle O) (I : interp) a b mx fuel addr extra r st st' (o o' : O) :
  add_change (with_fee (cenv I a b mx) base) fuel addr extra st o = mkOut (Ok r) st' o' ->
  (forall y, s_fee_request st <> FeeExactly y) ->
  Witnesses.WitnessProofs.all_consistent (ops_of I st') = true ->
  exists F, s_fee st' = Some F /\
    forall x, signed_by_required I st' F x -> a * MinAda.SchemaTie.len (MinAda.TxSize.enc_tx d x) + b <= F.
Proof.
  intros H Hne HC.
  destruct (add_change_fee_sufficient _ _ (with_fee_exact (cenv I a b mx) base) _ _ _ _ _ _ _ _ H Hne) as (F & HF & Hn).
  exists F. split; [exact HF|]. intros x Hx.
  rewrite need_concrete in Hn. rewrite (concrete_size_is_encoding I a b mx st' F x Hx HC) in Hn. exact Hn.
Qed.

(* C06_validate_concrete: whatever the history, a body build_tx returns carries a fee that covers the encoded transaction
   signed by exactly the required keys *)
Theorem build_tx_concrete {O} (base : @oracle O) (I : interp) a b mx body st st' (o o' : O) :
  build_tx (with_fee (cenv I a b mx) base) st o = mkOut (Ok body) st' o' ->
  Witnesses.WitnessProofs.all_consistent (ops_of I st) = true ->
  forall x, signed_by_required I st (b_fee body) x -> a * MinAda.SchemaTie.len (MinAda.TxSize.enc_tx d x) + b <= b_fee body.
Proof.
  intros H HC x Hx.
  destruct (build_tx_validates _ _ (with_fee_exact (cenv I a b mx) base) _ _ _ _ _ H) as (F & HF & Hb & Hn & _).
  rewrite Hb in *. rewrite need_concrete in Hn.
  rewrite (concrete_size_is_encoding I a b mx st F x Hx HC) in Hn. exact Hn.
Qed.
End Concrete.


(* ------------------------------------------------------------------------------------------- *)
(* non-vacuity: a key input of 5 ADA, change to an enterprise address, mainnet parameters *)
Module ConcreteWitness.
  Definition I0 : interp :=
    mkInterp (fun _ => 0) (fun _ => IKey 7) [] (fun a => if a =? 0 then 57 else 29) (fun _ => MinAda.OutputSize.DNone) (fun _ => None).
  Definition e0 : env := cenv I0 44 155381 16384.
  Definition s0 : state := set_s_inputs [(1, mkValue 5000000 None)] (new_state (mkConfig 500000000 2000000 false false)).
  Definition r0 := add_change (with_fee e0 (size_oracle e0 4310 5000)) 10 1 0 s0 tt.
  (* the transaction signed with one (any) 32-byte key and 64-byte signature *)
  Definition x0 (fee coin : N) : MinAda.TxSize.ctx :=
    MinAda.TxSize.mkCTx [(repeat 9 32, 0)] [MinAda.SchemaTie.mkCOut (repeat 1 29) coin [] MinAda.SchemaTie.CDNone None] fee [(repeat 2 32, repeat 3 64)] [].
End ConcreteWitness.
Import ConcreteWitness.

(* the model reproduces the implementation's figures for this transaction (corpus case w5: fee 164225, change 4835775,
   full_size 197): the encoded signed transaction has 197 bytes, its minimum fee is 164049 *)
Example concrete_premises :
  out_res r0 = Ok true /\ s_fee (out_st r0) = Some 164225 /\
  Witnesses.WitnessProofs.all_consistent (ops_of I0 (out_st r0)) = true /\
  signed_by_required 0 I0 (out_st r0) 164225 (x0 164225 4835775) /\
  MinAda.SchemaTie.len (MinAda.TxSize.enc_tx 0 (x0 164225 4835775)) = 197 /\ 44 * 197 + 155381 <= 164225.
Proof.
  split; [vm_compute; reflexivity|]. split; [vm_compute; reflexivity|]. split; [vm_compute; reflexivity|].
  split.
  - unfold signed_by_required. split.
    + unfold MinAda.TxSize.ctx_ok. repeat split; repeat constructor.
    + split; [vm_compute; reflexivity|]. split.
      * assert (E : s_outputs (out_st r0) = [mkOutput 1 (mkValue 4835775 None) 0]) by (vm_compute; reflexivity).
        rewrite E. cbn [MinAda.TxSize.x_outputs x0]. constructor; [|constructor].
        unfold out_rel. cbn [MinAda.SchemaTie.co_addr MinAda.SchemaTie.co_coin MinAda.SchemaTie.co_ma MinAda.SchemaTie.co_datum MinAda.SchemaTie.co_sref o_addr o_amount o_extra].
        repeat split; vm_compute; reflexivity.
      * repeat split; vm_compute; reflexivity.
  - split; [vm_compute; reflexivity | vm_compute; discriminate].
Qed.
