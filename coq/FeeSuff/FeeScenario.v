(* FeeSuff/FeeScenario.v — C06: scenario runner for the correspondence run.  Executable; NO proofs.

   A scenario is C05's (a UTxO table and operations on one TransactionBuilder, Builder/Scenario.v) with, per UTxO,
   the execution units of its redeemer and the bytes of reference script it brings, and extra operations that only
   change the size of the transaction (required signer, collateral, reference input, metadata, ttl).

   The oracle of Builder/Change.v is instantiated with [fee_oracle]: min-ADA, size-test and selection answers are
   popped from the tape the harness recorded (as in C05); every FEE answer is popped too AND recomputed with
   FeeModel.min_fee_model: a disagreement marks the run bad (the operation's result becomes [RDesync]).
   K (the bytes of the fake full transaction outside the fee integer and the outputs) is the figure the harness
   measured on the builder before the operation; when the input set changes inside an operation
   (add_inputs_from_and_change) K is re-derived from the first fee answer for the new input set and every later
   answer is checked against it.

   API  uinfo, scn (scenario constants), ostate, fee_oracle, env_of, op6, run_ops6, final figures (model_full_size,
        model_min_fee_pub), last_balance (slack / binding of the last successful change computation that was not
        followed by edits) *)
From CSL Require Import Base.Prelude Base.U64 Cbor.Head Num.Value Deposits.Deposits Builder.Totals Builder.Change
  Builder.Scenario Fees.Rational Fees.Fees FeeSuff.FeeModel FeeSuff.FeeSpec.
From CSL Require FeeSuff.FeeConcrete MinAda.OutputSize.
Local Open Scope N_scope.

(* per UTxO: kind (0 key, 1 Byron, 2 native script, 3/4 Plutus script in the witness set with inline / witness datum,
   5/6 Plutus script by reference with inline / witness datum), ex-units of its redeemer, reference-script bytes:
   kinds 0-4: bytes of the script_ref its own output carries (counted per input); kinds 5/6: size of the referenced script
   (the harness derives the reference outpoint from the size: equal sizes are one referenced script) *)
Record uinfo : Type := mkUinfo { u_kind : N; u_mem : N; u_steps : N; u_ref : N }.

Record scn : Type := mkScn {
  sc_a : N; sc_b : N; sc_max_tx : N;
  sc_ex_price : option (Z * Z * Z * Z);
  sc_ref_price : option (Z * Z);
  sc_uinfo : list (N * uinfo);
  sc_obase : list (N * N * N);               (* (address id, extra id, bytes outside the Value) *)
  sc_dedup : bool;                           (* config.deduplicate_explicit_ref_inputs_with_regular_inputs *)
  sc_xr_ids : list N                         (* UTxO ids that some `xr` op of the scenario registers as reference input *)
}.

(* explicit reference inputs: bytes of the scripts on fresh outpoints (`x ref`), and (UTxO id, declared size) of the
   scenario UTxOs registered with `xr` (a later registration of the same id replaces the size) *)
Definition refs : Type := (N * list (N * N))%type.
Fixpoint xr_insert (id size : N) (l : list (N * N)) : list (N * N) :=
  match l with
  | [] => [(id, size)]
  | (i, z) :: r => if i =? id then (id, size) :: r else (i, z) :: xr_insert id size r
  end.
Definition memN (x : N) (l : list N) : bool := existsb (N.eqb x) l.
(* the builder learns the script_ref of a spent UTxO only when it is added in UTxO form: the harness adds a UTxO with
   its own script_ref in address form when an `xr` op registers it and its id is not a multiple of 3 *)
Definition own_known (sc : scn) (id : N) : bool := negb (memN id (sc_xr_ids sc)) || (id mod 3 =? 0).

Definition lookup_uinfo (sc : scn) (id : N) : uinfo :=
  match find (fun e => fst e =? id) (sc_uinfo sc) with Some e => snd e | None => mkUinfo 0 0 0 0 end.

Definition lookup_obase (sc : scn) (a x : N) : N :=
  match find (fun e => (fst (fst e) =? a) && (snd (fst e) =? x)) (sc_obase sc) with Some e => snd e | None => 0 end.

Definition is_plutus (u : uinfo) : bool := (3 <=? u_kind u) && (u_kind u <=? 8).
(* kinds 5/6: Plutus script by reference; 9: native script by reference.  7/8: the script of the kind-5/6 UTxOs of the
   same <refsize>, but inline in the witness set (no reference, no script bytes) *)
Definition by_reference (u : uinfo) : bool := ((5 <=? u_kind u) && (u_kind u <=? 6)) || (u_kind u =? 9).
Definition own_script (u : uinfo) : bool := u_kind u <=? 4.

(* withdrawals: reward address ids 41..51 are Plutus-script reward addresses (script in the witness set), 61..71 Plutus
   scripts BY REFERENCE (the kind-5 script of size wd_ref_size, named through the reference UTxO of variant 0); the
   redeemer carries ExUnits(id * 1000, id * 1000000) (conventions of the harness); 1..11 key, 21..31 native script *)
Definition wd_by_ref (a : N) : bool := (61 <=? a) && (a <=? 71).
Definition wd_is_plutus (a : N) : bool := ((41 <=? a) && (a <=? 51)) || wd_by_ref a.
Definition wd_ref_size (a : N) : N :=
  nth (N.to_nat (a - 61)) [100; 2500; 14000; 25599; 25600; 25601; 51200; 60000; 200000; 3; 30] 0.
(* a reference UTxO: class (0 Plutus, 1 native), size of the script it carries, variant (two UTxOs carry each script) *)
Definition ref_key (class size variant : N) : N := size * 4 + class * 2 + variant.
Definition ref_key_size (k : N) : N := k / 4.
Definition plutus_withdrawals (s : state) : list N :=
  filter wd_is_plutus (map fst (opt_list (s_withdrawals s))).

Definition z_res (r : result Z) : result N :=
  match r with Ok z => Ok (Z.to_N z) | Err => Err | Panic => Panic | OutOfFuel => OutOfFuel end.

(* min_script_fee over the redeemers of the Plutus inputs (tx_builder.rs:146-155, fees.rs:56-62) *)
Definition ex_fee (sc : scn) (s : state) : result N :=
  let us := map (fun e => lookup_uinfo sc (fst e)) (s_inputs s) in
  let units := map (fun u => (Z.of_N (u_mem u), Z.of_N (u_steps u))) (filter is_plutus us)
               ++ map (fun a => (Z.of_N (a * 1000), Z.of_N (a * 1000000))) (plutus_withdrawals s) in
  match sc_ex_price sc with
  | Some (mn, md, sn, sd) =>
      match units with
      | [] => Ok 0
      | _ => z_res (min_script_fee (Some units) mn md sn sd)
      end
  | None => match units with [] => Ok 0 | _ => Err end
  end.

(* min_ref_script_fee over the referenced scripts (tx_builder.rs:157-167) *)
Definition ref_fee (sc : scn) (rc : refs) (s : state) : result N :=
  (* get_total_ref_scripts_size keys the sizes by (reference) input and fails on two different sizes for one input:
     a script_ref on the spent UTxO (known when it was added in UTxO form) counts once per input; explicit reference
     inputs count whether or not they are also spent; the harness derives the reference outpoint of a kind-5/6 UTxO from
     its <refsize>, so equal sizes are one referenced script *)
  let ins := map (fun e => (fst e, lookup_uinfo sc (fst e))) (s_inputs s) in
  let own := flat_map (fun iu : N * uinfo =>
                         if own_script (snd iu) && (0 <? u_ref (snd iu)) && own_known sc (fst iu)
                         then [(fst iu, u_ref (snd iu))] else []) ins in
  let xr := snd rc in
  let conflict := existsb (fun o : N * N => existsb (fun x : N * N => (fst x =? fst o) && negb (snd x =? snd o)) xr) own in
  let xr_extra := filter (fun x : N * N => negb (memN (fst x) (map fst own))) xr in
  let keys := map (fun iu : N * uinfo => ref_key (if u_kind (snd iu) =? 9 then 1 else 0) (u_ref (snd iu)) (fst iu mod 2))
                  (filter (fun iu : N * uinfo => by_reference (snd iu)) ins)
              ++ map (fun a => ref_key 0 (wd_ref_size a) 0) (filter wd_by_ref (map fst (opt_list (s_withdrawals s)))) in
  let refd := sumN (map ref_key_size (nodup N.eq_dec keys)) in
  let total := sumN (map snd own) + sumN (map snd xr_extra) + refd + fst rc in
  if conflict then Err else
  match sc_ref_price sc with
  | Some (n, d) => z_res (min_ref_script_fee (Z.of_N total) n d)
  | None => if 0 <? total then Err else Ok 0
  end.

Definition env_of (sc : scn) (ref_const : refs) (k : N) : env :=
  mkEnv (sc_a sc) (sc_b sc) (sc_max_tx sc) (fun _ => k) (lookup_obase sc) (ex_fee sc) (ref_fee sc ref_const).

(* ------------------------------------------------------------------------------------------- *)
(* the concrete size function (FeeConcrete.concrete_k: C07's full_tx_size algebra with C18's witness counts) on the plain
   sub-class: key / Byron inputs and outputs, nothing else in the body or the witness set (a required signer is also a body
   field: outside).  The
   interpretation follows the harness: UTxO id i is outpoint (hash(i), i mod 7); a kind-0 UTxO is owned by key
   kh(id mod 12); a kind-1 UTxO by Byron address number id mod 9 (numbers 0..2 mainnet Icarus: attributes a0, one byte;
   3..5 testnet magic 1097911063: attributes a1 02 45 1a 41 70 cb 17, eight bytes; 6..8 Daedalus addresses with the
   derivation-path payload: 34 bytes) *)
Definition interp_of (sc : scn) : FeeConcrete.interp :=
  FeeConcrete.mkInterp
    (fun id => id mod 7)
    (fun id => if u_kind (lookup_uinfo sc id) =? 1 then FeeConcrete.IByron (id mod 9) else FeeConcrete.IKey (id mod 12))
    [(0, 1); (1, 1); (2, 1); (3, 8); (4, 8); (5, 8); (6, 34); (7, 34); (8, 34)]
    (fun _ => 0) (fun _ => MinAda.OutputSize.DNone) (fun _ => None).

Definition state_plain (sc : scn) (s : state) : bool :=
  forallb (fun e => u_kind (lookup_uinfo sc (fst e)) <=? 1) (s_inputs s)
  && match s_certs s, s_withdrawals s, s_mint s, s_proposals s, s_donation s, s_treasury s with
     | None, None, None, None, None, None => true
     | _, _, _, _, _, _ => false
     end.

(* [cz] = Some signers while every operation so far kept the transaction in the sub-class *)
Definition concrete_k_of (sc : scn) (cz : option (list N)) (s : state) : option N :=
  match cz with
  | Some sigs => if state_plain sc s then Some (FeeConcrete.concrete_k (interp_of sc) s) else None
  | None => None
  end.

(* counters packed into one number: answers predicted from the measured K + 2^20 * answers predicted from the
   concrete size function + 2^40 * answers used to calibrate K *)
Definition cnt_measured : N := 1.
Definition cnt_concrete : N := 1048576.
Definition cnt_calibrated : N := 1099511627776.

(* ------------------------------------------------------------------------------------------- *)
(* the oracle *)

Record ostate : Type := mkO {
  o_tape : list (N * option N);
  o_sel : option (list N * bool);
  o_bad : bool;
  o_k : option (list N * N);      (* the input ids K is known for, and K *)
  o_kpend : option N;             (* K as measured by the harness, not yet bound to an input set: it belongs to the
                                     input set of the first fee question of the operation *)
  o_checked : N                   (* fee answers that were predicted (not used for calibration) *)
}.

Definition set_bad (o : ostate) : ostate := mkO (o_tape o) (o_sel o) true (o_k o) (o_kpend o) (o_checked o).

Definition pop6 (site : N) (o : ostate) : option (option N) * ostate :=
  match o_tape o with
  | (s, a) :: r => if s =? site then (Some a, mkO r (o_sel o) (o_bad o) (o_k o) (o_kpend o) (o_checked o)) else (None, set_bad o)
  | [] => (None, set_bad o)
  end.

Definition pop_num6 (site : N) (o : ostate) : result N * ostate :=
  match pop6 site o with
  | (Some (Some v), o') => (Ok v, o')
  | (Some None, o') => (Err, o')
  | (None, o') => (Err, o')
  end.

Definition pop_bool6 (site : N) (o : ostate) : bool * ostate :=
  match pop6 site o with
  | (Some (Some v), o') => (negb (v =? 0), o')
  | (Some None, o') => (false, set_bad o')
  | (None, o') => (false, o')
  end.

Fixpoint ids_eqb (a b : list N) : bool :=
  match a, b with
  | [], [] => true
  | x :: a', y :: b' => (x =? y) && ids_eqb a' b'
  | _, _ => false
  end.

Definition known_k (o : ostate) (ids : list N) : option N :=
  match o_k o with Some (ids', k) => if ids_eqb ids ids' then Some k else None | None => None end.

Definition res_eqb (r : result N) (a : option N) : bool :=
  match r, a with
  | Ok v, Some w => v =? w
  | Err, None => true
  | _, _ => false
  end.

(* K from a fee answer v: v = a * (K + var) + b + ex + ref *)
Definition calibrate (sc : scn) (ref_const : refs) (st : state) (v : N) : option N :=
  match get_fee_if_set st, ex_fee sc st, ref_fee sc ref_const st with
  | Some f, Ok x, Ok r =>
      let rest := sc_b sc + x + r in
      let var := head_size f + outs_size (env_of sc ref_const 0) (s_outputs st) in
      if (0 <? sc_a sc) && (rest <=? v) && ((v - rest) mod sc_a sc =? 0) && (var <=? (v - rest) / sc_a sc)
      then Some ((v - rest) / sc_a sc - var) else None
  | _, _, _ => None
  end.

Definition fee_answer (sc : scn) (ref_const : refs) (cz : option (list N)) (st : state) (o : ostate) : result N * ostate :=
  match pop6 site_F o with
  | (None, o') => (Err, o')
  | (Some ans, o') =>
      let ids := map fst (s_inputs st) in
      let r := match ans with Some v => Ok v | None => Err end in
      match concrete_k_of sc cz st with
      | Some kc =>
          (* the sub-class: the answer is predicted from the concrete size function, nothing measured is used *)
          if res_eqb (min_fee_model (env_of sc ref_const kc) st) ans
          then (r, mkO (o_tape o') (o_sel o') (o_bad o') (o_k o') (o_kpend o') (o_checked o' + cnt_concrete))
          else (r, set_bad o')
      | None =>
      (* bind a pending measurement to the input set of this (first) question *)
      let o1 := match known_k o' ids, o_kpend o' with
                | None, Some k => mkO (o_tape o') (o_sel o') (o_bad o') (Some (ids, k)) None (o_checked o')
                | _, _ => o'
                end in
      match known_k o1 ids with
      | Some k =>
          let pred := min_fee_model (env_of sc ref_const k) st in
          if res_eqb pred ans
          then (r, mkO (o_tape o1) (o_sel o1) (o_bad o1) (o_k o1) (o_kpend o1) (o_checked o1 + 1))
          else (r, set_bad o1)
      | None =>
          match ans with
          | Some v =>
              match calibrate sc ref_const st v with
              | Some k => (r, mkO (o_tape o1) (o_sel o1) (o_bad o1) (Some (ids, k)) None (o_checked o1 + cnt_calibrated))
              | None => (r, o1)
              end
          | None => (r, o1)
          end
      end
      end
  end.

Definition fee_oracle (sc : scn) (ref_const : refs) (cz : option (list N)) (utxos : list (N * value)) : @oracle ostate :=
  mkOracle
    (fun st o => fee_answer sc ref_const cz st o)
    (fun _ o => pop_num6 site_A o)
    (fun _ o => pop_bool6 site_S o)
    (fun _ o => pop_bool6 site_T o)
    (fun _ us o =>
       match o_sel o with
       | Some (ids, ok) => ((resolve us ids, ok), mkO (o_tape o) None (o_bad o) (o_k o) (o_kpend o) (o_checked o))
       | None => (([], false), mkO (o_tape o) None true (o_k o) (o_kpend o) (o_checked o))
       end).

(* ------------------------------------------------------------------------------------------- *)
(* operations *)

Inductive op6 : Type :=
| Base (x : op)
| AuxXr (id size : N)                   (* xr <id> <size>: add_script_reference_input(outpoint of UTxO id, size) *)
| Aux (tag : N) (n : N).                (* x <tag> <n>: 1 = ref <size> (reference-script bytes), 2 = coll (a collateral
                                          input was added), 0 = the others (only the size of the transaction changes) *)

Record rstate : Type := mkR {
  r_st : state;
  r_ref : refs;                        (* the explicit reference inputs *)
  r_bal : option (bool * bool);        (* Some: a change computation succeeded and nothing was edited since (the pair, once the
                                          slack / binding figures of the old code's known classes, is now constantly (true, false)) *)
  r_coll : bool;                       (* a collateral input was added *)
  r_plain : bool;                      (* every operation so far kept the transaction in the plain sub-class *)
  r_sigs : list N;                     (* keys added with add_required_signer (x sig) *)
  r_sdh : bool                         (* the script data hash is set (the harness sets it before the first change computation
                                          when a Plutus input is present) *)
}.

Definition has_plutus_input (sc : scn) (s : state) : bool :=
  existsb (fun e => is_plutus (lookup_uinfo sc (fst e))) (s_inputs s)
  || match plutus_withdrawals s with [] => false | _ => true end.

Definition finish6 {A} (r : @out ostate A) (okv : A -> opres) : opres * state :=
  let o := out_orc r in
  if o_bad o || negb (match o_tape o with [] => true | _ => false end)
     || match o_sel o with Some _ => true | None => false end
  then (RDesync, out_st r)
  else (res_of (out_res r) okv, out_st r).

Definition start_o (tape : list (N * option N)) (sel : option (list N * bool)) (k : option N) : ostate :=
  mkO tape sel false None k 0.

Definition k_const (o : ostate) : N :=
  match o_k o, o_kpend o with Some (_, k), _ => k | None, Some k => k | None, None => 0 end.

(* one operation; [tape], [sel], [k] are what the harness recorded for it.  Returns the result, the new runner state,
   the number of fee answers that were predicted and checked *)
Definition run_op6 (sc : scn) (utxos : list (N * value)) (x : op6) (tape : list (N * option N))
    (sel : option (list N * bool)) (k : option N) (r : rstate) : opres * rstate * N :=
  let s := r_st r in
  let o := start_o tape sel k in
  let cz := if r_plain r then Some (r_sigs r) else None in
  let orc := fee_oracle sc (r_ref r) cz utxos in
  let sdh := r_sdh r || has_plutus_input sc s in
  match x with
  | Aux tag n =>
      (match tape, sel with [], None => ROk | _, _ => RDesync end,
       mkR s (if tag =? 1 then (fst (r_ref r) + n, snd (r_ref r)) else r_ref r) None (r_coll r || (tag =? 2))
           false (if tag =? 3 then r_sigs r ++ [n] else r_sigs r) (r_sdh r), 0)
  | AuxXr id size =>
      (match tape, sel with [], None => ROk | _, _ => RDesync end,
       mkR s (fst (r_ref r), xr_insert id size (snd (r_ref r))) None (r_coll r) false (r_sigs r) (r_sdh r), 0)
  | Base (OpChange addr extra) =>
      let res := add_change orc fuel_default addr extra s o in
      (* since the repair (check_fee_after_change) no insufficient fee is excused: slack = true, binding = false *)
      let bal := match out_res res with Ok _ => Some (true, false) | _ => r_bal r end in
      let f := finish6 res RBool in
      (fst f, mkR (snd f) (r_ref r) bal (r_coll r) (r_plain r) (r_sigs r) sdh, o_checked (out_orc res))
  | Base (OpSelectChange avail addr extra) =>
      let us := resolve utxos avail in
      let res := add_inputs_from_and_change orc fuel_default us addr extra s o in
      let bal := match out_res res with Ok _ => Some (true, false) | _ => r_bal r end in
      let f := finish6 res RBool in
      (fst f, mkR (snd f) (r_ref r) bal (r_coll r) (r_plain r) (r_sigs r) sdh, o_checked (out_orc res))
  | Base OpBuild =>
      (* build_tx's pre-checks (tx_builder.rs build_tx: Plutus inputs need a script data hash and collateral; validate_inputs_intersection): they run
         before validate_fee, so nothing is asked of the oracle when they fail *)
      if (has_plutus_input sc s && negb (r_sdh r && r_coll r))
         (* validate_inputs_intersection: an explicit reference input that is also spent, unless the configuration drops it *)
         || (negb (sc_dedup sc) && existsb (fun e => memN (fst e) (map fst (snd (r_ref r)))) (s_inputs s))
      then (match tape with [] => RErr | _ => RDesync end, r, 0)
      else
        let res := build_tx orc s o in
        let f := finish6 res (fun _ => ROk) in
        (fst f, mkR (snd f) (r_ref r) (r_bal r) (r_coll r) (r_plain r) (r_sigs r) (r_sdh r), o_checked (out_orc res))
  | Base (OpOutput y) =>
      let res := add_output orc y s o in
      let f := finish6 res (fun _ => ROk) in
      (fst f, mkR (snd f) (r_ref r) None (r_coll r) (r_plain r) (r_sigs r) (r_sdh r), 0)
  | Base b =>
      (* the operations that do not ask the oracle: C05's runner with an empty tape *)
      match run_op utxos b s (mkTape tape (match sel with Some x => Some x | None => None end) false) with
      | (res, s', _) => (res, mkR s' (r_ref r) None (r_coll r) (r_plain r) (r_sigs r) (r_sdh r), 0)
      end
  end.

Record oprec : Type := mkOprec { or_tape : list (N * option N); or_sel : option (list N * bool); or_k : option N }.

Fixpoint run_ops6 (sc : scn) (utxos : list (N * value)) (l : list (op6 * oprec)) (r : rstate) (checked : N)
  : list opres * rstate * N :=
  match l with
  | [] => ([], r, checked)
  | (x, rec) :: rest =>
      match run_op6 sc utxos x (or_tape rec) (or_sel rec) (or_k rec) r with
      | (res, r', c) =>
          match run_ops6 sc utxos rest r' (checked + c) with
          | (rs, r'', c') => (res :: rs, r'', c')
          end
      end
  end.

(* the figures compared with the implementation at the end: full_size() and the public min_fee() *)
Definition final_k (sc : scn) (r : rstate) (measured : option N) : option N :=
  match concrete_k_of sc (if r_plain r then Some (r_sigs r) else None) (r_st r) with
  | Some k => Some k
  | None => measured
  end.

Definition model_full_size (sc : scn) (r : rstate) (k : option N) : option N :=
  match final_k sc r k, get_fee_if_set (r_st r) with
  | Some k, Some f => if mint_ok (r_st r) then Some (tx_size (env_of sc (r_ref r) k) (r_st r) f) else None
  | _, _ => None
  end.

Definition model_min_fee_pub (sc : scn) (r : rstate) (k : option N) : option N :=
  match final_k sc r k with
  | Some k =>
      match min_fee_model (env_of sc (r_ref r) k) (set_final_fee two32 (r_st r)) with
      | Ok v => Some (get_new_fee (s_fee_request (r_st r)) v)
      | _ => None
      end
  | None => None
  end.
