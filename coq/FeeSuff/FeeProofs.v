(* FeeSuff/FeeProofs.v — C06: proofs about the fee arithmetic of add_change (model: Builder/Change.v with the fee
   oracle of FeeSuff/FeeModel.v).  Statements are pinned in Props/C06.v. *)
From CSL Require Import Base.Prelude Base.U64 Cbor.Head Cbor.HeadProofs Num.Value Deposits.Deposits
  Builder.Totals Builder.Change FeeSuff.FeeModel FeeSuff.FeeSpec.
Local Open Scope N_scope.

(* ------------------------------------------------------------------------------------------- *)
(* the monad: inversion of successful runs *)

Section Monad.
  Context {O : Type}.

  Lemma bindM_inv {A B} (m : @M O A) (f : A -> @M O B) s o b s' o' :
    bindM m f s o = mkOut (Ok b) s' o' ->
    exists a s1 o1, m s o = mkOut (Ok a) s1 o1 /\ f a s1 o1 = mkOut (Ok b) s' o'.
  Proof.
    unfold bindM. intros H. destruct (m s o) as [r s1 o1]; cbn in *.
    destruct r; try (inversion H; fail). exists a, s1, o1. split; auto.
  Qed.

  Lemma ret_inv {A} (a b : A) (s s' : state) (o o' : O) :
    ret a s o = mkOut (Ok b) s' o' -> b = a /\ s' = s /\ o' = o.
  Proof. unfold ret. intros H; inversion H; auto. Qed.

  Lemma lift_inv {A} (r : result A) (b : A) (s s' : state) (o o' : O) :
    lift r s o = mkOut (Ok b) s' o' -> r = Ok b /\ s' = s /\ o' = o.
  Proof. unfold lift. intros H; inversion H; auto. Qed.

  Lemma get_inv (b s s' : state) (o o' : O) :
    get s o = mkOut (Ok b) s' o' -> b = s /\ s' = s /\ o' = o.
  Proof. unfold get. intros H; inversion H; auto. Qed.

  Lemma modify_inv (f : state -> state) u (s s' : state) (o o' : O) :
    modify f s o = mkOut (Ok u) s' o' -> s' = f s /\ o' = o.
  Proof. unfold modify. intros H; inversion H; auto. Qed.

  Lemma put_inv (x : state) u (s s' : state) (o o' : O) :
    put x s o = mkOut (Ok u) s' o' -> s' = x /\ o' = o.
  Proof. unfold put. intros H; inversion H; auto. Qed.

  Lemma bindM_assoc {A B C} (m : @M O A) (f : A -> @M O B) (g : B -> @M O C) s o :
    bindM (bindM m f) g s o = bindM m (fun a => bindM (f a) g) s o.
  Proof. unfold bindM. destruct (m s o) as [r s1 o1]; cbn. destruct r; reflexivity. Qed.

  Lemma bindM_ext {A B} (m : @M O A) (f g : A -> @M O B) s o :
    (forall a s' o', f a s' o' = g a s' o') -> bindM m f s o = bindM m g s o.
  Proof. intros H. unfold bindM. destruct (out_res (m s o)); auto. Qed.

  Lemma bindM_ret_r {A} (m : @M O A) s o : bindM m (fun a => ret a) s o = m s o.
  Proof. unfold bindM, ret. destruct (m s o) as [r s1 o1]; cbn. destruct r; reflexivity. Qed.

  Lemma bindM_ret_l {A B} (a : A) (f : A -> @M O B) s o : bindM (ret a) f s o = f a s o.
  Proof. reflexivity. Qed.

  Lemma bindM_lift_fail {A B} (r : result A) (f : A -> @M O B) s o :
    (forall a, r <> Ok a) -> bindM (lift r) f s o = lift (match r with Ok _ => Err | Err => Err | Panic => Panic | OutOfFuel => OutOfFuel end) s o.
  Proof. intros H. unfold bindM, lift; cbn. destruct r; try reflexivity. exfalso; eapply H; eauto. Qed.
End Monad.

Ltac minv H :=
  let a := fresh "a" in let s1 := fresh "s" in let o1 := fresh "o" in
  let H1 := fresh "H" in let H2 := fresh "H" in
  apply bindM_inv in H; destruct H as (a & s1 & o1 & H1 & H2).

(* ------------------------------------------------------------------------------------------- *)
(* state bookkeeping and the size algebra *)

Lemma core_set_outputs x s : core (set_s_outputs x s) = core s.
Proof. destruct s; reflexivity. Qed.
Lemma core_set_fee x s : core (set_s_fee x s) = core s.
Proof. destruct s; reflexivity. Qed.
Lemma set_final_fee_al f s : set_final_fee f s = set_s_fee (Some (get_new_fee (s_fee_request s) f)) s.
Proof.
  unfold set_final_fee, get_new_fee. destruct (s_fee_request s); try reflexivity.
  destruct (N.leb_spec f0 f), (N.ltb_spec f f0); try reflexivity; lia.
Qed.
Lemma core_set_final_fee f s : core (set_final_fee f s) = core s.
Proof. rewrite set_final_fee_al. apply core_set_fee. Qed.
Lemma outputs_set_fee x s : s_outputs (set_s_fee x s) = s_outputs s.
Proof. destruct s; reflexivity. Qed.
Lemma outputs_set_outputs x s : s_outputs (set_s_outputs x s) = x.
Proof. destruct s; reflexivity. Qed.
Lemma outputs_set_final_fee f s : s_outputs (set_final_fee f s) = s_outputs s.
Proof. rewrite set_final_fee_al. apply outputs_set_fee. Qed.
Lemma fee_set_fee x s : s_fee (set_s_fee x s) = x.
Proof. destruct s; reflexivity. Qed.
Lemma fee_set_outputs x s : s_fee (set_s_outputs x s) = s_fee s.
Proof. destruct s; reflexivity. Qed.
Lemma req_set_fee x s : s_fee_request (set_s_fee x s) = s_fee_request s.
Proof. destruct s; reflexivity. Qed.
Lemma req_set_outputs x s : s_fee_request (set_s_outputs x s) = s_fee_request s.
Proof. destruct s; reflexivity. Qed.
Lemma req_set_final_fee f s : s_fee_request (set_final_fee f s) = s_fee_request s.
Proof. rewrite set_final_fee_al. apply req_set_fee. Qed.
Lemma fee_set_final_fee f s : s_fee (set_final_fee f s) = Some (get_new_fee (s_fee_request s) f).
Proof. rewrite set_final_fee_al. apply fee_set_fee. Qed.
Lemma get_fee_set_final_fee f s : get_fee_if_set (set_final_fee f s) = Some (get_new_fee (s_fee_request s) f).
Proof. unfold get_fee_if_set. rewrite fee_set_final_fee. reflexivity. Qed.
Lemma cfg_set_outputs x s : s_cfg (set_s_outputs x s) = s_cfg s.
Proof. destruct s; reflexivity. Qed.
Lemma set_outputs_set_outputs x y s : set_s_outputs x (set_s_outputs y s) = set_s_outputs x s.
Proof. destruct s; reflexivity. Qed.
Lemma set_outputs_same s : set_s_outputs (s_outputs s) s = s.
Proof. destruct s; reflexivity. Qed.
Lemma set_outputs_final_fee_comm x f s : set_s_outputs x (set_final_fee f s) = set_final_fee f (set_s_outputs x s).
Proof. destruct s as [c i o r fe ce w m p d t]. unfold set_final_fee; cbn. destruct r; reflexivity. Qed.

Lemma need_w_set_final_fee e f s w : need_w e (set_final_fee f s) w = need_w e s w.
Proof. unfold need_w. rewrite core_set_final_fee, outputs_set_final_fee. reflexivity. Qed.

Lemma al0_fld0 r : get_new_fee r 0 = fld0 r.
Proof. destruct r; cbn; try reflexivity. destruct (N.ltb_spec 0 f); [reflexivity | lia]. Qed.

Lemma al_two32_w r : (forall x, r <> FeeExactly x) -> head_size (get_new_fee r two32) = 9.
Proof.
  intros H. destruct r; cbn.
  - reflexivity.
  - destruct (N.ltb_spec two32 f).
    + unfold head_size, two32 in *.
      repeat match goal with |- context [N.ltb ?a ?b] => destruct (N.ltb_spec a b); try lia end.
    + reflexivity.
  - exfalso; eapply H; eauto.
Qed.

Lemma al_ge r x : (forall y, r <> FeeExactly y) -> x <= get_new_fee r x.
Proof. intros H. destruct r; cbn; try lia. destruct (N.ltb_spec x f); lia. exfalso; eapply H; eauto. Qed.
Lemma al_mono r x y : x <= y -> get_new_fee r x <= get_new_fee r y.
Proof. intros H. destruct r; cbn; try lia. destruct (N.ltb_spec x f), (N.ltb_spec y f); lia. Qed.

Lemma min_fee_model_ok e s m :
  min_fee_model e s = Ok m -> exists f, get_fee_if_set s = Some f /\ m = need e s f.
Proof.
  unfold min_fee_model. destruct (get_fee_if_set s) as [f|]; [|discriminate].
  destruct (negb (mint_ok s)); [discriminate|].
  destruct (e_max_tx e <? tx_size e s f); [discriminate|].
  unfold checked_mul, checked_add, need, need_w, tx_size.
  set (sz := e_k e (core s) + head_size f + outs_size e (s_outputs s)).
  destruct (sz * e_a e <? two64); cbn [bind]; [|discriminate].
  destruct (sz * e_a e + e_b e <? two64); cbn [bind]; [|discriminate].
  destruct (e_ex e (core s)) as [x| | |]; cbn [bind]; try discriminate.
  destruct (sz * e_a e + e_b e + x <? two64); cbn [bind]; [|discriminate].
  destruct (e_ref e (core s)) as [r| | |]; cbn [bind]; try discriminate.
  destruct (sz * e_a e + e_b e + x + r <? two64); [|discriminate].
  intros H; inversion H; subst. exists f. split; auto. cbn [res_or0]. lia.
Qed.

Lemma sumN_app l1 l2 : sumN (l1 ++ l2) = sumN l1 + sumN l2.
Proof. unfold sumN. induction l1; cbn; [lia|]. fold (sumN (l1 ++ l2)) in *. rewrite IHl1. lia. Qed.

Lemma lenN_app {A} (l1 l2 : list A) : lenN (l1 ++ l2) = lenN l1 + lenN l2.
Proof. unfold lenN. rewrite app_length. lia. Qed.

Lemma outs_size_app_le e l l' : outs_size e l <= outs_size e (l ++ l').
Proof.
  unfold outs_size. rewrite map_app, sumN_app, lenN_app.
  assert (head_size (lenN l) <= head_size (lenN l + lenN l')) by (apply head_size_mono; lia). lia.
Qed.

(* the telescope step: one more output *)
Lemma outs_size_snoc e l x :
  outs_size e (l ++ [x]) + head_size (lenN l) = outs_size e l + out_size e x + head_size (lenN l + 1).
Proof.
  unfold outs_size. rewrite map_app, sumN_app, lenN_app. cbn [map]. unfold lenN at 2; cbn [length].
  unfold sumN at 2; cbn [fold_right]. change (N.of_nat 1) with 1. lia.
Qed.

Lemma need_w_diff e s w w' : w' <= w -> need_w e s w = need_w e s w' + e_a e * (w - w').
Proof. intros H. unfold need_w. nia. Qed.

Lemma need_w_mono_w e s w w' : w' <= w -> need_w e s w' <= need_w e s w.
Proof. intros H. unfold need_w. nia. Qed.

Lemma need_w_mono_outs e s l l' w :
  outs_size e l <= outs_size e l' -> need_w e (set_s_outputs l s) w <= need_w e (set_s_outputs l' s) w.
Proof. intros H. unfold need_w. rewrite !core_set_outputs, !outputs_set_outputs. nia. Qed.

(* ------------------------------------------------------------------------------------------- *)
(* what the pieces of Builder/Change.v do, for an oracle whose fee answers are the model's *)

Section Pieces.
  Context {O : Type}.
  Variable orc : @oracle O.
  Variable e : env.
  Hypothesis Hfee : fee_exact e orc.

  Lemma askF_inv st v s s' (o o' : O) :
    askF orc st s o = mkOut (Ok v) s' o' -> min_fee_model e st = Ok v /\ s' = s.
  Proof. unfold askF. intros H; inversion H. rewrite <- (Hfee st o). auto. Qed.
  Lemma askA_inv x v s s' (o o' : O) : askA orc x s o = mkOut (Ok v) s' o' -> s' = s.
  Proof. unfold askA. intros H; inversion H; auto. Qed.
  Lemma askS_inv x v s s' (o o' : O) : askS orc x s o = mkOut (Ok v) s' o' -> s' = s.
  Proof. unfold askS. intros H; inversion H; auto. Qed.

  (* computations that leave the builder state alone *)
  Definition pres {A} (m : @M O A) : Prop := forall s o a s' o', m s o = mkOut (Ok a) s' o' -> s' = s.

  Lemma pres_ret {A} (a : A) : pres (ret a).
  Proof. intros s o b s' o' H. apply ret_inv in H. tauto. Qed.
  Lemma pres_lift {A} (r : result A) : pres (lift r).
  Proof. intros s o b s' o' H. apply lift_inv in H. tauto. Qed.
  Lemma pres_askA x : pres (askA orc x).
  Proof. intros s o b s' o' H. eapply askA_inv; eauto. Qed.
  Lemma pres_askS x : pres (askS orc x).
  Proof. intros s o b s' o' H. eapply askS_inv; eauto. Qed.
  Lemma pres_askF x : pres (askF orc x).
  Proof. intros s o b s' o' H. eapply askF_inv; eauto. Qed.
  Lemma pres_bind {A B} (m : @M O A) (f : A -> @M O B) : pres m -> (forall a, pres (f a)) -> pres (bindM m f).
  Proof.
    intros Hm Hf s o b s' o' H. minv H. apply Hm in H0. subst. eapply Hf; eauto.
  Qed.
  Lemma pres_unwrap m : pres (unwrap_ma (O:=O) m).
  Proof. destruct m; [apply pres_ret | apply pres_lift]. Qed.

  Lemma pres_output_admissible x : pres (output_admissible orc x).
  Proof.
    unfold output_admissible. apply pres_bind; [apply pres_askS|]. intros big.
    destruct big; [apply pres_lift|]. apply pres_bind; [apply pres_askA|]. intros m.
    destruct (coin (o_amount x) <? m); [apply pres_lift | apply pres_ret].
  Qed.

  (* add_output / fee_for_output first refuse a value with empty entries (Builder/Change.v output_acceptable) *)
  Lemma pres_output_acceptable x : pres (output_acceptable orc x).
  Proof.
    unfold output_acceptable. destruct (Num.ValueNorm.value_has_empty_entries (o_amount x));
      [apply pres_lift | apply pres_output_admissible].
  Qed.

  Lemma pres_will_add v a p n q : pres (will_adding_asset_make_output_overflow orc v a p n q).
  Proof.
    unfold will_adding_asset_make_output_overflow.
    apply pres_bind; [apply pres_lift|]. intros ?. apply pres_bind; [apply pres_askA|]. intros ?. apply pres_askS.
  Qed.

  Lemma pres_pack_policy_assets p l : forall a, pres (pack_policy_assets orc p l a).
  Proof.
    induction l as [|[n q] r IH]; intros a; cbn [pack_policy_assets]; [apply pres_ret|].
    apply pres_bind; [apply pres_will_add|]. intros ov.
    apply pres_bind.
    - destruct ov; [|apply pres_ret].
      apply pres_bind; [apply pres_lift|]. intros ?. apply pres_bind; [apply pres_unwrap|]. intros ?. apply pres_ret.
    - intros a'. apply IH.
  Qed.

  Lemma pres_pack_policies l : forall v c, pres (pack_policies orc l v c).
  Proof.
    induction l as [|[p a] r IH]; intros v c; cbn [pack_policies]; [apply pres_ret|].
    apply pres_bind; [apply pres_pack_policy_assets|]. intros acc.
    apply pres_bind; [apply pres_lift|]. intros ?.
    apply pres_bind; [apply pres_askA|]. intros ?.
    apply pres_bind; [apply pres_askS|]. intros big.
    destruct big; [apply pres_ret | apply IH].
  Qed.

  Lemma pres_pack_nfts v : pres (pack_nfts_for_change orc v).
  Proof.
    unfold pack_nfts_for_change.
    apply pres_bind; [apply pres_unwrap|]. intros ?.
    apply pres_bind; [apply pres_pack_policies|]. intros ?.
    apply pres_bind; [apply pres_unwrap|]. intros ?. apply pres_ret.
  Qed.

  (* pub min_fee: the estimate with the placeholder fee, aligned with the request *)
  Lemma min_fee_pub_spec fee s s' (o o' : O) :
    min_fee_pub orc s o = mkOut (Ok fee) s' o' ->
    s' = s /\
    fee = get_new_fee (s_fee_request s)
            (need_w e s (head_size (get_new_fee (s_fee_request s) two32))).
  Proof.
    unfold min_fee_pub. intros H. minv H. apply get_inv in H0 as (-> & -> & ->).
    minv H1. apply askF_inv in H as (Hm & ->). apply ret_inv in H0 as (-> & -> & ->).
    split; auto. apply min_fee_model_ok in Hm as (f & Hf & ->).
    rewrite get_fee_set_final_fee in Hf. inversion Hf; subst.
    unfold need. rewrite need_w_set_final_fee. reflexivity.
  Qed.

  Lemma add_output_spec x u s s' (o o' : O) :
    add_output orc x s o = mkOut (Ok u) s' o' -> s' = set_s_outputs (s_outputs s ++ [x]) s.
  Proof.
    unfold add_output. intros H. minv H. apply pres_output_acceptable in H0. subst.
    apply modify_inv in H1 as (-> & _). reflexivity.
  Qed.

  (* fee_for_output: difference of two aligned estimates made with the fee field of set_final_fee(0) *)
  Lemma fee_for_output_spec x d s s' (o o' : O) :
    fee_for_output orc x s o = mkOut (Ok d) s' o' ->
    let al := get_new_fee (s_fee_request s) in
    let w0 := head_size (fld0 (s_fee_request s)) in
    let mb := need_w e s w0 in
    let ma := need_w e (set_s_outputs (s_outputs s ++ [x]) s) w0 in
    s' = s /\ al mb <= al ma /\ d = al ma - al mb /\ min_fee_model e (set_final_fee 0 s) = Ok mb.
  Proof.
    unfold fee_for_output. intros H. minv H. apply get_inv in H0 as (-> & -> & ->).
    minv H1. apply askF_inv in H as (Hb & ->).
    minv H0. apply pres_output_acceptable in H. subst.
    minv H1. apply askF_inv in H as (Ha & ->).
    apply lift_inv in H0 as (Hsub & -> & ->).
    cbn zeta. split; auto.
    pose proof Hb as Hb'.
    apply min_fee_model_ok in Hb as (fb & Hfb & ->).
    apply min_fee_model_ok in Ha as (fa & Hfa & ->).
    rewrite get_fee_set_final_fee in Hfb. inversion Hfb; subst fb. clear Hfb.
    rewrite outputs_set_final_fee, set_outputs_final_fee_comm, get_fee_set_final_fee, req_set_outputs in Hfa.
    inversion Hfa; subst fa. clear Hfa.
    rewrite ?outputs_set_final_fee, ?set_outputs_final_fee_comm, ?req_set_final_fee in Hsub.
    unfold need in *. rewrite !need_w_set_final_fee, al0_fld0 in *.
    unfold checked_sub in Hsub.
    match type of Hsub with (if ?c then _ else _) = _ => destruct c eqn:Hc; [|discriminate] end.
    inversion Hsub; subst d. apply N.leb_le in Hc. auto.
  Qed.

  Lemma pres_fee_for_output x : pres (fee_for_output orc x).
  Proof. intros s o a s' o' H. apply fee_for_output_spec in H. tauto. Qed.
End Pieces.

(* ------------------------------------------------------------------------------------------- *)
(* the loops of the asset branch: the accumulated fee telescopes *)

Section Loops.
  Context {O : Type}.
  Variable orc : @oracle O.
  Variable e : env.
  Hypothesis Hfee : fee_exact e orc.
  Variable s0 : state.        (* the state add_change starts from *)
  Variable X : N.             (* the fee estimate it starts with *)

  Let al := get_new_fee (s_fee_request s0).
  Let w0 := head_size (fld0 (s_fee_request s0)).

  (* [s] is [s0] with more outputs, and the fee accumulated so far is the start estimate plus the difference of
     the aligned estimates of [s] and [s0] *)
  Definition Inv (s : state) (nf : N) : Prop :=
    (exists outs', s = set_s_outputs (s_outputs s0 ++ outs') s0) /\
    nf + al (need_w e s0 w0) = X + al (need_w e s w0) /\
    (s_outputs s = s_outputs s0 \/ min_fee_model e (set_final_fee 0 s0) = Ok (need_w e s0 w0)).

  Lemma Inv_init : Inv s0 X.
  Proof.
    split; [exists []; rewrite app_nil_r; symmetry; apply set_outputs_same|]. split; [lia | left; reflexivity].
  Qed.

  Lemma Inv_req s nf : Inv s nf -> s_fee_request s = s_fee_request s0.
  Proof. intros ((l & ->) & _). apply req_set_outputs. Qed.

  Lemma Inv_step s nf x d s1 (o o1 : O) :
    Inv s nf -> fee_for_output orc x s o = mkOut (Ok d) s1 o1 ->
    Inv (set_s_outputs (s_outputs s ++ [x]) s) (nf + d).
  Proof.
    intros HI H. pose proof (Inv_req _ _ HI) as Hr.
    apply (fee_for_output_spec orc e Hfee) in H. cbn zeta in H. rewrite Hr in H.
    fold al in H. fold w0 in H. destruct H as (-> & Hle & -> & Hmb).
    destruct HI as ((l & Hs) & Heq & Hor).
    split; [|split].
    - exists (l ++ [x]). rewrite Hs at 1 2. rewrite outputs_set_outputs, set_outputs_set_outputs, app_assoc. reflexivity.
    - lia.
    - right. destruct Hor as [Ho | Ho]; auto.
      assert (s = s0) as ->.
      { rewrite Hs. rewrite Hs in Ho. rewrite outputs_set_outputs in Ho. rewrite Ho. apply set_outputs_same. }
      exact Hmb.
  Qed.

  Lemma change_outputs_loop_inv addr extra l : forall cl nf s o r s' o',
    change_outputs_loop orc addr extra l cl nf s o = mkOut (Ok r) s' o' ->
    Inv s nf -> Inv s' (snd r).
  Proof.
    induction l as [|c l IH]; intros cl nf s o r s' o' H HI; cbn [change_outputs_loop] in H.
    - apply ret_inv in H as (-> & -> & ->). exact HI.
    - minv H. apply (askA_inv orc) in H0. subst s1.
      minv H1. pose proof H as Hf. apply (pres_fee_for_output orc e Hfee) in H. subst s1.
      minv H0. apply lift_inv in H as (Hadd & -> & ->).
      minv H1. apply lift_inv in H as (_ & -> & ->).
      destruct (coin cl <? a2); [apply lift_inv in H0 as (? & _); discriminate|].
      minv H0. apply lift_inv in H as (_ & -> & ->).
      minv H1. apply (add_output_spec orc) in H. subst s1.
      eapply IH in H0; eauto.
      unfold checked_add in Hadd. destruct (nf + a0 <? two64); [|discriminate]. inversion Hadd; subst a1.
      eapply Inv_step; eauto.
  Qed.

  Lemma change_while_loop_inv addr extra fuel : forall cl nf s o r s' o',
    change_while_loop orc fuel addr extra cl nf s o = mkOut (Ok r) s' o' ->
    Inv s nf -> Inv s' (snd r).
  Proof.
    induction fuel as [|fuel IH]; intros cl nf s o r s' o' H HI; cbn [change_while_loop] in H.
    - destruct (change_has_assets_left cl).
      + apply lift_inv in H as (? & _); discriminate.
      + apply ret_inv in H as (-> & -> & ->). exact HI.
    - destruct (change_has_assets_left cl).
      + minv H. apply (pres_pack_nfts orc) in H0. subst s1.
        destruct (existsb ma_positive a); [|apply lift_inv in H1 as (? & _); discriminate].
        minv H1. eapply change_outputs_loop_inv in H; eauto.
      + apply ret_inv in H as (-> & -> & ->). exact HI.
  Qed.
End Loops.

(* ------------------------------------------------------------------------------------------- *)
(* coins of Value arithmetic *)

Lemma vcmp_coin_eq a b : value_partial_cmp a b = Some Eq -> coin a = coin b.
Proof.
  unfold value_partial_cmp. destruct (value_compare_assets _ _) as [c|]; [|discriminate].
  destruct (N.compare_spec (coin a) (coin b)); destruct c; intros H'; try discriminate; auto.
Qed.
Lemma vcmp_coin_gt a b : value_partial_cmp a b = Some Gt -> coin b <= coin a.
Proof.
  unfold value_partial_cmp. destruct (value_compare_assets _ _) as [c|]; [|discriminate].
  destruct (N.compare_spec (coin a) (coin b)); destruct c; intros H'; try discriminate; lia.
Qed.
Lemma vadd_coin a b v : value_checked_add a b = Ok v -> coin v = coin a + coin b.
Proof.
  unfold value_checked_add, u64_add. destruct (coin a + coin b <? two64); cbn [bind]; [|discriminate].
  destruct (multiasset_of a), (multiasset_of b); cbn [bind];
    try (intros H; inversion H; reflexivity).
  destruct (ma_checked_add m m0); cbn [bind]; try discriminate. intros H; inversion H; reflexivity.
Qed.
Lemma vsub_coin a b v : value_checked_sub a b = Ok v -> coin v = coin a - coin b /\ coin b <= coin a.
Proof.
  unfold value_checked_sub, u64_sub. destruct (N.leb_spec (coin b) (coin a)); cbn [bind]; [|discriminate].
  match goal with |- (if ?c then _ else _) = _ -> _ => destruct c end; [|discriminate].
  intros H'; inversion H'; cbn. auto.
Qed.
Lemma vsub_new_ma a f v : value_checked_sub a (value_new f) = Ok v -> multiasset_of v = multiasset_of a.
Proof.
  unfold value_checked_sub, u64_sub. destruct (coin (value_new f) <=? coin a); cbn [bind]; [|discriminate].
  cbn [value_new multiasset_of]. intros H; inversion H; cbn. unfold value_sub_assets; cbn.
  destruct (multiasset_of a); reflexivity.
Qed.

Lemma value_size_mono_coin v v' :
  multiasset_of v' = multiasset_of v -> coin v' <= coin v -> value_size v' <= value_size v.
Proof. intros Hm Hc. unfold value_size. rewrite Hm. pose proof (head_size_mono _ _ Hc). lia. Qed.

Lemma need_w_last_le e s l x x' w :
  out_size e x' <= out_size e x ->
  need_w e (set_s_outputs (l ++ [x']) s) w <= need_w e (set_s_outputs (l ++ [x]) s) w.
Proof.
  intros H. apply need_w_mono_outs. unfold outs_size. rewrite !map_app, !sumN_app, !lenN_app. cbn [map].
  unfold sumN at 2 4; cbn [fold_right]. unfold lenN at 2 4; cbn [length]. lia.
Qed.

(* ------------------------------------------------------------------------------------------- *)
(* from the invariant to the bound on the accumulated fee *)

Lemma Inv_final e s0 X s nf :
  (forall y, s_fee_request s0 <> FeeExactly y) ->
  X = get_new_fee (s_fee_request s0) (need_w e s0 9) ->
  Inv e s0 X s nf ->
  need_w e s (placeholder_w e s0) <= nf /\ core s = core s0 /\ s_fee_request s = s_fee_request s0 /\ s_fee s = s_fee s0.
Proof.
  intros Hne HX ((l & Hs) & Heq & Hor).
  assert (Hcore : core s = core s0) by (rewrite Hs; apply core_set_outputs).
  assert (Hreq : s_fee_request s = s_fee_request s0) by (rewrite Hs; apply req_set_outputs).
  assert (Hfe : s_fee s = s_fee s0) by (rewrite Hs; apply fee_set_outputs).
  split; [|auto].
  set (w0 := head_size (fld0 (s_fee_request s0))) in *.
  assert (Hw0 : w0 <= 9) by (pose proof (head_size_bounds (fld0 (s_fee_request s0))); unfold w0; lia).
  assert (Hmono : need_w e s0 w0 <= need_w e s w0).
  { rewrite Hs. rewrite <- (set_outputs_same s0) at 1. apply need_w_mono_outs. apply outs_size_app_le. }
  pose proof (need_w_diff e s 9 w0 Hw0) as D1. pose proof (need_w_diff e s0 9 w0 Hw0) as D0.
  assert (HP : placeholder_w e s0 <= 9).
  { unfold placeholder_w. destruct (binding e s0); [exact Hw0 | lia]. }
  destruct Hor as [Ho | Ho].
  - (* no output added *)
    assert (s = s0) as -> by (rewrite Hs; rewrite Hs in Ho; rewrite outputs_set_outputs in Ho; rewrite Ho; apply set_outputs_same).
    assert (nf = X) as -> by lia.
    pose proof (al_ge (s_fee_request s0) (need_w e s0 9) Hne).
    pose proof (need_w_mono_w e s0 9 _ HP). lia.
  - unfold placeholder_w, binding. fold w0.
    destruct (s_fee_request s0) eqn:Er.
    + cbn [get_new_fee] in *. lia.
    + rewrite Ho. cbn [get_new_fee] in *.
      destruct (N.ltb_spec (need_w e s0 w0) f).
      * (* binding *)
        cbn [fld0] in *. fold w0.
        destruct (N.ltb_spec (need_w e s0 9) f), (N.ltb_spec (need_w e s w0) f); lia.
      * destruct (N.ltb_spec (need_w e s0 9) f), (N.ltb_spec (need_w e s w0) f); lia.
    + exfalso; eapply Hne; eauto.
Qed.

Tactic Notation "minv" hyp(H) "as" ident(a) ident(s) ident(o) ident(H1) ident(H2) :=
  apply bindM_inv in H; destruct H as (a & s & o & H1 & H2).

(* ------------------------------------------------------------------------------------------- *)
(* the pricing phase of add_change (everything but the final top-up) *)

Section Main.
  Context {O : Type}.
  Variable orc : @oracle O.
  Variable e : env.
  Hypothesis Hfee : fee_exact e orc.

  (* the state after the pricing phase: the stored fee is an aligned figure, and (unless the fee was fixed by the
     caller) it covers the priced transaction with a fee field of the placeholder width *)
  Definition pre_post (s : state) (b : bool) (s1 : state) : Prop :=
    exists x, s_fee s1 = Some (get_new_fee (s_fee_request s) x) /\ core s1 = core s /\
      s_fee_request s1 = s_fee_request s /\
      ((forall y, s_fee_request s <> FeeExactly y) ->
        need_w e s1 (if b then placeholder_w e s else 9) <= get_new_fee (s_fee_request s) x).

  Lemma burn_extra_spec burn b s s1 (o o1 : O) :
    burn_extra (O:=O) burn s o = mkOut (Ok b) s1 o1 -> b = false /\ s1 = set_final_fee burn s.
  Proof.
    unfold burn_extra. intros H. minv H as a s' o' H1 H2. apply get_inv in H1 as (-> & -> & ->).
    destruct (c_do_not_burn_extra_change (s_cfg s)); [apply lift_inv in H2 as (? & _); discriminate|].
    assert (G : bindM (modify (set_final_fee burn)) (fun _ => ret false) s o = mkOut (Ok b) s1 o1 -> b = false /\ s1 = set_final_fee burn s).
    { intros G. minv G as u s' o' G1 G2. apply modify_inv in G1 as (-> & ->). apply ret_inv in G2 as (-> & -> & ->). auto. }
    destruct (s_fee_request s); auto.
    destruct (f <? burn); [apply lift_inv in H2 as (? & _); discriminate | auto].
  Qed.

  Lemma burn_post s burn X :
    ((forall y, s_fee_request s <> FeeExactly y) -> X = get_new_fee (s_fee_request s) (need_w e s 9)) ->
    X <= burn -> pre_post s false (set_final_fee burn s).
  Proof.
    intros HX Hb. exists burn. rewrite fee_set_final_fee, core_set_final_fee, req_set_final_fee.
    repeat split; auto. intros Hne. rewrite need_w_set_final_fee. specialize (HX Hne).
    pose proof (al_ge _ (need_w e s 9) Hne). pose proof (al_ge _ burn Hne). lia.
  Qed.

  Lemma pure_branch_spec addr extra ce X b s s1 (o o1 : O) :
    pure_branch_legacy orc addr extra ce X s o = mkOut (Ok b) s1 o1 ->
    ((forall y, s_fee_request s <> FeeExactly y) -> X = get_new_fee (s_fee_request s) (need_w e s 9)) ->
    X <= coin ce ->
    pre_post s b s1.
  Proof.
    unfold pure_branch_legacy. intros H HX Hce.
    minv H as min_ada s' o' H1 H2. apply (askA_inv orc) in H1. subst s'.
    destruct (coin ce <? min_ada).
    { apply burn_extra_spec in H2 as (-> & ->). apply (burn_post _ _ X); auto. }
    minv H2 as d s' o2 H3 H4. pose proof H3 as Hffo. apply (pres_fee_for_output orc e Hfee) in H3. subst s'.
    minv H4 as nf s' o3 H5 H6. apply lift_inv in H5 as (Hadd & -> & ->).
    minv H6 as nd s' o4 H7 H8. apply lift_inv in H7 as (_ & -> & ->).
    destruct (coin ce <? nd).
    { apply burn_extra_spec in H8 as (-> & ->). apply (burn_post _ _ X); auto. }
    minv H8 as u s' o5 H9 H10. apply modify_inv in H9 as (-> & ->).
    minv H10 as amount s' o6 H11 H12. apply lift_inv in H11 as (Hsub & -> & ->).
    minv H12 as u2 s' o7 H13 H14. apply (add_output_spec orc) in H13. subst s'.
    apply ret_inv in H14 as (-> & -> & ->).
    unfold checked_add in Hadd. destruct (X + d <? two64); [|discriminate]. inversion Hadd; subst nf. clear Hadd.
    exists (X + d).
    rewrite fee_set_outputs, fee_set_final_fee, core_set_outputs, core_set_final_fee, req_set_outputs, req_set_final_fee.
    repeat split; auto. intros Hne. specialize (HX Hne).
    pose proof (Inv_step orc e Hfee s X s X _ d _ _ _ (Inv_init e s X) Hffo) as HI.
    apply (Inv_final e s X _ _ Hne HX) in HI as (HI & _).
    rewrite outputs_set_final_fee, set_outputs_final_fee_comm, need_w_set_final_fee.
    pose proof (al_ge _ (X + d) Hne).
    assert (need_w e (set_s_outputs (s_outputs s ++ [mkOutput addr amount extra]) s) (placeholder_w e s)
            <= need_w e (set_s_outputs (s_outputs s ++ [mkOutput addr ce extra]) s) (placeholder_w e s)).
    { apply need_w_last_le. unfold out_size; cbn [o_addr o_extra o_amount].
      pose proof (vsub_coin _ _ _ Hsub) as (Hc & _). pose proof (vsub_new_ma _ _ _ Hsub) as Hm.
      pose proof (value_size_mono_coin ce amount Hm). lia. }
    lia.
  Qed.

  Lemma Inv_core s0 X s nf : Inv e s0 X s nf -> core s = core s0 /\ s_fee_request s = s_fee_request s0.
  Proof. intros ((l & ->) & _). split; [apply core_set_outputs | apply req_set_outputs]. Qed.

  Lemma asset_branch_pre_spec fuel addr extra it ot X bg s s1 (o o1 : O) :
    asset_branch_pre orc fuel addr extra it ot X s o = mkOut (Ok bg) s1 o1 ->
    ((forall y, s_fee_request s <> FeeExactly y) -> X = get_new_fee (s_fee_request s) (need_w e s 9)) ->
    fst bg = true /\ pre_post s true s1.
  Proof.
    unfold asset_branch_pre. intros H HX.
    minv H as cl0 s' o' H1 H2. apply lift_inv in H1 as (_ & -> & ->).
    minv H2 as minimum s' o2 H3 H4. apply (askA_inv orc) in H3. subst s'.
    minv H4 as r sl o3 H5 H6. apply (change_while_loop_inv orc e Hfee s X) in H5; [|apply Inv_init].
    minv H6 as cl1 s' o4 H7 H8. apply lift_inv in H7 as (Hcl1 & -> & ->).
    minv H8 as sg s' o5 H9 H10. apply get_inv in H9 as (-> & -> & ->).
    minv H10 as r2 s2 o6 H11 H12.
    minv H12 as u s' o7 H13 H14. apply modify_inv in H13 as (-> & ->).
    apply ret_inv in H14 as (-> & -> & ->). cbn [fst]. split; auto.
    pose proof (Inv_core _ _ _ _ H5) as (Hc & Hr).
    (* what the optional pure-ADA output step leaves *)
    assert (G : core s2 = core s /\ s_fee_request s2 = s_fee_request s /\
                ((forall y, s_fee_request s <> FeeExactly y) -> need_w e s2 (placeholder_w e s) <= snd r2)).
    { assert (G0 : (forall y, s_fee_request s <> FeeExactly y) -> need_w e sl (placeholder_w e s) <= snd r).
      { intros Hne. apply (Inv_final e s X _ _ Hne (HX Hne)) in H5. tauto. }
      destruct (c_prefer_pure_change (s_cfg sl) && (minimum <? coin cl1)).
      - minv H11 as af s' o8 G1 G2. pose proof G1 as Hffo. apply (pres_fee_for_output orc e Hfee) in G1. subst s'.
        minv G2 as ppv s' o9 G3 G4. apply lift_inv in G3 as (Hppv & -> & ->).
        destruct (minimum <? coin ppv).
        + minv G4 as nf' s' o10 G5 G6. apply lift_inv in G5 as (Hadd & -> & ->).
          minv G6 as u2 s' o11 G7 G8. apply (add_output_spec orc) in G7. subst s'.
          apply ret_inv in G8 as (-> & -> & ->). cbn [snd fst].
          unfold checked_add in Hadd. destruct (snd r + af <? two64); [|discriminate]. inversion Hadd; subst nf'.
          rewrite core_set_outputs, req_set_outputs. repeat split; auto. intros Hne.
          pose proof (Inv_step orc e Hfee s X sl (snd r) _ af _ _ _ H5 Hffo) as HI.
          apply (Inv_final e s X _ _ Hne (HX Hne)) in HI as (HI & _).
          assert (need_w e (set_s_outputs (s_outputs sl ++ [mkOutput addr ppv extra]) sl) (placeholder_w e s)
                  <= need_w e (set_s_outputs (s_outputs sl ++ [mkOutput addr cl1 extra]) sl) (placeholder_w e s)).
          { apply need_w_last_le. unfold out_size; cbn [o_addr o_extra o_amount].
            pose proof (vsub_coin _ _ _ Hppv) as (Hcn & _). pose proof (vsub_new_ma _ _ _ Hppv) as Hm.
            pose proof (value_size_mono_coin cl1 ppv Hm). lia. }
          lia.
        + apply ret_inv in G4 as (-> & -> & ->). cbn [snd fst]. auto.
      - apply ret_inv in H11 as (-> & -> & ->). cbn [snd fst]. auto. }
    destruct G as (Gc & Gr & Gn).
    exists (snd r2). rewrite fee_set_final_fee, core_set_final_fee, req_set_final_fee, Gr.
    repeat split; auto. intros Hne. rewrite need_w_set_final_fee.
    pose proof (al_ge _ (snd r2) Hne). specialize (Gn Hne). lia.
  Qed.

  Theorem add_change_pre_spec fuel addr extra bg s s1 (o o1 : O) :
    add_change_pre orc fuel addr extra s o = mkOut (Ok bg) s1 o1 ->
    s_fee s = None /\ pre_post s (fst bg) s1 /\ (snd bg <> None -> fst bg = true).
  Proof.
    unfold add_change_pre. intros H.
    minv H as sg s' o' H1 H2. apply get_inv in H1 as (-> & -> & ->).
    destruct (s_fee s) eqn:Efee; [apply lift_inv in H2 as (? & _); discriminate|]. split; auto.
    minv H2 as X s' o2 H3 H4. apply (min_fee_pub_spec orc e Hfee) in H3 as (-> & HX0).
    assert (HX : (forall y, s_fee_request s <> FeeExactly y) -> X = get_new_fee (s_fee_request s) (need_w e s 9)).
    { intros Hne. rewrite (al_two32_w _ Hne) in HX0. exact HX0. }
    minv H4 as it s' o3 H5 H6. apply lift_inv in H5 as (_ & -> & ->).
    minv H6 as ot s' o4 H7 H8. apply lift_inv in H7 as (_ & -> & ->).
    minv H8 as sh s' o5 H9 H10. apply lift_inv in H9 as (_ & -> & ->).
    destruct sh; [apply lift_inv in H10 as (? & _); discriminate|].
    minv H10 as opf s' o6 H11 H12. apply lift_inv in H11 as (Hopf & -> & ->).
    apply vadd_coin in Hopf. cbn [value_new coin] in Hopf.
    destruct (value_partial_cmp it opf) as [[ | | ]|] eqn:Ecmp;
      try (apply lift_inv in H12 as (? & _); discriminate).
    - (* exact *)
      minv H12 as d s' o7 H13 H14. apply lift_inv in H13 as (Hd & -> & ->).
      minv H14 as u s' o8 H15 H16. apply modify_inv in H15 as (-> & ->).
      apply ret_inv in H16 as (-> & -> & ->). cbn [fst snd]. split; [|intros Hc; exfalso; apply Hc; reflexivity].
      apply vcmp_coin_eq in Ecmp. apply vsub_coin in Hd as (Hd & _).
      apply (burn_post _ _ X); auto. lia.
    - (* change or burn *)
      minv H12 as ce s' o7 H13 H14. apply lift_inv in H13 as (Hce & -> & ->).
      apply vcmp_coin_gt in Ecmp. apply vsub_coin in Hce as (Hce & _).
      destruct (has_assets (multiasset_of ce)).
      + apply asset_branch_pre_spec in H14 as (Hb & Hp); auto. rewrite Hb. auto.
      + minv H14 as b s' o8 H15 H16. apply ret_inv in H16 as (-> & -> & ->). cbn [fst snd].
        split; [|intros Hc; exfalso; apply Hc; reflexivity].
        eapply pure_branch_spec; eauto. lia.
  Qed.
End Main.

(* ------------------------------------------------------------------------------------------- *)
(* add_change = pricing phase, then the top-up *)

Section Split.
  Context {O : Type}.
  Variable orc : @oracle O.

  Lemma asset_branch_split fuel addr extra it ot fee s (o : O) :
    asset_branch_legacy orc fuel addr extra it ot fee s o =
    bindM (asset_branch_pre orc fuel addr extra it ot fee) (finish_change orc) s o.
  Proof.
    unfold asset_branch_legacy, asset_branch_pre.
    do 6 (rewrite bindM_assoc; apply bindM_ext; intros).
    rewrite bindM_assoc. apply bindM_ext; intros. reflexivity.
  Qed.

  Lemma add_change_split fuel addr extra s (o : O) :
    add_change_legacy orc fuel addr extra s o =
    bindM (add_change_pre orc fuel addr extra) (finish_change orc) s o.
  Proof.
    unfold add_change_legacy, add_change_pre.
    rewrite bindM_assoc; apply bindM_ext; intros sg s1 o1.
    destruct (s_fee sg); [reflexivity|].
    do 4 (rewrite bindM_assoc; apply bindM_ext; intros).
    destruct a2; [reflexivity|].
    rewrite bindM_assoc; apply bindM_ext; intros.
    destruct (value_partial_cmp a0 a2) as [[ | | ]|]; try reflexivity.
    - rewrite bindM_assoc; apply bindM_ext; intros.
      rewrite bindM_assoc; apply bindM_ext; intros. reflexivity.
    - rewrite bindM_assoc; apply bindM_ext; intros.
      destruct (has_assets (multiasset_of a3)).
      + apply asset_branch_split.
      + rewrite bindM_assoc. unfold finish_change. cbn [snd fst].
        symmetry. etransitivity; [|apply bindM_ret_r]. apply bindM_ext; intros. reflexivity.
  Qed.
End Split.

(* ------------------------------------------------------------------------------------------- *)
(* the theorems *)

Section Theorems.
  Context {O : Type}.
  Variable orc : @oracle O.
  Variable e : env.
  Hypothesis Hfee : fee_exact e orc.

  Lemma top_up_last_spec t u s s' (o o' : O) :
    top_up_last orc t s o = mkOut (Ok u) s' o' -> exists outs', s' = set_s_outputs outs' s.
  Proof.
    unfold top_up_last. intros H. minv H as sg s1 o1 H1 H2. apply get_inv in H1 as (-> & -> & ->).
    destruct (rev (s_outputs s)) as [|last before]; [apply lift_inv in H2 as (? & _); discriminate|].
    minv H2 as amount s1 o1 H3 H4. apply lift_inv in H3 as (_ & -> & ->).
    minv H4 as u2 s1 o2 H5 H6. apply put_inv in H5 as (-> & _).
    apply (pres_output_admissible orc) in H6. subst s'. eauto.
  Qed.

  Lemma finish_change_spec bg b s s' (o o' : O) :
    finish_change orc bg s o = mkOut (Ok b) s' o' ->
    b = fst bg /\ (snd bg = None -> s' = s) /\ exists outs', s' = set_s_outputs outs' s.
  Proof.
    unfold finish_change. destruct (snd bg) as [t|].
    - intros H. minv H as u s1 o1 H1 H2. apply ret_inv in H2 as (-> & -> & ->).
      split; auto. split; [discriminate|].
      destruct (value_is_zero t).
      + apply ret_inv in H1 as (_ & -> & _). exists (s_outputs s). symmetry; apply set_outputs_same.
      + eapply top_up_last_spec; eauto.
    - intros H. apply ret_inv in H as (-> & -> & ->). repeat split; auto.
      exists (s_outputs s). symmetry; apply set_outputs_same.
  Qed.

  (* C06_policy: the fee add_change stores respects the request *)
  Theorem add_change_legacy_policy fuel addr extra b s s' (o o' : O) :
    add_change_legacy orc fuel addr extra s o = mkOut (Ok b) s' o' ->
    exists F, s_fee s' = Some F /\ s_fee_request s' = s_fee_request s /\ policy_ok (s_fee_request s) F.
  Proof.
    intros H. rewrite add_change_split in H. minv H as bg s1 o1 Hpre Hfin.
    apply (add_change_pre_spec orc e Hfee) in Hpre as (_ & (x & Hf & _ & Hr & _) & _).
    apply finish_change_spec in Hfin as (_ & _ & outs' & ->).
    exists (get_new_fee (s_fee_request s) x). rewrite fee_set_outputs, req_set_outputs. repeat split; auto.
    unfold policy_ok, get_new_fee. destruct (s_fee_request s); auto.
    destruct (N.ltb_spec x f); lia.
  Qed.

  (* C06_sufficient *)
  Theorem add_change_legacy_fee_sufficient fuel addr extra b s s' (o o' : O) :
    add_change_legacy orc fuel addr extra s o = mkOut (Ok b) s' o' ->
    (forall y, s_fee_request s <> FeeExactly y) ->
    slack_ok e orc fuel addr extra s o = true ->
    sufficient e s'.
  Proof.
    intros H Hne Hslack. unfold slack_ok in Hslack. rewrite H in Hslack. cbn [out_st] in Hslack.
    rewrite add_change_split in H. minv H as bg s1 o1 Hpre Hfin. rewrite Hpre in Hslack. cbn [out_res out_st] in Hslack.
    apply (add_change_pre_spec orc e Hfee) in Hpre as (_ & (x & Hf & Hc & Hr & Hn) & Hg).
    apply finish_change_spec in Hfin as (-> & Hsame & outs' & ->).
    specialize (Hn Hne). set (F := get_new_fee (s_fee_request s) x) in *.
    exists F. rewrite fee_set_outputs. split; auto.
    rewrite fee_set_outputs, Hf, outputs_set_outputs in Hslack.
    destruct bg as [b g]; cbn [fst snd] in *. destruct b.
    - apply N.leb_le in Hslack.
      unfold need, need_w in *. rewrite core_set_outputs, outputs_set_outputs. nia.
    - assert (g = None) as -> by (destruct g; auto; assert (false = true) by (apply Hg; discriminate); discriminate).
      rewrite (Hsame eq_refl). pose proof (head_size_bounds F).
      pose proof (need_w_mono_w e s1 9 (head_size F)). unfold need. lia.
  Qed.
End Theorems.

(* ------------------------------------------------------------------------------------------- *)
(* build_tx's final guard; add_inputs_from_and_change ends with a successful add_change *)

Section Build.
  Context {O : Type}.
  Variable orc : @oracle O.
  Variable e : env.
  Hypothesis Hfee : fee_exact e orc.

  Lemma askT_inv x v s s' (o o' : O) : askT orc x s o = mkOut (Ok v) s' o' -> s' = s.
  Proof. unfold askT. intros H; inversion H; auto. Qed.

  Lemma validate_fee_spec u s s' (o o' : O) :
    validate_fee orc s o = mkOut (Ok u) s' o' ->
    s' = s /\ exists F, get_fee_if_set s = Some F /\ need e s F <= F /\ policy_ok (s_fee_request s) F.
  Proof.
    unfold validate_fee. intros H. minv H as sg s1 o1 H1 H2. apply get_inv in H1 as (-> & -> & ->).
    destruct (get_fee_if_set s) as [F|] eqn:EF; [|apply lift_inv in H2 as (? & _); discriminate].
    match type of H2 with (if negb ?h then _ else _) _ _ = _ => destruct h eqn:Eh end; cbn [negb] in H2;
      [|apply lift_inv in H2 as (? & _); discriminate].
    minv H2 as mf s1 o1 H3 H4. apply (askF_inv orc e Hfee) in H3 as (Hm & ->).
    destruct (N.ltb_spec F mf); [apply lift_inv in H4 as (? & _); discriminate|].
    apply ret_inv in H4 as (_ & -> & _). split; auto.
    apply min_fee_model_ok in Hm as (f & Hf & ->). rewrite EF in Hf. inversion Hf; subst.
    exists f. repeat split; auto. unfold policy_ok.
    destruct (s_fee_request s); auto; [apply N.leb_le in Eh | apply N.eqb_eq in Eh]; auto.
  Qed.

  (* C06_validate / C06_policy_build *)
  Theorem build_tx_validates body s s' (o o' : O) :
    build_tx orc s o = mkOut (Ok body) s' o' ->
    exists F, get_fee_if_set s = Some F /\ b_fee body = F /\ need e s F <= F /\ policy_ok (s_fee_request s) F.
  Proof.
    unfold build_tx. intros H. minv H as u s1 o1 H1 H2. apply validate_fee_spec in H1 as (-> & F & HF & Hn & Hp).
    minv H2 as sg s1 o2 H3 H4. apply get_inv in H3 as (-> & -> & ->).
    minv H4 as u2 s1 o3 H5 H6. apply lift_inv in H5 as (_ & -> & ->).
    unfold build in H6. minv H6 as sg s1 o4 H7 H8. apply get_inv in H7 as (-> & -> & ->).
    rewrite HF in H8. minv H8 as u3 s1 o5 H9 H10.
    assert (s1 = s) as ->.
    { destruct (s_mint s); [|apply ret_inv in H9; tauto].
      minv H9 as u4 s2 o6 G1 G2. apply lift_inv in G1 as (_ & -> & ->). apply ret_inv in G2; tauto. }
    minv H10 as big s1 o6 H11 H12. apply askT_inv in H11. subst s1.
    destruct big; [apply lift_inv in H12 as (? & _); discriminate|].
    apply ret_inv in H12 as (-> & -> & ->). exists F. repeat split; auto.
    unfold body_of; cbn [b_fee]. rewrite HF. reflexivity.
  Qed.

  Lemma catch_some {A} (m : @M O A) v s s' (o o' : O) :
    catch m s o = mkOut (Ok (Some v)) s' o' -> m s o = mkOut (Ok v) s' o'.
  Proof.
    unfold catch. destruct (m s o) as [r s1 o1]; cbn. destruct r; intros H; inversion H; reflexivity.
  Qed.

  Lemma retry_loop_ends fuel addr extra l : forall b s s' (o o' : O),
    retry_loop orc fuel addr extra l s o = mkOut (Ok (Some b)) s' o' ->
    exists st ot, add_change orc fuel addr extra st ot = mkOut (Ok b) s' o'.
  Proof.
    induction l as [|x l IH]; intros b s s' o o' H; cbn [retry_loop] in H.
    - apply ret_inv in H as (? & _); discriminate.
    - minv H as u s1 o1 H1 H2. minv H2 as res s2 o2 H3 H4.
      destruct res as [v|].
      + apply ret_inv in H4 as (Hv & -> & ->). inversion Hv; subst. apply catch_some in H3. eauto.
      + eapply IH; eauto.
  Qed.

  (* the state add_inputs_from_and_change leaves on success is the state a successful add_change left *)
  Theorem select_and_change_ends fuel utxos addr extra b s s' (o o' : O) :
    add_inputs_from_and_change orc fuel utxos addr extra s o = mkOut (Ok b) s' o' ->
    exists st ot, add_change orc fuel addr extra st ot = mkOut (Ok b) s' o'.
  Proof.
    unfold add_inputs_from_and_change. intros H.
    minv H as sg s1 o1 H1 H2. minv H2 as sel s2 o2 H3 H4. minv H4 as u s3 o3 H5 H6.
    destruct (negb (snd sel)); [apply lift_inv in H6 as (? & _); discriminate|].
    minv H6 as sg2 s4 o4 H7 H8.
    destruct (s_fee sg2); [apply lift_inv in H8 as (? & _); discriminate|].
    minv H8 as res s5 o5 H9 H10.
    destruct res as [v|].
    - apply ret_inv in H10 as (-> & -> & ->). apply catch_some in H9. eauto.
    - minv H10 as sg3 s6 o6 H11 H12. minv H12 as r s7 o7 H13 H14.
      destruct r as [v|]; [|apply lift_inv in H14 as (? & _); discriminate].
      apply ret_inv in H14 as (-> & -> & ->). eapply retry_loop_ends; eauto.
  Qed.
End Build.

(* ------------------------------------------------------------------------------------------- *)
(* C06_telescope: sequential fee_for_output increments add up to the difference of the estimates, including
   the growth of the outputs array head (23 -> 24, 255 -> 256 outputs) *)

Definition add_out (x : output) (s : state) : state := set_s_outputs (s_outputs s ++ [x]) s.
Definition add_outs (l : list output) (s : state) : state := set_s_outputs (s_outputs s ++ l) s.

Fixpoint seq_fees (e : env) (w : N) (s : state) (l : list output) : N :=
  match l with
  | [] => 0
  | x :: r => (need_w e (add_out x s) w - need_w e s w) + seq_fees e w (add_out x s) r
  end.

Lemma need_w_add_outs e s l w :
  need_w e (add_outs l s) w + e_a e * head_size (lenN (s_outputs s))
  = need_w e s w + e_a e * (sumN (map (out_size e) l) + head_size (lenN (s_outputs s) + lenN l)).
Proof.
  unfold add_outs, need_w. rewrite core_set_outputs, outputs_set_outputs.
  unfold outs_size. rewrite map_app, sumN_app, lenN_app. nia.
Qed.

Lemma add_outs_cons x l s : add_outs (x :: l) s = add_outs l (add_out x s).
Proof.
  unfold add_outs, add_out. rewrite outputs_set_outputs, set_outputs_set_outputs, <- app_assoc. reflexivity.
Qed.

Lemma need_w_add_out_le e s x w : need_w e s w <= need_w e (add_out x s) w.
Proof.
  unfold add_out. rewrite <- (set_outputs_same s) at 1. apply need_w_mono_outs. apply outs_size_app_le.
Qed.

Theorem seq_fees_telescope e w l : forall s,
  seq_fees e w s l = need_w e (add_outs l s) w - need_w e s w.
Proof.
  induction l as [|x l IH]; intros s; cbn [seq_fees].
  - unfold add_outs. rewrite app_nil_r, set_outputs_same. lia.
  - rewrite IH, add_outs_cons.
    pose proof (need_w_add_out_le e s x w).
    assert (need_w e (add_out x s) w <= need_w e (add_outs l (add_out x s)) w).
    { unfold add_outs. rewrite <- (set_outputs_same (add_out x s)) at 1. apply need_w_mono_outs, outs_size_app_le. }
    lia.
Qed.

Theorem seq_fees_closed_form e w l s :
  seq_fees e w s l + e_a e * head_size (lenN (s_outputs s))
  = e_a e * (sumN (map (out_size e) l) + head_size (lenN (s_outputs s) + lenN l)).
Proof.
  rewrite seq_fees_telescope. pose proof (need_w_add_outs e s l w).
  assert (need_w e s w <= need_w e (add_outs l s) w).
  { unfold add_outs. rewrite <- (set_outputs_same s) at 1. apply need_w_mono_outs, outs_size_app_le. }
  lia.
Qed.

(* without a fee request, fee_for_output IS the increment of the estimate (fee field of one byte: 0) *)
Lemma fee_for_output_unspecified {O} (orc : @oracle O) e (Hfee : fee_exact e orc) x d s s' (o o' : O) :
  s_fee_request s = FeeUnspecified ->
  fee_for_output orc x s o = mkOut (Ok d) s' o' ->
  d = need_w e (add_out x s) 1 - need_w e s 1.
Proof.
  intros Hr H. apply (fee_for_output_spec orc e Hfee) in H. cbn zeta in H. rewrite Hr in H.
  cbn [get_new_fee fld0] in H. change (head_size 0) with 1 in H. unfold add_out. tauto.
Qed.

(* ------------------------------------------------------------------------------------------- *)
(* when the slack is enough: the arithmetic of the widths *)

(* only the last output's coin grew *)
Lemma slack_from_widths e l x x' F P :
  e_obase e (o_addr x') (o_extra x') = e_obase e (o_addr x) (o_extra x) ->
  value_extra (multiasset_of (o_amount x')) = value_extra (multiasset_of (o_amount x)) ->
  head_size (coin (o_amount x')) + head_size F <= head_size (coin (o_amount x)) + P ->
  outs_size e (l ++ [x']) + head_size F <= outs_size e (l ++ [x]) + P.
Proof.
  intros Hb Hv Hw. unfold outs_size. rewrite !map_app, !sumN_app, !lenN_app. cbn [map].
  unfold sumN at 2 4; cbn [fold_right]. unfold lenN at 2 4; cbn [length]. unfold out_size, value_size. rewrite Hb, Hv. lia.
Qed.

(* a coin priced at 2^16 or more (a 5-byte integer at least) and a fee below 2^32 (5 bytes at most): whatever the
   top-up makes of the coin fits the 9-byte placeholder *)
Lemma widths_mainnet c c' F : 65536 <= c -> F < 4294967296 -> head_size c' + head_size F <= head_size c + 9.
Proof.
  intros Hc HF. pose proof (head_size_bounds c').
  assert (5 <= head_size c).
  { unfold head_size. repeat match goal with |- context [N.ltb ?a ?b] => destruct (N.ltb_spec a b); try lia end. }
  assert (head_size F <= 5).
  { unfold head_size. repeat match goal with |- context [N.ltb ?a ?b] => destruct (N.ltb_spec a b); try lia end. }
  lia.
Qed.

(* ------------------------------------------------------------------------------------------- *)
(* the repaired add_change = the old one followed by check_fee_after_change on the paths that return true *)

Section Fix.
  Context {O : Type}.
  Variable orc : @oracle O.

  Lemma burn_extra_post x s (o : O) :
    burn_extra x s o = bindM (burn_extra x) (post_check orc) s o.
  Proof.
    unfold burn_extra. rewrite bindM_assoc. apply bindM_ext. intros sg s1 o1.
    destruct (c_do_not_burn_extra_change (s_cfg sg)); [reflexivity|].
    assert (G : forall s2 (o2 : O), bindM (modify (set_final_fee x)) (fun _ => ret false) s2 o2
                = bindM (bindM (modify (set_final_fee x)) (fun _ => ret false)) (post_check orc) s2 o2).
    { intros. rewrite bindM_assoc. apply bindM_ext. intros. reflexivity. }
    destruct (s_fee_request sg); try apply G.
    destruct (f <? x); [reflexivity | apply G].
  Qed.

  Lemma pure_branch_fix_split addr extra ce fee s (o : O) :
    pure_branch orc addr extra ce fee s o = bindM (pure_branch_legacy orc addr extra ce fee) (post_check orc) s o.
  Proof.
    unfold pure_branch, pure_branch_legacy.
    rewrite bindM_assoc; apply bindM_ext; intros.
    destruct (coin ce <? a); [apply burn_extra_post|].
    do 3 (rewrite bindM_assoc; apply bindM_ext; intros).
    destruct (coin ce <? a2); [apply burn_extra_post|].
    do 3 (rewrite bindM_assoc; apply bindM_ext; intros). reflexivity.
  Qed.

  Lemma asset_branch_fix_split fuel addr extra it ot fee s (o : O) :
    asset_branch orc fuel addr extra it ot fee s o
    = bindM (asset_branch_legacy orc fuel addr extra it ot fee) (post_check orc) s o.
  Proof.
    unfold asset_branch, asset_branch_legacy.
    do 8 (rewrite bindM_assoc; apply bindM_ext; intros). reflexivity.
  Qed.

  Lemma add_change_fix_split fuel addr extra s (o : O) :
    add_change orc fuel addr extra s o = bindM (add_change_legacy orc fuel addr extra) (post_check orc) s o.
  Proof.
    unfold add_change, add_change_legacy.
    rewrite bindM_assoc; apply bindM_ext; intros sg s1 o1.
    destruct (s_fee sg); [reflexivity|].
    do 4 (rewrite bindM_assoc; apply bindM_ext; intros).
    destruct a2; [reflexivity|].
    rewrite bindM_assoc; apply bindM_ext; intros.
    destruct (value_partial_cmp a0 a2) as [[ | | ]|]; try reflexivity.
    - do 2 (rewrite bindM_assoc; apply bindM_ext; intros). reflexivity.
    - rewrite bindM_assoc; apply bindM_ext; intros.
      destruct (has_assets (multiasset_of a3)); [apply asset_branch_fix_split | apply pure_branch_fix_split].
  Qed.

  Variable e : env.
  Hypothesis Hfee : fee_exact e orc.

  (* the check leaves the state alone; when it passes (fee not fixed by the caller) the stored fee covers the estimate *)
  Lemma check_fee_after_change_inv u s s' (o o' : O) :
    check_fee_after_change orc s o = mkOut (Ok u) s' o' ->
    s' = s /\ ((forall y, s_fee_request s <> FeeExactly y) -> forall F, s_fee s = Some F -> need e s F <= F).
  Proof.
    unfold check_fee_after_change. intros H. minv H as sg s1 o1 H1 H2. apply get_inv in H1 as (-> & -> & ->).
    assert (G : (match s_fee s with
                 | Some fee => bindM (askF orc s) (fun mf => if fee <? mf then lift Err else ret tt)
                 | None => ret tt end) s o = mkOut (Ok u) s' o' ->
                s' = s /\ forall F, s_fee s = Some F -> need e s F <= F).
    { destruct (s_fee s) as [F|] eqn:EF.
      - intros G. minv G as mf s1 o1 G1 G2. apply (askF_inv orc e Hfee) in G1 as (Hm & ->).
        destruct (N.ltb_spec F mf); [apply lift_inv in G2 as (? & _); discriminate|].
        apply ret_inv in G2 as (_ & -> & _). split; auto. intros F' HF'. inversion HF'; subst F'.
        apply min_fee_model_ok in Hm as (f & Hf & ->). unfold get_fee_if_set in Hf. rewrite EF in Hf.
        inversion Hf; subst. exact H.
      - intros G. apply ret_inv in G as (_ & -> & _). split; auto. discriminate. }
    destruct (s_fee_request s) eqn:Er.
    - apply G in H2 as (-> & H2). split; auto.
    - apply G in H2 as (-> & H2). split; auto.
    - apply ret_inv in H2 as (_ & -> & _). split; auto. intros Hne. exfalso. eapply Hne; eauto.
  Qed.

  (* what a successful run of the OLD code leaves (from the analysis of the pricing phase) *)
  Lemma add_change_legacy_post fuel addr extra b s s1 (o o1 : O) :
    add_change_legacy orc fuel addr extra s o = mkOut (Ok b) s1 o1 ->
    exists F, s_fee s1 = Some F /\ s_fee_request s1 = s_fee_request s /\ policy_ok (s_fee_request s) F /\
      (b = false -> (forall y, s_fee_request s <> FeeExactly y) -> need e s1 F <= F).
  Proof.
    intros H. pose proof H as Hpol. apply (add_change_legacy_policy orc e Hfee) in Hpol as (F & HF & Hr & Hp).
    exists F. repeat split; auto. intros -> Hne.
    rewrite add_change_split in H. minv H as bg s2 o2 Hpre Hfin.
    apply (add_change_pre_spec orc e Hfee) in Hpre as (_ & (x & Hf & Hc & Hrq & Hn) & Hg).
    apply finish_change_spec in Hfin as (Hb & Hsame & _).
    destruct bg as [b g]; cbn [fst snd] in *. subst b.
    assert (g = None) as -> by (destruct g; auto; assert (false = true) by (apply Hg; discriminate); discriminate).
    rewrite (Hsame eq_refl) in *. rewrite Hf in HF. inversion HF; subst F.
    specialize (Hn Hne). pose proof (head_size_bounds (get_new_fee (s_fee_request s) x)).
    pose proof (need_w_mono_w e s2 9 (head_size (get_new_fee (s_fee_request s) x))). unfold need. lia.
  Qed.

  (* C06_sufficient, full strength: every successful add_change (fee not fixed by the caller) stores a sufficient fee *)
  Theorem add_change_fee_sufficient fuel addr extra b s s' (o o' : O) :
    add_change orc fuel addr extra s o = mkOut (Ok b) s' o' ->
    (forall y, s_fee_request s <> FeeExactly y) ->
    sufficient e s'.
  Proof.
    intros H Hne. rewrite add_change_fix_split in H. minv H as b1 s1 o1 Hl Hp.
    apply add_change_legacy_post in Hl as (F & HF & Hr & _ & Hfalse).
    unfold post_check in Hp. destruct b1.
    - minv Hp as u s2 o2 Hc Hret. apply check_fee_after_change_inv in Hc as (-> & Hc).
      apply ret_inv in Hret as (_ & -> & _). exists F. split; auto. apply Hc; auto. rewrite Hr. exact Hne.
    - apply ret_inv in Hp as (_ & -> & _). exists F. split; auto.
  Qed.

  (* C06_policy for the repaired code *)
  Theorem add_change_policy fuel addr extra b s s' (o o' : O) :
    add_change orc fuel addr extra s o = mkOut (Ok b) s' o' ->
    exists F, s_fee s' = Some F /\ s_fee_request s' = s_fee_request s /\ policy_ok (s_fee_request s) F.
  Proof.
    intros H. rewrite add_change_fix_split in H. minv H as b1 s1 o1 Hl Hp.
    apply add_change_legacy_post in Hl as (F & HF & Hr & Hpol & _).
    assert (s' = s1) as ->.
    { unfold post_check in Hp. destruct b1.
      - minv Hp as u s2 o2 Hc Hret. apply check_fee_after_change_inv in Hc as (-> & _).
        apply ret_inv in Hret as (_ & -> & _). reflexivity.
      - apply ret_inv in Hp as (_ & -> & _). reflexivity. }
    eauto.
  Qed.
End Fix.

(* ------------------------------------------------------------------------------------------- *)
(* witnesses: the premises are satisfiable, and the slack premise cannot be dropped *)

Lemma sufficientb_spec e s : sufficientb e s = true <-> sufficient e s.
Proof.
  unfold sufficientb, sufficient. split.
  - destruct (s_fee s) as [F|]; [|discriminate]. intros H. exists F. split; auto. apply N.leb_le; auto.
  - intros (F & -> & H). apply N.leb_le; auto.
Qed.

Lemma size_oracle_fee_exact e cpb mv : fee_exact e (size_oracle e cpb mv).
Proof. intros st o. reflexivity. Qed.

Module Witness.
  Definition pol : bytes := repeat 1 28.
  Definition tok : bytes := [116; 111; 107].
  Definition cfg := mkConfig 500000000 2000000 false false.
  (* one key input (enterprise address), no requested output, change to an enterprise address (id 1; the fake
     address of the min-ADA calculator is id 0, a 57-byte base address): K = 154 bytes, as measured on the
     implementation *)
  Definition obase (a _ : N) : N := if a =? 0 then 60 else 32.
  Definition e_main : env := mkEnv 44 155381 16384 (fun _ => 154) obase (fun _ => Ok 0) (fun _ => Ok 0).
  (* 5000 ADA and 5 tokens of one asset *)
  Definition s_tok : state := set_s_inputs [(1, mkValue 5000000000 (Some [(pol, [(tok, 5)])]))] (new_state cfg).
  (* a 1.4 kB transaction (metadata), linear fee 44 * size: the estimate is just below 2^16 *)
  Definition e_nl : env := mkEnv 44 0 16384 (fun _ => 1449) obase (fun _ => Ok 0) (fun _ => Ok 0).
  Definition s_nl : state := set_s_fee_request (FeeNotLess 65535) (set_s_inputs [(1, mkValue 5000000 None)] (new_state cfg)).
End Witness.
Import Witness.

(* mainnet parameters (4310 lovelace per byte): the premises of the sufficiency theorem hold, with zero margin:
   fee 165897 = 44 * 239 + 155381 *)
Example sufficient_premises_mainnet :
  let orc := size_oracle e_main 4310 5000 in
  let r := add_change orc 10 1 0 s_tok tt in
  out_res r = Ok true /\ s_fee (out_st r) = Some 165897 /\ s_fee_request s_tok = FeeUnspecified /\
  slack_ok e_main orc 10 1 0 s_tok tt = true /\ need e_main (out_st r) 165897 = 165897 /\
  out_res (add_change_legacy orc 10 1 0 s_tok tt) = Ok true.
Proof. vm_compute. repeat split. Qed.

(* THE OLD CODE, 100 lovelace per byte: the change output is priced with a 3-byte coin and topped up to a 9-byte one; the
   9-byte fee placeholder only covers 4 of the 6 extra bytes: fee 165809 < 165897 *)
Theorem legacy_sufficient_refuted :
  exists (e : env) (orc : @oracle unit) fuel addr extra s b s' o',
    fee_exact e orc /\ s_fee_request s = FeeUnspecified /\
    add_change_legacy orc fuel addr extra s tt = mkOut (Ok b) s' o' /\
    slack_ok e orc fuel addr extra s tt = false /\ ~ sufficient e s'.
Proof.
  exists e_main, (size_oracle e_main 100 5000), 10%nat, 1, 0, s_tok.
  remember (add_change_legacy (size_oracle e_main 100 5000) 10 1 0 s_tok tt) as r eqn:Er.
  exists true, (out_st r), (out_orc r).
  split; [apply size_oracle_fee_exact|]. split; [reflexivity|].
  split; [rewrite Er; vm_compute; reflexivity|].
  split; [vm_compute; reflexivity|].
  intros H. apply sufficientb_spec in H. rewrite Er in H. vm_compute in H. discriminate.
Qed.

(* THE OLD CODE: a requested minimal fee of 65535 just above the estimate (binding), the fee ends at 65560: its field is
   5 bytes wide but was priced with the 3 bytes of 65535: fee 65560 < 65648 *)
Theorem legacy_notless_refuted :
  exists (e : env) (orc : @oracle unit) fuel addr extra s r b s' o',
    fee_exact e orc /\ s_fee_request s = FeeNotLess r /\ binding e s = true /\
    add_change_legacy orc fuel addr extra s tt = mkOut (Ok b) s' o' /\
    slack_ok e orc fuel addr extra s tt = false /\ ~ sufficient e s'.
Proof.
  exists e_nl, (size_oracle e_nl 4310 5000), 10%nat, 1, 0, s_nl, 65535.
  remember (add_change_legacy (size_oracle e_nl 4310 5000) 10 1 0 s_nl tt) as r eqn:Er.
  exists true, (out_st r), (out_orc r).
  split; [apply size_oracle_fee_exact|]. split; [reflexivity|]. split; [vm_compute; reflexivity|].
  split; [rewrite Er; vm_compute; reflexivity|].
  split; [vm_compute; reflexivity|].
  intros H. apply sufficientb_spec in H. rewrite Er in H. vm_compute in H. discriminate.
Qed.

(* the repaired add_change refuses both *)
Example fixed_refuses_witnesses :
  out_res (add_change (size_oracle e_main 100 5000) 10 1 0 s_tok tt) = Err /\
  out_res (add_change (size_oracle e_nl 4310 5000) 10 1 0 s_nl tt) = Err.
Proof. vm_compute. split; reflexivity. Qed.

(* premises of the other theorems are satisfiable *)
Example build_premises :
  let orc := size_oracle e_main 4310 5000 in
  let r := add_change orc 10 1 0 s_tok tt in
  exists body, out_res (build_tx orc (out_st r) tt) = Ok body /\ b_fee body = 165897.
Proof. vm_compute. eexists. split; reflexivity. Qed.

Example policy_premises :
  let orc := size_oracle e_main 4310 5000 in
  out_res (add_change orc 10 1 0 (set_s_fee_request (FeeNotLess 200000) s_tok) tt) = Ok true.
Proof. vm_compute. reflexivity. Qed.

(* before /repo 0fc161c: set_fee AFTER add_change was ignored by build_tx: the body carries the computed fee 165897,
   not the fixed 1000000; the repaired build_tx fails *)
Theorem late_fee_request_legacy_refuted :
  let orc := size_oracle e_main 4310 5000 in
  let s1 := set_s_fee_request (FeeExactly 1000000) (out_st (add_change orc 10 1 0 s_tok tt)) in
  (exists body, out_res (build_tx_legacy orc s1 tt) = Ok body /\ b_fee body = 165897) /\
  out_res (build_tx orc s1 tt) = Err.
Proof. vm_compute. split; [eexists; split; reflexivity | reflexivity]. Qed.
