(* FeeSuff/FeeModel.v — C06: the fee arithmetic of the transaction builder.  Executable model; NO proofs here
   (proofs: FeeSuff/FeeProofs.v).

   The change computation itself (add_change_if_needed with every branch, fee_for_output, the pub min_fee with its
   2^32 placeholder, add_inputs_from_and_change, validate_fee, build_tx) is C05's model Builder/Change.v, which is
   parametrised by a size/fee ORACLE.  This file supplies the fee oracle: the private

       fn min_fee(tx_builder)                                  rust/src/builders/tx_builder.rs:129-170
         = fees::min_fee(fake_full_tx(build()?))               fees.rs:30-38 (linear fee of the serialised size)
           + min_script_fee (ex-unit prices)                   fees.rs:41-62
           + min_ref_script_fee (tiered reference-script fee)  fees.rs:64-113

   as a function of the builder state, through the SIZE ALGEBRA of the fake full transaction

       |fake_full_tx st| = K(st) + uint_size(fee field) + array_head(#outputs) + SUM out_size(o)
       out_size(o)       = obase(address, datum/script-ref) + value_extra(multiasset) + uint_size(coin)

   (serialization/transaction_body.rs:3-48: inputs, outputs and fee are always written;
    serialization/general.rs:179-246 TransactionOutputs / TransactionOutput; utils.rs:354-374 Value;
    lib.rs:1468 reduce_empty_to_none; general.rs:1394-1447 Assets / MultiAsset maps.)
   K(st) — inputs, certificates, withdrawals, mint, metadata, the whole mock witness set of fake_full_tx
   (count_needed_vkeys fake vkey witnesses, one fake bootstrap witness per Byron address, scripts, datums, redeemers),
   array/map heads — does not depend on the outputs or on the fee: it is an arbitrary function [e_k] of the state
   with outputs and fee erased ([core]).  The same holds for the two script-fee parts ([e_ex], [e_ref]: the ex-unit
   and reference-script fees are functions of the inputs / witnesses only; fees.rs is C15's model and theorem).
   [e_obase] (bytes of an output outside its Value) is an arbitrary function of the address and of the
   datum/script-ref identifiers of C05's [output].

   API   lenN, bytes_size, asset_size, assets_size, policy_size, ma_size, value_extra, value_size,
         env (mkEnv: e_a e_b e_max_tx e_k e_obase e_ex e_ref), core, out_size, outs_size, tx_size, mint_ok,
         min_fee_model, with_fee (oracle instance), fee_exact (what the theorems assume of an oracle) *)
From CSL Require Import Base.Prelude Base.U64 Cbor.Head Num.Value Deposits.Deposits Builder.Totals Builder.Change.
Local Open Scope N_scope.

(* ------------------------------------------------------------------------------------------- *)
(* serialised size of a Value *)

Definition lenN {A} (l : list A) : N := N.of_nat (length l).
(* a definite byte string of n bytes *)
Definition bytes_size (n : N) : N := head_size n + n.
Definition asset_size (e : bytes * N) : N := bytes_size (lenN (fst e)) + head_size (snd e).
Definition assets_size (a : assets) : N := head_size (lenN a) + sumN (map asset_size a).
Definition policy_size (e : bytes * assets) : N := bytes_size (lenN (fst e)) + assets_size (snd e).
Definition ma_size (m : multiasset) : N := head_size (lenN m) + sumN (map policy_size m).

(* Value::serialize: [coin, multiasset] (one-byte array head) when some policy has an asset, else the bare coin.
   [value_extra] = everything except the head of the coin. *)
Definition value_extra (m : option multiasset) : N :=
  match m with
  | Some m => match ma_reduce_empty_to_none m with Some m' => 1 + ma_size m' | None => 0 end
  | None => 0
  end.
Definition value_size (v : value) : N := value_extra (multiasset_of v) + head_size (coin v).

(* ------------------------------------------------------------------------------------------- *)
(* the size / fee environment *)

Record env : Type := mkEnv {
  e_a : N;                          (* LinearFee coefficient *)
  e_b : N;                          (* LinearFee constant *)
  e_max_tx : N;                     (* config.max_tx_size: build() inside min_fee fails beyond it *)
  e_k : state -> N;                 (* bytes of the fake full transaction outside the fee integer and the outputs array *)
  e_obase : N -> N -> N;            (* address id, datum/script-ref id -> bytes of an output outside its Value *)
  e_ex : state -> result N;         (* min_script_fee part (Err: Plutus inputs without ex_unit_prices, overflow) *)
  e_ref : state -> result N         (* min_ref_script_fee part (Err: referenced scripts without a price, overflow) *)
}.

(* the part of the builder state that K and the script fees may depend on *)
Definition core (s : state) : state := set_s_fee None (set_s_outputs [] s).

Definition out_size (e : env) (o : output) : N := e_obase e (o_addr o) (o_extra o) + value_size (o_amount o).
Definition outs_size (e : env) (l : list output) : N := head_size (lenN l) + sumN (map (out_size e) l).
Definition tx_size (e : env) (s : state) (fee : N) : N :=
  e_k e (core s) + head_size fee + outs_size e (s_outputs s).

(* MintBuilder::build inside TransactionBuilder::build *)
Definition mint_ok (s : state) : bool :=
  match s_mint s with Some m => is_ok (mint_build m) | None => true end.

(* the private min_fee(&TransactionBuilder) *)
Definition min_fee_model (e : env) (s : state) : result N :=
  match get_fee_if_set s with
  | None => Err                                             (* build(): "Fee not specified" *)
  | Some f =>
      if negb (mint_ok s) then Err
      else
        let size := tx_size e s f in
        if e_max_tx e <? size then Err                      (* build(): maximum transaction size exceeded *)
        else
          let* m := checked_mul size (e_a e) in             (* fees::min_fee_for_size *)
          let* lin := checked_add m (e_b e) in
          let* ex := e_ex e (core s) in
          let* f1 := checked_add lin ex in
          let* rf := e_ref e (core s) in
          checked_add f1 rf
  end.

(* the oracle of Builder/Change.v with its fee answers given by the model; everything else as in [base] *)
Definition with_fee {O : Type} (e : env) (base : @oracle O) : @oracle O :=
  mkOracle (fun st o => (min_fee_model e st, o))
           (ask_min_ada base) (ask_value_too_big base) (ask_tx_too_big base) (ask_select base).

(* what the theorems assume of an oracle: its fee answers are the model's (its other answers and the way its own
   state evolves are arbitrary) *)
Definition fee_exact {O : Type} (e : env) (orc : @oracle O) : Prop :=
  forall st o, fst (ask_fee orc st o) = min_fee_model e st.

(* ------------------------------------------------------------------------------------------- *)
(* a fully concrete oracle over the size algebra (used by the examples / refutation witnesses and, in the driver,
   to cross-check the recorded min-ADA and size-test answers): MinOutputAdaCalculator::calculate_ada
   (utils.rs:767-803: three rounds, then the u64::MAX-wide fallback) with (160 + size) * coins_per_byte *)
Definition required_coin (e : env) (cpb : N) (x : output) (c : N) : result N :=
  let* s := checked_add (out_size e (mkOutput (o_addr x) (value_set_coin c (o_amount x)) (o_extra x))) 160 in
  checked_mul s cpb.
Fixpoint ada_rounds (n : nat) (e : env) (cpb : N) (x : output) (c : N) : result N :=
  match n with
  | O => required_coin e cpb x 18446744073709551615
  | S n' => let* r := required_coin e cpb x c in if c <? r then ada_rounds n' e cpb x r else Ok r
  end.
Definition calculate_ada (e : env) (cpb : N) (x : output) : result N := ada_rounds 3 e cpb x (coin (o_amount x)).

Definition size_oracle (e : env) (cpb max_value : N) : @oracle unit :=
  mkOracle (fun st o => (min_fee_model e st, o))
           (fun x o => (calculate_ada e cpb x, o))
           (fun v o => (max_value <? value_size v, o))
           (fun st o => (match get_fee_if_set st with Some f => e_max_tx e <? tx_size e st f | None => false end, o))
           (fun _ _ o => (([], true), o)).
