(* FeeSuff/FeeSpec.v — C06: what "the fee is sufficient" means, and the slack condition.  Definitions only.

   SPEC   the ledger's minimum fee of a transaction of [size] bytes
              ledger_min_fee = a * size + b + ex_unit_cost + ref_script_fee           (unbounded integers)
          [need e s F] is that figure for the transaction the builder state [s] yields when its fee field holds F
          (size = tx_size e s F: the serialised size of the fake full transaction, which has the size of the
          transaction signed by exactly the required keys — C18's property; the correspondence run re-measures it
          on really signed transactions).  [sufficient e s]: the fee stored in [s] is at least [need].
          [policy_ok]: NotLess r -> fee >= r, Exactly f -> fee = f.

   SLACK  (the code before the repair, add_change_legacy)  add_change prices a transaction whose fee field holds a PLACEHOLDER (2^32: a 9-byte integer; when a
          requested minimal fee r is binding, i.e. above the estimate, the differences of aligned estimates only
          guarantee the width of r) and whose change outputs carry the coins they were priced with; afterwards
          it stores the real fee and may top the last output up with the ADA that is left.  [slack_ok] says that
          outputs + fee field of the FINAL state are not larger than outputs of the PRICED state + placeholder width.
          The priced state is the state just before the top-up: [add_change_pre] is add_change without that last
          step (lemma add_change_split in FeeProofs.v: add_change_legacy = add_change_pre followed by the top-up).
          The repaired add_change runs check_fee_after_change at the end and fails instead of leaving such a fee.

   API    need_w, need, sufficient, sufficientb, policy_ok, fld0, binding, placeholder_w,
          pure_branch_legacy, asset_branch_legacy, add_change_legacy, post_check,
          asset_branch_pre, add_change_pre, finish_change, slack_ok, validate_fee_legacy, build_tx_legacy,
          judge inputs/verdict: ledger_min_fee, tx_report, judge_tx, verdict *)
From CSL Require Import Base.Prelude Base.U64 Cbor.Head Num.Value Deposits.Deposits Builder.Totals Builder.Change
  Fees.Rational Fees.Fees Fees.TierSpec FeeSuff.FeeModel.
From Coq Require Import QArith.
Local Open Scope N_scope.

(* ------------------------------------------------------------------------------------------- *)
(* the ledger minimum of the transaction a state yields *)

Definition res_or0 (r : result N) : N := match r with Ok x => x | _ => 0 end.

(* with a fee field of [w] bytes *)
Definition need_w (e : env) (s : state) (w : N) : N :=
  e_a e * (e_k e (core s) + w + outs_size e (s_outputs s)) + e_b e
  + res_or0 (e_ex e (core s)) + res_or0 (e_ref e (core s)).

Definition need (e : env) (s : state) (fee : N) : N := need_w e s (head_size fee).

Definition sufficient (e : env) (s : state) : Prop :=
  exists F, s_fee s = Some F /\ need e s F <= F.

Definition sufficientb (e : env) (s : state) : bool :=
  match s_fee s with Some F => need e s F <=? F | None => false end.

Definition policy_ok (r : fee_request) (F : N) : Prop :=
  match r with
  | FeeUnspecified => True
  | FeeNotLess x => x <= F
  | FeeExactly x => F = x
  end.

(* ------------------------------------------------------------------------------------------- *)
(* placeholder widths *)

(* the fee field fee_for_output prices with: set_final_fee(0) *)
Definition fld0 (r : fee_request) : N :=
  match r with FeeUnspecified => 0 | FeeNotLess x => x | FeeExactly x => x end.

(* a requested minimal fee is binding when it is above the estimate fee_for_output starts from *)
Definition binding (e : env) (s : state) : bool :=
  match s_fee_request s with
  | FeeNotLess r => match min_fee_model e (set_final_fee 0 s) with Ok m => m <? r | _ => false end
  | _ => false
  end.

Definition placeholder_w (e : env) (s : state) : N :=
  if binding e s then head_size (fld0 (s_fee_request s)) else 9.

(* ------------------------------------------------------------------------------------------- *)
(* add_change without its last step (the top-up of the last output) *)

Section Pre.
  Context {O : Type}.
  Variable orc : @oracle O.

  Notation "'letM' x ':=' m 'in' k" := (bindM m (fun x => k))
    (at level 200, x name, m at level 100, k at level 200, right associativity).
  Notation "'doM' m 'in' k" := (bindM m (fun _ => k))
    (at level 200, m at level 100, k at level 200, right associativity).

  (* ---- the change computation BEFORE /repo "fix: add_change_if_needed fails when the fee it computed does not cover
     the transaction it leaves": Change.pure_branch / asset_branch / add_change without the final
     check_fee_after_change.  Kept for the refutation lemmas (the known classes of the old code) and because the
     analysis of the pricing phase is done on it; Change.add_change = add_change_legacy followed by the check
     (lemma add_change_fix_split). ---- *)
  Definition pure_branch_legacy (addr extra : N) (change_estimator : value) (fee : N) : @M O bool :=
    letM min_ada := askA orc (mkOutput fake_addr change_estimator extra) in
    if coin change_estimator <? min_ada then burn_extra (coin change_estimator)
    else
      letM fee_for_change := fee_for_output orc (mkOutput addr change_estimator extra) in
      letM new_fee := lift (checked_add fee fee_for_change) in
      letM need := lift (checked_add min_ada new_fee) in
      if coin change_estimator <? need then burn_extra (coin change_estimator)
      else
        doM modify (set_final_fee new_fee) in
        letM amount := lift (value_checked_sub change_estimator (value_new new_fee)) in
        doM add_output orc (mkOutput addr amount extra) in
        ret true.

  Definition asset_branch_legacy (fuel : nat) (addr extra : N) (input_total output_total : value) (fee : N) : @M O bool :=
    letM change_left0 := lift (value_checked_sub input_total output_total) in
    letM minimum_utxo_val := askA orc (mkOutput fake_addr fake_value extra) in
    letM r := change_while_loop orc fuel addr extra change_left0 fee in
    letM change_left1 := lift (value_checked_sub (fst r) (value_new (snd r))) in
    letM s := get in
    letM r2 := (if c_prefer_pure_change (s_cfg s) && (minimum_utxo_val <? coin change_left1) then
             letM additional_fee := fee_for_output orc (mkOutput addr change_left1 extra) in
             letM potential_pure_value := lift (value_checked_sub change_left1 (value_new additional_fee)) in
             if minimum_utxo_val <? coin potential_pure_value then
               letM new_fee' := lift (checked_add (snd r) additional_fee) in
               doM add_output orc (mkOutput addr potential_pure_value extra) in
               ret (value_zero, new_fee')
             else ret (change_left1, snd r)
           else ret (change_left1, snd r)) in
    doM modify (set_final_fee (snd r2)) in
    doM (if value_is_zero (fst r2) then ret tt else top_up_last orc (fst r2)) in
    ret true.

  Definition add_change_legacy (fuel : nat) (addr extra : N) : @M O bool :=
    letM s := get in
    match s_fee s with
    | Some _ => lift Err
    | None =>
        letM fee := min_fee_pub orc in
        letM input_total := lift (get_total_input s) in
        letM output_total := lift (get_total_output s) in
        letM shortage := lift (get_input_shortage input_total output_total fee) in
        if shortage : bool then lift Err
        else
          letM out_plus_fee := lift (value_checked_add output_total (value_new fee)) in
          match value_partial_cmp input_total out_plus_fee with
          | Some Eq =>
              letM d := lift (value_checked_sub input_total output_total) in
              doM modify (set_final_fee (coin d)) in
              ret false
          | Some Lt => lift Err
          | None => lift Err
          | Some Gt =>
              letM change_estimator := lift (value_checked_sub input_total output_total) in
              if has_assets (multiasset_of change_estimator)
              then asset_branch_legacy fuel addr extra input_total output_total fee
              else pure_branch_legacy addr extra change_estimator fee
          end
    end.

  (* what the repair appends to the two paths that return true *)
  Definition post_check (b : bool) : @M O bool :=
    if b then doM check_fee_after_change orc in ret true else ret false.

  (* Change.asset_branch up to and including set_final_fee; returns what the top-up would add *)
  Definition asset_branch_pre (fuel : nat) (addr extra : N) (input_total output_total : value) (fee : N) : @M O (bool * option value) :=
    letM change_left0 := lift (value_checked_sub input_total output_total) in
    letM minimum_utxo_val := askA orc (mkOutput fake_addr fake_value extra) in
    letM r := change_while_loop orc fuel addr extra change_left0 fee in
    letM change_left1 := lift (value_checked_sub (fst r) (value_new (snd r))) in
    letM s := get in
    letM r2 := (if c_prefer_pure_change (s_cfg s) && (minimum_utxo_val <? coin change_left1) then
             letM additional_fee := fee_for_output orc (mkOutput addr change_left1 extra) in
             letM potential_pure_value := lift (value_checked_sub change_left1 (value_new additional_fee)) in
             if minimum_utxo_val <? coin potential_pure_value then
               letM new_fee' := lift (checked_add (snd r) additional_fee) in
               doM add_output orc (mkOutput addr potential_pure_value extra) in
               ret (value_zero, new_fee')
             else ret (change_left1, snd r)
           else ret (change_left1, snd r)) in
    doM modify (set_final_fee (snd r2)) in
    ret (true, Some (fst r2)).

  Definition add_change_pre (fuel : nat) (addr extra : N) : @M O (bool * option value) :=
    letM s := get in
    match s_fee s with
    | Some _ => lift Err
    | None =>
        letM fee := min_fee_pub orc in
        letM input_total := lift (get_total_input s) in
        letM output_total := lift (get_total_output s) in
        letM shortage := lift (get_input_shortage input_total output_total fee) in
        if shortage : bool then lift Err
        else
          letM out_plus_fee := lift (value_checked_add output_total (value_new fee)) in
          match value_partial_cmp input_total out_plus_fee with
          | Some Eq =>
              letM d := lift (value_checked_sub input_total output_total) in
              doM modify (set_final_fee (coin d)) in
              ret (false, None)
          | Some Lt => lift Err
          | None => lift Err
          | Some Gt =>
              letM change_estimator := lift (value_checked_sub input_total output_total) in
              if has_assets (multiasset_of change_estimator)
              then asset_branch_pre fuel addr extra input_total output_total fee
              else letM b := pure_branch_legacy addr extra change_estimator fee in ret (b, None)
          end
    end.

  (* the last step *)
  Definition finish_change (bg : bool * option value) : @M O bool :=
    match snd bg with
    | Some t => doM (if value_is_zero t then ret tt else top_up_last orc t) in ret (fst bg)
    | None => ret (fst bg)
    end.
End Pre.

(* build_tx BEFORE /repo 0fc161c ("fix: build_tx fails when the stored fee does not honour the fee request"): validate_fee
   only compared the stored fee with the estimate; a set_fee / set_min_fee issued after add_change (which does not change
   the stored fee) went unnoticed.  Change.validate_fee / Change.build_tx are the repaired code; these two are kept for the
   refutation lemma and the regression corpus. *)
Definition validate_fee_legacy {O : Type} (orc : @oracle O) : @M O unit :=
  bindM get (fun s =>
    match get_fee_if_set s with
    | Some fee => bindM (askF orc s) (fun mf => if fee <? mf then lift Err else ret tt)
    | None => lift Err
    end).
Definition build_tx_legacy {O : Type} (orc : @oracle O) : @M O tx_body :=
  bindM (validate_fee_legacy orc) (fun _ => bindM get (fun s => bindM (lift (validate_balance s)) (fun _ => build orc))).

(* outputs + fee field of the final state fit into outputs of the priced state + placeholder.
   (false only when a change output was added or topped up: the exact and burn paths change no output) *)
Definition slack_ok {O : Type} (e : env) (orc : @oracle O) (fuel : nat) (addr extra : N) (s : state) (o : O) : bool :=
  let rp := add_change_pre orc fuel addr extra s o in
  let rf := add_change_legacy orc fuel addr extra s o in
  match out_res rp, s_fee (out_st rf) with
  | Ok (true, _), Some F =>
      outs_size e (s_outputs (out_st rf)) + head_size F <=? outs_size e (s_outputs (out_st rp)) + placeholder_w e s
  | _, _ => true
  end.

(* ------------------------------------------------------------------------------------------- *)
(* the judge: the ledger rule on a really signed transaction, with C15's SPEC functions (Fees/TierSpec.v) *)

Local Open Scope Z_scope.

Record prices : Type := mkPrices {
  p_ex : option (Z * Z * Z * Z);        (* mem price num/den, step price num/den *)
  p_ref : option (Z * Z)                (* reference-script coins per byte num/den *)
}.

(* what the harness measured on a transaction it signed with real keys *)
Record tx_report : Type := mkReport {
  r_fee : Z;
  r_signed_size : Z;
  r_mem : Z;
  r_steps : Z;
  r_refsize : Z
}.

Definition mkQ (n d : Z) : Q := Qmake n (Z.to_pos d).

(* None: the ledger rule cannot be evaluated (scripts present but no price configured / zero denominators) *)
Definition ledger_min_fee (a b : Z) (p : prices) (t : tx_report) : option Z :=
  let lin := spec_linear_fee (r_signed_size t) a b in
  let ex :=
    if (r_mem t =? 0) && (r_steps t =? 0) then Some 0
    else match p_ex p with
         | Some (mn, md, sn, sd) => if (0 <? md) && (0 <? sd) then Some (spec_script_fee (r_mem t) (r_steps t) (mkQ mn md) (mkQ sn sd)) else None
         | None => None
         end in
  let rf :=
    if r_refsize t =? 0 then Some 0
    else match p_ref p with
         | Some (n, d) => if 0 <? d then Some (spec_ref_script_fee (r_refsize t) (mkQ n d)) else None
         | None => None
         end in
  match ex, rf with
  | Some x, Some r => Some (lin + x + r)
  | _, _ => None
  end.

Inductive verdict : Type := Holds | NotApplicable | FailsKnown (class : N) | FailsUnknown.

Definition policy_okb (r : fee_request) (F : Z) : bool :=
  match r with
  | FeeUnspecified => true
  | FeeNotLess x => Z.of_N x <=? F
  | FeeExactly x => F =? Z.of_N x
  end.

(* [built]: the transaction build_tx returned, signed.  [unsafe_]: the transaction build_tx_unsafe yields after a
   successful change computation with nothing edited afterwards (None otherwise).  [slack]: the model's slack_ok
   for that change computation; [bind]: whether a requested minimal fee was binding.
   - a transaction returned by build_tx must pay the ledger minimum, respect the fee request and, signed, have exactly
     the size the builder's full_size() reports: no exception;
   - the fee add_change sets must pay the ledger minimum of the transaction it belongs to, except for the
     known classes (both decided by the model: slack exceeded by the top-up = 1, under a binding minimal fee = 2);
   - an exactly requested fee need not be sufficient before build_tx's own check (the build then fails). *)
Definition judge_tx (a b : Z) (p : prices) (pol : fee_request) (built unsafe_ : option tx_report) (slack bind : bool)
    (full_size : option Z) : verdict :=
  let check_built :=
    match built with
    | None => NotApplicable
    | Some t =>
        match ledger_min_fee a b p t with
        | None => FailsUnknown
        | Some m =>
            (* the really signed transaction has the size the builder estimated (full_size() of the final state) *)
            let size_ok := match full_size with Some f => r_signed_size t =? f | None => true end in
            if (m <=? r_fee t) && policy_okb pol (r_fee t) && size_ok then Holds else FailsUnknown
        end
    end in
  let check_unsafe :=
    match unsafe_ with
    | None => NotApplicable
    | Some t =>
        match pol with
        | FeeExactly _ => if policy_okb pol (r_fee t) then Holds else FailsUnknown
        | _ =>
            match ledger_min_fee a b p t with
            | None => NotApplicable
            | Some m =>
                if negb (policy_okb pol (r_fee t)) then FailsUnknown
                else if m <=? r_fee t then Holds
                else if slack then FailsUnknown
                else if bind then FailsKnown 2 else FailsKnown 1
            end
        end
    end in
  match check_built, check_unsafe with
  | FailsUnknown, _ => FailsUnknown
  | _, FailsUnknown => FailsUnknown
  | _, FailsKnown c => FailsKnown c
  | FailsKnown c, _ => FailsKnown c
  | Holds, _ => Holds
  | _, Holds => Holds
  | NotApplicable, NotApplicable => NotApplicable
  end.
