(* The schema-directed validator: does a generic CBOR item (Cbor/Item.v) match a CDDL rule?
   Definitions only.  [cddl_body] is one unfolding step with the recursive occurrences abstracted as
   [rec]; [cddl_ok fuel] iterates it.  Running out of fuel answers [false], and [cddl_body] is monotone
   in [rec], so more fuel never turns an accepted item into a rejected one (ValidatorProofs.v).

   The validator shares no code with the library, with cbor_event, or with the schema codec of
   Codec/Schema.v: bytes are parsed by [Item.parse_exact], the tree is compared with the rules. *)
From CSL Require Import Base.Prelude Cbor.Head Cbor.Item Cddl.Rules.
Local Open Scope N_scope.

Definition in_range (lo hi n : N) : bool := (lo <=? n) && (n <=? hi).
Definition in_rangeZ (lo hi n : Z) : bool := ((lo <=? n) && (n <=? hi))%Z.

(* every key is an unsigned integer listed in [fs] and its value matches the field's rule *)
Definition map_fields_ok (rec : rule -> item -> bool) (fs : list (N * bool * rule)) (kvs : list (item * item)) : bool :=
  forallb (fun kv =>
             match fst kv with
             | IUint k => match field_lookup fs k with Some r => rec r (snd kv) | None => false end
             | _ => false
             end) kvs.
Definition required_present (fs : list (N * bool * rule)) (kvs : list (item * item)) : bool :=
  forallb (fun f => match f with (k, req, _) => negb req || has_key kvs k end) fs.

(* where this development allows chunked / indefinite forms at all, and in which shape:
   a chunked byte string has > 64 bytes in chunks of exactly 64 with a shorter non-empty last one
   (utils.rs write_bounded_bytes); checked on the whole tree by [chunks_strict] below *)
Fixpoint chunks64_ok (cs : list bytes) : bool :=
  match cs with
  | [] => false
  | [c] => (1 <=? len c) && (len c <=? 64)
  | c :: t => (len c =? 64) && chunks64_ok t
  end.

Definition is_nil {A} (l : list A) : bool := match l with [] => true | _ => false end.

Definition cddl_body (e : env) (rec : rule -> item -> bool) (r : rule) (it : item) : bool :=
  match r, it with
  | RUint lo hi, IUint n => in_range lo hi n
  | RNint lo hi, INint n => in_range lo hi n
  | RInt lo hi, IUint n => in_rangeZ lo hi (Z.of_N n)
  | RInt lo hi, INint n => in_rangeZ lo hi (- 1 - Z.of_N n)%Z
  | RBytes lo hi, IBytes b => in_range lo hi (len b)
  | RBBytes, IBytes b => len b <=? 64
  | RBBytes, IBytesChunked cs => forallb (fun c => len c <=? 64) cs
  | RText lo hi, IText b => in_range lo hi (len b)
  | RBool, ISimple n => (n =? 20) || (n =? 21)
  | RNull, ISimple n => n =? 22
  | RArr fs, IArray true xs => forall2b rec fs xs
  | RArrOf lo r', IArray true xs => (lo <=? len xs) && forallb (rec r') xs
  | RArrAny lo r', IArray d xs => (d || negb (is_nil xs)) && (lo <=? len xs) && forallb (rec r') xs
  | RMap fs, IMap true kvs =>
      map_fields_ok rec fs kvs && items_nodup (map fst kvs) && required_present fs kvs
  | RMapOf lo k v, IMap true kvs =>
      (lo <=? len kvs) && forallb (fun kv => rec k (fst kv) && rec v (snd kv)) kvs && items_nodup (map fst kvs)
  | RTag t r', ITag u x => (t =? u) && rec r' x
  | RSet lo r', ITag u (IArray true xs) => (u =? 258) && (lo <=? len xs) && forallb (rec r') xs && items_nodup xs
  | RSetAny lo r', ITag u (IArray d xs) =>
      (u =? 258) && (d || negb (is_nil xs)) && (lo <=? len xs) && forallb (rec r') xs && items_nodup xs
  | RChoice alts, _ => existsb (fun a => rec a it) alts
  | RCborIn r', IBytes b =>
      match parse_exact b with
      | Ok x => canon_bytes true true b && rec r' x
      | _ => false
      end
  | RRef id, _ => match lookup e id with Some r' => rec r' it | None => false end
  | RAddress, IBytes b => address_ok b
  | RRewardAccount, IBytes b => reward_account_ok b
  | RRatio unit, ITag u (IArray true [IUint n; IUint d]) => (u =? 30) && (1 <=? d) && (negb unit || (n <=? d))
  | _, _ => false
  end.

Fixpoint cddl_ok (e : env) (fuel : nat) (r : rule) (it : item) : bool :=
  match fuel with
  | O => false
  | S f => cddl_body e (cddl_ok e f) r it
  end.

(* chunked byte strings only in the library's shape, everywhere in the tree (also inside map keys);
   chunked text strings never *)
Fixpoint chunks_strict (it : item) : bool :=
  match it with
  | IBytesChunked cs => chunks64_ok cs && (64 <? len (concat cs))
  | ITextChunked _ => false
  | IArray _ xs => forallb chunks_strict xs
  | IMap _ kvs => forallb (fun kv => chunks_strict (fst kv) && chunks_strict (snd kv)) kvs
  | ITag _ x => chunks_strict x
  | _ => true
  end.

(* enough for every rule environment of this development: each item level costs a bounded number
   of rule unfoldings (reference, choice, field) *)
Definition fuel_for (bs : bytes) : nat := (64 + 16 * length bs)%nat.

(* the judge: well-formed CBOR (one item, nothing left over), every head in its shortest form,
   maps definite, indefinite arrays / chunked strings only where a rule allows them and in the
   library's shape, and the tree matches the rule *)
Definition cddl_ok_item (e : env) (fuel : nat) (r : rule) (it : item) : bool :=
  canon_item true true it && chunks_strict it && cddl_ok e fuel r it.
Definition cddl_ok_bytes_fuel (e : env) (fuel : nat) (r : rule) (bs : bytes) : bool :=
  match parse_exact bs with
  | Ok it => bytes_eqb (encode_item it) bs && cddl_ok_item e fuel r it
  | _ => false
  end.
Definition cddl_ok_bytes (e : env) (r : rule) (bs : bytes) : bool := cddl_ok_bytes_fuel e (fuel_for bs) r bs.

(* diagnosis for replays: which of the conditions fails *)
Definition cddl_diag (e : env) (r : rule) (bs : bytes) : N :=
  match parse_exact bs with
  | Ok it =>
      if negb (bytes_eqb (encode_item it) bs) then 2          (* a head is not in its shortest form *)
      else if negb (canon_item true true it) then 3            (* indefinite map / not allowed form *)
      else if negb (chunks_strict it) then 4                   (* chunked string not in the 64-byte shape *)
      else if negb (cddl_ok e (fuel_for bs) r it) then 5       (* does not match the rule *)
      else 0
  | _ => 1                                                     (* not well-formed CBOR *)
  end.
