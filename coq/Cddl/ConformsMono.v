(* conforms is monotone in its fuel (running out of fuel only ever rejects). *)
From CSL Require Import Base.Prelude Cbor.Head Cbor.Item Codec.Schema Cddl.Rules Cddl.Validator Cddl.ValidatorProofs Cddl.Conforms.
Local Open Scope N_scope.

Definition rec_le3 (f g : schema -> rule -> val -> bool) : Prop := forall s r v, f s r v = true -> g s r v = true.

Ltac case_hyp H :=
  repeat match type of H with
         | context [match ?x with _ => _ end] => is_var x; destruct x; try discriminate H
         end.

Lemma conf_sl_mono f g : rec_le3 f g -> forall fs rs l, conf_sl f fs rs l = true -> conf_sl g fs rs l = true.
Proof.
  intros H. induction fs as [|s t IH]; intros rs l Hc; destruct rs; destruct l; try discriminate; [reflexivity|].
  cbn [conf_sl] in *. apply andb_true_iff in Hc as [H1 H2]. rewrite (H _ _ _ H1), (IH _ _ H2). reflexivity.
Qed.
Lemma conf_sl_tail_mono f g : rec_le3 f g -> forall fs rs l o x, conf_sl_tail f fs rs l o x = true -> conf_sl_tail g fs rs l o x = true.
Proof.
  intros H. induction fs as [|s t IH]; intros rs l o x Hc.
  - destruct rs as [|ro [|? ?]]; destruct l; try discriminate. cbn [conf_sl_tail] in *. apply H. exact Hc.
  - destruct rs; destruct l; try discriminate. cbn [conf_sl_tail] in *. apply andb_true_iff in Hc as [H1 H2].
    rewrite (H _ _ _ H1), (IH _ _ _ _ H2). reflexivity.
Qed.
Lemma conf_kl_mono f g : rec_le3 f g -> forall fs rfs l, conf_kl f fs rfs l = true -> conf_kl g fs rfs l = true.
Proof.
  intros H. induction fs as [|k p s t IH]; intros rfs l Hc; destruct l as [|o ot]; try discriminate; [reflexivity|].
  cbn [conf_kl] in *. apply andb_true_iff in Hc as [H1 H2]. rewrite (IH _ _ H2), andb_true_r.
  destruct o as [v|]; [|reflexivity]. destruct (present p (Some v)); [|reflexivity].
  destruct (field_lookup rfs k); [apply H; exact H1|discriminate].
Qed.

Ltac mono_tac H :=
  repeat match goal with
         | Hc : (_ && _) = true |- _ => apply andb_true_iff in Hc; destruct Hc
         | |- (_ && _) = true => apply andb_true_iff; split
         end;
  try assumption;
  try (eapply forallb_mono; [|eassumption]; intros ? ?; cbv beta in *;
       repeat match goal with
              | Hc : (_ && _) = true |- _ => apply andb_true_iff in Hc; destruct Hc
              | |- (_ && _) = true => apply andb_true_iff; split
              end; apply H; assumption);
  try (apply H; assumption);
  try (eapply conf_sl_mono; eassumption);
  try (eapply conf_sl_tail_mono; eassumption);
  try (eapply conf_kl_mono; eassumption).

Lemma conf_struct_mono f g : rec_le3 f g -> rec_le3 (conf_struct f) (conf_struct g).
Proof.
  intros H s r v Hc. destruct s; unfold conf_struct in Hc |- *; case_hyp Hc; try discriminate Hc; mono_tac H.
  all: try (match type of Hc with context [vnth ?a ?i] => destruct (vnth a i) as [[? ?]|]; [|discriminate Hc] end; mono_tac H).
  all: try (match type of Hc with context [cnth ?a ?i] => destruct (cnth a i) as [[? ?]|]; [|discriminate Hc] end; mono_tac H).
Qed.

Lemma conf_body_mono e f g : rec_le3 f g -> rec_le3 (conf_body e f) (conf_body e g).
Proof.
  intros H s r v Hc.
  assert (Gen : forall s0, (match r with
                            | RRef id => match lookup e id with Some r' => f s0 r' v | None => false end
                            | RChoice ralts => existsb (fun a => f s0 a v) ralts
                            | _ => conf_struct f s0 r v end) = true ->
                           (match r with
                            | RRef id => match lookup e id with Some r' => g s0 r' v | None => false end
                            | RChoice ralts => existsb (fun a => g s0 a v) ralts
                            | _ => conf_struct g s0 r v end) = true).
  { intros s0 H0. destruct r; try (apply (conf_struct_mono f g H); exact H0).
    - eapply existsb_mono; [|exact H0]. intros a. apply H.
    - destruct (lookup e id); [apply H; exact H0|discriminate]. }
  destruct s; try (apply Gen; exact Hc).
  - cbn [conf_body] in *. destruct v; try discriminate. destruct (cnth alts i) as [[? ?]|]; [apply H; exact Hc|discriminate].
  - cbn [conf_body] in *. apply H. exact Hc.
Qed.

Lemma conforms_S e f : rec_le3 (conforms e f) (conforms e (S f)).
Proof.
  induction f as [|f IH]; [intros s r v H; discriminate|].
  change (conforms e (S (S f))) with (conf_body e (conforms e (S f))).
  change (conforms e (S f)) with (conf_body e (conforms e f)) at 1.
  apply conf_body_mono. exact IH.
Qed.

Theorem conforms_fuel_mono e f g s r v : (f <= g)%nat -> conforms e f s r v = true -> conforms e g s r v = true.
Proof. induction 1 as [|g _ IH]; [exact (fun H => H)|]. intros H. apply conforms_S. apply IH. exact H. Qed.
