(* The Conway constraints on a TYPED value: [conforms e fuel s r v] compares the structure of the implementation
   schema [s] with the structure of the CDDL rule [r] along the value [v] and checks the leaf ranges of [v]
   (integer ranges, size bounds, non-emptiness, which alternative, rational side conditions, address shape).
   It never looks at bytes or at the CBOR tree.  Definitions only; ConformsProofs.v proves ONE generic theorem:
   conforms s r v = true -> wfs s -> wfv s v -> the tree to_item s v matches r, hence (Props/C03.v) the emitted
   bytes enc s v satisfy cddl_ok_bytes.  This is the decidable form of "typed values accepted by validating
   constructors" the property quantifies over. *)
From CSL Require Import Base.Prelude Cbor.Head Cbor.Item Codec.Schema Cddl.Rules Cddl.Validator.
Local Open Scope N_scope.

Fixpoint vnth (alts : vlist) (i : nat) : option (N * slist) :=
  match alts with
  | ANil => None
  | ACons idx fs r => match i with O => Some (idx, fs) | S i' => vnth r i' end
  end.
Fixpoint cnth (alts : clist) (i : nat) : option (N * schema) :=
  match alts with
  | CNil => None
  | CCons d s r => match i with O => Some (d, s) | S i' => cnth r i' end
  end.

Section Body.
  Variable e : env.
  Variable rec : schema -> rule -> val -> bool.

  (* record fields against a rule list *)
  Fixpoint conf_sl (fs : slist) (rs : list rule) (l : list val) {struct fs} : bool :=
    match fs, rs, l with
    | SNil, [], [] => true
    | SCons s t, r :: rt, v :: vt => rec s r v && conf_sl t rt vt
    | _, _, _ => false
    end.

  (* record fields followed by one trailing item (SArrOpt with its optional item present) *)
  Fixpoint conf_sl_tail (fs : slist) (rs : list rule) (l : list val) (o : schema) (x : val) {struct fs} : bool :=
    match fs, rs, l with
    | SNil, [ro], [] => rec o ro x
    | SCons s t, r :: rt, v :: vt => rec s r v && conf_sl_tail t rt vt o x
    | _, _, _ => false
    end.

  (* map-struct fields: every written field is listed in the rule and its value conforms *)
  Fixpoint conf_kl (fs : klist) (rfs : list (N * bool * rule)) (l : list (option val)) {struct fs} : bool :=
    match fs, l with
    | KNil, [] => true
    | KCons k p s t, o :: ot =>
        (match o with
         | Some v => if present p o
                     then match field_lookup rfs k with Some r => rec s r v | None => false end
                     else true
         | None => true
         end) && conf_kl t rfs ot
    | _, _ => false
    end.
  (* keys of the fields that are written *)
  Fixpoint written_keys (fs : klist) (l : list (option val)) {struct fs} : list N :=
    match fs, l with
    | KCons k p _ t, o :: ot => (if present p o then [k] else []) ++ written_keys t ot
    | _, _ => []
    end.
  Definition required_written (rfs : list (N * bool * rule)) (ks : list N) : bool :=
    forallb (fun f => match f with (k, req, _) => negb req || existsb (N.eqb k) ks end) rfs.

  (* constructors that have a structural counterpart on the rule side *)
  Definition conf_struct (s : schema) (r : rule) (v : val) : bool :=
    match s, r, v with
    | SUint _, RUint lo hi, VNat n => in_range lo hi n
    | SUint _, RInt lo hi, VNat n => in_rangeZ lo hi (Z.of_N n)
    | SNint, RNint lo hi, VNeg n => in_range lo hi n
    | SNint, RInt lo hi, VNeg n => in_rangeZ lo hi (- 1 - Z.of_N n)%Z
    | SBytes _ _, RBytes lo hi, VBytes b => in_range lo hi (len b)
    | SBytes _ _, RAddress, VBytes b => address_ok b
    | SBytes _ _, RRewardAccount, VBytes b => reward_account_ok b
    | SBBytes, RBBytes, VBytes _ => true
    | SText _, RText lo hi, VText b => in_range lo hi (len b)
    | SBool, RBool, VBool _ => true
    | SArr fs, RArr rs, VList l => conf_sl fs rs l
    | SMap fs, RMap rfs, VStruct l => conf_kl fs rfs l && required_written rfs (written_keys fs l)
    | SVar alts, RArr (r0 :: rs), VVar i l =>
        match vnth alts i with
        | Some (idx, fs) => rec (SUint (idx + 1)) r0 (VNat idx) && conf_sl fs rs l
        | None => false
        end
    | SArrOf _ s', RArrOf lo r', VList l => (lo <=? len l) && forallb (rec s' r') l
    | SSetOf s', RSet lo r', VList l => (lo <=? len l) && forallb (rec s' r') l
    | SMapOf _ ord k v', RMapOf lo rk rv, VMap l =>
        (lo <=? len l) && forallb (fun kv => rec k rk (fst kv) && rec v' rv (snd kv)) l &&
        (* a Vec-backed map (Mint, Redeemers, PlutusMap) may hold the same key twice; a CBOR map may not *)
        (match ord with KMulti => nodupb (map (fun kv => enc k (fst kv)) l) | _ => true end)
    | SNullable _, RNull, VNull => true
    | SNullable s', _, v' => match v' with VNull => false | _ => rec s' r v' end
    | STag t (SArr (SCons (SUint _) (SCons (SUint _) SNil))), RRatio unit, VList [VNat n; VNat d] =>
        (t =? 30) && (1 <=? d) && (negb unit || (n <=? d))
    | STag t (SArrAny s'), RSetAny lo r', VAlt i (VList l) =>
        (t =? 258) && (match i with O => true | _ => negb (is_nil l) end) && (lo <=? len l) &&
        forallb (rec s' r') l && nodupb (map (enc s') l)
    | STag t s', RTag u r', v' => (t =? u) && rec s' r' v'
    | SInBytes s', RCborIn r', v' => rec s' r' v'
    | STagChoice alts, RTag u r', VAlt i v' =>
        match cnth alts i with Some (d, s') => (d =? u) && rec s' r' v' | None => false end
    | SArrOpt fs o, RArr rs, VAlt O (VList l) => conf_sl fs rs l
    | SArrOpt fs o, RArr rs, VAlt (S O) (VList (x :: l)) => conf_sl_tail fs rs l o x
    | SArrAny s', RArrAny lo r', VAlt i (VList l) =>
        (match i with O => true | _ => negb (is_nil l) end) && (lo <=? len l) && forallb (rec s' r') l
    | _, _, _ => false
    end.

  (* one unfolding step: schema-side transparent constructors first, then rule-side references and choices *)
  Definition conf_body (s : schema) (r : rule) (v : val) : bool :=
    match s with
    | SNamed _ s' => rec s' r v
    | SChoice alts =>
        match v with
        | VAlt i v' => match cnth alts i with Some (_, s') => rec s' r v' | None => false end
        | _ => false
        end
    | _ =>
        match r with
        | RRef id => match lookup e id with Some r' => rec s r' v | None => false end
        | RChoice ralts => existsb (fun a => rec s a v) ralts
        | _ => conf_struct s r v
        end
    end.
End Body.

Fixpoint conforms (e : env) (fuel : nat) (s : schema) (r : rule) (v : val) : bool :=
  match fuel with
  | O => false
  | S f => conf_body e (conforms e f) s r v
  end.

(* the fuel the judge side uses for a value whose encoding is bs: the same budget as the validator *)
Definition conforms_bytes (e : env) (s : schema) (r : rule) (v : val) : bool :=
  conforms e (fuel_for (enc s v)) s r v.
