(* C03, canonical form and set sites of the model encoder's output: ONE induction over the schema. *)
From CSL Require Import Base.Prelude Cbor.Head Cbor.HeadProofs Cbor.Item Cbor.ItemProofs Codec.Schema Codec.SchemaProofs
  Cddl.Rules Cddl.Validator Cddl.ToItem Cddl.ToItemProofs Cddl.ItemEq.
Local Open Scope N_scope.

Definition lax (it : item) : bool := canon_item3 true false true it.       (* maps definite; arrays/strings may be indefinite *)
Definition strict (it : item) : bool := canon_item3 false false false it.   (* everything definite *)

(* ---------- chunking ---------- *)
Lemma chunk64_nil fuel : chunk64 fuel [] = [].
Proof. destruct fuel; reflexivity. Qed.

Lemma chunk64_shape fuel : forall b, (length b <= fuel)%nat -> b <> [] -> chunks64_ok (chunk64 fuel b) = true.
Proof.
  induction fuel as [|f IH]; intros b Hl Hne; [destruct b; [congruence|cbn in Hl; lia]|].
  cbn [chunk64]. destruct b as [|x t] eqn:E; [congruence|]. rewrite <- E in *.
  assert (Hlen : (1 <= length b)%nat) by (subst b; cbn [length]; lia).
  destruct (Nat.leb_spec (length b) 64) as [Hs|Hs].
  - rewrite (skipn_all2 b) by exact Hs. rewrite chunk64_nil. rewrite firstn_all2 by exact Hs.
    cbn [chunks64_ok]. unfold len. apply andb_true_iff. split; lia.
  - assert (Hr : skipn 64 b <> []).
    { intros C. pose proof (skipn_length 64 b) as L. rewrite C in L. cbn [length] in L. lia. }
    specialize (IH (skipn 64 b) ltac:(rewrite skipn_length; lia) Hr).
    destruct (chunk64 f (skipn 64 b)) as [|c' t'] eqn:Ec; [cbn in IH; discriminate|].
    change (chunks64_ok (firstn 64 b :: c' :: t')) with ((len (firstn 64 b) =? 64) && chunks64_ok (c' :: t')).
    rewrite IH. unfold len. rewrite firstn_length. apply andb_true_iff. split; [lia|reflexivity].
Qed.

(* ---------- injectivity: distinct encodings come from distinct trees ---------- *)
Lemma existsb_false_map {A} (f : A -> item) (e : A -> bytes) x (t : list A) :
  (forall y, In y (x :: t) -> encode_item (f y) = e y) ->
  existsb (fun y => if list_eq_dec N.eq_dec (e x) y then true else false) (map e t) = false ->
  existsb (item_eqb (f x)) (map f t) = false.
Proof.
  intros He. induction t as [|y t IH]; [reflexivity|]. cbn [map existsb]. intros H.
  apply orb_false_iff in H as [H1 H2]. apply orb_false_iff. split.
  - destruct (item_eqb (f x) (f y)) eqn:E; [|reflexivity]. apply item_eqb_sound in E.
    assert (e x = e y) by (rewrite <- (He x), <- (He y), E by (cbn; tauto); reflexivity).
    destruct (list_eq_dec N.eq_dec (e x) (e y)); [discriminate|contradiction].
  - apply IH; [|exact H2]. intros z [->|Hz]; apply He; cbn; tauto.
Qed.

Lemma nodup_items {A} (f : A -> item) (e : A -> bytes) (l : list A) :
  (forall y, In y l -> encode_item (f y) = e y) ->
  nodupb (map e l) = true -> items_nodup (map f l) = true.
Proof.
  induction l as [|x t IH]; intros He H; [reflexivity|]. cbn [map nodupb items_nodup] in *.
  apply andb_true_iff in H as [H1 H2]. apply negb_true_iff in H1.
  rewrite (existsb_false_map f e x t He H1). rewrite IH; [reflexivity| |exact H2].
  intros y Hy. apply He. right. exact Hy.
Qed.

(* ---------- the combined invariant ---------- *)
Definition good (s : schema) (v : val) : Prop :=
  lax (to_item s v) = true /\ chunks_strict (to_item s v) = true /\ sets_emitted s v = true /\
  (no_indef_sites s = true -> strict (to_item s v) = true).
Definition goods (its : list item) (sites : bool) (nis : bool) : Prop :=
  forallb lax its = true /\ forallb chunks_strict its = true /\ sites = true /\ (nis = true -> forallb strict its = true).

Definition CI (s : schema) : Prop := wfs s = true -> forall v, wfv s v = true -> good s v.
Definition CIs (fs : slist) : Prop := wfs_sl fs = true -> forall l, wfv_sl fs l = true ->
  goods (to_items_sl fs l) (se_sl fs l) (nis_sl fs).
Definition pair_b (f : item -> bool) (kv : item * item) : bool := f (fst kv) && f (snd kv).
Definition CIk (fs : klist) : Prop := wfs_kl fs = true -> forall l, wfv_kl fs l = true ->
  forallb (pair_b lax) (to_pairs_kl fs l) = true /\ forallb (pair_b chunks_strict) (to_pairs_kl fs l) = true /\
  se_kl fs l = true /\ (nis_kl fs = true -> forallb (pair_b strict) (to_pairs_kl fs l) = true).
Definition CIv (alts : vlist) : Prop := wfs_vl alts = true -> forall i l, wfv_vl alts i l = true ->
  lax (to_item_vl alts i l) = true /\ chunks_strict (to_item_vl alts i l) = true /\ se_vl alts i l = true /\
  (nis_vl alts = true -> strict (to_item_vl alts i l) = true).
Definition CIc (alts : clist) : Prop := forall tagged, wfs_cl tagged alts = true -> forall i v, wfv_cl alts i v = true ->
  lax (to_item_cl tagged alts i v) = true /\ chunks_strict (to_item_cl tagged alts i v) = true /\ se_cl alts i v = true /\
  (nis_cl alts = true -> strict (to_item_cl tagged alts i v) = true).

Lemma canon3_pairs a m c kvs :
  forallb (fun kv : item * item => match kv with (k, v) => canon_item3 a m c k && canon_item3 a m c v end) kvs =
  forallb (pair_b (canon_item3 a m c)) kvs.
Proof. induction kvs as [|[k v] t IH]; [reflexivity|]. cbn [forallb]. rewrite IH. reflexivity. Qed.

Lemma good_list s l :
  (forall v, In v l -> good s v) ->
  forallb lax (map (to_item s) l) = true /\ forallb chunks_strict (map (to_item s) l) = true /\
  forallb (sets_emitted s) l = true /\ (no_indef_sites s = true -> forallb strict (map (to_item s) l) = true).
Proof.
  intros H. repeat split; try intros Hn; rewrite ?forallb_map; apply forallb_in_true; intros x Hx;
    destruct (H x Hx) as (G1 & G2 & G3 & G4); auto.
Qed.

Lemma canon_all : (forall s, CI s) /\ (forall fs, CIs fs) /\ (forall fs, CIk fs) /\ (forall a, CIv a) /\ (forall a, CIc a).
Proof.
  apply schema_mutind; unfold CI, CIs, CIk, CIv, CIc, good, goods.
  - intros lim _ v Hv. destruct v; try discriminate. repeat split.
  - intros _ v Hv. destruct v; try discriminate. repeat split.
  - intros lo hi _ v Hv. destruct v; try discriminate. repeat split.
  - intros hi _ v Hv. destruct v; try discriminate. repeat split.
  - intros _ v Hv. destruct v; try discriminate. repeat split.
  - (* SArr *) intros fs IH Hs v Hv. destruct v; try discriminate. cbn [wfs wfv] in *. split_ands.
    destruct (IH ltac:(assumption) l Hv) as (G1 & G2 & G3 & G4).
    cbn [to_item sets_emitted no_indef_sites chunks_strict]. unfold lax, strict in *. cbn [canon_item3 orb andb].
    repeat split; auto.
  - (* SMap *) intros fs IH Hs v Hv. destruct v; try discriminate. cbn [wfs wfv] in *. split_ands.
    destruct (IH ltac:(assumption) l Hv) as (G1 & G2 & G3 & G4).
    cbn [to_item sets_emitted no_indef_sites chunks_strict]. unfold lax, strict in *. cbn [canon_item3 orb andb].
    rewrite !canon3_pairs. repeat split; auto.
  - (* SVar *) intros alts IH Hs v Hv. destruct v; try discriminate. cbn [wfs wfv to_item sets_emitted no_indef_sites] in *.
    apply IH; assumption.
  - (* SArrOf *) intros lo s IH Hs v Hv. destruct v; try discriminate. cbn [wfs wfv] in *. split_ands.
    destruct (good_list s l) as (G1 & G2 & G3 & G4).
    { intros x Hx. apply IH; [assumption|]. eapply forallb_In; eassumption. }
    cbn [to_item sets_emitted no_indef_sites chunks_strict]. unfold lax, strict in *. cbn [canon_item3 orb andb].
    repeat split; auto.
  - (* SSetOf *) intros s IH Hs v Hv. destruct v; try discriminate. cbn [wfs wfv] in *. split_ands.
    destruct (good_list s l) as (G1 & G2 & G3 & G4).
    { intros x Hx. apply IH; [assumption|]. eapply forallb_In; eassumption. }
    cbn [to_item sets_emitted no_indef_sites chunks_strict]. unfold lax, strict in *. cbn [canon_item3 orb andb].
    repeat split; auto. rewrite G3, andb_true_r.
    apply (nodup_items (to_item s) (enc s)); [|assumption].
    intros y Hy. apply to_item_enc. eapply forallb_In; eassumption.
  - (* SMapOf *) intros lo ord k IHk v' IHv Hs v Hv. destruct v; try discriminate. cbn [wfs wfv] in *. split_ands.
    match goal with H : forallb _ l = true |- _ => rename H into Hall end.
    cbn [to_item sets_emitted no_indef_sites chunks_strict]. unfold lax, strict in *. cbn [canon_item3 orb andb].
    rewrite !canon3_pairs, !forallb_map.
    assert (G : forall kv, In kv l -> good k (fst kv) /\ good v' (snd kv)).
    { intros [x y] Hx. pose proof (forallb_In _ _ _ Hall Hx) as Hxy. cbn [fst snd] in *. split_ands.
      split; [apply IHk|apply IHv]; assumption. }
    unfold good, lax, strict in G.
    repeat split; try intros Hn; try (apply andb_true_iff in Hn as [Hn1 Hn2]); apply forallb_in_true; intros kv Hkv;
      destruct (G kv Hkv) as ((A1 & A2 & A3 & A4) & (B1 & B2 & B3 & B4)); unfold pair_b; cbn [fst snd];
      apply andb_true_iff; split; auto.
  - (* SNullable *) intros s IH Hs v Hv. cbn [wfs] in Hs. split_ands.
    destruct v; cbn [wfv to_item sets_emitted no_indef_sites] in *; try (apply IH; assumption). repeat split.
  - (* STag *) intros t s IH Hs v Hv. cbn [wfs wfv] in *. split_ands.
    destruct (IH ltac:(assumption) v Hv) as (G1 & G2 & G3 & G4).
    cbn [to_item sets_emitted no_indef_sites chunks_strict]. unfold lax, strict in *. cbn [canon_item3]. repeat split; auto.
  - (* SInBytes *) intros s IH Hs v Hv. cbn [wfs wfv] in *. split_ands.
    destruct (IH ltac:(assumption) v ltac:(assumption)) as (G1 & G2 & G3 & G4).
    cbn [to_item sets_emitted no_indef_sites chunks_strict]. repeat split; auto.
  - (* SChoice *) intros alts IH Hs v Hv. destruct v; try discriminate. cbn [wfs wfv to_item sets_emitted no_indef_sites] in *.
    apply (IH false); assumption.
  - (* STagChoice *) intros alts IH Hs v Hv. destruct v; try discriminate. cbn [wfs wfv to_item sets_emitted no_indef_sites] in *.
    apply (IH true); assumption.
  - (* SArrAny *) intros s IH Hs v Hv. cbn [wfs] in Hs. split_ands. destruct v as [| | | | | | | | | |i v]; try discriminate.
    destruct i as [|[|i]]; destruct v; try discriminate; cbn [wfv] in *; split_ands;
      (destruct (good_list s l) as (G1 & G2 & G3 & G4);
       [intros x Hx; apply IH; [assumption|]; eapply forallb_In; eassumption|]);
      cbn [to_item sets_emitted no_indef_sites chunks_strict]; unfold lax, strict in *; cbn [canon_item3 orb andb];
      repeat split; auto; discriminate.
  - (* SBBytes *) intros _ v Hv. destruct v; try discriminate. cbn [to_item sets_emitted no_indef_sites].
    destruct (N.of_nat (length b) <=? 64) eqn:E; [repeat split; discriminate|].
    cbn [chunks_strict]. unfold lax. cbn [canon_item3]. repeat split; try discriminate.
    rewrite chunk64_concat by lia. unfold len. apply andb_true_iff. split; [|lia].
    apply chunk64_shape; [lia|]. intros ->. cbn in E. discriminate.
  - (* SNamed *) intros id s IH Hs v Hv. cbn [wfs wfv to_item sets_emitted no_indef_sites] in *. apply IH; assumption.
  - (* SArrOpt *) intros fs IHfs o IHo Hs v Hv. cbn [wfs] in Hs. split_ands.
    destruct v as [| | | | | | | | | |i v]; try discriminate.
    destruct i as [|[|i]]; destruct v as [| | | | | |l| | | |]; try discriminate.
    + cbn [wfv] in Hv. destruct (IHfs ltac:(assumption) l Hv) as (G1 & G2 & G3 & G4).
      cbn [to_item sets_emitted no_indef_sites chunks_strict]. unfold lax, strict in *. cbn [canon_item3 orb andb].
      repeat split; auto. intros Hn. apply andb_true_iff in Hn as [Hn1 Hn2]. auto.
    + destruct l as [|x l]; [discriminate|]. cbn [wfv] in Hv. split_ands.
      destruct (IHfs ltac:(assumption) l ltac:(assumption)) as (G1 & G2 & G3 & G4).
      destruct (IHo ltac:(assumption) x ltac:(assumption)) as (O1 & O2 & O3 & O4).
      assert (Snoc : forall (f : item -> bool) a b, forallb f a = true -> f b = true -> forallb f (a ++ [b]) = true).
      { intros f a b Ha Hb. rewrite forallb_app, Ha. cbn [forallb]. rewrite Hb. reflexivity. }
      cbn [to_item sets_emitted no_indef_sites chunks_strict]. unfold lax, strict in *. cbn [canon_item3 orb andb].
      rewrite G3, O3. repeat split; try (apply Snoc; assumption).
      intros Hn. apply andb_true_iff in Hn as [Hn1 Hn2]. apply Snoc; auto.
  - (* SNil *) intros _ l Hv. destruct l; [repeat split|discriminate].
  - (* SCons *) intros s IHs r IHr Hw l Hv. cbn [wfs_sl] in Hw. split_ands. destruct l as [|v t]; [discriminate|].
    cbn [wfv_sl] in Hv. split_ands.
    destruct (IHs ltac:(assumption) v ltac:(assumption)) as (A1 & A2 & A3 & A4).
    destruct (IHr ltac:(assumption) t ltac:(assumption)) as (B1 & B2 & B3 & B4).
    cbn [to_items_sl se_sl nis_sl forallb]. rewrite A1, A2, A3, B1, B2, B3. repeat split.
    intros Hn. apply andb_true_iff in Hn as [Hn1 Hn2]. rewrite A4, B4 by assumption. reflexivity.
  - (* KNil *) intros _ l Hv. destruct l; [repeat split|discriminate].
  - (* KCons *) intros k p s IHs r IHr Hw l Hv. cbn [wfs_kl] in Hw. split_ands. destruct l as [|o t]; [discriminate|].
    cbn [wfv_kl] in Hv. split_ands.
    match goal with H : match o with Some _ => _ | None => _ end = true |- _ => rename H into Ho end.
    destruct (IHr ltac:(assumption) t ltac:(assumption)) as (B1 & B2 & B3 & B4).
    cbn [to_pairs_kl se_kl nis_kl]. rewrite !forallb_app, B1, B2, B3, !andb_true_r. rewrite (present_wf p s o Ho).
    destruct o as [v|]; [|repeat split; intros Hn; apply andb_true_iff in Hn as [Hn1 Hn2]; auto].
    split_ands. destruct (IHs ltac:(assumption) v ltac:(assumption)) as (A1 & A2 & A3 & A4).
    cbn [forallb app]. rewrite !andb_true_r. unfold pair_b at 1 2 3. cbn [fst snd]. unfold lax, strict in *.
    cbn [canon_item3 chunks_strict andb].
    rewrite A1, A2, A3. repeat split. intros Hn. apply andb_true_iff in Hn as [Hn1 Hn2].
    rewrite (B4 Hn2). rewrite andb_true_r. apply A4. exact Hn1.
  - (* ANil *) intros _ i l H. discriminate.
  - (* ACons *) intros idx fs IHfs r IHr Hw i l Hv. cbn [wfs_vl] in Hw. split_ands. cbn [wfv_vl to_item_vl se_vl nis_vl] in *.
    destruct i as [|i'].
    + destruct (IHfs ltac:(assumption) l Hv) as (A1 & A2 & A3 & A4).
      unfold lax, strict in *. cbn [canon_item3 chunks_strict forallb orb andb]. repeat split; auto.
      intros Hn. apply andb_true_iff in Hn as [Hn1 Hn2]. auto.
    + destruct (IHr ltac:(assumption) i' l Hv) as (A1 & A2 & A3 & A4). repeat split; auto.
      intros Hn. apply andb_true_iff in Hn as [Hn1 Hn2]. auto.
  - (* CNil *) intros tagged _ i v H. discriminate.
  - (* CCons *) intros d s IHs r IHr tagged Hw i v Hv. cbn [wfs_cl] in Hw. split_ands. cbn [wfv_cl to_item_cl se_cl nis_cl] in *.
    destruct i as [|i'].
    + destruct (IHs ltac:(assumption) v Hv) as (A1 & A2 & A3 & A4).
      destruct tagged; unfold lax, strict in *; cbn [canon_item3 chunks_strict]; repeat split; auto;
        intros Hn; apply andb_true_iff in Hn as [Hn1 Hn2]; auto.
    + destruct (IHr tagged ltac:(assumption) i' v Hv) as (A1 & A2 & A3 & A4). repeat split; auto.
      intros Hn. apply andb_true_iff in Hn as [Hn1 Hn2]. auto.
Qed.

(* ---------- statements on bytes ---------- *)
Theorem enc_canonical s v : wfs s = true -> wfv s v = true ->
  canon_bytes true true (enc s v) = true /\ heads_shortest (enc s v) = true /\
  chunks_strict (to_item s v) = true /\
  (no_indef_sites s = true -> canon_bytes false false (enc s v) = true).
Proof.
  intros Hs Hv. destruct (proj1 canon_all s Hs v Hv) as (G1 & G2 & G3 & G4).
  pose proof (to_item_ok s v Hs Hv) as Hok. rewrite <- (to_item_enc s v Hv).
  repeat split.
  - rewrite canon_bytes_encode by exact Hok. exact G1.
  - apply heads_shortest_encode. exact Hok.
  - exact G2.
  - intros Hn. rewrite canon_bytes_encode by exact Hok. apply G4. exact Hn.
Qed.

Theorem enc_sets s v : wfs s = true -> wfv s v = true -> sets_emitted s v = true.
Proof. intros Hs Hv. exact (proj1 (proj2 (proj2 (proj1 canon_all s Hs v Hv)))). Qed.

(* what a set site looks like on the wire *)
Theorem set_site_bytes s l : wfs s = true -> wfv (SSetOf s) (VList l) = true ->
  enc (SSetOf s) (VList l) = [217; 1; 2] ++ encode_head 4 (N.of_nat (length l)) ++ concat (map (enc s) l) /\
  NoDup (map (enc s) l) /\
  parse_exact (enc (SSetOf s) (VList l)) = Ok (ITag 258 (IArray true (map (to_item s) l))) /\
  items_nodup (map (to_item s) l) = true.
Proof.
  intros Hs Hv. split; [reflexivity|]. split; [|split].
  - cbn [wfv] in Hv. split_ands. match goal with H : nodupb _ = true |- _ => revert H end.
    generalize (map (enc s) l). clear. intros bl. induction bl as [|x t IH]; [constructor|]. cbn [nodupb]. intros Hn.
    apply andb_true_iff in Hn as [H1 H2]. constructor; [|apply IH; exact H2].
    intros Hin. apply negb_true_iff in H1. assert (E : existsb (fun y => if list_eq_dec N.eq_dec x y then true else false) t = true).
    { apply existsb_exists. exists x. split; [exact Hin|]. destruct (list_eq_dec N.eq_dec x x); [reflexivity|contradiction]. }
    rewrite E in H1. discriminate.
  - apply (parse_enc (SSetOf s) (VList l)); [exact Hs|exact Hv].
  - pose proof (enc_sets (SSetOf s) (VList l) Hs Hv) as Hse. cbn [sets_emitted to_item] in Hse.
    apply andb_true_iff in Hse as [Hse _]. exact Hse.
Qed.
