(* C03, builder clause: the Value / MultiAsset operations the builder uses for change and coin selection
   (checked_add, checked_sub, clamped_sub, MultiAsset::sub; model Num/Value.v of the C14 development, copied verbatim)
   never produce a zero-quantity asset or an empty policy bundle from operands that have none.
   No sortedness is needed: the invariant is about the values stored, whatever the key order. *)
From CSL Require Import Base.Prelude Num.Value.
Local Open Scope N_scope.

Definition assets_pos (a : assets) : bool := forallb (fun nq : bytes * N => 1 <=? snd nq) a.
Definition bundle_ok (a : assets) : bool := negb (match a with [] => true | _ => false end) && assets_pos a.
Definition ma_pos (m : multiasset) : bool := forallb (fun pa : bytes * assets => bundle_ok (snd pa)) m.
(* what an output's amount must satisfy: no zero quantity, no empty policy bundle *)
Definition value_pos (v : value) : bool :=
  match multiasset_of v with Some m => ma_pos m | None => true end.

(* ---- generic association-list facts (any comparison function) ---- *)
Lemma am_get_in {V} cmp k (m : list (bytes * V)) v : am_get cmp k m = Some v -> exists k', In (k', v) m.
Proof.
  induction m as [|[k' v'] t IH]; [discriminate|]. cbn [am_get]. destruct (cmp k k').
  - intros H. injection H as <-. exists k'. left. reflexivity.
  - intros H. destruct (IH H) as (k2 & Hin). exists k2. right. exact Hin.
  - intros H. destruct (IH H) as (k2 & Hin). exists k2. right. exact Hin.
Qed.

Lemma am_insert_forall {V} cmp (P : bytes * V -> bool) k v (m : list (bytes * V)) :
  (forall k', P (k', v) = true) -> forallb P m = true -> forallb P (am_insert cmp k v m) = true.
Proof.
  intros Hv. induction m as [|[k' v'] t IH]; intros Hm; cbn [am_insert forallb] in *; [rewrite Hv; reflexivity|].
  apply andb_true_iff in Hm as [H1 H2]. destruct (cmp k k'); cbn [forallb].
  - rewrite Hv, H2. reflexivity.
  - rewrite Hv, H1, H2. reflexivity.
  - rewrite H1, IH by exact H2. reflexivity.
Qed.

Lemma am_remove_forall {V} cmp (P : bytes * V -> bool) k (m : list (bytes * V)) :
  forallb P m = true -> forallb P (am_remove cmp k m) = true.
Proof.
  induction m as [|[k' v'] t IH]; intros Hm; cbn [am_remove forallb] in *; [reflexivity|].
  apply andb_true_iff in Hm as [H1 H2]. destruct (cmp k k'); cbn [forallb]; try exact H2; rewrite H1, IH by exact H2; reflexivity.
Qed.

Lemma forallb_in {A} (P : A -> bool) l x : forallb P l = true -> In x l -> P x = true.
Proof. intros H Hx. rewrite forallb_forall in H. apply H. exact Hx. Qed.

Lemma am_insert_nonempty {V} cmp k v (m : list (bytes * V)) : am_insert cmp k v m <> [].
Proof. destruct m as [|[k' v'] t]; cbn [am_insert]; [discriminate|]. destruct (cmp k k'); discriminate. Qed.

(* ---- the bundle stored under a policy of a positive multiasset is positive ---- *)
Lemma ma_get_pos p m a : ma_pos m = true -> ma_get p m = Some a -> bundle_ok a = true.
Proof.
  intros Hm Hg. unfold ma_get in Hg. destruct (am_get_in _ _ _ _ Hg) as (k' & Hin).
  exact (forallb_in _ _ _ Hm Hin).
Qed.

Lemma ma_insert_pos p a m : ma_pos m = true -> bundle_ok a = true -> ma_pos (ma_insert p a m) = true.
Proof. intros Hm Ha. unfold ma_pos, ma_insert. apply am_insert_forall; [intros k'; exact Ha|exact Hm]. Qed.

Lemma assets_insert_ok n q a : 1 <= q -> assets_pos a = true -> bundle_ok (assets_insert n q a) = true.
Proof.
  intros Hq Ha. unfold bundle_ok, assets_insert. apply andb_true_iff. split.
  - pose proof (am_insert_nonempty name_cmp n q a). destruct (am_insert name_cmp n q a); [congruence|reflexivity].
  - unfold assets_pos. apply am_insert_forall; [intros k'; cbn [snd]; lia|exact Ha].
Qed.

Lemma bundle_pos a : bundle_ok a = true -> assets_pos a = true.
Proof. unfold bundle_ok. intros H. apply andb_true_iff in H as [_ H]. exact H. Qed.

(* ---- MultiAsset::sub ---- *)
Lemma ma_sub_entry_pos lhs e : ma_pos lhs = true -> ma_pos (ma_sub_entry lhs e) = true.
Proof.
  intros Hm. destruct e as [[p n] amt]. unfold ma_sub_entry.
  destruct (ma_get p lhs) as [a|] eqn:Eg; [|exact Hm].
  pose proof (ma_get_pos p lhs a Hm Eg) as Ha.
  destruct (assets_get n a) as [cur|] eqn:En; [|exact Hm].
  destruct (amt <? cur) eqn:El.
  - apply ma_insert_pos; [exact Hm|]. apply assets_insert_ok; [lia|apply bundle_pos; exact Ha].
  - destruct (am_remove name_cmp n a) as [|x t] eqn:Er.
    + unfold ma_pos. apply am_remove_forall. exact Hm.
    + apply ma_insert_pos; [exact Hm|]. unfold bundle_ok. cbn [negb andb]. rewrite <- Er.
      unfold assets_pos. apply am_remove_forall. apply bundle_pos. exact Ha.
Qed.

Theorem ma_sub_pos lhs rhs : ma_pos lhs = true -> ma_pos (ma_sub lhs rhs) = true.
Proof.
  unfold ma_sub. generalize (ma_entries rhs). intros es. revert lhs.
  induction es as [|e t IH]; intros lhs Hm; [exact Hm|]. cbn [fold_left]. apply IH. apply ma_sub_entry_pos. exact Hm.
Qed.

(* ---- checked_add ---- *)
Lemma ma_add_entry_pos acc e acc' : ma_pos acc = true -> 1 <= snd e -> ma_add_entry acc e = Ok acc' -> ma_pos acc' = true.
Proof.
  intros Hm Hq. destruct e as [[p n] amt]. cbn [snd] in Hq. unfold ma_add_entry.
  destruct (ma_get p acc) as [a|] eqn:Eg.
  - pose proof (ma_get_pos p acc a Hm Eg) as Ha.
    destruct (assets_get n a) as [cur|] eqn:En.
    + unfold u64_add. destruct (cur + amt <? two64); cbn [bind]; [|discriminate]. intros H. injection H as <-.
      apply ma_insert_pos; [exact Hm|]. apply assets_insert_ok; [lia|apply bundle_pos; exact Ha].
    + intros H. injection H as <-. apply ma_insert_pos; [exact Hm|]. apply assets_insert_ok; [lia|apply bundle_pos; exact Ha].
  - intros H. injection H as <-. apply ma_insert_pos; [exact Hm|].
    unfold bundle_ok, assets_pos, assets_insert, assets_new. cbn [am_insert negb andb forallb snd]. lia.
Qed.

Lemma ma_add_entries_pos es : forall acc acc', ma_pos acc = true -> Forall (fun e : bytes * bytes * N => 1 <= snd e) es ->
  ma_add_entries acc es = Ok acc' -> ma_pos acc' = true.
Proof.
  induction es as [|e t IH]; intros acc acc' Hm He H; cbn [ma_add_entries] in H.
  - injection H as <-. exact Hm.
  - inversion He as [|? ? He1 He2]; subst.
    destruct (ma_add_entry acc e) as [acc1| | |] eqn:E1; cbn [bind] in H; try discriminate.
    eapply IH; [|exact He2|exact H]. eapply ma_add_entry_pos; eassumption.
Qed.

Lemma ma_entries_pos m : ma_pos m = true -> Forall (fun e : bytes * bytes * N => 1 <= snd e) (ma_entries m).
Proof.
  intros Hm. unfold ma_entries. apply Forall_forall. intros [[p n] q] Hin. cbn [snd].
  apply in_flat_map in Hin as ((p' & a) & Hpa & Hx). cbn [fst snd] in Hx.
  apply in_map_iff in Hx as ((n' & q') & E & Hnq). cbn [fst snd] in E. injection E as _ _ <-.
  pose proof (forallb_in _ _ _ Hm Hpa) as Hb. cbn [snd] in Hb. apply bundle_pos in Hb.
  pose proof (forallb_in _ _ _ Hb Hnq) as Hq. cbn [snd] in Hq. lia.
Qed.

Theorem ma_checked_add_pos l r m : ma_pos l = true -> ma_pos r = true -> ma_checked_add l r = Ok m -> ma_pos m = true.
Proof.
  intros Hl Hr H. unfold ma_checked_add in H. apply (ma_add_entries_pos (ma_entries l ++ ma_entries r) ma_new m); [reflexivity| |exact H].
  apply Forall_app. split; apply ma_entries_pos; assumption.
Qed.

(* ---- Value level ---- *)
Lemma value_sub_assets_pos a b : value_pos a = true ->
  match value_sub_assets a b with Some m => ma_pos m | None => true end = true.
Proof.
  unfold value_pos, value_sub_assets. destruct (multiasset_of a) as [l|]; destruct (multiasset_of b) as [r|]; intros Ha; try reflexivity.
  - pose proof (ma_sub_pos l r Ha) as Hp. destruct (ma_sub l r) as [|x t]; [reflexivity|exact Hp].
  - exact Ha.
Qed.

Theorem value_checked_add_pos a b c :
  value_pos a = true -> value_pos b = true -> value_checked_add a b = Ok c -> value_pos c = true.
Proof.
  unfold value_pos, value_checked_add. intros Ha Hb H.
  destruct (u64_add (coin a) (coin b)) as [s| | |]; cbn [bind] in H; try discriminate.
  destruct (multiasset_of a) as [l|]; destruct (multiasset_of b) as [r|]; cbn [bind] in H.
  - destruct (ma_checked_add l r) as [m| | |] eqn:E; cbn [bind] in H; try discriminate.
    injection H as <-. cbn [multiasset_of]. exact (ma_checked_add_pos l r m Ha Hb E).
  - injection H as <-. exact Ha.
  - injection H as <-. exact Hb.
  - injection H as <-. reflexivity.
Qed.

Theorem value_checked_sub_pos a b c : value_pos a = true -> value_checked_sub a b = Ok c -> value_pos c = true.
Proof.
  intros Ha H. unfold value_checked_sub in H.
  destruct (u64_sub (coin a) (coin b)) as [s| | |]; cbn [bind] in H; try discriminate.
  match type of H with (if ?c then _ else _) = _ => destruct c end; [|discriminate].
  injection H as <-. unfold value_pos. cbn [multiasset_of]. apply value_sub_assets_pos. exact Ha.
Qed.

Theorem value_clamped_sub_pos a b : value_pos a = true -> value_pos (value_clamped_sub a b) = true.
Proof. intros Ha. unfold value_clamped_sub, value_pos. cbn [multiasset_of]. apply value_sub_assets_pos. exact Ha. Qed.

(* premises are satisfiable, and the invariant is not trivially true: an operand WITH a zero quantity keeps it *)
Example pos_example :
  let p := repeat 1 28 in
  let a := mkValue 10 (Some [(p, [([65], 5); ([66], 7)])]) in
  let b := mkValue 3 (Some [(p, [([65], 5)])]) in
  value_pos a = true /\ value_pos b = true /\
  value_checked_sub a b = Ok (mkValue 7 (Some [(p, [([66], 7)])])) /\
  value_pos (mkValue 1 (Some [(p, [([65], 0)])])) = false /\
  value_pos (mkValue 1 (Some [(p, [])])) = false.
Proof. vm_compute. repeat split. Qed.
