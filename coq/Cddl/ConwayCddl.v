(* The Conway-era ledger CDDL (cardano-ledger eras/conway/impl/cddl-files/conway.cddl) for a transaction
   and its parts, transcribed into the rule language of Cddl/Rules.v.  SPEC, part of the trusted base:
   kept close to the published text (see notes/conway-cddl.md); each definition cites the CDDL rule name.

   Two deliberate choices, both from the property's text:
   * sets are transcribed in the form the library must EMIT, `#6.258([* a])` (the CDDL also admits the
     untagged array on input), with "no duplicates";
   * `unit_interval` / `nonnegative_interval` carry the side conditions the CDDL states in comments
     (denominator > 0, numerator <= denominator for unit intervals). *)
From CSL Require Import Base.Prelude Cbor.Head Cbor.Item Cddl.Rules.
Local Open Scope N_scope.

(* ---- names of the recursive / shared rules (the rule environment) ---- *)
Definition N_native_script : N := 1.
Definition N_plutus_data : N := 2.
Definition N_metadatum : N := 3.
Definition N_transaction_output : N := 4.
Definition N_certificate : N := 5.
Definition N_gov_action : N := 6.
Definition N_protocol_param_update : N := 7.
Definition N_value : N := 8.
Definition N_auxiliary_data : N := 9.
Definition N_transaction_body : N := 10.
Definition N_transaction_witness_set : N := 11.
Definition N_credential : N := 12.
Definition N_anchor : N := 13.
Definition N_transaction_input : N := 14.
Definition N_header_body : N := 15.

(* ---- primitive rules ---- *)
Definition coin := r_uint.                                              (* coin = uint *)
Definition positive_coin := RUint 1 max64.                              (* positive_coin = 1 .. 18446744073709551615 *)
Definition slot_no := r_uint_size 8.                                    (* slot_no = uint .size 8 *)
Definition epoch_no := r_uint_size 8.                                   (* epoch_no = uint .size 8 *)
Definition epoch_interval := r_uint_size 4.                             (* epoch_interval = uint .size 4 *)
Definition addr_keyhash := r_hash28.                                    (* $hash28 *)
Definition pool_keyhash := r_hash28.
Definition scripthash := r_hash28.
Definition policy_id := r_hash28.
Definition policy_hash := r_hash28.
Definition vrf_keyhash := r_hash32.
Definition hash32 := r_hash32.
Definition asset_name := RBytes 0 32.                                   (* asset_name = bytes .size (0..32) *)
Definition nonZeroInt64 :=                                              (* negInt64 / posInt64 *)
  RChoice [RInt (- 9223372036854775808)%Z (- 1)%Z; RInt 1%Z 9223372036854775807%Z].
Definition int64 := r_int64.
Definition unit_interval := RRatio true.                                (* #6.30([uint, uint]); num <= den, den > 0 *)
Definition nonnegative_interval := RRatio false.                        (* #6.30([uint, positive_int]) *)
Definition url := RText 0 128.                                          (* url = tstr .size (0..128) *)
Definition dns_name := RText 0 128.
Definition port := RUint 0 65535.                                       (* port = uint .le 65535 *)
Definition ipv4 := RBytes 4 4.
Definition ipv6 := RBytes 16 16.
Definition network_id := RUint 0 1.                                     (* network_id = 0 / 1 *)
Definition plutus_script := r_bytes.                                    (* plutus_v1_script = bytes, v2, v3 likewise *)

(* ---- inputs, credentials, anchors ---- *)
Definition transaction_input := RArr [hash32; r_uint_size 2].           (* [transaction_id : $hash32, index : uint .size 2] *)
Definition credential := RChoice [RArr [r_lit 0; addr_keyhash]; RArr [r_lit 1; scripthash]].
Definition drep := RChoice [RArr [r_lit 0; addr_keyhash]; RArr [r_lit 1; scripthash]; RArr [r_lit 2]; RArr [r_lit 3]].
Definition anchor := RArr [url; hash32].                                (* [anchor_url : url, anchor_data_hash : $hash32] *)
Definition gov_action_id := RArr [hash32; r_uint_size 2].               (* [transaction_id, gov_action_index : uint .size 2] *)

(* ---- value ---- *)
Definition multiasset (a : rule) := RMapOf 1 policy_id (RMapOf 1 asset_name a).   (* {+ policy_id => {+ asset_name => a}} *)
Definition value := RChoice [coin; RArr [coin; multiasset positive_coin]].
Definition mint := multiasset nonZeroInt64.
Definition withdrawals := RMapOf 1 RRewardAccount coin.                 (* {+ reward_account => coin} *)

(* ---- scripts and data ---- *)
Definition native_script := RChoice [                                   (* native_script *)
  RArr [r_lit 0; addr_keyhash];                                         (* script_pubkey *)
  RArr [r_lit 1; RArrOf 0 (RRef N_native_script)];                      (* script_all *)
  RArr [r_lit 2; RArrOf 0 (RRef N_native_script)];                      (* script_any *)
  RArr [r_lit 3; int64; RArrOf 0 (RRef N_native_script)];               (* script_n_of_k, n : int64 *)
  RArr [r_lit 4; slot_no];                                              (* invalid_before *)
  RArr [r_lit 5; slot_no]].                                             (* invalid_hereafter *)

Fixpoint tag_range (lo : N) (n : nat) (r : rule) : list rule :=
  match n with O => [] | S n' => RTag lo r :: tag_range (lo + 1) n' r end.
Definition big_int := RChoice [r_int; RTag 2 RBBytes; RTag 3 RBBytes]. (* int / big_uint / big_nint *)
Definition plutus_data := RChoice (                                     (* plutus_data *)
  tag_range 121 7 (RArrAny 0 (RRef N_plutus_data)) ++                     (* constr: #6.121 .. #6.127 *)
  tag_range 1280 121 (RArrAny 0 (RRef N_plutus_data)) ++                  (* #6.1280 .. #6.1400 *)
  [RTag 102 (RArr [r_uint; RArrAny 0 (RRef N_plutus_data)]);              (* #6.102([uint, [* a]]) *)
   RMapOf 0 (RRef N_plutus_data) (RRef N_plutus_data);                  (* {* plutus_data => plutus_data} *)
   RArrAny 0 (RRef N_plutus_data);                                        (* [* plutus_data] *)
   big_int;
   RBBytes]).                                                           (* bounded_bytes *)
Definition data := RTag 24 (RCborIn (RRef N_plutus_data)).              (* data = #6.24(bytes .cbor plutus_data) *)
Definition datum_option := RChoice [RArr [r_lit 0; hash32]; RArr [r_lit 1; data]].
Definition script := RChoice [RArr [r_lit 0; RRef N_native_script]; RArr [r_lit 1; plutus_script];
                              RArr [r_lit 2; plutus_script]; RArr [r_lit 3; plutus_script]].
Definition script_ref := RTag 24 (RCborIn script).                      (* #6.24(bytes .cbor script) *)

Definition metadatum := RChoice [                                       (* transaction_metadatum *)
  RMapOf 0 (RRef N_metadatum) (RRef N_metadatum);
  RArrOf 0 (RRef N_metadatum);
  r_int;
  RBytes 0 64;
  RText 0 64].
Definition metadata := RMapOf 0 r_uint (RRef N_metadatum).              (* {* uint => transaction_metadatum} *)
Definition auxiliary_data := RChoice [
  metadata;                                                             (* shelley *)
  RArr [metadata; RArrOf 0 (RRef N_native_script)];                     (* shelley-ma *)
  RTag 259 (RMap [(0, false, metadata); (1, false, RArrOf 0 (RRef N_native_script));
                  (2, false, RArrOf 0 plutus_script); (3, false, RArrOf 0 plutus_script);
                  (4, false, RArrOf 0 plutus_script)])].                (* alonzo onwards *)

(* ---- outputs ---- *)
Definition transaction_output := RChoice [
  RArr [RAddress; RRef N_value];                                        (* legacy: [address, amount : value, ? datum_hash] *)
  RArr [RAddress; RRef N_value; hash32];
  RMap [(0, true, RAddress); (1, true, RRef N_value); (2, false, datum_option); (3, false, script_ref)]].

(* ---- certificates ---- *)
Definition relay := RChoice [
  RArr [r_lit 0; r_nullable port; r_nullable ipv4; r_nullable ipv6];    (* single_host_addr *)
  RArr [r_lit 1; r_nullable port; dns_name];                            (* single_host_name *)
  RArr [r_lit 2; dns_name]].                                            (* multi_host_name *)
Definition pool_metadata := RArr [url; hash32].
Definition certificate := RChoice [
  RArr [r_lit 0; RRef N_credential];                                    (* stake_registration (legacy) *)
  RArr [r_lit 1; RRef N_credential];                                    (* stake_deregistration (legacy) *)
  RArr [r_lit 2; RRef N_credential; pool_keyhash];                      (* stake_delegation *)
  RArr [r_lit 3; pool_keyhash; vrf_keyhash; coin; coin; unit_interval; RRewardAccount;
        RSet 0 addr_keyhash; RArrOf 0 relay; r_nullable pool_metadata]; (* pool_registration = (3, pool_params) *)
  RArr [r_lit 4; pool_keyhash; epoch_no];                               (* pool_retirement *)
  RArr [r_lit 7; RRef N_credential; coin];                              (* reg_cert *)
  RArr [r_lit 8; RRef N_credential; coin];                              (* unreg_cert *)
  RArr [r_lit 9; RRef N_credential; drep];                              (* vote_deleg_cert *)
  RArr [r_lit 10; RRef N_credential; pool_keyhash; drep];               (* stake_vote_deleg_cert *)
  RArr [r_lit 11; RRef N_credential; pool_keyhash; coin];               (* stake_reg_deleg_cert *)
  RArr [r_lit 12; RRef N_credential; drep; coin];                       (* vote_reg_deleg_cert *)
  RArr [r_lit 13; RRef N_credential; pool_keyhash; drep; coin];         (* stake_vote_reg_deleg_cert *)
  RArr [r_lit 14; RRef N_credential; RRef N_credential];                (* auth_committee_hot_cert *)
  RArr [r_lit 15; RRef N_credential; r_nullable (RRef N_anchor)];       (* resign_committee_cold_cert *)
  RArr [r_lit 16; RRef N_credential; coin; r_nullable (RRef N_anchor)]; (* reg_drep_cert *)
  RArr [r_lit 17; RRef N_credential; coin];                             (* unreg_drep_cert *)
  RArr [r_lit 18; RRef N_credential; r_nullable (RRef N_anchor)]].      (* update_drep_cert *)
Definition certificates := RSet 1 (RRef N_certificate).                 (* nonempty_oset<certificate> *)

(* ---- protocol parameters ---- *)
Definition ex_units := RArr [r_uint; r_uint].
Definition ex_unit_prices := RArr [nonnegative_interval; nonnegative_interval].
Definition cost_model := RArrOf 0 int64.
Definition cost_models := RMapOf 0 (RUint 0 255) cost_model.           (* {? 0, ? 1, ? 2 : [* int64], * 3..255 => [* int64]} *)
Definition pool_voting_thresholds := RArr [unit_interval; unit_interval; unit_interval; unit_interval; unit_interval].
Definition drep_voting_thresholds :=
  RArr [unit_interval; unit_interval; unit_interval; unit_interval; unit_interval;
        unit_interval; unit_interval; unit_interval; unit_interval; unit_interval].
Definition protocol_param_update := RMap [
  (0, false, coin); (1, false, coin); (2, false, r_uint_size 4); (3, false, r_uint_size 4); (4, false, r_uint_size 2);
  (5, false, coin); (6, false, coin); (7, false, epoch_interval); (8, false, r_uint_size 2);
  (9, false, nonnegative_interval); (10, false, unit_interval); (11, false, unit_interval);
  (16, false, coin); (17, false, coin); (18, false, cost_models); (19, false, ex_unit_prices);
  (20, false, ex_units); (21, false, ex_units); (22, false, r_uint_size 4); (23, false, r_uint_size 2);
  (24, false, r_uint_size 2); (25, false, pool_voting_thresholds); (26, false, drep_voting_thresholds);
  (27, false, r_uint_size 2); (28, false, epoch_interval); (29, false, epoch_interval); (30, false, coin);
  (31, false, coin); (32, false, epoch_interval); (33, false, nonnegative_interval)].

(* ---- governance ---- *)
Definition voter := RChoice [RArr [r_lit 0; addr_keyhash]; RArr [r_lit 1; scripthash]; RArr [r_lit 2; addr_keyhash];
                             RArr [r_lit 3; scripthash]; RArr [r_lit 4; addr_keyhash]].
Definition voting_procedure := RArr [RUint 0 2; r_nullable (RRef N_anchor)].
Definition voting_procedures := RMapOf 1 voter (RMapOf 1 gov_action_id voting_procedure).
Definition protocol_version := RArr [r_uint; r_uint].
Definition constitution := RArr [RRef N_anchor; r_nullable scripthash].
Definition gov_action := RChoice [
  RArr [r_lit 0; r_nullable gov_action_id; RRef N_protocol_param_update; r_nullable policy_hash];   (* parameter_change_action *)
  RArr [r_lit 1; r_nullable gov_action_id; protocol_version];                                        (* hard_fork_initiation_action *)
  RArr [r_lit 2; RMapOf 0 RRewardAccount coin; r_nullable policy_hash];                              (* treasury_withdrawals_action *)
  RArr [r_lit 3; r_nullable gov_action_id];                                                          (* no_confidence *)
  RArr [r_lit 4; r_nullable gov_action_id; RSet 0 (RRef N_credential);
        RMapOf 0 (RRef N_credential) epoch_no; unit_interval];                                       (* update_committee *)
  RArr [r_lit 5; r_nullable gov_action_id; constitution];                                            (* new_constitution *)
  RArr [r_lit 6]].                                                                                   (* info_action *)
Definition proposal_procedure := RArr [coin; RRewardAccount; RRef N_gov_action; RRef N_anchor].
Definition proposal_procedures := RSet 1 proposal_procedure.            (* nonempty_oset<proposal_procedure> *)

(* ---- transaction body ---- *)
Definition required_signers := RSet 1 addr_keyhash.                     (* nonempty_set<addr_keyhash> *)
Definition transaction_body := RMap [
  (0, true, RSet 0 (RRef N_transaction_input));                         (* set<transaction_input> *)
  (1, true, RArrOf 0 (RRef N_transaction_output));
  (2, true, coin);
  (3, false, slot_no);
  (4, false, certificates);
  (5, false, withdrawals);
  (7, false, hash32);                                                   (* auxiliary_data_hash *)
  (8, false, slot_no);
  (9, false, mint);
  (11, false, hash32);                                                  (* script_data_hash *)
  (13, false, RSet 1 (RRef N_transaction_input));                       (* collateral: nonempty_set *)
  (14, false, required_signers);
  (15, false, network_id);
  (16, false, RRef N_transaction_output);                               (* collateral return *)
  (17, false, coin);                                                    (* total collateral *)
  (18, false, RSet 1 (RRef N_transaction_input));                       (* reference inputs *)
  (19, false, voting_procedures);
  (20, false, proposal_procedures);
  (21, false, coin);                                                    (* current treasury value *)
  (22, false, positive_coin)].                                          (* donation *)

(* ---- witness set ---- *)
Definition vkeywitness := RArr [RBytes 32 32; RBytes 64 64].
Definition bootstrap_witness := RArr [RBytes 32 32; RBytes 64 64; RBytes 32 32; r_bytes].
Definition redeemer_tag := RUint 0 5.
Definition redeemers := RChoice [
  RArrOf 1 (RArr [redeemer_tag; r_uint_size 4; RRef N_plutus_data; ex_units]);
  RMapOf 1 (RArr [redeemer_tag; r_uint_size 4]) (RArr [RRef N_plutus_data; ex_units])].
Definition transaction_witness_set := RMap [
  (0, false, RSet 1 vkeywitness);
  (1, false, RSet 1 (RRef N_native_script));
  (2, false, RSet 1 bootstrap_witness);
  (3, false, RSet 1 plutus_script);
  (4, false, RSetAny 1 (RRef N_plutus_data));                              (* nonempty_set<plutus_data>; a Plutus list *)
  (5, false, redeemers);
  (6, false, RSet 1 plutus_script);
  (7, false, RSet 1 plutus_script)].

(* transaction = [transaction_body, transaction_witness_set, bool, auxiliary_data / nil] *)
Definition transaction := RArr [RRef N_transaction_body; RRef N_transaction_witness_set; RBool;
                                r_nullable (RRef N_auxiliary_data)].

(* ---- header and block ---- *)
Definition vkey := RBytes 32 32.                                        (* $vkey *)
Definition vrf_vkey := RBytes 32 32.                                    (* $vrf_vkey *)
Definition kes_vkey := RBytes 32 32.                                    (* $kes_vkey *)
Definition signature := RBytes 64 64.                                   (* $signature *)
Definition kes_signature := RBytes 448 448.                             (* $kes_signature *)
Definition vrf_cert := RArr [r_bytes; RBytes 80 80].                    (* $vrf_cert = [bytes, bytes .size 80] *)
Definition operational_cert := RArr [kes_vkey; r_uint; r_uint; signature].   (* [hot_vkey, sequence_number, kes_period, sigma] *)
Definition transaction_index := r_uint_size 2.                          (* transaction_index = uint .size 2 *)
(* header_body (Babbage onwards): one vrf_result, operational_cert and protocol_version as NESTED arrays *)
Definition header_body := RArr [r_uint; r_uint; r_nullable hash32; vkey; vrf_vkey; vrf_cert; r_uint_size 4; hash32;
                                operational_cert; protocol_version].
Definition header := RArr [RRef N_header_body; kes_signature].          (* [header_body, body_signature : $kes_signature] *)
Definition block := RArr [header; RArrOf 0 (RRef N_transaction_body); RArrOf 0 (RRef N_transaction_witness_set);
                          RMapOf 0 transaction_index (RRef N_auxiliary_data); RArrOf 0 transaction_index].
(* pre-Babbage header_body (Shelley .. Alonzo CDDL): two VRF certificates, operational_cert and protocol_version as GROUPS *)
Definition header_body_tpraos := RArr [r_uint; r_uint; r_nullable hash32; vkey; vrf_vkey; vrf_cert; vrf_cert; r_uint_size 4; hash32;
                                       kes_vkey; r_uint; r_uint; signature; r_uint; r_uint].
(* NOT a rule of any era: the single-VRF body with the groups written flat (what the library writes for a Praos header) *)
Definition header_body_flat_praos := RArr [r_uint; r_uint; r_nullable hash32; vkey; vrf_vkey; vrf_cert; r_uint_size 4; hash32;
                                           kes_vkey; r_uint; r_uint; signature; r_uint; r_uint].

Definition conway_env : env := [
  (N_native_script, native_script); (N_plutus_data, plutus_data); (N_metadatum, metadatum);
  (N_transaction_output, transaction_output); (N_certificate, certificate); (N_gov_action, gov_action);
  (N_protocol_param_update, protocol_param_update); (N_value, value); (N_auxiliary_data, auxiliary_data);
  (N_transaction_body, transaction_body); (N_transaction_witness_set, transaction_witness_set);
  (N_credential, credential); (N_anchor, anchor); (N_transaction_input, transaction_input);
  (N_header_body, header_body)].
