(* Soundness of the value-independent comparison: refines s r = true makes EVERY schema-valid value of s satisfy the
   Conway constraints for r (for enough fuel).  Induction on the fuel of refines, one case per construct. *)
From CSL Require Import Base.Prelude Cbor.Head Cbor.Item Codec.Schema Codec.SchemaProofs Cddl.Rules Cddl.Validator
  Cddl.ValidatorProofs Cddl.Conforms Cddl.ConformsMono Cddl.Refines.
Local Open Scope N_scope.

Section Sound.
  Variable e : env.

  (* "conforms for enough fuel" *)
  Definition cv (s : schema) (r : rule) (v : val) : Prop := exists g, conforms e g s r v = true.

  Lemma cv_named id s r v : cv s r v -> cv (SNamed id s) r v.
  Proof. intros [g H]. exists (S g). exact H. Qed.

  Lemma cv_choice alts i d s' r v : cnth alts i = Some (d, s') -> cv s' r v -> cv (SChoice alts) r (VAlt i v).
  Proof. intros En [g H]. exists (S g). cbn [conforms conf_body]. rewrite En. exact H. Qed.

  Lemma conf_body_nt rec s r v : transparent s = false ->
    conf_body e rec s r v =
    match r with
    | RRef id => match lookup e id with Some r' => rec s r' v | None => false end
    | RChoice ralts => existsb (fun a => rec s a v) ralts
    | _ => conf_struct rec s r v
    end.
  Proof. destruct s; try discriminate; reflexivity. Qed.

  Lemma cv_ref s id r' v : transparent s = false -> lookup e id = Some r' -> cv s r' v -> cv s (RRef id) v.
  Proof. intros Ht El [g H]. exists (S g). cbn [conforms]. rewrite conf_body_nt by exact Ht. rewrite El. exact H. Qed.

  Lemma cv_rchoice s ralts a v : transparent s = false -> In a ralts -> cv s a v -> cv s (RChoice ralts) v.
  Proof.
    intros Ht Hin [g H]. exists (S g). cbn [conforms]. rewrite conf_body_nt by exact Ht.
    apply existsb_exists. exists a. split; assumption.
  Qed.

  Definition plain (r : rule) : bool := match r with RRef _ | RChoice _ => false | _ => true end.
  Lemma cv_struct g s r v : transparent s = false -> plain r = true -> conf_struct (conforms e g) s r v = true -> cv s r v.
  Proof. intros Ht Hp H. exists (S g). cbn [conforms]. rewrite conf_body_nt by exact Ht. destruct r; try discriminate; exact H. Qed.

  (* a common fuel for finitely many facts *)
  Lemma cv_forallb s r l : (forall x, In x l -> cv s r x) -> exists g, forallb (conforms e g s r) l = true.
  Proof.
    induction l as [|x t IH]; intros H; [exists O; reflexivity|].
    destruct (H x (or_introl eq_refl)) as [g1 H1]. destruct (IH (fun y Hy => H y (or_intror Hy))) as [g2 H2].
    exists (Nat.max g1 g2). cbn [forallb]. rewrite (conforms_fuel_mono e g1 _ _ _ _ (Nat.le_max_l g1 g2) H1).
    eapply forallb_mono; [|exact H2]. intros y. apply conforms_fuel_mono. apply Nat.le_max_r.
  Qed.

  Lemma cv_sl (P : schema -> rule -> bool) fs : forall rs l,
    (forall s r v, P s r = true -> wfs s = true -> wfv s v = true -> cv s r v) ->
    ref_sl P fs rs = true -> wfs_sl fs = true -> wfv_sl fs l = true -> exists g, conf_sl (conforms e g) fs rs l = true.
  Proof.
    induction fs as [|s t IH]; intros rs l HP Hr Hs Hv.
    - destruct rs; destruct l; try discriminate. exists O. reflexivity.
    - destruct rs as [|r rt]; destruct l as [|v vt]; try discriminate. cbn [ref_sl wfs_sl wfv_sl] in *. split_ands.
      destruct (HP s r v ltac:(assumption) ltac:(assumption) ltac:(assumption)) as [g1 G1].
      destruct (IH rt vt HP ltac:(assumption) ltac:(assumption) ltac:(assumption)) as [g2 G2].
      exists (Nat.max g1 g2). cbn [conf_sl]. rewrite (conforms_fuel_mono e g1 _ _ _ _ (Nat.le_max_l g1 g2) G1).
      eapply conf_sl_mono; [|exact G2]. intros s0 r0 v0. apply conforms_fuel_mono. apply Nat.le_max_r.
  Qed.

  (* the alternative of a value *)
  Lemma wfv_cl_nth alts : forall i v, wfv_cl alts i v = true -> exists d s', cnth alts i = Some (d, s') /\ wfv s' v = true.
  Proof.
    induction alts as [|d s r IH]; intros i v H; [discriminate|]. cbn [wfv_cl cnth] in *. destruct i as [|i'].
    - exists d, s. split; [reflexivity|exact H].
    - exact (IH i' v H).
  Qed.
  Lemma wfv_vl_nth alts : forall i l, wfv_vl alts i l = true -> exists idx fs, vnth alts i = Some (idx, fs) /\ wfv_sl fs l = true.
  Proof.
    induction alts as [|idx fs r IH]; intros i l H; [discriminate|]. cbn [wfv_vl vnth] in *. destruct i as [|i'].
    - exists idx, fs. split; [reflexivity|exact H].
    - exact (IH i' l H).
  Qed.
  Lemma all_cl_nth P alts : forall i d s, all_cl P alts = true -> cnth alts i = Some (d, s) -> P d s = true.
  Proof.
    induction alts as [|d0 s0 r IH]; intros i d s H En; [discriminate|]. cbn [all_cl cnth] in *. apply andb_true_iff in H as [H1 H2].
    destruct i as [|i']; [injection En as <- <-; exact H1|exact (IH i' d s H2 En)].
  Qed.
  Lemma all_vl_nth P alts : forall i idx fs, all_vl P alts = true -> vnth alts i = Some (idx, fs) -> P idx fs = true.
  Proof.
    induction alts as [|i0 f0 r IH]; intros i idx fs H En; [discriminate|]. cbn [all_vl vnth] in *. apply andb_true_iff in H as [H1 H2].
    destruct i as [|i']; [injection En as <- <-; exact H1|exact (IH i' idx fs H2 En)].
  Qed.
  Lemma wfs_cl_nth tagged alts : forall i d s, wfs_cl tagged alts = true -> cnth alts i = Some (d, s) -> wfs s = true.
  Proof.
    induction alts as [|d0 s0 r IH]; intros i d s H En; [discriminate|]. cbn [wfs_cl cnth] in *. split_ands.
    destruct i as [|i']; [injection En as <- <-; assumption|eapply IH; eassumption].
  Qed.
  Lemma wfs_vl_nth alts : forall i idx fs, wfs_vl alts = true -> vnth alts i = Some (idx, fs) -> wfs_sl fs = true.
  Proof.
    induction alts as [|i0 f0 r IH]; intros i idx fs H En; [discriminate|]. cbn [wfs_vl vnth] in *. split_ands.
    destruct i as [|i']; [injection En as <- <-; assumption|eapply IH; eassumption].
  Qed.

  (* a non-null value of a nullable site conforms as soon as it conforms for the inner schema *)
  Lemma nn_plain rec s' a v : plain a = true -> v <> VNull -> rec s' a v = true -> conf_struct rec (SNullable s') a v = true.
  Proof. intros Hp Hv H. unfold conf_struct. destruct a; try discriminate Hp; destruct v; try congruence; exact H. Qed.

  Lemma nn_lift s' : transparent s' = false -> forall g a v, v <> VNull -> conforms e g s' a v = true -> cv (SNullable s') a v.
  Proof.
    intros Ht. induction g as [|g IH]; intros a v Hv H; [discriminate|].
    destruct (plain a) eqn:Hp.
    - apply (cv_struct (S g)); [reflexivity|exact Hp|]. apply nn_plain; assumption.
    - cbn [conforms] in H. rewrite conf_body_nt in H by exact Ht. destruct a; try discriminate Hp.
      + (* RChoice *) apply existsb_exists in H as (a & Hin & Ha). destruct (IH a v Hv Ha) as [g' Hg'].
        exists (S g'). cbn [conforms]. rewrite conf_body_nt by reflexivity. apply existsb_exists. exists a. split; assumption.
      + (* RRef *) destruct (lookup e id) as [r'|] eqn:El; [|discriminate]. destruct (IH r' v Hv H) as [g' Hg'].
        exists (S g'). cbn [conforms]. rewrite conf_body_nt by reflexivity. rewrite El. exact Hg'.
  Qed.

  Lemma conf_struct_tag rec t s' u r' v : conf_struct rec (STag t s') (RTag u r') v = (t =? u) && rec s' r' v.
  Proof.
    unfold conf_struct.
    repeat match goal with |- context [match ?x with _ => _ end] => is_var x; destruct x end; reflexivity.
  Qed.

  (* map-struct fields *)
  Lemma cv_kl (P : schema -> rule -> bool) fs : forall rfs l,
    (forall s r v, P s r = true -> wfs s = true -> wfv s v = true -> cv s r v) ->
    ref_kl P fs rfs = true -> wfs_kl fs = true -> wfv_kl fs l = true -> exists g, conf_kl (conforms e g) fs rfs l = true.
  Proof.
    induction fs as [|k p s t IH]; intros rfs l HP Hr Hs Hv.
    - destruct l; try discriminate. exists O. reflexivity.
    - destruct l as [|o ot]; try discriminate. cbn [ref_kl wfs_kl wfv_kl] in *. split_ands.
      destruct (IH rfs ot HP ltac:(assumption) ltac:(assumption) ltac:(assumption)) as [g2 G2].
      destruct o as [v|].
      + split_ands. destruct (field_lookup rfs k) as [r|] eqn:El; [|discriminate].
        destruct (HP s r v ltac:(assumption) ltac:(assumption) ltac:(assumption)) as [g1 G1].
        exists (Nat.max g1 g2). cbn [conf_kl]. rewrite El.
        rewrite (conforms_fuel_mono e g1 _ _ _ _ (Nat.le_max_l g1 g2) G1).
        replace (conf_kl (conforms e (Nat.max g1 g2)) t rfs ot) with true; [destruct (present p (Some v)); reflexivity|].
        symmetry. eapply conf_kl_mono; [|exact G2]. intros s0 r0 v0. apply conforms_fuel_mono. apply Nat.le_max_r.
      + exists g2. cbn [conf_kl]. exact G2.
  Qed.

  Lemma req_written fs : forall k l, req_key k fs = true -> wfv_kl fs l = true -> existsb (N.eqb k) (written_keys fs l) = true.
  Proof.
    induction fs as [|j p s t IH]; intros k l Hk Hv; [discriminate|]. destruct l as [|o ot]; [discriminate|].
    cbn [req_key wfv_kl written_keys] in *. apply andb_true_iff in Hv as [Ho Ht]. rewrite existsb_app.
    apply orb_true_iff in Hk as [Hk|Hk]; [|rewrite (IH k ot Hk Ht); apply orb_true_r].
    apply andb_true_iff in Hk as [Ejk Hp]. destruct p; try discriminate. destruct o as [v|]; [|discriminate].
    cbn [present app existsb]. apply N.eqb_eq in Ejk. subst. rewrite N.eqb_refl. reflexivity.
  Qed.

  Lemma required_ok rfs fs l : required_are_req rfs fs = true -> wfv_kl fs l = true -> required_written rfs (written_keys fs l) = true.
  Proof.
    unfold required_are_req, required_written. intros H Hv. eapply forallb_mono; [|exact H].
    intros [[k req] r] Hx. apply orb_true_iff in Hx as [Hx|Hx]; [rewrite Hx; reflexivity|].
    rewrite (req_written fs k l Hx Hv). apply orb_true_r.
  Qed.

  Lemma cv_forallb2 k rk v' rv l :
    (forall kv, In kv l -> cv k rk (fst kv) /\ cv v' rv (snd kv)) ->
    exists g, forallb (fun kv : val * val => conforms e g k rk (fst kv) && conforms e g v' rv (snd kv)) l = true.
  Proof.
    induction l as [|x t IH]; intros H; [exists O; reflexivity|].
    destruct (H x (or_introl eq_refl)) as [[g1 G1] [g2 G2]]. destruct (IH (fun y Hy => H y (or_intror Hy))) as [g3 G3].
    assert (L1 : (g1 <= Nat.max g1 (Nat.max g2 g3))%nat) by lia.
    assert (L2 : (g2 <= Nat.max g1 (Nat.max g2 g3))%nat) by lia.
    assert (L3 : (g3 <= Nat.max g1 (Nat.max g2 g3))%nat) by lia.
    exists (Nat.max g1 (Nat.max g2 g3)). cbn [forallb].
    rewrite (conforms_fuel_mono e g1 _ _ _ _ L1 G1), (conforms_fuel_mono e g2 _ _ _ _ L2 G2). cbn [andb].
    eapply forallb_mono; [|exact G3]. intros y Hy. apply andb_true_iff in Hy as [Y1 Y2].
    rewrite (conforms_fuel_mono e g3 _ _ _ _ L3 Y1), (conforms_fuel_mono e g3 _ _ _ _ L3 Y2). reflexivity.
  Qed.

  Definition sound_at (f : nat) : Prop :=
    forall s r, refines e f s r = true -> wfs s = true -> forall v, wfv s v = true -> cv s r v.

  (* the rows of conf_struct used below, as equations (so that no proof step has to unfold the whole match) *)
  Lemma cs_uu rec lim lo hi n : conf_struct rec (SUint lim) (RUint lo hi) (VNat n) = in_range lo hi n.  Proof. reflexivity. Qed.
  Lemma cs_ui rec lim lo hi n : conf_struct rec (SUint lim) (RInt lo hi) (VNat n) = in_rangeZ lo hi (Z.of_N n).  Proof. reflexivity. Qed.
  Lemma cs_nn rec lo hi n : conf_struct rec SNint (RNint lo hi) (VNeg n) = in_range lo hi n.  Proof. reflexivity. Qed.
  Lemma cs_ni rec lo hi n : conf_struct rec SNint (RInt lo hi) (VNeg n) = in_rangeZ lo hi (- 1 - Z.of_N n)%Z.  Proof. reflexivity. Qed.
  Lemma cs_bb rec lo hi lo' hi' b : conf_struct rec (SBytes lo hi) (RBytes lo' hi') (VBytes b) = in_range lo' hi' (len b).  Proof. reflexivity. Qed.
  Lemma cs_tt rec hi lo' hi' b : conf_struct rec (SText hi) (RText lo' hi') (VText b) = in_range lo' hi' (len b).  Proof. reflexivity. Qed.
  Lemma cs_bool rec b : conf_struct rec SBool RBool (VBool b) = true.  Proof. reflexivity. Qed.
  Lemma cs_bbytes rec b : conf_struct rec SBBytes RBBytes (VBytes b) = true.  Proof. reflexivity. Qed.
  Lemma cs_arr rec fs rs l : conf_struct rec (SArr fs) (RArr rs) (VList l) = conf_sl rec fs rs l.  Proof. reflexivity. Qed.
  Lemma cs_map rec fs rfs l : conf_struct rec (SMap fs) (RMap rfs) (VStruct l) = conf_kl rec fs rfs l && required_written rfs (written_keys fs l).
  Proof. reflexivity. Qed.
  Lemma cs_arrof rec lo s' lo' r' l : conf_struct rec (SArrOf lo s') (RArrOf lo' r') (VList l) = (lo' <=? len l) && forallb (rec s' r') l.
  Proof. reflexivity. Qed.
  Lemma cs_setof rec s' lo' r' l : conf_struct rec (SSetOf s') (RSet lo' r') (VList l) = (lo' <=? len l) && forallb (rec s' r') l.
  Proof. reflexivity. Qed.
  Lemma cs_mapof rec lo ord k v' lo' rk rv l : conf_struct rec (SMapOf lo ord k v') (RMapOf lo' rk rv) (VMap l) =
    (lo' <=? len l) && forallb (fun kv => rec k rk (fst kv) && rec v' rv (snd kv)) l &&
    (match ord with KMulti => nodupb (map (fun kv => enc k (fst kv)) l) | _ => true end).
  Proof. reflexivity. Qed.
  Lemma cs_inbytes rec s' r' v : conf_struct rec (SInBytes s') (RCborIn r') v = rec s' r' v.  Proof. reflexivity. Qed.

  Lemma struct_mapof f lo ord ks vs lo' rk rv v : sound_at f ->
    (lo' <=? lo) && match ord with KMulti => false | _ => true end && refines e f ks rk && refines e f vs rv = true ->
    wfs (SMapOf lo ord ks vs) = true -> wfv (SMapOf lo ord ks vs) v = true -> cv (SMapOf lo ord ks vs) (RMapOf lo' rk rv) v.
  Proof.
    intros IH Hr Hs Hv. destruct v as [| | | | | | | | |l|]; try discriminate. cbn [wfs wfv] in *. split_ands.
    match goal with H : forallb (fun kv => wfv ks (fst kv) && wfv vs (snd kv)) l = true |- _ => rename H into Hall end.
    destruct (cv_forallb2 ks rk vs rv l) as [g G].
    { intros kv Hkv. pose proof (forallb_In _ _ _ Hall Hkv) as W. cbv beta in W. apply andb_true_iff in W as [W1 W2].
      split; apply IH; assumption. }
    apply (cv_struct g); [reflexivity|reflexivity|]. rewrite cs_mapof, G. unfold len.
    assert (Hlo : (lo' <=? N.of_nat (length l)) = true) by lia. rewrite Hlo.
    destruct ord; try discriminate; reflexivity.
  Qed.

  Definition sgoal (f : nat) (s : schema) : Prop := forall r v, plain r = true ->
    ref_struct (refines e f) s r = true -> wfs s = true -> wfv s v = true -> cv s r v.

  Lemma ss_uint f lim : sgoal f (SUint lim).
  Proof.
    intros r v Hp Hr Hs Hv. destruct v; try discriminate. destruct r; try discriminate Hr; cbn [ref_struct] in Hr; cbn [wfv] in Hv;
      (apply (cv_struct O); [reflexivity|reflexivity|]).
    - rewrite cs_uu. unfold in_range. lia.
    - rewrite cs_ui. unfold in_rangeZ. lia.
  Qed.
  Lemma ss_nint f : sgoal f SNint.
  Proof.
    intros r v Hp Hr Hs Hv. destruct v; try discriminate.
    assert (E1 : max64 = 18446744073709551615) by reflexivity.
    assert (E2 : two64 = 18446744073709551616) by reflexivity.
    assert (Hn : n < two64) by (cbn [wfv] in Hv; apply N.ltb_lt; exact Hv). clear Hv.
    destruct r; try discriminate Hr.
    - (* RNint *) assert (Hr' : (lo =? 0) && (max64 <=? hi) = true) by exact Hr. clear Hr.
      apply (cv_struct O); [reflexivity|reflexivity|]. rewrite cs_nn. unfold in_range.
      apply andb_true_iff in Hr' as [A B]. apply N.eqb_eq in A. apply N.leb_le in B.
      apply andb_true_iff. split; [apply N.leb_le; lia|apply N.leb_le; lia].
    - (* RInt *) assert (Hr' : ((lo <=? - 18446744073709551616) && (- 1 <=? hi))%Z = true) by exact Hr. clear Hr.
      apply (cv_struct O); [reflexivity|reflexivity|]. rewrite cs_ni. unfold in_rangeZ.
      apply andb_true_iff in Hr' as [A B]. apply Z.leb_le in A. apply Z.leb_le in B.
      apply andb_true_iff. split; [apply Z.leb_le; lia|apply Z.leb_le; lia].
  Qed.
  Lemma ss_bytes f lo hi : sgoal f (SBytes lo hi).
  Proof.
    intros r v Hp Hr Hs Hv. destruct v; try discriminate. destruct r; try discriminate Hr; cbn [ref_struct] in Hr; cbn [wfv] in Hv.
    apply (cv_struct O); [reflexivity|reflexivity|]. rewrite cs_bb. unfold in_range, len. split_ands. lia.
  Qed.
  Lemma ss_text f hi : sgoal f (SText hi).
  Proof.
    intros r v Hp Hr Hs Hv. destruct v; try discriminate. destruct r; try discriminate Hr; cbn [ref_struct] in Hr; cbn [wfv] in Hv.
    apply (cv_struct O); [reflexivity|reflexivity|]. rewrite cs_tt. unfold in_range, len. split_ands. lia.
  Qed.
  Lemma ss_bool f : sgoal f SBool.
  Proof.
    intros r v Hp Hr Hs Hv. destruct v; try discriminate. destruct r; try discriminate Hr.
    apply (cv_struct O); [reflexivity|reflexivity|]. apply cs_bool.
  Qed.
  Lemma ss_bbytes f : sgoal f SBBytes.
  Proof.
    intros r v Hp Hr Hs Hv. destruct v; try discriminate. destruct r; try discriminate Hr.
    apply (cv_struct O); [reflexivity|reflexivity|]. apply cs_bbytes.
  Qed.
  Lemma ss_arr f fs : sound_at f -> sgoal f (SArr fs).
  Proof.
    intros IH r v Hp Hr Hs Hv.
    assert (IH' : forall s r v, refines e f s r = true -> wfs s = true -> wfv s v = true -> cv s r v)
      by (intros s0 r0 v0 A B C; exact (IH s0 r0 A B v0 C)).
    destruct v; try discriminate. destruct r; try discriminate Hr; cbn [ref_struct] in Hr. cbn [wfs wfv] in *. split_ands.
    destruct (cv_sl (refines e f) fs fs0 l IH' Hr ltac:(assumption) Hv) as [g G].
    apply (cv_struct g); [reflexivity|reflexivity|]. rewrite cs_arr. exact G.
  Qed.
  Lemma ss_map f fs : sound_at f -> sgoal f (SMap fs).
  Proof.
    intros IH r v Hp Hr Hs Hv.
    assert (IH' : forall s r v, refines e f s r = true -> wfs s = true -> wfv s v = true -> cv s r v)
      by (intros s0 r0 v0 A B C; exact (IH s0 r0 A B v0 C)).
    destruct v; try discriminate. destruct r; try discriminate Hr; cbn [ref_struct] in Hr. cbn [wfs wfv] in *. split_ands.
    destruct (cv_kl (refines e f) fs fs0 l IH' ltac:(assumption) ltac:(assumption) Hv) as [g G].
    apply (cv_struct g); [reflexivity|reflexivity|]. rewrite cs_map, G. apply required_ok; assumption.
  Qed.
  Lemma ss_arrof f lo s : sound_at f -> sgoal f (SArrOf lo s).
  Proof.
    intros IH r v Hp Hr Hs Hv. destruct v; try discriminate. destruct r; try discriminate Hr; cbn [ref_struct] in Hr.
    cbn [wfs wfv] in *. split_ands.
    destruct (cv_forallb s r l) as [g G]. { intros x Hx. apply IH; try assumption. eapply forallb_In; eassumption. }
    apply (cv_struct g); [reflexivity|reflexivity|]. rewrite cs_arrof, G. unfold len. apply andb_true_iff. split; [lia|reflexivity].
  Qed.
  Lemma ss_setof f s : sound_at f -> sgoal f (SSetOf s).
  Proof.
    intros IH r v Hp Hr Hs Hv. destruct v; try discriminate. destruct r; try discriminate Hr; cbn [ref_struct] in Hr.
    cbn [wfs wfv] in *. split_ands.
    destruct (cv_forallb s r l) as [g G]. { intros x Hx. apply IH; try assumption. eapply forallb_In; eassumption. }
    apply (cv_struct g); [reflexivity|reflexivity|]. rewrite cs_setof, G. unfold len. apply andb_true_iff. split; [lia|reflexivity].
  Qed.
  Lemma ss_mapof f lo ord ks vs : sound_at f -> sgoal f (SMapOf lo ord ks vs).
  Proof.
    intros IH r v Hp Hr Hs Hv. destruct r; try discriminate Hr; cbn [ref_struct] in Hr. eapply struct_mapof; eassumption.
  Qed.
  Lemma ss_tag f t s : sound_at f -> sgoal f (STag t s).
  Proof.
    intros IH r v Hp Hr Hs Hv. destruct r; try discriminate Hr; cbn [ref_struct] in Hr. cbn [wfs wfv] in *. split_ands.
    destruct (IH s r ltac:(assumption) ltac:(assumption) v Hv) as [g G].
    apply (cv_struct g); [reflexivity|reflexivity|]. rewrite conf_struct_tag, G. apply andb_true_iff. split; [assumption|reflexivity].
  Qed.
  Lemma ss_inbytes f s : sound_at f -> sgoal f (SInBytes s).
  Proof.
    intros IH r v Hp Hr Hs Hv. destruct r; try discriminate Hr; cbn [ref_struct] in Hr. cbn [wfs wfv] in *. split_ands.
    destruct (IH s r Hr ltac:(assumption) v ltac:(assumption)) as [g G].
    apply (cv_struct g); [reflexivity|reflexivity|]. rewrite cs_inbytes. exact G.
  Qed.

  Lemma struct_sound f : sound_at f -> forall s r v, transparent s = false -> plain r = true ->
    ref_struct (refines e f) s r = true -> wfs s = true -> wfv s v = true -> cv s r v.
  Proof.
    intros IH s r v Ht Hp Hr Hs Hv. destruct s; try discriminate Ht.
    - exact (ss_uint f lim r v Hp Hr Hs Hv).
    - exact (ss_nint f r v Hp Hr Hs Hv).
    - exact (ss_bytes f lo hi r v Hp Hr Hs Hv).
    - exact (ss_text f hi r v Hp Hr Hs Hv).
    - exact (ss_bool f r v Hp Hr Hs Hv).
    - exact (ss_arr f fs IH r v Hp Hr Hs Hv).
    - exact (ss_map f fs IH r v Hp Hr Hs Hv).
    - (* SVar: only through a choice *) destruct r; discriminate Hr.
    - exact (ss_arrof f lo s IH r v Hp Hr Hs Hv).
    - exact (ss_setof f s IH r v Hp Hr Hs Hv).
    - exact (ss_mapof f lo ord s1 s2 IH r v Hp Hr Hs Hv).
    - (* SNullable *) destruct r; discriminate Hr.
    - exact (ss_tag f t s IH r v Hp Hr Hs Hv).
    - exact (ss_inbytes f s IH r v Hp Hr Hs Hv).
    - (* STagChoice *) destruct r; discriminate Hr.
    - (* SArrAny *) destruct r; discriminate Hr.
    - exact (ss_bbytes f r v Hp Hr Hs Hv).
    - (* SArrOpt *) destruct r; discriminate Hr.
  Qed.

  Lemma cs_tagchoice rec alts u r' i v : conf_struct rec (STagChoice alts) (RTag u r') (VAlt i v) =
    match cnth alts i with Some (d, s') => (d =? u) && rec s' r' v | None => false end.
  Proof. reflexivity. Qed.
  Lemma cs_var rec alts r0 rs i l : conf_struct rec (SVar alts) (RArr (r0 :: rs)) (VVar i l) =
    match vnth alts i with Some (idx, fs) => rec (SUint (idx + 1)) r0 (VNat idx) && conf_sl rec fs rs l | None => false end.
  Proof. reflexivity. Qed.
  Lemma cs_null rec s' : conf_struct rec (SNullable s') RNull VNull = true.  Proof. reflexivity. Qed.

  Lemma step_sound f : sound_at f -> sound_at (S f).
  Proof.
    intros IH s r Hr Hs v Hv. change (refines_body e (refines e f) s r = true) in Hr.
    assert (IH' : forall s r v, refines e f s r = true -> wfs s = true -> wfv s v = true -> cv s r v)
      by (intros s0 r0 v0 A B C; exact (IH s0 r0 A B v0 C)).
    destruct (transparent s) eqn:Ht.
    - destruct s; try discriminate Ht; cbn [refines_body] in Hr.
      + (* SChoice *) destruct v as [| | | | | | | | | |i v']; try discriminate. cbn [wfs wfv] in *.
        destruct (wfv_cl_nth alts i v' Hv) as (d & s' & En & Hv').
        apply (cv_choice alts i d s' r v' En). apply IH; [exact (all_cl_nth _ alts i d s' Hr En)|exact (wfs_cl_nth false alts i d s' Hs En)|exact Hv'].
      + (* SNamed *) cbn [wfs wfv] in *. apply cv_named. apply IH; assumption.
    - assert (Hb : refines_body e (refines e f) s r =
                   match r with
                   | RRef id => match lookup e id with Some r' => refines e f s r' | None => false end
                   | RChoice ralts =>
                       match s with
                       | SVar alts => all_vl (fun idx fs => existsb (ref_alt (refines e f) idx fs) ralts) alts
                       | SNullable s' => negb (transparent s') && existsb is_null ralts && refines e f s' r
                       | STagChoice alts =>
                           all_cl (fun d s' => existsb (fun a => match a with RTag u r' => (d =? u) && refines e f s' r' | _ => false end) ralts) alts
                       | _ => existsb (fun a => refines e f s a) ralts
                       end
                   | _ => ref_struct (refines e f) s r
                   end) by (destruct s; try discriminate Ht; reflexivity).
      rewrite Hb in Hr. clear Hb. destruct (plain r) eqn:Hp.
      + apply (struct_sound f IH s r v Ht Hp); [|exact Hs|exact Hv]. destruct r; try discriminate Hp; exact Hr.
      + destruct r; try discriminate Hp.
        * (* RChoice *)
          assert (Gen : existsb (fun a => refines e f s a) alts = true -> cv s (RChoice alts) v).
          { intros Hx. apply existsb_exists in Hx as (a & Hin & Ha). apply (cv_rchoice s alts a v Ht Hin). apply IH; assumption. }
          destruct s; try discriminate Ht; try (apply Gen; exact Hr).
          -- (* SVar *) destruct v as [| | | | | | | |i l| |]; try discriminate. cbn [wfs wfv] in *.
             destruct (wfv_vl_nth alts0 i l Hv) as (idx & fs & En & Hvl).
             pose proof (all_vl_nth _ alts0 i idx fs Hr En) as Hx. cbv beta in Hx.
             apply existsb_exists in Hx as (a & Hin & Ha). apply (cv_rchoice (SVar alts0) alts a _ Ht Hin).
             unfold ref_alt in Ha. destruct a; try discriminate. destruct fs0 as [|r0 rs]; try discriminate. destruct r0; try discriminate.
             apply andb_true_iff in Ha as [Hin_r Hsl].
             destruct (cv_sl (refines e f) fs rs l IH' Hsl (wfs_vl_nth alts0 i idx fs Hs En) Hvl) as [g G].
             apply (cv_struct (S g)); [reflexivity|reflexivity|]. rewrite cs_var, En.
             apply andb_true_iff. split.
             ++ cbn [conforms]. rewrite conf_body_nt by reflexivity. rewrite cs_uu. exact Hin_r.
             ++ eapply conf_sl_mono; [|exact G]. intros s0 r0 v0. apply conforms_fuel_mono. lia.
          -- (* SNullable *) cbn [wfs] in Hs. apply andb_true_iff in Hs as [Hs' _].
             apply andb_true_iff in Hr as [Hr1 Hr2]. apply andb_true_iff in Hr1 as [Hnt Hnull]. apply negb_true_iff in Hnt.
             destruct (match v with VNull => true | _ => false end) eqn:Ev.
             ++ (* VNull *) destruct v; try discriminate Ev.
                apply existsb_exists in Hnull as (a & Hin & Ha). destruct a; try discriminate.
                apply (cv_rchoice (SNullable s) alts RNull VNull eq_refl Hin). apply (cv_struct O); [reflexivity|reflexivity|]. apply cs_null.
             ++ assert (Hnn : v <> VNull) by (intros ->; discriminate Ev).
                assert (Hv' : wfv s v = true) by (destruct v; try exact Hv; discriminate Ev).
                destruct (IH s (RChoice alts) Hr2 Hs' v Hv') as [g G]. exact (nn_lift s Hnt g _ v Hnn G).
          -- (* STagChoice *) destruct v as [| | | | | | | | | |i v']; try discriminate. cbn [wfs wfv] in *.
             destruct (wfv_cl_nth alts0 i v' Hv) as (d & s' & En & Hv').
             pose proof (all_cl_nth _ alts0 i d s' Hr En) as Hx. cbv beta in Hx.
             apply existsb_exists in Hx as (a & Hin & Ha). destruct a; try discriminate. apply andb_true_iff in Ha as [Ed Hra].
             apply (cv_rchoice (STagChoice alts0) alts (RTag t a) _ eq_refl Hin).
             destruct (IH s' a Hra (wfs_cl_nth true alts0 i d s' Hs En) v' Hv') as [g G].
             apply (cv_struct g); [reflexivity|reflexivity|]. rewrite cs_tagchoice, En, G. apply andb_true_iff. split; [exact Ed|reflexivity].
        * (* RRef *) destruct (lookup e id) as [r'|] eqn:El; [|discriminate]. apply (cv_ref s id r' v Ht El). apply IH; assumption.
  Qed.

  Theorem refines_sound : forall f, sound_at f.
  Proof. induction f as [|f IH]; [intros s r H; discriminate|apply step_sound; exact IH]. Qed.
End Sound.
