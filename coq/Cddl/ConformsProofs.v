(* ONE generic soundness proof: a typed value that satisfies the Conway constraints (Conforms.conforms) has a CBOR
   tree that matches the rule (Validator.cddl_ok), for every schema, rule and value. *)
From CSL Require Import Base.Prelude Cbor.Head Cbor.HeadProofs Cbor.Item Cbor.ItemProofs Codec.Schema Codec.SchemaProofs
  Cddl.Rules Cddl.Validator Cddl.ValidatorProofs Cddl.ToItem Cddl.ToItemProofs Cddl.CanonProofs Cddl.ItemEq Cddl.Conforms.
Local Open Scope N_scope.

(* ---------- the i-th alternative ---------- *)
Lemma vnth_facts alts : forall i idx fs l,
  vnth alts i = Some (idx, fs) -> wfs_vl alts = true -> wfv_vl alts i l = true ->
  to_item_vl alts i l = IArray true (IUint idx :: to_items_sl fs l) /\ wfs_sl fs = true /\ wfv_sl fs l = true /\ idx < two64.
Proof.
  induction alts as [|j gs r IH]; intros i idx fs l Hn Hw Hv; [discriminate|].
  cbn [vnth wfs_vl wfv_vl to_item_vl] in *. split_ands. destruct i as [|i'].
  - injection Hn as <- <-. repeat split; try assumption. lia.
  - apply IH; assumption.
Qed.

Lemma cnth_facts alts : forall tagged i d s v,
  cnth alts i = Some (d, s) -> wfs_cl tagged alts = true -> wfv_cl alts i v = true ->
  to_item_cl tagged alts i v = (if tagged then ITag d (to_item s v) else to_item s v) /\ wfs s = true /\ wfv s v = true.
Proof.
  induction alts as [|e s0 r IH]; intros tagged i d s v Hn Hw Hv; [discriminate|].
  cbn [cnth wfs_cl wfv_cl to_item_cl] in *. split_ands. destruct i as [|i'].
  - injection Hn as <- <-. repeat split; assumption.
  - apply IH; assumption.
Qed.

(* ---------- key distinctness ---------- *)
Lemma bytes_ltb_irrefl a : bytes_ltb a a = false.
Proof.
  induction a as [|x t IH]; [reflexivity|]. cbn [bytes_ltb]. rewrite IH, N.eqb_refl.
  destruct (x <? x) eqn:E; [lia|reflexivity].
Qed.
Lemma bytes_ltb_trans a : forall b c, bytes_ltb a b = true -> bytes_ltb b c = true -> bytes_ltb a c = true.
Proof.
  induction a as [|x a IH]; intros b c H1 H2.
  - destruct b; [discriminate|]. destruct c; [discriminate|reflexivity].
  - destruct b as [|y b]; [discriminate|]. destruct c as [|z c]; [discriminate|].
    cbn [bytes_ltb] in *. apply orb_true_iff in H1. apply orb_true_iff in H2. apply orb_true_iff.
    destruct H1 as [H1|H1]; destruct H2 as [H2|H2].
    + left. lia.
    + apply andb_true_iff in H2 as [H2 _]. left. lia.
    + apply andb_true_iff in H1 as [H1 _]. left. lia.
    + apply andb_true_iff in H1 as [H1 H1']. apply andb_true_iff in H2 as [H2 H2']. right.
      apply andb_true_iff. split; [lia|]. eapply IH; eassumption.
Qed.

Lemma sortedb_lt_all x l : sortedb (x :: l) = true -> forall y, In y l -> bytes_ltb x y = true.
Proof.
  revert x. induction l as [|z t IH]; intros x H y Hy; [destruct Hy|].
  cbn [sortedb] in H. apply andb_true_iff in H as [H1 H2]. destruct Hy as [<-|Hy]; [exact H1|].
  eapply bytes_ltb_trans; [exact H1|]. apply IH; assumption.
Qed.

Lemma sortedb_tail x l : sortedb (x :: l) = true -> sortedb l = true.
Proof. destruct l as [|y t]; [reflexivity|]. cbn [sortedb]. intros H. apply andb_true_iff in H as [_ H]. exact H. Qed.

Lemma sortedb_nodupb l : sortedb l = true -> nodupb l = true.
Proof.
  induction l as [|x t IH]; intros H; [reflexivity|]. cbn [nodupb]. rewrite IH by (eapply sortedb_tail; exact H).
  rewrite andb_true_r. apply negb_true_iff.
  match goal with |- existsb ?f t = false => destruct (existsb f t) eqn:E; [|reflexivity] end.
  apply existsb_exists in E as (y & Hy & Hd). destruct (list_eq_dec N.eq_dec x y) as [->|]; [|discriminate].
  pose proof (sortedb_lt_all _ _ H y Hy) as L. rewrite bytes_ltb_irrefl in L. discriminate.
Qed.

Lemma nodupb_map_back (g : bytes -> bytes) (l : list bytes) : nodupb (map g l) = true -> nodupb l = true.
Proof.
  induction l as [|x t IH]; intros H; [reflexivity|]. cbn [map nodupb] in *. apply andb_true_iff in H as [H1 H2].
  rewrite IH by exact H2. rewrite andb_true_r. apply negb_true_iff. apply negb_true_iff in H1.
  match goal with |- existsb ?f t = false => destruct (existsb f t) eqn:E; [|reflexivity] end.
  apply existsb_exists in E as (y & Hy & Hd).
  destruct (list_eq_dec N.eq_dec x y) as [->|]; [|discriminate].
  assert (E2 : existsb (fun z => if list_eq_dec N.eq_dec (g y) z then true else false) (map g t) = true).
  { apply existsb_exists. exists (g y). split; [apply in_map; exact Hy|].
    destruct (list_eq_dec N.eq_dec (g y) (g y)); [reflexivity|contradiction]. }
  rewrite E2 in H1. discriminate.
Qed.

Lemma map_keys_nodupb ord (k : schema) (l : list (val * val)) :
  (match ord with
   | KInsertion => nodupb (map (fun kv => enc k (fst kv)) l)
   | KBytewise => sortedb (map (fun kv => enc k (fst kv)) l)
   | KRewardAddr => sortedb (map (fun kv => reward_sort_key (enc k (fst kv))) l)
   | KMulti => true
   end) = true ->
  (match ord with KMulti => nodupb (map (fun kv => enc k (fst kv)) l) | _ => true end) = true ->
  nodupb (map (fun kv => enc k (fst kv)) l) = true.
Proof.
  destruct ord; intros H H2; [exact H|apply sortedb_nodupb; exact H| |exact H2].
  apply (nodupb_map_back reward_sort_key). rewrite map_map. apply sortedb_nodupb. exact H.
Qed.

(* ---------- small facts about the item side ---------- *)
Lemma is_nil_map {A B} (f : A -> B) l : is_nil (map f l) = is_nil l.
Proof. destruct l; reflexivity. Qed.

Lemma chunk64_le64 fuel b : forallb (fun c : bytes => len c <=? 64) (chunk64 fuel b) = true.
Proof.
  apply forallb_forall. intros c Hc. pose proof (chunk64_bounds _ _ _ Hc). unfold len. lia.
Qed.

Lemma has_key_in (kvs : list (item * item)) k : In (IUint k) (map fst kvs) -> has_key kvs k = true.
Proof.
  intros H. unfold has_key. apply existsb_exists. apply in_map_iff in H as ((k0 & v0) & E & Hin). cbn [fst] in E.
  exists (k0, v0). split; [exact Hin|]. cbn [fst]. subst k0. cbn [item_eqb]. apply N.eqb_refl.
Qed.

(* ---------- the induction hypothesis, as an explicit premise ---------- *)
Definition sound_rel (C : schema -> rule -> val -> bool) (K : rule -> item -> bool) : Prop :=
  forall s r v, C s r v = true -> wfs s = true -> wfv s v = true -> K r (to_item s v) = true.

Lemma conf_sl_sound C K : sound_rel C K -> forall fs rs l,
  conf_sl C fs rs l = true -> wfs_sl fs = true -> wfv_sl fs l = true -> forall2b K rs (to_items_sl fs l) = true.
Proof.
  intros IH. induction fs as [|s t IHt]; intros rs l Hc Hs Hv.
  - destruct rs; destruct l; try discriminate. reflexivity.
  - destruct rs as [|r rt]; destruct l as [|v vt]; try discriminate.
    cbn [conf_sl wfs_sl wfv_sl to_items_sl forall2b] in *. split_ands.
    rewrite (IH s r v) by assumption. rewrite IHt by assumption. reflexivity.
Qed.

Lemma conf_sl_tail_sound C K : sound_rel C K -> forall fs rs l o x,
  conf_sl_tail C fs rs l o x = true -> wfs_sl fs = true -> wfv_sl fs l = true -> wfs o = true -> wfv o x = true ->
  forall2b K rs (to_items_sl fs l ++ [to_item o x]) = true.
Proof.
  intros IH. induction fs as [|s t IHt]; intros rs l o x Hc Hs Hv Ho Hx.
  - destruct rs as [|ro [|? ?]]; destruct l; try discriminate. cbn [conf_sl_tail to_items_sl app forall2b] in *.
    rewrite (IH o ro x) by assumption. reflexivity.
  - destruct rs as [|r rt]; destruct l as [|v vt]; try discriminate.
    cbn [conf_sl_tail wfs_sl wfv_sl to_items_sl app forall2b] in *. split_ands.
    rewrite (IH s r v) by assumption. rewrite IHt by assumption. reflexivity.
Qed.

Lemma forallb_conf_sound C K : sound_rel C K -> forall s r l,
  forallb (C s r) l = true -> wfs s = true -> forallb (wfv s) l = true -> forallb (K r) (map (to_item s) l) = true.
Proof.
  intros IH s r l Hc Hs Hv. rewrite forallb_map. apply forallb_in_true. intros x Hx.
  apply IH; [eapply forallb_In; eassumption|assumption|eapply forallb_In; eassumption].
Qed.

(* map-struct: keys written *)
Lemma pairs_keys fs : forall l, wfv_kl fs l = true -> map fst (to_pairs_kl fs l) = map IUint (written_keys fs l).
Proof.
  induction fs as [|k p s t IH]; intros l Hv; destruct l as [|o ot]; try discriminate; [reflexivity|].
  cbn [wfv_kl to_pairs_kl written_keys] in *. split_ands. rewrite !map_app. rewrite IH by assumption. f_equal.
  destruct o as [v|]; [|unfold present; reflexivity]. destruct (present p (Some v)); reflexivity.
Qed.

Lemma existsb_uint k ks : existsb (item_eqb (IUint k)) (map IUint ks) = existsb (N.eqb k) ks.
Proof. induction ks as [|j t IH]; [reflexivity|]. cbn [map existsb]. rewrite IH. reflexivity. Qed.

Lemma written_fresh fs : forall k l, key_fresh k fs = true -> existsb (N.eqb k) (written_keys fs l) = false.
Proof.
  induction fs as [|j p s t IH]; intros k l Hf; [destruct l; reflexivity|].
  destruct l as [|o ot]; [reflexivity|]. cbn [key_fresh written_keys] in *. apply andb_true_iff in Hf as [H1 H2].
  rewrite existsb_app, (IH k ot H2), orb_false_r. destruct (present p o); [|reflexivity].
  cbn [existsb]. apply negb_true_iff in H1. rewrite H1. reflexivity.
Qed.

Lemma written_nodup fs : forall l, keys_nodup fs = true -> items_nodup (map IUint (written_keys fs l)) = true.
Proof.
  induction fs as [|k p s t IH]; intros l Hk; [destruct l; reflexivity|].
  destruct l as [|o ot]; [reflexivity|]. cbn [keys_nodup written_keys] in *. split_ands.
  destruct (present p o); cbn [app map items_nodup]; [|apply IH; assumption].
  rewrite existsb_uint, written_fresh by assumption. rewrite IH by assumption. reflexivity.
Qed.

Lemma conf_kl_sound C K : sound_rel C K -> forall fs rfs l,
  conf_kl C fs rfs l = true -> wfs_kl fs = true -> wfv_kl fs l = true -> map_fields_ok K rfs (to_pairs_kl fs l) = true.
Proof.
  intros IH. unfold map_fields_ok. induction fs as [|k p s t IHt]; intros rfs l Hc Hs Hv.
  - destruct l; [reflexivity|discriminate].
  - destruct l as [|o ot]; [discriminate|]. cbn [conf_kl wfs_kl wfv_kl to_pairs_kl] in *. split_ands.
    rewrite forallb_app. rewrite IHt by assumption. rewrite andb_true_r.
    match goal with H : match o with Some _ => _ | None => _ end = true |- _ => rename H into Ho end.
    match goal with H : match o with Some _ => _ | None => _ end = true |- _ => rename H into Hw end.
    destruct o as [v|]; [|reflexivity]. destruct (present p (Some v)); [|reflexivity].
    cbn [forallb fst snd]. rewrite andb_true_r. split_ands.
    destruct (field_lookup rfs k) as [r|]; [|discriminate]. apply IH; assumption.
Qed.

Lemma required_sound rfs (kvs : list (item * item)) ks :
  map fst kvs = map IUint ks -> required_written rfs ks = true -> required_present rfs kvs = true.
Proof.
  intros E H. unfold required_written, required_present in *. eapply forallb_mono; [|exact H].
  intros [[k req] r] Hx. apply orb_true_iff in Hx as [Hx|Hx]; [rewrite Hx; reflexivity|].
  apply orb_true_iff. right. apply has_key_in. rewrite E. apply in_map.
  apply existsb_exists in Hx as (j & Hj & Ej). assert (k = j) by lia. subst j. exact Hj.
Qed.

(* ---------- structural cases, one lemma per schema constructor ---------- *)
(* destruct the variables a hypothesis matches on, dropping the impossible branches *)
Ltac case_hyp H :=
  repeat match type of H with
         | context [match ?x with _ => _ end] => is_var x; destruct x; try discriminate H
         end.

Definition step_goal (e : env) (C : schema -> rule -> val -> bool) (K : rule -> item -> bool) (s : schema) : Prop :=
  forall r v, conf_struct C s r v = true -> wfs s = true -> wfv s v = true -> cddl_body e K r (to_item s v) = true.

Lemma cs_uint e C K lim : step_goal e C K (SUint lim).
Proof. intros r v Hc _ _. unfold conf_struct in Hc. case_hyp Hc; exact Hc. Qed.

Lemma cs_nint e C K : step_goal e C K SNint.
Proof. intros r v Hc _ _. unfold conf_struct in Hc. case_hyp Hc; exact Hc. Qed.

Lemma cs_bytes e C K lo hi : step_goal e C K (SBytes lo hi).
Proof. intros r v Hc _ _. unfold conf_struct in Hc. case_hyp Hc; exact Hc. Qed.

Lemma cs_text e C K hi : step_goal e C K (SText hi).
Proof. intros r v Hc _ _. unfold conf_struct in Hc. case_hyp Hc; exact Hc. Qed.

Lemma cs_bool e C K : step_goal e C K SBool.
Proof. intros r v Hc _ _. unfold conf_struct in Hc. case_hyp Hc; destruct b; reflexivity. Qed.

Lemma cs_bbytes e C K : step_goal e C K SBBytes.
Proof.
  intros r v Hc _ Hv. unfold conf_struct in Hc. case_hyp Hc. cbn [to_item].
  destruct (N.of_nat (length b) <=? 64) eqn:E; cbn [cddl_body]; [exact E|apply chunk64_le64].
Qed.

Lemma cs_arr e C K fs : sound_rel C K -> step_goal e C K (SArr fs).
Proof.
  intros IH r v Hc Hs Hv. unfold conf_struct in Hc. case_hyp Hc. cbn [to_item cddl_body wfs wfv] in *. split_ands.
  eapply conf_sl_sound; eassumption.
Qed.

Lemma cs_map e C K fs : sound_rel C K -> step_goal e C K (SMap fs).
Proof.
  intros IH r v Hc Hs Hv. unfold conf_struct in Hc. case_hyp Hc. cbn [to_item cddl_body wfs wfv] in *. split_ands.
  rewrite (conf_kl_sound C K IH fs fs0 l) by assumption.
  rewrite (pairs_keys fs l) by assumption. rewrite written_nodup by assumption.
  rewrite (required_sound fs0 _ (written_keys fs l)); [reflexivity|apply pairs_keys; assumption|assumption].
Qed.

Lemma cs_var e C K alts : sound_rel C K -> step_goal e C K (SVar alts).
Proof.
  intros IH r v Hc Hs Hv. unfold conf_struct in Hc. case_hyp Hc.
  match type of Hv with
  | wfv _ (VVar ?i ?l) = true =>
    destruct (vnth alts i) as [[idx gs]|] eqn:En; [|discriminate]; cbn [wfs wfv to_item] in *;
    destruct (vnth_facts alts i idx gs l En Hs Hv) as (E & Hgs & Hgv & Hidx); rewrite E
  end.
  cbn [cddl_body forall2b]. apply andb_true_iff in Hc as [H0 Hl]. apply andb_true_iff. split.
  - match type of H0 with C _ ?r0 _ = true =>
      apply (IH (SUint (idx + 1)) r0 (VNat idx)); [exact H0|cbn [wfs]; lia|cbn [wfv]; lia] end.
  - eapply conf_sl_sound; eassumption.
Qed.

Lemma cs_arrof e C K lo s : sound_rel C K -> step_goal e C K (SArrOf lo s).
Proof.
  intros IH r v Hc Hs Hv. unfold conf_struct in Hc. case_hyp Hc. cbn [to_item cddl_body wfs wfv] in *. split_ands.
  rewrite len_map. unfold len in *. rw_hyps. cbn [andb]. eapply forallb_conf_sound; eassumption.
Qed.

Lemma cs_setof e C K s : sound_rel C K -> step_goal e C K (SSetOf s).
Proof.
  intros IH r v Hc Hs Hv. unfold conf_struct in Hc. case_hyp Hc. cbn [to_item cddl_body wfs wfv] in *. split_ands.
  change (258 =? 258) with true. rewrite len_map. unfold len in *. rw_hyps. cbn [andb].
  rewrite (forallb_conf_sound C K IH s r l) by assumption. cbn [andb].
  apply (nodup_items (to_item s) (enc s)); [|assumption].
  intros y Hy. apply to_item_enc. eapply forallb_In; eassumption.
Qed.

Lemma cs_mapof e C K lo ord k v' : sound_rel C K -> step_goal e C K (SMapOf lo ord k v').
Proof.
  intros IH r v Hc Hs Hv.
  (* keys are pairwise distinct: from the order invariant of wfv, or (KMulti) from the check conforms makes itself *)
  assert (Hkeys : forall lo' rk rv l, r = RMapOf lo' rk rv -> v = VMap l ->
                  nodupb (map (fun kv : val * val => enc k (fst kv)) l) = true).
  { intros lo' rk rv l -> ->. cbn [conf_struct wfv] in Hc, Hv. unfold conf_struct in Hc. split_ands.
    destruct ord; first [assumption | apply sortedb_nodupb; assumption
                        | apply (nodupb_map_back reward_sort_key); rewrite map_map; apply sortedb_nodupb; assumption]. }
  destruct r; try (unfold conf_struct in Hc; case_hyp Hc; discriminate Hc).
  destruct v as [| | | | | | | | |l|]; try (unfold conf_struct in Hc; case_hyp Hc; discriminate Hc).
  specialize (Hkeys lo0 r1 r2 l eq_refl eq_refl).
  assert (Hc' : (lo0 <=? len l) && forallb (fun kv => C k r1 (fst kv) && C v' r2 (snd kv)) l = true).
  { unfold conf_struct in Hc. apply andb_true_iff in Hc as [Hc _]. exact Hc. }
  clear Hc. cbn [to_item cddl_body wfs wfv] in *. split_ands.
  match goal with H : forallb (fun kv => wfv k (fst kv) && wfv v' (snd kv)) l = true |- _ => rename H into Hall end.
  match goal with H : forallb (fun kv => C k _ (fst kv) && C v' _ (snd kv)) l = true |- _ => rename H into Hcl end.
  rewrite len_map. unfold len in *. rw_hyps. cbn [andb]. rewrite forallb_map, map_map. cbn [fst snd].
  apply andb_true_iff. split.
  - apply forallb_in_true. intros [x y] Hx. cbn [fst snd].
    pose proof (forallb_In _ _ _ Hall Hx) as W. pose proof (forallb_In _ _ _ Hcl Hx) as Q. cbn [fst snd] in *. split_ands.
    rewrite (IH k r1 x), (IH v' r2 y) by assumption. reflexivity.
  - apply (nodup_items (fun kv : val * val => to_item k (fst kv)) (fun kv => enc k (fst kv))); [|exact Hkeys].
    intros [x y] Hx. cbn [fst]. apply to_item_enc. pose proof (forallb_In _ _ _ Hall Hx) as W. cbn [fst snd] in W. split_ands. assumption.
Qed.

Lemma cs_nullable e C K s : sound_rel C K -> rec_le K (cddl_body e K) -> step_goal e C K (SNullable s).
Proof.
  intros IH Hm r v Hc Hs Hv. cbn [wfs] in Hs. split_ands.
  destruct v; try (unfold conf_struct in Hc; case_hyp Hc; fail);
    try (assert (Hc' : C s r _ = true) by (unfold conf_struct in Hc; case_hyp Hc; exact Hc);
         cbn [to_item wfv] in *; apply Hm; apply IH; assumption).
  (* VNull *) unfold conf_struct in Hc. case_hyp Hc. reflexivity.
Qed.

Lemma cs_inbytes e C K s : sound_rel C K -> step_goal e C K (SInBytes s).
Proof.
  intros IH r v Hc Hs Hv. unfold conf_struct in Hc. case_hyp Hc. cbn [to_item cddl_body wfs wfv] in *. split_ands.
  rewrite parse_enc by assumption.
  destruct (enc_canonical s v ltac:(assumption) ltac:(assumption)) as (A & _). rewrite A. cbn [andb].
  apply IH; assumption.
Qed.

Lemma cs_tagchoice e C K alts : sound_rel C K -> step_goal e C K (STagChoice alts).
Proof.
  intros IH r v Hc Hs Hv. unfold conf_struct in Hc. case_hyp Hc.
  match type of Hv with
  | wfv _ (VAlt ?i ?v') = true =>
    destruct (cnth alts i) as [[d s']|] eqn:En; [|discriminate]; cbn [wfs wfv to_item] in *;
    destruct (cnth_facts alts true i d s' v' En Hs Hv) as (E & Hs' & Hv'); rewrite E
  end.
  cbn [cddl_body]. apply andb_true_iff in Hc as [H0 H1]. apply andb_true_iff. split; [lia|apply IH; assumption].
Qed.

Lemma cs_arrany e C K s : sound_rel C K -> step_goal e C K (SArrAny s).
Proof.
  intros IH r v Hc Hs Hv. cbn [wfs] in Hs. split_ands.
  destruct v as [| | | | | | | | | |i v]; try discriminate Hv.
  destruct i as [|[|i]]; destruct v as [| | | | | |l| | | |]; cbn [wfv] in Hv; try discriminate Hv;
    unfold conf_struct in Hc; case_hyp Hc; cbn [to_item cddl_body]; split_ands;
    rewrite is_nil_map, len_map; unfold len in *; rw_hyps; cbn [orb andb];
    eapply forallb_conf_sound; eassumption.
Qed.

Lemma cs_tag e C K t s0 : sound_rel C K -> step_goal e C K (STag t s0).
Proof.
  intros IH r v Hc Hs Hv. cbn [wfs] in Hs. apply andb_true_iff in Hs as [Ht Hs0]. cbn [wfv] in Hv.
  destruct r; try (unfold conf_struct in Hc; case_hyp Hc; fail).
  - (* RTag *) assert (Hc' : (t =? t0) && C s0 r v = true) by (unfold conf_struct in Hc; case_hyp Hc; exact Hc).
    apply andb_true_iff in Hc' as [E1 E2]. cbn [to_item cddl_body].
    replace (t0 =? t) with true by lia. cbn [andb]. exact (IH s0 r v E2 Hs0 Hv).
  - (* RSetAny *) unfold conf_struct in Hc. case_hyp Hc.
    + (* definite *) cbn [wfs wfv to_item cddl_body] in *. split_ands.
      rewrite is_nil_map, len_map. unfold len in *. rw_hyps. cbn [orb andb].
      replace (t =? 258) with true by lia. cbn [andb].
      match goal with Hf : forallb (C _ _) _ = true |- _ => rewrite (forallb_conf_sound C K IH _ _ _ Hf) by assumption end.
      cbn [andb]. match goal with Hn : nodupb _ = true |- _ => apply (nodup_items _ _ _ (fun y Hy => to_item_enc _ y (forallb_In _ _ _ ltac:(eassumption) Hy)) Hn) end.
    + (* indefinite *) cbn [wfs] in Hs0. match type of Hv with wfv _ (VAlt (S ?n) _) = true => destruct n; [|discriminate Hv] end.
      cbn [wfv to_item cddl_body] in *. split_ands.
      rewrite is_nil_map, len_map. unfold len in *. rw_hyps. cbn [orb andb].
      replace (t =? 258) with true by lia. cbn [andb].
      match goal with Hf : forallb (C _ _) _ = true |- _ => rewrite (forallb_conf_sound C K IH _ _ _ Hf) by assumption end.
      cbn [andb]. match goal with Hn : nodupb _ = true |- _ => apply (nodup_items _ _ _ (fun y Hy => to_item_enc _ y (forallb_In _ _ _ ltac:(eassumption) Hy)) Hn) end.
  - (* RRatio *) unfold conf_struct in Hc. case_hyp Hc. cbn [to_item to_items_sl cddl_body]. exact Hc.
Qed.

Lemma cs_arropt e C K fs o : sound_rel C K -> step_goal e C K (SArrOpt fs o).
Proof.
  intros IH r v Hc Hs Hv. cbn [wfs] in Hs. split_ands.
  destruct v as [| | | | | | | | | |i v]; try discriminate Hv.
  destruct i as [|[|i]]; destruct v as [| | | | | |l| | | |]; cbn [wfv] in Hv; try discriminate Hv.
  - unfold conf_struct in Hc. case_hyp Hc. cbn [to_item cddl_body]. eapply conf_sl_sound; eassumption.
  - destruct l as [|x l]; [discriminate Hv|]. split_ands. unfold conf_struct in Hc. case_hyp Hc.
    cbn [to_item cddl_body]. eapply conf_sl_tail_sound; eassumption.
Qed.

(* ---------- assembly ---------- *)
Lemma conf_struct_sound e C K : sound_rel C K -> rec_le K (cddl_body e K) -> forall s, step_goal e C K s.
Proof.
  intros IH Hm s. destruct s.
  - apply cs_uint. - apply cs_nint. - apply cs_bytes. - apply cs_text. - apply cs_bool.
  - apply cs_arr; assumption. - apply cs_map; assumption. - apply cs_var; assumption.
  - apply cs_arrof; assumption. - apply cs_setof; assumption. - apply cs_mapof; assumption.
  - apply cs_nullable; assumption. - apply cs_tag; assumption. - apply cs_inbytes; assumption.
  - (* SChoice: transparent, never structural *) intros r v Hc _ _. unfold conf_struct in Hc. case_hyp Hc; discriminate Hc.
  - apply cs_tagchoice; assumption. - apply cs_arrany; assumption. - apply cs_bbytes.
  - (* SNamed *) intros r v Hc _ _. unfold conf_struct in Hc. case_hyp Hc; discriminate Hc.
  - apply cs_arropt; assumption.
Qed.

Lemma conf_body_sound e C K : sound_rel C K -> rec_le K (cddl_body e K) ->
  forall s r v, conf_body e C s r v = true -> wfs s = true -> wfv s v = true -> cddl_body e K r (to_item s v) = true.
Proof.
  intros IH Hm s r v Hc Hs Hv.
  assert (Gen : forall s0, (match r with
                            | RRef id => match lookup e id with Some r' => C s0 r' v | None => false end
                            | RChoice ralts => existsb (fun a => C s0 a v) ralts
                            | _ => conf_struct C s0 r v
                            end) = true -> wfs s0 = true -> wfv s0 v = true -> cddl_body e K r (to_item s0 v) = true).
  { intros s0 H Hs0 Hv0. destruct r; try (apply (conf_struct_sound e C K IH Hm s0); assumption).
    - (* RChoice *) cbn [cddl_body]. eapply existsb_mono; [|exact H]. intros a Ha. apply IH; assumption.
    - (* RRef *) cbn [cddl_body]. destruct (lookup e id) as [r'|]; [|discriminate]. apply IH; assumption. }
  destruct s; try (apply Gen; assumption).
  - (* SChoice *) cbn [conf_body] in Hc. destruct v as [| | | | | | | | | |i v']; try discriminate.
    destruct (cnth alts i) as [[d s']|] eqn:En; [|discriminate]. cbn [wfs wfv to_item] in *.
    destruct (cnth_facts alts false i d s' v' En Hs Hv) as (E & Hs' & Hv'). rewrite E.
    apply Hm. apply IH; assumption.
  - (* SNamed *) cbn [conf_body wfs wfv to_item] in *. apply Hm. apply IH; assumption.
Qed.

Theorem conforms_sound e : forall fuel s r v,
  conforms e fuel s r v = true -> wfs s = true -> wfv s v = true -> cddl_ok e fuel r (to_item s v) = true.
Proof.
  induction fuel as [|f IH]; intros s r v Hc Hs Hv; [discriminate|].
  change (cddl_ok e (S f) r (to_item s v)) with (cddl_body e (cddl_ok e f) r (to_item s v)).
  exact (conf_body_sound e (conforms e f) (cddl_ok e f) IH (cddl_ok_S e f) s r v Hc Hs Hv).
Qed.

(* the full-strength statement in value-dependent form: every schema-valid typed value that satisfies the Conway
   constraints is emitted as bytes the independent validator accepts *)
Theorem conforms_bytes_sound e fuel s r v :
  wfs s = true -> wfv s v = true -> conforms e fuel s r v = true -> cddl_ok_bytes_fuel e fuel r (enc s v) = true.
Proof. intros Hs Hv Hc. rewrite bytes_of_tree by assumption. apply conforms_sound; assumption. Qed.
