(* C03, builder clause on add_change itself.  On C05's executable model of add_change_if_needed (Builder/Change.v, every
   branch, sizes and fees as an ARBITRARY oracle): if the outputs already in the builder and the total input carry no
   zero-quantity asset and no empty policy bundle, then after add_change - successful or failed (the Rust code mutates
   before it fails) - no output of the builder carries one.  So every output add_change appends, and the last output it
   tops up, is free of them.  One invariant carried through the model's monad. *)
From CSL Require Import Base.Prelude Base.U64 Num.Value Cddl.NoZeroAssets Deposits.Deposits Builder.Totals Builder.Change.
Local Open Scope N_scope.

Definition outputs_pos (s : state) : bool := forallb (fun x => value_pos (o_amount x)) (s_outputs s).
(* the total the change is computed from: explicit inputs + withdrawals + refunds + minted assets *)
Definition total_input_pos (s : state) : bool :=
  match get_total_input s with Ok t => value_pos t | _ => true end.

(* bundles may be empty here (an intermediate of the packing loop), quantities may not be zero *)
Definition ma_epos (m : multiasset) : bool := forallb (fun pa : bytes * assets => assets_pos (snd pa)) m.

Lemma ma_pos_epos m : ma_pos m = true -> ma_epos m = true.
Proof.
  unfold ma_pos, ma_epos. induction m as [|[p a] t IH]; [reflexivity|]. cbn [forallb snd]. intros H.
  apply andb_true_iff in H as [H1 H2]. rewrite (bundle_pos a H1), IH by exact H2. reflexivity.
Qed.

Lemma ma_entries_epos m : ma_epos m = true -> Forall (fun e : bytes * bytes * N => 1 <= snd e) (ma_entries m).
Proof.
  intros Hm. unfold ma_entries. apply Forall_forall. intros [[p n] q] Hin. cbn [snd].
  apply in_flat_map in Hin as ((p' & a) & Hpa & Hx). cbn [fst snd] in Hx.
  apply in_map_iff in Hx as ((n' & q') & E & Hnq). cbn [fst snd] in E. injection E as _ _ <-.
  pose proof (forallb_in _ _ _ Hm Hpa) as Hb. cbn [snd] in Hb.
  pose proof (forallb_in _ _ _ Hb Hnq) as Hq. cbn [snd] in Hq. lia.
Qed.

Lemma ma_checked_add_epos l r m : ma_epos l = true -> ma_epos r = true -> ma_checked_add l r = Ok m -> ma_pos m = true.
Proof.
  intros Hl Hr H. unfold ma_checked_add in H.
  apply (ma_add_entries_pos (ma_entries l ++ ma_entries r) ma_new m); [reflexivity| |exact H].
  apply Forall_app. split; apply ma_entries_epos; assumption.
Qed.

Definition value_epos (v : value) : bool := match multiasset_of v with Some m => ma_epos m | None => true end.
Lemma value_pos_epos v : value_pos v = true -> value_epos v = true.
Proof. unfold value_pos, value_epos. destruct (multiasset_of v); [apply ma_pos_epos|reflexivity]. Qed.

(* adding a value whose bundles may be empty to one that has a multiasset field: the sum is rebuilt entry by entry *)
Lemma value_checked_add_epos a b c : value_pos a = true -> value_epos b = true -> value_checked_add a b = Ok c ->
  multiasset_of a <> None -> value_pos c = true.
Proof.
  unfold value_pos, value_epos, value_checked_add. intros Ha Hb H Hs.
  destruct (u64_add (coin a) (coin b)) as [s| | |]; cbn [bind] in H; try discriminate.
  destruct (multiasset_of a) as [l|]; [|congruence]. destruct (multiasset_of b) as [r|]; cbn [bind] in H.
  - destruct (ma_checked_add l r) as [m| | |] eqn:E; cbn [bind] in H; try discriminate.
    injection H as <-. cbn [multiasset_of]. exact (ma_checked_add_epos l r m (ma_pos_epos l Ha) Hb E).
  - injection H as <-. exact Ha.
Qed.

Lemma value_checked_add_some a b c : value_checked_add a b = Ok c -> multiasset_of a <> None -> multiasset_of c <> None.
Proof.
  unfold value_checked_add. intros H Hs. destruct (u64_add (coin a) (coin b)); cbn [bind] in H; try discriminate.
  destruct (multiasset_of a) as [l|]; [|congruence]. destruct (multiasset_of b) as [r|]; cbn [bind] in H.
  - destruct (ma_checked_add l r); cbn [bind] in H; try discriminate. injection H as <-. discriminate.
  - injection H as <-. discriminate.
Qed.

Lemma ma_insert_epos p a m : ma_epos m = true -> assets_pos a = true -> ma_epos (ma_insert p a m) = true.
Proof. intros Hm Ha. unfold ma_epos, ma_insert. apply am_insert_forall; [intros k'; exact Ha|exact Hm]. Qed.

Lemma assets_insert_pos n q a : 1 <= q -> assets_pos a = true -> assets_pos (assets_insert n q a) = true.
Proof. intros Hq Ha. unfold assets_pos, assets_insert. apply am_insert_forall; [intros k'; cbn [snd]; lia|exact Ha]. Qed.

Section Inv.
  Context {O : Type}.
  Variable orc : @oracle O.

  (* everything add_change never writes: all fields except the outputs and the fee *)
  Definition rest (s : state) :=
    (s_cfg s, s_inputs s, s_fee_request s, s_certs s, s_withdrawals s, s_mint s, s_proposals s, s_donation s, s_treasury s).
  Variable R0 : (config * list (N * value) * fee_request * option (list cert) * option (list (N * N)) * option mint_map *
                 option (list N) * option N * option N)%type.
  Definition inv (s : state) : Prop := outputs_pos s = true /\ rest s = R0.
  (* the invariant survives the run (whatever its result); a normal result satisfies Q *)
  Definition keeps {A} (m : @M O A) (Q : A -> Prop) : Prop :=
    forall s o, inv s -> inv (out_st (m s o)) /\ (forall a, out_res (m s o) = Ok a -> Q a).

  Lemma keeps_ret {A} (a : A) (Q : A -> Prop) : Q a -> keeps (ret a) Q.
  Proof. intros H s o Hs. split; [exact Hs|]. cbn. intros a' E. injection E as <-. exact H. Qed.
  Lemma keeps_lift {A} (r : result A) (Q : A -> Prop) : (forall a, r = Ok a -> Q a) -> keeps (lift r) Q.
  Proof. intros H s o Hs. split; [exact Hs|]. cbn. exact H. Qed.
  Lemma keeps_weaken {A} (m : @M O A) (P Q : A -> Prop) : keeps m P -> (forall a, P a -> Q a) -> keeps m Q.
  Proof. intros H W s o Hs. destruct (H s o Hs) as [I R]. split; [exact I|]. intros a E. apply W, R, E. Qed.
  Lemma keeps_bind {A B} (m : @M O A) (f : A -> @M O B) (P : A -> Prop) (Q : B -> Prop) :
    keeps m P -> (forall a, P a -> keeps (f a) Q) -> keeps (bindM m f) Q.
  Proof.
    intros Hm Hf s o Hs. destruct (Hm s o Hs) as [I R]. unfold bindM.
    destruct (out_res (m s o)) as [a| | |] eqn:E; cbn; try (split; [exact I|discriminate]).
    exact (Hf a (R a eq_refl) _ _ I).
  Qed.
  Lemma keeps_get : keeps get (fun s => inv s).
  Proof. intros s o Hs. split; [exact Hs|]. cbn. intros a E. injection E as <-. exact Hs. Qed.
  Lemma keeps_put s' : inv s' -> keeps (put s') (fun _ => True).
  Proof. intros H s o _. split; [exact H|]. intros; exact I. Qed.
  Lemma keeps_modify (f : state -> state) : (forall s, inv s -> inv (f s)) -> keeps (modify f) (fun _ => True).
  Proof. intros H s o Hs. split; [apply H; exact Hs|]. intros; exact I. Qed.
  Lemma keeps_askF st : keeps (askF orc st) (fun _ => True).
  Proof. intros s o Hs. split; [exact Hs|]. intros; exact I. Qed.
  Lemma keeps_askA x : keeps (askA orc x) (fun _ => True).
  Proof. intros s o Hs. split; [exact Hs|]. intros; exact I. Qed.
  Lemma keeps_askS v : keeps (askS orc v) (fun _ => True).
  Proof. intros s o Hs. split; [exact Hs|]. intros; exact I. Qed.
  Lemma keeps_true {A} (m : @M O A) (Q : A -> Prop) : keeps m Q -> keeps m (fun _ => True).
  Proof. intros H. eapply keeps_weaken; [exact H|]. intros; exact I. Qed.

  Lemma inv_set_final_fee v s : inv s -> inv (set_final_fee v s).
  Proof. unfold inv, outputs_pos, rest, set_final_fee, set_s_fee. cbn. exact (fun H => H). Qed.
  Lemma inv_add s x : inv s -> value_pos (o_amount x) = true -> inv (set_s_outputs (s_outputs s ++ [x]) s).
  Proof.
    unfold inv, outputs_pos, rest. cbn. intros [H Hr] Hx. split; [|exact Hr]. rewrite forallb_app, H. cbn [forallb]. rewrite Hx. reflexivity.
  Qed.

  Ltac kb := eapply keeps_bind.

  Lemma k_min_fee_pub : keeps (min_fee_pub orc) (fun _ => True).
  Proof. unfold min_fee_pub. kb; [apply keeps_get|]. intros s _. kb; [apply keeps_askF|]. intros f _. apply keeps_ret. exact I. Qed.

  Lemma k_output_admissible x : keeps (output_admissible orc x) (fun _ => True).
  Proof.
    unfold output_admissible. kb; [apply keeps_askS|]. intros big _. destruct big; [apply keeps_lift; discriminate|].
    kb; [apply keeps_askA|]. intros m _. destruct (coin (o_amount x) <? m); [apply keeps_lift; discriminate|apply keeps_ret; exact I].
  Qed.

  (* add_output / fee_for_output first refuse a value with empty entries (Builder/Change.v output_acceptable, since the
     /repo fix "the builder drops zero quantities and asset-less policies of the amounts it is given") *)
  Lemma k_output_acceptable x : keeps (output_acceptable orc x) (fun _ => True).
  Proof.
    unfold output_acceptable. destruct (Num.ValueNorm.value_has_empty_entries (o_amount x));
      [apply keeps_lift; discriminate | apply k_output_admissible].
  Qed.

  Lemma k_add_output x : value_pos (o_amount x) = true -> keeps (add_output orc x) (fun _ => True).
  Proof.
    intros Hx. unfold add_output. kb; [apply k_output_acceptable|]. intros _ _.
    apply keeps_modify. intros s Hs. apply inv_add; assumption.
  Qed.

  Lemma k_fee_for_output x : keeps (fee_for_output orc x) (fun _ => True).
  Proof.
    unfold fee_for_output. kb; [apply keeps_get|]. intros s _. kb; [apply keeps_askF|]. intros f1 _.
    kb; [apply k_output_acceptable|]. intros _ _. kb; [apply keeps_askF|]. intros f2 _. apply keeps_lift. intros; exact I.
  Qed.

  Lemma k_unwrap_ma (m : option multiasset) (P : multiasset -> Prop) :
    (forall x, m = Some x -> P x) -> keeps (unwrap_ma m) P.
  Proof. intros H. destruct m as [x|]; [apply keeps_ret; apply H; reflexivity|apply keeps_lift; discriminate]. Qed.

  Lemma k_will_overflow v a p n q : keeps (will_adding_asset_make_output_overflow orc v a p n q) (fun _ => True).
  Proof.
    unfold will_adding_asset_make_output_overflow. kb; [apply keeps_lift; intros; exact I|]. intros c _.
    kb; [apply keeps_askA|]. intros m _. apply keeps_askS.
  Qed.

  (* ---- the packing loop ---- *)
  Definition acc_ok (a : pack_acc) : Prop :=
    value_pos (pa_output a) = true /\ multiasset_of (pa_output a) <> None /\
    value_pos (pa_old a) = true /\ multiasset_of (pa_old a) <> None /\
    ma_epos (pa_next a) = true /\ assets_pos (pa_rebuilt a) = true /\ Forall (fun m => ma_pos m = true) (pa_changes a).

  Lemma value_pos_set_ma_new c : value_pos (value_set_multiasset ma_new (value_new c)) = true.
  Proof. reflexivity. Qed.

  Lemma k_pack_policy_assets policy l : forall a, assets_pos l = true -> acc_ok a ->
    keeps (pack_policy_assets orc policy l a) acc_ok.
  Proof.
    induction l as [|[name q] r IH]; intros a Hl Ha; cbn [pack_policy_assets]; [apply keeps_ret; exact Ha|].
    unfold assets_pos in Hl. cbn [forallb snd] in Hl. apply andb_true_iff in Hl as [Hq Hr].
    kb; [apply k_will_overflow|]. intros ov _.
    destruct Ha as (A1 & A2 & A3 & A4 & A5 & A6 & A7).
    kb; [instantiate (1 := acc_ok)|].
    - destruct ov; [|apply keeps_ret; repeat split; assumption].
      kb; [apply keeps_lift; intros c E; exact E|]. intros c E. cbv beta in E.
      assert (Hc : value_pos c = true).
      { eapply value_checked_add_epos; [exact A1| |exact E|exact A2].
        unfold value_epos. cbn [multiasset_of value_set_multiasset value_new]. apply ma_insert_epos; assumption. }
      kb; [apply k_unwrap_ma; intros x Ex; exact Ex|]. intros m Em. cbv beta in Em.
      apply keeps_ret. unfold acc_ok. cbn [pa_output pa_old pa_next pa_rebuilt pa_changes].
      repeat split; try reflexivity; try discriminate.
      apply Forall_app. split; [exact A7|]. constructor; [|constructor]. unfold value_pos in Hc. rewrite Em in Hc. exact Hc.
    - intros a' (B1 & B2 & B3 & B4 & B5 & B6 & B7). apply IH; [exact Hr|].
      unfold acc_ok. cbn [pa_output pa_old pa_next pa_rebuilt pa_changes]. repeat split; try assumption.
      apply assets_insert_pos; [lia|exact B6].
  Qed.

  Definition pack_res_ok (r : value * list multiasset) : Prop :=
    value_pos (fst r) = true /\ multiasset_of (fst r) <> None /\ Forall (fun m => ma_pos m = true) (snd r).

  Lemma k_pack_policies l : forall v changes, ma_pos l = true -> value_pos v = true -> multiasset_of v <> None ->
    Forall (fun m => ma_pos m = true) changes -> keeps (pack_policies orc l v changes) pack_res_ok.
  Proof.
    induction l as [|[policy a0] r IH]; intros v changes Hl Hv Hs Hc; cbn [pack_policies];
      [apply keeps_ret; repeat split; assumption|].
    unfold ma_pos in Hl. cbn [forallb snd] in Hl. apply andb_true_iff in Hl as [Ha Hr].
    kb; [apply k_pack_policy_assets; [apply bundle_pos; exact Ha|repeat split; try assumption; reflexivity]|].
    intros a (A1 & A2 & A3 & A4 & A5 & A6 & A7).
    kb; [apply keeps_lift; intros c E; exact E|]. intros c E. cbv beta in E.
    assert (Hc' : value_pos c = true).
    { eapply value_checked_add_epos; [exact A1| |exact E|exact A2].
      unfold value_epos. cbn [multiasset_of value_set_multiasset value_new]. apply ma_insert_epos; assumption. }
    pose proof (value_checked_add_some _ _ _ E A2) as Hsome.
    kb; [apply keeps_askA|]. intros m _. kb; [apply keeps_askS|]. intros big _.
    destruct big; [apply keeps_ret; repeat split; assumption|]. apply IH; assumption.
  Qed.

  Lemma k_pack_nfts ce : value_pos ce = true ->
    keeps (pack_nfts_for_change orc ce) (fun l => Forall (fun m => ma_pos m = true) l).
  Proof.
    intros Hce. unfold pack_nfts_for_change. kb; [apply k_unwrap_ma; intros x Ex; exact Ex|]. intros ma Ema. cbv beta in Ema.
    kb; [apply k_pack_policies; [unfold value_pos in Hce; rewrite Ema in Hce; exact Hce|reflexivity|discriminate|constructor]|].
    intros r (R1 & R2 & R3). kb; [apply k_unwrap_ma; intros x Ex; exact Ex|]. intros last El. cbv beta in El.
    apply keeps_ret. apply Forall_app. split; [exact R3|]. constructor; [|constructor].
    unfold value_pos in R1. rewrite El in R1. exact R1.
  Qed.

  (* ---- the change outputs ---- *)
  Lemma k_change_outputs_loop addr extra l : forall cl fee, Forall (fun m => ma_pos m = true) l -> value_pos cl = true ->
    keeps (change_outputs_loop orc addr extra l cl fee) (fun r => value_pos (fst r) = true).
  Proof.
    induction l as [|nft r IH]; intros cl fee Hl Hcl; cbn [change_outputs_loop]; [apply keeps_ret; exact Hcl|].
    inversion Hl as [|? ? Hn Hr]; subst.
    kb; [apply keeps_askA|]. intros min_ada _. kb; [apply k_fee_for_output|]. intros ffc _.
    kb; [apply keeps_lift; intros; exact I|]. intros nf _. kb; [apply keeps_lift; intros; exact I|]. intros need _.
    destruct (coin cl <? need); [apply keeps_lift; discriminate|].
    kb; [apply keeps_lift; intros c E; exact E|]. intros cl' E. cbv beta in E.
    kb; [apply k_add_output; exact Hn|]. intros _ _.
    apply IH; [exact Hr|]. eapply value_checked_sub_pos; [exact Hcl|exact E].
  Qed.

  Lemma k_change_while_loop fuel addr extra : forall cl fee, value_pos cl = true ->
    keeps (change_while_loop orc fuel addr extra cl fee) (fun r => value_pos (fst r) = true).
  Proof.
    induction fuel as [|f IH]; intros cl fee Hcl; cbn [change_while_loop];
      destruct (change_has_assets_left cl); try (apply keeps_ret; exact Hcl); [apply keeps_lift; discriminate|].
    kb; [apply k_pack_nfts; exact Hcl|]. intros nfts Hn. cbv beta in Hn.
    destruct (existsb ma_positive nfts); [|apply keeps_lift; discriminate].
    kb; [apply k_change_outputs_loop; assumption|]. intros r Hr. cbv beta in Hr. apply IH. exact Hr.
  Qed.

  Lemma k_top_up_last cl : value_pos cl = true -> keeps (top_up_last orc cl) (fun _ => True).
  Proof.
    intros Hcl. unfold top_up_last. kb; [apply keeps_get|]. intros s Hs. cbv beta in Hs. destruct Hs as [Hs Hrest].
    destruct (rev (s_outputs s)) as [|last before] eqn:Er; [apply keeps_lift; discriminate|].
    assert (Hall : forallb (fun x => value_pos (o_amount x)) (last :: before) = true).
    { rewrite <- Er. unfold outputs_pos in Hs. apply forallb_forall. intros x Hx. apply in_rev in Hx.
      exact (forallb_in _ _ _ Hs Hx). }
    cbn [forallb] in Hall. apply andb_true_iff in Hall as [Hlast Hbefore].
    kb; [apply keeps_lift; intros c E; exact E|]. intros amount E. cbv beta in E.
    assert (Ham : value_pos amount = true) by (eapply value_checked_add_pos; [exact Hlast|exact Hcl|exact E]).
    kb; [apply keeps_put|intros _ _; apply k_output_admissible].
    unfold inv, outputs_pos, rest. cbn. split; [|exact Hrest]. rewrite forallb_app. cbn [forallb o_amount]. rewrite Ham.
    rewrite andb_true_r. apply forallb_forall. intros x Hx. apply in_rev in Hx. exact (forallb_in _ _ _ Hbefore Hx).
  Qed.

  Lemma k_check_fee : keeps (check_fee_after_change orc) (fun _ => True).
  Proof.
    unfold check_fee_after_change. kb; [apply keeps_get|]. intros s _.
    assert (G : keeps (match s_fee s with
                       | Some fee => bindM (askF orc s) (fun mf => if fee <? mf then lift Err else ret tt)
                       | None => ret tt end) (fun _ => True)).
    { destruct (s_fee s) as [fee|]; [|apply keeps_ret; exact I]. kb; [apply keeps_askF|]. intros mf _.
      destruct (fee <? mf); [apply keeps_lift; discriminate|apply keeps_ret; exact I]. }
    destruct (s_fee_request s); try exact G. apply keeps_ret. exact I.
  Qed.

  Lemma value_new_pos c : value_pos (value_new c) = true.  Proof. reflexivity. Qed.

  Lemma k_asset_branch fuel addr extra it ot fee : value_pos it = true ->
    keeps (asset_branch orc fuel addr extra it ot fee) (fun _ => True).
  Proof.
    intros Hit. unfold asset_branch. kb; [apply keeps_lift; intros c E; exact E|]. intros cl0 E0. cbv beta in E0.
    assert (H0 : value_pos cl0 = true) by (eapply value_checked_sub_pos; eassumption).
    kb; [apply keeps_askA|]. intros mu _. kb; [apply k_change_while_loop; exact H0|]. intros r Hr. cbv beta in Hr.
    kb; [apply keeps_lift; intros c E; exact E|]. intros cl1 E1. cbv beta in E1.
    assert (H1 : value_pos cl1 = true) by (eapply value_checked_sub_pos; eassumption).
    kb; [apply keeps_get|]. intros s _.
    kb; [instantiate (1 := fun r2 => value_pos (fst r2) = true)|].
    - destruct (c_prefer_pure_change (s_cfg s) && (mu <? coin cl1)); [|apply keeps_ret; exact H1].
      kb; [apply k_fee_for_output|]. intros af _. kb; [apply keeps_lift; intros c E; exact E|]. intros ppv Ep. cbv beta in Ep.
      assert (Hp : value_pos ppv = true) by (eapply value_checked_sub_pos; eassumption).
      destruct (mu <? coin ppv); [|apply keeps_ret; exact H1].
      kb; [apply keeps_lift; intros; exact I|]. intros nf _. kb; [apply k_add_output; exact Hp|]. intros _ _.
      apply keeps_ret. reflexivity.
    - intros r2 H2. cbv beta in H2. kb; [apply keeps_modify; intros s' Hs'; apply inv_set_final_fee; exact Hs'|]. intros _ _.
      kb; [instantiate (1 := fun _ => True); destruct (value_is_zero (fst r2)); [apply keeps_ret; exact I|apply k_top_up_last; exact H2]|]. intros _ _.
      kb; [apply k_check_fee|]. intros _ _. apply keeps_ret. exact I.
  Qed.

  Lemma k_burn_extra b : keeps (@burn_extra O b) (fun _ => True).
  Proof.
    unfold burn_extra. kb; [apply keeps_get|]. intros s _. destruct (c_do_not_burn_extra_change (s_cfg s)); [apply keeps_lift; discriminate|].
    destruct (s_fee_request s) as [| |f]; try (destruct (f <? b); [apply keeps_lift; discriminate|]);
      (kb; [apply keeps_modify; intros s' Hs'; apply inv_set_final_fee; exact Hs'|]; intros _ _; apply keeps_ret; exact I).
  Qed.

  Lemma k_pure_branch addr extra ce fee : value_pos ce = true -> keeps (pure_branch orc addr extra ce fee) (fun _ => True).
  Proof.
    intros Hce. unfold pure_branch. kb; [apply keeps_askA|]. intros ma _.
    destruct (coin ce <? ma); [apply k_burn_extra|].
    kb; [apply k_fee_for_output|]. intros ffc _. kb; [apply keeps_lift; intros; exact I|]. intros nf _.
    kb; [apply keeps_lift; intros; exact I|]. intros need _. destruct (coin ce <? need); [apply k_burn_extra|].
    kb; [apply keeps_modify; intros s' Hs'; apply inv_set_final_fee; exact Hs'|]. intros _ _.
    kb; [apply keeps_lift; intros c E; exact E|]. intros amount E. cbv beta in E.
    kb; [apply k_add_output; cbn [o_amount]; eapply value_checked_sub_pos; eassumption|]. intros _ _.
    kb; [apply k_check_fee|]. intros _ _. apply keeps_ret. exact I.
  Qed.

  Theorem add_change_keeps_inv fuel addr extra s o :
    inv s -> total_input_pos s = true -> inv (out_st (add_change orc fuel addr extra s o)).
  Proof.
    intros Hs Hti. unfold add_change.
    (* the first step reads the state: unfold it by hand so that the totals are those of [s] *)
    unfold bindM at 1. cbn [get out_res out_st out_orc].
    destruct (s_fee s); [exact Hs|].
    match goal with |- inv (out_st (?m s o)) => assert (K : keeps m (fun _ => True)); [|exact (proj1 (K s o Hs))] end.
    kb; [apply k_min_fee_pub|]. intros fee _.
    kb; [apply keeps_lift; intros c E; exact E|]. intros it Eit. cbv beta in Eit.
    assert (Hit : value_pos it = true) by (unfold total_input_pos in Hti; rewrite Eit in Hti; exact Hti).
    kb; [apply keeps_lift; intros; exact I|]. intros ot _.
    kb; [apply keeps_lift; intros; exact I|]. intros sh _. destruct sh; [apply keeps_lift; discriminate|].
    kb; [apply keeps_lift; intros; exact I|]. intros opf _.
    destruct (value_partial_cmp it opf) as [[| |]|]; try (apply keeps_lift; discriminate).
    - kb; [apply keeps_lift; intros; exact I|]. intros d _.
      kb; [apply keeps_modify; intros s' Hs'; apply inv_set_final_fee; exact Hs'|]. intros _ _. apply keeps_ret. exact I.
    - kb; [apply keeps_lift; intros c E; exact E|]. intros ce Ece. cbv beta in Ece.
      destruct (has_assets (multiasset_of ce)); [apply k_asset_branch; exact Hit|].
      apply k_pure_branch. eapply value_checked_sub_pos; eassumption.
  Qed.
End Inv.

(* the two readings of the invariant: no degenerate entry in any output, and nothing but outputs and fee is written *)
Theorem add_change_keeps_outputs_pos {O} (orc : @oracle O) fuel addr extra s o :
  outputs_pos s = true -> total_input_pos s = true ->
  outputs_pos (out_st (add_change orc fuel addr extra s o)) = true.
Proof. intros Hs Hti. exact (proj1 (add_change_keeps_inv orc (rest s) fuel addr extra s o (conj Hs eq_refl) Hti)). Qed.

Theorem add_change_frame {O} (orc : @oracle O) fuel addr extra s o :
  outputs_pos s = true -> total_input_pos s = true ->
  rest (out_st (add_change orc fuel addr extra s o)) = rest s.
Proof. intros Hs Hti. exact (proj2 (add_change_keeps_inv orc (rest s) fuel addr extra s o (conj Hs eq_refl) Hti)). Qed.
