(* The CBOR tree the schema encoder writes: [to_item s v] is the generic item (Cbor/Item.v) whose
   shortest-head printing is exactly [enc s v] (ToItemProofs.to_item_enc).  Definitions only.
   This is the bridge between the implementation model (Codec/Schema.v: bytes) and the CDDL
   validator (Cddl/Validator.v: trees). *)
From CSL Require Import Base.Prelude Cbor.Head Cbor.Item Codec.Schema Cddl.Rules.
Local Open Scope N_scope.

Definition junk : item := ISimple 23.

Fixpoint to_item (s : schema) (v : val) {struct s} : item :=
  match s, v with
  | SUint _, VNat n => IUint n
  | SNint, VNeg n => INint n
  | SBytes _ _, VBytes b => IBytes b
  | SText _, VText b => IText b
  | SBool, VBool b => ISimple (if b then 21 else 20)
  | SArr fs, VList l => IArray true (to_items_sl fs l)
  | SMap fs, VStruct l => IMap true (to_pairs_kl fs l)
  | SVar alts, VVar i l => to_item_vl alts i l
  | SArrOf _ s', VList l => IArray true (map (to_item s') l)
  | SSetOf s', VList l => ITag 258 (IArray true (map (to_item s') l))
  | SMapOf _ _ k v', VMap l => IMap true (map (fun kv => (to_item k (fst kv), to_item v' (snd kv))) l)
  | SNullable s', VNull => ISimple 22
  | SNullable s', v' => to_item s' v'
  | STag t s', v' => ITag t (to_item s' v')
  | SInBytes s', v' => IBytes (enc s' v')
  | SChoice alts, VAlt i v' => to_item_cl false alts i v'
  | STagChoice alts, VAlt i v' => to_item_cl true alts i v'
  | SArrAny s', VAlt O (VList l) => IArray true (map (to_item s') l)
  | SArrAny s', VAlt (S O) (VList l) => IArray false (map (to_item s') l)
  | SBBytes, VBytes b =>
      if N.of_nat (length b) <=? 64 then IBytes b else IBytesChunked (chunk64 (length b) b)
  | SNamed _ s', v' => to_item s' v'
  | SArrOpt fs o, VAlt O (VList l) => IArray true (to_items_sl fs l)
  | SArrOpt fs o, VAlt (S O) (VList (x :: l)) => IArray true (to_items_sl fs l ++ [to_item o x])
  | _, _ => junk
  end
with to_items_sl (fs : slist) (l : list val) {struct fs} : list item :=
  match fs, l with
  | SCons s r, v :: t => to_item s v :: to_items_sl r t
  | _, _ => []
  end
with to_pairs_kl (fs : klist) (l : list (option val)) {struct fs} : list (item * item) :=
  match fs, l with
  | KCons k p s r, o :: t =>
      (match o with
       | Some v => if present p o then [(IUint k, to_item s v)] else []
       | None => []
       end) ++ to_pairs_kl r t
  | _, _ => []
  end
with to_item_vl (alts : vlist) (i : nat) (l : list val) {struct alts} : item :=
  match alts with
  | ANil => junk
  | ACons idx fs r =>
      match i with
      | O => IArray true (IUint idx :: to_items_sl fs l)
      | S i' => to_item_vl r i' l
      end
  end
with to_item_cl (tagged : bool) (alts : clist) (i : nat) (v : val) {struct alts} : item :=
  match alts with
  | CNil => junk
  | CCons d s r =>
      match i with
      | O => if tagged then ITag d (to_item s v) else to_item s v
      | S i' => to_item_cl tagged r i' v
      end
  end.

(* the only sites where the encoder leaves the "definite length" discipline *)
Fixpoint no_indef_sites (s : schema) : bool :=
  match s with
  | SArr fs => nis_sl fs
  | SMap fs => nis_kl fs
  | SVar alts => nis_vl alts
  | SArrOf _ s' | SSetOf s' | SNullable s' | STag _ s' | SNamed _ s' => no_indef_sites s'
  | SInBytes _ => true            (* the inner encoding is an opaque byte string at this level *)
  | SMapOf _ _ k v => no_indef_sites k && no_indef_sites v
  | SChoice alts | STagChoice alts => nis_cl alts
  | SArrAny _ | SBBytes => false
  | SArrOpt fs o => nis_sl fs && no_indef_sites o
  | _ => true
  end
with nis_sl (fs : slist) : bool := match fs with SNil => true | SCons s r => no_indef_sites s && nis_sl r end
with nis_kl (fs : klist) : bool := match fs with KNil => true | KCons _ _ s r => no_indef_sites s && nis_kl r end
with nis_vl (alts : vlist) : bool := match alts with ANil => true | ACons _ fs r => nis_sl fs && nis_vl r end
with nis_cl (alts : clist) : bool := match alts with CNil => true | CCons _ s r => no_indef_sites s && nis_cl r end.

(* every set site of a value: written as #6.258 + definite array (by [to_item]) of pairwise distinct items *)
Fixpoint sets_emitted (s : schema) (v : val) {struct s} : bool :=
  match s, v with
  | SArr fs, VList l => se_sl fs l
  | SMap fs, VStruct l => se_kl fs l
  | SVar alts, VVar i l => se_vl alts i l
  | SArrOf _ s', VList l => forallb (sets_emitted s') l
  | SSetOf s', VList l =>
      match to_item (SSetOf s') (VList l) with
      | ITag 258 (IArray true xs) => items_nodup xs
      | _ => false
      end && forallb (sets_emitted s') l
  | SMapOf _ _ k v', VMap l => forallb (fun kv => sets_emitted k (fst kv) && sets_emitted v' (snd kv)) l
  | SNullable s', VNull => true
  | SNullable s', v' => sets_emitted s' v'
  | STag _ s', v' => sets_emitted s' v'
  | SInBytes s', v' => sets_emitted s' v'
  | SChoice alts, VAlt i v' => se_cl alts i v'
  | STagChoice alts, VAlt i v' => se_cl alts i v'
  | SArrAny s', VAlt _ (VList l) => forallb (sets_emitted s') l
  | SNamed _ s', v' => sets_emitted s' v'
  | SArrOpt fs o, VAlt O (VList l) => se_sl fs l
  | SArrOpt fs o, VAlt (S O) (VList (x :: l)) => se_sl fs l && sets_emitted o x
  | _, _ => true
  end
with se_sl (fs : slist) (l : list val) {struct fs} : bool :=
  match fs, l with
  | SCons s r, v :: t => sets_emitted s v && se_sl r t
  | _, _ => true
  end
with se_kl (fs : klist) (l : list (option val)) {struct fs} : bool :=
  match fs, l with
  | KCons _ _ s r, o :: t => (match o with Some v => sets_emitted s v | None => true end) && se_kl r t
  | _, _ => true
  end
with se_vl (alts : vlist) (i : nat) (l : list val) {struct alts} : bool :=
  match alts with
  | ANil => true
  | ACons _ fs r => match i with O => se_sl fs l | S i' => se_vl r i' l end
  end
with se_cl (alts : clist) (i : nat) (v : val) {struct alts} : bool :=
  match alts with
  | CNil => true
  | CCons _ s r => match i with O => sets_emitted s v | S i' => se_cl r i' v end
  end.
