(* Which Conway CDDL rule each implementation schema (Ledger/Schemas.v) is judged against.
   Order matters: the driver zips this list with its list of type names.
   A STAND-ALONE collection type (Certificates, Withdrawals, Mint, Vkeywitnesses, ...) may be empty: the CDDL's
   `nonempty_set` / `{+ ...}` / `[+ ...]` belongs to the FIELD that embeds it (the library omits the field when the
   collection is empty), so stand-alone the outermost lower bound is 0; the embedded rules (transaction_body,
   transaction_witness_set, value, ...) keep the CDDL's bounds. *)
From CSL Require Import Base.Prelude Cbor.Head Cbor.Item Codec.Schema Ledger.Schemas Cddl.Rules Cddl.ConwayCddl.
Local Open Scope N_scope.

Definition conway_pairs (d : nat) : list (schema * rule) := [
  (TransactionInput, transaction_input);
  (TransactionInputs, RSet 0 (RRef N_transaction_input));
  (Credential, credential);
  (Credentials, RSet 0 (RRef N_credential));
  (Ed25519KeyHashes, RSet 0 addr_keyhash);
  (DRep, drep);
  (Anchor, anchor);
  (UnitInterval, unit_interval);
  (Relay, relay);
  (Relays, RArrOf 0 relay);
  (PoolMetadata, pool_metadata);
  (ProtocolVersion, protocol_version);
  (ExUnits, ex_units);
  (ExUnitPrices, ex_unit_prices);
  (Certificate, certificate);
  (Certificates, RSet 0 (RRef N_certificate));
  (Assets, RMapOf 0 asset_name positive_coin);
  (MultiAsset, RMapOf 0 policy_id (RMapOf 1 asset_name positive_coin));
  (Value, value);
  (Mint, RMapOf 0 policy_id (RMapOf 1 asset_name nonZeroInt64));
  (Withdrawals, RMapOf 0 RRewardAccount coin);
  (Voter, voter);
  (GovernanceActionId, gov_action_id);
  (VotingProcedure, voting_procedure);
  (VotingProcedures, RMapOf 0 voter (RMapOf 1 gov_action_id voting_procedure));
  (Costmdls, cost_models);
  (PoolVotingThresholds, pool_voting_thresholds);
  (DRepVotingThresholds, drep_voting_thresholds);
  (ProtocolParamUpdate, protocol_param_update);
  (Constitution, constitution);
  (GovernanceAction, gov_action);
  (VotingProposal, proposal_procedure);
  (VotingProposals, RSet 0 proposal_procedure);
  (NativeScript d, native_script);
  (NativeScripts d, RArrOf 0 (RRef N_native_script));
  (PlutusScripts, RArrOf 0 plutus_script);
  (PlutusData d, plutus_data);
  (PlutusList d, RArrAny 0 (RRef N_plutus_data));
  (Redeemers d, redeemers);
  (Metadatum d, metadatum);
  (GeneralTransactionMetadata d, metadata);
  (AuxiliaryData d, auxiliary_data);
  (ScriptRef d, script_ref);
  (TransactionOutputLegacy, transaction_output);
  (TransactionOutputLegacyDH, transaction_output);
  (TransactionOutputMap d, transaction_output);
  (TransactionOutput d, transaction_output);
  (TransactionOutputs d, RArrOf 0 (RRef N_transaction_output));
  (TransactionBody d, transaction_body);
  (Vkeywitness, vkeywitness);
  (Vkeywitnesses, RSet 0 vkeywitness);
  (BootstrapWitness, bootstrap_witness);
  (BootstrapWitnesses, RSet 0 bootstrap_witness);
  (TransactionWitnessSet d, transaction_witness_set);
  (Transaction d, transaction);
  (IntS, r_int);
  (* block types: the library writes header bodies FLAT; HeaderBody (two VRF certificates, 15 items) is the pre-Babbage shape,
     HeaderBodyPraos (one VRF result, 14 items) is the shape of no era - see KnownClass.v *)
  (VRFCert, vrf_cert);
  (OperationalCert, operational_cert);
  (HeaderBody, RRef N_header_body);
  (Header, header);
  (HeaderBodyPraos, RRef N_header_body);
  (HeaderPraos, header);
  (Block d, block);
  (BlockPraos d, block)].
