(* The bridge: the schema encoder's bytes are the shortest-head printing of [to_item]. *)
From CSL Require Import Base.Prelude Cbor.Head Cbor.HeadProofs Cbor.Item Cbor.ItemProofs Codec.Schema Codec.SchemaProofs Cddl.ToItem.
Local Open Scope N_scope.

Lemma flat_map_map_concat {A} (f : A -> item) (e : A -> bytes) (l : list A) :
  (forall x, In x l -> encode_item (f x) = e x) ->
  flat_map encode_item (map f l) = concat (map e l).
Proof.
  induction l as [|x t IH]; intros H; [reflexivity|]. cbn [map flat_map concat].
  rewrite H by (left; reflexivity). rewrite IH by (intros y Hy; apply H; right; exact Hy). reflexivity.
Qed.

Lemma len_map {A B} (f : A -> B) l : len (map f l) = N.of_nat (length l).
Proof. unfold len. rewrite map_length. reflexivity. Qed.

Lemma len_cons {A} (x : A) l : len (x :: l) = 1 + len l.
Proof. unfold len. cbn [length]. lia. Qed.

Lemma len_app {A} (a b : list A) : len (a ++ b) = len a + len b.
Proof. unfold len. rewrite app_length. lia. Qed.

(* ---------- encode_item (to_item s v) = enc s v ---------- *)
Definition TE (s : schema) : Prop := forall v, wfv s v = true -> encode_item (to_item s v) = enc s v.
Definition TEs (fs : slist) : Prop := forall l, wfv_sl fs l = true ->
  flat_map encode_item (to_items_sl fs l) = enc_sl fs l /\ len (to_items_sl fs l) = slen fs.
Definition TEk (fs : klist) : Prop := forall l, wfv_kl fs l = true ->
  flat_map (fun kv : item * item => match kv with (k, v) => encode_item k ++ encode_item v end) (to_pairs_kl fs l) = enc_kl fs l /\
  len (to_pairs_kl fs l) = count_kl fs l.
Definition TEv (alts : vlist) : Prop := forall i l, wfv_vl alts i l = true ->
  encode_item (to_item_vl alts i l) = enc_vl alts i l.
Definition TEc (alts : clist) : Prop := forall tagged i v, wfv_cl alts i v = true ->
  encode_item (to_item_cl tagged alts i v) = enc_cl tagged alts i v.

Lemma to_item_enc_all : (forall s, TE s) /\ (forall fs, TEs fs) /\ (forall fs, TEk fs) /\ (forall a, TEv a) /\ (forall a, TEc a).
Proof.
  apply schema_mutind; unfold TE, TEs, TEk, TEv, TEc.
  - intros lim v Hv. destruct v; try discriminate. reflexivity.
  - intros v Hv. destruct v; try discriminate. reflexivity.
  - intros lo hi v Hv. destruct v; try discriminate. reflexivity.
  - intros hi v Hv. destruct v; try discriminate. reflexivity.
  - intros v Hv. destruct v; try discriminate. destruct b; reflexivity.
  - (* SArr *) intros fs IH v Hv. destruct v; try discriminate. cbn [to_item enc encode_item wfv] in *.
    destruct (IH l Hv) as [E L]. rewrite E, L. reflexivity.
  - (* SMap *) intros fs IH v Hv. destruct v; try discriminate. cbn [to_item enc encode_item wfv] in *.
    destruct (IH l Hv) as [E L]. rewrite E, L. reflexivity.
  - (* SVar *) intros alts IH v Hv. destruct v; try discriminate. cbn [to_item enc wfv] in *. apply IH. exact Hv.
  - (* SArrOf *) intros lo s IH v Hv. destruct v; try discriminate. cbn [to_item enc encode_item wfv] in *.
    split_ands. rewrite len_map. f_equal. apply flat_map_map_concat.
    intros x Hx. apply IH. eapply forallb_In; eassumption.
  - (* SSetOf *) intros s IH v Hv. destruct v; try discriminate. cbn [to_item enc encode_item wfv] in *.
    split_ands. rewrite len_map. f_equal. f_equal. apply flat_map_map_concat.
    intros x Hx. apply IH. eapply forallb_In; eassumption.
  - (* SMapOf *) intros lo ord k IHk v' IHv v Hv. destruct v; try discriminate. cbn [to_item enc encode_item wfv] in *.
    split_ands. rewrite len_map. f_equal.
    match goal with H : forallb _ l = true |- _ => rename H into Hall end.
    clear -Hall IHk IHv. induction l as [|[x y] t IH]; [reflexivity|].
    cbn [forallb map flat_map concat fst snd] in *. split_ands.
    rewrite IHk, IHv by assumption. rewrite IH by assumption. reflexivity.
  - (* SNullable *) intros s IH v Hv.
    destruct v; cbn [to_item enc wfv] in *; try (apply IH; exact Hv). reflexivity.
  - (* STag *) intros t s IH v Hv. cbn [to_item enc encode_item wfv] in *. rewrite IH by exact Hv. reflexivity.
  - (* SInBytes *) intros s IH v Hv. cbn [to_item enc encode_item wfv] in *. reflexivity.
  - (* SChoice *) intros alts IH v Hv. destruct v; try discriminate. cbn [to_item enc wfv] in *. apply IH. exact Hv.
  - (* STagChoice *) intros alts IH v Hv. destruct v; try discriminate. cbn [to_item enc wfv] in *. apply IH. exact Hv.
  - (* SArrAny *) intros s IH v Hv. destruct v as [| | | | | | | | | |i v]; try discriminate.
    destruct i as [|[|i]]; destruct v; try discriminate; cbn [to_item enc encode_item wfv] in *.
    + split_ands. rewrite len_map. f_equal. apply flat_map_map_concat.
      intros x Hx. apply IH. eapply forallb_In; eassumption.
    + f_equal. f_equal. apply flat_map_map_concat.
      intros x Hx. apply IH. eapply forallb_In; eassumption.
  - (* SBBytes *) intros v Hv. destruct v; try discriminate. cbn [to_item enc].
    destruct (N.of_nat (length b) <=? 64); [reflexivity|]. cbn [encode_item]. f_equal. f_equal.
    unfold encode_chunks. generalize (chunk64 (length b) b). intros cs.
    induction cs as [|c t IHc]; [reflexivity|]. cbn [flat_map map concat]. rewrite IHc. unfold enc_chunk, len.
    rewrite <- app_assoc. reflexivity.
  - (* SNamed *) intros id s IH v Hv. cbn [to_item enc wfv] in *. apply IH. exact Hv.
  - (* SArrOpt *) intros fs IHfs o IHo v Hv. destruct v as [| | | | | | | | | |i v]; try discriminate.
    destruct i as [|[|i]]; destruct v as [| | | | | |l| | | |]; try discriminate.
    + cbn [to_item enc encode_item wfv] in *. destruct (IHfs l Hv) as [E L]. rewrite E, L. reflexivity.
    + destruct l as [|x l]; [discriminate|]. cbn [to_item enc encode_item wfv] in *. split_ands.
      destruct (IHfs l ltac:(assumption)) as [E L].
      assert (Hl : len (to_items_sl fs l ++ [to_item o x]) = 1 + slen fs) by (rewrite len_app, L; unfold len; cbn [length]; lia).
      rewrite Hl, flat_map_app, E. cbn [flat_map]. rewrite app_nil_r. rewrite IHo by assumption. reflexivity.
  - (* SNil *) intros l Hv. destruct l; [split; reflexivity|discriminate].
  - (* SCons *) intros s IHs r IHr l Hv. destruct l as [|v t]; [discriminate|].
    cbn [wfv_sl to_items_sl enc_sl flat_map slen] in *. split_ands.
    destruct (IHr t ltac:(assumption)) as [E L]. rewrite IHs by assumption. rewrite E. split; [reflexivity|].
    rewrite len_cons, L. reflexivity.
  - (* KNil *) intros l Hv. destruct l; [split; reflexivity|discriminate].
  - (* KCons *) intros k p s IHs r IHr l Hv. destruct l as [|o t]; [discriminate|].
    cbn [wfv_kl to_pairs_kl enc_kl count_kl] in *. split_ands.
    match goal with H : match o with Some _ => _ | None => _ end = true |- _ => rename H into Ho end.
    destruct (IHr t ltac:(assumption)) as [E L].
    rewrite flat_map_app, len_app, E, L. rewrite (present_wf p s o Ho).
    destruct o as [v|].
    + split_ands. cbn [flat_map]. rewrite app_nil_r. rewrite IHs by assumption. split; reflexivity.
    + split; reflexivity.
  - (* ANil *) intros i l H. discriminate.
  - (* ACons *) intros idx fs IHfs r IHr i l Hv. cbn [wfv_vl to_item_vl enc_vl] in *. destruct i as [|i'].
    + destruct (IHfs l Hv) as [E L]. cbn [encode_item flat_map]. rewrite len_cons, L, E. reflexivity.
    + apply IHr. exact Hv.
  - (* CNil *) intros tagged i v H. discriminate.
  - (* CCons *) intros d s IHs r IHr tagged i v Hv. cbn [wfv_cl to_item_cl enc_cl] in *. destruct i as [|i'].
    + destruct tagged; cbn [encode_item app]; rewrite IHs by exact Hv; reflexivity.
    + apply IHr. exact Hv.
Qed.

Theorem to_item_enc s v : wfv s v = true -> encode_item (to_item s v) = enc s v.
Proof. exact (proj1 to_item_enc_all s v). Qed.

(* ---------- the tree is printable: item_ok (to_item s v) ---------- *)
Lemma bytes_ok_okb (b : bytes) : bytes_ok b -> Item.bytes_okb b = true.
Proof.
  unfold Item.bytes_okb. induction 1 as [|x t Hx _ IH]; [reflexivity|]. cbn [forallb]. rewrite IH.
  apply andb_true_iff. split; [apply N.ltb_lt; exact Hx|reflexivity].
Qed.

Lemma chunk_ok_of (b : bytes) : Schema.bytes_okb b = true -> N.of_nat (length b) < two64 -> chunk_ok b = true.
Proof.
  intros H1 H2. unfold chunk_ok. apply andb_true_iff. split; [exact H1|]. apply N.ltb_lt. exact H2.
Qed.

Lemma okb_firstn n (b : bytes) : Schema.bytes_okb b = true -> Schema.bytes_okb (firstn n b) = true.
Proof.
  unfold Schema.bytes_okb. revert n. induction b as [|x t IH]; intros n H; destruct n; try reflexivity.
  cbn [firstn forallb] in *. apply andb_true_iff in H as [H1 H2]. rewrite H1, IH by exact H2. reflexivity.
Qed.
Lemma okb_skipn n (b : bytes) : Schema.bytes_okb b = true -> Schema.bytes_okb (skipn n b) = true.
Proof.
  unfold Schema.bytes_okb. revert n. induction b as [|x t IH]; intros n H; destruct n; try reflexivity; [exact H|].
  cbn [skipn forallb] in *. apply andb_true_iff in H as [H1 H2]. apply IH. exact H2.
Qed.

Lemma chunk64_chunk_ok fuel : forall b, Schema.bytes_okb b = true -> forallb chunk_ok (chunk64 fuel b) = true.
Proof.
  induction fuel as [|f IH]; intros b Hb; [reflexivity|]. cbn [chunk64].
  destruct b as [|x t] eqn:E; [reflexivity|]. rewrite <- E in *. cbn [forallb].
  rewrite IH by (apply okb_skipn; exact Hb). rewrite andb_true_r.
  apply chunk_ok_of; [apply okb_firstn; exact Hb|]. rewrite firstn_length. unfold two64. lia.
Qed.

Definition IO (s : schema) : Prop := wfs s = true -> forall v, wfv s v = true -> item_ok (to_item s v) = true.
Definition IOs (fs : slist) : Prop := wfs_sl fs = true -> forall l, wfv_sl fs l = true -> forallb item_ok (to_items_sl fs l) = true.
Definition IOk (fs : klist) : Prop := wfs_kl fs = true -> keys_nodup fs = true -> forall l, wfv_kl fs l = true ->
  forallb (fun kv : item * item => match kv with (k, v) => item_ok k && item_ok v end) (to_pairs_kl fs l) = true.
Definition IOv (alts : vlist) : Prop := wfs_vl alts = true -> forall i l, wfv_vl alts i l = true -> item_ok (to_item_vl alts i l) = true.
Definition IOc (alts : clist) : Prop := forall tagged, wfs_cl tagged alts = true -> forall i v, wfv_cl alts i v = true ->
  item_ok (to_item_cl tagged alts i v) = true.

Lemma forallb_map {A B} (f : B -> bool) (g : A -> B) l : forallb f (map g l) = forallb (fun x => f (g x)) l.
Proof. induction l as [|x t IH]; [reflexivity|]. cbn [map forallb]. rewrite IH. reflexivity. Qed.

Lemma forallb_in_true {A} (f : A -> bool) l : (forall x, In x l -> f x = true) -> forallb f l = true.
Proof. intros H. apply forallb_forall. exact H. Qed.

Lemma to_item_ok_all : (forall s, IO s) /\ (forall fs, IOs fs) /\ (forall fs, IOk fs) /\ (forall a, IOv a) /\ (forall a, IOc a).
Proof.
  apply schema_mutind; unfold IO, IOs, IOk, IOv, IOc.
  - intros lim Hs v Hv. destruct v; try discriminate. cbn [to_item item_ok wfs wfv] in *. lia.
  - intros _ v Hv. destruct v; try discriminate. cbn [to_item item_ok wfv] in *. exact Hv.
  - intros lo hi Hs v Hv. destruct v; try discriminate. cbn [to_item item_ok wfs wfv] in *. split_ands.
    apply chunk_ok_of; [assumption|lia].
  - intros hi Hs v Hv. destruct v; try discriminate. cbn [to_item item_ok wfs wfv] in *. split_ands.
    apply chunk_ok_of; [assumption|lia].
  - intros _ v Hv. destruct v; try discriminate. destruct b; reflexivity.
  - (* SArr *) intros fs IH Hs v Hv. destruct v; try discriminate. cbn [to_item item_ok wfs wfv] in *. split_ands.
    rewrite IH by assumption. rewrite (proj2 (proj1 (proj2 to_item_enc_all) fs l Hv)). rw_hyps. reflexivity.
  - (* SMap *) intros fs IH Hs v Hv. destruct v; try discriminate. cbn [to_item item_ok wfs wfv] in *. split_ands.
    rewrite IH by assumption. rewrite (proj2 (proj1 (proj2 (proj2 to_item_enc_all)) fs l Hv)).
    pose proof (count_kl_le fs l). rewrite andb_true_r. lia.
  - (* SVar *) intros alts IH Hs v Hv. destruct v; try discriminate. cbn [to_item wfs wfv] in *. apply IH; assumption.
  - (* SArrOf *) intros lo s IH Hs v Hv. destruct v; try discriminate. cbn [to_item item_ok wfs wfv] in *. split_ands.
    rewrite len_map. rw_hyps. rewrite forallb_map. apply forallb_in_true. intros x Hx. apply IH; [assumption|].
    eapply forallb_In; eassumption.
  - (* SSetOf *) intros s IH Hs v Hv. destruct v; try discriminate. cbn [to_item item_ok wfs wfv] in *. split_ands.
    rewrite len_map. rw_hyps. rewrite forallb_map. change (258 <? two64) with true. cbn [andb].
    apply forallb_in_true. intros x Hx. apply IH; [assumption|]. eapply forallb_In; eassumption.
  - (* SMapOf *) intros lo ord k IHk v' IHv Hs v Hv. destruct v; try discriminate. cbn [to_item item_ok wfs wfv] in *.
    split_ands. rewrite len_map. rw_hyps. rewrite forallb_map. cbn [andb].
    match goal with H : forallb _ l = true |- _ => rename H into Hall end.
    apply forallb_in_true. intros [x y] Hx. pose proof (forallb_In _ _ _ Hall Hx) as Hxy. cbn [fst snd] in *. split_ands.
    rewrite IHk, IHv by assumption. reflexivity.
  - (* SNullable *) intros s IH Hs v Hv. cbn [wfs] in Hs. split_ands.
    destruct v; cbn [to_item wfv] in *; try (apply IH; assumption). reflexivity.
  - (* STag *) intros t s IH Hs v Hv. cbn [to_item item_ok wfs wfv] in *. split_ands. rw_hyps. apply IH; assumption.
  - (* SInBytes *) intros s IH Hs v Hv. cbn [to_item item_ok wfs wfv] in *. split_ands.
    apply chunk_ok_of; [|lia]. apply bytes_ok_okb. rewrite <- to_item_enc by assumption.
    apply encode_item_bytes_ok. apply IH; assumption.
  - (* SChoice *) intros alts IH Hs v Hv. destruct v; try discriminate. cbn [to_item wfs wfv] in *. apply (IH false); assumption.
  - (* STagChoice *) intros alts IH Hs v Hv. destruct v; try discriminate. cbn [to_item wfs wfv] in *. apply (IH true); assumption.
  - (* SArrAny *) intros s IH Hs v Hv. cbn [wfs] in Hs. split_ands. destruct v as [| | | | | | | | | |i v]; try discriminate.
    destruct i as [|[|i]]; destruct v; try discriminate; cbn [to_item item_ok wfv] in *.
    + split_ands. rewrite len_map. rw_hyps. rewrite forallb_map. apply forallb_in_true. intros x Hx.
      apply IH; [assumption|]. eapply forallb_In; eassumption.
    + rewrite forallb_map. apply forallb_in_true. intros x Hx. apply IH; [assumption|]. eapply forallb_In; eassumption.
  - (* SBBytes *) intros _ v Hv. destruct v; try discriminate. cbn [to_item wfv] in *.
    destruct (N.of_nat (length b) <=? 64) eqn:E; cbn [item_ok].
    + apply chunk_ok_of; [exact Hv|unfold two64; lia].
    + apply chunk64_chunk_ok. exact Hv.
  - (* SNamed *) intros id s IH Hs v Hv. cbn [to_item wfs wfv] in *. apply IH; assumption.
  - (* SArrOpt *) intros fs IHfs o IHo Hs v Hv. cbn [wfs] in Hs. split_ands.
    destruct v as [| | | | | | | | | |i v]; try discriminate.
    destruct i as [|[|i]]; destruct v as [| | | | | |l| | | |]; try discriminate.
    + cbn [to_item item_ok wfv] in *. rewrite IHfs by assumption.
      rewrite (proj2 (proj1 (proj2 to_item_enc_all) fs l Hv)). apply andb_true_iff. split; [lia|reflexivity].
    + destruct l as [|x l]; [discriminate|]. cbn [to_item item_ok wfv] in *. split_ands.
      rewrite forallb_app. rewrite IHfs by assumption. cbn [forallb]. rewrite IHo by assumption.
      assert (Hl : len (to_items_sl fs l ++ [to_item o x]) = 1 + slen fs)
        by (rewrite len_app, (proj2 (proj1 (proj2 to_item_enc_all) fs l ltac:(assumption))); unfold len; cbn [length]; lia).
      rewrite Hl. apply andb_true_iff. split; [lia|reflexivity].
  - (* SNil *) intros _ l Hv. destruct l; [reflexivity|discriminate].
  - (* SCons *) intros s IHs r IHr Hw l Hv. cbn [wfs_sl] in Hw. split_ands. destruct l as [|v t]; [discriminate|].
    cbn [wfv_sl to_items_sl forallb] in *. split_ands. rewrite IHs, IHr by assumption. reflexivity.
  - (* KNil *) intros _ _ l Hv. destruct l; [reflexivity|discriminate].
  - (* KCons *) intros k p s IHs r IHr Hw Hk l Hv. cbn [wfs_kl keys_nodup] in *. split_ands.
    destruct l as [|o t]; [discriminate|]. cbn [wfv_kl to_pairs_kl] in *. split_ands.
    match goal with H : match o with Some _ => _ | None => _ end = true |- _ => rename H into Ho end.
    rewrite forallb_app. rewrite IHr by assumption. rewrite andb_true_r. rewrite (present_wf p s o Ho).
    destruct o as [v|]; [|reflexivity]. split_ands. cbn [forallb item_ok]. rewrite IHs by assumption. rw_hyps. reflexivity.
  - (* ANil *) intros _ i l H. discriminate.
  - (* ACons *) intros idx fs IHfs r IHr Hw i l Hv. cbn [wfs_vl] in Hw. split_ands. cbn [wfv_vl to_item_vl] in *.
    destruct i as [|i']; [|apply IHr; assumption]. cbn [item_ok forallb]. rewrite IHfs by assumption.
    rewrite len_cons. rewrite (proj2 (proj1 (proj2 to_item_enc_all) fs l Hv)). rw_hyps. reflexivity.
  - (* CNil *) intros tagged _ i v H. discriminate.
  - (* CCons *) intros d s IHs r IHr tagged Hw i v Hv. cbn [wfs_cl] in Hw. split_ands. cbn [wfv_cl to_item_cl] in *.
    destruct i as [|i']; [|apply (IHr tagged); assumption].
    destruct tagged; [cbn [item_ok]; rw_hyps|]; apply IHs; assumption.
Qed.

Theorem to_item_ok s v : wfs s = true -> wfv s v = true -> item_ok (to_item s v) = true.
Proof. intros Hs Hv. exact (proj1 to_item_ok_all s Hs v Hv). Qed.

(* the independent parser reads the model encoder's bytes back as exactly that tree *)
Theorem parse_enc s v : wfs s = true -> wfv s v = true -> parse_exact (enc s v) = Ok (to_item s v).
Proof. intros Hs Hv. rewrite <- to_item_enc by exact Hv. apply parse_exact_encode. apply to_item_ok; assumption. Qed.
