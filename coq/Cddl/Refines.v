(* The value-INDEPENDENT comparison: [refines e fuel s r] looks at the schema and the rule only.  When it answers true,
   EVERY schema-valid value of s satisfies the Conway constraints (Conforms.conforms) for r - RefinesProofs.v - and so is
   emitted as conforming bytes (C03_conforms).  It answers false where the schema is wider than the rule (ranges, lower
   bounds, side conditions, address shape, key repetition, empty indefinite lists): those sites need the value. *)
From CSL Require Import Base.Prelude Cbor.Head Cbor.Item Codec.Schema Cddl.Rules Cddl.Validator Cddl.Conforms.
Local Open Scope N_scope.

Definition transparent (s : schema) : bool := match s with SNamed _ _ | SChoice _ => true | _ => false end.
Definition is_null (r : rule) : bool := match r with RNull => true | _ => false end.

Fixpoint all_cl (P : N -> schema -> bool) (alts : clist) : bool :=
  match alts with CNil => true | CCons d s r => P d s && all_cl P r end.
Fixpoint all_vl (P : N -> slist -> bool) (alts : vlist) : bool :=
  match alts with ANil => true | ACons i fs r => P i fs && all_vl P r end.

Section Body.
  Variable e : env.
  Variable rec : schema -> rule -> bool.

  Fixpoint ref_sl (fs : slist) (rs : list rule) {struct fs} : bool :=
    match fs, rs with
    | SNil, [] => true
    | SCons s t, r :: rt => rec s r && ref_sl t rt
    | _, _ => false
    end.
  (* every field of the map-struct is listed in the rule and refines its rule *)
  Fixpoint ref_kl (fs : klist) (rfs : list (N * bool * rule)) {struct fs} : bool :=
    match fs with
    | KNil => true
    | KCons k _ s t => match field_lookup rfs k with Some r => rec s r | None => false end && ref_kl t rfs
    end.
  Fixpoint req_key (k : N) (fs : klist) : bool :=
    match fs with KNil => false | KCons j p _ t => ((j =? k) && match p with Req => true | _ => false end) || req_key k t end.
  Definition required_are_req (rfs : list (N * bool * rule)) (fs : klist) : bool :=
    forallb (fun f => match f with (k, req, _) => negb req || req_key k fs end) rfs.

  Definition ref_alt (idx : N) (fs : slist) (a : rule) : bool :=
    match a with
    | RArr (RUint lo hi :: rs) => in_range lo hi idx && ref_sl fs rs
    | _ => false
    end.

  Definition ref_struct (s : schema) (r : rule) : bool :=
    match s, r with
    | SUint lim, RUint lo hi => (lo =? 0) && (lim <=? hi + 1)
    | SUint lim, RInt lo hi => (lo <=? 0)%Z && (Z.of_N lim - 1 <=? hi)%Z
    | SNint, RNint lo hi => (lo =? 0) && (max64 <=? hi)
    | SNint, RInt lo hi => (lo <=? - 18446744073709551616)%Z && (- 1 <=? hi)%Z
    | SBytes lo hi, RBytes lo' hi' => (lo' <=? lo) && (hi <=? hi')
    | SBBytes, RBBytes => true
    | SText hi, RText lo' hi' => (lo' =? 0) && (hi <=? hi')
    | SBool, RBool => true
    | SArr fs, RArr rs => ref_sl fs rs
    | SMap fs, RMap rfs => ref_kl fs rfs && required_are_req rfs fs
    | SArrOf lo s', RArrOf lo' r' => (lo' <=? lo) && rec s' r'
    | SSetOf s', RSet lo' r' => (lo' =? 0) && rec s' r'
    | SMapOf lo ord k v', RMapOf lo' rk rv =>
        (lo' <=? lo) && match ord with KMulti => false | _ => true end && rec k rk && rec v' rv
    | STag t s', RTag u r' => (t =? u) && rec s' r'
    | SInBytes s', RCborIn r' => rec s' r'
    | _, _ => false
    end.

  Definition refines_body (s : schema) (r : rule) : bool :=
    match s with
    | SNamed _ s' => rec s' r
    | SChoice alts => all_cl (fun _ s' => rec s' r) alts
    | _ =>
        match r with
        | RRef id => match lookup e id with Some r' => rec s r' | None => false end
        | RChoice ralts =>
            match s with
            | SVar alts => all_vl (fun idx fs => existsb (ref_alt idx fs) ralts) alts
            | SNullable s' => negb (transparent s') && existsb is_null ralts && rec s' r
            | STagChoice alts =>
                all_cl (fun d s' => existsb (fun a => match a with RTag u r' => (d =? u) && rec s' r' | _ => false end) ralts) alts
            | _ => existsb (fun a => rec s a) ralts
            end
        | _ => ref_struct s r
        end
    end.
End Body.

Fixpoint refines (e : env) (fuel : nat) (s : schema) (r : rule) : bool :=
  match fuel with
  | O => false
  | S f => refines_body e (refines e f) s r
  end.
