(* A small CDDL rule language: exactly the constructs the Conway-era ledger CDDL uses for a
   transaction and its parts.  Definitions only (executable, extractable).

     CDDL                                   rule
     ------------------------------------   ---------------------------------------------
     uint / uint .size k / lo..hi / literal RUint lo hi
     nint                                   RNint lo hi   (bounds on the ARGUMENT n of -1-n)
     int / int64 / nonZeroInt64 ...         RInt lo hi  (RChoice for holes)
     bytes / bytes .size (lo..hi) / $hash   RBytes lo hi            (definite-length only)
     bounded_bytes                          RBBytes   (<= 64 definite, or chunks of <= 64)
     tstr .size (lo..hi)                    RText lo hi
     bool / nil                             RBool / RNull
     [a, b, c]   (record-style group)       RArr [a; b; c]          (definite, fixed arity)
     [* a] / [+ a]                          RArrOf 0 a / RArrOf 1 a (definite)
     [* a] of plutus_data (indef. allowed)  RArrAny 0 a   (indefinite only when non-empty)
     {k1 : a, ? k2 : b}  (uint keys)        RMap [(k1, true, a); (k2, false, b)]
     {* k => v} / {+ k => v}                RMapOf 0 k v / RMapOf 1 k v
     #6.t(a)                                RTag t a
     set<a> / nonempty_set<a> (as EMITTED)  RSet 0 a / RSet 1 a   = #6.258([* a]), no duplicates
     nonempty_set<plutus_data>              RSetAny 1 a   (#6.258 + Plutus list, no duplicates)
     a / b / c                              RChoice [a; b; c]
     bytes .cbor a                          RCborIn a
     name                                   RRef id   (looked up in the rule environment)
     address / reward_account (bytes with   RAddress / RRewardAccount
       a header nibble and fixed lengths)
     unit_interval / nonnegative_interval   RRatio unit   (#6.30([n, d]), d > 0, unit -> n <= d)

   [item] is the generic CBOR tree of Cbor/Item.v (independent of the library and of cbor_event). *)
From CSL Require Import Base.Prelude Cbor.Head Cbor.Item.
Local Open Scope N_scope.

Inductive rule :=
| RUint (lo hi : N)
| RNint (lo hi : N)
| RInt (lo hi : Z)
| RBytes (lo hi : N)
| RBBytes
| RText (lo hi : N)
| RBool
| RNull
| RArr (fs : list rule)
| RArrOf (lo : N) (r : rule)
| RArrAny (lo : N) (r : rule)
| RMap (fs : list (N * bool * rule))       (* key, required?, value rule *)
| RMapOf (lo : N) (k v : rule)
| RTag (t : N) (r : rule)
| RSet (lo : N) (r : rule)
| RSetAny (lo : N) (r : rule)
| RChoice (alts : list rule)
| RCborIn (r : rule)
| RRef (id : N)
| RAddress
| RRewardAccount
| RRatio (unit : bool).

Definition env := list (N * rule).
Fixpoint lookup (e : env) (id : N) : option rule :=
  match e with
  | [] => None
  | (j, r) :: t => if id =? j then Some r else lookup t id
  end.

(* CDDL shorthands *)
Definition max64 : N := 18446744073709551615.
Definition r_uint := RUint 0 max64.
Definition r_uint_size (k : N) := RUint 0 (256 ^ k - 1).
Definition r_lit (n : N) := RUint n n.
Definition r_int := RInt (- 18446744073709551616)%Z 18446744073709551615%Z.      (* CBOR major 0 / 1, 64-bit argument *)
Definition r_int64 := RInt (- 9223372036854775808)%Z 9223372036854775807%Z.
Definition r_bytes := RBytes 0 max64.
Definition r_hash28 := RBytes 28 28.
Definition r_hash32 := RBytes 32 32.
Definition r_nullable (r : rule) := RChoice [r; RNull].

(* ---- generic list helpers used by the validator ---- *)
Fixpoint forall2b {A B} (f : A -> B -> bool) (l1 : list A) (l2 : list B) : bool :=
  match l1, l2 with
  | [], [] => true
  | x :: t1, y :: t2 => f x y && forall2b f t1 t2
  | _, _ => false
  end.

Fixpoint items_nodup (l : list item) : bool :=
  match l with
  | [] => true
  | x :: t => negb (existsb (item_eqb x) t) && items_nodup t
  end.

Fixpoint field_lookup (fs : list (N * bool * rule)) (k : N) : option rule :=
  match fs with
  | [] => None
  | (j, _, r) :: t => if k =? j then Some r else field_lookup t k
  end.

Definition has_key (kvs : list (item * item)) (k : N) : bool :=
  existsb (fun kv => item_eqb (IUint k) (fst kv)) kvs.

(* address bytes (CDDL: `address = bytes`, with the header-nibble table of the ledger spec):
   0000-0011 base (1+28+28), 0100-0101 pointer (1+28+ >=3 varint bytes), 0110-0111 enterprise (1+28),
   1000 Byron (a CBOR array inside), 1110-1111 reward (1+28) *)
Definition address_ok (b : bytes) : bool :=
  match b with
  | [] => false
  | h :: t =>
    let k := h / 16 in
    if k <? 4 then len t =? 56
    else if k <? 6 then 31 <=? len t
    else if k <? 8 then len t =? 28
    else if k =? 8 then 1 <=? len t
    else if (k =? 14) || (k =? 15) then len t =? 28
    else false
  end.
Definition reward_account_ok (b : bytes) : bool :=
  match b with
  | [] => false
  | h :: t => ((h / 16 =? 14) || (h / 16 =? 15)) && (len t =? 28)
  end.
