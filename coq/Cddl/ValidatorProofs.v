(* Facts about the validator: more fuel never rejects what less fuel accepted; byte-level conformance of the model
   encoder's output reduces to tree-level matching of [to_item s v]. *)
From CSL Require Import Base.Prelude Cbor.Head Cbor.Item Cbor.ItemProofs Codec.Schema Codec.SchemaProofs
  Cddl.Rules Cddl.Validator Cddl.ToItem Cddl.ToItemProofs Cddl.CanonProofs.
Local Open Scope N_scope.

Definition rec_le (f g : rule -> item -> bool) : Prop := forall r it, f r it = true -> g r it = true.

Lemma forallb_mono {A} (f g : A -> bool) l : (forall x, f x = true -> g x = true) -> forallb f l = true -> forallb g l = true.
Proof.
  intros H. induction l as [|x t IH]; [reflexivity|]. cbn [forallb]. intros E. apply andb_true_iff in E as [E1 E2].
  rewrite (H x E1), (IH E2). reflexivity.
Qed.
Lemma existsb_mono {A} (f g : A -> bool) l : (forall x, f x = true -> g x = true) -> existsb f l = true -> existsb g l = true.
Proof.
  intros H. induction l as [|x t IH]; [discriminate|]. cbn [existsb]. intros E. apply orb_true_iff in E as [E|E].
  - rewrite (H x E). reflexivity.
  - rewrite (IH E). apply orb_true_r.
Qed.
Lemma forall2b_mono {A B} (f g : A -> B -> bool) l1 : forall l2,
  (forall x y, f x y = true -> g x y = true) -> forall2b f l1 l2 = true -> forall2b g l1 l2 = true.
Proof.
  induction l1 as [|x t IH]; intros l2 H; destruct l2 as [|y t2]; cbn [forall2b]; try discriminate; [reflexivity|].
  intros E. apply andb_true_iff in E as [E1 E2]. rewrite (H x y E1), (IH t2 H E2). reflexivity.
Qed.

Ltac and_split :=
  repeat match goal with
         | H : (_ && _) = true |- _ => apply andb_true_iff in H; destruct H
         | |- (_ && _) = true => apply andb_true_iff; split
         end.

Lemma cddl_body_mono e f g : rec_le f g -> rec_le (cddl_body e f) (cddl_body e g).
Proof.
  intros Hfg r it. unfold rec_le in Hfg.
  destruct r; cbn [cddl_body];
    try (destruct it; try discriminate; try (intros E; exact E); fail).
  - (* RArr *) destruct it as [| | | | | |d xs| | | |]; try discriminate. destruct d; [|discriminate].
    apply forall2b_mono. exact Hfg.
  - (* RArrOf *) destruct it as [| | | | | |d xs| | | |]; try discriminate. destruct d; [|discriminate].
    intros E. and_split; try assumption. eapply forallb_mono; [|eassumption]. intros x. apply Hfg.
  - (* RArrAny *) destruct it as [| | | | | |d xs| | | |]; try discriminate.
    intros E. and_split; try assumption. eapply forallb_mono; [|eassumption]. intros x. apply Hfg.
  - (* RMap *) destruct it as [| | | | | | |d kvs| | |]; try discriminate. destruct d; [|discriminate].
    intros E. and_split; try assumption. unfold map_fields_ok in *. eapply forallb_mono; [|eassumption].
    intros [k v]. cbn [fst snd]. destruct k; try discriminate. destruct (field_lookup fs n); [apply Hfg|discriminate].
  - (* RMapOf *) destruct it as [| | | | | | |d kvs| | |]; try discriminate. destruct d; [|discriminate].
    intros E. and_split; try assumption. eapply forallb_mono; [|eassumption].
    intros [k' v']. cbn [fst snd]. intros E'. and_split; apply Hfg; assumption.
  - (* RTag *) destruct it as [| | | | | | | |u x| |]; try discriminate. intros E. and_split; [assumption|apply Hfg; assumption].
  - (* RSet *) destruct it as [| | | | | | | |u x| |]; try discriminate.
    destruct x as [| | | | | |d xs| | | |]; try discriminate. destruct d; [|discriminate].
    intros E. and_split; try assumption. eapply forallb_mono; [|eassumption]. intros x. apply Hfg.
  - (* RSetAny *) destruct it as [| | | | | | | |u x| |]; try discriminate.
    destruct x as [| | | | | |d xs| | | |]; try discriminate.
    intros E. and_split; try assumption. eapply forallb_mono; [|eassumption]. intros x. apply Hfg.
  - (* RChoice *) apply existsb_mono. intros a. apply Hfg.
  - (* RCborIn *) destruct it; try discriminate. destruct (parse_exact b); try discriminate.
    intros E. and_split; [assumption|apply Hfg; assumption].
  - (* RRef *) destruct (lookup e id); [apply Hfg|discriminate].
Qed.

Lemma cddl_ok_S e f : rec_le (cddl_ok e f) (cddl_ok e (S f)).
Proof.
  induction f as [|f IH]; [intros r it H; discriminate|].
  change (cddl_ok e (S (S f))) with (cddl_body e (cddl_ok e (S f))).
  change (cddl_ok e (S f)) with (cddl_body e (cddl_ok e f)) at 1.
  apply cddl_body_mono. exact IH.
Qed.

Theorem cddl_ok_fuel_mono e f g r it : (f <= g)%nat -> cddl_ok e f r it = true -> cddl_ok e g r it = true.
Proof.
  induction 1 as [|g _ IH]; [exact (fun H => H)|]. intros H. apply cddl_ok_S. apply IH. exact H.
Qed.

(* byte-level conformance of the model encoder's output = tree-level matching of to_item s v:
   parsing, shortest heads, definiteness and chunk shapes are discharged once and for all *)
Theorem bytes_of_tree e fuel r s v : wfs s = true -> wfv s v = true ->
  cddl_ok_bytes_fuel e fuel r (enc s v) = cddl_ok e fuel r (to_item s v).
Proof.
  intros Hs Hv. unfold cddl_ok_bytes_fuel, cddl_ok_item. rewrite parse_enc by assumption.
  rewrite to_item_enc by assumption. rewrite bytes_eqb_refl.
  destruct (proj1 canon_all s Hs v Hv) as (G1 & G2 & _ & _). unfold lax in G1. unfold canon_item. rewrite G1, G2. reflexivity.
Qed.
