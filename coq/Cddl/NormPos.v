(* C03 x Num/ValueNorm.v: "no empty entries" (Value::has_empty_entries of the Rust code) is C03's value_pos, and the value
   the builder stores for an input (Value::without_empty_entries) satisfies it.  Hence every amount that enters the
   builder through push_input or add_output is value_pos: the premise [total_input_pos] of C03_add_change_no_zero_assets
   holds for builders filled through the API (mint lines aside, which MintAssets::insert keeps non-zero on build). *)
From CSL Require Import Base.Prelude Num.Value Num.ValueNorm Num.ValueNormProofs Cddl.NoZeroAssets.
Local Open Scope N_scope.

Lemma assets_pos_no_zero a : assets_pos a = negb (assets_has_zero a).
Proof.
  unfold assets_pos, assets_has_zero. induction a as [|[n q] a IH]; [reflexivity|]. cbn [forallb existsb snd].
  rewrite IH, negb_orb. f_equal. destruct (N.eqb_spec q 0), (N.leb_spec 1 q); try reflexivity; lia.
Qed.

Theorem value_pos_iff_no_empty_entries v : value_pos v = negb (value_has_empty_entries v).
Proof.
  unfold value_pos, value_has_empty_entries. destruct (multiasset_of v) as [m|]; [|reflexivity].
  unfold ma_pos, ma_has_empty_entries. induction m as [|[p a] m IH]; [reflexivity|]. cbn [forallb existsb snd].
  rewrite IH, negb_orb. f_equal. unfold bundle_ok. destruct a as [|x l]; [reflexivity|]. cbn [negb andb].
  apply assets_pos_no_zero.
Qed.

Theorem value_without_empty_entries_pos v : value_pos (value_without_empty_entries v) = true.
Proof. rewrite value_pos_iff_no_empty_entries, value_without_empty_entries_clean. reflexivity. Qed.

Theorem stored_amounts_pos v :
  value_pos (value_without_empty_entries v) = true /\ value_pos v = negb (value_has_empty_entries v).
Proof. split; [apply value_without_empty_entries_pos | apply value_pos_iff_no_empty_entries]. Qed.
