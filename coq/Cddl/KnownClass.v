(* Known-finding class of C03, decided on the emitted bytes by the same validator:
   C03-mint-quantity-outside-int64 — the bytes fail the Conway rule, but pass it once the mint quantities are
   relaxed from `nonZeroInt64` to any non-zero CBOR integer (what MintAssets::insert / new_from_entry accept).
   Narrow by construction: nothing else about the rule is relaxed. *)
From CSL Require Import Base.Prelude Cbor.Head Cbor.Item Cddl.Rules Cddl.Validator Cddl.ConwayCddl.
Local Open Scope N_scope.

Definition nonZeroInt := RChoice [RInt (- 18446744073709551616)%Z (- 1)%Z; RInt 1%Z 18446744073709551615%Z].
Definition mint_relaxed := multiasset nonZeroInt.

Definition replace_field (k : N) (r' : rule) (fs : list (N * bool * rule)) : list (N * bool * rule) :=
  map (fun f => match f with (j, req, r) => if j =? k then (j, req, r') else (j, req, r) end) fs.
Definition transaction_body_relaxed : rule :=
  match transaction_body with RMap fs => RMap (replace_field 9 mint_relaxed fs) | r => r end.
Definition relaxed_env : env := (N_transaction_body, transaction_body_relaxed) :: conway_env.

(* the relaxed counterpart of a top-level rule: only `mint` and `transaction_body` themselves change (everything that
   reaches the body through a reference is relaxed by [relaxed_env]) *)
Definition rule_is_mint (r : rule) : bool :=
  match r with
  | RMapOf _ (RBytes 28 28) (RMapOf 1 (RBytes 0 32) (RChoice [RInt _ _; RInt _ _])) => true
  | _ => false
  end.
Definition rule_is_body (r : rule) : bool := match r with RMap ((0, true, _) :: (1, true, _) :: (2, true, _) :: _) => true | _ => false end.
Definition relax (r : rule) : rule :=
  if rule_is_mint r then RMapOf 0 policy_id (RMapOf 1 asset_name nonZeroInt) else if rule_is_body r then transaction_body_relaxed else r.

(* C03-builder-echoes-degenerate-given-values — the transaction fails the Conway rule, passes it once zero quantities and
   empty policy bundles are admitted in VALUES (nothing else relaxed), and some value GIVEN to the builder (an input's or
   collateral input's amount, a requested output's amount: CBOR array [given]) already carried such an entry. *)
Definition value_relaxed : rule := RChoice [coin; RArr [coin; RMapOf 0 policy_id (RMapOf 0 asset_name coin)]].
Definition echo_env : env := (N_value, value_relaxed) :: conway_env.
Definition given_degenerate (given : bytes) : bool :=
  cddl_ok_bytes conway_env (RArrOf 0 value_relaxed) given && negb (cddl_ok_bytes conway_env (RArrOf 0 (RRef N_value)) given).
(* 0 = conforms; 1 = mint quantity outside int64; 3 = echoed degenerate given value; 2 = any other violation *)
Definition judge_class_tx (r : rule) (bs given : bytes) : N :=
  if cddl_ok_bytes conway_env r bs then 0
  else if cddl_ok_bytes relaxed_env (relax r) bs then 1
  else if cddl_ok_bytes echo_env r bs && given_degenerate given then 3
  else 2.

(* C03-praos-header-body-flat - a header (or block) whose header body is the single-VRF form with operational_cert and
   protocol_version written as flat groups: 14 items, the shape of no era (Babbage onwards nests them: 10 items).
   5 = the two-VRF flat form of Shelley .. Alonzo (pre-Conway, not judged). *)
Definition flat_env : env := (N_header_body, header_body_flat_praos) :: conway_env.
Definition tpraos_env : env := (N_header_body, header_body_tpraos) :: conway_env.
Definition judge_class_header (r : rule) (bs : bytes) : N :=
  if cddl_ok_bytes conway_env r bs then 0
  else if cddl_ok_bytes flat_env r bs then 4
  else if cddl_ok_bytes tpraos_env r bs then 5
  else 2.

(* 0 = conforms; 1 = known class mint-quantity-outside-int64; 2 = any other violation *)
Definition judge_class (r : rule) (bs : bytes) : N :=
  if cddl_ok_bytes conway_env r bs then 0
  else if cddl_ok_bytes relaxed_env (relax r) bs then 1
  else 2.

(* C03-json-reader-skips-text-bounds - URL, DNSRecordAorAAAA and DNSRecordSRV derive serde::Deserialize, so a url / dns name
   longer than 128 bytes supplied through from_json (of the type or of any enclosing type) is accepted and emitted.  Class
   decided on the bytes: they fail the Conway rule and conform once every `tstr .size (0..128)` (url, dns_name) is widened to
   any text - nothing else relaxed.  REPAIRED in /repo 3ae397a (hand-written readers through new_impl): the driver no longer
   consults this class - such bytes alarm again; the definition documents how the finding was decided. *)
Fixpoint widen_text128 (r : rule) : rule :=
  match r with
  | RText 0 128 => RText 0 18446744073709551615
  | RArr fs => RArr (map widen_text128 fs)
  | RArrOf lo r => RArrOf lo (widen_text128 r)
  | RArrAny lo r => RArrAny lo (widen_text128 r)
  | RMap fs => RMap (map (fun f => match f with (j, req, r) => (j, req, widen_text128 r) end) fs)
  | RMapOf lo k v => RMapOf lo (widen_text128 k) (widen_text128 v)
  | RTag t r => RTag t (widen_text128 r)
  | RSet lo r => RSet lo (widen_text128 r)
  | RSetAny lo r => RSetAny lo (widen_text128 r)
  | RChoice alts => RChoice (map widen_text128 alts)
  | RCborIn r => RCborIn (widen_text128 r)
  | r => r
  end.
Definition wide_text_env : env := map (fun p => (fst p, widen_text128 (snd p))) conway_env.
(* 0 = conforms; 1 = mint quantity outside int64; 6 = only an over-long url / dns name; 2 = any other violation *)
Definition judge_class_json (r : rule) (bs : bytes) : N :=
  match judge_class r bs with
  | 2 => if cddl_ok_bytes wide_text_env (widen_text128 r) bs then 6 else 2
  | c => c
  end.
