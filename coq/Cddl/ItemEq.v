(* Soundness of the structural equality test on items (not provided by Cbor/ItemProofs.v). *)
From CSL Require Import Base.Prelude Cbor.Head Cbor.Item Cbor.ItemProofs.
Local Open Scope N_scope.

Lemma list_eqb_sound {A} (eqb : A -> A -> bool) (l1 : list A) :
  Forall (fun x => forall y, eqb x y = true -> x = y) l1 ->
  forall l2, list_eqb eqb l1 l2 = true -> l1 = l2.
Proof.
  induction 1 as [|x t Hx _ IH]; intros l2 H; destruct l2 as [|y t2]; try discriminate; [reflexivity|].
  rewrite list_eqb_cons in H. apply andb_true_iff in H as [H1 H2]. f_equal; [apply Hx; exact H1|apply IH; exact H2].
Qed.

Lemma bytes_list_eqb_sound (a b : list bytes) : list_eqb bytes_eqb a b = true -> a = b.
Proof.
  apply list_eqb_sound. apply Forall_forall. intros x _ y H. apply bytes_eqb_eq. exact H.
Qed.

Lemma fwidth_eqb_sound a b : fwidth_eqb a b = true -> a = b.
Proof. destruct a, b; try discriminate; reflexivity. Qed.

Theorem item_eqb_sound : forall a b, item_eqb a b = true -> a = b.
Proof.
  induction a as [n|n|b0|cs|b0|cs|d xs IH|d kvs IH|t x IH|n|w v] using item_ind2; intros b H;
    destruct b; cbn [item_eqb] in H; try discriminate.
  - f_equal. lia.
  - f_equal. lia.
  - f_equal. apply bytes_eqb_eq. exact H.
  - f_equal. apply bytes_list_eqb_sound. exact H.
  - f_equal. apply bytes_eqb_eq. exact H.
  - f_equal. apply bytes_list_eqb_sound. exact H.
  - apply andb_true_iff in H as [Hd Hl]. apply Bool.eqb_prop in Hd. subst. f_equal.
    revert Hl. apply list_eqb_sound. exact IH.
  - apply andb_true_iff in H as [Hd Hl]. apply Bool.eqb_prop in Hd. subst. f_equal.
    revert Hl. apply list_eqb_sound. eapply Forall_impl; [|exact IH].
    intros [k v] [Hk Hv] [k2 v2] E. cbn [fst snd] in *. apply andb_true_iff in E as [E1 E2].
    f_equal; [apply Hk|apply Hv]; assumption.
  - apply andb_true_iff in H as [Ht Hx]. f_equal; [lia|apply IH; exact Hx].
  - f_equal. lia.
  - apply andb_true_iff in H as [Hw Hv]. f_equal; [apply fwidth_eqb_sound; exact Hw|lia].
Qed.
