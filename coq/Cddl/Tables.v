(* Key / arity / tag tables of the implementation schemas (Ledger/Schemas.v) and of the Conway CDDL
   transcription (Cddl/ConwayCddl.v), extracted by the same kind of traversal from both sides, and their
   agreement as a finite computation.  The only differences allowed are listed explicitly: the pre-Conway
   items the library still knows (body key 6 `update`, certificates 5 and 6, parameter-update keys 12-14). *)
From CSL Require Import Base.Prelude Cbor.Head Cbor.Item Codec.Schema Ledger.Schemas Cddl.Rules Cddl.ConwayCddl.
Local Open Scope N_scope.

(* ---- sorting small key lists ---- *)
Fixpoint insert_by {A} (key : A -> N) (x : A) (l : list A) : list A :=
  match l with
  | [] => [x]
  | y :: t => if key x <=? key y then x :: l else y :: insert_by key x t
  end.
Definition sort_by {A} (key : A -> N) (l : list A) : list A := fold_right (insert_by key) [] l.

(* ---- schema side ---- *)
Fixpoint strip (s : schema) : schema := match s with SNamed _ s' => strip s' | _ => s end.
Fixpoint klist_keys (fs : klist) : list (N * bool) :=
  match fs with KNil => [] | KCons k p _ r => (k, match p with Req => true | _ => false end) :: klist_keys r end.
Definition schema_keys (s : schema) : list (N * bool) :=
  match strip s with SMap fs => sort_by fst (klist_keys fs) | _ => [] end.
Fixpoint vlist_table (alts : vlist) : list (N * N) :=
  match alts with ANil => [] | ACons i fs r => (i, slen fs) :: vlist_table r end.
Definition schema_variants (s : schema) : list (N * N) :=
  match strip s with SVar alts => vlist_table alts | _ => [] end.
Fixpoint clist_discs (alts : clist) : list N :=
  match alts with CNil => [] | CCons d _ r => d :: clist_discs r end.
Definition schema_tags (s : schema) : list N :=
  match strip s with STagChoice alts => clist_discs alts | STag t _ => [t] | SSetOf _ => [258] | _ => [] end.
(* the alternative of a choice that starts with major type m *)
Fixpoint clist_find (m : N) (alts : clist) : option schema :=
  match alts with CNil => None | CCons d s r => if d =? m then Some s else clist_find m r end.
Definition choice_alt (m : N) (s : schema) : schema :=
  match strip s with SChoice alts => match clist_find m alts with Some s' => s' | None => SBool end | _ => SBool end.
Definition untag_s (s : schema) : schema := match strip s with STag _ s' => s' | _ => SBool end.
Definition arity_s (s : schema) : N := match strip s with SArr fs => slen fs | _ => 0 end.

(* ---- rule side ---- *)
Definition deref (r : rule) : rule :=
  match r with RRef id => match lookup conway_env id with Some r' => r' | None => r end | _ => r end.
Definition rule_keys (r : rule) : list (N * bool) :=
  match deref r with RMap fs => sort_by fst (map (fun f => (fst (fst f), snd (fst f))) fs) | _ => [] end.
Definition alt_entry (a : rule) : list (N * N) :=
  match a with RArr (RUint i j :: fs) => if i =? j then [(i, len fs)] else [] | _ => [] end.
Definition rule_variants (r : rule) : list (N * N) :=
  match deref r with RChoice alts => flat_map alt_entry alts | _ => [] end.
Definition alt_tag (a : rule) : list N :=
  match a with RTag t _ => [t] | RChoice l => flat_map (fun x => match x with RTag t _ => [t] | _ => [] end) l | _ => [] end.
Definition rule_tags (r : rule) : list N :=
  match deref r with
  | RChoice alts => flat_map alt_tag alts
  | RTag t _ => [t] | RSet _ _ | RSetAny _ _ => [258] | RRatio _ => [30]
  | _ => []
  end.
Definition rule_alt_tagged (t : N) (r : rule) : rule :=
  match deref r with
  | RChoice alts => match filter (fun a => match a with RTag u _ => u =? t | _ => false end) alts with
                    | RTag _ x :: _ => x | _ => RNull end
  | _ => RNull
  end.
Definition arity_r (r : rule) : N := match deref r with RArr fs => len fs | _ => 0 end.

Definition drop_keys (ks : list N) (l : list (N * bool)) := filter (fun e => negb (existsb (N.eqb (fst e)) ks)) l.
Definition drop_idx (ks : list N) (l : list (N * N)) := filter (fun e => negb (existsb (N.eqb (fst e)) ks)) l.

Definition eqb_nb (a b : N * bool) := (fst a =? fst b) && Bool.eqb (snd a) (snd b).
Definition eqb_nn (a b : N * N) := (fst a =? fst b) && (snd a =? snd b).

(* the comparison itself: one boolean per table *)
Definition tables (d : nat) : list bool := [
  (* map-struct key tables (key, required?) *)
  list_eqb eqb_nb (drop_keys [6] (schema_keys (TransactionBody d))) (rule_keys transaction_body);
  list_eqb eqb_nb (schema_keys (TransactionWitnessSet d)) (rule_keys transaction_witness_set);
  list_eqb eqb_nb (drop_keys [12; 13; 14] (schema_keys ProtocolParamUpdate)) (rule_keys protocol_param_update);
  list_eqb eqb_nb (schema_keys (TransactionOutputMap d)) (rule_keys (nth 2 (match transaction_output with RChoice l => l | _ => [] end) RNull));
  list_eqb eqb_nb (schema_keys (untag_s (choice_alt 6 (AuxiliaryData d))))
                  (rule_keys (match nth 2 (match auxiliary_data with RChoice l => l | _ => [] end) RNull with RTag _ m => m | _ => RNull end));
  (* variant tables (index, number of fields) *)
  list_eqb eqb_nn (drop_idx [5; 6] (schema_variants Certificate)) (rule_variants certificate);
  list_eqb eqb_nn (schema_variants GovernanceAction) (rule_variants gov_action);
  list_eqb eqb_nn (schema_variants Credential) (rule_variants credential);
  list_eqb eqb_nn (schema_variants DRep) (rule_variants drep);
  list_eqb eqb_nn (schema_variants Voter) (rule_variants voter);
  list_eqb eqb_nn (schema_variants Relay) (rule_variants relay);
  list_eqb eqb_nn (schema_variants (NativeScript (S d))) (rule_variants native_script);
  list_eqb eqb_nn (schema_variants (DataOption d)) (rule_variants datum_option);
  list_eqb eqb_nn (schema_variants (match untag_s (ScriptRef d) with SInBytes s => s | _ => SBool end)) (rule_variants script);
  (* fixed arities *)
  arity_s TransactionInput =? arity_r transaction_input;
  arity_s GovernanceActionId =? arity_r gov_action_id;
  arity_s Anchor =? arity_r anchor;
  arity_s VotingProcedure =? arity_r voting_procedure;
  arity_s VotingProposal =? arity_r proposal_procedure;
  arity_s Constitution =? arity_r constitution;
  arity_s PoolMetadata =? arity_r pool_metadata;
  arity_s ProtocolVersion =? arity_r protocol_version;
  arity_s ExUnits =? arity_r ex_units;
  arity_s ExUnitPrices =? arity_r ex_unit_prices;
  arity_s PoolVotingThresholds =? arity_r pool_voting_thresholds;
  arity_s DRepVotingThresholds =? arity_r drep_voting_thresholds;
  arity_s Vkeywitness =? arity_r vkeywitness;
  arity_s BootstrapWitness =? arity_r bootstrap_witness;
  arity_s (Transaction d) =? arity_r transaction;
  arity_s (untag_s UnitInterval) =? 2;
  (* block types; header bodies: the library's two flat shapes against the flat rules, and the Conway rule has 10 items *)
  arity_s VRFCert =? arity_r vrf_cert;
  arity_s OperationalCert =? arity_r operational_cert;
  arity_s Header =? arity_r header;
  arity_s (Block d) =? arity_r block;
  arity_s HeaderBody =? arity_r header_body_tpraos;
  arity_s HeaderBodyPraos =? arity_r header_body_flat_praos;
  arity_r header_body =? 10;
  (* tags *)
  list_eqb N.eqb (schema_tags UnitInterval) (rule_tags unit_interval);
  list_eqb N.eqb (schema_tags TransactionInputs) (rule_tags (RSet 0 transaction_input));
  list_eqb N.eqb (schema_tags Certificates) (rule_tags certificates);
  list_eqb N.eqb (schema_tags VotingProposals) (rule_tags proposal_procedures);
  list_eqb N.eqb (schema_tags Ed25519KeyHashes) (rule_tags required_signers);
  list_eqb N.eqb (schema_tags (WsPlutusList d)) (rule_tags (RSetAny 1 (RRef N_plutus_data)));
  list_eqb N.eqb (schema_tags (choice_alt 6 (AuxiliaryData d))) [259];
  list_eqb N.eqb (rule_tags (nth 2 (match auxiliary_data with RChoice l => l | _ => [] end) RNull)) [259];
  list_eqb N.eqb (schema_tags (ScriptRef d)) (rule_tags script_ref);
  list_eqb N.eqb (sort_by (fun x => x) (schema_tags (choice_alt 6 (PlutusData (S d)))))
                 (sort_by (fun x => x) (rule_tags plutus_data))].
Definition tables_agree (d : nat) : bool := forallb (fun b => b) (tables d).

(* sizes of the compared tables on the CDDL side (guards against comparing two empty lists) *)
Definition table_sizes : list N := [
  len (rule_keys transaction_body); len (rule_keys transaction_witness_set); len (rule_keys protocol_param_update);
  len (rule_keys (nth 2 (match transaction_output with RChoice l => l | _ => [] end) RNull));
  len (rule_keys (match nth 2 (match auxiliary_data with RChoice l => l | _ => [] end) RNull with RTag _ m => m | _ => RNull end));
  len (rule_variants certificate); len (rule_variants gov_action); len (rule_variants credential); len (rule_variants drep);
  len (rule_variants voter); len (rule_variants relay); len (rule_variants native_script); len (rule_variants datum_option);
  len (rule_variants script); len (rule_tags plutus_data); len (rule_tags script_ref); len (rule_tags unit_interval)].
