(* C03, builder clause over HISTORIES.  On C05's builder model (Builder/Scenario.v: the API operations, Builder/Change.v:
   add_change / add_inputs_from_and_change / build_tx, sizes and fees answered by the recorded-answer oracle - nothing
   below depends on the answers), every state reachable from a new builder keeps
       J s  :=  no output carries a zero quantity or an empty policy bundle
             /\ no stored input amount carries one           (push_input normalises, /repo bb8d7fa)
             /\ every mint line is at most int_max            (Int's range; checked by MintBuilder)
   provided change is only computed while no mint line has the stored sum 0 (the condition MintBuilder::build itself
   checks before a transaction is released: [mint_nonzero]).  Hence every output of every transaction build_tx releases
   along such a history is free of zero quantities and empty bundles. *)
From CSL Require Import Base.Prelude Base.U64 Num.Value Num.ValueNorm Cddl.NoZeroAssets Cddl.NormPos Deposits.Deposits
  Builder.Totals Builder.Change Builder.Scenario Cddl.ChangeNoZero.
Local Open Scope N_scope.

Definition inputs_pos (s : state) : bool := forallb (fun e : N * value => value_pos (snd e)) (s_inputs s).
Definition lines_all (P : Z -> bool) (m : mint_map) : bool :=
  forallb (fun e : bytes * mint_assets => forallb (fun nq : bytes * Z => P (snd nq)) (snd e)) m.
Definition mint_bounded (s : state) : bool :=
  match s_mint s with Some m => lines_all (fun z => (z <=? int_max)%Z) m | None => true end.
(* exactly the test of MintBuilder::build (Totals.mint_build): no line whose accumulated quantity is 0 *)
Definition mint_nonzero (s : state) : bool :=
  match s_mint s with Some m => lines_all (fun z => negb (z =? 0)%Z) m | None => true end.

Definition J (s : state) : Prop := outputs_pos s = true /\ inputs_pos s = true /\ mint_bounded s = true.

(* ---- the minted side of the total input ---- *)
Lemma mint_side_assets_pos lines : forall acc,
  forallb (fun nq : bytes * Z => (snd nq <=? int_max)%Z) lines = true ->
  forallb (fun nq : bytes * Z => negb (snd nq =? 0)%Z) lines = true ->
  assets_pos acc = true ->
  assets_pos (fold_left (fun acc (nq : bytes * Z) =>
                 if Bool.eqb (int_is_positive (snd nq)) true
                 then assets_insert (fst nq) (int_as_positive (snd nq)) acc else acc) lines acc) = true.
Proof.
  induction lines as [|[n z] r IH]; intros acc Hb Hz Ha; [exact Ha|]. cbn [fold_left forallb fst snd] in *.
  apply andb_true_iff in Hb as [Hb1 Hb2]. apply andb_true_iff in Hz as [Hz1 Hz2]. apply IH; try assumption.
  destruct (Bool.eqb (int_is_positive z) true) eqn:E; [|exact Ha].
  apply assets_insert_pos; [|exact Ha]. apply Bool.eqb_prop in E. unfold int_is_positive in E.
  unfold int_as_positive, int_max, two64Z in *. apply negb_true_iff in Hz1.
  assert (0 < z <= 18446744073709551615)%Z by lia. rewrite Z.mod_small by lia. lia.
Qed.

Lemma mint_side_fold_pos m : forall acc, ma_pos acc = true ->
  lines_all (fun z => (z <=? int_max)%Z) m = true -> lines_all (fun z => negb (z =? 0)%Z) m = true ->
  ma_pos (fold_left (fun res (e : bytes * mint_assets) =>
               match mint_side_assets true (snd e) with
               | [] => res
               | a => ma_insert (fst e) a res
               end) m acc) = true.
Proof.
  unfold lines_all. induction m as [|[p lines] r IH]; intros acc Ha Hb Hz; [exact Ha|]. cbn [fold_left forallb fst snd] in *.
  apply andb_true_iff in Hb as [Hb1 Hb2]. apply andb_true_iff in Hz as [Hz1 Hz2]. apply IH; try assumption.
  pose proof (mint_side_assets_pos lines assets_new Hb1 Hz1 eq_refl) as Hp. fold (mint_side_assets true lines) in Hp.
  destruct (mint_side_assets true lines) as [|x t] eqn:E; [exact Ha|].
  apply ma_insert_pos; [exact Ha|]. unfold bundle_ok. cbn [negb andb]. exact Hp.
Qed.

Lemma mint_side_pos m : lines_all (fun z => (z <=? int_max)%Z) m = true -> lines_all (fun z => negb (z =? 0)%Z) m = true ->
  ma_pos (mint_side true m) = true.
Proof. intros Hb Hz. unfold mint_side. apply mint_side_fold_pos; [reflexivity|exact Hb|exact Hz]. Qed.

(* ---- the total input ---- *)
Lemma value_sum_pos l : forall acc r, value_pos acc = true -> forallb value_pos l = true -> value_sum acc l = Ok r -> value_pos r = true.
Proof.
  induction l as [|v t IH]; intros acc r Ha Hl H; cbn [value_sum] in H; [injection H as <-; exact Ha|].
  cbn [forallb] in Hl. apply andb_true_iff in Hl as [Hv Ht].
  destruct (value_checked_add acc v) as [a| | |] eqn:E; cbn [bind] in H; try discriminate.
  apply (IH a r); [|exact Ht|exact H]. exact (value_checked_add_pos acc v a Ha Hv E).
Qed.

Lemma implicit_input_pos s i : get_implicit_input s = Ok i -> value_pos i = true.
Proof.
  unfold get_implicit_input. intros H.
  assert (Ha : forall a, (match s_withdrawals s with
                          | Some w => let* tw := get_total_withdrawals (map snd w) in value_checked_add value_zero (value_new tw)
                          | None => Ok value_zero end) = Ok a -> value_pos a = true).
  { intros a E. destruct (s_withdrawals s); [|injection E as <-; reflexivity].
    destruct (get_total_withdrawals _) as [tw| | |]; cbn [bind] in E; try discriminate.
    eapply value_checked_add_pos; [| |exact E]; reflexivity. }
  destruct (match s_withdrawals s with Some w => _ | None => _ end) as [a| | |]; cbn [bind] in H; try discriminate.
  specialize (Ha a eq_refl). destruct (s_certs s); [|injection H as <-; exact Ha].
  destruct (get_certificates_refund _ _ _) as [r| | |]; cbn [bind] in H; try discriminate.
  eapply value_checked_add_pos; [exact Ha| |exact H]. reflexivity.
Qed.

Lemma value_new_from_assets_pos m : ma_pos m = true -> value_pos (value_new_from_assets m) = true.
Proof. intros H. unfold value_new_from_assets, value_new_with_assets. destruct m; [reflexivity|exact H]. Qed.

Theorem total_input_pos_of s : inputs_pos s = true -> mint_bounded s = true -> mint_nonzero s = true -> total_input_pos s = true.
Proof.
  intros Hi Hb Hz. unfold total_input_pos, get_total_input.
  destruct (get_explicit_input s) as [e| | |] eqn:Ee; cbn [bind]; try reflexivity.
  destruct (get_implicit_input s) as [i| | |] eqn:Ei; cbn [bind]; try reflexivity.
  destruct (value_checked_add e i) as [x| | |] eqn:Ex; cbn [bind]; try reflexivity.
  destruct (value_checked_add x (fst (get_mint_as_values s))) as [t| | |] eqn:Et; try reflexivity.
  assert (He : value_pos e = true).
  { unfold get_explicit_input in Ee. eapply value_sum_pos; [| |exact Ee]; [reflexivity|].
    unfold inputs_pos in Hi. rewrite forallb_forall in Hi. apply forallb_forall. intros v Hv.
    apply in_map_iff in Hv as (p & <- & Hp). apply Hi. exact Hp. }
  assert (Hx : value_pos x = true) by (eapply value_checked_add_pos; [exact He|eapply implicit_input_pos; exact Ei|exact Ex]).
  eapply value_checked_add_pos; [exact Hx| |exact Et].
  unfold get_mint_as_values, mint_bounded, mint_nonzero in *. destruct (s_mint s) as [m|]; [|reflexivity].
  cbn [fst]. apply value_new_from_assets_pos. apply mint_side_pos; assumption.
Qed.

(* ---- the frame: J's input and mint parts only read what add_change never writes ---- *)
Lemma rest_parts s s' : rest s' = rest s ->
  inputs_pos s' = inputs_pos s /\ mint_bounded s' = mint_bounded s /\ mint_nonzero s' = mint_nonzero s.
Proof.
  unfold rest, inputs_pos, mint_bounded, mint_nonzero. intros H. injection H as _ Hi _ _ _ Hm _ _ _. rewrite Hi, Hm. repeat split.
Qed.

Definition JZ (s : state) : Prop := J s /\ mint_nonzero s = true.

Lemma inv_JZ s s' : JZ s -> inv (rest s) s' -> JZ s'.
Proof.
  intros [(Ho & Hi & Hb) Hz] [Ho' Hr]. destruct (rest_parts s s' Hr) as (E1 & E2 & E3).
  unfold JZ, J. rewrite E1, E2, E3. repeat split; assumption.
Qed.

Lemma inputs_insert_pos k v m : value_pos v = true -> forallb (fun e : N * value => value_pos (snd e)) m = true ->
  forallb (fun e : N * value => value_pos (snd e)) (inputs_insert k v m) = true.
Proof.
  intros Hv. induction m as [|[k' v'] t IH]; intros Hm; cbn [inputs_insert forallb snd] in *; [rewrite Hv; reflexivity|].
  apply andb_true_iff in Hm as [H1 H2]. destruct (N.compare k k'); cbn [forallb snd]; rewrite ?Hv, ?H1, ?H2, ?IH by assumption; reflexivity.
Qed.

Lemma add_inputs_fold_pos l : forall m, forallb (fun e : N * value => value_pos (snd e)) m = true ->
  forallb (fun e : N * value => value_pos (snd e))
          (fold_left (fun m e => inputs_insert (fst e) (value_without_empty_entries (snd e)) m) l m) = true.
Proof.
  induction l as [|e t IH]; intros m Hm; [exact Hm|]. cbn [fold_left]. apply IH.
  apply inputs_insert_pos; [apply value_without_empty_entries_pos|exact Hm].
Qed.

Section Hist.
  Context {O : Type}.
  Variable orc : @oracle O.

  (* JZ survives the run; a normal result satisfies Q *)
  Definition pres {A} (m : @M O A) (Q : A -> Prop) : Prop :=
    forall s o, JZ s -> JZ (out_st (m s o)) /\ (forall a, out_res (m s o) = Ok a -> Q a).

  Lemma pres_ret {A} (a : A) (Q : A -> Prop) : Q a -> pres (ret a) Q.
  Proof. intros H s o Hs. split; [exact Hs|]. cbn. intros a' E. injection E as <-. exact H. Qed.
  Lemma pres_lift {A} (r : result A) (Q : A -> Prop) : (forall a, r = Ok a -> Q a) -> pres (lift r) Q.
  Proof. intros H s o Hs. split; [exact Hs|]. cbn. exact H. Qed.
  Lemma pres_bind {A B} (m : @M O A) (f : A -> @M O B) (P : A -> Prop) (Q : B -> Prop) :
    pres m P -> (forall a, P a -> pres (f a) Q) -> pres (bindM m f) Q.
  Proof.
    intros Hm Hf s o Hs. destruct (Hm s o Hs) as [I R]. unfold bindM.
    destruct (out_res (m s o)) as [a| | |] eqn:E; cbn; try (split; [exact I|discriminate]).
    exact (Hf a (R a eq_refl) _ _ I).
  Qed.
  Lemma pres_get : pres get (fun s => JZ s).
  Proof. intros s o Hs. split; [exact Hs|]. cbn. intros a E. injection E as <-. exact Hs. Qed.
  Lemma pres_modify (f : state -> state) : (forall s, JZ s -> JZ (f s)) -> pres (modify f) (fun _ => True).
  Proof. intros H s o Hs. split; [apply H; exact Hs|]. intros; exact I. Qed.
  Lemma pres_askF st : pres (askF orc st) (fun _ => True).
  Proof. intros s o Hs. split; [exact Hs|]. intros; exact I. Qed.
  Lemma pres_askT st : pres (askT orc st) (fun _ => True).
  Proof. intros s o Hs. split; [exact Hs|]. intros; exact I. Qed.
  Lemma pres_askSel st u : pres (askSel orc st u) (fun _ => True).
  Proof. intros s o Hs. split; [exact Hs|]. intros; exact I. Qed.
  Lemma pres_catch {A} (m : @M O A) (Q : A -> Prop) : pres m Q -> pres (catch m) (fun _ => True).
  Proof.
    intros H s o Hs. destruct (H s o Hs) as [Hst _]. unfold catch. split; [|intros; exact Logic.I].
    destruct (out_res (m s o)); exact Hst.
  Qed.
  Lemma pres_weaken {A} (m : @M O A) (P Q : A -> Prop) : pres m P -> (forall a, P a -> Q a) -> pres m Q.
  Proof. intros H W s o Hs. destruct (H s o Hs) as [I R]. split; [exact I|]. intros a E. apply W, R, E. Qed.

  (* a [keeps] fact of Cddl/ChangeNoZero.v (outputs + frame), read on JZ *)
  Lemma pres_of_keeps {A} (m : @M O A) : (forall R0, keeps R0 m (fun _ => True)) -> pres m (fun _ => True).
  Proof.
    intros K s o Hs. split; [|intros; exact I]. destruct Hs as [(Ho & Hi & Hb) Hz].
    destruct (K (rest s) s o (conj Ho eq_refl)) as [Hinv _].
    exact (inv_JZ s _ (conj (conj Ho (conj Hi Hb)) Hz) Hinv).
  Qed.

  Lemma pres_add_output x : pres (add_output orc x) (fun _ => True).
  Proof.
    destruct (value_has_empty_entries (o_amount x)) eqn:E.
    - (* refused at the door: the state is untouched *)
      intros s o Hs. unfold add_output, output_acceptable. rewrite E. cbn. split; [exact Hs|discriminate].
    - apply pres_of_keeps. intros R0. apply k_add_output. rewrite value_pos_iff_no_empty_entries, E. reflexivity.
  Qed.

  Lemma pres_add_change fuel addr extra : pres (add_change orc fuel addr extra) (fun _ => True).
  Proof.
    intros s o Hs. split; [|intros; exact I]. destruct Hs as [(Ho & Hi & Hb) Hz].
    apply (inv_JZ s); [exact (conj (conj Ho (conj Hi Hb)) Hz)|].
    apply add_change_keeps_inv; [exact (conj Ho eq_refl)|]. apply total_input_pos_of; assumption.
  Qed.

  Lemma JZ_add_inputs l s : JZ s ->
    JZ (set_s_inputs (fold_left (fun m e => inputs_insert (fst e) (value_without_empty_entries (snd e)) m) l (s_inputs s)) s).
  Proof.
    intros [(Ho & Hi & Hb) Hz]. unfold JZ, J, outputs_pos, inputs_pos, mint_bounded, mint_nonzero in *. cbn.
    repeat split; try assumption. apply add_inputs_fold_pos. exact Hi.
  Qed.

  Lemma pres_add_inputs l : pres (@add_inputs O l) (fun _ => True).
  Proof. unfold add_inputs. apply pres_modify. intros s Hs. apply JZ_add_inputs. exact Hs. Qed.

  Lemma pres_retry_loop fuel addr extra l : pres (retry_loop orc fuel addr extra l) (fun _ => True).
  Proof.
    induction l as [|e r IH]; cbn [retry_loop]; [apply pres_ret; exact I|].
    eapply pres_bind; [apply pres_add_inputs|]. intros _ _.
    eapply pres_bind; [apply (pres_catch _ _ (pres_add_change fuel addr extra))|]. intros res _.
    destruct res; [apply pres_ret; exact I|exact IH].
  Qed.

  Lemma pres_select_and_change fuel utxos addr extra :
    pres (add_inputs_from_and_change orc fuel utxos addr extra) (fun _ => True).
  Proof.
    unfold add_inputs_from_and_change.
    eapply pres_bind; [apply pres_get|]. intros s0 _. eapply pres_bind; [apply pres_askSel|]. intros sel _.
    eapply pres_bind; [apply pres_add_inputs|]. intros _ _.
    destruct (negb (snd sel)); [apply pres_lift; discriminate|].
    eapply pres_bind; [apply pres_get|]. intros s1 _. destruct (s_fee s1); [apply pres_lift; discriminate|].
    eapply pres_bind; [apply (pres_catch _ _ (pres_add_change fuel addr extra))|]. intros res _.
    destruct res; [apply pres_ret; exact I|].
    eapply pres_bind; [apply pres_get|]. intros s2 _.
    eapply pres_bind; [apply pres_retry_loop|]. intros r _. destruct r; [apply pres_ret; exact I|apply pres_lift; discriminate].
  Qed.

  (* build_tx does not write the state; the body it releases is the body of a JZ state *)
  Definition body_pos (b : tx_body) : Prop := forallb (fun x => value_pos (o_amount x)) (b_outputs b) = true.

  Lemma pres_validate_fee : pres (validate_fee orc) (fun _ => True).
  Proof.
    unfold validate_fee. eapply pres_bind; [apply pres_get|]. intros s _.
    destruct (get_fee_if_set s); [|apply pres_lift; discriminate].
    destruct (negb _); [apply pres_lift; discriminate|].
    eapply pres_bind; [apply pres_askF|]. intros mf _. destruct (_ <? mf); [apply pres_lift; discriminate|apply pres_ret; exact I].
  Qed.

  Lemma pres_build_tx : pres (build_tx orc) body_pos.
  Proof.
    unfold build_tx. eapply pres_bind; [apply pres_validate_fee|]. intros _ _.
    eapply pres_bind; [apply pres_get|]. intros s Hs. cbv beta in Hs.
    eapply pres_bind; [apply pres_lift; intros; exact I|]. intros _ _.
    unfold build. eapply pres_bind; [apply pres_get|]. intros s' Hs'. cbv beta in Hs'.
    destruct (get_fee_if_set s'); [|apply pres_lift; discriminate].
    eapply pres_bind; [instantiate (1 := fun _ => True)|].
    - destruct (s_mint s'); [|apply pres_ret; exact I].
      eapply pres_bind; [apply pres_lift; intros; exact I|]. intros _ _. apply pres_ret. exact I.
    - intros _ _. eapply pres_bind; [apply pres_askT|]. intros big _.
      destruct big; [apply pres_lift; discriminate|]. apply pres_ret.
      unfold body_pos, body_of. cbn [b_outputs]. destruct Hs' as [(Ho & _) _]. exact Ho.
  Qed.
End Hist.

(* ---- J alone (the mint may hold a zero line: only add_change needs more) ---- *)
Lemma inv_J s s' : J s -> inv (rest s) s' -> J s'.
Proof.
  intros (Ho & Hi & Hb) [Ho' Hr]. destruct (rest_parts s s' Hr) as (E1 & E2 & _). unfold J. rewrite E1, E2. repeat split; assumption.
Qed.

Section Ops.
  Context {O : Type}.
  Variable orc : @oracle O.

  Lemma J_add_output x s o : J s -> J (out_st (add_output orc x s o)).
  Proof.
    intros Hs. destruct (value_has_empty_entries (o_amount x)) eqn:E.
    - unfold add_output, output_acceptable. rewrite E. cbn. exact Hs.
    - apply (inv_J s); [exact Hs|]. destruct Hs as (Ho & _).
      apply (k_add_output orc (rest s) x); [rewrite value_pos_iff_no_empty_entries, E; reflexivity|exact (conj Ho eq_refl)].
  Qed.

  (* computations that never write the state *)
  Definition rqs {A} (s : state) (m : @M O A) (Q : A -> Prop) : Prop :=
    forall o, out_st (m s o) = s /\ (forall a, out_res (m s o) = Ok a -> Q a).
  Lemma rqs_ret {A} s (a : A) (Q : A -> Prop) : Q a -> rqs s (ret a) Q.
  Proof. intros H o. split; [reflexivity|]. cbn. intros a' E. injection E as <-. exact H. Qed.
  Lemma rqs_lift {A} s (r : result A) (Q : A -> Prop) : (forall a, r = Ok a -> Q a) -> rqs s (lift r) Q.
  Proof. intros H o. split; [reflexivity|]. cbn. exact H. Qed.
  Lemma rqs_get s : rqs s get (fun a => a = s).
  Proof. intros o. split; [reflexivity|]. cbn. intros a E. injection E as <-. reflexivity. Qed.
  Lemma rqs_askF s st : rqs s (askF orc st) (fun _ => True).
  Proof. intros o. split; [reflexivity|]. intros; exact Logic.I. Qed.
  Lemma rqs_askT s st : rqs s (askT orc st) (fun _ => True).
  Proof. intros o. split; [reflexivity|]. intros; exact Logic.I. Qed.
  Lemma rqs_bind {A B} s (m : @M O A) (f : A -> @M O B) (P : A -> Prop) (Q : B -> Prop) :
    rqs s m P -> (forall a, P a -> rqs s (f a) Q) -> rqs s (bindM m f) Q.
  Proof.
    intros Hm Hf o. destruct (Hm o) as [Es R]. unfold bindM.
    destruct (out_res (m s o)) as [a| | |] eqn:E; cbn; try (split; [exact Es|discriminate]).
    rewrite Es. exact (Hf a (R a eq_refl) _).
  Qed.

  Lemma rqs_validate_fee s : rqs s (validate_fee orc) (fun _ => True).
  Proof.
    unfold validate_fee. eapply rqs_bind; [apply rqs_get|]. intros s0 _.
    destruct (get_fee_if_set s0); [|apply rqs_lift; discriminate].
    destruct (negb _); [apply rqs_lift; discriminate|].
    eapply rqs_bind; [apply rqs_askF|]. intros mf _. destruct (_ <? mf); [apply rqs_lift; discriminate|apply rqs_ret; exact Logic.I].
  Qed.

  Lemma rqs_build_tx s : rqs s (build_tx orc) (fun b => b = body_of s).
  Proof.
    unfold build_tx. eapply rqs_bind; [apply rqs_validate_fee|]. intros _ _.
    eapply rqs_bind; [apply rqs_get|]. intros s1 _.
    eapply rqs_bind; [apply rqs_lift; intros; exact Logic.I|]. intros _ _.
    unfold build. eapply rqs_bind; [apply rqs_get|]. intros s2 E2. cbv beta in E2. subst s2.
    destruct (get_fee_if_set s); [|apply rqs_lift; discriminate].
    eapply rqs_bind; [instantiate (1 := fun _ => True)|].
    - destruct (s_mint s); [|apply rqs_ret; exact Logic.I].
      eapply rqs_bind; [apply rqs_lift; intros; exact Logic.I|]. intros _ _. apply rqs_ret. exact Logic.I.
    - intros _ _. eapply rqs_bind; [apply rqs_askT|]. intros big _.
      destruct big; [apply rqs_lift; discriminate|]. apply rqs_ret. reflexivity.
  Qed.
End Ops.

(* ---- histories of the Scenario model ---- *)
Definition change_op_mint_ok (x : op) (s : state) : bool :=
  match x with OpChange _ _ | OpSelectChange _ _ _ => mint_nonzero s | _ => true end.

Lemma pure_op_state s o r : snd (pure_op s o r) = s \/ exists s', r = Ok s' /\ snd (pure_op s o r) = s'.
Proof.
  unfold pure_op. destruct (t_tape o); [|left; reflexivity]. destruct (t_sel o); [left; reflexivity|].
  destruct r as [s'| | |]; [right; exists s'; split; reflexivity|left; reflexivity..].
Qed.

Lemma finish_state {A} (r : out A) okv : snd (finish r okv) = out_st r.
Proof. unfold finish. destruct (_ || _); reflexivity. Qed.

Lemma J_fields s s' : s_outputs s' = s_outputs s -> s_inputs s' = s_inputs s -> s_mint s' = s_mint s -> J s -> J s'.
Proof. unfold J, outputs_pos, inputs_pos, mint_bounded. intros -> -> ->. exact (fun H => H). Qed.

Lemma mint_update_bounded ow p n amt m m' : (amt <=? int_max)%Z = true ->
  lines_all (fun z => (z <=? int_max)%Z) m = true -> mint_update ow p n amt m = Ok m' ->
  lines_all (fun z => (z <=? int_max)%Z) m' = true.
Proof.
  intros Ha Hm. unfold mint_update. destruct (amt =? 0)%Z; [discriminate|]. destruct (amt <? mint_amount_min)%Z; [discriminate|].
  set (a := match am_get bytes_cmp p m with Some a => a | None => [] end).
  assert (Hpa : forallb (fun nq : bytes * Z => (snd nq <=? int_max)%Z) a = true).
  { subst a. destruct (am_get bytes_cmp p m) as [a0|] eqn:E; [|reflexivity].
    destruct (am_get_in _ _ _ _ E) as (k' & Hin). exact (forallb_in _ _ _ Hm Hin). }
  assert (Ins : forall q, (q <=? int_max)%Z = true ->
            lines_all (fun z => (z <=? int_max)%Z) (am_insert bytes_cmp p (am_insert name_cmp n q a) m) = true).
  { intros q Hq. unfold lines_all. apply am_insert_forall; [|exact Hm]. intros k'. cbn [snd].
    apply am_insert_forall; [intros k2; cbn [snd]; exact Hq|exact Hpa]. }
  destruct ow; [intros H; injection H as <-; apply Ins; exact Ha|].
  destruct ((mint_amount_min <=? _) && (_ <=? int_max))%Z eqn:Eb; [|discriminate].
  intros H. injection H as <-. apply Ins. apply andb_true_iff in Eb as [_ Eb]. exact Eb.
Qed.

Theorem run_op_J utxos x s o : J s -> change_op_mint_ok x s = true ->
  J (snd (fst (run_op utxos x s o))) /\
  (forall b, snd (run_op utxos x s o) = Some b -> body_pos b).
Proof.
  intros Hs Hm. destruct x; cbn [run_op fst snd change_op_mint_ok] in *;
    try (split; [|discriminate];
         match goal with |- J (snd (pure_op s o ?r)) =>
           destruct (pure_op_state s o r) as [->|(s' & Er & ->)]; [exact Hs|] end).
  - (* OpInput *) destruct (lookup_utxo utxos id) as [v|]; [|discriminate]. injection Er as <-.
    destruct Hs as (Ho & Hi & Hb). unfold J, outputs_pos, inputs_pos, mint_bounded in *. cbn. repeat split; try assumption.
    apply inputs_insert_pos; [apply value_without_empty_entries_pos|exact Hi].
  - (* OpOutput *) split; [|discriminate]. rewrite finish_state. apply J_add_output. exact Hs.
  - injection Er as <-. revert Hs. apply J_fields; reflexivity.
  - injection Er as <-. revert Hs. apply J_fields; reflexivity.
  - injection Er as <-. revert Hs. apply J_fields; reflexivity.
  - (* OpMint *) destruct ((amt <? int_min) || (int_max <? amt))%Z eqn:Er0; [discriminate|].
    destruct (mint_update overwrite p n amt (opt_mint (s_mint s))) as [m| | |] eqn:Em; cbn [bind] in Er; try discriminate.
    injection Er as <-. destruct Hs as (Ho & Hi & Hb). unfold J, outputs_pos, inputs_pos, mint_bounded in *. cbn.
    repeat split; try assumption. eapply mint_update_bounded; [|
      |exact Em]; [apply orb_false_iff in Er0 as [_ E2]; lia|]. destruct (s_mint s); [exact Hb|reflexivity].
  - injection Er as <-. revert Hs. apply J_fields; reflexivity.
  - unfold set_current_treasury_value in Er. destruct (c =? 0); [discriminate|]. injection Er as <-. revert Hs. apply J_fields; reflexivity.
  - injection Er as <-. revert Hs. apply J_fields; reflexivity.
  - injection Er as <-. revert Hs. apply J_fields; reflexivity.
  - (* OpChange *) split; [|discriminate]. rewrite finish_state.
    exact (proj1 (proj1 (pres_add_change tape_oracle fuel_default addr extra s o (conj Hs Hm)))).
  - (* OpSelectChange *) split; [|discriminate]. rewrite finish_state.
    exact (proj1 (proj1 (pres_select_and_change tape_oracle fuel_default (resolve utxos avail) addr extra s o (conj Hs Hm)))).
  - (* OpBuild *) destruct (rqs_build_tx tape_oracle s o) as [Es R]. split.
    + rewrite finish_state, Es. exact Hs.
    + intros b Eb. destruct (out_res (build_tx tape_oracle s o)) as [b'| | |] eqn:E; try discriminate. injection Eb as <-.
      rewrite (R b' eq_refl). unfold body_pos, body_of. cbn [b_outputs]. exact (proj1 Hs).
Qed.

(* change is only ever computed while no mint line has the stored sum 0 *)
Fixpoint history_ok (utxos : list (N * value)) (l : list (op * tape_state)) (s : state) : bool :=
  match l with
  | [] => true
  | (x, o) :: r => change_op_mint_ok x s && history_ok utxos r (snd (fst (run_op utxos x s o)))
  end.

Theorem run_ops_J utxos l : forall s, J s -> history_ok utxos l s = true ->
  J (snd (fst (run_ops utxos l s))) /\ (forall b, snd (run_ops utxos l s) = Some b -> body_pos b).
Proof.
  induction l as [|[x o] r IH]; intros s Hs Hh; cbn [run_ops history_ok] in *; [split; [exact Hs|discriminate]|].
  apply andb_true_iff in Hh as [H1 H2]. destruct (run_op_J utxos x s o Hs H1) as [J1 B1].
  destruct (run_op utxos x s o) as [[res s'] tx] eqn:E. cbn [fst snd] in *.
  destruct (IH s' J1 H2) as [J2 B2]. destruct (run_ops utxos r s') as [[rs s''] tx'] eqn:E'. cbn [fst snd] in *.
  split; [exact J2|]. intros b Hb. destruct tx' as [b'|]; [injection Hb as <-; apply B2; reflexivity|].
  destruct res; try discriminate. apply B1. exact Hb.
Qed.

Lemma J_new cfg : J (new_state cfg).
Proof. repeat split. Qed.

(* every transaction released along a history from a NEW builder has outputs free of zero quantities and empty bundles *)
Theorem builder_histories_no_zero_assets cfg utxos l : history_ok utxos l (new_state cfg) = true ->
  forall b, snd (run_ops utxos l (new_state cfg)) = Some b -> body_pos b.
Proof. intros H. exact (proj2 (run_ops_J utxos l (new_state cfg) (J_new cfg) H)). Qed.
