(* Every ledger schema is well-formed (so the generic round-trip theorem applies to it),
   the depth-unrolled recursive ones for EVERY depth. *)
From CSL Require Import Base.Prelude Codec.Schema Codec.SchemaProofs Ledger.Schemas.
Local Open Scope N_scope.

Lemma disc_fresh_tag_run n : forall lo d s rest,
  disc_fresh d (tag_run lo n s rest) = negb ((lo <=? d) && (d <? lo + N.of_nat n)) && disc_fresh d rest.
Proof.
  induction n as [|n IH]; intros lo d s rest; cbn [tag_run].
  - replace (d <? lo + N.of_nat 0) with (d <? lo) by (f_equal; lia).
    destruct (lo <=? d) eqn:E1, (d <? lo) eqn:E2; try reflexivity; lia.
  - cbn [disc_fresh]. rewrite IH.
    destruct (d =? lo) eqn:E0, (lo <=? d) eqn:E1, (lo + 1 <=? d) eqn:E2, (d <? lo + 1 + N.of_nat n) eqn:E3,
             (d <? lo + N.of_nat (S n)) eqn:E4; cbn [negb andb]; try reflexivity; lia.
Qed.

Lemma wfs_cl_tag_run n : forall lo s rest,
  wfs s = true -> lo + N.of_nat n <= two64 ->
  (forall t, lo <= t < lo + N.of_nat n -> disc_fresh t rest = true) ->
  wfs_cl true rest = true -> wfs_cl true (tag_run lo n s rest) = true.
Proof.
  induction n as [|n IH]; intros lo s rest Hs Hb Hf Hr; cbn [tag_run]; [exact Hr|].
  cbn [wfs_cl]. rewrite Hs. rewrite disc_fresh_tag_run. rewrite Hf by lia.
  replace ((lo + 1 <=? lo) && (lo <? lo + 1 + N.of_nat n)) with false by (destruct (lo + 1 <=? lo) eqn:E; [lia|reflexivity]).
  rewrite IH by (try assumption; try lia; intros t Ht; apply Hf; lia).
  cbn [andb negb]. unfold two64 in *. lia.
Qed.

(* recursive families *)
Lemma fm_NativeScript d : first_major (NativeScript d) = Some 4.  Proof. destruct d; reflexivity. Qed.
Lemma ms7_NativeScript d : may_start7 (NativeScript d) = false.  Proof. destruct d; reflexivity. Qed.
Lemma wf_NativeScript d : wfs (NativeScript d) = true.
Proof. induction d as [|d IH]; [reflexivity|]. cbn [NativeScript var al sl wfs wfs_vl wfs_sl]. rewrite IH. reflexivity. Qed.

Lemma fm_Metadatum d : first_major (Metadatum d) = None.  Proof. destruct d; reflexivity. Qed.
Lemma ms7_Metadatum d : may_start7 (Metadatum d) = false.  Proof. destruct d; reflexivity. Qed.
Lemma wf_Metadatum d : wfs (Metadatum d) = true.
Proof. induction d as [|d IH]; [reflexivity|]. cbn [Metadatum choice cl wfs wfs_cl]. rewrite IH. reflexivity. Qed.

Lemma fm_PlutusData d : first_major (PlutusData d) = None.  Proof. destruct d; reflexivity. Qed.
Lemma ms7_PlutusData d : may_start7 (PlutusData d) = false.  Proof. destruct d; reflexivity. Qed.
Lemma wf_PlutusData d : wfs (PlutusData d) = true.
Proof.
  induction d as [|d IH]; [reflexivity|].
  assert (Hf : wfs (SArrAny (PlutusData d)) = true) by (cbn [wfs]; rewrite IH, ms7_PlutusData; reflexivity).
  cbn [PlutusData choice cl wfs wfs_cl first_major]. rewrite IH, ms7_PlutusData.
  rewrite wfs_cl_tag_run; [reflexivity|exact Hf|unfold two64; cbn; lia| |].
  - intros t Ht. rewrite disc_fresh_tag_run.
    cbn [cl disc_fresh]. cbn in Ht.
    destruct (1280 <=? t) eqn:E1; [lia|]. destruct (t =? 102) eqn:E2; [lia|].
    destruct (t =? 2) eqn:E3; [lia|]. destruct (t =? 3) eqn:E4; [lia|]. reflexivity.
  - apply wfs_cl_tag_run; [exact Hf|unfold two64; cbn; lia| |].
    + intros t Ht. cbn [cl disc_fresh]. cbn in Ht.
      destruct (t =? 102) eqn:E2; [lia|]. destruct (t =? 2) eqn:E3; [lia|]. destruct (t =? 3) eqn:E4; [lia|]. reflexivity.
    + cbn [cl wfs_cl arr sl wfs wfs_sl]. rewrite IH, ms7_PlutusData. reflexivity.
Qed.

Ltac wf_tac :=
  repeat (progress (cbn [wfs wfs_sl wfs_kl wfs_vl wfs_cl sl kl al cl arr mapS var choice
                         NativeScripts WsNativeScripts PlutusList WsPlutusList RedeemersMap RedeemersArr Redeemers
                         GeneralTransactionMetadata AuxiliaryData DataOption ScriptRef
                         TransactionOutputMap TransactionOutput TransactionOutputs AddressS RewardAddressS TransactionBody
                         TransactionWitnessSet Transaction Block BlockPraos MetadataList MetadataMap PlutusMap ConstrPlutusData Redeemer
                         TransactionBodies TransactionWitnessSets TransactionUnspentOutput
                         ScriptAll ScriptAny ScriptNOfK VersionedBlock FixedTransaction not_major7 first_major may_start7 has_disc];
                    rewrite ?wf_NativeScript, ?wf_Metadatum, ?wf_PlutusData,
                            ?fm_NativeScript, ?fm_Metadatum, ?fm_PlutusData,
                            ?ms7_NativeScript, ?ms7_Metadatum, ?ms7_PlutusData));
  reflexivity.

Lemma wf_TransactionOutput d : wfs (TransactionOutput d) = true.  Proof. wf_tac. Qed.
Lemma wf_TransactionBody d : wfs (TransactionBody d) = true.  Proof. wf_tac. Qed.
Lemma wf_TransactionWitnessSet d : wfs (TransactionWitnessSet d) = true.  Proof. wf_tac. Qed.
Lemma wf_AuxiliaryData d : wfs (AuxiliaryData d) = true.  Proof. wf_tac. Qed.
Lemma wf_Transaction d : wfs (Transaction d) = true.  Proof. wf_tac. Qed.

Theorem ledger_schemas_wf d : Forall (fun s => wfs s = true) (ledger_schemas d).
Proof. unfold ledger_schemas. repeat (constructor; [wf_tac|]). constructor. Qed.

Lemma wf_ConstrPlutusData d : wfs (ConstrPlutusData d) = true.
Proof.
  assert (Hf : wfs (SArrAny (PlutusData d)) = true) by (cbn [wfs]; rewrite wf_PlutusData, ms7_PlutusData; reflexivity).
  unfold ConstrPlutusData. cbn [wfs].
  rewrite wfs_cl_tag_run; [reflexivity|exact Hf|unfold two64; cbn; lia| |].
  - intros t Ht. rewrite disc_fresh_tag_run.
    cbn [cl disc_fresh]. cbn in Ht.
    destruct (1280 <=? t) eqn:E1; [lia|]. destruct (t =? 102) eqn:E2; [lia|]. reflexivity.
  - apply wfs_cl_tag_run; [exact Hf|unfold two64; cbn; lia| |].
    + intros t Ht. cbn [cl disc_fresh]. cbn in Ht. destruct (t =? 102) eqn:E2; [lia|]. reflexivity.
    + cbn [cl wfs_cl arr sl wfs wfs_sl]. rewrite wf_PlutusData, ms7_PlutusData. reflexivity.
Qed.

Theorem ledger_schemas_more_wf d : Forall (fun s => wfs s = true) (ledger_schemas_more d).
Proof.
  unfold ledger_schemas_more.
  repeat (constructor; [first [apply wf_ConstrPlutusData | wf_tac]|]). constructor.
Qed.
