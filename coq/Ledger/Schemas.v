(* Wire shapes of the ledger types as data for the schema interpreter (Codec/Schema.v).
   Read from /repo/rust/src/serialization (see notes/wire-shapes.md).  These schemas are MODEL,
   not spec: whether [schema_T] describes the Rust type T is decided by the correspondence run. *)
From CSL Require Import Base.Prelude Codec.Schema.
Local Open Scope N_scope.

Fixpoint sl (l : list schema) : slist := match l with [] => SNil | s :: r => SCons s (sl r) end.
Fixpoint kl (l : list (N * presence * schema)) : klist :=
  match l with [] => KNil | (k, p, s) :: r => KCons k p s (kl r) end.
Fixpoint al (l : list (N * list schema)) : vlist :=
  match l with [] => ANil | (i, fs) :: r => ACons i (sl fs) (al r) end.
Fixpoint cl (l : list (N * schema)) : clist :=
  match l with [] => CNil | (d, s) :: r => CCons d s (cl r) end.
(* n consecutive tags lo, lo+1, ... with the same content schema, followed by [rest] *)
Fixpoint tag_run (lo : N) (n : nat) (s : schema) (rest : clist) : clist :=
  match n with O => rest | S n' => CCons lo s (tag_run (lo + 1) n' s rest) end.

Definition arr (l : list schema) := SArr (sl l).
Definition mapS (l : list (N * presence * schema)) := SMap (kl l).
Definition var (l : list (N * list schema)) := SVar (al l).
Definition choice (l : list (N * schema)) := SChoice (cl l).

Definition U64 := SUint 18446744073709551616.
Definition U32 := SUint 4294967296.
Definition U16 := SUint 65536.
Definition U8 := SUint 256.
Definition Coin := U64.
Definition H28 := SBytes 28 28.
Definition H32 := SBytes 32 32.
Definition IntS := choice [(0, U64); (1, SNint)].                  (* Int: uint / nint *)

(* Names for nodes whose writer image is narrower than the schema (see [writer_form] below). *)
Definition ID_ADDRESS : N := 1.
Definition ID_REWARD_ADDRESS : N := 2.
Definition ID_OUTPUT_MAP : N := 3.
Definition ID_AUX_ALONZO : N := 4.
Definition ID_VALUE_MA : N := 5.
Definition ID_BIGNUM_BYTES : N := 6.
Definition ID_CONSTR_GENERAL : N := 7.

(* addresses travel as byte strings; [writer_form] restricts them to valid Shelley address bytes *)
(* up to 59 bytes: a pointer address with three 10-byte variable-length naturals *)
Definition AddressS := SNamed ID_ADDRESS (SBytes 29 59).
Definition RewardAddressS := SNamed ID_REWARD_ADDRESS (SBytes 29 29).

Definition TransactionInput := arr [H32; U32].
Definition TransactionInputs := SSetOf TransactionInput.
Definition Credential := var [(0, [H28]); (1, [H28])].
Definition Credentials := SSetOf Credential.
Definition Ed25519KeyHashes := SSetOf H28.
Definition DRep := var [(0, [H28]); (1, [H28]); (2, []); (3, [])].
Definition URL := SText 128.
Definition Anchor := arr [URL; H32].
Definition UnitInterval := STag 30 (arr [U64; U64]).
Definition Ipv4 := SBytes 4 4.
Definition Ipv6 := SBytes 16 16.
Definition DNSName := SText 128.
Definition Relay := var [(0, [SNullable U16; SNullable Ipv4; SNullable Ipv6]);
                         (1, [SNullable U16; DNSName]);
                         (2, [DNSName])].
Definition Relays := SArrOf 0 Relay.
Definition PoolMetadata := arr [URL; H32].
Definition ProtocolVersion := arr [U32; U32].
Definition ExUnits := arr [U64; U64].
Definition ExUnitPrices := arr [UnitInterval; UnitInterval].
Definition Nonce := var [(0, []); (1, [H32])].
Definition MIRToStakeCredentials := SMapOf 0 KInsertion Credential IntS.   (* LinkedHashMap: insertion order *)
Definition MoveInstantaneousReward :=
  arr [SUint 2; choice [(0, Coin); (5, MIRToStakeCredentials)]].

Definition Certificate := var [
  (0, [Credential]);
  (1, [Credential]);
  (2, [Credential; H28]);
  (3, [H28; H32; Coin; Coin; UnitInterval; RewardAddressS; Ed25519KeyHashes; Relays; SNullable PoolMetadata]);
  (4, [H28; U32]);
  (5, [H28; H28; H32]);
  (6, [MoveInstantaneousReward]);
  (7, [Credential; Coin]);
  (8, [Credential; Coin]);
  (9, [Credential; DRep]);
  (10, [Credential; H28; DRep]);
  (11, [Credential; H28; Coin]);
  (12, [Credential; DRep; Coin]);
  (13, [Credential; H28; DRep; Coin]);
  (14, [Credential; Credential]);
  (15, [Credential; SNullable Anchor]);
  (16, [Credential; Coin; SNullable Anchor]);
  (17, [Credential; Coin]);
  (18, [Credential; SNullable Anchor])].
Definition Certificates := SSetOf Certificate.

(* values and assets *)
Definition AssetNameS := SBytes 0 32.
(* Assets / MultiAsset / MintAssets / Mint may be empty (stand-alone, and an empty Assets under a policy);
   a Value is written with its multiasset iff some policy has a non-empty Assets ([writer_form]);
   Mint is a Vec of pairs: `insert` appends, the same policy id may occur several times *)
Definition Assets := SMapOf 0 KBytewise AssetNameS Coin.
Definition MultiAsset := SMapOf 0 KBytewise H28 Assets.
Definition Value := choice [(0, Coin); (4, SNamed ID_VALUE_MA (arr [Coin; MultiAsset]))].
Definition MintAssets := SMapOf 0 KBytewise AssetNameS IntS.
Definition Mint := SMapOf 0 KMulti H28 MintAssets.
Definition Withdrawals := SMapOf 0 KInsertion RewardAddressS Coin.

(* governance *)
Definition Voter := var [(0, [H28]); (1, [H28]); (2, [H28]); (3, [H28]); (4, [H28])].
Definition GovernanceActionId := arr [H32; U32].
Definition VotingProcedure := arr [SUint 3; SNullable Anchor].
Definition VotingProcedures := SMapOf 0 KBytewise Voter (SMapOf 1 KBytewise GovernanceActionId VotingProcedure).
Definition Costmdls := SMapOf 0 KBytewise (SUint 3) (SArrOf 0 IntS).
Definition PoolVotingThresholds := arr [UnitInterval; UnitInterval; UnitInterval; UnitInterval; UnitInterval].
Definition DRepVotingThresholds :=
  arr [UnitInterval; UnitInterval; UnitInterval; UnitInterval; UnitInterval;
       UnitInterval; UnitInterval; UnitInterval; UnitInterval; UnitInterval].
Definition ProtocolParamUpdate := mapS [
  (0, Opt, Coin); (1, Opt, Coin); (2, Opt, U32); (3, Opt, U32); (4, Opt, U32); (5, Opt, Coin); (6, Opt, Coin);
  (7, Opt, U32); (8, Opt, U32); (9, Opt, UnitInterval); (10, Opt, UnitInterval); (11, Opt, UnitInterval);
  (12, Opt, UnitInterval); (13, Opt, Nonce); (14, Opt, ProtocolVersion); (16, Opt, Coin); (17, Opt, Coin);
  (18, Opt, Costmdls); (19, Opt, ExUnitPrices); (20, Opt, ExUnits); (21, Opt, ExUnits); (22, Opt, U32);
  (23, Opt, U32); (24, Opt, U32); (25, Opt, PoolVotingThresholds); (26, Opt, DRepVotingThresholds);
  (27, Opt, U32); (28, Opt, U32); (29, Opt, U32); (30, Opt, Coin); (31, Opt, Coin); (32, Opt, U32);
  (33, Opt, UnitInterval)].
Definition TreasuryWithdrawals := SMapOf 0 KRewardAddr RewardAddressS Coin.
Definition Constitution := arr [Anchor; SNullable H28].
Definition GovernanceAction := var [
  (0, [SNullable GovernanceActionId; ProtocolParamUpdate; SNullable H28]);
  (1, [SNullable GovernanceActionId; ProtocolVersion]);
  (2, [TreasuryWithdrawals; SNullable H28]);
  (3, [SNullable GovernanceActionId]);
  (4, [SNullable GovernanceActionId; Credentials; SMapOf 0 KBytewise Credential U32; UnitInterval]);
  (5, [SNullable GovernanceActionId; Constitution]);
  (6, [])].
Definition VotingProposal := arr [Coin; RewardAddressS; GovernanceAction; Anchor].
Definition VotingProposals := SSetOf VotingProposal.
Definition ProposedProtocolParameterUpdates := SMapOf 0 KInsertion H28 ProtocolParamUpdate.
Definition Update := arr [ProposedProtocolParameterUpdates; U32].

(* scripts: recursion by unrolling to a depth; the theorems quantify over every depth *)
Fixpoint NativeScript (d : nat) : schema :=
  match d with
  | O => var [(0, [H28]); (4, [U64]); (5, [U64])]
  | S d' => var [(0, [H28]); (1, [SArrOf 0 (NativeScript d')]); (2, [SArrOf 0 (NativeScript d')]);
                 (3, [U32; SArrOf 0 (NativeScript d')]); (4, [U64]); (5, [U64])]
  end.
Definition NativeScripts (d : nat) := SArrOf 0 (NativeScript d).        (* stand-alone form: plain array *)
Definition WsNativeScripts (d : nat) := SSetOf (NativeScript d).         (* witness-set field *)
Definition PlutusScriptBytes := SBytes 0 18446744073709551615.
Definition PlutusScripts := SArrOf 0 PlutusScriptBytes.
Definition WsPlutusScripts := SSetOf PlutusScriptBytes.

(* Plutus data *)
Fixpoint PlutusData (d : nat) : schema :=
  match d with
  | O => choice [(6, STagChoice (cl [(2, SBBytes); (3, SBBytes)])); (0, U64); (1, SNint); (2, SBBytes)]
  | S d' =>
    let p := PlutusData d' in
    let fields := SArrAny p in
    choice [(6, STagChoice (tag_run 121 7 fields (tag_run 1280 121 fields
                  (cl [(102, arr [U64; fields]); (2, SBBytes); (3, SBBytes)]))));
            (5, SMapOf 0 KMulti p p); (4, fields); (0, U64); (1, SNint); (2, SBBytes)]
  end.
Definition PlutusList (d : nat) := SArrAny (PlutusData d).
Definition WsPlutusList (d : nat) := STag 258 (SArrAny (PlutusData d)).
Definition RedeemerTag := SUint 6.
Definition RedeemersMap (d : nat) := SMapOf 0 KMulti (arr [RedeemerTag; U64]) (arr [PlutusData d; ExUnits]).   (* Vec: `add` appends *)
Definition RedeemersArr (d : nat) := SArrOf 0 (arr [RedeemerTag; U64; PlutusData d; ExUnits]).
Definition Redeemers (d : nat) := choice [(5, RedeemersMap d); (4, RedeemersArr d)].

(* metadata *)
Fixpoint Metadatum (d : nat) : schema :=
  match d with
  | O => choice [(0, U64); (1, SNint); (2, SBytes 0 64); (3, SText 64)]
  | S d' => let m := Metadatum d' in
            choice [(5, SMapOf 0 KInsertion m m); (4, SArrOf 0 m); (0, U64); (1, SNint); (2, SBytes 0 64); (3, SText 64)]
  end.
Definition GeneralTransactionMetadata (d : nat) := SMapOf 0 KInsertion U64 (Metadatum d).
Definition AuxiliaryData (d : nat) := choice [
  (5, GeneralTransactionMetadata d);
  (4, arr [GeneralTransactionMetadata d; SArrOf 0 (NativeScript d)]);
  (6, STag 259 (SNamed ID_AUX_ALONZO
                 (mapS [(0, Opt, GeneralTransactionMetadata d); (1, Opt, SArrOf 0 (NativeScript d));
                        (2, Opt, SArrOf 0 PlutusScriptBytes); (3, Opt, SArrOf 1 PlutusScriptBytes);
                        (4, Opt, SArrOf 1 PlutusScriptBytes)])))].

(* outputs *)
Definition DataOption (d : nat) := var [(0, [H32]); (1, [STag 24 (SInBytes (PlutusData d))])].
Definition ScriptRef (d : nat) :=
  STag 24 (SInBytes (var [(0, [NativeScript d]); (1, [PlutusScriptBytes]); (2, [PlutusScriptBytes]); (3, [PlutusScriptBytes])])).
Definition TransactionOutputLegacy := arr [AddressS; Value].
Definition TransactionOutputLegacyDH := arr [AddressS; Value; H32].
Definition TransactionOutputMap (d : nat) :=
  SNamed ID_OUTPUT_MAP (mapS [(0, Req, AddressS); (1, Req, Value); (2, Opt, DataOption d); (3, Opt, ScriptRef d)]).
(* legacy array form, with or without the data hash as third item; post-Alonzo map form *)
Definition TransactionOutputArr := SArrOpt (sl [AddressS; Value]) H32.
Definition TransactionOutput (d : nat) := choice [(4, TransactionOutputArr); (5, TransactionOutputMap d)].
Definition TransactionOutputs (d : nat) := SArrOf 0 (TransactionOutput d).

Definition TransactionBody (d : nat) := mapS [
  (0, Req, TransactionInputs); (1, Req, TransactionOutputs d); (2, Req, Coin); (3, Opt, U64);
  (4, OptNE, Certificates); (5, OptNE, Withdrawals); (6, Opt, Update); (7, Opt, H32); (8, Opt, U64);
  (9, OptNE, Mint); (11, Opt, H32); (13, OptNE, TransactionInputs); (14, OptNE, Ed25519KeyHashes);
  (15, Opt, SUint 2); (16, Opt, TransactionOutput d); (17, Opt, Coin); (18, OptNE, TransactionInputs);
  (19, OptNE, VotingProcedures); (20, OptNE, VotingProposals); (21, Opt, Coin); (22, Opt, Coin)].

(* witnesses *)
Definition Vkeywitness := arr [H32; SBytes 64 64].
Definition Vkeywitnesses := SSetOf Vkeywitness.
(* the chain code is read and written as a byte string of any length (BootstrapWitness::new takes any Vec<u8>) *)
Definition BootstrapWitness := arr [H32; SBytes 64 64; SBytes 0 18446744073709551615; SBytes 0 18446744073709551615].
Definition BootstrapWitnesses := SSetOf BootstrapWitness.
Definition TransactionWitnessSet (d : nat) := mapS [
  (0, OptNE, Vkeywitnesses); (1, OptNE, WsNativeScripts d); (2, OptNE, BootstrapWitnesses);
  (3, OptNE, WsPlutusScripts); (6, OptNE, WsPlutusScripts); (7, OptNE, WsPlutusScripts);
  (4, OptNE, WsPlutusList d); (5, OptNE, Redeemers d)].     (* the writer's order: 0 1 2 3 6 7 4 5 *)

Definition Transaction (d : nat) :=
  arr [TransactionBody d; TransactionWitnessSet d; SBool; SNullable (AuxiliaryData d)].

(* blocks *)
Definition VRFCert := arr [SBytes 0 18446744073709551615; SBytes 80 80].
Definition OperationalCert := arr [H32; U32; U32; SBytes 64 64].
(* the header body is written flat (operational certificate and protocol version as embedded groups):
   15 items with the TPraos pair of VRF certificates, 14 with the single Praos VRF result *)
Definition HeaderBodyTPraos := arr [U32; U64; SNullable H32; H32; H32; VRFCert; VRFCert; U32; H32;
                                    H32; U32; U32; SBytes 64 64; U32; U32].
Definition HeaderBodyPraos := arr [U32; U64; SNullable H32; H32; H32; VRFCert; U32; H32;
                                   H32; U32; U32; SBytes 64 64; U32; U32].
Definition HeaderBody := HeaderBodyTPraos.
Definition Header := arr [HeaderBody; SBytes 448 448].
Definition HeaderPraos := arr [HeaderBodyPraos; SBytes 448 448].
Definition Block (d : nat) := arr [Header; SArrOf 0 (TransactionBody d); SArrOf 0 (TransactionWitnessSet d);
                                   SMapOf 0 KInsertion U32 (AuxiliaryData d); SArrOf 0 U32].   (* LinkedHashMap *)
Definition BlockPraos (d : nat) := arr [HeaderPraos; SArrOf 0 (TransactionBody d); SArrOf 0 (TransactionWitnessSet d);
                                        SMapOf 0 KInsertion U32 (AuxiliaryData d); SArrOf 0 U32].

(* The image of the library's writers inside the schema-valid values, where a constraint spans several
   fields or concerns byte content (used by the judge to delimit "values built through the API"):
   - an address is valid Shelley address bytes (header nibble consistent with the length);
   - the map form of an output is only written when it has an inline datum or a script reference;
   - in Alonzo-format auxiliary data the Plutus V1 list (key 2) is written whenever any Plutus script list is;
   - a Value is written as [coin, multiasset] only when some policy of the multiasset has a non-empty Assets;
   - a stand-alone BigInt uses the bignum tags only for 9 or more bytes without a leading zero;
   - a stand-alone ConstrPlutusData uses the general form (tag 102) only for alternatives above 127. *)
Definition writer_form (id : N) (v : val) : bool :=
  if id =? ID_ADDRESS then
    match v with
    | VBytes (h :: t) =>
        let k := h / 16 in
        if k <? 4 then N.of_nat (length t) =? 56
        else if (k =? 6) || (k =? 7) || (k =? 14) || (k =? 15) then N.of_nat (length t) =? 28
        else false
    | _ => false
    end
  else if id =? ID_REWARD_ADDRESS then
    match v with
    | VBytes (h :: t) => ((h / 16 =? 14) || (h / 16 =? 15)) && (N.of_nat (length t) =? 28)
    | _ => false
    end
  else if id =? ID_OUTPUT_MAP then
    match v with
    | VStruct [_; _; d; r] =>
        match d, r with
        | Some (VVar (S O) _), _ => true
        | _, Some _ => true
        | _, _ => false
        end
    | _ => false
    end
  else if id =? ID_VALUE_MA then
    match v with
    | VList [_; VMap l] => existsb (fun kv => match snd kv with VMap (_ :: _) => true | _ => false end) l
    | _ => false
    end
  else if id =? ID_BIGNUM_BYTES then
    match v with
    | VBytes (h :: t) => negb (h =? 0) && (8 <=? N.of_nat (length t))
    | _ => false
    end
  else if id =? ID_CONSTR_GENERAL then
    match v with
    | VList (VNat alt :: _) => 128 <=? alt
    | _ => false
    end
  else if id =? ID_AUX_ALONZO then
    match v with
    | VStruct [_; _; p1; p2; p3] =>
        match p1, p2, p3 with
        | None, Some _, _ => false
        | None, _, Some _ => false
        | _, _, _ => true
        end
    | _ => false
    end
  else true.

(* the table the round-trip theorem is instantiated on (C01); names are kept by the driver *)
Definition ledger_schemas (d : nat) : list schema := [
  TransactionInput; TransactionInputs; Credential; Credentials; Ed25519KeyHashes; DRep; Anchor; UnitInterval;
  Relay; Relays; PoolMetadata; ProtocolVersion; ExUnits; ExUnitPrices; Nonce; MoveInstantaneousReward;
  Certificate; Certificates; Assets; MultiAsset; Value; MintAssets; Mint; Withdrawals; Voter; GovernanceActionId;
  VotingProcedure; VotingProcedures; Costmdls; PoolVotingThresholds; DRepVotingThresholds; ProtocolParamUpdate;
  TreasuryWithdrawals; Constitution; GovernanceAction; VotingProposal; VotingProposals;
  ProposedProtocolParameterUpdates; Update; NativeScript d; NativeScripts d; PlutusScripts; PlutusData d;
  PlutusList d; Redeemers d; Metadatum d; GeneralTransactionMetadata d; AuxiliaryData d; DataOption d; ScriptRef d;
  TransactionOutputLegacy; TransactionOutputLegacyDH; TransactionOutputMap d; TransactionOutput d;
  TransactionOutputs d; TransactionBody d; Vkeywitness; Vkeywitnesses; BootstrapWitness; BootstrapWitnesses;
  TransactionWitnessSet d; Transaction d; VRFCert; OperationalCert; HeaderBody; Header; Block d; IntS;
  WsNativeScripts d; WsPlutusScripts; WsPlutusList d; HeaderBodyPraos; HeaderPraos].

(* ---- stand-alone forms of the members of the variant types and further public types with to_bytes/from_bytes ---- *)
Definition StakeRegistration := var [(0, [Credential]); (7, [Credential; Coin])].
Definition StakeDeregistration := var [(1, [Credential]); (8, [Credential; Coin])].
Definition StakeDelegation := var [(2, [Credential; H28])].
Definition PoolParams := arr [H28; H32; Coin; Coin; UnitInterval; RewardAddressS; Ed25519KeyHashes; Relays; SNullable PoolMetadata].
Definition PoolRegistration :=
  var [(3, [H28; H32; Coin; Coin; UnitInterval; RewardAddressS; Ed25519KeyHashes; Relays; SNullable PoolMetadata])].
Definition PoolRetirement := var [(4, [H28; U32])].
Definition GenesisKeyDelegation := var [(5, [H28; H28; H32])].
Definition MoveInstantaneousRewardsCert := var [(6, [MoveInstantaneousReward])].
Definition VoteDelegation := var [(9, [Credential; DRep])].
Definition StakeAndVoteDelegation := var [(10, [Credential; H28; DRep])].
Definition StakeRegistrationAndDelegation := var [(11, [Credential; H28; Coin])].
Definition VoteRegistrationAndDelegation := var [(12, [Credential; DRep; Coin])].
Definition StakeVoteRegistrationAndDelegation := var [(13, [Credential; H28; DRep; Coin])].
Definition CommitteeHotAuth := var [(14, [Credential; Credential])].
Definition CommitteeColdResign := var [(15, [Credential; SNullable Anchor])].
Definition DRepRegistration := var [(16, [Credential; Coin; SNullable Anchor])].
Definition DRepDeregistration := var [(17, [Credential; Coin])].
Definition DRepUpdate := var [(18, [Credential; SNullable Anchor])].
Definition SingleHostAddr := var [(0, [SNullable U16; SNullable Ipv4; SNullable Ipv6])].
Definition SingleHostName := var [(1, [SNullable U16; DNSName])].
Definition MultiHostName := var [(2, [DNSName])].
Definition Committee := arr [SMapOf 0 KBytewise Credential U32; UnitInterval].
Definition ParameterChangeAction := var [(0, [SNullable GovernanceActionId; ProtocolParamUpdate; SNullable H28])].
Definition HardForkInitiationAction := var [(1, [SNullable GovernanceActionId; ProtocolVersion])].
Definition TreasuryWithdrawalsAction := var [(2, [TreasuryWithdrawals; SNullable H28])].
Definition NoConfidenceAction := var [(3, [SNullable GovernanceActionId])].
Definition UpdateCommitteeAction :=
  var [(4, [SNullable GovernanceActionId; Credentials; SMapOf 0 KBytewise Credential U32; UnitInterval])].
Definition NewConstitutionAction := var [(5, [SNullable GovernanceActionId; Constitution])].
Definition MetadataList (d : nat) := SArrOf 0 (Metadatum d).
Definition MetadataMap (d : nat) := SMapOf 0 KInsertion (Metadatum d) (Metadatum d).
Definition PlutusMap (d : nat) := SMapOf 0 KMulti (PlutusData d) (PlutusData d).
(* stand-alone (no original bytes are kept): the general form is written only for alternatives above 127 *)
Definition ConstrPlutusData (d : nat) :=
  let fields := SArrAny (PlutusData d) in
  STagChoice (tag_run 121 7 fields (tag_run 1280 121 fields (cl [(102, SNamed ID_CONSTR_GENERAL (arr [U64; fields]))]))).
(* stand-alone BigInt: the bignum tags are written only outside the 64-bit heads, minimal big-endian bytes *)
Definition BigInt := choice [(6, STagChoice (cl [(2, SNamed ID_BIGNUM_BYTES SBBytes); (3, SNamed ID_BIGNUM_BYTES SBBytes)]));
                             (0, U64); (1, SNint)].
Definition Redeemer (d : nat) := arr [RedeemerTag; U64; PlutusData d; ExUnits].
Definition Language := SUint 3.
Definition CostModel := SArrOf 0 IntS.
Definition NetworkId := SUint 2.
Definition Vkey := H32.
Definition TransactionBodies (d : nat) := SArrOf 0 (TransactionBody d).
Definition TransactionWitnessSets (d : nat) := SArrOf 0 (TransactionWitnessSet d).
Definition TransactionUnspentOutput (d : nat) := arr [TransactionInput; TransactionOutput d].

Definition ScriptPubkey := var [(0, [H28])].
Definition ScriptAll (d : nat) := var [(1, [SArrOf 0 (NativeScript d)])].
Definition ScriptAny (d : nat) := var [(2, [SArrOf 0 (NativeScript d)])].
Definition ScriptNOfK (d : nat) := var [(3, [U32; SArrOf 0 (NativeScript d)])].
Definition TimelockStart := var [(4, [U64])].
Definition TimelockExpiry := var [(5, [U64])].
Definition AssetNames := SArrOf 0 AssetNameS.
Definition GenesisHashes := SArrOf 0 H28.
Definition ScriptHashes := SArrOf 0 H28.
Definition RewardAddresses := SArrOf 0 RewardAddressS.
Definition TransactionMetadatumLabels := SArrOf 0 U64.
Definition BigNum := U64.
Definition VersionedBlock (d : nat) := arr [U32; BlockPraos d].

(* a FixedTransaction is a transaction on the wire (its body / witness-set / auxiliary-data slices are kept verbatim: C04) *)
Definition FixedTransaction (d : nat) := Transaction d.

Definition ledger_schemas_more (d : nat) : list schema := [
  BlockPraos d; StakeRegistration; StakeDeregistration; StakeDelegation; PoolParams; PoolRegistration; PoolRetirement;
  GenesisKeyDelegation; MoveInstantaneousRewardsCert; VoteDelegation; StakeAndVoteDelegation;
  StakeRegistrationAndDelegation; VoteRegistrationAndDelegation; StakeVoteRegistrationAndDelegation;
  CommitteeHotAuth; CommitteeColdResign; DRepRegistration; DRepDeregistration; DRepUpdate;
  SingleHostAddr; SingleHostName; MultiHostName; Ipv4; Ipv6; URL; DNSName; Committee;
  ParameterChangeAction; HardForkInitiationAction; TreasuryWithdrawalsAction; NoConfidenceAction;
  UpdateCommitteeAction; NewConstitutionAction; MetadataList d; MetadataMap d; PlutusMap d; ConstrPlutusData d;
  BigInt; Redeemer d; RedeemerTag; Language; CostModel; NetworkId; Vkey; AssetNameS; PlutusScriptBytes;
  MIRToStakeCredentials; TransactionBodies d; TransactionWitnessSets d; TransactionUnspentOutput d;
  ScriptPubkey; ScriptAll d; ScriptAny d; ScriptNOfK d; TimelockStart; TimelockExpiry; AssetNames; GenesisHashes;
  ScriptHashes; RewardAddresses; TransactionMetadatumLabels; BigNum; VersionedBlock d; FixedTransaction d].
