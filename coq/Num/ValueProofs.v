(* Num/ValueProofs.v — lemmas about Num/Value.v: key orders, sorted association maps, and the semantic
   ("missing asset = quantity 0") characterisation of MultiAsset / Value arithmetic and comparison. *)
From CSL Require Import Base.Prelude Num.Value.
Local Open Scope N_scope.

(* ------------------------------------------------------------------------------------------- *)
(* Key orders *)

Lemma bytes_cmp_refl a : bytes_cmp a a = Eq.
Proof. induction a as [|x a IH]; [reflexivity|]. cbn [bytes_cmp]. rewrite N.compare_refl. exact IH. Qed.

Lemma bytes_cmp_eq a : forall b, bytes_cmp a b = Eq -> a = b.
Proof.
  induction a as [|x a IH]; intros [|y b] H; cbn [bytes_cmp] in H; try discriminate; [reflexivity|].
  destruct (N.compare x y) eqn:C; try discriminate.
  apply N.compare_eq in C. subst. f_equal. auto.
Qed.

Lemma bytes_cmp_antisym a : forall b, bytes_cmp b a = CompOpp (bytes_cmp a b).
Proof.
  induction a as [|x a IH]; intros [|y b]; cbn [bytes_cmp CompOpp]; try reflexivity.
  rewrite (N.compare_antisym x y). destruct (N.compare x y); cbn [CompOpp]; auto.
Qed.

Lemma bytes_cmp_trans a : forall b c, bytes_cmp a b = Lt -> bytes_cmp b c = Lt -> bytes_cmp a c = Lt.
Proof.
  induction a as [|x a IH]; intros [|y b] [|z c] H1 H2; cbn [bytes_cmp] in *; try discriminate; try reflexivity.
  destruct (N.compare x y) eqn:C1; try discriminate; destruct (N.compare y z) eqn:C2; try discriminate.
  - apply N.compare_eq in C1, C2. subst. rewrite N.compare_refl. eauto.
  - apply N.compare_eq in C1. subst. rewrite C2. reflexivity.
  - apply N.compare_eq in C2. subst. rewrite C1. reflexivity.
  - rewrite N.compare_lt_iff in C1, C2. assert (L : x < z) by lia. apply N.compare_lt_iff in L. rewrite L. reflexivity.
Qed.

Lemma name_cmp_refl a : name_cmp a a = Eq.
Proof. unfold name_cmp. rewrite N.compare_refl. apply bytes_cmp_refl. Qed.

Lemma name_cmp_eq a b : name_cmp a b = Eq -> a = b.
Proof.
  unfold name_cmp. destruct (N.compare _ _) eqn:C; try discriminate. apply bytes_cmp_eq.
Qed.

Lemma name_cmp_antisym a b : name_cmp b a = CompOpp (name_cmp a b).
Proof.
  unfold name_cmp. rewrite (N.compare_antisym (N.of_nat (length a)) (N.of_nat (length b))).
  destruct (N.compare (N.of_nat (length a)) (N.of_nat (length b))); cbn [CompOpp]; auto using bytes_cmp_antisym.
Qed.

Lemma name_cmp_trans a b c : name_cmp a b = Lt -> name_cmp b c = Lt -> name_cmp a c = Lt.
Proof.
  unfold name_cmp.
  destruct (N.compare (N.of_nat (length a)) (N.of_nat (length b))) eqn:C1; try discriminate;
  destruct (N.compare (N.of_nat (length b)) (N.of_nat (length c))) eqn:C2; try discriminate; intros H1 H2.
  - apply N.compare_eq in C1, C2. rewrite C1, C2, N.compare_refl. eauto using bytes_cmp_trans.
  - apply N.compare_eq in C1. rewrite C1, C2. reflexivity.
  - apply N.compare_eq in C2. rewrite <- C2, C1. reflexivity.
  - rewrite N.compare_lt_iff in C1, C2.
    assert (L : N.of_nat (length a) < N.of_nat (length c)) by lia. apply N.compare_lt_iff in L. rewrite L. reflexivity.
Qed.

(* what the map lemmas need from a key order *)
Record key_order (cmp : bytes -> bytes -> comparison) : Prop := {
  ko_refl : forall a, cmp a a = Eq;
  ko_eq : forall a b, cmp a b = Eq -> a = b;
  ko_antisym : forall a b, cmp b a = CompOpp (cmp a b);
  ko_trans : forall a b c, cmp a b = Lt -> cmp b c = Lt -> cmp a c = Lt
}.

Lemma bytes_key_order : key_order bytes_cmp.
Proof. split; [apply bytes_cmp_refl | apply bytes_cmp_eq | intros; apply bytes_cmp_antisym | intros a b c; apply bytes_cmp_trans]. Qed.
Lemma name_key_order : key_order name_cmp.
Proof. split; [apply name_cmp_refl | apply name_cmp_eq | intros; apply name_cmp_antisym | intros a b c; apply name_cmp_trans]. Qed.

Lemma bytes_eqb_eq a b : bytes_eqb a b = true <-> a = b.
Proof.
  unfold bytes_eqb. split.
  - destruct (bytes_cmp a b) eqn:C; try discriminate. intros _. apply bytes_cmp_eq; assumption.
  - intros ->. rewrite bytes_cmp_refl. reflexivity.
Qed.

(* ------------------------------------------------------------------------------------------- *)
(* Sorted association maps *)

Section AssocMapLemmas.
  Context {V : Type}.
  Variable cmp : bytes -> bytes -> comparison.
  Hypothesis KO : key_order cmp.

  Let refl := ko_refl cmp KO.
  Let eq := ko_eq cmp KO.
  Let antisym := ko_antisym cmp KO.
  Let trans := ko_trans cmp KO.

  Lemma cmp_eq_iff a b : cmp a b = Eq <-> a = b.
  Proof. split; [apply eq | intros ->; apply refl]. Qed.

  Lemma cmp_gt_lt a b : cmp a b = Gt -> cmp b a = Lt.
  Proof. intros H. rewrite antisym, H. reflexivity. Qed.
  Lemma cmp_lt_gt a b : cmp a b = Lt -> cmp b a = Gt.
  Proof. intros H. rewrite antisym, H. reflexivity. Qed.

  (* the decidable form used in statements *)
  Definition keq (a b : bytes) : bool := match cmp a b with Eq => true | _ => false end.
  Lemma keq_eq a b : keq a b = true <-> a = b.
  Proof. unfold keq. rewrite <- cmp_eq_iff. destruct (cmp a b); split; congruence. Qed.
  Lemma keq_refl a : keq a a = true.
  Proof. apply keq_eq. reflexivity. Qed.
  Lemma keq_sym a b : keq a b = keq b a.
  Proof. unfold keq. rewrite (antisym b a). destruct (cmp b a); reflexivity. Qed.

  Lemma am_get_insert (k k' : bytes) (v : V) (m : list (bytes * V)) :
    am_get cmp k (am_insert cmp k' v m) = if keq k k' then Some v else am_get cmp k m.
  Proof.
    unfold keq. induction m as [|[k1 v1] m IH]; cbn [am_insert am_get].
    - destruct (cmp k k'); reflexivity.
    - destruct (cmp k' k1) eqn:C1; cbn [am_get].
      + apply eq in C1. subst k1. destruct (cmp k k'); reflexivity.
      + destruct (cmp k k'); reflexivity.
      + destruct (cmp k k1) eqn:C2.
        * apply eq in C2. subst k1. rewrite (cmp_gt_lt _ _ C1). reflexivity.
        * exact IH.
        * exact IH.
  Qed.

  (* all keys of m are strictly above k *)
  Definition above (k : bytes) (m : list (bytes * V)) : Prop := Forall (fun kv => cmp k (fst kv) = Lt) m.

  Lemma am_sorted_cons2 k v k1 v1 (m : list (bytes * V)) :
    am_sorted cmp ((k, v) :: (k1, v1) :: m) = match cmp k k1 with Lt => am_sorted cmp ((k1, v1) :: m) | _ => false end.
  Proof. reflexivity. Qed.

  Lemma am_sorted_cons k v (m : list (bytes * V)) : am_sorted cmp ((k, v) :: m) = true <-> above k m /\ am_sorted cmp m = true.
  Proof.
    revert k v. induction m as [|[k1 v1] m IH]; intros k v.
    - cbn. split; [intros _; split; [constructor | reflexivity] | reflexivity].
    - rewrite am_sorted_cons2. destruct (cmp k k1) eqn:C.
      + split; [discriminate|]. intros [A _]. inversion A; subst. cbn in *. congruence.
      + rewrite (IH k1 v1). split.
        * intros [A S]. split; [|split; assumption]. constructor; [exact C|].
          eapply Forall_impl; [|exact A]. intros [k2 v2] L. cbn in *. eapply trans; eassumption.
        * intros [A [A1 S]]. split; assumption.
      + split; [discriminate|]. intros [A _]. inversion A; subst. cbn in *. congruence.
  Qed.

  Lemma above_get k (m : list (bytes * V)) : above k m -> am_get cmp k m = None.
  Proof.
    induction 1 as [|[k1 v1] m L _ IH]; [reflexivity|]. cbn [am_get]. cbn in L. rewrite L. exact IH.
  Qed.

  Lemma above_trans k k' m : cmp k k' = Lt -> above k' m -> above k m.
  Proof. intros L A. eapply Forall_impl; [|exact A]. intros [k2 v2] L2. cbn in *. eapply trans; eassumption. Qed.

  Lemma above_insert k k' v m : cmp k k' = Lt -> above k m -> above k (am_insert cmp k' v m).
  Proof.
    intros L. induction 1 as [|[k1 v1] m L1 A IH]; cbn [am_insert].
    - constructor; [exact L | constructor].
    - destruct (cmp k' k1); constructor; try assumption; try (constructor; assumption). 
  Qed.

  Lemma above_remove k k' m : above k m -> above k (am_remove cmp k' m).
  Proof.
    induction 1 as [|[k1 v1] m L1 A IH]; cbn [am_remove]; [constructor|].
    destruct (cmp k' k1); try assumption; constructor; assumption.
  Qed.

  Lemma am_sorted_insert k v (m : list (bytes * V)) : am_sorted cmp m = true -> am_sorted cmp (am_insert cmp k v m) = true.
  Proof.
    induction m as [|[k1 v1] m IH]; intros S; cbn [am_insert]; [reflexivity|].
    apply am_sorted_cons in S. destruct S as [A S].
    destruct (cmp k k1) eqn:C.
    - apply eq in C. subst k1. apply am_sorted_cons. split; assumption.
    - apply am_sorted_cons. split.
      + constructor; [exact C | eapply above_trans; eassumption].
      + apply am_sorted_cons. split; assumption.
    - apply am_sorted_cons. split; [apply above_insert; [apply cmp_gt_lt; exact C | exact A] | auto].
  Qed.

  Lemma am_sorted_remove k (m : list (bytes * V)) : am_sorted cmp m = true -> am_sorted cmp (am_remove cmp k m) = true.
  Proof.
    induction m as [|[k1 v1] m IH]; intros S; cbn [am_remove]; [reflexivity|].
    apply am_sorted_cons in S. destruct S as [A S].
    destruct (cmp k k1) eqn:C; [exact S | |]; apply am_sorted_cons; (split; [apply above_remove; exact A | auto]).
  Qed.

  Lemma am_get_remove k k' (m : list (bytes * V)) : am_sorted cmp m = true ->
    am_get cmp k (am_remove cmp k' m) = if keq k k' then None else am_get cmp k m.
  Proof.
    unfold keq. induction m as [|[k1 v1] m IH]; intros S; cbn [am_remove am_get].
    - destruct (cmp k k'); reflexivity.
    - apply am_sorted_cons in S. destruct S as [A S].
      destruct (cmp k' k1) eqn:C1.
      + apply eq in C1. subst k1. destruct (cmp k k') eqn:C2; try reflexivity.
        apply eq in C2. subst k'. apply above_get. exact A.
      + cbn [am_get]. destruct (cmp k k1) eqn:C2.
        * apply eq in C2. subst k1. rewrite (cmp_lt_gt _ _ C1). reflexivity.
        * apply IH; exact S.
        * apply IH; exact S.
      + cbn [am_get]. destruct (cmp k k1) eqn:C2.
        * apply eq in C2. subst k1. rewrite (cmp_gt_lt _ _ C1). reflexivity.
        * apply IH; exact S.
        * apply IH; exact S.
  Qed.

  Lemma am_get_in k v (m : list (bytes * V)) : am_get cmp k m = Some v -> In (k, v) m.
  Proof.
    induction m as [|[k1 v1] m IH]; cbn [am_get]; [discriminate|].
    destruct (cmp k k1) eqn:C; intros H.
    - apply eq in C. inversion H. subst. left. reflexivity.
    - right. auto.
    - right. auto.
  Qed.

  Lemma am_in_get k v (m : list (bytes * V)) : am_sorted cmp m = true -> In (k, v) m -> am_get cmp k m = Some v.
  Proof.
    induction m as [|[k1 v1] m IH]; intros S I; [destruct I|].
    apply am_sorted_cons in S. destruct S as [A S]. cbn [am_get]. destruct I as [E | I].
    - inversion E. subst. rewrite refl. reflexivity.
    - assert (L : cmp k1 k = Lt) by (unfold above in A; rewrite Forall_forall in A; apply (A (k, v) I)).
      rewrite (cmp_lt_gt _ _ L). auto.
  Qed.

  Lemma am_in_insert k v (m : list (bytes * V)) kv : In kv (am_insert cmp k v m) -> kv = (k, v) \/ In kv m.
  Proof.
    induction m as [|[k1 v1] m IH]; cbn [am_insert]; intros I.
    - destruct I as [E | []]. left. auto.
    - destruct (cmp k k1); cbn [In] in *.
      + destruct I as [E | I]; auto.
      + destruct I as [E | I]; auto.
      + destruct I as [E | I]; auto. destruct (IH I); auto.
  Qed.

  Lemma am_in_remove k (m : list (bytes * V)) kv : In kv (am_remove cmp k m) -> In kv m.
  Proof.
    induction m as [|[k1 v1] m IH]; cbn [am_remove]; intros I; [exact I|].
    destruct (cmp k k1); cbn [In] in *; auto; destruct I; auto.
  Qed.

  (* a sorted map that becomes empty when k is removed held at most the key k *)
  Lemma am_remove_nil k (m : list (bytes * V)) : am_sorted cmp m = true -> am_remove cmp k m = [] -> forall k', keq k' k = false -> am_get cmp k' m = None.
  Proof.
    intros S R k' D. pose proof (am_get_remove k' k m S) as G. rewrite R, D in G. cbn in G. auto.
  Qed.
End AssocMapLemmas.

(* ------------------------------------------------------------------------------------------- *)
(* Quantities *)

Lemma keq_bytes_eqb cmp (KO : key_order cmp) a b : keq cmp a b = bytes_eqb a b.
Proof.
  destruct (keq cmp a b) eqn:E.
  - apply (keq_eq cmp KO) in E. subst. symmetry. apply bytes_eqb_eq. reflexivity.
  - destruct (bytes_eqb a b) eqn:E2; [|reflexivity]. apply bytes_eqb_eq in E2. subst.
    rewrite (keq_refl cmp KO) in E. discriminate.
Qed.

Lemma bytes_eqb_refl a : bytes_eqb a a = true.
Proof. apply bytes_eqb_eq. reflexivity. Qed.
Lemma bytes_eqb_sym a b : bytes_eqb a b = bytes_eqb b a.
Proof.
  destruct (bytes_eqb a b) eqn:E.
  - apply bytes_eqb_eq in E. subst. symmetry. apply bytes_eqb_refl.
  - destruct (bytes_eqb b a) eqn:E2; [|reflexivity]. apply bytes_eqb_eq in E2. subst. rewrite bytes_eqb_refl in E. discriminate.
Qed.

(* quantity of a name inside one asset map *)
Definition aq (a : assets) (n : bytes) : N := match assets_get n a with Some q => q | None => 0 end.

Lemma ma_qty_unfold m p n : ma_qty m p n = match ma_get p m with Some a => aq a n | None => 0 end.
Proof. reflexivity. Qed.

Lemma aq_insert a n q n' : aq (assets_insert n q a) n' = if bytes_eqb n' n then q else aq a n'.
Proof.
  unfold aq, assets_get, assets_insert. rewrite (am_get_insert name_cmp name_key_order).
  rewrite (keq_bytes_eqb _ name_key_order). destruct (bytes_eqb n' n); reflexivity.
Qed.

Lemma aq_remove a n n' : am_sorted name_cmp a = true ->
  aq (am_remove name_cmp n a) n' = if bytes_eqb n' n then 0 else aq a n'.
Proof.
  intros S. unfold aq, assets_get. rewrite (am_get_remove name_cmp name_key_order) by exact S.
  rewrite (keq_bytes_eqb _ name_key_order). destruct (bytes_eqb n' n); reflexivity.
Qed.

Lemma ma_qty_insert m p a p' n' : ma_qty (ma_insert p a m) p' n' = if bytes_eqb p' p then aq a n' else ma_qty m p' n'.
Proof.
  rewrite !ma_qty_unfold. unfold ma_get, ma_insert. rewrite (am_get_insert bytes_cmp bytes_key_order).
  rewrite (keq_bytes_eqb _ bytes_key_order). destruct (bytes_eqb p' p); reflexivity.
Qed.

Lemma ma_qty_remove m p p' n' : am_sorted bytes_cmp m = true ->
  ma_qty (am_remove bytes_cmp p m) p' n' = if bytes_eqb p' p then 0 else ma_qty m p' n'.
Proof.
  intros S. rewrite !ma_qty_unfold. unfold ma_get. rewrite (am_get_remove bytes_cmp bytes_key_order) by exact S.
  rewrite (keq_bytes_eqb _ bytes_key_order). destruct (bytes_eqb p' p); reflexivity.
Qed.

Lemma ma_qty_nil p n : ma_qty [] p n = 0.
Proof. reflexivity. Qed.

(* ------------------------------------------------------------------------------------------- *)
(* Well-formedness *)

Lemma assets_wfb_iff a : assets_wfb a = true <->
  am_sorted name_cmp a = true /\ (forall n q, In (n, q) a -> q < two64).
Proof.
  unfold assets_wfb. rewrite andb_true_iff, forallb_forall. split; intros [S F]; split; auto.
  - intros n q I. specialize (F (n, q) I). cbn in F. lia.
  - intros [n q] I. cbn. specialize (F n q I). lia.
Qed.

Lemma ma_wfb_iff m : ma_wfb m = true <->
  am_sorted bytes_cmp m = true /\ (forall p a, In (p, a) m -> assets_wfb a = true).
Proof.
  unfold ma_wfb. rewrite andb_true_iff, forallb_forall. split; intros [S F]; split; auto.
  - intros p a I. apply (F (p, a) I).
  - intros [p a] I. cbn. eauto.
Qed.

Lemma assets_wfb_nil : assets_wfb [] = true.
Proof. reflexivity. Qed.
Lemma ma_wfb_nil : ma_wfb [] = true.
Proof. reflexivity. Qed.

Lemma assets_wfb_insert a n q : assets_wfb a = true -> q < two64 -> assets_wfb (assets_insert n q a) = true.
Proof.
  rewrite !assets_wfb_iff. intros [S F] Q. split.
  - apply (am_sorted_insert name_cmp name_key_order). exact S.
  - intros n' q' I. apply am_in_insert in I. destruct I as [E | I]; [inversion E; subst; exact Q | eauto].
Qed.

Lemma assets_wfb_remove a n : assets_wfb a = true -> assets_wfb (am_remove name_cmp n a) = true.
Proof.
  rewrite !assets_wfb_iff. intros [S F]. split.
  - apply (am_sorted_remove name_cmp name_key_order). exact S.
  - intros n' q' I. apply am_in_remove in I. eauto.
Qed.

Lemma ma_wfb_insert m p a : ma_wfb m = true -> assets_wfb a = true -> ma_wfb (ma_insert p a m) = true.
Proof.
  rewrite !ma_wfb_iff. intros [S F] A. split.
  - apply (am_sorted_insert bytes_cmp bytes_key_order). exact S.
  - intros p' a' I. apply am_in_insert in I. destruct I as [E | I]; [inversion E; subst; exact A | eauto].
Qed.

Lemma ma_wfb_remove m p : ma_wfb m = true -> ma_wfb (am_remove bytes_cmp p m) = true.
Proof.
  rewrite !ma_wfb_iff. intros [S F]. split.
  - apply (am_sorted_remove bytes_cmp bytes_key_order). exact S.
  - intros p' a' I. apply am_in_remove in I. eauto.
Qed.

Lemma ma_wfb_get m p a : ma_wfb m = true -> ma_get p m = Some a -> assets_wfb a = true.
Proof. rewrite ma_wfb_iff. intros [S F] G. apply am_get_in in G; [eauto | exact bytes_key_order]. Qed.

Lemma ma_wfb_sorted m : ma_wfb m = true -> am_sorted bytes_cmp m = true.
Proof. rewrite ma_wfb_iff. tauto. Qed.
Lemma assets_wfb_sorted a : assets_wfb a = true -> am_sorted name_cmp a = true.
Proof. rewrite assets_wfb_iff. tauto. Qed.

Lemma aq_bound a n : assets_wfb a = true -> aq a n < two64.
Proof.
  rewrite assets_wfb_iff. intros [S F]. unfold aq, assets_get. destruct (am_get name_cmp n a) eqn:G.
  - apply am_get_in in G; [eauto | exact name_key_order].
  - reflexivity.
Qed.

Lemma ma_qty_bound m p n : ma_wfb m = true -> ma_qty m p n < two64.
Proof.
  intros W. rewrite ma_qty_unfold. destruct (ma_get p m) eqn:G; [|reflexivity].
  apply aq_bound. eapply ma_wfb_get; eassumption.
Qed.

(* ------------------------------------------------------------------------------------------- *)
(* Entries: the sum of the listed quantities of a key is its quantity *)

Fixpoint esum (es : list (bytes * bytes * N)) (p n : bytes) : N :=
  match es with
  | [] => 0
  | (p', n', q) :: r => (if bytes_eqb p' p && bytes_eqb n' n then q else 0) + esum r p n
  end.

Lemma esum_app es1 es2 p n : esum (es1 ++ es2) p n = esum es1 p n + esum es2 p n.
Proof. induction es1 as [|[[p' n'] q] r IH]; cbn [esum app]; [reflexivity | rewrite IH; lia]. Qed.

Lemma above_aq n a : above name_cmp n a -> aq a n = 0.
Proof. intros A. unfold aq, assets_get. rewrite (above_get name_cmp) by exact A. reflexivity. Qed.

Lemma esum_assets p1 a p n : am_sorted name_cmp a = true ->
  esum (map (fun nq : bytes * N => (p1, fst nq, snd nq)) a) p n = if bytes_eqb p1 p then aq a n else 0.
Proof.
  induction a as [|[n1 q1] a IH]; intros S; cbn [map esum fst snd].
  - destruct (bytes_eqb p1 p); reflexivity.
  - apply (am_sorted_cons name_cmp name_key_order) in S. destruct S as [A S]. rewrite (IH S).
    unfold aq, assets_get. cbn [am_get].
    destruct (bytes_eqb p1 p); cbn [andb]; [|reflexivity].
    destruct (bytes_eqb n1 n) eqn:E.
    + apply bytes_eqb_eq in E. subst n1. rewrite name_cmp_refl. rewrite (above_get name_cmp n a A). lia.
    + destruct (name_cmp n n1) eqn:C; [apply name_cmp_eq in C; subst; rewrite bytes_eqb_refl in E; discriminate | lia | lia].
Qed.

Lemma above_ma_qty p m n : above bytes_cmp p m -> ma_qty m p n = 0.
Proof. intros A. rewrite ma_qty_unfold. unfold ma_get. rewrite (above_get bytes_cmp) by exact A. reflexivity. Qed.

Lemma esum_entries m p n : ma_wfb m = true -> esum (ma_entries m) p n = ma_qty m p n.
Proof.
  induction m as [|[p1 a1] m IH]; intros W; [reflexivity|].
  apply ma_wfb_iff in W. destruct W as [S F].
  apply (am_sorted_cons bytes_cmp bytes_key_order) in S. destruct S as [A S].
  assert (W' : ma_wfb m = true) by (apply ma_wfb_iff; split; [exact S | intros; apply (F p0 a); right; assumption]).
  unfold ma_entries. cbn [flat_map fst snd]. fold (ma_entries m). rewrite esum_app, (IH W').
  rewrite esum_assets by (apply assets_wfb_sorted, (F p1 a1); left; reflexivity).
  rewrite (ma_qty_unfold ((p1, a1) :: m)). unfold ma_get. cbn [am_get].
  destruct (bytes_eqb p1 p) eqn:E.
  - apply bytes_eqb_eq in E. subst p1. rewrite bytes_cmp_refl. rewrite (above_ma_qty p m n A). lia.
  - destruct (bytes_cmp p p1) eqn:C; [apply bytes_cmp_eq in C; subst; rewrite bytes_eqb_refl in E; discriminate | |];
      rewrite ma_qty_unfold; unfold ma_get; lia.
Qed.

Lemma entries_bound m : ma_wfb m = true -> Forall (fun e : bytes * bytes * N => snd e < two64) (ma_entries m).
Proof.
  intros W. apply ma_wfb_iff in W. destruct W as [_ F]. apply Forall_forall. intros [[p n] q] I.
  unfold ma_entries in I. apply in_flat_map in I. destruct I as [[p1 a1] [I1 I2]]. cbn [fst snd] in I2.
  apply in_map_iff in I2. destruct I2 as [[n1 q1] [E I2]]. inversion E. subst. cbn.
  specialize (F p a1 I1). apply assets_wfb_iff in F. destruct F as [_ F]. eauto.
Qed.

(* an entry that is listed determines the quantity *)
Lemma entries_in_qty m p n q : ma_wfb m = true -> In (p, n, q) (ma_entries m) -> ma_qty m p n = q.
Proof.
  intros W I. pose proof W as W0. apply ma_wfb_iff in W. destruct W as [S F].
  unfold ma_entries in I. apply in_flat_map in I. destruct I as [[p1 a1] [I1 I2]]. cbn [fst snd] in I2.
  apply in_map_iff in I2. destruct I2 as [[n1 q1] [E I2]]. inversion E. subst.
  rewrite ma_qty_unfold. unfold ma_get. rewrite (am_in_get bytes_cmp bytes_key_order _ _ _ S I1).
  unfold aq, assets_get. rewrite (am_in_get name_cmp name_key_order _ q _); [reflexivity | | exact I2].
  apply assets_wfb_sorted. eauto.
Qed.

(* a non-zero quantity is listed *)
Lemma qty_in_entries m p n : ma_qty m p n <> 0 -> In (p, n, ma_qty m p n) (ma_entries m).
Proof.
  rewrite ma_qty_unfold. destruct (ma_get p m) as [a|] eqn:G; [|congruence].
  unfold aq. destruct (assets_get n a) as [q|] eqn:G2; [|congruence]. intros _.
  apply (am_get_in bytes_cmp bytes_key_order) in G. apply (am_get_in name_cmp name_key_order) in G2.
  unfold ma_entries. apply in_flat_map. exists (p, a). split; [exact G|]. cbn [fst snd].
  apply in_map_iff. exists (n, q). split; [reflexivity | exact G2].
Qed.

(* ------------------------------------------------------------------------------------------- *)
(* checked_add *)

Lemma ma_add_entry_cases acc p n amt : ma_wfb acc = true -> amt < two64 ->
  match ma_add_entry acc (p, n, amt) with
  | Ok acc' => ma_wfb acc' = true /\ ma_qty acc p n + amt < two64 /\
               forall p' n', ma_qty acc' p' n' = ma_qty acc p' n' + (if bytes_eqb p p' && bytes_eqb n n' then amt else 0)
  | Err => two64 <= ma_qty acc p n + amt
  | _ => False
  end.
Proof.
  intros W A. unfold ma_add_entry. rewrite (ma_qty_unfold acc p n).
  destruct (ma_get p acc) as [a|] eqn:G.
  - assert (Wa : assets_wfb a = true) by (eapply ma_wfb_get; eassumption).
    unfold aq. destruct (assets_get n a) as [cur|] eqn:G2.
    + unfold u64_add. destruct (cur + amt <? two64) eqn:T; cbn [bind]; [|lia].
      split; [apply ma_wfb_insert; [exact W | apply assets_wfb_insert; [exact Wa | lia]] |]. split; [lia|].
      intros p' n'. rewrite ma_qty_insert, aq_insert, (bytes_eqb_sym p p'), (bytes_eqb_sym n n').
      destruct (bytes_eqb p' p) eqn:E; cbn [andb]; [|lia].
      apply bytes_eqb_eq in E. subst p'. rewrite (ma_qty_unfold acc p n'), G.
      destruct (bytes_eqb n' n) eqn:E2; [|lia]. apply bytes_eqb_eq in E2. subst n'. unfold aq. rewrite G2. lia.
    + split; [apply ma_wfb_insert; [exact W | apply assets_wfb_insert; [exact Wa | lia]] |]. split; [lia|].
      intros p' n'. rewrite ma_qty_insert, aq_insert, (bytes_eqb_sym p p'), (bytes_eqb_sym n n').
      destruct (bytes_eqb p' p) eqn:E; cbn [andb]; [|lia].
      apply bytes_eqb_eq in E. subst p'. rewrite (ma_qty_unfold acc p n'), G.
      destruct (bytes_eqb n' n) eqn:E2; [|lia]. apply bytes_eqb_eq in E2. subst n'. unfold aq. rewrite G2. lia.
  - split; [apply ma_wfb_insert; [exact W | apply assets_wfb_insert; [reflexivity | lia]] |]. split; [lia|].
    intros p' n'. rewrite ma_qty_insert, aq_insert, (bytes_eqb_sym p p'), (bytes_eqb_sym n n').
    destruct (bytes_eqb p' p) eqn:E; cbn [andb]; [|lia].
    apply bytes_eqb_eq in E. subst p'. rewrite (ma_qty_unfold acc p n'), G.
    destruct (bytes_eqb n' n); unfold aq, assets_new; cbn; lia.
Qed.

Lemma ma_add_entries_cases es : forall acc, ma_wfb acc = true ->
  Forall (fun e : bytes * bytes * N => snd e < two64) es ->
  match ma_add_entries acc es with
  | Ok acc' => ma_wfb acc' = true /\ forall p n, ma_qty acc' p n = ma_qty acc p n + esum es p n
  | Err => exists p n, two64 <= ma_qty acc p n + esum es p n
  | _ => False
  end.
Proof.
  induction es as [|[[p n] amt] es IH]; intros acc W B; cbn [ma_add_entries].
  - split; [exact W | intros; cbn [esum]; lia].
  - inversion B as [|? ? B1 B2]; subst. cbn [snd] in B1.
    pose proof (ma_add_entry_cases acc p n amt W B1) as C.
    destruct (ma_add_entry acc (p, n, amt)) as [acc1| | |]; cbn [bind]; try contradiction.
    + destruct C as [W1 [_ Q1]]. specialize (IH acc1 W1 B2).
      destruct (ma_add_entries acc1 es) as [acc2| | |]; try contradiction.
      * destruct IH as [W2 Q2]. split; [exact W2|]. intros p' n'. rewrite Q2, Q1. cbn [esum]. lia.
      * destruct IH as [p' [n' O]]. exists p', n'. rewrite Q1 in O. cbn [esum]. lia.
    + exists p, n. cbn [esum]. rewrite !bytes_eqb_refl. cbn [andb]. lia.
Qed.

Lemma ma_checked_add_cases l r : ma_wfb l = true -> ma_wfb r = true ->
  match ma_checked_add l r with
  | Ok m => ma_wfb m = true /\ forall p n, ma_qty m p n = ma_qty l p n + ma_qty r p n
  | Err => exists p n, two64 <= ma_qty l p n + ma_qty r p n
  | _ => False
  end.
Proof.
  intros Wl Wr. unfold ma_checked_add.
  pose proof (ma_add_entries_cases (ma_entries l ++ ma_entries r) ma_new ma_wfb_nil) as C.
  assert (B : Forall (fun e : bytes * bytes * N => snd e < two64) (ma_entries l ++ ma_entries r))
    by (apply Forall_app; split; apply entries_bound; assumption).
  specialize (C B). destruct (ma_add_entries ma_new (ma_entries l ++ ma_entries r)); try contradiction.
  - destruct C as [W Q]. split; [exact W|]. intros p n. rewrite Q, esum_app, !esum_entries by assumption. reflexivity.
  - destruct C as [p [n O]]. exists p, n. rewrite esum_app, !esum_entries in O by assumption. exact O.
Qed.

(* unfolding well-formedness of values *)
Lemma value_wf_iff v : value_wf v <-> coin v < two64 /\ match multiasset_of v with Some m => ma_wfb m = true | None => True end.
Proof.
  unfold value_wf, value_wfb. rewrite andb_true_iff. destruct (multiasset_of v); split; intros [A B]; split; try lia; auto.
Qed.

Lemma qty_unfold v p n : qty v p n = match multiasset_of v with Some m => ma_qty m p n | None => 0 end.
Proof. reflexivity. Qed.

(* the three outcomes of Value::checked_add *)
Theorem value_checked_add_cases a b : value_wf a -> value_wf b ->
  match value_checked_add a b with
  | Ok c => value_wf c /\ coin c = coin a + coin b /\ forall p n, qty c p n = qty a p n + qty b p n
  | Err => two64 <= coin a + coin b \/ exists p n, two64 <= qty a p n + qty b p n
  | _ => False
  end.
Proof.
  intros Wa Wb. apply value_wf_iff in Wa, Wb. destruct Wa as [Ca Ma], Wb as [Cb Mb].
  unfold value_checked_add, u64_add. destruct (coin a + coin b <? two64) eqn:T; cbn [bind]; [|left; lia].
  destruct (multiasset_of a) as [l|] eqn:Ea, (multiasset_of b) as [r|] eqn:Eb; cbn [bind].
  - pose proof (ma_checked_add_cases l r Ma Mb) as C.
    destruct (ma_checked_add l r) as [m| | |]; cbn [bind]; try contradiction.
    + destruct C as [W Q]. split; [apply value_wf_iff; cbn; split; [lia | exact W] |]. split; [reflexivity|].
      intros p n. rewrite !qty_unfold, Ea, Eb. cbn. apply Q.
    + right. destruct C as [p [n O]]. exists p, n. rewrite !qty_unfold, Ea, Eb. exact O.
  - split; [apply value_wf_iff; cbn; split; [lia | exact Ma] |]. split; [reflexivity|].
    intros p n. rewrite !qty_unfold, Ea, Eb. cbn. lia.
  - split; [apply value_wf_iff; cbn; split; [lia | exact Mb] |]. split; [reflexivity|].
    intros p n. rewrite !qty_unfold, Ea, Eb. cbn. lia.
  - split; [apply value_wf_iff; cbn; split; [lia | exact I] |]. split; [reflexivity|].
    intros p n. rewrite !qty_unfold, Ea, Eb. cbn. lia.
Qed.

Corollary value_checked_add_ok a b c : value_wf a -> value_wf b -> value_checked_add a b = Ok c ->
  coin c = coin a + coin b /\ (forall p n, qty c p n = qty a p n + qty b p n) /\ value_wf c.
Proof.
  intros Wa Wb H. pose proof (value_checked_add_cases a b Wa Wb) as C. rewrite H in C. tauto.
Qed.

Corollary value_checked_add_err a b : value_wf a -> value_wf b -> value_checked_add a b = Err ->
  two64 <= coin a + coin b \/ exists p n, two64 <= qty a p n + qty b p n.
Proof.
  intros Wa Wb H. pose proof (value_checked_add_cases a b Wa Wb) as C. rewrite H in C. exact C.
Qed.

Lemma qty_bound v p n : value_wf v -> qty v p n < two64.
Proof.
  intros W. apply value_wf_iff in W. destruct W as [_ M]. rewrite qty_unfold.
  destruct (multiasset_of v); [apply ma_qty_bound; exact M | reflexivity].
Qed.

(* the converse: no overflow anywhere -> Ok *)
Corollary value_checked_add_total a b : value_wf a -> value_wf b ->
  coin a + coin b < two64 -> (forall p n, qty a p n + qty b p n < two64) ->
  exists c, value_checked_add a b = Ok c.
Proof.
  intros Wa Wb Hc Hq. pose proof (value_checked_add_cases a b Wa Wb) as C.
  destruct (value_checked_add a b) as [c| | |]; try contradiction; [eauto|].
  destruct C as [O | [p [n O]]]; [lia | specialize (Hq p n); lia].
Qed.

(* ------------------------------------------------------------------------------------------- *)
(* MultiAsset::sub, checked_sub, clamped_sub *)

Lemma ma_sub_entry_spec lhs p n amt : ma_wfb lhs = true ->
  ma_wfb (ma_sub_entry lhs (p, n, amt)) = true /\
  forall p' n', ma_qty (ma_sub_entry lhs (p, n, amt)) p' n' =
                if bytes_eqb p p' && bytes_eqb n n' then ma_qty lhs p' n' - amt else ma_qty lhs p' n'.
Proof.
  intros W. unfold ma_sub_entry.
  destruct (ma_get p lhs) as [a|] eqn:G.
  - assert (Wa : assets_wfb a = true) by (eapply ma_wfb_get; eassumption).
    destruct (assets_get n a) as [cur|] eqn:G2.
    + assert (Hcur : aq a n = cur) by (unfold aq; rewrite G2; reflexivity).
      assert (Bcur : cur < two64) by (rewrite <- Hcur; apply aq_bound; exact Wa).
      destruct (amt <? cur) eqn:T.
      * split; [apply ma_wfb_insert; [exact W | apply assets_wfb_insert; [exact Wa | lia]] |].
        intros p' n'. rewrite ma_qty_insert, aq_insert, (bytes_eqb_sym p p'), (bytes_eqb_sym n n').
        destruct (bytes_eqb p' p) eqn:E; cbn [andb]; [|reflexivity].
        apply bytes_eqb_eq in E. subst p'. rewrite (ma_qty_unfold lhs p n'), G.
        destruct (bytes_eqb n' n) eqn:E2; [|reflexivity]. apply bytes_eqb_eq in E2. subst n'. lia.
      * pose proof (aq_remove a n) as R. specialize (fun n' => R n' (assets_wfb_sorted a Wa)).
        destruct (am_remove name_cmp n a) as [|e a'] eqn:Ra.
        -- split; [apply ma_wfb_remove; exact W|].
           intros p' n'. rewrite ma_qty_remove by (apply ma_wfb_sorted; exact W).
           rewrite (bytes_eqb_sym p p'), (bytes_eqb_sym n n').
           destruct (bytes_eqb p' p) eqn:E; cbn [andb]; [|reflexivity].
           apply bytes_eqb_eq in E. subst p'. rewrite (ma_qty_unfold lhs p n'), G.
           specialize (R n'). unfold aq at 1 in R. cbn in R.
           destruct (bytes_eqb n' n) eqn:E2; [|lia]. apply bytes_eqb_eq in E2. subst n'. lia.
        -- rewrite <- Ra in R |- *. split; [apply ma_wfb_insert; [exact W | apply assets_wfb_remove; exact Wa] |].
           intros p' n'. rewrite ma_qty_insert, R, (bytes_eqb_sym p p'), (bytes_eqb_sym n n').
           destruct (bytes_eqb p' p) eqn:E; cbn [andb]; [|reflexivity].
           apply bytes_eqb_eq in E. subst p'. rewrite (ma_qty_unfold lhs p n'), G.
           destruct (bytes_eqb n' n) eqn:E2; [|reflexivity]. apply bytes_eqb_eq in E2. subst n'. lia.
    + split; [exact W|]. intros p' n'.
      destruct (bytes_eqb p p' && bytes_eqb n n') eqn:E; [|reflexivity].
      apply andb_true_iff in E. destruct E as [E1 E2]. apply bytes_eqb_eq in E1, E2. subst p' n'.
      rewrite ma_qty_unfold, G. unfold aq. rewrite G2. reflexivity.
  - split; [exact W|]. intros p' n'.
    destruct (bytes_eqb p p' && bytes_eqb n n') eqn:E; [|reflexivity].
    apply andb_true_iff in E. destruct E as [E1 E2]. apply bytes_eqb_eq in E1, E2. subst p' n'.
    rewrite ma_qty_unfold, G. reflexivity.
Qed.

Lemma ma_sub_fold es : forall lhs, ma_wfb lhs = true ->
  ma_wfb (fold_left ma_sub_entry es lhs) = true /\
  forall p n, ma_qty (fold_left ma_sub_entry es lhs) p n = ma_qty lhs p n - esum es p n.
Proof.
  induction es as [|[[p n] amt] es IH]; intros lhs W; cbn [fold_left].
  - split; [exact W | intros; cbn [esum]; lia].
  - destruct (ma_sub_entry_spec lhs p n amt W) as [W1 Q1]. destruct (IH _ W1) as [W2 Q2].
    split; [exact W2|]. intros p' n'. rewrite Q2, Q1. cbn [esum].
    destruct (bytes_eqb p p' && bytes_eqb n n'); lia.
Qed.

Theorem ma_sub_spec l r : ma_wfb l = true -> ma_wfb r = true ->
  ma_wfb (ma_sub l r) = true /\ forall p n, ma_qty (ma_sub l r) p n = ma_qty l p n - ma_qty r p n.
Proof.
  intros Wl Wr. unfold ma_sub. destruct (ma_sub_fold (ma_entries r) l Wl) as [W Q].
  split; [exact W|]. intros p n. rewrite Q, esum_entries by exact Wr. reflexivity.
Qed.

Lemma forallb_false {A} (f : A -> bool) l : forallb f l = false -> exists x, In x l /\ f x = false.
Proof.
  induction l as [|x l IH]; cbn [forallb]; [discriminate|].
  destruct (f x) eqn:E; cbn [andb]; intros H.
  - destruct (IH H) as [y [I F]]. exists y. split; [right; exact I | exact F].
  - exists x. split; [left; reflexivity | exact E].
Qed.

Lemma ma_covers_iff l r : ma_wfb r = true ->
  (ma_covers l r = true <-> forall p n, ma_qty r p n <= ma_qty l p n).
Proof.
  intros Wr. unfold ma_covers. rewrite forallb_forall. split.
  - intros H p n. destruct (N.eq_dec (ma_qty r p n) 0) as [Z | NZ]; [lia|].
    specialize (H _ (qty_in_entries r p n NZ)). cbn in H. unfold ma_qty in *. lia.
  - intros H [[p n] q] I. rewrite <- (entries_in_qty r p n q Wr I). specialize (H p n). unfold ma_qty in *. lia.
Qed.

Lemma ma_covers_false l r : ma_wfb r = true -> ma_covers l r = false -> exists p n, ma_qty l p n < ma_qty r p n.
Proof.
  intros Wr H. unfold ma_covers in H. apply forallb_false in H. destruct H as [[[p n] q] [I F]].
  exists p, n. rewrite (entries_in_qty r p n q Wr I). unfold ma_qty. lia.
Qed.

Lemma opt_ma_qty_unfold v p n : qty v p n = ma_qty (opt_ma (multiasset_of v)) p n.
Proof. rewrite qty_unfold. destruct (multiasset_of v); reflexivity. Qed.

Lemma opt_ma_wf v : value_wf v -> ma_wfb (opt_ma (multiasset_of v)) = true.
Proof. intros W. apply value_wf_iff in W. destruct W as [_ M]. destruct (multiasset_of v); [exact M | reflexivity]. Qed.

(* the multiasset part shared by checked_sub and clamped_sub: component-wise truncated subtraction *)
Lemma value_sub_assets_spec a b : value_wf a -> value_wf b ->
  match value_sub_assets a b with Some m => ma_wfb m = true | None => True end /\
  forall p n, opt_ma_qty (value_sub_assets a b) p n = qty a p n - qty b p n.
Proof.
  intros Wa Wb. apply value_wf_iff in Wa, Wb. destruct Wa as [_ Ma], Wb as [_ Mb].
  unfold value_sub_assets. setoid_rewrite qty_unfold.
  destruct (multiasset_of a) as [l|], (multiasset_of b) as [r|]; cbn [opt_ma_qty].
  - destruct (ma_sub_spec l r Ma Mb) as [W Q]. destruct (ma_sub l r) as [|e d] eqn:D.
    + split; [exact I|]. intros p n. rewrite <- Q. reflexivity.
    + split; [exact W|]. intros p n. cbn [opt_ma_qty]. apply Q.
  - split; [exact Ma|]. intros. lia.
  - split; [exact I|]. intros. lia.
  - split; [exact I|]. intros. lia.
Qed.

Theorem value_clamped_sub_spec a b : value_wf a -> value_wf b ->
  value_wf (value_clamped_sub a b) /\ coin (value_clamped_sub a b) = coin a - coin b /\
  forall p n, qty (value_clamped_sub a b) p n = qty a p n - qty b p n.
Proof.
  intros Wa Wb. destruct (value_sub_assets_spec a b Wa Wb) as [W Q].
  apply value_wf_iff in Wa. destruct Wa as [Ca _].
  split; [apply value_wf_iff; cbn; unfold u64_clamped_sub; split; [lia | exact W] |].
  split; [reflexivity | exact Q].
Qed.

(* the three outcomes of Value::checked_sub (the code since /repo 34fa344) *)
Theorem value_checked_sub_cases a b : value_wf a -> value_wf b ->
  match value_checked_sub a b with
  | Ok c => value_wf c /\ coin b <= coin a /\ coin c = coin a - coin b /\
            forall p n, qty b p n <= qty a p n /\ qty c p n = qty a p n - qty b p n
  | Err => coin a < coin b \/ exists p n, qty a p n < qty b p n
  | _ => False
  end.
Proof.
  intros Wa Wb. destruct (value_sub_assets_spec a b Wa Wb) as [W Q].
  pose proof (opt_ma_wf b Wb) as Wob.
  apply value_wf_iff in Wa. destruct Wa as [Ca Ma].
  unfold value_checked_sub, u64_sub. destruct (coin b <=? coin a) eqn:T; cbn [bind]; [|left; lia].
  set (covered := match multiasset_of b with
                  | Some r => ma_covers match multiasset_of a with Some l => l | None => ma_new end r
                  | None => true end).
  assert (Hc : covered = ma_covers (opt_ma (multiasset_of a)) (opt_ma (multiasset_of b))).
  { unfold covered. destruct (multiasset_of b), (multiasset_of a); reflexivity. }
  rewrite Hc. destruct (ma_covers (opt_ma (multiasset_of a)) (opt_ma (multiasset_of b))) eqn:Cv.
  - rewrite (ma_covers_iff _ _ Wob) in Cv.
    split; [apply value_wf_iff; cbn; split; [lia | exact W] |]. split; [lia|]. split; [reflexivity|].
    intros p n. split; [rewrite !opt_ma_qty_unfold; apply Cv | apply Q].
  - right. destruct (ma_covers_false _ _ Wob Cv) as [p [n L]]. exists p, n. rewrite !opt_ma_qty_unfold. exact L.
Qed.

Corollary value_checked_sub_ok a b c : value_wf a -> value_wf b -> value_checked_sub a b = Ok c ->
  coin b <= coin a /\ coin c = coin a - coin b /\
  (forall p n, qty b p n <= qty a p n /\ qty c p n = qty a p n - qty b p n) /\ value_wf c.
Proof.
  intros Wa Wb H. pose proof (value_checked_sub_cases a b Wa Wb) as C. rewrite H in C. tauto.
Qed.

Corollary value_checked_sub_err a b : value_wf a -> value_wf b -> value_checked_sub a b = Err ->
  coin a < coin b \/ exists p n, qty a p n < qty b p n.
Proof.
  intros Wa Wb H. pose proof (value_checked_sub_cases a b Wa Wb) as C. rewrite H in C. exact C.
Qed.

Corollary value_checked_sub_total a b : value_wf a -> value_wf b ->
  coin b <= coin a -> (forall p n, qty b p n <= qty a p n) -> exists c, value_checked_sub a b = Ok c.
Proof.
  intros Wa Wb Hc Hq. pose proof (value_checked_sub_cases a b Wa Wb) as C.
  destruct (value_checked_sub a b) as [c| | |]; try contradiction; [eauto|].
  destruct C as [O | [p [n O]]]; [lia | specialize (Hq p n); lia].
Qed.

(* the code before /repo 34fa344 (assets clamped): it agrees with the repaired code whenever that one succeeds … *)
Lemma value_checked_sub_legacy_agrees a b c : value_checked_sub a b = Ok c -> value_checked_sub_legacy a b = Ok c.
Proof.
  unfold value_checked_sub, value_checked_sub_legacy. destruct (u64_sub (coin a) (coin b)); cbn [bind]; try discriminate.
  destruct (match multiasset_of b with Some r => _ | None => true end); [auto | discriminate].
Qed.

(* ------------------------------------------------------------------------------------------- *)
(* Comparison *)

Lemma ma_leb_sem_covers l r : ma_leb_sem l r = ma_covers r l.
Proof. reflexivity. Qed.

Lemma ma_leb_sem_iff l r : ma_wfb l = true -> (ma_leb_sem l r = true <-> forall p n, ma_qty l p n <= ma_qty r p n).
Proof. intros W. rewrite ma_leb_sem_covers. apply ma_covers_iff. exact W. Qed.

Lemma ma_is_all_zeros_leb l r : ma_is_all_zeros l r = ma_leb_sem l r.
Proof.
  unfold ma_is_all_zeros, ma_leb_sem. induction (ma_entries l) as [|[[p n] q] es IH]; [reflexivity|].
  cbn [forallb]. rewrite IH. f_equal. unfold u64_clamped_sub, ma_qty.
  destruct (q <=? ma_get_asset p n r) eqn:E; lia.
Qed.

Theorem value_leb_sem_iff a b : value_wf a -> (value_leb_sem a b = true <-> value_le_sem a b).
Proof.
  intros Wa. unfold value_leb_sem, value_le_sem. rewrite andb_true_iff, (ma_leb_sem_iff _ _ (opt_ma_wf a Wa)).
  setoid_rewrite opt_ma_qty_unfold. split; intros [A B]; split; auto; lia.
Qed.

Theorem value_eqb_sem_iff a b : value_wf a -> value_wf b -> (value_eqb_sem a b = true <-> value_eq_sem a b).
Proof.
  intros Wa Wb. unfold value_eqb_sem, value_eq_sem. rewrite !andb_true_iff.
  rewrite (ma_leb_sem_iff _ _ (opt_ma_wf a Wa)), (ma_leb_sem_iff _ _ (opt_ma_wf b Wb)).
  setoid_rewrite opt_ma_qty_unfold. split.
  - intros [[A B] C]. split; [lia|]. intros p n. specialize (B p n). specialize (C p n). lia.
  - intros [A B]. split; [split; [lia|] |]; intros p n; rewrite (B p n); lia.
Qed.

Lemma value_eq_sem_le a b : value_eq_sem a b <-> value_le_sem a b /\ value_le_sem b a.
Proof.
  unfold value_eq_sem, value_le_sem. split.
  - intros [A B]. split; (split; [lia|]); intros p n; rewrite (B p n); lia.
  - intros [[A B] [C D]]. split; [lia|]. intros p n. specialize (B p n). specialize (D p n). lia.
Qed.

Lemma value_compare_assets_opt l r : value_compare_assets l r = ma_partial_cmp (opt_ma l) (opt_ma r).
Proof. destruct l, r; reflexivity. Qed.

(* impl PartialOrd for Value, as a function of the two component-wise tests *)
Theorem value_partial_cmp_leb a b :
  value_partial_cmp a b =
    match value_leb_sem a b, value_leb_sem b a with
    | true, true => Some Eq
    | true, false => Some Lt
    | false, true => Some Gt
    | false, false => None
    end.
Proof.
  unfold value_partial_cmp, value_leb_sem. rewrite value_compare_assets_opt. unfold ma_partial_cmp.
  rewrite !ma_is_all_zeros_leb.
  destruct (ma_leb_sem (opt_ma (multiasset_of a)) (opt_ma (multiasset_of b))),
           (ma_leb_sem (opt_ma (multiasset_of b)) (opt_ma (multiasset_of a)));
    destruct (N.compare (coin a) (coin b)) eqn:C;
    try (apply N.compare_eq in C); try (rewrite N.compare_lt_iff in C); try (rewrite N.compare_gt_iff in C);
    rewrite ?andb_true_r, ?andb_false_r;
    repeat match goal with |- context [?x <=? ?y] => destruct (x <=? y) eqn:? end; try reflexivity; lia.
Qed.

(* value comparison = component-wise comparison of lovelace and every asset *)
Theorem value_partial_cmp_spec a b : value_wf a -> value_wf b ->
  (value_partial_cmp a b = Some Eq <-> value_eq_sem a b) /\
  (value_partial_cmp a b = Some Lt <-> value_le_sem a b /\ ~ value_le_sem b a) /\
  (value_partial_cmp a b = Some Gt <-> value_le_sem b a /\ ~ value_le_sem a b) /\
  (value_partial_cmp a b = None <-> ~ value_le_sem a b /\ ~ value_le_sem b a).
Proof.
  intros Wa Wb. rewrite value_partial_cmp_leb, value_eq_sem_le.
  rewrite <- (value_leb_sem_iff a b Wa), <- (value_leb_sem_iff b a Wb).
  destruct (value_leb_sem a b), (value_leb_sem b a); repeat split; try congruence; try tauto;
    try (intros [? ?]; congruence); try (intros; discriminate).
Qed.

Corollary value_le_spec a b : value_wf a -> (value_le a b = true <-> value_le_sem a b).
Proof.
  intros Wa. unfold value_le. rewrite value_partial_cmp_leb, <- (value_leb_sem_iff a b Wa).
  destruct (value_leb_sem a b), (value_leb_sem b a); split; congruence.
Qed.
Corollary value_ge_spec a b : value_wf b -> (value_ge a b = true <-> value_le_sem b a).
Proof.
  intros Wb. unfold value_ge. rewrite value_partial_cmp_leb, <- (value_leb_sem_iff b a Wb).
  destruct (value_leb_sem a b), (value_leb_sem b a); split; congruence.
Qed.

(* ------------------------------------------------------------------------------------------- *)
(* PartialEq (structural after dropping an all-empty multiasset) implies semantic equality *)

Lemma assets_eqb_eq a : forall b, assets_eqb a b = true -> a = b.
Proof.
  induction a as [|[n1 q1] a IH]; intros [|[n2 q2] b]; cbn [assets_eqb]; try discriminate; [reflexivity|].
  rewrite !andb_true_iff. intros [[E1 E2] E3]. apply bytes_eqb_eq in E1. apply N.eqb_eq in E2. subst. f_equal. auto.
Qed.
Lemma ma_eqb_eq a : forall b, ma_eqb a b = true -> a = b.
Proof.
  induction a as [|[p1 a1] a IH]; intros [|[p2 a2] b]; cbn [ma_eqb]; try discriminate; [reflexivity|].
  rewrite !andb_true_iff. intros [[E1 E2] E3]. apply bytes_eqb_eq in E1. apply assets_eqb_eq in E2. subst. f_equal. auto.
Qed.

Lemma reduce_none_qty m p n : ma_reduce_empty_to_none m = None -> ma_qty m p n = 0.
Proof.
  unfold ma_reduce_empty_to_none. destruct (existsb _ m) eqn:E; [discriminate|]. intros _.
  rewrite ma_qty_unfold. destruct (ma_get p m) as [a|] eqn:G; [|reflexivity].
  apply (am_get_in bytes_cmp bytes_key_order) in G.
  destruct a as [|e a]; [reflexivity|]. exfalso.
  assert (X : existsb (fun pa : bytes * assets => match snd pa with [] => false | _ :: _ => true end) m = true)
    by (apply existsb_exists; exists (p, e :: a); split; [exact G | reflexivity]).
  congruence.
Qed.
Lemma reduce_some m x : ma_reduce_empty_to_none m = Some x -> x = m.
Proof. unfold ma_reduce_empty_to_none. destruct (existsb _ m); congruence. Qed.

Lemma value_reduced_qty v p n :
  qty v p n = match value_reduced v with Some x => ma_qty x p n | None => 0 end.
Proof.
  rewrite qty_unfold. unfold value_reduced. destruct (multiasset_of v) as [m|]; [|reflexivity].
  destruct (ma_reduce_empty_to_none m) as [x|] eqn:R.
  - apply reduce_some in R. subst. reflexivity.
  - apply reduce_none_qty. exact R.
Qed.

Theorem value_eqb_sound a b : value_eqb a b = true -> value_eq_sem a b.
Proof.
  unfold value_eqb, value_eq_sem. rewrite andb_true_iff. intros [C M]. split; [lia|].
  intros p n. rewrite !value_reduced_qty.
  destruct (value_reduced a) as [x|], (value_reduced b) as [y|]; try discriminate; [|reflexivity].
  apply ma_eqb_eq in M. subst. reflexivity.
Qed.

(* ------------------------------------------------------------------------------------------- *)
(* The laws of C14 under semantic equality *)

Lemma value_eq_sem_refl a : value_eq_sem a a.
Proof. split; reflexivity. Qed.
Lemma value_eq_sem_sym a b : value_eq_sem a b -> value_eq_sem b a.
Proof. intros [A B]. split; [lia | intros; rewrite B; reflexivity]. Qed.
Lemma value_eq_sem_trans a b c : value_eq_sem a b -> value_eq_sem b c -> value_eq_sem a c.
Proof. intros [A B] [C D]. split; [lia | intros; rewrite B, D; reflexivity]. Qed.

(* both results Ok and semantically equal, or both an explicit error *)
Definition same_outcome (x y : result value) : Prop :=
  match x, y with
  | Ok c, Ok c' => value_eq_sem c c'
  | Err, Err => True
  | _, _ => False
  end.

Definition no_overflow (a b : value) : Prop :=
  coin a + coin b < two64 /\ forall p n, qty a p n + qty b p n < two64.

Lemma value_wf_coin v : value_wf v -> coin v < two64.
Proof. intros W. apply value_wf_iff in W. tauto. Qed.

(* Value::checked_add succeeds exactly when no component overflows, and is an explicit error otherwise *)
Lemma value_checked_add_dichotomy a b : value_wf a -> value_wf b ->
  (exists c, value_checked_add a b = Ok c /\ no_overflow a b) \/ (value_checked_add a b = Err /\ ~ no_overflow a b).
Proof.
  intros Wa Wb. pose proof (value_checked_add_cases a b Wa Wb) as C.
  destruct (value_checked_add a b) as [c| | |]; try contradiction.
  - left. exists c. split; [reflexivity|]. destruct C as [Wc [E Q]]. split.
    + rewrite <- E. apply value_wf_coin. exact Wc.
    + intros p n. rewrite <- Q. apply qty_bound. exact Wc.
  - right. split; [reflexivity|]. intros [N1 N2]. destruct C as [O | [p [n O]]]; [lia | specialize (N2 p n); lia].
Qed.

Theorem value_add_comm a b : value_wf a -> value_wf b ->
  same_outcome (value_checked_add a b) (value_checked_add b a).
Proof.
  intros Wa Wb.
  destruct (value_checked_add_dichotomy a b Wa Wb) as [[c [E1 N1]] | [E1 N1]];
  destruct (value_checked_add_dichotomy b a Wb Wa) as [[c' [E2 N2]] | [E2 N2]]; rewrite E1, E2; cbn [same_outcome].
  - destruct (value_checked_add_ok a b c Wa Wb E1) as [C1 [Q1 _]].
    destruct (value_checked_add_ok b a c' Wb Wa E2) as [C2 [Q2 _]].
    split; [lia|]. intros p n. rewrite Q1, Q2. lia.
  - apply N2. destruct N1 as [X Y]. split; [lia|]. intros p n. specialize (Y p n). lia.
  - apply N1. destruct N2 as [X Y]. split; [lia|]. intros p n. specialize (Y p n). lia.
  - exact I.
Qed.

Definition no_overflow3 (a b c : value) : Prop :=
  coin a + coin b + coin c < two64 /\ forall p n, qty a p n + qty b p n + qty c p n < two64.

Lemma add3_l_cases a b c : value_wf a -> value_wf b -> value_wf c ->
  (exists x, (let* ab := value_checked_add a b in value_checked_add ab c) = Ok x /\ no_overflow3 a b c /\
             coin x = coin a + coin b + coin c /\ (forall p n, qty x p n = qty a p n + qty b p n + qty c p n) /\ value_wf x)
  \/ ((let* ab := value_checked_add a b in value_checked_add ab c) = Err /\ ~ no_overflow3 a b c).
Proof.
  intros Wa Wb Wc.
  destruct (value_checked_add_dichotomy a b Wa Wb) as [[ab [E1 N1]] | [E1 N1]]; rewrite E1; cbn [bind].
  - destruct (value_checked_add_ok a b ab Wa Wb E1) as [C1 [Q1 Wab]].
    destruct (value_checked_add_dichotomy ab c Wab Wc) as [[x [E2 N2]] | [E2 N2]]; rewrite E2.
    + left. exists x. destruct (value_checked_add_ok ab c x Wab Wc E2) as [C2 [Q2 Wx]].
      split; [reflexivity|]. destruct N2 as [X Y]. split; [|split; [lia | split; [|exact Wx]]].
      * split; [lia|]. intros p n. specialize (Y p n). rewrite Q1 in Y. exact Y.
      * intros p n. rewrite Q2, Q1. reflexivity.
    + right. split; [reflexivity|]. intros [X Y]. apply N2. split; [lia|]. intros p n. rewrite Q1. apply Y.
  - right. split; [reflexivity|]. intros [X Y]. apply N1. split; [lia|]. intros p n. specialize (Y p n). lia.
Qed.

Lemma add3_r_cases a b c : value_wf a -> value_wf b -> value_wf c ->
  (exists x, (let* bc := value_checked_add b c in value_checked_add a bc) = Ok x /\ no_overflow3 a b c /\
             coin x = coin a + coin b + coin c /\ (forall p n, qty x p n = qty a p n + qty b p n + qty c p n) /\ value_wf x)
  \/ ((let* bc := value_checked_add b c in value_checked_add a bc) = Err /\ ~ no_overflow3 a b c).
Proof.
  intros Wa Wb Wc.
  destruct (value_checked_add_dichotomy b c Wb Wc) as [[bc [E1 N1]] | [E1 N1]]; rewrite E1; cbn [bind].
  - destruct (value_checked_add_ok b c bc Wb Wc E1) as [C1 [Q1 Wbc]].
    destruct (value_checked_add_dichotomy a bc Wa Wbc) as [[x [E2 N2]] | [E2 N2]]; rewrite E2.
    + left. exists x. destruct (value_checked_add_ok a bc x Wa Wbc E2) as [C2 [Q2 Wx]].
      split; [reflexivity|]. destruct N2 as [X Y]. split; [|split; [lia | split; [|exact Wx]]].
      * split; [lia|]. intros p n. specialize (Y p n). rewrite Q1 in Y. lia.
      * intros p n. rewrite Q2, Q1. lia.
    + right. split; [reflexivity|]. intros [X Y]. apply N2. split; [lia|]. intros p n. rewrite Q1. specialize (Y p n). lia.
  - right. split; [reflexivity|]. intros [X Y]. apply N1. split; [lia|]. intros p n. specialize (Y p n). lia.
Qed.

Theorem value_add_assoc a b c : value_wf a -> value_wf b -> value_wf c ->
  same_outcome (let* ab := value_checked_add a b in value_checked_add ab c)
               (let* bc := value_checked_add b c in value_checked_add a bc).
Proof.
  intros Wa Wb Wc.
  destruct (add3_l_cases a b c Wa Wb Wc) as [[x [E1 [N1 [C1 [Q1 _]]]]] | [E1 N1]];
  destruct (add3_r_cases a b c Wa Wb Wc) as [[y [E2 [N2 [C2 [Q2 _]]]]] | [E2 N2]]; rewrite E1, E2; cbn [same_outcome]; try tauto.
  split; [lia|]. intros p n. rewrite Q1, Q2. reflexivity.
Qed.

(* subtraction undoes addition *)
Theorem value_sub_undoes_add a b c : value_wf a -> value_wf b -> value_checked_add a b = Ok c ->
  exists d, value_checked_sub c b = Ok d /\ value_eq_sem d a.
Proof.
  intros Wa Wb E. destruct (value_checked_add_ok a b c Wa Wb E) as [C [Q Wc]].
  destruct (value_checked_sub_total c b Wc Wb) as [d D]; [lia | intros p n; rewrite Q; lia |].
  exists d. split; [exact D|]. destruct (value_checked_sub_ok c b d Wc Wb D) as [_ [Cd [Qd _]]].
  split; [lia|]. intros p n. destruct (Qd p n) as [_ X]. rewrite X, Q. lia.
Qed.

(* clamped_sub undoes addition too *)
Corollary value_clamped_sub_undoes_add a b c : value_wf a -> value_wf b -> value_checked_add a b = Ok c ->
  value_eq_sem (value_clamped_sub c b) a.
Proof.
  intros Wa Wb E. destruct (value_checked_add_ok a b c Wa Wb E) as [C [Q Wc]].
  destruct (value_clamped_sub_spec c b Wc Wb) as [_ [Cd Qd]].
  split; [lia|]. intros p n. rewrite Qd, Q. lia.
Qed.
