(* Proofs about Num/Mint.v: Mint::as_positive_multiasset / as_negative_multiasset report, for every asset, exactly the
   minted / burnt quantity — for Mints whose policies are pairwise distinct and which do not hold -2^64 (the two known classes). *)
From CSL Require Import Base.Prelude Num.IntRange Num.IntRangeProofs Num.Value Num.ValueProofs Num.Mint.
Local Open Scope Z_scope.

Definition amount_ok (z : Z) : Prop := int_in_range z = true /\ z <> int_min.

Lemma signed_part_bound s z : amount_ok z -> 0 <= signed_part s z < two64Z.
Proof.
  intros [R M]. apply int_in_range_iff in R. unfold signed_part, int_min in *. assert (0 < two64Z) by reflexivity.
  destruct s; lia.
Qed.

(* one entry: the filtered asset map holds exactly the wanted part of every amount *)
Lemma mint_entry_assets_fold s (a : mint_assets) : forall acc,
  am_sorted name_cmp a = true -> (forall n z, In (n, z) a -> amount_ok z) ->
  assets_wfb acc = true -> (forall n z, In (n, z) a -> aq acc n = 0%N) ->
  let r := fold_left (fun acc nz =>
               if Bool.eqb (int_is_positive (snd nz)) s then
                 match (if s then int_as_positive (snd nz) else int_as_negative (snd nz)) with
                 | Some q => assets_insert (fst nz) q acc | None => acc end
               else acc) a acc in
  assets_wfb r = true /\ forall n, Z.of_N (aq r n) = Z.of_N (aq acc n) + signed_part s (entry_amount a n).
Proof.
  induction a as [|[n1 z1] a IH]; intros acc S OK W Z0; cbn [fold_left].
  - split; [exact W|]. intros n. unfold entry_amount. cbn. unfold signed_part. destruct s; lia.
  - apply (am_sorted_cons name_cmp name_key_order) in S. destruct S as [A S].
    assert (OK1 : amount_ok z1) by (apply (OK n1 z1); left; reflexivity). pose proof OK1 as [R1 M1].
    destruct (int_accessors_exact z1 R1 M1) as [P [Ng _]]. pose proof (signed_part_bound s z1 OK1) as B1.
    assert (EA : forall n, entry_amount ((n1, z1) :: a) n = if bytes_eqb n n1 then z1 else entry_amount a n).
    { intros n. unfold entry_amount. cbn [am_get]. destruct (bytes_eqb n n1) eqn:E.
      - apply bytes_eqb_eq in E. subst. rewrite name_cmp_refl. reflexivity.
      - destruct (name_cmp n n1) eqn:C; try reflexivity. apply name_cmp_eq in C. subst. rewrite bytes_eqb_refl in E. discriminate. }
    assert (EA1 : entry_amount a n1 = 0) by (unfold entry_amount; rewrite (above_get name_cmp n1 a A); reflexivity).
    cbn [fst snd].
    set (acc1 := if Bool.eqb (int_is_positive z1) s then
                   match (if s then int_as_positive z1 else int_as_negative z1) with Some q => assets_insert n1 q acc | None => acc end
                 else acc).
    assert (H1 : assets_wfb acc1 = true /\ forall n, Z.of_N (aq acc1 n) = Z.of_N (aq acc n) + if bytes_eqb n n1 then signed_part s z1 else 0).
    { unfold acc1, int_is_positive, signed_part in *. specialize (Z0 n1 z1 (or_introl eq_refl)).
      destruct s; destruct (0 <=? z1) eqn:Sg; cbn [Bool.eqb].
      - rewrite P. split; [apply assets_wfb_insert; [exact W | assert (Z.of_N two64 = two64Z) by reflexivity; lia]|].
        intros n. rewrite aq_insert. destruct (bytes_eqb n n1) eqn:E; [apply bytes_eqb_eq in E; subst; rewrite Z0; lia | lia].
      - split; [exact W|]. intros n. destruct (bytes_eqb n n1); lia.
      - split; [exact W|]. intros n. destruct (bytes_eqb n n1); lia.
      - rewrite Ng. replace (z1 <? 0) with true by lia.
        split; [apply assets_wfb_insert; [exact W | assert (Z.of_N two64 = two64Z) by reflexivity; lia]|].
        intros n. rewrite aq_insert. destruct (bytes_eqb n n1) eqn:E; [apply bytes_eqb_eq in E; subst; rewrite Z0; lia | lia]. }
    destruct H1 as [W1 Q1].
    destruct (IH acc1 S (fun n z I => OK n z (or_intror I)) W1) as [W2 Q2].
    { intros n z I. assert (Hn : bytes_eqb n n1 = false).
      { destruct (bytes_eqb n n1) eqn:E; [|reflexivity]. apply bytes_eqb_eq in E. subst. exfalso.
        unfold above in A. rewrite Forall_forall in A. specialize (A (n1, z) I). cbn in A. rewrite name_cmp_refl in A. discriminate. }
      specialize (Q1 n). rewrite Hn in Q1. specialize (Z0 n z (or_intror I)). lia. }
    split; [exact W2|]. intros n. rewrite Q2, Q1, EA. destruct (bytes_eqb n n1) eqn:E; [|lia].
    apply bytes_eqb_eq in E. subst. rewrite EA1. unfold signed_part. destruct s; lia.
Qed.

Lemma mint_entry_assets_spec s a : am_sorted name_cmp a = true -> (forall n z, In (n, z) a -> amount_ok z) ->
  assets_wfb (mint_entry_assets s a) = true /\
  forall n, Z.of_N (aq (mint_entry_assets s a) n) = signed_part s (entry_amount a n).
Proof.
  intros S OK. destruct (mint_entry_assets_fold s a assets_new S OK eq_refl (fun _ _ _ => eq_refl)) as [W Q].
  unfold mint_entry_assets. split; [exact W|]. intros n. rewrite (Q n). reflexivity.
Qed.

(* the specification is additive over the entry list *)
Lemma spec_fold_acc s m p n : forall acc,
  fold_left (fun t e => if bytes_eqb (fst e) p then t + signed_part s (entry_amount (snd e) n) else t) m acc
  = acc + mint_spec_qty s m p n.
Proof.
  unfold mint_spec_qty. induction m as [|e m IH]; intros acc; cbn [fold_left]; [lia|].
  rewrite IH, (IH (if bytes_eqb (fst e) p then _ else _)). destruct (bytes_eqb (fst e) p); lia.
Qed.

Lemma spec_cons s e m p n :
  mint_spec_qty s (e :: m) p n = (if bytes_eqb (fst e) p then signed_part s (entry_amount (snd e) n) else 0) + mint_spec_qty s m p n.
Proof. unfold mint_spec_qty at 1. cbn [fold_left]. rewrite spec_fold_acc. destruct (bytes_eqb (fst e) p); lia. Qed.

Definition mint_ok (m : mint) : Prop :=
  forall p a, In (p, a) m -> am_sorted name_cmp a = true /\ forall n z, In (n, z) a -> amount_ok z.

Lemma mint_fold_spec s m : forall res, mint_ok m -> has_dup_policy m = false ->
  ma_wfb res = true -> (forall p a, In (p, a) m -> ma_get p res = None) ->
  let r := fold_left (fun res e => match mint_entry_assets s (snd e) with [] => res | assets => ma_insert (fst e) assets res end) m res in
  ma_wfb r = true /\ forall p n, Z.of_N (ma_qty r p n) = Z.of_N (ma_qty res p n) + mint_spec_qty s m p n.
Proof.
  induction m as [|[p1 a1] m IH]; intros res OK D W Fresh; cbn [fold_left].
  - split; [exact W|]. intros. unfold mint_spec_qty. cbn. lia.
  - cbn [has_dup_policy] in D. apply orb_false_iff in D. destruct D as [D1 D2].
    destruct (OK p1 a1 (or_introl eq_refl)) as [S1 A1]. destruct (mint_entry_assets_spec s a1 S1 A1) as [Wa Qa].
    cbn [fst snd].
    set (res1 := match mint_entry_assets s a1 with [] => res | x :: l => ma_insert p1 (x :: l) res end).
    assert (H1 : ma_wfb res1 = true /\ (forall p n, Z.of_N (ma_qty res1 p n) = Z.of_N (ma_qty res p n) +
                                          if bytes_eqb p1 p then signed_part s (entry_amount a1 n) else 0) /\
                 (forall p a, In (p, a) m -> ma_get p res1 = None)).
    { assert (F1 : ma_get p1 res = None) by (apply (Fresh p1 a1); left; reflexivity).
      assert (NE : forall p a, In (p, a) m -> bytes_eqb p p1 = false).
      { intros p a I. destruct (bytes_eqb p p1) eqn:E; [|reflexivity]. exfalso.
        assert (X : existsb (fun e : bytes * mint_assets => bytes_eqb (fst e) p1) m = true)
          by (apply existsb_exists; exists (p, a); split; [exact I | exact E]). congruence. }
      unfold res1. destruct (mint_entry_assets s a1) as [|e0 as0] eqn:EA.
      - split; [exact W|]. split.
        + intros p n. destruct (bytes_eqb p1 p); [|lia]. specialize (Qa n). unfold aq in Qa. cbn in Qa. lia.
        + intros p a I. apply (Fresh p a). right. exact I.
      - rewrite <- EA in Wa, Qa |- *. split; [apply ma_wfb_insert; assumption|]. split.
        + intros p n. rewrite ma_qty_insert, (bytes_eqb_sym p p1). destruct (bytes_eqb p1 p) eqn:E; [|lia].
          apply bytes_eqb_eq in E. subst p. rewrite (ma_qty_unfold res p1 n), F1, Qa. lia.
        + intros p a I. unfold ma_get, ma_insert. rewrite (am_get_insert bytes_cmp bytes_key_order), (keq_bytes_eqb _ bytes_key_order).
          rewrite (NE p a I). apply (Fresh p a). right. exact I. }
    destruct H1 as [W1 [Q1 Fr1]].
    destruct (IH res1 (fun p a I => OK p a (or_intror I)) D2 W1 Fr1) as [W2 Q2].
    split; [exact W2|]. intros p n. rewrite Q2, Q1, spec_cons. cbn [fst snd]. lia.
Qed.

(* Mint::as_positive_multiasset / as_negative_multiasset are exact outside the two known classes *)
Theorem mint_as_multiasset_exact s m : mint_ok m -> has_dup_policy m = false ->
  ma_wfb (mint_as_multiasset s m) = true /\
  forall p n, Z.of_N (ma_qty (mint_as_multiasset s m) p n) = mint_spec_qty s m p n.
Proof.
  intros OK D. destruct (mint_fold_spec s m ma_new OK D ma_wfb_nil (fun _ _ _ => eq_refl)) as [W Q].
  unfold mint_as_multiasset. split; [exact W|]. intros p n. rewrite (Q p n). reflexivity.
Qed.

(* both known classes are real: a later entry of the same policy replaces the earlier one; a burn of 2^64 is reported as 0 *)
Lemma mint_dup_policy_refuted :
  let m := [([1%N], [([97%N], 5)]); ([1%N], [([98%N], 7)])] in
  mint_spec_qty true m [1%N] [97%N] = 5 /\ ma_qty (mint_as_positive_multiasset m) [1%N] [97%N] = 0%N.
Proof. split; vm_compute; reflexivity. Qed.
Lemma mint_min_refuted :
  let m := [([1%N], [([97%N], int_min)])] in
  mint_spec_qty false m [1%N] [97%N] = two64Z /\ ma_qty (mint_as_negative_multiasset m) [1%N] [97%N] = 0%N.
Proof. split; vm_compute; reflexivity. Qed.

(* the decidable form of the premises *)
Lemma mint_ok_of_bool m : mint_wfb m = true -> mint_has_min m = false -> mint_ok m.
Proof.
  intros W M p a I. unfold mint_wfb in W. rewrite forallb_forall in W. specialize (W (p, a) I). cbn [snd] in W.
  apply andb_true_iff in W. destruct W as [S F]. split; [exact S|]. intros n z Iz.
  rewrite forallb_forall in F. specialize (F (n, z) Iz). cbn [snd] in F. apply andb_true_iff in F. destruct F as [R _].
  split; [exact R|]. intros ->.
  assert (X : mint_has_min m = true); [|congruence].
  unfold mint_has_min. apply existsb_exists. exists (p, a). split; [exact I|]. cbn [snd].
  apply existsb_exists. exists (n, int_min). split; [exact Iz | reflexivity].
Qed.

Example mint_as_multiasset_example :
  let m := [([1%N], [([97%N], 5); ([98%N], - int_max)]); ([2%N], [([], int_max)]); ([3%N], [])] in
  mint_wfb m = true /\ mint_has_min m = false /\ has_dup_policy m = false /\
  mint_as_positive_multiasset m = [([1%N], [([97%N], 5%N)]); ([2%N], [([], (two64 - 1)%N)])] /\
  mint_as_negative_multiasset m = [([1%N], [([98%N], (two64 - 1)%N)])].
Proof. repeat split; vm_compute; reflexivity. Qed.
