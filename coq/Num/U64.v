(* Num/U64.v — BigNum (u64 wrapper): protocol_types/numeric/big_num.rs:24-110.
   The checked operations themselves are in Base/U64.v (checked_add / checked_sub / checked_mul /
   clamped_sub / div_floor); this file adds the remaining public methods and the specification
   "exact or explicit error".  No proofs in this file. *)
From CSL Require Import Base.Prelude Base.U64 Num.Decimal.
Local Open Scope N_scope.

Definition bn_from_str (s : text) : result N := parse_u64 s.      (* string.parse::<u64>() *)
Definition bn_to_str (n : N) : text := print_N n.                 (* format!("{}", self.0) *)
Definition bn_zero : N := 0.
Definition bn_one : N := 1.
Definition bn_is_zero (n : N) : bool := n =? 0.
Definition bn_max_value : N := two64 - 1.
Definition bn_compare (a b : N) : Z :=
  match N.compare a b with Eq => 0%Z | Lt => (-1)%Z | Gt => 1%Z end.
Definition bn_less_than (a b : N) : bool := (bn_compare a b <? 0)%Z.
Definition bn_max (a b : N) : N := if bn_less_than a b then b else a.

(* the five arithmetic operations under one name (used by the driver and the judge) *)
Inductive bn_op := OpAdd | OpSub | OpMul | OpClampedSub | OpDivFloor.
Definition bn_apply (op : bn_op) (a b : N) : result N :=
  match op with
  | OpAdd => checked_add a b
  | OpSub => checked_sub a b
  | OpMul => checked_mul a b
  | OpClampedSub => Ok (clamped_sub a b)
  | OpDivFloor => div_floor a b
  end.

(* ---- specification ---- *)
(* the mathematically exact result in Z; None when the operation is undefined (division by zero) *)
Definition bn_exact (op : bn_op) (a b : N) : option Z :=
  match op with
  | OpAdd => Some (Z.of_N a + Z.of_N b)%Z
  | OpSub => Some (Z.of_N a - Z.of_N b)%Z
  | OpMul => Some (Z.of_N a * Z.of_N b)%Z
  | OpClampedSub => Some (Z.max 0 (Z.of_N a - Z.of_N b))%Z     (* documented: "returns 0 if it would otherwise underflow" *)
  | OpDivFloor => if b =? 0 then None else Some (Z.of_N a / Z.of_N b)%Z
  end.

(* exact result when it is representable, an explicit error otherwise (never a wrapped value, never a panic) *)
Definition exact_or_error_u64 (z : option Z) : result N :=
  match z with
  | Some z => if ((0 <=? z) && (z <? two64Z))%Z then Ok (Z.to_N z) else Err
  | None => Err
  end.

(* known class: division by zero panics (u64 `/`), the signature of div_floor has no error channel *)
Definition known_div_by_zero (op : bn_op) (b : N) : bool :=
  match op with OpDivFloor => b =? 0 | _ => false end.
