(* Num/IntRange.v — the i128-backed signed integer `Int` (CBOR int = uint / nint) and every public way to
   obtain one.  Model of
     protocol_types/numeric/int.rs:11-105      new / new_negative / new_i32 / is_positive / as_positive / as_negative /
                                               as_i32_or_nothing / to_str / from_str (since /repo a6f00b9) and the serde
                                               (JSON) forms, which are to_str / from_str
     serialization/numeric/int.rs:4-28         CBOR Serialize / Deserialize
     serialization/utils.rs                    read_nint, write_nint (since /repo 07262c5)
     protocol_types/numeric/big_int.rs:63-77   BigInt::as_int
     protocol_types/metadata.rs                encode_number (JSON number -> Int), BasicConversions map key -> Int
     builders/mint_builder.rs:97-205           add_asset / set_asset accumulation (since /repo 3669e5e and 0175f0b), build
     lib.rs MintAssets::insert / new_from_entry (zero rejected), Mint::as_positive/negative_multiasset
   An Int is modelled by its mathematical value (Z); the range invariant is [int_in_range].
   The *_legacy definitions are the code before the repairs (kept for the refutation lemmas).
   No proofs in this file. *)
From CSL Require Import Base.Prelude Cbor.Head Num.Decimal.
Local Open Scope Z_scope.

Definition int_min : Z := - two64Z.            (* -2^64      = Int::MIN_VALUE *)
Definition int_max : Z := two64Z - 1.          (*  2^64 - 1  = Int::MAX_VALUE *)
Definition int_in_range (z : Z) : bool := (int_min <=? z) && (z <=? int_max).

Definition two63 : Z := 9223372036854775808.
Definition two31 : Z := 2147483648.

(* ---- constructors and accessors (int.rs) ---- *)
Definition int_new (x : N) : Z := Z.of_N x.
Definition int_new_negative (x : N) : Z := - Z.of_N x.
Definition int_new_i32 (x : Z) : Z := x.                        (* argument is an i32 *)
Definition int_is_positive (z : Z) : bool := 0 <=? z.
(* `self.0 as u64`: truncating cast *)
Definition int_as_positive (z : Z) : option N :=
  if int_is_positive z then Some (Z.to_N (z mod two64Z)) else None.
Definition int_as_negative (z : Z) : option N :=
  if int_is_positive z then None else Some (Z.to_N ((- z) mod two64Z)).
Definition int_as_i32 (z : Z) : option Z :=
  if (- two31 <=? z) && (z <? two31) then Some z else None.
Definition int_to_str (z : Z) : text := print_Z z.

(* Int::from_str since /repo a6f00b9: parse::<i128>() then MIN_VALUE <= x <= MAX_VALUE *)
Definition int_from_str (s : text) : result Z :=
  let* x := parse_i128 s in
  if int_in_range x then Ok x else Err.

(* before: `if x.abs() > u64::MAX` — abs() of i128::MIN overflows (panic with overflow checks, wraps to
   i128::MIN without, which then passes the test), and -2^64 is rejected although Int holds it *)
Definition int_from_str_legacy (overflow_checks : bool) (s : text) : result Z :=
  let* x := parse_i128 s in
  if x =? - two127 then (if overflow_checks then Panic else Ok x)
  else if Z.abs x >? int_max then Err else Ok x.

(* ---- CBOR (serialization/numeric/int.rs) ---- *)
(* `self.0 as u64` for non-negative values; write_nint: argument (-1 - value) as u64 *)
Definition int_serialize (z : Z) : bytes :=
  if z <? 0 then encode_head 1 (Z.to_N ((-1 - z) mod two64Z))
  else encode_head 0 (Z.to_N (z mod two64Z)).

(* before /repo 07262c5: write_negative_integer(self.0 as i64), cbor_event computes (-value - 1) as u64 in i64 *)
Definition wrap_i64 (z : Z) : Z := (z + two63) mod two64Z - two63.
Definition nint_arg_legacy (overflow_checks : bool) (z : Z) : result N :=
  let v := wrap_i64 z in
  if (v =? - two63) && overflow_checks then Panic          (* -i64::MIN *)
  else Ok (Z.to_N (wrap_i64 (wrap_i64 (- v) - 1) mod two64Z)).
Definition int_serialize_legacy (overflow_checks : bool) (z : Z) : result bytes :=
  if z <? 0 then let* a := nint_arg_legacy overflow_checks z in Ok (encode_head 1 a)
  else Ok (encode_head 0 (Z.to_N (z mod two64Z))).

Definition int_deserialize (bs : bytes) : result (Z * bytes) :=
  match decode_head bs with
  | Some (0%N, Arg n, r) => Ok (Z.of_N n, r)
  | Some (1%N, Arg n, r) => Ok (- Z.of_N n - 1, r)          (* read_nint: -(v as i128) - 1 *)
  | _ => Err
  end.
(* from_bytes: trailing bytes are ignored *)
Definition int_from_bytes (bs : bytes) : result Z :=
  let* '(z, _) := int_deserialize bs in Ok z.

(* ---- BigInt::as_int (big_int.rs:63-77): one u64 digit at most ---- *)
Definition bigint_as_int (z : Z) : option Z :=
  if Z.abs z <? two64Z then Some z else None.
Definition bigint_as_u64 (z : Z) : option N :=
  if (0 <=? z) && (z <? two64Z) then Some (Z.to_N z) else None.

(* ---- metadata.rs ---- *)
Definition two63N : N := 9223372036854775808%N.
Definition parse_i64 (s : text) : result Z :=
  let* x := parse_i128 s in
  if (- two63 <=? x) && (x <? two63) then Ok x else Err.

(* encode_number on a JSON integer literal (arbitrary_precision: as_u64 / as_i64 parse the literal):
   as_u64 -> Int::new; else as_i64 -> Int::new_negative(|x|); else "floats not allowed".
   [json_min_fixed] = false is the code with `-x as u64` (debug overflow on i64::MIN, DESIGN section 7 row 26). *)
Definition meta_encode_number_gen (json_min_fixed overflow_checks : bool) (s : text) : result Z :=
  match s with
  | c :: _ =>
      if N.eqb c ch_plus then Err                                 (* not a JSON number; never reaches encode_number *)
      else
        match parse_u64 s with
        | Ok x => Ok (int_new x)
        | _ =>
            match parse_i64 s with
            | Ok x =>
                if (x =? - two63) && negb json_min_fixed && overflow_checks then Panic
                else Ok (int_new_negative (Z.to_N ((- x) mod two64Z)))
            | _ => Err
            end
        end
  | [] => Err
  end.

(* BasicConversions object key: an Int when it parses as i128 and lies within -(2^64-1)..2^64-1, otherwise
   a text / bytes key (None here).  [meta_key_checked] = false is the code before the repair (any i128 becomes an Int,
   DESIGN section 7 row 16). *)
Definition meta_key_int_gen (meta_key_checked : bool) (s : text) : option Z :=
  match parse_i128 s with
  | Ok x => if meta_key_checked then (if (- int_max <=? x) && (x <=? int_max) then Some x else None) else Some x
  | _ => None
  end.

(* decode_metadatum_to_json_value, arm Int (all three schemas): u64::try_from for x >= 0, i64::try_from for x < 0, each an
   explicit error when the value does not fit; the JSON number literal is the decimal text *)
Definition meta_int_to_json (z : Z) : result text :=
  if 0 <=? z then (if z <? two64Z then Ok (print_Z z) else Err)
  else (if - two63 <=? z then Ok (print_Z z) else Err).

(* switches following /repo (flip when the repair of metadata.rs is committed; see checks/C14.py) *)
Definition json_min_fixed : bool := true.    (* /repo eac05aa *)
Definition meta_key_checked : bool := true.  (* /repo 4362d12 *)
Definition meta_encode_number := meta_encode_number_gen json_min_fixed.
Definition meta_key_int := meta_key_int_gen meta_key_checked.

(* ---- MintBuilder (mint_builder.rs) ---- *)
(* the builder keeps one Int per (policy, asset name); keys are abstract numbers here *)
Definition mint_state := list (N * Z).
Fixpoint ms_get (k : N) (s : mint_state) : option Z :=
  match s with
  | [] => None
  | (k', v) :: r => if (k =? k')%N then Some v else ms_get k r
  end.
Fixpoint ms_set (k : N) (v : Z) (s : mint_state) : mint_state :=
  match s with
  | [] => [(k, v)]
  | (k', v') :: r => if (k =? k')%N then (k, v) :: r else (k', v') :: ms_set k v r
  end.

Inductive mint_op := MAdd (k : N) (amount : Z) | MSet (k : N) (amount : Z).

Definition i128_ok (z : Z) : bool := (- two127 <=? z) && (z <? two127).

(* update_mint_value: zero rejected; a quantity below -(2^64-1) rejected (since /repo 0175f0b: the burn side is
   balanced in u64 quantities); entry(..).or_insert(0); overwrite or checked accumulation within -(2^64-1)..2^64-1
   (since /repo 3669e5e / 0175f0b).  Returns the new state and whether the call returned Ok. *)
Definition mint_min : Z := - int_max.
Definition mint_step (s : mint_state) (op : mint_op) : mint_state * bool :=
  match op with
  | MSet k a => if (a =? 0) || (a <? mint_min) then (s, false) else (ms_set k a s, true)
  | MAdd k a =>
      if (a =? 0) || (a <? mint_min) then (s, false)
      else
        let cur := match ms_get k s with Some v => v | None => 0 end in
        let s0 := match ms_get k s with Some _ => s | None => ms_set k 0 s end in
        let sum := cur + a in
        if i128_ok sum && ((mint_min <=? sum) && (sum <=? int_max)) then (ms_set k sum s0, true) else (s0, false)
  end.

(* before /repo 3669e5e: mint.0 += amount.0 (unchecked in the Int range) *)
Definition mint_step_legacy (s : mint_state) (op : mint_op) : mint_state * bool :=
  match op with
  | MSet k a => if a =? 0 then (s, false) else (ms_set k a s, true)
  | MAdd k a =>
      if a =? 0 then (s, false)
      else
        let cur := match ms_get k s with Some v => v | None => 0 end in
        (ms_set k (cur + a) s, true)
  end.

Fixpoint mint_run (step : mint_state -> mint_op -> mint_state * bool) (s : mint_state) (ops : list mint_op)
  : mint_state * list bool :=
  match ops with
  | [] => (s, [])
  | op :: r => let '(s1, ok) := step s op in let '(s2, oks) := mint_run step s1 r in (s2, ok :: oks)
  end.

(* build(): MintAssets::insert rejects a zero quantity *)
Definition mint_build (s : mint_state) : result mint_state :=
  if forallb (fun kv : N * Z => negb (snd kv =? 0)) s then Ok s else Err.

(* Mint::as_positive_multiasset / as_negative_multiasset quantity of one entry *)
Definition mint_entry_positive (z : Z) : option N := int_as_positive z.
Definition mint_entry_negative (z : Z) : option N := int_as_negative z.

(* ---- every public way to obtain an Int, as one datatype (the operation set of C14_int_range_invariant) ---- *)
Inductive int_src :=
| SNew (x : N)                      (* Int::new(&BigNum)          *)
| SNewNegative (x : N)              (* Int::new_negative(&BigNum) *)
| SNewI32 (x : Z)                   (* Int::new_i32(i32)          *)
| SFromStr (s : text)               (* Int::from_str, serde / JSON deserialisation of Int (MintAssets, metadata detailed schema …) *)
| SFromBytes (bs : bytes)           (* CBOR: Int::from_bytes and every enclosing structure (metadata, mint) *)
| SBigIntAsInt (z : Z)              (* BigInt::as_int *)
| SJsonNumber (s : text)            (* encode_json_str_to_metadatum: number *)
| SMetaKey (s : text)               (* encode_json_str_to_metadatum, BasicConversions: object key *)
| SMint (ops : list mint_op) (k : N).   (* MintBuilder history, then build().get(k) *)

(* arguments respect their Rust types (u64 / i32), amounts handed to the MintBuilder are themselves in range *)
Definition mint_op_amount (op : mint_op) : Z := match op with MAdd _ a | MSet _ a => a end.
Definition int_src_wf (src : int_src) : bool :=
  match src with
  | SNew x | SNewNegative x => (x <? two64)%N
  | SNewI32 x => (- two31 <=? x) && (x <? two31)
  | SMint ops _ => forallb (fun op => int_in_range (mint_op_amount op)) ops
  | _ => true
  end.

Definition int_obtain_gen (key_checked : bool) (step : mint_state -> mint_op -> mint_state * bool) (src : int_src) : option Z :=
  match src with
  | SNew x => Some (int_new x)
  | SNewNegative x => Some (int_new_negative x)
  | SNewI32 x => Some (int_new_i32 x)
  | SFromStr s => match int_from_str s with Ok z => Some z | _ => None end
  | SFromBytes bs => match int_from_bytes bs with Ok z => Some z | _ => None end
  | SBigIntAsInt z => bigint_as_int z
  | SJsonNumber s => match meta_encode_number_gen true false s with Ok z => Some z | _ => None end
  | SMetaKey s => meta_key_int_gen key_checked s
  | SMint ops k => ms_get k (fst (mint_run step [] ops))
  end.
Definition int_obtain := int_obtain_gen meta_key_checked mint_step.

(* known class while metadata.rs is unrepaired: a numeric object key outside the range *)
Definition known_meta_key (src : int_src) : bool :=
  match src with
  | SMetaKey s => negb meta_key_checked &&
                  match parse_i128 s with Ok x => negb (int_in_range x) | _ => false end
  | _ => false
  end.
