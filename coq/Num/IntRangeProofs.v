(* Proofs about Num/IntRange.v: the range invariant of Int over every public way to obtain one, the CBOR and
   decimal round trips over the whole range, the cast argument of the former nint workaround. *)
From CSL Require Import Base.Prelude Cbor.Head Cbor.HeadProofs Num.Decimal Num.DecimalProofs Num.IntRange.
Local Open Scope Z_scope.

Lemma int_in_range_iff z : int_in_range z = true <-> - two64Z <= z <= two64Z - 1.
Proof. unfold int_in_range, int_min, int_max. lia. Qed.

(* ---- decoding yields 64-bit arguments ---- *)
Lemma unbe_bound l : bytes_ok l -> forall acc, (unbe l acc < (acc + 1) * 256 ^ N.of_nat (length l))%N.
Proof.
  induction 1 as [|b l Hb _ IH]; intros acc; cbn [unbe length].
  - change (256 ^ N.of_nat 0)%N with 1%N. lia.
  - specialize (IH (acc * 256 + b)%N). rewrite Nat2N.inj_succ, N.pow_succ_r'. nia.
Qed.

Lemma bytes_ok_firstn k l : bytes_ok l -> bytes_ok (firstn k l).
Proof.
  unfold bytes_ok. intros H. revert k. induction H as [|b l Hb _ IH]; intros [|k]; cbn [firstn]; try apply Forall_nil.
  apply Forall_cons; [exact Hb | apply IH].
Qed.
  
Lemma split_at_ok k l p r : bytes_ok l -> split_at k l = Some (p, r) -> bytes_ok p /\ length p = k.
Proof.
  unfold split_at. destruct (k <=? length l)%nat eqn:E; [|discriminate]. intros H X. inversion X; subst.
  split; [apply bytes_ok_firstn; exact H | apply firstn_length_le; apply Nat.leb_le; exact E].
Qed.

Lemma decode_head_arg_bound bs m n r : bytes_ok bs -> decode_head bs = Some (m, Arg n, r) -> (n < two64)%N.
Proof.
  intros H. unfold decode_head. destruct bs as [|b t]; [discriminate|]. inversion H as [|? ? Hb Ht]; subst.
  destruct (b mod 32 <? 24)%N eqn:E1; [intros X; inversion X; subst; unfold two64; lia|].
  assert (P : forall k, (256 ^ N.of_nat k <= two64)%N ->
              match split_at k t with Some (p, r') => Some ((b / 32)%N, Arg (unbe p 0), r') | None => None end = Some (m, Arg n, r) ->
              (n < two64)%N).
  { intros k K. destruct (split_at k t) as [[p r']|] eqn:S; [|discriminate]. intros X. inversion X; subst.
    destruct (split_at_ok _ _ _ _ Ht S) as [Hp Hl]. pose proof (unbe_bound p Hp 0) as U. rewrite Hl in U. lia. }
  destruct (b mod 32 =? 24)%N; [apply P; vm_compute; discriminate|].
  destruct (b mod 32 =? 25)%N; [apply P; vm_compute; discriminate|].
  destruct (b mod 32 =? 26)%N; [apply P; vm_compute; discriminate|].
  destruct (b mod 32 =? 27)%N; [apply P; vm_compute; discriminate|].
  destruct (b mod 32 =? 31)%N; discriminate.
Qed.

(* ---- CBOR round trip over the whole range (serialization/numeric/int.rs with write_nint) ---- *)
Theorem int_cbor_roundtrip z rest : int_in_range z = true -> int_deserialize (int_serialize z ++ rest) = Ok (z, rest).
Proof.
  intros R. apply int_in_range_iff in R. unfold int_serialize, int_deserialize.
  destruct (z <? 0) eqn:S.
  - rewrite Z.mod_small by (unfold two64Z in *; lia).
    rewrite decode_encode_head by (unfold two64, two64Z in *; lia). f_equal. f_equal. lia.
  - rewrite Z.mod_small by (unfold two64Z in *; lia).
    rewrite decode_encode_head by (unfold two64, two64Z in *; lia). f_equal. f_equal. lia.
Qed.

Corollary int_from_bytes_roundtrip z : int_in_range z = true -> int_from_bytes (int_serialize z) = Ok z.
Proof.
  intros R. unfold int_from_bytes. rewrite <- (app_nil_r (int_serialize z)), (int_cbor_roundtrip z [] R). reflexivity.
Qed.

(* ---- decimal round trip over the whole range (Int::to_str / Int::from_str, serde) ---- *)
Theorem int_decimal_roundtrip z : int_in_range z = true -> int_from_str (int_to_str z) = Ok z.
Proof.
  intros R. unfold int_from_str, int_to_str. rewrite parse_i128_print.
  - cbn [bind]. rewrite R. reflexivity.
  - apply int_in_range_iff in R. unfold two64Z, two127 in *. lia.
Qed.

(* the code before /repo a6f00b9 lost the bottom of the range and panicked on i128::MIN *)
Lemma int_from_str_legacy_refuted :
  int_in_range int_min = true /\ (forall oc, int_from_str_legacy oc (int_to_str int_min) = Err) /\
  int_from_str_legacy true (print_Z (- two127)) = Panic /\
  int_from_str_legacy false (print_Z (- two127)) = Ok (- two127).
Proof. repeat split; try (intros []); vm_compute; reflexivity. Qed.

(* ---- the cast argument of the former workaround: write_negative_integer(x as i64) ---- *)
(* for -2^64 <= x < 0 the i64 round trip is exact in wrapping arithmetic and overflows only at x = -2^63 *)
Theorem nint_arg_legacy_exact oc z : - two64Z <= z < 0 -> (oc = false \/ z <> - two63) ->
  nint_arg_legacy oc z = Ok (Z.to_N (-1 - z)).
Proof.
  intros R H. unfold nint_arg_legacy, wrap_i64, two64Z, two63 in *.
  assert (D : z < -9223372036854775808 \/ z = -9223372036854775808 \/ -9223372036854775808 < z) by lia.
  destruct D as [D | [D | D]].
  - replace ((z + 9223372036854775808) mod 18446744073709551616) with (z + 9223372036854775808 + 18446744073709551616)
      by (apply Z.mod_unique with (-1); lia).
    match goal with |- context [?x =? ?y] => replace (x =? y) with false by lia end. cbn [andb].
    f_equal. f_equal.
    replace ((- (z + 9223372036854775808 + 18446744073709551616 - 9223372036854775808) + 9223372036854775808) mod 18446744073709551616)
      with (- z - 18446744073709551616 + 9223372036854775808) by (apply Z.mod_unique with 0; lia).
    replace ((- z - 18446744073709551616 + 9223372036854775808 - 9223372036854775808 - 1 + 9223372036854775808) mod 18446744073709551616)
      with (- z - 18446744073709551616 - 1 + 9223372036854775808) by (apply Z.mod_unique with 0; lia).
    symmetry. apply Z.mod_unique with (-1); lia.
  - subst z. destruct H as [-> | H]; [vm_compute; reflexivity | exfalso; apply H; reflexivity].
  - replace ((z + 9223372036854775808) mod 18446744073709551616) with (z + 9223372036854775808)
      by (apply Z.mod_unique with 0; lia).
    match goal with |- context [?x =? ?y] => replace (x =? y) with false by lia end. cbn [andb].
    f_equal. f_equal.
    replace ((- (z + 9223372036854775808 - 9223372036854775808) + 9223372036854775808) mod 18446744073709551616)
      with (- z + 9223372036854775808) by (apply Z.mod_unique with 0; lia).
    replace ((- z + 9223372036854775808 - 9223372036854775808 - 1 + 9223372036854775808) mod 18446744073709551616)
      with (- z - 1 + 9223372036854775808) by (apply Z.mod_unique with 0; lia).
    symmetry. apply Z.mod_unique with 0; lia.
Qed.

Lemma nint_arg_legacy_refuted : nint_arg_legacy true (- two63) = Panic /\ int_in_range (- two63) = true.
Proof. split; vm_compute; reflexivity. Qed.

Corollary int_serialize_legacy_agrees oc z : int_in_range z = true -> (oc = false \/ z <> - two63) ->
  int_serialize_legacy oc z = Ok (int_serialize z).
Proof.
  intros R H. apply int_in_range_iff in R. unfold int_serialize_legacy, int_serialize. destruct (z <? 0) eqn:S; [|reflexivity].
  rewrite nint_arg_legacy_exact by (auto; lia). cbn [bind]. do 3 f_equal.
  symmetry. apply Z.mod_small. unfold two64Z in *. lia.
Qed.

(* ---- accessors ---- *)
Theorem int_accessors_exact z : int_in_range z = true -> z <> int_min ->
  int_as_positive z = (if 0 <=? z then Some (Z.to_N z) else None) /\
  int_as_negative z = (if z <? 0 then Some (Z.to_N (- z)) else None) /\
  int_as_i32 z = (if (- two31 <=? z) && (z <? two31) then Some z else None).
Proof.
  intros R NM. apply int_in_range_iff in R. unfold int_as_positive, int_as_negative, int_as_i32, int_is_positive, int_min in *.
  split; [|split; [|reflexivity]].
  - destruct (0 <=? z) eqn:S; [|reflexivity]. rewrite Z.mod_small by (unfold two64Z in *; lia). reflexivity.
  - destruct (0 <=? z) eqn:S; [replace (z <? 0) with false by lia; reflexivity|].
    replace (z <? 0) with true by lia. rewrite Z.mod_small by (unfold two64Z in *; lia). reflexivity.
Qed.

(* as_negative of -2^64: the absolute value does not fit a u64 and is truncated to 0 (known finding) *)
Lemma int_as_negative_refuted : int_in_range int_min = true /\ int_as_negative int_min = Some 0%N.
Proof. split; vm_compute; reflexivity. Qed.

(* ---- MintBuilder: the accumulated quantities stay in range over every history ---- *)
Definition ms_in_range (s : mint_state) : Prop := Forall (fun kv : N * Z => int_in_range (snd kv) = true) s.

Lemma ms_set_in_range k v s : ms_in_range s -> int_in_range v = true -> ms_in_range (ms_set k v s).
Proof.
  unfold ms_in_range. intros H V. induction H as [|[k' v'] s Hk Hs IH]; cbn [ms_set].
  - apply Forall_cons; [exact V | apply Forall_nil].
  - destruct (k =? k')%N; apply Forall_cons; auto.
Qed.

Lemma ms_get_in_range k s v : ms_in_range s -> ms_get k s = Some v -> int_in_range v = true.
Proof.
  unfold ms_in_range. induction 1 as [|[k' v'] s Hk _ IH]; cbn [ms_get]; [discriminate|].
  destruct (k =? k')%N; [intros X; inversion X; subst; exact Hk | exact IH].
Qed.

Lemma mint_step_in_range s op : ms_in_range s -> int_in_range (mint_op_amount op) = true ->
  ms_in_range (fst (mint_step s op)).
Proof.
  intros H A. destruct op as [k a | k a]; cbn [mint_step mint_op_amount] in *.
  - destruct ((a =? 0) || (a <? mint_min)); [exact H|].
    assert (H0 : ms_in_range match ms_get k s with Some _ => s | None => ms_set k 0 s end)
      by (destruct (ms_get k s); [exact H | apply ms_set_in_range; [exact H | reflexivity]]).
    destruct (i128_ok _ && _) eqn:C; cbn [fst]; [|exact H0].
    apply andb_true_iff in C. destruct C as [_ C]. apply ms_set_in_range; [exact H0|].
    apply int_in_range_iff. unfold mint_min, int_max in C. lia.
  - destruct ((a =? 0) || (a <? mint_min)); cbn [fst]; [exact H | apply ms_set_in_range; assumption].
Qed.

(* since /repo 0175f0b the builder never holds -2^64 (whose as_negative is truncated) *)
Lemma mint_step_above_min s op : Forall (fun kv : N * Z => snd kv <> int_min) s ->
  Forall (fun kv : N * Z => snd kv <> int_min) (fst (mint_step s op)).
Proof.
  assert (S : forall k v s, Forall (fun kv : N * Z => snd kv <> int_min) s -> v <> int_min ->
              Forall (fun kv : N * Z => snd kv <> int_min) (ms_set k v s)).
  { intros k v s0 H V. induction H as [|[k' v'] s1 Hk Hs IH]; cbn [ms_set].
    - apply Forall_cons; [exact V | apply Forall_nil].
    - destruct (k =? k')%N; apply Forall_cons; auto. }
  intros H. destruct op as [k a | k a]; cbn [mint_step].
  - destruct ((a =? 0) || (a <? mint_min)) eqn:G; [exact H|].
    assert (H0 : Forall (fun kv : N * Z => snd kv <> int_min) match ms_get k s with Some _ => s | None => ms_set k 0 s end)
      by (destruct (ms_get k s); [exact H | apply S; [exact H | discriminate]]).
    destruct (i128_ok _ && _) eqn:C; cbn [fst]; [|exact H0].
    apply andb_true_iff in C. destruct C as [_ C]. apply S; [exact H0|]. unfold mint_min, int_max, int_min in *. lia.
  - destruct ((a =? 0) || (a <? mint_min)) eqn:G; cbn [fst]; [exact H|]. apply S; [exact H|].
    unfold mint_min, int_max, int_min in *. lia.
Qed.

Theorem mint_run_in_range ops : forall s, ms_in_range s ->
  forallb (fun op => int_in_range (mint_op_amount op)) ops = true ->
  ms_in_range (fst (mint_run mint_step s ops)).
Proof.
  induction ops as [|op ops IH]; intros s H A; cbn [mint_run]; [exact H|].
  cbn [forallb] in A. apply andb_true_iff in A. destruct A as [A1 A2].
  pose proof (mint_step_in_range s op H A1) as H1. destruct (mint_step s op) as [s1 ok]. cbn [fst] in H1.
  specialize (IH s1 H1 A2). destruct (mint_run mint_step s1 ops) as [s2 oks]. exact IH.
Qed.

(* the unchecked accumulation (before /repo 3669e5e) leaves the range after two calls *)
Lemma mint_legacy_refuted :
  let ops := [MAdd 0%N int_max; MAdd 0%N int_max] in
  forallb (fun op => int_in_range (mint_op_amount op)) ops = true /\
  ms_get 0%N (fst (mint_run mint_step_legacy [] ops)) = Some (2 * int_max) /\ int_in_range (2 * int_max) = false /\
  int_serialize (2 * int_max) = int_serialize (int_max - 1).      (* truncated on the wire *)
Proof. repeat split; vm_compute; reflexivity. Qed.

Lemma parse_u64_bound s x : parse_u64 s = Ok x -> (x < two64)%N.
Proof.
  unfold parse_u64. destruct (match s with [] => [] | c :: r => if (c =? ch_plus)%N then r else s end); [discriminate|].
  destruct (parse_digits _ 0%N) as [v|]; [|discriminate]. destruct (v <? two64)%N eqn:T; [|discriminate].
  intros X. inversion X; subst. lia.
Qed.

(* ---- every obtainable Int is in range ---- *)
Definition int_src_bytes_ok (src : int_src) : Prop :=
  match src with SFromBytes bs => bytes_ok bs | _ => True end.

Lemma two64_Z x : (x <? two64)%N = true -> 0 <= Z.of_N x < two64Z.
Proof. intros H. assert (Z.of_N two64 = two64Z) by reflexivity. lia. Qed.

Lemma int_from_bytes_in_range bs z : bytes_ok bs -> int_from_bytes bs = Ok z -> int_in_range z = true.
Proof.
  intros B. unfold int_from_bytes, int_deserialize. destruct (decode_head bs) as [[[m a] r]|] eqn:D; [|discriminate].
  destruct a as [arg|]; [|destruct m as [|[|[|[]|]|]]; discriminate].
  pose proof (decode_head_arg_bound bs m arg r B D) as Bn.
  assert (Bz : 0 <= Z.of_N arg < two64Z) by (apply two64_Z; lia). clear Bn D.
  destruct m as [|[|[|[]|]|]]; cbn [bind]; try discriminate; intros X; inversion X; subst; apply int_in_range_iff; lia.
Qed.

Lemma meta_encode_number_in_range jf oc s z : meta_encode_number_gen jf oc s = Ok z -> int_in_range z = true.
Proof.
  unfold meta_encode_number_gen. destruct s as [|c s]; [discriminate|]. destruct (N.eqb c ch_plus); [discriminate|].
  assert (Neg : forall x, int_in_range (int_new_negative (Z.to_N ((- x) mod two64Z))) = true).
  { intros x. apply int_in_range_iff. unfold int_new_negative.
    pose proof (Z.mod_pos_bound (- x) two64Z eq_refl). rewrite Z2N.id by lia. lia. }
  destruct (parse_u64 (c :: s)) as [x| | |] eqn:P.
  - apply parse_u64_bound in P. intros X. inversion X; subst. apply int_in_range_iff.
    unfold int_new. assert (0 <= Z.of_N x < two64Z) by (apply two64_Z; lia). lia.
  - destruct (parse_i64 (c :: s)) as [x| | |]; try discriminate.
    destruct ((x =? - two63) && negb jf && oc); [discriminate|]. intros X. inversion X; subst. apply Neg.
  - destruct (parse_i64 (c :: s)) as [x| | |]; try discriminate.
    destruct ((x =? - two63) && negb jf && oc); [discriminate|]. intros X. inversion X; subst. apply Neg.
  - destruct (parse_i64 (c :: s)) as [x| | |]; try discriminate.
    destruct ((x =? - two63) && negb jf && oc); [discriminate|]. intros X. inversion X; subst. apply Neg.
Qed.

Theorem int_obtain_in_range src z : int_src_wf src = true -> int_src_bytes_ok src ->
  int_obtain src = Some z -> int_in_range z = true.
Proof.
  intros W B. unfold int_obtain. destruct src; cbn [int_obtain_gen int_src_wf int_src_bytes_ok] in W, B |- *.
  - intros [= <-]. apply two64_Z in W. apply int_in_range_iff. unfold int_new. lia.
  - intros [= <-]. apply two64_Z in W. apply int_in_range_iff. unfold int_new_negative. lia.
  - intros [= <-]. apply int_in_range_iff. unfold int_new_i32. change two31 with 2147483648 in W.
    assert (2147483648 < two64Z) by reflexivity. lia.
  - unfold int_from_str. destruct (parse_i128 s) as [x| | |]; cbn [bind]; try discriminate.
    destruct (int_in_range x) eqn:R; [intros [= <-]; exact R | discriminate].
  - destruct (int_from_bytes bs) as [x| | |] eqn:E; try discriminate.
    intros [= <-]. eapply int_from_bytes_in_range; eassumption.
  - unfold bigint_as_int. destruct (Z.abs z0 <? two64Z) eqn:A; [|discriminate].
    intros [= <-]. apply int_in_range_iff. lia.
  - destruct (meta_encode_number_gen true false s) as [x| | |] eqn:E; try discriminate.
    intros [= <-]. eapply meta_encode_number_in_range; eassumption.
  - unfold meta_key_int_gen, meta_key_checked. destruct (parse_i128 s) as [x| | |]; try discriminate.
    destruct ((- int_max <=? x) && (x <=? int_max)) eqn:R; [|discriminate].
    intros [= <-]. apply int_in_range_iff. unfold int_max in R. lia.
  - intros G. eapply ms_get_in_range; [|exact G]. apply mint_run_in_range; [apply Forall_nil | exact W].
Qed.

(* the unchecked BasicConversions key (before /repo 4362d12) *)
Lemma meta_key_legacy_refuted :
  let s := print_Z 99999999999999999999999 in
  int_obtain_gen false mint_step (SMetaKey s) = Some 99999999999999999999999 /\ int_in_range 99999999999999999999999 = false.
Proof. split; vm_compute; reflexivity. Qed.

(* premises of int_obtain_in_range are satisfiable on non-trivial sources *)
Example int_obtain_example :
  let src := SMint [MAdd 1%N (- int_max); MSet 2%N 5; MAdd 1%N int_max; MAdd 1%N int_max; MAdd 1%N 7] 1%N in
  int_src_wf src = true /\ int_src_bytes_ok src /\ int_obtain src = Some int_max.
Proof. repeat split; vm_compute; reflexivity. Qed.

(* ---- the MintBuilder's own, narrower range: -(2^64-1) .. 2^64-1 (since /repo 0175f0b) ---- *)
Definition in_mint_range (z : Z) : Prop := mint_min <= z <= int_max.
Definition ms_in_mint_range (s : mint_state) : Prop := Forall (fun kv : N * Z => in_mint_range (snd kv)) s.

Lemma ms_set_mint_range k v s : ms_in_mint_range s -> in_mint_range v -> ms_in_mint_range (ms_set k v s).
Proof.
  unfold ms_in_mint_range. intros H V. induction H as [|[k' v'] s Hk Hs IH]; cbn [ms_set].
  - apply Forall_cons; [exact V | apply Forall_nil].
  - destruct (k =? k')%N; apply Forall_cons; auto.
Qed.

Lemma ms_get_mint_range k s v : ms_in_mint_range s -> ms_get k s = Some v -> in_mint_range v.
Proof.
  unfold ms_in_mint_range. induction 1 as [|[k' v'] s Hk _ IH]; cbn [ms_get]; [discriminate|].
  destruct (k =? k')%N; [intros X; inversion X; subst; exact Hk | exact IH].
Qed.

Lemma mint_step_mint_range s op : ms_in_mint_range s -> int_in_range (mint_op_amount op) = true ->
  ms_in_mint_range (fst (mint_step s op)).
Proof.
  intros H A. apply int_in_range_iff in A. assert (Z0 : in_mint_range 0) by (unfold in_mint_range, mint_min, int_max, two64Z; lia).
  destruct op as [k a | k a]; cbn [mint_step mint_op_amount] in *.
  - destruct ((a =? 0) || (a <? mint_min)) eqn:G; [exact H|].
    assert (H0 : ms_in_mint_range match ms_get k s with Some _ => s | None => ms_set k 0 s end)
      by (destruct (ms_get k s); [exact H | apply ms_set_mint_range; assumption]).
    destruct (i128_ok _ && _) eqn:C; cbn [fst]; [|exact H0].
    apply andb_true_iff in C. destruct C as [_ C]. apply ms_set_mint_range; [exact H0 | unfold in_mint_range; lia].
  - destruct ((a =? 0) || (a <? mint_min)) eqn:G; cbn [fst]; [exact H|]. apply ms_set_mint_range; [exact H|].
    unfold in_mint_range, int_max. lia.
Qed.

Theorem mint_run_mint_range ops : forall s, ms_in_mint_range s ->
  forallb (fun op => int_in_range (mint_op_amount op)) ops = true ->
  ms_in_mint_range (fst (mint_run mint_step s ops)).
Proof.
  induction ops as [|op ops IH]; intros s H A; cbn [mint_run]; [exact H|].
  cbn [forallb] in A. apply andb_true_iff in A. destruct A as [A1 A2].
  pose proof (mint_step_mint_range s op H A1) as H1. destruct (mint_step s op) as [s1 ok]. cbn [fst] in H1.
  specialize (IH s1 H1 A2). destruct (mint_run mint_step s1 ops) as [s2 oks]. exact IH.
Qed.

Lemma in_mint_range_int z : in_mint_range z -> int_in_range z = true /\ z <> int_min.
Proof. unfold in_mint_range, mint_min, int_max, int_min. intros H. split; [apply int_in_range_iff|]; unfold two64Z in *; lia. Qed.

(* ---- the JSON number written for a metadata integer denotes it exactly (or the conversion is an explicit error) ---- *)
Theorem meta_int_to_json_exact z t : meta_int_to_json z = Ok t -> parse_i128 t = Ok z.
Proof.
  unfold meta_int_to_json. assert (two64Z < two127) by reflexivity. assert (- two127 < - two63) by reflexivity.
  destruct (0 <=? z) eqn:S.
  - destruct (z <? two64Z) eqn:B; [|discriminate]. intros [= <-]. apply parse_i128_print. lia.
  - destruct (- two63 <=? z) eqn:B; [|discriminate]. intros [= <-]. apply parse_i128_print. lia.
Qed.
Lemma meta_int_to_json_total z : meta_int_to_json z = Err \/ exists t, meta_int_to_json z = Ok t.
Proof. unfold meta_int_to_json. destruct (0 <=? z); [destruct (z <? two64Z) | destruct (- two63 <=? z)]; eauto. Qed.
