(* Num/Value.v — executable model of Value / MultiAsset / Assets as the code implements them
     rust/src/utils.rs   Value::{new, new_from_assets, new_with_assets, zero, is_zero, checked_add,
                         checked_sub, clamped_sub, compare}, impl PartialEq / PartialOrd for Value   (lines 148-338)
     rust/src/lib.rs     AssetName (Ord: length first, then bytes), Assets, MultiAsset::{new, len, insert, get,
                         set_asset, get_asset, sub, reduce_empty_to_none}, impl PartialOrd for MultiAsset (1196-1510)
   No proofs in this file (proofs: Num/ValueProofs.v).  Imports only Base/Prelude.v + stdlib.

   API (all names are prefixed, nothing clashes with Base/U64.v):
     orders      bytes_cmp (lexicographic = Ord of [u8;28] / Vec<u8>), name_cmp (AssetName::cmp), bytes_eqb
     sorted maps am_get / am_insert / am_remove / am_sorted   (strictly sorted association lists = BTreeMap iteration order)
     types       assets := list (bytes * N)        sorted by name_cmp
                 multiasset := list (bytes * assets) sorted by bytes_cmp
                 value := { coin : N ; multiasset_of : option multiasset }   (constructor mkValue)
     u64         u64_add / u64_sub : result N  (Err on overflow / underflow),  u64_clamped_sub
     Assets      assets_new, assets_len, assets_insert, assets_get
     MultiAsset  ma_new, ma_len, ma_insert, ma_get, ma_set_asset, ma_get_asset, ma_sub, ma_reduce_empty_to_none,
                 ma_partial_cmp : option comparison, ma_eqb (derived PartialEq: structural), ma_entries, ma_of_entries
     Value       value_new, value_zero, value_new_from_assets, value_new_with_assets, value_is_zero, value_coin,
                 value_set_coin, value_set_multiasset,
                 value_checked_add : result value, value_checked_sub : result value (Err on coin OR asset underflow,
                 the code since /repo 34fa344), value_checked_sub_legacy (before: assets clamped), value_clamped_sub : value,
                 value_partial_cmp : option comparison, value_compare : option Z (-1/0/1),
                 value_lt / value_le / value_gt / value_ge (the operators <, <=, >, >= derived from partial_cmp),
                 value_eqb (impl PartialEq for Value)
     semantics   ma_qty m policy name : N, qty v policy name : N   (missing asset = 0),
                 value_eq_sem v w : Prop, value_eqb_sem : bool (decides it),
                 value_le_sem v w : Prop (component-wise <=), value_leb_sem : bool
     well-formed assets_wfb / ma_wfb / value_wfb : bool  (strictly sorted keys, every quantity < 2^64; what every value
                 built through the public API satisfies), value_wf := value_wfb v = true
*)
From CSL Require Import Base.Prelude.
Local Open Scope N_scope.

(* ------------------------------------------------------------------------------------------- *)
(* Key orders *)

(* lexicographic order on byte strings: Ord of Vec<u8>, and of [u8; 28] (ScriptHash = PolicyID) *)
Fixpoint bytes_cmp (a b : bytes) : comparison :=
  match a, b with
  | [], [] => Eq
  | [], _ :: _ => Lt
  | _ :: _, [] => Gt
  | x :: a', y :: b' =>
      match N.compare x y with
      | Eq => bytes_cmp a' b'
      | c => c
      end
  end.

(* impl Ord for AssetName (lib.rs:1204-1213): length first, then bytes *)
Definition name_cmp (a b : bytes) : comparison :=
  match N.compare (N.of_nat (length a)) (N.of_nat (length b)) with
  | Eq => bytes_cmp a b
  | c => c
  end.

Definition bytes_eqb (a b : bytes) : bool :=
  match bytes_cmp a b with Eq => true | _ => false end.

(* ------------------------------------------------------------------------------------------- *)
(* BTreeMap<K, V> as a strictly sorted association list *)

Section AssocMap.
  Context {V : Type}.
  Variable cmp : bytes -> bytes -> comparison.

  Fixpoint am_get (k : bytes) (m : list (bytes * V)) : option V :=
    match m with
    | [] => None
    | (k', v) :: m' =>
        match cmp k k' with
        | Eq => Some v
        | _ => am_get k m'
        end
    end.

  (* insert or replace, keeping the list sorted *)
  Fixpoint am_insert (k : bytes) (v : V) (m : list (bytes * V)) : list (bytes * V) :=
    match m with
    | [] => [(k, v)]
    | (k', v') :: m' =>
        match cmp k k' with
        | Lt => (k, v) :: (k', v') :: m'
        | Eq => (k, v) :: m'
        | Gt => (k', v') :: am_insert k v m'
        end
    end.

  Fixpoint am_remove (k : bytes) (m : list (bytes * V)) : list (bytes * V) :=
    match m with
    | [] => []
    | (k', v') :: m' =>
        match cmp k k' with
        | Eq => m'
        | _ => (k', v') :: am_remove k m'
        end
    end.

  (* strictly increasing keys *)
  Fixpoint am_sorted (m : list (bytes * V)) : bool :=
    match m with
    | [] => true
    | (k, _) :: m' =>
        match m' with
        | [] => true
        | (k', _) :: _ => match cmp k k' with Lt => am_sorted m' | _ => false end
        end
    end.
End AssocMap.

(* ------------------------------------------------------------------------------------------- *)
(* Types *)

Definition assets : Type := list (bytes * N).          (* BTreeMap<AssetName, BigNum> *)
Definition multiasset : Type := list (bytes * assets). (* BTreeMap<PolicyID, Assets> *)
Record value : Type := mkValue { coin : N; multiasset_of : option multiasset }.

(* ------------------------------------------------------------------------------------------- *)
(* BigNum operations used below (big_num.rs:63-83) *)

Definition u64_add (a b : N) : result N := if a + b <? two64 then Ok (a + b) else Err.
Definition u64_sub (a b : N) : result N := if b <=? a then Ok (a - b) else Err.
Definition u64_clamped_sub (a b : N) : N := a - b.   (* N subtraction truncates at 0 *)

(* ------------------------------------------------------------------------------------------- *)
(* Assets (lib.rs:1336-1361) *)

Definition assets_new : assets := [].
Definition assets_len (a : assets) : N := N.of_nat (length a).
Definition assets_insert (n : bytes) (q : N) (a : assets) : assets := am_insert name_cmp n q a.
Definition assets_get (n : bytes) (a : assets) : option N := am_get name_cmp n a.

(* ------------------------------------------------------------------------------------------- *)
(* MultiAsset (lib.rs:1370-1478) *)

Definition ma_new : multiasset := [].
Definition ma_len (m : multiasset) : N := N.of_nat (length m).
Definition ma_insert (p : bytes) (a : assets) (m : multiasset) : multiasset := am_insert bytes_cmp p a m.
Definition ma_get (p : bytes) (m : multiasset) : option assets := am_get bytes_cmp p m.

(* set_asset: self.0.entry(policy).or_default().insert(name, value) *)
Definition ma_set_asset (p n : bytes) (q : N) (m : multiasset) : multiasset :=
  let a := match ma_get p m with Some a => a | None => assets_new end in
  ma_insert p (assets_insert n q a) m.

(* get_asset: 0 when the policy or the name is missing *)
Definition ma_get_asset (p n : bytes) (m : multiasset) : N :=
  match ma_get p m with
  | Some a => match assets_get n a with Some q => q | None => 0 end
  | None => 0
  end.

(* all (policy, name, quantity) triples in iteration order *)
Definition ma_entries (m : multiasset) : list (bytes * bytes * N) :=
  flat_map (fun pa : bytes * assets => map (fun nq : bytes * N => (fst pa, fst nq, snd nq)) (snd pa)) m.

(* build a multiasset by successive set_asset (used by drivers / generators) *)
Definition ma_of_entries (es : list (bytes * bytes * N)) : multiasset :=
  fold_left (fun m e => match e with (p, n, q) => ma_set_asset p n q m end) es ma_new.

(* one step of MultiAsset::sub (lib.rs:1425-1462): subtract [amt] of asset (p, n) from [lhs];
   the entry is removed when the result is 0 or would be negative, and the policy is removed when
   its asset map becomes empty *)
Definition ma_sub_entry (lhs : multiasset) (e : bytes * bytes * N) : multiasset :=
  match e with
  | (p, n, amt) =>
      match ma_get p lhs with
      | Some a =>
          match assets_get n a with
          | Some cur =>
              if amt <? cur
              then ma_insert p (assets_insert n (cur - amt) a) lhs      (* *current = new *)
              else
                let a' := am_remove name_cmp n a in                       (* new = 0, or underflow *)
                match a' with
                | [] => am_remove bytes_cmp p lhs
                | _ => ma_insert p a' lhs
                end
          | None => lhs
          end
      | None => lhs
      end
  end.

Definition ma_sub (lhs rhs : multiasset) : multiasset :=
  fold_left ma_sub_entry (ma_entries rhs) lhs.

(* reduce_empty_to_none (lib.rs:1464-1472): None iff every policy has an empty asset map *)
Definition ma_reduce_empty_to_none (m : multiasset) : option multiasset :=
  if existsb (fun pa : bytes * assets => match snd pa with [] => false | _ => true end) m
  then Some m else None.

(* impl PartialOrd for MultiAsset (lib.rs:1481-1510) *)
Definition ma_is_all_zeros (lhs rhs : multiasset) : bool :=
  forallb (fun e => match e with (p, n, q) => u64_clamped_sub q (ma_get_asset p n rhs) =? 0 end)
          (ma_entries lhs).

Definition ma_partial_cmp (a b : multiasset) : option comparison :=
  match ma_is_all_zeros a b, ma_is_all_zeros b a with
  | true, true => Some Eq
  | true, false => Some Lt
  | false, true => Some Gt
  | false, false => None
  end.

(* derived PartialEq of Assets / MultiAsset: same keys and values in the same order *)
Fixpoint assets_eqb (a b : assets) : bool :=
  match a, b with
  | [], [] => true
  | (n1, q1) :: a', (n2, q2) :: b' => bytes_eqb n1 n2 && (q1 =? q2) && assets_eqb a' b'
  | _, _ => false
  end.

Fixpoint ma_eqb (a b : multiasset) : bool :=
  match a, b with
  | [], [] => true
  | (p1, a1) :: a', (p2, a2) :: b' => bytes_eqb p1 p2 && assets_eqb a1 a2 && ma_eqb a' b'
  | _, _ => false
  end.

(* ------------------------------------------------------------------------------------------- *)
(* Value (utils.rs:148-338) *)

Definition value_new (c : N) : value := mkValue c None.
Definition value_zero : value := value_new 0.
Definition value_new_with_assets (c : N) (m : multiasset) : value :=
  match m with
  | [] => value_new c
  | _ => mkValue c (Some m)
  end.
Definition value_new_from_assets (m : multiasset) : value := value_new_with_assets 0 m.
Definition value_coin (v : value) : N := coin v.
Definition value_set_coin (c : N) (v : value) : value := mkValue c (multiasset_of v).
Definition value_set_multiasset (m : multiasset) (v : value) : value := mkValue (coin v) (Some m).

Definition value_is_zero (v : value) : bool :=
  (coin v =? 0) && match multiasset_of v with Some m => ma_len m =? 0 | None => true end.

(* one step of the insertion loop of Value::checked_add (utils.rs:226-247) *)
Definition ma_add_entry (acc : multiasset) (e : bytes * bytes * N) : result multiasset :=
  match e with
  | (p, n, amt) =>
      match ma_get p acc with
      | Some a =>
          match assets_get n a with
          | Some cur =>
              let* s := u64_add cur amt in
              Ok (ma_insert p (assets_insert n s a) acc)
          | None => Ok (ma_insert p (assets_insert n amt a) acc)
          end
      | None => Ok (ma_insert p (assets_insert n amt assets_new) acc)
      end
  end.

Fixpoint ma_add_entries (acc : multiasset) (es : list (bytes * bytes * N)) : result multiasset :=
  match es with
  | [] => Ok acc
  | e :: es' => let* acc' := ma_add_entry acc e in ma_add_entries acc' es'
  end.

(* the (Some, Some) arm: a fresh map into which every entry of lhs, then of rhs, is merged
   (a policy whose asset map is empty contributes nothing and disappears) *)
Definition ma_checked_add (l r : multiasset) : result multiasset :=
  ma_add_entries ma_new (ma_entries l ++ ma_entries r).

Definition value_checked_add (a b : value) : result value :=
  let* c := u64_add (coin a) (coin b) in
  let* m :=
    match multiasset_of a, multiasset_of b with
    | Some l, Some r => let* m := ma_checked_add l r in Ok (Some m)
    | None, None => Ok None
    | Some l, None => Ok (Some l)
    | None, Some r => Ok (Some r)
    end in
  Ok (mkValue c m).

(* the multiasset part shared by checked_sub and clamped_sub (utils.rs:258-285) *)
Definition value_sub_assets (a b : value) : option multiasset :=
  match multiasset_of a, multiasset_of b with
  | Some l, Some r => match ma_sub l r with [] => None | d => Some d end
  | Some l, None => Some l
  | None, Some _ => None
  | None, None => None
  end.

(* every asset of [r] is available in [l] in at least that quantity (get_asset: missing = 0) *)
Definition ma_covers (l r : multiasset) : bool :=
  forallb (fun e => match e with (p, n, q) => q <=? ma_get_asset p n l end) (ma_entries r).

(* Value::checked_sub before /repo 34fa344: only the coin is checked, assets are clamped like clamped_sub
   (DESIGN section 7 row 14; kept for the refutation lemma and the regression corpus) *)
Definition value_checked_sub_legacy (a b : value) : result value :=
  let* c := u64_sub (coin a) (coin b) in
  Ok (mkValue c (value_sub_assets a b)).

(* Value::checked_sub (utils.rs, since /repo 34fa344 "fix: Value::checked_sub reports an asset underflow"):
   coin underflow -> Err; some asset of rhs exceeding what lhs holds -> Err; otherwise as before *)
Definition value_checked_sub (a b : value) : result value :=
  let* c := u64_sub (coin a) (coin b) in
  let covered :=
    match multiasset_of b with
    | Some r => ma_covers (match multiasset_of a with Some l => l | None => ma_new end) r
    | None => true
    end in
  if covered then Ok (mkValue c (value_sub_assets a b)) else Err.

Definition value_clamped_sub (a b : value) : value :=
  mkValue (u64_clamped_sub (coin a) (coin b)) (value_sub_assets a b).

(* impl PartialOrd for Value (utils.rs:305-338) *)
Definition value_compare_assets (l r : option multiasset) : option comparison :=
  match l, r with
  | None, None => Some Eq
  | None, Some rm => ma_partial_cmp ma_new rm
  | Some lm, None => ma_partial_cmp lm ma_new
  | Some lm, Some rm => ma_partial_cmp lm rm
  end.

Definition value_partial_cmp (a b : value) : option comparison :=
  match value_compare_assets (multiasset_of a) (multiasset_of b) with
  | None => None
  | Some assets_match =>
      match N.compare (coin a) (coin b), assets_match with
      | coin_order, Eq => Some coin_order
      | Eq, Lt => Some Lt
      | Lt, Lt => Some Lt
      | Eq, Gt => Some Gt
      | Gt, Gt => Some Gt
      | _, _ => None
      end
  end.

(* Value::compare: Option<i8> *)
Definition value_compare (a b : value) : option Z :=
  match value_partial_cmp a b with
  | None => None
  | Some Eq => Some 0%Z
  | Some Lt => Some (-1)%Z
  | Some Gt => Some 1%Z
  end.

(* the comparison operators Rust derives from partial_cmp *)
Definition value_lt (a b : value) : bool :=
  match value_partial_cmp a b with Some Lt => true | _ => false end.
Definition value_le (a b : value) : bool :=
  match value_partial_cmp a b with Some Lt | Some Eq => true | _ => false end.
Definition value_gt (a b : value) : bool :=
  match value_partial_cmp a b with Some Gt => true | _ => false end.
Definition value_ge (a b : value) : bool :=
  match value_partial_cmp a b with Some Gt | Some Eq => true | _ => false end.

(* impl PartialEq for Value (utils.rs:295-301) *)
Definition value_reduced (v : value) : option multiasset :=
  match multiasset_of v with Some m => ma_reduce_empty_to_none m | None => None end.

Definition value_eqb (a b : value) : bool :=
  (coin a =? coin b) &&
  match value_reduced a, value_reduced b with
  | None, None => true
  | Some x, Some y => ma_eqb x y
  | _, _ => false
  end.

(* ------------------------------------------------------------------------------------------- *)
(* Semantics: a value is a coin and a total function (policy, name) -> quantity *)

Definition ma_qty (m : multiasset) (p n : bytes) : N := ma_get_asset p n m.
Definition opt_ma_qty (m : option multiasset) (p n : bytes) : N :=
  match m with Some m => ma_qty m p n | None => 0 end.
Definition qty (v : value) (p n : bytes) : N := opt_ma_qty (multiasset_of v) p n.

Definition value_eq_sem (v w : value) : Prop :=
  coin v = coin w /\ forall p n, qty v p n = qty w p n.
Definition value_le_sem (v w : value) : Prop :=
  coin v <= coin w /\ forall p n, qty v p n <= qty w p n.

(* deciders: every listed entry of l is <= the quantity in r *)
Definition ma_leb_sem (l r : multiasset) : bool :=
  forallb (fun e => match e with (p, n, q) => q <=? ma_qty r p n end) (ma_entries l).
Definition opt_ma (m : option multiasset) : multiasset := match m with Some m => m | None => [] end.
Definition value_leb_sem (v w : value) : bool :=
  (coin v <=? coin w) && ma_leb_sem (opt_ma (multiasset_of v)) (opt_ma (multiasset_of w)).
Definition value_eqb_sem (v w : value) : bool :=
  (coin v =? coin w)
  && ma_leb_sem (opt_ma (multiasset_of v)) (opt_ma (multiasset_of w))
  && ma_leb_sem (opt_ma (multiasset_of w)) (opt_ma (multiasset_of v)).

(* ------------------------------------------------------------------------------------------- *)
(* Well-formedness: what BTreeMap + u64 guarantee for every value built through the public API *)

Definition assets_wfb (a : assets) : bool :=
  am_sorted name_cmp a && forallb (fun nq : bytes * N => snd nq <? two64) a.
Definition ma_wfb (m : multiasset) : bool :=
  am_sorted bytes_cmp m && forallb (fun pa : bytes * assets => assets_wfb (snd pa)) m.
Definition value_wfb (v : value) : bool :=
  (coin v <? two64) && match multiasset_of v with Some m => ma_wfb m | None => true end.
Definition value_wf (v : value) : Prop := value_wfb v = true.
