(* Num/C14Model.v — what the C14 correspondence run observes (model side) and the executable statement of the
   property evaluated on the implementation's observation (the judge).  One [model_*] / [judge_*] pair per case
   kind of harness/src/bin/c14.rs.  No proofs in this file (Num/C14ModelProofs.v: the judge accepts the model). *)
From CSL Require Import Base.Prelude Base.U64 Cbor.Head Num.Decimal Num.U64 Num.IntRange Num.BigIntCbor Num.Value Num.Mint.
Local Open Scope N_scope.

(* classes: 0 = unclassified; the others name a (repaired or known) defect class, see known_findings.d/C14.json *)
Inductive verdict := Holds | NA | Fails (cls : N).
Definition cls_none : N := 0.
Definition cls_div_zero : N := 1.          (* C14-div-by-zero-panic *)
Definition cls_sub_clamps : N := 2.        (* C14-value-checked-sub-clamps *)
Definition cls_int_min_panic : N := 3.     (* C14-int-min-debug-panic *)
Definition cls_mint_overflow : N := 4.     (* C14-mint-builder-overflow *)
Definition cls_meta_key : N := 5.          (* C14-meta-key-unchecked-int *)
Definition cls_from_str_range : N := 6.    (* C14-int-from-str-range *)
Definition cls_as_negative : N := 7.       (* C14-int-as-negative-truncates *)
Definition cls_mint_dup : N := 8.          (* C14-mint-duplicate-policy-dropped *)

Definition check (b : bool) : verdict := if b then Holds else Fails cls_none.

Definition resN_eqb (a b : result N) : bool :=
  match a, b with
  | Ok x, Ok y => x =? y | Err, Err => true | Panic, Panic => true | OutOfFuel, OutOfFuel => true | _, _ => false
  end.
Definition resZ_eqb (a b : result Z) : bool :=
  match a, b with
  | Ok x, Ok y => (x =? y)%Z | Err, Err => true | Panic, Panic => true | OutOfFuel, OutOfFuel => true | _, _ => false
  end.
Fixpoint text_eqb (a b : list N) : bool :=
  match a, b with
  | [], [] => true
  | x :: a', y :: b' => (x =? y) && text_eqb a' b'
  | _, _ => false
  end.
Definition optN_eqb (a b : option N) : bool :=
  match a, b with Some x, Some y => x =? y | None, None => true | _, _ => false end.
Definition optZ_eqb (a b : option Z) : bool :=
  match a, b with Some x, Some y => (x =? y)%Z | None, None => true | _, _ => false end.

(* ------------------------------------------------------------------------------------------------ *)
(* BigNum *)

Definition model_bn (op : bn_op) (a b : N) : result N := bn_apply op a b.
Definition judge_bn (op : bn_op) (a b : N) (r : result N) : verdict :=
  if resN_eqb r (exact_or_error_u64 (bn_exact op a b)) then Holds
  else if known_div_by_zero op b then (match r with Panic => Fails cls_div_zero | _ => Fails cls_none end)
  else Fails cls_none.

(* compare / less_than / max *)
Definition model_bncmp (a b : N) : Z * bool * N := (bn_compare a b, bn_less_than a b, bn_max a b).
Definition judge_bncmp (a b : N) (o : Z * bool * N) : verdict :=
  let '(c, lt, mx) := o in
  check (Z.eqb c (if a <? b then (-1)%Z else if a =? b then 0%Z else 1%Z) && Bool.eqb lt (a <? b) && (mx =? N.max a b)).

(* from_str on arbitrary text (canon_unsigned: Num/Decimal.v) *)
Definition model_bnstr (s : text) : result N := bn_from_str s.
Definition judge_bnstr (s : text) (r : result N) : verdict :=
  match r with
  | Ok n => check ((n <? two64) && text_eqb (print_N n) (canon_unsigned s))
  | Err => Holds
  | _ => Fails cls_none
  end.

(* to_str / from_str and to_bytes / from_bytes round trips *)
Definition model_bnrt (n : N) : text * result N * bytes * result N :=
  (bn_to_str n, bn_from_str (bn_to_str n), encode_head 0 n,
   match decode_head (encode_head 0 n) with Some (0, Arg m, _) => Ok m | _ => Err end).
Definition judge_bnrt (n : N) (o : text * result N * bytes * result N) : verdict :=
  let '(_, r1, _, r2) := o in check (resN_eqb r1 (Ok n) && resN_eqb r2 (Ok n)).

(* ------------------------------------------------------------------------------------------------ *)
(* Int *)

Record int_obs := mkIntObs {
  io_val : Z;                   (* to_str, read back as a number by the driver *)
  io_cbor : result bytes;       (* to_bytes (Panic when serialisation panics) *)
  io_pos : option N;            (* as_positive *)
  io_neg : option N;            (* as_negative *)
  io_i32 : option Z;            (* as_i32_or_nothing *)
  io_str_rt : result Z;         (* Int::from_str(to_str) *)
  io_cbor_rt : result Z;        (* Int::from_bytes(to_bytes) *)
  io_json_rt : result Z;        (* serde_json round trip of the Int *)
  io_meta_json : result text    (* the JSON number decode_metadatum_to_json_str writes for a metadatum holding the Int *)
}.

Definition int_observe (z : Z) : int_obs :=
  mkIntObs z (Ok (int_serialize z)) (int_as_positive z) (int_as_negative z) (int_as_i32 z)
           (int_from_str (int_to_str z)) (int_from_bytes (int_serialize z)) (int_from_str (int_to_str z)) (meta_int_to_json z).

(* the atomic sources as the harness drives them; None = the API returned an explicit error / no Int *)
Definition model_int (src : int_src) : option int_obs := option_map int_observe (int_obtain src).

(* what the specification says about the source without the model: Some z = must yield exactly z;
   None = unspecified here (an explicit refusal is acceptable, a yielded Int is judged on its own) *)
Definition int_src_exact (src : int_src) : option Z :=
  match src with
  | SNew x => Some (Z.of_N x)
  | SNewNegative x => Some (- Z.of_N x)%Z
  | SNewI32 x => Some x
  | SBigIntAsInt z => if (Z.abs z <? two64Z)%Z then Some z else None
  | _ => None
  end.
(* sources that, when they yield an Int at all, must yield this one *)
Definition int_src_value (src : int_src) : option Z :=
  match src with
  | SBigIntAsInt z => Some z
  | _ => int_src_exact src
  end.

Definition judge_int_obs (o : int_obs) : verdict :=
  let z := io_val o in
  if negb (int_in_range z) then Fails cls_none
  else
    match io_cbor o with
    | Panic => if (z =? - two63)%Z then Fails cls_int_min_panic else Fails cls_none
    | Ok bs =>
        if negb (resZ_eqb (int_from_bytes bs) (Ok z) && resZ_eqb (io_cbor_rt o) (Ok z)) then Fails cls_none
        else if negb (resZ_eqb (io_str_rt o) (Ok z) && resZ_eqb (io_json_rt o) (Ok z))
        then (if (z =? int_min)%Z then Fails cls_from_str_range else Fails cls_none)
        else if negb (match io_meta_json o with Ok t => resZ_eqb (parse_i128 t) (Ok z) | Err => true | _ => false end)
        then Fails cls_none                 (* the JSON text of a metadata integer denotes it exactly, or the conversion fails explicitly *)
        else if negb (optN_eqb (io_neg o) (if (z <? 0)%Z then Some (Z.to_N (- z)) else None))
        then (if (z =? int_min)%Z && optN_eqb (io_neg o) (Some 0) then Fails cls_as_negative else Fails cls_none)
        else check (optN_eqb (io_pos o) (if (0 <=? z)%Z then Some (Z.to_N z) else None)
                    && optZ_eqb (io_i32 o) (if ((- two31 <=? z) && (z <? two31))%Z then Some z else None))
    | _ => Fails cls_none
    end.

(* a literal that was accepted denotes the Int that came out: its canonical text is the Int's to_str *)
Definition int_src_text_ok (src : int_src) (z : Z) : bool :=
  match src with
  | SFromStr s | SMetaKey s => text_eqb (print_Z z) (canon_signed s)
  | _ => true
  end.

Definition judge_int (src : int_src) (o : option int_obs) : verdict :=
  match o with
  | None => match int_src_exact src with Some _ => Fails cls_none | None => Holds end   (* explicit error *)
  | Some o =>
      if match int_src_value src with Some z => negb (io_val o =? z)%Z | None => false end then Fails cls_none
      else if negb (int_src_text_ok src (io_val o)) then Fails cls_none
      else
        match judge_int_obs o, src with
        | Fails c, SMetaKey _ => if int_in_range (io_val o) then Fails c else Fails cls_meta_key
        | v, _ => v
        end
  end.

(* MintBuilder: flags of the calls, then build() and, for the keys 0..3, the quantity, its CBOR and the quantities
   build().as_positive_multiasset() / as_negative_multiasset() report for it (what the transaction builder balances with) *)
Definition mint_keys : list N := [0; 1; 2; 3].
Definition mint_obs_entry : Type := Z * bytes * N * N.
Definition orN (o : option N) : N := match o with Some q => q | None => 0 end.
Definition mint_observe_entry (z : Z) : mint_obs_entry :=
  (z, int_serialize z, orN (int_as_positive z), orN (int_as_negative z)).
Definition model_mint (ops : list mint_op) : list bool * result (list (option mint_obs_entry)) :=
  let '(s, oks) := mint_run mint_step [] ops in
  (oks, let* s' := mint_build s in
        Ok (map (fun k => option_map mint_observe_entry (ms_get k s')) mint_keys)).
(* every quantity the builder releases is a non-zero Int within -(2^64-1)..2^64-1 (the builder's documented range: a burn is
   balanced as a u64 quantity), survives CBOR, and is reported exactly on the mint / burn side *)
Definition judge_mint_entry (e : option mint_obs_entry) : bool :=
  match e with
  | Some (z, bs, pos, neg) =>
      ((mint_min <=? z) && (z <=? int_max))%Z && negb (z =? 0)%Z && resZ_eqb (int_from_bytes bs) (Ok z)
      && (Z.of_N pos =? Z.max z 0)%Z && (Z.of_N neg =? Z.max (- z) 0)%Z
  | None => true
  end.
Definition judge_mint (ops : list mint_op) (o : list bool * result (list (option mint_obs_entry))) : verdict :=
  match snd o with
  | Ok l => if forallb judge_mint_entry l then Holds else Fails cls_mint_overflow
  | Err => Holds
  | _ => Fails cls_none
  end.

(* Mint::as_positive_multiasset / as_negative_multiasset of a hand-made Mint *)
Definition model_mintv (m : mint) : multiasset * multiasset :=
  (mint_as_positive_multiasset m, mint_as_negative_multiasset m).
Definition mint_keys_of (m : mint) : list (bytes * bytes) :=
  flat_map (fun e : bytes * mint_assets => map (fun nz : bytes * Z => (fst e, fst nz)) (snd e)) m.
Definition ma_keys_of (r : multiasset) : list (bytes * bytes) :=
  map (fun e => match e with (p, n, _) => (p, n) end) (ma_entries r).
Definition mintv_side_ok (is_pos : bool) (m : mint) (r : multiasset) : bool :=
  ma_wfb r && forallb (fun k => (Z.of_N (ma_qty r (fst k) (snd k)) =? mint_spec_qty is_pos m (fst k) (snd k))%Z)
                      (mint_keys_of m ++ ma_keys_of r).
Definition judge_mintv (m : mint) (o : multiasset * multiasset) : verdict :=
  if negb (mint_wfb m) then NA
  else if mintv_side_ok true m (fst o) && mintv_side_ok false m (snd o) then Holds
  else if mint_has_min m then Fails cls_as_negative
  else if has_dup_policy m then Fails cls_mint_dup
  else Fails cls_none.

(* ------------------------------------------------------------------------------------------------ *)
(* BigInt *)

Record bi_obs := mkBiObs {
  bo_cbor : result bytes;       (* to_bytes *)
  bo_cbor_rt : result Z;        (* from_bytes(to_bytes) *)
  bo_str : text;                (* to_str *)
  bo_str_rt : result Z;         (* from_str(to_str) *)
  bo_u64 : option N;            (* as_u64 *)
  bo_int : option Z;            (* as_int *)
  bo_zero : bool
}.
Definition model_biz (z : Z) : bi_obs :=
  mkBiObs (Ok (bigint_serialize z)) (bigint_from_bytes (bigint_serialize z)) (bigint_to_str z)
          (bigint_from_str (bigint_to_str z)) (bigint_as_u64 z) (bigint_as_int z) (bi_is_zero z).
Definition judge_biz (z : Z) (o : bi_obs) : verdict :=
  match bo_cbor o with
  | Panic => if (z =? - two63)%Z then Fails cls_int_min_panic else Fails cls_none
  | Ok bs =>
      check (resZ_eqb (bigint_from_bytes bs) (Ok z) && resZ_eqb (bo_cbor_rt o) (Ok z)
             && resZ_eqb (bigint_from_str (bo_str o)) (Ok z) && resZ_eqb (bo_str_rt o) (Ok z)
             && optN_eqb (bo_u64 o) (if ((0 <=? z) && (z <? two64Z))%Z then Some (Z.to_N z) else None)
             && optZ_eqb (bo_int o) (if (Z.abs z <? two64Z)%Z then Some z else None)
             && Bool.eqb (bo_zero o) (z =? 0)%Z)
  | _ => Fails cls_none
  end.

(* from_bytes on a (possibly non-canonical) encoding: decoded value, its re-encoding, the re-decoded value *)
Definition model_bibytes (bs : bytes) : result (Z * bytes * result Z) :=
  let* z := bigint_from_bytes bs in
  Ok (z, bigint_serialize z, bigint_from_bytes (bigint_serialize z)).
Definition judge_bibytes (bs : bytes) (r : result (Z * bytes * result Z)) : verdict :=
  match r with
  | Ok (z, bs2, z2) => check (resZ_eqb z2 (Ok z) && resZ_eqb (bigint_from_bytes bs2) (Ok z))
  | Err => Holds
  | Panic => Fails cls_none
  | OutOfFuel => Fails cls_none
  end.

Definition model_bistr (s : text) : result Z := bigint_from_str s.
Definition judge_bistr (s : text) (r : result Z) : verdict :=
  match r with
  | Ok z => check (resZ_eqb (bigint_from_str (bigint_to_str z)) (Ok z) && text_eqb (print_Z z) (canon_bigint s))
  | Err => Holds
  | _ => Fails cls_none
  end.

Definition model_biop (op : bi_op) (a b : Z) : result Z := bi_apply op a b.
Definition bi_exact (op : bi_op) (a b : Z) : option Z :=
  match op with
  | BAdd => Some (a + b)%Z
  | BSub => Some (a - b)%Z
  | BMul => Some (a * b)%Z
  | BDivFloor => if (b =? 0)%Z then None else Some (a / b)%Z                    (* floor *)
  | BDivCeil => if (b =? 0)%Z then None
                else Some (if (a mod b =? 0)%Z then a / b else a / b + 1)%Z        (* ceiling *)
  end.
Definition judge_biop (op : bi_op) (a b : Z) (r : result Z) : verdict :=
  match bi_exact op a b, r with
  | Some z, Ok z' => check (z =? z')%Z
  | None, Err => Holds
  | None, Panic => Fails cls_div_zero
  | _, _ => Fails cls_none
  end.

(* ------------------------------------------------------------------------------------------------ *)
(* Value *)

Record val_obs := mkValObs {
  vo_add : result value;              (* a.checked_add(b) *)
  vo_add_rev : result value;          (* b.checked_add(a) *)
  vo_sub : result value;              (* a.checked_sub(b) *)
  vo_csub : value;                    (* a.clamped_sub(b) *)
  vo_msub : multiasset;               (* MultiAsset::sub of the two multiassets (empty when absent) *)
  vo_undo : option (result value);    (* (a + b).checked_sub(b) when a + b is Ok *)
  vo_cmp : option Z;                  (* a.compare(b) *)
  vo_lt : bool; vo_le : bool; vo_gt : bool; vo_ge : bool;   (* a < b, a <= b, a > b, a >= b *)
  vo_eq : bool;                       (* a == b *)
  vo_zero : bool                      (* a.is_zero() *)
}.

Definition model_val (a b : value) : val_obs :=
  mkValObs (value_checked_add a b) (value_checked_add b a) (value_checked_sub a b) (value_clamped_sub a b)
           (ma_sub (opt_ma (multiasset_of a)) (opt_ma (multiasset_of b)))
           (match value_checked_add a b with Ok c => Some (value_checked_sub c b) | _ => None end)
           (value_compare a b) (value_lt a b) (value_le a b) (value_gt a b) (value_ge a b)
           (value_eqb a b) (value_is_zero a).

(* the (policy, name) pairs mentioned by a list of values *)
Definition value_keys (v : value) : list (bytes * bytes) :=
  map (fun e => match e with (p, n, _) => (p, n) end) (ma_entries (opt_ma (multiasset_of v))).
Definition keys_of (vs : list value) : list (bytes * bytes) := flat_map value_keys vs.
Definition all_keys (vs : list value) (f : bytes -> bytes -> bool) : bool :=
  forallb (fun k => f (fst k) (snd k)) (keys_of vs).
Definition some_key (vs : list value) (f : bytes -> bytes -> bool) : bool :=
  existsb (fun k => f (fst k) (snd k)) (keys_of vs).

Definition add_overflows (a b : value) : bool :=
  (two64 <=? coin a + coin b) || some_key [a; b] (fun p n => two64 <=? qty a p n + qty b p n).
Definition spec_add (a b : value) (r : result value) : bool :=
  match r with
  | Ok c => negb (add_overflows a b) && (coin c =? coin a + coin b)
            && all_keys [a; b; c] (fun p n => qty c p n =? qty a p n + qty b p n) && value_wfb c
  | Err => add_overflows a b
  | _ => false
  end.
Definition coin_underflows (a b : value) : bool := coin a <? coin b.
Definition asset_underflows (a b : value) : bool := some_key [b] (fun p n => qty a p n <? qty b p n).
Definition spec_sub (a b : value) (r : result value) : bool :=
  match r with
  | Ok c => negb (coin_underflows a b) && negb (asset_underflows a b) && (coin c =? coin a - coin b)
            && all_keys [a; b; c] (fun p n => qty c p n =? qty a p n - qty b p n) && value_wfb c
  | Err => coin_underflows a b || asset_underflows a b
  | _ => false
  end.
(* clamped_sub: component-wise truncated subtraction *)
Definition spec_csub (a b c : value) : bool :=
  (coin c =? coin a - coin b) && all_keys [a; b; c] (fun p n => qty c p n =? qty a p n - qty b p n) && value_wfb c.
Definition value_eqb_sem_keys (v w : value) : bool :=
  (coin v =? coin w) && all_keys [v; w] (fun p n => qty v p n =? qty w p n).
(* component-wise order *)
Definition le_keys (a b : value) : bool := (coin a <=? coin b) && all_keys [a; b] (fun p n => qty a p n <=? qty b p n).
Definition spec_cmp (a b : value) : option Z :=
  match le_keys a b, le_keys b a with
  | true, true => Some 0%Z
  | true, false => Some (-1)%Z
  | false, true => Some 1%Z
  | false, false => None
  end.

Definition judge_val (a b : value) (o : val_obs) : verdict :=
  if negb (value_wfb a && value_wfb b) then NA
  else if negb (spec_add a b (vo_add o) && spec_add b a (vo_add_rev o)) then Fails cls_none
  else if negb (match vo_add o, vo_add_rev o with
                | Ok c, Ok c' => value_eqb_sem_keys c c'
                | Err, Err => true
                | _, _ => false end) then Fails cls_none
  else if negb (spec_sub a b (vo_sub o))
  then (match vo_sub o with
        | Ok _ => if negb (coin_underflows a b) && asset_underflows a b then Fails cls_sub_clamps else Fails cls_none
        | _ => Fails cls_none end)
  else if negb (spec_csub a b (vo_csub o)) then Fails cls_none
  else if negb (spec_csub (mkValue 0 (multiasset_of a)) (mkValue 0 (multiasset_of b)) (mkValue 0 (Some (vo_msub o)))) then Fails cls_none
  else if negb (match vo_add o, vo_undo o with
                | Ok _, Some (Ok d) => value_eqb_sem_keys d a
                | Ok _, _ => false
                | _, None => true
                | _, Some _ => false end) then Fails cls_none
  else
    let c := spec_cmp a b in
    check (optZ_eqb (vo_cmp o) c
           && Bool.eqb (vo_lt o) (optZ_eqb c (Some (-1)%Z))
           && Bool.eqb (vo_le o) (optZ_eqb c (Some (-1)%Z) || optZ_eqb c (Some 0%Z))
           && Bool.eqb (vo_gt o) (optZ_eqb c (Some 1%Z))
           && Bool.eqb (vo_ge o) (optZ_eqb c (Some 1%Z) || optZ_eqb c (Some 0%Z))
           && implb (vo_eq o) (value_eqb_sem_keys a b)
           && Bool.eqb (vo_zero o) ((coin a =? 0) && match multiasset_of a with Some m => match m with [] => true | _ => false end | None => true end)).

(* associativity: ((a + b) + c, a + (b + c)) *)
Definition add3_l (a b c : value) : result value := let* x := value_checked_add a b in value_checked_add x c.
Definition add3_r (a b c : value) : result value := let* y := value_checked_add b c in value_checked_add a y.
Definition model_val3 (a b c : value) : result value * result value := (add3_l a b c, add3_r a b c).
Definition judge_val3 (a b c : value) (o : result value * result value) : verdict :=
  if negb (value_wfb a && value_wfb b && value_wfb c) then NA
  else
    match fst o, snd o with
    | Ok l, Ok r =>
        check (value_eqb_sem_keys l r && (coin l =? coin a + coin b + coin c)
               && all_keys [a; b; c; l] (fun p n => qty l p n =? qty a p n + qty b p n + qty c p n))
    | Err, Err => Holds
    | _, _ => Fails cls_none
    end.
