(* Num/Mint.v — MintAssets / Mint and their conversion to multi-asset quantities.  Model of
     lib.rs  MintAssets::{new, new_from_entry, insert (zero rejected), get},
             Mint::{new, new_from_entry, insert (pushes; never replaces), get, as_positive_multiasset, as_negative_multiasset}
   A Mint is the Vec<(PolicyID, MintAssets)> the code keeps; MintAssets is a BTreeMap<AssetName, Int>.  No proofs here. *)
From CSL Require Import Base.Prelude Num.IntRange Num.Value.
Local Open Scope Z_scope.

Definition mint_assets : Type := list (bytes * Z).            (* sorted by name_cmp *)
Definition mint : Type := list (bytes * mint_assets).          (* insertion order, duplicates of a policy allowed *)

Definition mint_assets_new : mint_assets := [].
(* MintAssets::insert: a zero quantity is an error *)
Definition mint_assets_insert (n : bytes) (z : Z) (a : mint_assets) : result mint_assets :=
  if z =? 0 then Err else Ok (am_insert name_cmp n z a).
Definition mint_new : mint := [].
Definition mint_insert (p : bytes) (a : mint_assets) (m : mint) : mint := m ++ [(p, a)].

(* Mint::as_multiasset(is_positive): per entry, the assets of the wanted sign with as_positive / as_negative
   quantities; a policy whose filtered asset map is empty is skipped; ma.insert REPLACES an earlier entry of the policy *)
Definition mint_entry_assets (is_pos : bool) (a : mint_assets) : assets :=
  fold_left (fun acc nz =>
               if Bool.eqb (int_is_positive (snd nz)) is_pos then
                 match (if is_pos then int_as_positive (snd nz) else int_as_negative (snd nz)) with
                 | Some q => assets_insert (fst nz) q acc
                 | None => acc                                  (* unwrap(): not reachable, the sign was tested *)
                 end
               else acc) a assets_new.

Definition mint_as_multiasset (is_pos : bool) (m : mint) : multiasset :=
  fold_left (fun res e =>
               match mint_entry_assets is_pos (snd e) with
               | [] => res
               | assets => ma_insert (fst e) assets res
               end) m ma_new.

Definition mint_as_positive_multiasset := mint_as_multiasset true.
Definition mint_as_negative_multiasset := mint_as_multiasset false.

(* ---- specification ---- *)
(* the quantity minted (sign = true) or burnt (sign = false) of asset (p, n): the sum over every entry of the policy *)
Definition entry_amount (a : mint_assets) (n : bytes) : Z :=
  match am_get name_cmp n a with Some z => z | None => 0 end.
Definition signed_part (is_pos : bool) (z : Z) : Z := if is_pos then Z.max z 0 else Z.max (- z) 0.
Definition mint_spec_qty (is_pos : bool) (m : mint) (p n : bytes) : Z :=
  fold_left (fun s e => if bytes_eqb (fst e) p then s + signed_part is_pos (entry_amount (snd e) n) else s) m 0.

(* known classes: a policy that occurs in two entries (the later one replaces the earlier in the result), and a burn of 2^64 *)
Fixpoint has_dup_policy (m : mint) : bool :=
  match m with
  | [] => false
  | (p, _) :: r => existsb (fun e => bytes_eqb (fst e) p) r || has_dup_policy r
  end.
Definition mint_has_min (m : mint) : bool :=
  existsb (fun e : bytes * mint_assets => existsb (fun nz : bytes * Z => snd nz =? int_min) (snd e)) m.
Definition mint_wfb (m : mint) : bool :=
  forallb (fun e : bytes * mint_assets =>
             am_sorted name_cmp (snd e) && forallb (fun nz : bytes * Z => int_in_range (snd nz) && negb (snd nz =? 0)) (snd e)) m.
