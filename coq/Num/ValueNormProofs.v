(* Num/ValueNormProofs.v — the normalised value is well-formed, has the same quantities, and has no empty entries. *)
From CSL Require Import Base.Prelude Num.Value Num.ValueProofs Num.ValueNorm.
Local Open Scope N_scope.

Section Sorted.
  Context {V : Type}.
  Variable cmp : bytes -> bytes -> comparison.
  Hypothesis KO : key_order cmp.

  Lemma above_sub k (m m' : list (bytes * V)) : (forall e, In e m' -> In e m) -> above cmp k m -> above cmp k m'.
  Proof. intros H A. unfold above in *. rewrite Forall_forall in *. auto. Qed.

  Lemma am_sorted_filter (f : bytes * V -> bool) (m : list (bytes * V)) :
    am_sorted cmp m = true -> am_sorted cmp (filter f m) = true.
  Proof.
    induction m as [|[k v] m IH]; intros S; [reflexivity|].
    apply (am_sorted_cons cmp KO) in S. destruct S as [A S]. cbn [filter].
    destruct (f (k, v)); [|exact (IH S)].
    apply (am_sorted_cons cmp KO). split; [|exact (IH S)].
    apply (above_sub k m); [|exact A]. intros e I. apply filter_In in I. tauto.
  Qed.

  Lemma am_get_filter (f : bytes * V -> bool) (m : list (bytes * V)) k :
    am_sorted cmp m = true ->
    am_get cmp k (filter f m) = match am_get cmp k m with Some v => if f (k, v) then Some v else None | None => None end.
  Proof.
    induction m as [|[k' v] m IH]; intros S; [reflexivity|].
    apply (am_sorted_cons cmp KO) in S. destruct S as [A S]. cbn [filter am_get].
    destruct (cmp k k') eqn:C.
    - apply (ko_eq cmp KO) in C. subst k'.
      destruct (f (k, v)) eqn:F; cbn [am_get]; [rewrite (ko_refl cmp KO); reflexivity|].
      rewrite (IH S), (above_get cmp k m A). reflexivity.
    - destruct (f (k', v)); cbn [am_get]; rewrite ?C; apply (IH S).
    - destruct (f (k', v)); cbn [am_get]; rewrite ?C; apply (IH S).
  Qed.
End Sorted.

Lemma assets_drop_zero_wf a : assets_wfb a = true -> assets_wfb (assets_drop_zero a) = true.
Proof.
  unfold assets_wfb, assets_drop_zero. intros W. apply andb_true_iff in W. destruct W as [S F].
  apply andb_true_iff. split; [apply (am_sorted_filter name_cmp name_key_order); exact S|].
  apply forallb_forall. intros x I. apply filter_In in I. rewrite forallb_forall in F. apply F. tauto.
Qed.

Lemma aq_drop_zero a n : assets_wfb a = true -> aq (assets_drop_zero a) n = aq a n.
Proof.
  intros W. unfold aq, assets_get, assets_drop_zero. rewrite (am_get_filter name_cmp name_key_order) by (apply assets_wfb_sorted; exact W).
  destruct (am_get name_cmp n a) as [q|]; [|reflexivity]. cbn [snd].
  destruct (N.eqb_spec q 0); cbn; [subst; reflexivity | reflexivity].
Qed.

Lemma ma_drop_empty_in p a m : In (p, a) (ma_drop_empty m) -> exists a0, In (p, a0) m /\ a = assets_drop_zero a0 /\ a <> [].
Proof.
  unfold ma_drop_empty. intros I. apply in_flat_map in I. destruct I as [[p0 a0] [I0 I1]]. cbn [fst snd] in I1.
  destruct (assets_drop_zero a0) as [|x l] eqn:E; [destruct I1|]. destruct I1 as [H|[]]. inversion H. subst.
  exists a0. split; [exact I0|]. split; [symmetry; exact E | discriminate].
Qed.

Lemma ma_drop_empty_sorted m : am_sorted bytes_cmp m = true -> am_sorted bytes_cmp (ma_drop_empty m) = true.
Proof.
  induction m as [|[k a] m IH]; intros S; [reflexivity|].
  apply (am_sorted_cons bytes_cmp bytes_key_order) in S. destruct S as [A S].
  unfold ma_drop_empty. cbn [flat_map fst snd]. fold (ma_drop_empty m).
  destruct (assets_drop_zero a) as [|x l] eqn:E; cbn [app]; [exact (IH S)|].
  apply (am_sorted_cons bytes_cmp bytes_key_order). split; [|exact (IH S)].
  unfold above in *. rewrite Forall_forall in *. intros [p' a'] I. cbn [fst].
  destruct (ma_drop_empty_in p' a' m I) as [a0 [I0 _]]. exact (A (p', a0) I0).
Qed.

Lemma ma_drop_empty_wf m : ma_wfb m = true -> ma_wfb (ma_drop_empty m) = true.
Proof.
  intros W. apply ma_wfb_iff in W. destruct W as [S F]. apply ma_wfb_iff. split; [apply ma_drop_empty_sorted; exact S|].
  intros p a I. destruct (ma_drop_empty_in p a m I) as [a0 [I0 [-> _]]]. apply assets_drop_zero_wf. eapply F. exact I0.
Qed.

Lemma ma_get_drop_empty m p : am_sorted bytes_cmp m = true ->
  ma_get p (ma_drop_empty m) = match ma_get p m with
                                | Some a => match assets_drop_zero a with [] => None | a' => Some a' end
                                | None => None end.
Proof.
  unfold ma_get. induction m as [|[k a] m IH]; intros S; [reflexivity|].
  apply (am_sorted_cons bytes_cmp bytes_key_order) in S. destruct S as [A S].
  unfold ma_drop_empty. cbn [flat_map fst snd]. fold (ma_drop_empty m). cbn [am_get].
  destruct (bytes_cmp p k) eqn:C.
  - apply bytes_cmp_eq in C. subst k.
    destruct (assets_drop_zero a) as [|x l] eqn:E; cbn [app am_get].
    + rewrite (IH S), (above_get bytes_cmp p m A). reflexivity.
    + rewrite bytes_cmp_refl. reflexivity.
  - destruct (assets_drop_zero a) as [|x l]; cbn [app am_get]; rewrite ?C; apply (IH S).
  - destruct (assets_drop_zero a) as [|x l]; cbn [app am_get]; rewrite ?C; apply (IH S).
Qed.

Lemma ma_qty_drop_empty m p n : ma_wfb m = true -> ma_qty (ma_drop_empty m) p n = ma_qty m p n.
Proof.
  intros W. rewrite !ma_qty_unfold, (ma_get_drop_empty m p (ma_wfb_sorted m W)).
  destruct (ma_get p m) as [a|] eqn:G; [|reflexivity].
  pose proof (ma_wfb_get m p a W G) as Wa. rewrite <- (aq_drop_zero a n Wa).
  destruct (assets_drop_zero a); reflexivity.
Qed.

Theorem value_without_empty_entries_wf v : value_wf v -> value_wf (value_without_empty_entries v).
Proof.
  intros W. apply value_wf_iff in W. destruct W as [C M]. apply value_wf_iff. unfold value_without_empty_entries. cbn [coin multiasset_of].
  split; [exact C|]. destruct (multiasset_of v); [apply ma_drop_empty_wf; exact M | exact I].
Qed.

Theorem value_without_empty_entries_sem v : value_wf v ->
  coin (value_without_empty_entries v) = coin v /\ forall p n, qty (value_without_empty_entries v) p n = qty v p n.
Proof.
  intros W. split; [reflexivity|]. intros p n. rewrite !qty_unfold. unfold value_without_empty_entries. cbn [multiasset_of].
  apply value_wf_iff in W. destruct W as [_ M]. destruct (multiasset_of v); [apply ma_qty_drop_empty; exact M | reflexivity].
Qed.

(* what is left has no empty entry *)
Lemma assets_drop_zero_clean a : assets_has_zero (assets_drop_zero a) = false.
Proof.
  unfold assets_has_zero, assets_drop_zero. induction a as [|[n q] a IH]; [reflexivity|]. cbn [filter snd].
  destruct (N.eqb_spec q 0); cbn [negb]; [exact IH|]. cbn [existsb snd]. destruct (N.eqb_spec q 0); [contradiction | exact IH].
Qed.

Theorem value_without_empty_entries_clean v : value_has_empty_entries (value_without_empty_entries v) = false.
Proof.
  unfold value_has_empty_entries, value_without_empty_entries. cbn [multiasset_of]. destruct (multiasset_of v) as [m|]; [|reflexivity].
  unfold ma_has_empty_entries. induction m as [|[p a] m IH]; [reflexivity|].
  unfold ma_drop_empty. cbn [flat_map fst snd]. fold (ma_drop_empty m).
  destruct (assets_drop_zero a) as [|x l] eqn:E; cbn [app]; [exact IH|].
  cbn [existsb snd]. rewrite IH, orb_false_r. rewrite <- E. apply assets_drop_zero_clean.
Qed.

(* a value without empty entries is its own normalisation *)
Lemma assets_drop_zero_id a : assets_has_zero a = false -> assets_drop_zero a = a.
Proof.
  unfold assets_has_zero, assets_drop_zero. induction a as [|[n q] a IH]; [reflexivity|]. cbn [existsb filter snd].
  intros H. apply orb_false_iff in H. destruct H as [H1 H2]. rewrite H1. cbn [negb]. rewrite (IH H2). reflexivity.
Qed.

Theorem value_without_empty_entries_id v : value_has_empty_entries v = false -> value_without_empty_entries v = v.
Proof.
  unfold value_has_empty_entries, value_without_empty_entries. destruct v as [c [m|]]; cbn [coin multiasset_of]; [|reflexivity].
  intros H. f_equal. f_equal. unfold ma_has_empty_entries in H. induction m as [|[p a] m IH]; [reflexivity|].
  cbn [existsb snd] in H. apply orb_false_iff in H. destruct H as [H1 H2].
  unfold ma_drop_empty. cbn [flat_map fst snd]. fold (ma_drop_empty m). rewrite (IH H2).
  destruct a as [|x l]; [discriminate|]. rewrite (assets_drop_zero_id _ H1). reflexivity.
Qed.

(* sortedness alone (no bound on the quantities) is kept as well *)
Lemma ma_drop_empty_inner_sorted m :
  forallb (fun pa : bytes * assets => am_sorted name_cmp (snd pa)) m = true ->
  forallb (fun pa : bytes * assets => am_sorted name_cmp (snd pa)) (ma_drop_empty m) = true.
Proof.
  intros F. apply forallb_forall. intros [p a] I. cbn [snd].
  destruct (ma_drop_empty_in p a m I) as [a0 [I0 [-> _]]].
  apply (am_sorted_filter name_cmp name_key_order). rewrite forallb_forall in F. exact (F (p, a0) I0).
Qed.
