(* Proofs about Num/Decimal.v: printing then parsing is the identity (u64, i128, big integers). *)
From CSL Require Import Base.Prelude Num.Decimal.
Local Open Scope N_scope.

Definition digit (c : N) : Prop := is_digit c = true.

Lemma digit_range c : digit c <-> 48 <= c <= 57.
Proof. unfold digit, is_digit. lia. Qed.

(* ds is a string of decimal digits denoting n (in the sense of the left-to-right accumulator) *)
Definition denotes (ds : text) (n : N) : Prop :=
  Forall digit ds /\ ds <> [] /\
  forall a r, parse_digits (ds ++ r) a = parse_digits r (a * 10 ^ N.of_nat (length ds) + n).

Lemma digits_aux_spec fuel : forall n acc, fuel <> O -> n < 10 ^ N.of_nat fuel ->
  exists ds, digits_aux fuel n acc = ds ++ acc /\ denotes ds n.
Proof.
  induction fuel as [|f IH]; intros n acc F B; [congruence|]. cbn [digits_aux].
  assert (Hd : digit (48 + n mod 10)) by (apply digit_range; pose proof (N.mod_lt n 10); lia).
  destruct (n <? 10) eqn:T.
  - exists [48 + n mod 10]. split; [reflexivity|]. split; [constructor; [exact Hd | constructor] |]. split; [discriminate|].
    intros a r. cbn [app parse_digits length]. unfold digit in Hd. rewrite Hd.
    rewrite N.mod_small by lia. f_equal. change (10 ^ N.of_nat 1) with 10. lia.
  - assert (F' : f <> O) by (intros ->; change (10 ^ N.of_nat 1) with 10 in B; lia).
    assert (B' : n / 10 < 10 ^ N.of_nat f).
    { apply N.div_lt_upper_bound; [lia|]. rewrite Nat2N.inj_succ, N.pow_succ_r' in B. exact B. }
    destruct (IH (n / 10) ((48 + n mod 10) :: acc) F' B') as [ds [E [D1 [D2 D3]]]].
    exists (ds ++ [48 + n mod 10]). split; [rewrite E, <- app_assoc; reflexivity|].
    split; [apply Forall_app; split; [exact D1 | constructor; [exact Hd | constructor]] |].
    split; [destruct ds; discriminate|].
    intros a r. rewrite <- app_assoc. cbn [app]. rewrite D3. cbn [parse_digits]. unfold digit in Hd. rewrite Hd.
    f_equal. rewrite app_length. cbn [length]. rewrite Nat.add_1_r, Nat2N.inj_succ, N.pow_succ_r'.
    pose proof (N.div_mod n 10). lia.
Qed.

Lemma pow2_le_pow10 k : 2 ^ k <= 10 ^ k.
Proof. apply N.pow_le_mono_l. lia. Qed.

Lemma print_N_denotes n : denotes (print_N n) n.
Proof.
  unfold print_N.
  destruct (digits_aux_spec (S (N.to_nat (N.log2 n))) n []) as [ds [E D]]; [congruence | |].
  - rewrite Nat2N.inj_succ, N2Nat.id.
    destruct (N.eq_dec n 0) as [-> | NZ]; [reflexivity|].
    pose proof (N.log2_spec n). pose proof (pow2_le_pow10 (N.succ (N.log2 n))). lia.
  - rewrite E, app_nil_r. exact D.
Qed.

Lemma denotes_parse ds n : denotes ds n -> parse_digits ds 0 = Some n.
Proof. intros [_ [_ D]]. specialize (D 0 []). rewrite app_nil_r in D. rewrite D. reflexivity. Qed.

Lemma denotes_head ds n : denotes ds n -> exists c r, ds = c :: r /\ digit c.
Proof. intros [F [NE _]]. destruct ds as [|c r]; [congruence|]. inversion F. eauto. Qed.

(* BigNum::from_str(to_str(n)) *)
Theorem parse_u64_print n : n < two64 -> parse_u64 (print_N n) = Ok n.
Proof.
  intros B. pose proof (print_N_denotes n) as D. destruct (denotes_head _ _ D) as [c [r [E Hc]]].
  unfold parse_u64. rewrite E. apply digit_range in Hc. unfold ch_plus.
  replace (c =? 43) with false by lia. rewrite <- E, (denotes_parse _ _ D).
  replace (n <? two64) with true by lia. reflexivity.
Qed.

(* str::parse::<i128>(format!("{}", z)) *)
Theorem parse_i128_print z : (- two127 <= z < two127)%Z -> parse_i128 (print_Z z) = Ok z.
Proof.
  intros B. unfold parse_i128. destruct z as [|p|p]; cbn [print_Z].
  - reflexivity.
  - pose proof (print_N_denotes (Z.to_N (Z.pos p))) as D. destruct (denotes_head _ _ D) as [c [r [E Hc]]].
    rewrite E. apply digit_range in Hc. unfold ch_plus, ch_minus.
    replace (c =? 43) with false by lia. replace (c =? 45) with false by lia.
    rewrite <- E, (denotes_parse _ _ D). rewrite Z2N.id by lia.
    replace (Z.pos p <? two127)%Z with true by lia. reflexivity.
  - pose proof (print_N_denotes (N.pos p)) as D. destruct (denotes_head _ _ D) as [c [r [E Hc]]].
    unfold ch_plus, ch_minus. change (45 =? 43) with false. change (45 =? 45) with true. cbv iota.
    rewrite E, <- E, (denotes_parse _ _ D).
    replace (Z.of_N (N.pos p) <=? two127)%Z with true by lia. reflexivity.
Qed.

Lemma parse_digits_us_digits ds : Forall digit ds -> forall a, parse_digits_us ds a = parse_digits ds a.
Proof.
  induction 1 as [|c ds Hc _ IH]; intros a; [reflexivity|]. cbn [parse_digits_us parse_digits].
  pose proof Hc as Hc'. apply digit_range in Hc'. unfold ch_underscore. replace (c =? 95) with false by lia.
  unfold digit in Hc. rewrite Hc. apply IH.
Qed.

Lemma parse_biguint_denotes ds n : denotes ds n -> parse_biguint ds = Ok n.
Proof.
  intros D. destruct (denotes_head _ _ D) as [c [r [E Hc]]]. pose proof D as [F _].
  unfold parse_biguint. rewrite E. apply digit_range in Hc. unfold ch_plus, ch_underscore.
  replace (c =? 43) with false by lia. cbn [andb]. replace (c =? 95) with false by lia.
  rewrite <- E, (parse_digits_us_digits _ F), (denotes_parse _ _ D). reflexivity.
Qed.

(* num_bigint::BigInt::from_str(to_string(z)), any size *)
Theorem parse_bigint_print z : parse_bigint (print_Z z) = Ok z.
Proof.
  unfold parse_bigint. destruct z as [|p|p]; cbn [print_Z].
  - reflexivity.
  - pose proof (print_N_denotes (Z.to_N (Z.pos p))) as D. destruct (denotes_head _ _ D) as [c [r [E Hc]]].
    rewrite E. apply digit_range in Hc. unfold ch_minus. replace (c =? 45) with false by lia.
    rewrite <- E, (parse_biguint_denotes _ _ D). cbn [bind]. rewrite Z2N.id by lia. reflexivity.
  - pose proof (print_N_denotes (N.pos p)) as D. destruct (denotes_head _ _ D) as [c [r [E Hc]]].
    unfold ch_minus. change (45 =? 45) with true. cbv iota.
    assert (S : starts_with ch_plus (print_N (N.pos p)) = false).
    { rewrite E. cbn [starts_with]. apply digit_range in Hc. unfold ch_plus. lia. }
    rewrite S, (parse_biguint_denotes _ _ D). reflexivity.
Qed.
