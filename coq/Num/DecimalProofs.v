(* Proofs about Num/Decimal.v: printing then parsing is the identity (u64, i128, big integers). *)
From CSL Require Import Base.Prelude Num.Decimal.
Local Open Scope N_scope.

Definition digit (c : N) : Prop := is_digit c = true.

Lemma digit_range c : digit c <-> 48 <= c <= 57.
Proof. unfold digit, is_digit. lia. Qed.

(* ds is a string of decimal digits denoting n (in the sense of the left-to-right accumulator) *)
Definition denotes (ds : text) (n : N) : Prop :=
  Forall digit ds /\ ds <> [] /\
  forall a r, parse_digits (ds ++ r) a = parse_digits r (a * 10 ^ N.of_nat (length ds) + n).

Lemma digits_aux_spec fuel : forall n acc, fuel <> O -> n < 10 ^ N.of_nat fuel ->
  exists ds, digits_aux fuel n acc = ds ++ acc /\ denotes ds n.
Proof.
  induction fuel as [|f IH]; intros n acc F B; [congruence|]. cbn [digits_aux].
  assert (Hd : digit (48 + n mod 10)) by (apply digit_range; pose proof (N.mod_lt n 10); lia).
  destruct (n <? 10) eqn:T.
  - exists [48 + n mod 10]. split; [reflexivity|]. split; [constructor; [exact Hd | constructor] |]. split; [discriminate|].
    intros a r. cbn [app parse_digits length]. unfold digit in Hd. rewrite Hd.
    rewrite N.mod_small by lia. f_equal. change (10 ^ N.of_nat 1) with 10. lia.
  - assert (F' : f <> O) by (intros ->; change (10 ^ N.of_nat 1) with 10 in B; lia).
    assert (B' : n / 10 < 10 ^ N.of_nat f).
    { apply N.div_lt_upper_bound; [lia|]. rewrite Nat2N.inj_succ, N.pow_succ_r' in B. exact B. }
    destruct (IH (n / 10) ((48 + n mod 10) :: acc) F' B') as [ds [E [D1 [D2 D3]]]].
    exists (ds ++ [48 + n mod 10]). split; [rewrite E, <- app_assoc; reflexivity|].
    split; [apply Forall_app; split; [exact D1 | constructor; [exact Hd | constructor]] |].
    split; [destruct ds; discriminate|].
    intros a r. rewrite <- app_assoc. cbn [app]. rewrite D3. cbn [parse_digits]. unfold digit in Hd. rewrite Hd.
    f_equal. rewrite app_length. cbn [length]. rewrite Nat.add_1_r, Nat2N.inj_succ, N.pow_succ_r'.
    pose proof (N.div_mod n 10). lia.
Qed.

Lemma pow2_le_pow10 k : 2 ^ k <= 10 ^ k.
Proof. apply N.pow_le_mono_l. lia. Qed.

Lemma print_N_denotes n : denotes (print_N n) n.
Proof.
  unfold print_N.
  destruct (digits_aux_spec (S (N.to_nat (N.log2 n))) n []) as [ds [E D]]; [congruence | |].
  - rewrite Nat2N.inj_succ, N2Nat.id.
    destruct (N.eq_dec n 0) as [-> | NZ]; [reflexivity|].
    pose proof (N.log2_spec n). pose proof (pow2_le_pow10 (N.succ (N.log2 n))). lia.
  - rewrite E, app_nil_r. exact D.
Qed.

Lemma denotes_parse ds n : denotes ds n -> parse_digits ds 0 = Some n.
Proof. intros [_ [_ D]]. specialize (D 0 []). rewrite app_nil_r in D. rewrite D. reflexivity. Qed.

Lemma denotes_head ds n : denotes ds n -> exists c r, ds = c :: r /\ digit c.
Proof. intros [F [NE _]]. destruct ds as [|c r]; [congruence|]. inversion F. eauto. Qed.

(* BigNum::from_str(to_str(n)) *)
Theorem parse_u64_print n : n < two64 -> parse_u64 (print_N n) = Ok n.
Proof.
  intros B. pose proof (print_N_denotes n) as D. destruct (denotes_head _ _ D) as [c [r [E Hc]]].
  unfold parse_u64. rewrite E. apply digit_range in Hc. unfold ch_plus.
  replace (c =? 43) with false by lia. rewrite <- E, (denotes_parse _ _ D).
  replace (n <? two64) with true by lia. reflexivity.
Qed.

(* str::parse::<i128>(format!("{}", z)) *)
Theorem parse_i128_print z : (- two127 <= z < two127)%Z -> parse_i128 (print_Z z) = Ok z.
Proof.
  intros B. unfold parse_i128. destruct z as [|p|p]; cbn [print_Z].
  - reflexivity.
  - pose proof (print_N_denotes (Z.to_N (Z.pos p))) as D. destruct (denotes_head _ _ D) as [c [r [E Hc]]].
    rewrite E. apply digit_range in Hc. unfold ch_plus, ch_minus.
    replace (c =? 43) with false by lia. replace (c =? 45) with false by lia.
    rewrite <- E, (denotes_parse _ _ D). rewrite Z2N.id by lia.
    replace (Z.pos p <? two127)%Z with true by lia. reflexivity.
  - pose proof (print_N_denotes (N.pos p)) as D. destruct (denotes_head _ _ D) as [c [r [E Hc]]].
    unfold ch_plus, ch_minus. change (45 =? 43) with false. change (45 =? 45) with true. cbv iota.
    rewrite E, <- E, (denotes_parse _ _ D).
    replace (Z.of_N (N.pos p) <=? two127)%Z with true by lia. reflexivity.
Qed.

Lemma parse_digits_us_digits ds : Forall digit ds -> forall a, parse_digits_us ds a = parse_digits ds a.
Proof.
  induction 1 as [|c ds Hc _ IH]; intros a; [reflexivity|]. cbn [parse_digits_us parse_digits].
  pose proof Hc as Hc'. apply digit_range in Hc'. unfold ch_underscore. replace (c =? 95) with false by lia.
  unfold digit in Hc. rewrite Hc. apply IH.
Qed.

Lemma parse_biguint_denotes ds n : denotes ds n -> parse_biguint ds = Ok n.
Proof.
  intros D. destruct (denotes_head _ _ D) as [c [r [E Hc]]]. pose proof D as [F _].
  unfold parse_biguint. rewrite E. apply digit_range in Hc. unfold ch_plus, ch_underscore.
  replace (c =? 43) with false by lia. cbn [andb]. replace (c =? 95) with false by lia.
  rewrite <- E, (parse_digits_us_digits _ F), (denotes_parse _ _ D). reflexivity.
Qed.

(* num_bigint::BigInt::from_str(to_string(z)), any size *)
Theorem parse_bigint_print z : parse_bigint (print_Z z) = Ok z.
Proof.
  unfold parse_bigint. destruct z as [|p|p]; cbn [print_Z].
  - reflexivity.
  - pose proof (print_N_denotes (Z.to_N (Z.pos p))) as D. destruct (denotes_head _ _ D) as [c [r [E Hc]]].
    rewrite E. apply digit_range in Hc. unfold ch_minus. replace (c =? 45) with false by lia.
    rewrite <- E, (parse_biguint_denotes _ _ D). cbn [bind]. rewrite Z2N.id by lia. reflexivity.
  - pose proof (print_N_denotes (N.pos p)) as D. destruct (denotes_head _ _ D) as [c [r [E Hc]]].
    unfold ch_minus. change (45 =? 45) with true. cbv iota.
    assert (S : starts_with ch_plus (print_N (N.pos p)) = false).
    { rewrite E. cbn [starts_with]. apply digit_range in Hc. unfold ch_plus. lia. }
    rewrite S, (parse_biguint_denotes _ _ D). reflexivity.
Qed.

(* ------------------------------------------------------------------------------------------------------------ *)
(* Parse side: what the parsers accept.  An accepted literal denotes exactly one number, and that number's printed
   form is the literal with the optional sign / leading zeros (/ underscores) normalised: from_str s = Ok n -> canon s = to_str n.
   Strict injectivity is false by design of the Rust parsers: "+1", "007", "-0" (signed), "1_0" (BigInt) are accepted. *)

Definition canon_form (ds : text) (n : N) : Prop :=
  (n = 0 /\ ds = [48]) \/ (n <> 0 /\ exists c r, ds = c :: r /\ c <> 48).

Lemma digits_aux_canon fuel : forall n acc, fuel <> O -> n < 10 ^ N.of_nat fuel ->
  exists ds, digits_aux fuel n acc = ds ++ acc /\ canon_form ds n.
Proof.
  induction fuel as [|f IH]; intros n acc F B; [congruence|]. cbn [digits_aux].
  destruct (n <? 10) eqn:T.
  - exists [48 + n mod 10]. split; [reflexivity|]. rewrite N.mod_small by lia.
    destruct (N.eq_dec n 0) as [-> | NZ]; [left; split; reflexivity | right; split; [exact NZ|]; exists (48 + n), []; split; [reflexivity | lia]].
  - assert (F' : f <> O) by (intros ->; change (10 ^ N.of_nat 1) with 10 in B; lia).
    assert (B' : n / 10 < 10 ^ N.of_nat f).
    { apply N.div_lt_upper_bound; [lia|]. rewrite Nat2N.inj_succ, N.pow_succ_r' in B. exact B. }
    destruct (IH (n / 10) ((48 + n mod 10) :: acc) F' B') as [ds [E C]].
    exists (ds ++ [48 + n mod 10]). split; [rewrite E, <- app_assoc; reflexivity|].
    assert (Q : n / 10 <> 0) by (intros Z; apply N.div_small_iff in Z; lia).
    right. split; [lia|]. destruct C as [[Z _] | [_ [c [r [-> Hc]]]]]; [congruence|]. exists c, (r ++ [48 + n mod 10]). split; [reflexivity | exact Hc].
Qed.

Lemma print_N_canon n : canon_form (print_N n) n.
Proof.
  unfold print_N. destruct (digits_aux_canon (S (N.to_nat (N.log2 n))) n []) as [ds [E C]]; [congruence | |].
  - rewrite Nat2N.inj_succ, N2Nat.id. destruct (N.eq_dec n 0) as [-> | NZ]; [reflexivity|].
    pose proof (N.log2_spec n). pose proof (pow2_le_pow10 (N.succ (N.log2 n))). lia.
  - rewrite E, app_nil_r. exact C.
Qed.

(* value of a digit string, most significant digit first *)
Fixpoint dval (ds : text) : N :=
  match ds with [] => 0 | c :: r => (c - 48) * 10 ^ N.of_nat (length r) + dval r end.

Lemma dval_bound ds : Forall digit ds -> dval ds < 10 ^ N.of_nat (length ds).
Proof.
  induction 1 as [|c r Hc _ IH]; cbn [dval length]; [reflexivity|].
  apply digit_range in Hc. rewrite Nat2N.inj_succ, N.pow_succ_r'. nia.
Qed.

Lemma parse_digits_dval ds : Forall digit ds -> forall a, parse_digits ds a = Some (a * 10 ^ N.of_nat (length ds) + dval ds).
Proof.
  induction 1 as [|c r Hc _ IH]; intros a; cbn [parse_digits dval length].
  - f_equal. change (10 ^ N.of_nat 0) with 1. lia.
  - unfold digit in Hc. rewrite Hc, IH. f_equal. rewrite Nat2N.inj_succ, N.pow_succ_r'. lia.
Qed.

Lemma parse_digits_all ds a n : parse_digits ds a = Some n -> Forall digit ds.
Proof.
  revert a. induction ds as [|c r IH]; intros a H; [constructor|]. cbn [parse_digits] in H.
  destruct (is_digit c) eqn:D; [|discriminate]. constructor; [exact D | eauto].
Qed.

(* two digit strings of the same length with the same value are equal *)
Lemma dval_inj d1 : forall d2, Forall digit d1 -> Forall digit d2 -> length d1 = length d2 -> dval d1 = dval d2 -> d1 = d2.
Proof.
  induction d1 as [|c1 r1 IH]; intros [|c2 r2] F1 F2 L V; try discriminate; [reflexivity|].
  inversion F1 as [|? ? H1 F1']; inversion F2 as [|? ? H2 F2']; subst. cbn [length] in L. injection L as L.
  cbn [dval] in V. rewrite L in V. pose proof (dval_bound r1 F1') as B1. pose proof (dval_bound r2 F2') as B2. rewrite L in B1.
  apply digit_range in H1, H2.
  set (P := 10 ^ N.of_nat (length r2)) in *.
  assert (E1 : c1 - 48 = c2 - 48).
  { rewrite (N.div_unique ((c1 - 48) * P + dval r1) P (c1 - 48) (dval r1) B1 ltac:(lia)).
    rewrite V. symmetry. apply (N.div_unique _ P (c2 - 48) (dval r2) B2). lia. }
  assert (E2 : dval r1 = dval r2) by (rewrite E1 in V; lia).
  f_equal; [lia | apply IH; assumption].
Qed.

(* a canonical non-zero string of length k has a value in [10^(k-1), 10^k) *)
Lemma dval_lower c r : digit c -> c <> 48 -> 10 ^ N.of_nat (length r) <= dval (c :: r).
Proof. intros Hc NZ. apply digit_range in Hc. cbn [dval]. nia. Qed.

Lemma canon_unique d1 d2 n : Forall digit d1 -> Forall digit d2 -> dval d1 = n -> dval d2 = n ->
  canon_form d1 n -> canon_form d2 n -> d1 = d2.
Proof.
  intros F1 F2 V1 V2 [[Z1 E1] | [NZ1 [c1 [r1 [E1 H1]]]]] [[Z2 E2] | [NZ2 [c2 [r2 [E2 H2]]]]]; try congruence.
  subst d1 d2. inversion F1; inversion F2; subst.
  assert (L : length r1 = length r2).
  { destruct (Nat.lt_trichotomy (length r1) (length r2)) as [Lt | [Eq | Gt]]; [exfalso | exact Eq | exfalso].
    - pose proof (dval_bound (c1 :: r1) F1) as B. pose proof (dval_lower c2 r2 ltac:(assumption) H2) as Lo.
      cbn [length] in B. assert (10 ^ N.of_nat (S (length r1)) <= 10 ^ N.of_nat (length r2)) by (apply N.pow_le_mono_r; lia). lia.
    - pose proof (dval_bound (c2 :: r2) F2) as B. pose proof (dval_lower c1 r1 ltac:(assumption) H1) as Lo.
      cbn [length] in B. assert (10 ^ N.of_nat (S (length r2)) <= 10 ^ N.of_nat (length r1)) by (apply N.pow_le_mono_r; lia). lia. }
  apply dval_inj; [exact F1 | exact F2 | cbn [length]; lia | congruence].
Qed.

Lemma print_N_dval n : Forall digit (print_N n) /\ dval (print_N n) = n.
Proof.
  pose proof (print_N_denotes n) as D. pose proof D as [F _]. split; [exact F|].
  pose proof (denotes_parse _ _ D) as P. rewrite (parse_digits_dval _ F) in P. injection P as P. lia.
Qed.

Lemma strip_zeros_spec ds : Forall digit ds ->
  Forall digit (strip_zeros ds) /\ dval (strip_zeros ds) = dval ds /\
  (strip_zeros ds = [] \/ exists c r, strip_zeros ds = c :: r /\ c <> 48).
Proof.
  induction 1 as [|c r Hc F IH]; cbn [strip_zeros]; [split; [constructor | split; [reflexivity | left; reflexivity]]|].
  unfold ch_zero. destruct (c =? 48) eqn:E.
  - apply N.eqb_eq in E. subst c. destruct IH as [F' [V C]]. split; [exact F' | split; [|exact C]]. rewrite V. cbn [dval]. lia.
  - split; [constructor; assumption | split; [reflexivity | right; exists c, r; split; [reflexivity | lia]]].
Qed.

(* the heart: the canonical form of an all-digit body is the printed form of its value *)
Lemma canon_digits_print body n : body <> [] -> parse_digits body 0 = Some n -> canon_digits body = print_N n.
Proof.
  intros NE P. pose proof (parse_digits_all _ _ _ P) as F. rewrite (parse_digits_dval _ F) in P. injection P as P.
  destruct (strip_zeros_spec body F) as [Fs [Vs Cs]]. destruct (print_N_dval n) as [Fp Vp].
  unfold canon_digits. destruct Cs as [E | [c [r [E Hc]]]]; rewrite E in *.
  - assert (Hn : n = 0) by (cbn in Vs; lia). rewrite Hn. reflexivity.
  - assert (NZ : n <> 0).
    { pose proof (dval_lower c r ltac:(inversion Fs; assumption) Hc) as Lo.
      assert (0 < 10 ^ N.of_nat (length r)) by (apply N.neq_0_lt_0, N.pow_nonzero; lia). lia. }
    apply (canon_unique (c :: r) (print_N n) n Fs Fp); [lia | exact Vp | right; split; [exact NZ | eauto] | apply print_N_canon].
Qed.

(* BigNum::from_str: an accepted text is the printed number up to one '+' and leading zeros *)
Theorem parse_u64_canon s n : parse_u64 s = Ok n -> n < two64 /\ canon_unsigned s = print_N n.
Proof.
  assert (G : forall body, match body with [] => Err | _ :: _ => match parse_digits body 0 with
                             | Some v => if v <? two64 then Ok v else Err | None => Err end end = Ok n ->
                           n < two64 /\ canon_digits body = print_N n).
  { intros body. destruct body as [|b0 b]; [discriminate|].
    destruct (parse_digits (b0 :: b) 0) as [v|] eqn:P; [|discriminate]. destruct (v <? two64) eqn:T; [|discriminate].
    intros X. injection X as <-. split; [lia|]. apply canon_digits_print; [discriminate | exact P]. }
  unfold parse_u64, canon_unsigned. destruct s as [|c r]; [discriminate|]. destruct (c =? ch_plus); [apply G | apply (G (c :: r))].
Qed.

(* parse::<i128>: an accepted text is the printed number up to a '+', leading zeros, and "-0" for 0 *)
Theorem parse_i128_canon s z : parse_i128 s = Ok z -> (- two127 <= z < two127)%Z /\ canon_signed s = print_Z z.
Proof.
  assert (T127 : (0 < two127)%Z) by reflexivity.
  unfold parse_i128, canon_signed. destruct s as [|c r]; [discriminate|]. unfold ch_plus, ch_minus.
  destruct (c =? 43) eqn:E1; [|destruct (c =? 45) eqn:E2].
  - destruct r as [|r0 r']; [intros X; discriminate X|]. destruct (parse_digits (r0 :: r') 0) as [v|] eqn:P; [|intros X; discriminate X].
    destruct (Z.of_N v <? two127)%Z eqn:T; [|intros X; discriminate X]. intros X. injection X as <-. split; [lia|].
    rewrite (canon_digits_print (r0 :: r') v ltac:(discriminate) P). destruct v; reflexivity.
  - destruct r as [|r0 r']; [intros X; discriminate X|]. destruct (parse_digits (r0 :: r') 0) as [v|] eqn:P; [|intros X; discriminate X].
    destruct (Z.of_N v <=? two127)%Z eqn:T; [|intros X; discriminate X]. intros X. injection X as <-. split; [lia|].
    pose proof (canon_digits_print (r0 :: r') v ltac:(discriminate) P) as C. unfold canon_digits in C.
    destruct v as [|p].
    + destruct (strip_zeros (r0 :: r')) as [|x t] eqn:S; [reflexivity|]. exfalso.
      change (print_N 0) with [48] in C. injection C as -> ->.
      pose proof (parse_digits_all _ _ _ P) as F. destruct (strip_zeros_spec _ F) as [_ [_ [E | [c' [t' [E Hc]]]]]]; rewrite S in E; [discriminate|].
      injection E as <- <-. apply Hc. reflexivity.
    + destruct (strip_zeros (r0 :: r')) as [|x t] eqn:S.
      * exfalso. pose proof (print_N_canon (N.pos p)) as [[Z0 _] | [_ [c' [t' [E Hc]]]]]; [discriminate|]. rewrite E in C. injection C as <- _. apply Hc. reflexivity.
      * cbn [Z.of_N Z.opp print_Z]. rewrite C. reflexivity.
  - remember (c :: r) as body eqn:B0. destruct (parse_digits body 0) as [v|] eqn:P; [|discriminate].
    destruct (Z.of_N v <? two127)%Z eqn:T; [|discriminate]. intros X. injection X as <-. split; [lia|].
    rewrite (canon_digits_print body v ltac:(subst body; discriminate) P). destruct v; reflexivity.
Qed.

(* the non-canonical literals the Rust parsers accept by design *)
Example parse_noncanonical_accepted :
  parse_u64 [43; 49] = Ok 1 /\ parse_u64 [48; 48; 55] = Ok 7 /\                       (* "+1", "007" *)
  parse_i128 [45; 48] = Ok 0%Z /\ parse_i128 [43; 48; 53] = Ok 5%Z /\                  (* "-0", "+05" *)
  parse_bigint [49; 95; 48] = Ok 10%Z /\ parse_bigint [45; 48; 95] = Ok 0%Z.           (* "1_0", "-0_" *)
Proof. repeat split; vm_compute; reflexivity. Qed.

Lemma parse_digits_us_drop ds : forall a, parse_digits_us ds a = parse_digits (drop_underscores ds) a.
Proof.
  induction ds as [|c r IH]; intros a; [reflexivity|]. cbn [parse_digits_us drop_underscores filter].
  destruct (c =? ch_underscore) eqn:U; cbn [negb]; [apply IH|]. cbn [parse_digits].
  destruct (is_digit c); [apply IH | reflexivity].
Qed.

Lemma parse_biguint_canon s n : parse_biguint s = Ok n -> canon_digits (biguint_body s) = print_N n /\ Forall digit (biguint_body s).
Proof.
  unfold parse_biguint, biguint_body.
  set (s1 := match s with [] => s | c :: tail => if (c =? ch_plus) && negb (starts_with ch_plus tail) then tail else s end).
  destruct s1 as [|c r]; [discriminate|]. destruct (c =? ch_underscore) eqn:U; [discriminate|].
  destruct (parse_digits_us (c :: r) 0) as [v|] eqn:P; [|discriminate]. intros X. injection X as <-.
  rewrite parse_digits_us_drop in P.
  assert (NE : drop_underscores (c :: r) <> []) by (cbn [drop_underscores filter]; rewrite U; discriminate).
  split; [apply canon_digits_print; assumption | eapply parse_digits_all; exact P].
Qed.

Lemma parse_biguint_minus tail : parse_biguint (ch_minus :: tail) = Err.
Proof. reflexivity. Qed.

(* BigInt::from_str: an accepted text is the printed number up to the sign rules, underscores and leading zeros *)
Theorem parse_bigint_canon s z : parse_bigint s = Ok z -> canon_bigint s = print_Z z.
Proof.
  unfold parse_bigint, canon_bigint. destruct s as [|c tail]; [discriminate|].
  destruct (c =? ch_minus) eqn:M.
  - destruct (starts_with ch_plus tail) eqn:SP.
    + (* "-+…": BigUint sees the '-' and rejects *)
      apply N.eqb_eq in M. subst c. rewrite (parse_biguint_minus tail). discriminate.
    + destruct (parse_biguint tail) as [n| | |] eqn:P; try discriminate. cbn [bind]. intros X. injection X as <-.
      destruct (parse_biguint_canon tail n P) as [C F]. unfold canon_digits in C.
      destruct n as [|p].
      * destruct (strip_zeros (biguint_body tail)) as [|x t] eqn:S; [reflexivity|]. exfalso.
        change (print_N 0) with [48] in C. injection C as -> ->.
        destruct (strip_zeros_spec _ F) as [_ [_ [E | [c' [t' [E Hc]]]]]]; rewrite S in E; [discriminate|].
        injection E as <- <-. apply Hc. reflexivity.
      * destruct (strip_zeros (biguint_body tail)) as [|x t] eqn:S.
        -- exfalso. pose proof (print_N_canon (N.pos p)) as [[Z0 _] | [_ [c' [t' [E Hc]]]]]; [discriminate|].
           rewrite E in C. injection C as <- _. apply Hc. reflexivity.
        -- cbn [Z.of_N Z.opp print_Z]. rewrite C. reflexivity.
  - destruct (parse_biguint (c :: tail)) as [n| | |] eqn:P; try discriminate. cbn [bind]. intros X. injection X as <-.
    destruct (parse_biguint_canon _ n P) as [C _]. rewrite C. destruct n; reflexivity.
Qed.
