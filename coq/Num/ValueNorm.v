(* Num/ValueNorm.v — Value::has_empty_entries / Value::without_empty_entries (rust/src/utils.rs, since the /repo fix
   "the builder drops zero quantities and asset-less policies of the amounts it is given"): the entries of a multiasset
   that stand for nothing — an asset with quantity zero, a policy without assets — and the value without them.
   Executable model, no proofs (proofs: Num/ValueNormProofs.v).  Shared by C05 (Builder), C19 (Collateral), C03.
   The Rust code rebuilds the BTreeMaps by inserting the kept entries in iteration order; on the sorted association
   lists of Num/Value.v that is a filter.  `Some(multiasset)` stays `Some`, also when nothing is left in it. *)
From CSL Require Import Base.Prelude Num.Value.
Local Open Scope N_scope.

Definition assets_drop_zero (a : assets) : assets := filter (fun nq : bytes * N => negb (snd nq =? 0)) a.

Definition ma_drop_empty (m : multiasset) : multiasset :=
  flat_map (fun pa : bytes * assets => match assets_drop_zero (snd pa) with [] => [] | a => [(fst pa, a)] end) m.

Definition value_without_empty_entries (v : value) : value :=
  mkValue (coin v) (match multiasset_of v with Some m => Some (ma_drop_empty m) | None => None end).

Definition assets_has_zero (a : assets) : bool := existsb (fun nq : bytes * N => snd nq =? 0) a.
Definition ma_has_empty_entries (m : multiasset) : bool :=
  existsb (fun pa : bytes * assets => match snd pa with [] => true | a => assets_has_zero a end) m.
Definition value_has_empty_entries (v : value) : bool :=
  match multiasset_of v with Some m => ma_has_empty_entries m | None => false end.
