(* Num/Decimal.v — decimal text of integers as the code prints and parses it.  Strings are lists of
   bytes (UTF-8 / ASCII codes).  Model of
     format!("{}", u64 / i128), num_bigint::BigInt::to_string            -> print_N / print_Z
     str::parse::<u64>()   (core::num::from_str_radix, unsigned)          -> parse_u64
     str::parse::<i128>()  (core::num::from_str_radix, signed)            -> parse_i128
     num_bigint::BigInt::from_str (= from_str_radix(s, 10), num-bigint 0.4.x: one leading '-',
        then one leading '+', '_' separators allowed after the first character)   -> parse_bigint
   No proofs in this file. *)
From CSL Require Import Base.Prelude.
Local Open Scope N_scope.

Definition text := list N.

Definition ch_plus : N := 43.
Definition ch_minus : N := 45.
Definition ch_zero : N := 48.
Definition ch_underscore : N := 95.

Definition is_digit (c : N) : bool := (48 <=? c) && (c <=? 57).

(* ---- printing ---- *)
Fixpoint digits_aux (fuel : nat) (n : N) (acc : text) : text :=
  match fuel with
  | O => acc
  | S f =>
      let acc' := (48 + n mod 10) :: acc in
      if n <? 10 then acc' else digits_aux f (n / 10) acc'
  end.

(* fuel: one more than the bit length is enough (every step divides by 10) *)
Definition print_N (n : N) : text := digits_aux (S (N.to_nat (N.log2 n))) n [].

Definition print_Z (z : Z) : text :=
  match z with
  | Zneg p => ch_minus :: print_N (Npos p)
  | _ => print_N (Z.to_N z)
  end.

(* ---- parsing ---- *)
(* every character a decimal digit; value accumulated left to right *)
Fixpoint parse_digits (cs : text) (acc : N) : option N :=
  match cs with
  | [] => Some acc
  | c :: r => if is_digit c then parse_digits r (acc * 10 + (c - 48)) else None
  end.

(* core::num::from_str_radix: [] -> Empty; ["+"] / ["-"] -> InvalidDigit; one leading '+' accepted,
   one leading '-' only for signed types; then digits only; overflow is an error *)
Definition parse_u64 (s : text) : result N :=
  let body := match s with c :: r => if c =? ch_plus then r else s | [] => [] end in
  match body with
  | [] => Err
  | _ => match parse_digits body 0 with
         | Some n => if n <? two64 then Ok n else Err
         | None => Err
         end
  end.

Definition two127 : Z := 170141183460469231731687303715884105728%Z.

Definition parse_i128 (s : text) : result Z :=
  let '(neg, body) :=
    match s with
    | c :: r => if c =? ch_plus then (false, r) else if c =? ch_minus then (true, r) else (false, s)
    | [] => (false, [])
    end in
  match body with
  | [] => Err
  | _ => match parse_digits body 0 with
         | Some n =>
             let z := Z.of_N n in
             if neg then (if (z <=? two127)%Z then Ok (- z)%Z else Err)
             else (if (z <? two127)%Z then Ok z else Err)
         | None => Err
         end
  end.

(* BigUint::from_str_radix(s, 10) *)
Fixpoint parse_digits_us (cs : text) (acc : N) : option N :=   (* '_' skipped *)
  match cs with
  | [] => Some acc
  | c :: r =>
      if c =? ch_underscore then parse_digits_us r acc
      else if is_digit c then parse_digits_us r (acc * 10 + (c - 48)) else None
  end.

Definition starts_with (c : N) (s : text) : bool :=
  match s with x :: _ => x =? c | [] => false end.

Definition parse_biguint (s : text) : result N :=
  let s1 := match s with
            | c :: tail => if (c =? ch_plus) && negb (starts_with ch_plus tail) then tail else s
            | [] => s
            end in
  match s1 with
  | [] => Err
  | c :: _ =>
      if c =? ch_underscore then Err
      else match parse_digits_us s1 0 with Some n => Ok n | None => Err end
  end.

Definition parse_bigint (s : text) : result Z :=
  match s with
  | c :: tail =>
      if c =? ch_minus then
        let s1 := if starts_with ch_plus tail then s else tail in
        let* n := parse_biguint s1 in Ok (- Z.of_N n)%Z
      else let* n := parse_biguint s in Ok (Z.of_N n)
  | [] => let* n := parse_biguint s in Ok (Z.of_N n)
  end.

(* ---- the canonical text an accepted literal denotes (used to state what the parsers accept) ---- *)
Fixpoint strip_zeros (s : text) : text :=
  match s with c :: r => if c =? ch_zero then strip_zeros r else s | [] => [] end.
(* digits without leading zeros, "0" for zero *)
Definition canon_digits (body : text) : text := match strip_zeros body with [] => [ch_zero] | t => t end.
(* unsigned literal: one optional '+' dropped *)
Definition canon_unsigned (s : text) : text :=
  canon_digits (match s with c :: r => if c =? ch_plus then r else s | [] => [] end).
(* signed literal: one optional sign; "-0…0" denotes 0 *)
Definition canon_signed (s : text) : text :=
  match s with
  | c :: r =>
      if c =? ch_plus then canon_digits r
      else if c =? ch_minus then (match strip_zeros r with [] => [ch_zero] | t => ch_minus :: t end)
      else canon_digits s
  | [] => canon_digits []
  end.
Definition drop_underscores (s : text) : text := filter (fun c => negb (c =? ch_underscore)) s.
(* num_bigint literals: the '+' rule of BigUint::from_str_radix, underscores dropped *)
Definition biguint_body (s : text) : text :=
  drop_underscores (match s with
                    | c :: tail => if (c =? ch_plus) && negb (starts_with ch_plus tail) then tail else s
                    | [] => s
                    end).
Definition canon_bigint (s : text) : text :=
  match s with
  | c :: tail =>
      if c =? ch_minus then (match strip_zeros (biguint_body tail) with [] => [ch_zero] | t => ch_minus :: t end)
      else canon_digits (biguint_body s)
  | [] => canon_digits []
  end.
