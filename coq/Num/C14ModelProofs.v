(* Num/C14ModelProofs.v — the executable judge of the correspondence run (Num/C14Model.v) accepts the model's own
   observations, for ALL inputs: so a `fails` verdict on the implementation is a statement about the implementation, and
   the judge's conditions are consequences of the theorems of Num/*Proofs.v. *)
From CSL Require Import Base.Prelude Base.U64 Cbor.Head Num.Decimal Num.U64 Num.IntRange Num.BigIntCbor Num.Value Num.Mint Num.C14Model.
From CSL Require Import Num.U64Proofs Num.DecimalProofs Num.IntRangeProofs Num.BigIntCborProofs Num.ValueProofs Num.MintProofs.
Local Open Scope N_scope.

Lemma resN_eqb_refl r : resN_eqb r r = true.
Proof. destruct r; cbn; auto using N.eqb_refl. Qed.
Lemma resZ_eqb_refl r : resZ_eqb r r = true.
Proof. destruct r; cbn; auto using Z.eqb_refl. Qed.
Lemma optN_eqb_refl o : optN_eqb o o = true.
Proof. destruct o; cbn; auto using N.eqb_refl. Qed.
Lemma optZ_eqb_refl o : optZ_eqb o o = true.
Proof. destruct o; cbn; auto using Z.eqb_refl. Qed.
Lemma text_eqb_refl t : text_eqb t t = true.
Proof. induction t as [|c t IH]; cbn [text_eqb]; [reflexivity | rewrite N.eqb_refl; exact IH]. Qed.

(* ---- BigNum ---- *)
Theorem judge_bn_accepts op a b : a < two64 -> b < two64 ->
  judge_bn op a b (model_bn op a b) = if known_div_by_zero op b then Fails cls_div_zero else Holds.
Proof.
  intros Ha Hb. unfold judge_bn, model_bn. destruct (known_div_by_zero op b) eqn:K.
  - destruct op; cbn in K; try discriminate. apply N.eqb_eq in K. subst b. reflexivity.
  - rewrite (bn_apply_exact op a b Ha Hb K), resN_eqb_refl. reflexivity.
Qed.

(* ---- Int ---- *)
Lemma judge_int_obs_accepts z : int_in_range z = true ->
  judge_int_obs (int_observe z) = if (z =? int_min)%Z then Fails cls_as_negative else Holds.
Proof.
  intros R. unfold judge_int_obs, int_observe. cbn [io_val io_cbor io_str_rt io_cbor_rt io_json_rt io_meta_json io_pos io_neg io_i32].
  rewrite R. cbn [negb]. rewrite (int_from_bytes_roundtrip z R), (int_decimal_roundtrip z R), !resZ_eqb_refl. cbn [andb negb].
  assert (MJ : match meta_int_to_json z with Ok t => resZ_eqb (parse_i128 t) (Ok z) | Err => true | _ => false end = true).
  { destruct (meta_int_to_json_total z) as [E | [t E]]; rewrite E; [reflexivity|]. rewrite (meta_int_to_json_exact z t E). apply resZ_eqb_refl. }
  rewrite MJ. cbn [negb].
  destruct (z =? int_min)%Z eqn:M.
  - apply Z.eqb_eq in M. subst z. reflexivity.
  - apply Z.eqb_neq in M. destruct (int_accessors_exact z R M) as [P [Ng I]]. rewrite P, Ng, I, !optN_eqb_refl, optZ_eqb_refl.
    reflexivity.
Qed.

Theorem judge_int_accepts src : int_src_wf src = true -> int_src_bytes_ok src ->
  judge_int src (model_int src) = Holds \/
  (judge_int src (model_int src) = Fails cls_as_negative /\ int_obtain src = Some int_min).
Proof.
  intros W B. unfold judge_int, model_int. destruct (int_obtain src) as [z|] eqn:O; cbn [option_map].
  - pose proof (int_obtain_in_range src z W B O) as R. cbn [io_val int_observe].
    assert (V : match int_src_value src with Some z' => negb (z =? z')%Z | None => false end = false).
    { unfold int_obtain in O. destruct src; cbn [int_src_value int_src_exact int_obtain_gen] in *; try reflexivity;
        try (injection O as <-; unfold int_new, int_new_negative, int_new_i32; rewrite Z.eqb_refl; reflexivity).
      unfold bigint_as_int in O. destruct (Z.abs z0 <? two64Z)%Z; [|discriminate]. injection O as <-.
      rewrite Z.eqb_refl. reflexivity. }
    assert (TX : int_src_text_ok src z = true).
    { unfold int_obtain in O. destruct src; cbn [int_src_text_ok int_obtain_gen] in *; try reflexivity.
      - unfold int_from_str in O. destruct (parse_i128 s) as [x| | |] eqn:P; cbn [bind] in O; try discriminate.
        destruct (int_in_range x); [|discriminate]. injection O as <-.
        destruct (parse_i128_canon s x P) as [_ C]. rewrite C. apply text_eqb_refl.
      - unfold meta_key_int_gen in O. destruct (parse_i128 s) as [x| | |] eqn:P; try discriminate.
        destruct meta_key_checked; [destruct ((- int_max <=? x)%Z && (x <=? int_max)%Z); [|discriminate]|]; injection O as <-;
          destruct (parse_i128_canon s x P) as [_ C]; rewrite C; apply text_eqb_refl. }
    change (io_val (int_observe z)) with z. rewrite V, TX, (judge_int_obs_accepts z R). cbn [negb].
    destruct (z =? int_min)%Z eqn:M.
    + apply Z.eqb_eq in M. subst z. right. split; [|reflexivity]. destruct src; reflexivity.
    + left. destruct src; reflexivity.
  - left. destruct (int_src_exact src) as [z|] eqn:X; [|reflexivity]. exfalso.
    unfold int_obtain in O. destruct src; cbn [int_src_exact int_obtain_gen] in *; try discriminate.
    unfold bigint_as_int in O. destruct (Z.abs z0 <? two64Z)%Z; discriminate.
Qed.

(* ---- BigInt ---- *)
Theorem judge_biz_accepts z : judge_biz z (model_biz z) = Holds.
Proof.
  unfold judge_biz, model_biz. cbn [bo_cbor bo_cbor_rt bo_str bo_str_rt bo_u64 bo_int bo_zero].
  rewrite bigint_from_bytes_roundtrip, bigint_decimal_roundtrip, !resZ_eqb_refl.
  unfold bigint_as_u64, bigint_as_int, bi_is_zero. rewrite optN_eqb_refl, optZ_eqb_refl, Bool.eqb_reflx. reflexivity.
Qed.

Ltac split_matches H :=
  repeat (first [discriminate
                | match type of H with context [match ?x with _ => _ end] => destruct x eqn:?; cbn [bind] in H end]).

Lemma read_chunks_no_panic f : forall bs acc, read_chunks f bs acc <> Panic.
Proof.
  induction f as [|f IH]; intros bs acc H; cbn [read_chunks] in H; [discriminate|].
  destruct bs as [|b0 r0]; [discriminate|]. destruct (b0 / 32 =? 7); [destruct (b0 =? 255); discriminate|].
  destruct (decode_head (b0 :: r0)) as [[[m3 a3] r3]|]; [|discriminate].
  destruct (N.eq_dec m3 2) as [-> | NE].
  - destruct a3 as [l|]; [|discriminate]. destruct (64 <? l); [discriminate|].
    destruct (split_at (N.to_nat l) r3) as [[c r4]|]; [|discriminate]. exact (IH _ _ H).
  - destruct m3 as [|[[|[]|]|[|[]|]|]]; try discriminate; destruct a3; try discriminate. congruence.
Qed.

Lemma read_bounded_bytes_no_panic bs : read_bounded_bytes bs <> Panic.
Proof.
  unfold read_bounded_bytes. intros H. destruct (decode_head bs) as [[[m a] r]|]; [|discriminate].
  destruct (N.eq_dec m 2) as [-> | NE].
  - destruct a as [l|]; [|exact (read_chunks_no_panic _ _ _ H)].
    destruct (split_at (N.to_nat l) r) as [[c r3]|]; [|discriminate]. destruct (64 <? l); discriminate.
  - destruct m as [|[[|[]|]|[|[]|]|]]; try discriminate; destruct a; try discriminate; congruence.
Qed.

Lemma bigint_from_bytes_no_panic bs : bigint_from_bytes bs <> Panic.
Proof.
  unfold bigint_from_bytes, bigint_deserialize. intros H. destruct (decode_head bs) as [[[m a] r]|]; [|discriminate].
  destruct (N.eq_dec m 6) as [-> | NE].
  - destruct a as [tag|]; [|discriminate]. pose proof (read_bounded_bytes_no_panic r) as NP.
    destruct (read_bounded_bytes r) as [[b r']| | |]; cbn [bind] in H; try discriminate; [|congruence].
    destruct (tag =? 2); cbn [bind] in H; [discriminate|]. destruct (tag =? 3); cbn [bind] in H; discriminate.
  - destruct m as [|[[[]|[]|]|[[]|[]|]|]]; try discriminate; destruct a; cbn [bind] in H; try discriminate; congruence.
Qed.

Theorem judge_bibytes_accepts bs : judge_bibytes bs (model_bibytes bs) = Holds \/ model_bibytes bs = OutOfFuel.
Proof.
  unfold judge_bibytes, model_bibytes. pose proof (bigint_from_bytes_no_panic bs) as NP.
  destruct (bigint_from_bytes bs) as [z| | |] eqn:E; cbn [bind].
  - left. rewrite bigint_from_bytes_roundtrip, !resZ_eqb_refl. reflexivity.
  - left. reflexivity.
  - congruence.
  - right. reflexivity.
Qed.

Theorem judge_biop_accepts op a b :
  judge_biop op a b (model_biop op a b) = if (match op with BDivFloor | BDivCeil => (b =? 0)%Z | _ => false end) then Fails cls_div_zero else Holds.
Proof.
  unfold judge_biop, model_biop, bi_exact, bi_apply. destruct op; try (rewrite Z.eqb_refl; reflexivity).
  - destruct (b =? 0)%Z; [reflexivity | rewrite Z.eqb_refl; reflexivity].
  - destruct (b =? 0)%Z eqn:E; [reflexivity|]. apply Z.eqb_neq in E. unfold check.
    destruct (a mod b =? 0)%Z eqn:M.
    + apply Z.eqb_eq in M. replace (- (- a / b))%Z with (a / b)%Z; [rewrite Z.eqb_refl; reflexivity|].
      rewrite Z.div_opp_l_z by assumption. lia.
    + apply Z.eqb_neq in M. replace (- (- a / b))%Z with (a / b + 1)%Z; [rewrite Z.eqb_refl; reflexivity|].
      rewrite Z.div_opp_l_nz by assumption. lia.
Qed.

(* ---- MintBuilder ---- *)
Theorem judge_mint_accepts ops : forallb (fun op => int_in_range (mint_op_amount op)) ops = true ->
  judge_mint ops (model_mint ops) = Holds.
Proof.
  intros W. unfold judge_mint, model_mint.
  pose proof (mint_run_mint_range ops [] (Forall_nil _) W) as R.
  destruct (mint_run mint_step [] ops) as [s oks]. cbn [fst snd] in *.
  unfold mint_build. destruct (forallb (fun kv : N * Z => negb (snd kv =? 0)%Z) s) eqn:NZ; cbn [bind snd]; [|reflexivity].
  assert (A : forall k, judge_mint_entry (option_map mint_observe_entry (ms_get k s)) = true).
  { intros k. destruct (ms_get k s) as [z|] eqn:G; [|reflexivity]. cbn [option_map judge_mint_entry mint_observe_entry].
    pose proof (ms_get_mint_range k s z R G) as Rz. destruct (in_mint_range_int z Rz) as [Ri Rm].
    destruct (int_accessors_exact z Ri Rm) as [P [Ng _]]. rewrite P, Ng, (int_from_bytes_roundtrip z Ri), resZ_eqb_refl.
    assert (NZz : (z =? 0)%Z = false).
    { clear R Rz P Ng. induction s as [|[k' v'] s IH]; cbn [ms_get] in G; [discriminate|].
      cbn [forallb] in NZ. apply andb_true_iff in NZ. destruct NZ as [N1 N2].
      destruct (k =? k'); [injection G as <-; cbn [snd] in N1; destruct (v' =? 0)%Z; [discriminate | reflexivity] | auto]. }
    rewrite NZz. unfold in_mint_range in Rz.
    replace ((mint_min <=? z)%Z && (z <=? int_max)%Z) with true by lia. cbn [andb negb orN].
    destruct (0 <=? z)%Z eqn:S1.
    - replace (z <? 0)%Z with false by lia. cbn [orN].
      replace (Z.of_N (Z.to_N z) =? Z.max z 0)%Z with true by lia. replace (Z.of_N 0 =? Z.max (- z) 0)%Z with true by lia. reflexivity.
    - replace (z <? 0)%Z with true by lia. cbn [orN].
      replace (Z.of_N 0 =? Z.max z 0)%Z with true by lia. replace (Z.of_N (Z.to_N (- z)) =? Z.max (- z) 0)%Z with true by lia. reflexivity. }
  unfold mint_keys. cbn [map forallb]. rewrite !A. reflexivity.
Qed.

(* ---- Mint conversions ---- *)
Theorem judge_mintv_accepts m : mint_wfb m = true -> mint_has_min m = false -> has_dup_policy m = false ->
  judge_mintv m (model_mintv m) = Holds.
Proof.
  intros W M D. unfold judge_mintv, model_mintv. rewrite W. cbn [negb fst snd].
  pose proof (mint_ok_of_bool m W M) as OK.
  assert (S : forall s, mintv_side_ok s m (mint_as_multiasset s m) = true).
  { intros s. destruct (mint_as_multiasset_exact s m OK D) as [Wr Q]. unfold mintv_side_ok. rewrite Wr. cbn [andb].
    apply forallb_forall. intros [p n] _. cbn [fst snd]. rewrite Q. apply Z.eqb_refl. }
  unfold mint_as_positive_multiasset, mint_as_negative_multiasset. rewrite !S. reflexivity.
Qed.

(* ---- Value ---- *)
Lemma all_keys_intro vs f : (forall p n, f p n = true) -> all_keys vs f = true.
Proof. intros H. unfold all_keys. apply forallb_forall. intros [p n] _. apply H. Qed.

Lemma some_key_none vs f : (forall p n, f p n = false) -> some_key vs f = false.
Proof.
  intros H. unfold some_key. destruct (existsb _ (keys_of vs)) eqn:E; [|reflexivity].
  apply existsb_exists in E. destruct E as [[p n] [_ E]]. cbn in E. rewrite H in E. discriminate.
Qed.

Lemma value_keys_in v p n : qty v p n <> 0 -> In (p, n) (value_keys v).
Proof.
  intros NZ. rewrite opt_ma_qty_unfold in NZ. pose proof (qty_in_entries _ p n NZ) as I.
  unfold value_keys. apply in_map_iff. exists (p, n, ma_qty (opt_ma (multiasset_of v)) p n). split; [reflexivity | exact I].
Qed.

Lemma some_key_intro vs f v p n : In v vs -> qty v p n <> 0 -> f p n = true -> some_key vs f = true.
Proof.
  intros Iv NZ F. unfold some_key. apply existsb_exists. exists (p, n). split; [|exact F].
  unfold keys_of. apply in_flat_map. exists v. split; [exact Iv | apply value_keys_in; exact NZ].
Qed.

Lemma all_keys_elim vs f v p n : all_keys vs f = true -> In v vs -> qty v p n <> 0 -> f p n = true.
Proof.
  unfold all_keys. rewrite forallb_forall. intros H Iv NZ. apply (H (p, n)).
  unfold keys_of. apply in_flat_map. exists v. split; [exact Iv | apply value_keys_in; exact NZ].
Qed.

Lemma spec_add_accepts a b : value_wf a -> value_wf b -> spec_add a b (value_checked_add a b) = true.
Proof.
  intros Wa Wb. pose proof (value_checked_add_cases a b Wa Wb) as C.
  destruct (value_checked_add_dichotomy a b Wa Wb) as [[c [E [N1 N2]]] | [E N]]; rewrite E in *; unfold spec_add.
  - destruct C as [Wc [Cc Q]]. unfold add_overflows.
    replace (two64 <=? coin a + coin b) with false by lia.
    rewrite some_key_none by (intros p n; specialize (N2 p n); lia). cbn [orb negb andb].
    rewrite Cc, N.eqb_refl, all_keys_intro by (intros p n; rewrite Q; apply N.eqb_refl). exact Wc.
  - unfold add_overflows. destruct C as [O | [p [n O]]]; [replace (two64 <=? coin a + coin b) with true by lia; reflexivity|].
    apply orb_true_iff. right. assert (T0 : 0 < two64) by reflexivity.
    destruct (N.eq_dec (qty a p n) 0) as [Z | NZ].
    + apply (some_key_intro [a; b] _ b p n); [right; left; reflexivity | lia | lia].
    + apply (some_key_intro [a; b] _ a p n); [left; reflexivity | exact NZ | lia].
Qed.

Lemma value_eqb_sem_keys_intro v w : value_eq_sem v w -> value_eqb_sem_keys v w = true.
Proof.
  intros [C Q]. unfold value_eqb_sem_keys. rewrite C, N.eqb_refl. apply all_keys_intro. intros p n. rewrite Q. apply N.eqb_refl.
Qed.

Lemma spec_sub_accepts a b : value_wf a -> value_wf b -> spec_sub a b (value_checked_sub a b) = true.
Proof.
  intros Wa Wb. pose proof (value_checked_sub_cases a b Wa Wb) as C. unfold spec_sub, coin_underflows, asset_underflows.
  destruct (value_checked_sub a b) as [c| | |]; try contradiction.
  - destruct C as [Wc [Cb [Cc Q]]]. replace (coin a <? coin b) with false by lia.
    rewrite some_key_none by (intros p n; destruct (Q p n); lia). cbn [negb andb].
    rewrite Cc, N.eqb_refl, all_keys_intro by (intros p n; destruct (Q p n) as [_ X]; rewrite X; apply N.eqb_refl). exact Wc.
  - destruct C as [O | [p [n O]]]; [replace (coin a <? coin b) with true by lia; reflexivity|].
    apply orb_true_iff. right. apply (some_key_intro [b] _ b p n); [left; reflexivity | lia | lia].
Qed.

Lemma spec_csub_accepts a b : value_wf a -> value_wf b -> spec_csub a b (value_clamped_sub a b) = true.
Proof.
  intros Wa Wb. destruct (value_clamped_sub_spec a b Wa Wb) as [W [C Q]]. unfold spec_csub.
  rewrite C, N.eqb_refl, all_keys_intro by (intros p n; rewrite Q; apply N.eqb_refl). exact W.
Qed.

Lemma spec_msub_accepts a b : value_wf a -> value_wf b ->
  spec_csub (mkValue 0 (multiasset_of a)) (mkValue 0 (multiasset_of b))
            (mkValue 0 (Some (ma_sub (opt_ma (multiasset_of a)) (opt_ma (multiasset_of b))))) = true.
Proof.
  intros Wa Wb. destruct (ma_sub_spec _ _ (opt_ma_wf a Wa) (opt_ma_wf b Wb)) as [W Q]. unfold spec_csub. cbn [coin].
  rewrite all_keys_intro.
  - unfold value_wfb. cbn [coin multiasset_of]. rewrite W. reflexivity.
  - intros p n. rewrite !opt_ma_qty_unfold. cbn [multiasset_of opt_ma]. rewrite Q.
    replace (opt_ma (multiasset_of {| coin := 0; multiasset_of := multiasset_of a |})) with (opt_ma (multiasset_of a)) by reflexivity.
    replace (opt_ma (multiasset_of {| coin := 0; multiasset_of := multiasset_of b |})) with (opt_ma (multiasset_of b)) by reflexivity.
    apply N.eqb_refl.
Qed.

Lemma le_keys_leb a b : value_wf a -> value_wf b -> le_keys a b = value_leb_sem a b.
Proof.
  intros Wa Wb. destruct (value_leb_sem a b) eqn:L.
  - apply (value_leb_sem_iff a b Wa) in L. destruct L as [C Q]. unfold le_keys.
    replace (coin a <=? coin b) with true by lia. apply all_keys_intro. intros p n. specialize (Q p n). lia.
  - destruct (le_keys a b) eqn:K; [|reflexivity]. exfalso.
    assert (X : value_leb_sem a b = true); [|congruence].
    apply (value_leb_sem_iff a b Wa). unfold le_keys in K. apply andb_true_iff in K. destruct K as [K1 K2].
    split; [lia|]. intros p n. destruct (N.eq_dec (qty a p n) 0) as [Z | NZ]; [lia|].
    pose proof (all_keys_elim [a; b] _ a p n K2 (or_introl eq_refl) NZ) as H. cbv beta in H. lia.
Qed.

Lemma spec_cmp_accepts a b : value_wf a -> value_wf b -> value_compare a b = spec_cmp a b.
Proof.
  intros Wa Wb. unfold value_compare, spec_cmp. rewrite value_partial_cmp_leb, (le_keys_leb a b Wa Wb), (le_keys_leb b a Wb Wa).
  destruct (value_leb_sem a b), (value_leb_sem b a); reflexivity.
Qed.

Theorem judge_val_accepts a b : value_wf a -> value_wf b -> judge_val a b (model_val a b) = Holds.
Proof.
  intros Wa Wb. unfold judge_val, model_val.
  cbn [vo_add vo_add_rev vo_sub vo_csub vo_msub vo_undo vo_cmp vo_lt vo_le vo_gt vo_ge vo_eq vo_zero].
  unfold value_wf in Wa, Wb. rewrite Wa, Wb. cbn [andb negb].
  rewrite (spec_add_accepts a b Wa Wb), (spec_add_accepts b a Wb Wa). cbn [andb negb].
  pose proof (value_add_comm a b Wa Wb) as CM. unfold same_outcome in CM.
  assert (T1 : match value_checked_add a b, value_checked_add b a with
               | Ok c, Ok c' => value_eqb_sem_keys c c' | Err, Err => true | _, _ => false end = true).
  { destruct (value_checked_add a b), (value_checked_add b a); try contradiction; [apply value_eqb_sem_keys_intro; exact CM | reflexivity]. }
  rewrite T1. cbn [negb]. rewrite (spec_sub_accepts a b Wa Wb). cbn [negb]. rewrite (spec_csub_accepts a b Wa Wb). cbn [negb].
  rewrite (spec_msub_accepts a b Wa Wb). cbn [negb].
  assert (T2 : match value_checked_add a b, match value_checked_add a b with Ok c => Some (value_checked_sub c b) | _ => None end with
               | Ok _, Some (Ok d) => value_eqb_sem_keys d a | Ok _, _ => false | _, None => true | _, Some _ => false end = true).
  { destruct (value_checked_add a b) as [c| | |] eqn:E; try reflexivity.
    destruct (value_sub_undoes_add a b c Wa Wb E) as [d [D S]]. rewrite D. apply value_eqb_sem_keys_intro. exact S. }
  rewrite T2. cbn [negb].
  rewrite <- (spec_cmp_accepts a b Wa Wb), optZ_eqb_refl.
  unfold value_lt, value_le, value_gt, value_ge, value_compare.
  assert (T3 : implb (value_eqb a b) (value_eqb_sem_keys a b) = true).
  { destruct (value_eqb a b) eqn:E; [|reflexivity]. cbn [implb]. apply value_eqb_sem_keys_intro, value_eqb_sound. exact E. }
  rewrite T3.
  assert (T4 : Bool.eqb (value_is_zero a)
                 ((coin a =? 0) && match multiasset_of a with Some m => match m with [] => true | _ :: _ => false end | None => true end) = true).
  { unfold value_is_zero. destruct (multiasset_of a) as [[|e m]|]; unfold ma_len; cbn [length]; try apply Bool.eqb_reflx. }
  rewrite T4.
  destruct (value_partial_cmp a b) as [[| |]|]; reflexivity.
Qed.

Theorem judge_val3_accepts a b c : value_wf a -> value_wf b -> value_wf c -> judge_val3 a b c (model_val3 a b c) = Holds.
Proof.
  intros Wa Wb Wc. unfold judge_val3, model_val3, add3_l, add3_r. cbn [fst snd].
  pose proof Wa as Wa'. pose proof Wb as Wb'. pose proof Wc as Wc'. unfold value_wf in Wa', Wb', Wc'. rewrite Wa', Wb', Wc'. cbn [andb negb].
  destruct (add3_l_cases a b c Wa Wb Wc) as [[x [E1 [N1 [C1 [Q1 _]]]]] | [E1 N1]];
  destruct (add3_r_cases a b c Wa Wb Wc) as [[y [E2 [N2 [C2 [Q2 _]]]]] | [E2 N2]]; rewrite E1, E2; try tauto.
  rewrite value_eqb_sem_keys_intro by (split; [lia | intros p n; rewrite Q1, Q2; reflexivity]).
  rewrite C1, N.eqb_refl, all_keys_intro by (intros p n; rewrite Q1; apply N.eqb_refl). reflexivity.
Qed.

(* ---- text entry points ---- *)
Theorem judge_bnstr_accepts s : judge_bnstr s (model_bnstr s) = Holds.
Proof.
  unfold judge_bnstr, model_bnstr, bn_from_str. destruct (parse_u64 s) as [n| | |] eqn:P; try reflexivity.
  - destruct (parse_u64_canon s n P) as [B C]. rewrite C, text_eqb_refl. replace (n <? two64) with true by lia. reflexivity.
  - exfalso. unfold parse_u64 in P. destruct (match s with [] => [] | c :: r => if c =? ch_plus then r else s end); [discriminate|].
    destruct (parse_digits _ 0) as [v|]; [destruct (v <? two64)|]; discriminate.
  - exfalso. unfold parse_u64 in P. destruct (match s with [] => [] | c :: r => if c =? ch_plus then r else s end); [discriminate|].
    destruct (parse_digits _ 0) as [v|]; [destruct (v <? two64)|]; discriminate.
Qed.

Lemma parse_biguint_total s : parse_biguint s = Err \/ exists n, parse_biguint s = Ok n.
Proof.
  unfold parse_biguint. destruct (match s with [] => s | c :: tail => if (c =? ch_plus) && negb (starts_with ch_plus tail) then tail else s end) as [|c r]; [left; reflexivity|].
  destruct (c =? ch_underscore); [left; reflexivity|]. destruct (parse_digits_us (c :: r) 0); [right; eauto | left; reflexivity].
Qed.

Theorem judge_bistr_accepts s : judge_bistr s (model_bistr s) = Holds.
Proof.
  unfold judge_bistr, model_bistr, bigint_from_str. destruct (parse_bigint s) as [z| | |] eqn:P; try reflexivity.
  - rewrite bigint_decimal_roundtrip, resZ_eqb_refl, (parse_bigint_canon s z P), text_eqb_refl. reflexivity.
  - exfalso. unfold parse_bigint in P. destruct s as [|c tail].
    + destruct (parse_biguint_total []) as [E | [n E]]; rewrite E in P; discriminate.
    + destruct (c =? ch_minus).
      * destruct (parse_biguint_total (if starts_with ch_plus tail then c :: tail else tail)) as [E | [n E]]; rewrite E in P; discriminate.
      * destruct (parse_biguint_total (c :: tail)) as [E | [n E]]; rewrite E in P; discriminate.
  - exfalso. unfold parse_bigint in P. destruct s as [|c tail].
    + destruct (parse_biguint_total []) as [E | [n E]]; rewrite E in P; discriminate.
    + destruct (c =? ch_minus).
      * destruct (parse_biguint_total (if starts_with ch_plus tail then c :: tail else tail)) as [E | [n E]]; rewrite E in P; discriminate.
      * destruct (parse_biguint_total (c :: tail)) as [E | [n E]]; rewrite E in P; discriminate.
Qed.
