(* Proofs about Num/BigIntCbor.v: BigInt survives its CBOR encoding (uint / nint / tag 2 / tag 3 with 64-byte
   chunks) and its decimal text, for integers of any size. *)
From CSL Require Import Base.Prelude Cbor.Head Cbor.HeadProofs Num.Decimal Num.DecimalProofs Num.IntRange Num.IntRangeProofs Num.BigIntCbor.
Local Open Scope N_scope.

(* ---- heads ---- *)
Lemma encode_head_first m n : exists b t, encode_head m n = b :: t /\ b / 32 = m.
Proof.
  unfold encode_head.
  destruct (n <? 24) eqn:E1; [exists (m * 32 + n), []; split; [reflexivity | apply (initial_byte m n); lia]|].
  destruct (n <? 256); [exists (m * 32 + 24), (be 1 n); split; [reflexivity | apply (initial_byte m 24); lia]|].
  destruct (n <? 65536); [exists (m * 32 + 25), (be 2 n); split; [reflexivity | apply (initial_byte m 25); lia]|].
  destruct (n <? 4294967296); [exists (m * 32 + 26), (be 4 n); split; [reflexivity | apply (initial_byte m 26); lia]|].
  exists (m * 32 + 27), (be 8 n); split; [reflexivity | apply (initial_byte m 27); lia].
Qed.

Lemma decode_head_indef_bytes r : decode_head (95 :: r) = Some (2, Indef, r).
Proof. reflexivity. Qed.

(* ---- chunks ---- *)
Definition chunk_ok (c : bytes) : Prop := (0 < length c <= 64)%nat.

Lemma chunks_aux_spec fuel : forall bs, (length bs <= fuel)%nat ->
  concat (chunks_aux fuel bs) = bs /\ Forall chunk_ok (chunks_aux fuel bs).
Proof.
  induction fuel as [|f IH]; intros bs L; cbn [chunks_aux].
  - destruct bs; [split; [reflexivity | constructor] | cbn in L; lia].
  - destruct bs as [|b bs]; [split; [reflexivity | constructor]|].
    assert (L' : (length (skipn chunk_size (b :: bs)) <= f)%nat).
    { rewrite skipn_length. unfold chunk_size. cbn [length] in *. lia. }
    destruct (IH _ L') as [C F]. split.
    + cbn [concat]. rewrite C. apply firstn_skipn.
    + constructor; [|exact F]. unfold chunk_ok. rewrite firstn_length. unfold chunk_size. cbn [length]. lia.
Qed.

Lemma chunks_spec bs : concat (chunks bs) = bs /\ Forall chunk_ok (chunks bs).
Proof. apply chunks_aux_spec. lia. Qed.

(* ---- the chunk loop reads back what the writer emitted ---- *)
Lemma enc_bytes_read c tl : (length c <= 64)%nat ->
  decode_head (enc_bytes c ++ tl) = Some (2, Arg (N.of_nat (length c)), c ++ tl).
Proof.
  intros L. unfold enc_bytes. rewrite <- app_assoc. apply decode_encode_head. unfold two64. lia.
Qed.

Lemma read_chunks_spec cs : forall fuel acc rest, Forall chunk_ok cs -> (length cs < fuel)%nat ->
  read_chunks fuel (concat (map enc_bytes cs) ++ 255 :: rest) acc = Ok (acc ++ concat cs, rest).
Proof.
  induction cs as [|c cs IH]; intros fuel acc rest F L; (destruct fuel as [|f]; [cbn in L; lia|]).
  - cbn [map concat app read_chunks]. change (255 / 32 =? 7) with true. change (255 =? 255) with true.
    cbv iota. rewrite app_nil_r. reflexivity.
  - inversion F as [|? ? Hc F']; subst. destruct Hc as [Hc0 Hc].
    cbn [map concat]. rewrite <- app_assoc.
    set (tl := concat (map enc_bytes cs) ++ 255 :: rest).
    pose proof (enc_bytes_read c tl Hc) as D.
    destruct (encode_head_first 2 (N.of_nat (length c))) as [b [t [E Hb]]].
    assert (E' : enc_bytes c ++ tl = b :: (t ++ c ++ tl)) by (unfold enc_bytes; rewrite E, <- app_assoc; reflexivity).
    rewrite E' in *. cbn [read_chunks]. rewrite Hb. change (2 =? 7) with false. cbv iota. rewrite D.
    replace (64 <? N.of_nat (length c)) with false by lia.
    rewrite Nat2N.id, split_at_app by reflexivity. subst tl.
    rewrite (IH f (acc ++ c) rest F') by (cbn [length] in L; lia). rewrite <- app_assoc. reflexivity.
Qed.

Theorem read_write_bounded_bytes bs rest : read_bounded_bytes (write_bounded_bytes bs ++ rest) = Ok (bs, rest).
Proof.
  unfold write_bounded_bytes, read_bounded_bytes. destruct (length bs <=? chunk_size)%nat eqn:E.
  - apply Nat.leb_le in E. unfold chunk_size in E. rewrite (enc_bytes_read bs rest E).
    rewrite Nat2N.id, split_at_app by reflexivity. replace (64 <? N.of_nat (length bs)) with false by lia. reflexivity.
  - cbn [app]. rewrite decode_head_indef_bytes. destruct (chunks_spec bs) as [C F].
    rewrite <- app_assoc. cbn [app].
    rewrite (read_chunks_spec (chunks bs)); [rewrite C; reflexivity | exact F |].
    rewrite !app_length. cbn [length]. 
    assert (X : (length (chunks bs) <= length (concat (map enc_bytes (chunks bs))))%nat).
    { clear C. induction F as [|c cs Hc _ IH]; [cbn; lia|]. cbn [map concat length]. rewrite app_length.
      unfold enc_bytes at 1. rewrite app_length. destruct Hc. lia. }
    lia.
Qed.

(* ---- big-endian magnitude ---- *)
Lemma byte_len_bound n : n < 256 ^ N.of_nat (byte_len n).
Proof.
  unfold byte_len. rewrite N2Nat.id. destruct (N.eq_dec n 0) as [-> | NZ]; [reflexivity|].
  pose proof (N.log2_spec n ltac:(lia)) as [_ U].
  assert (P : 2 ^ N.succ (N.log2 n) <= 256 ^ (N.log2 n / 8 + 1)).
  { change 256 with (2 ^ 8). rewrite <- N.pow_mul_r. apply N.pow_le_mono_r; [lia|].
    pose proof (N.div_mod (N.log2 n) 8 ltac:(lia)). pose proof (N.mod_lt (N.log2 n) 8 ltac:(lia)). lia. }
  lia.
Qed.

Theorem from_to_bytes_be n : from_bytes_be (to_bytes_be n) = n.
Proof. unfold from_bytes_be, to_bytes_be. rewrite unbe_be by apply byte_len_bound. lia. Qed.

(* ---- CBOR round trip, any size ---- *)
Theorem bigint_cbor_roundtrip z rest : bigint_deserialize (bigint_serialize z ++ rest) = Ok (z, rest).
Proof.
  unfold bigint_serialize, bigint_deserialize.
  assert (T : Z.of_N two64 = two64Z) by reflexivity. assert (T0 : (0 < two64Z)%Z) by reflexivity.
  destruct ((0 <=? z) && (z <? two64Z))%Z eqn:C1.
  - rewrite decode_encode_head by lia. f_equal. f_equal. lia.
  - destruct ((- two64Z <=? z) && (z <? 0))%Z eqn:C2.
    + rewrite decode_encode_head by lia. f_equal. f_equal. lia.
    + destruct (0 <? z)%Z eqn:C3.
      * rewrite <- app_assoc, decode_encode_head by (unfold two64; lia).
        rewrite read_write_bounded_bytes. cbn [bind]. change (2 =? 2) with true. cbv iota.
        rewrite from_to_bytes_be. f_equal. f_equal. lia.
      * rewrite <- app_assoc, decode_encode_head by (unfold two64; lia).
        rewrite read_write_bounded_bytes. cbn [bind]. change (3 =? 2) with false. change (3 =? 3) with true. cbv iota.
        rewrite from_to_bytes_be. f_equal. f_equal. lia.
Qed.

Corollary bigint_from_bytes_roundtrip z : bigint_from_bytes (bigint_serialize z) = Ok z.
Proof.
  unfold bigint_from_bytes. rewrite <- (app_nil_r (bigint_serialize z)), bigint_cbor_roundtrip. reflexivity.
Qed.

(* the encoding before /repo 07262c5 agrees with the current one except for the debug panic at -2^63 *)
Lemma bigint_serialize_legacy_agrees oc z : (oc = false \/ z <> - two63)%Z ->
  bigint_serialize_legacy oc z = Ok (bigint_serialize z).
Proof.
  intros H. unfold bigint_serialize_legacy. destruct ((- two64Z <=? z) && (z <? 0))%Z eqn:C; [|reflexivity].
  rewrite nint_arg_legacy_exact by (auto; lia). cbn [bind]. unfold bigint_serialize.
  replace ((0 <=? z) && (z <? two64Z))%Z with false by lia. rewrite C. reflexivity.
Qed.

Lemma bigint_serialize_legacy_refuted : bigint_serialize_legacy true (- two63)%Z = Panic.
Proof. vm_compute. reflexivity. Qed.

(* ---- decimal round trip, any size ---- *)
Theorem bigint_decimal_roundtrip z : bigint_from_str (bigint_to_str z) = Ok z.
Proof. apply parse_bigint_print. Qed.

(* the chunked path is exercised: a 2000-bit integer *)
Example bigint_roundtrip_example :
  let z := (- 2 ^ 2000 - 12345)%Z in
  bigint_from_bytes (bigint_serialize z) = Ok z /\ (64 < length (to_bytes_be (Z.to_N (-1 - z))))%nat /\
  bigint_from_str (bigint_to_str z) = Ok z.
Proof. split; [apply bigint_from_bytes_roundtrip | split; [vm_compute; lia | apply bigint_decimal_roundtrip]]. Qed.
