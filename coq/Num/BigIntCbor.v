(* Num/BigIntCbor.v — BigInt (num_bigint wrapper): CBOR form, decimal form, arithmetic.  Model of
     serialization/numeric/big_int.rs:4-100   Serialize (uint / nint / tag 2 / tag 3, the -2^64 two-digit case,
                                              write_nint since /repo 07262c5) and Deserialize
     utils.rs:407-497                         write_bounded_bytes / read_bounded_bytes (64-byte chunks)
     protocol_types/numeric/big_int.rs:49-146 is_zero / as_u64 / as_int / from_str / to_str / add / sub / mul / pow /
                                              abs / increment / div_ceil / div_floor
   A BigInt is modelled by its mathematical value (Z).  No proofs in this file. *)
From CSL Require Import Base.Prelude Cbor.Head Num.Decimal Num.IntRange.
Local Open Scope N_scope.

(* ---- bounded bytes ---- *)
Definition chunk_size : nat := 64.

(* slice.chunks(64): all chunks full except possibly the last; fuel = length *)
Fixpoint chunks_aux (fuel : nat) (bs : bytes) : list bytes :=
  match fuel with
  | O => []
  | S f =>
      match bs with
      | [] => []
      | _ => firstn chunk_size bs :: chunks_aux f (skipn chunk_size bs)
      end
  end.
Definition chunks (bs : bytes) : list bytes := chunks_aux (length bs) bs.

Definition enc_bytes (bs : bytes) : bytes := encode_head 2 (N.of_nat (length bs)) ++ bs.

Definition write_bounded_bytes (bs : bytes) : bytes :=
  if (length bs <=? chunk_size)%nat then enc_bytes bs
  else [95] ++ concat (map enc_bytes (chunks bs)) ++ [255].      (* 0x5f … 0xff *)

(* the chunk loop of read_bounded_bytes: definite byte strings of at most 64 bytes until a major-7 item, which
   must be the break byte *)
Fixpoint read_chunks (fuel : nat) (bs : bytes) (acc : bytes) : result (bytes * bytes) :=
  match fuel with
  | O => OutOfFuel
  | S f =>
      match bs with
      | [] => Err
      | b :: r0 =>
          if b / 32 =? 7 then (if b =? 255 then Ok (acc, r0) else Err)
          else
            match decode_head bs with
            | Some (2, Arg len, r) =>
                if 64 <? len then Err
                else match split_at (N.to_nat len) r with
                     | Some (c, r') => read_chunks f r' (acc ++ c)
                     | None => Err
                     end
            | _ => Err
            end
      end
  end.

Definition read_bounded_bytes (bs : bytes) : result (bytes * bytes) :=
  match decode_head bs with
  | Some (2, Arg len, r) =>
      match split_at (N.to_nat len) r with
      | Some (c, r') => if 64 <? len then Err else Ok (c, r')
      | None => Err
      end
  | Some (2, Indef, r) => read_chunks (S (length r)) r []
  | _ => Err
  end.

(* ---- big-endian magnitude (num_bigint to_bytes_be / from_bytes_be) ---- *)
Definition byte_len (n : N) : nat := N.to_nat (N.log2 n / 8 + 1).
Definition to_bytes_be (n : N) : bytes := be (byte_len n) n.       (* [0] for zero *)
Definition from_bytes_be (bs : bytes) : N := unbe bs 0.

(* ---- CBOR ---- *)
Definition bigint_serialize (z : Z) : bytes :=
  if ((0 <=? z) && (z <? two64Z))%Z then encode_head 0 (Z.to_N z)                 (* 0 or 1 digit, Plus / NoSign *)
  else if ((- two64Z <=? z) && (z <? 0))%Z then encode_head 1 (Z.to_N (-1 - z))     (* 1 digit Minus, or -2^64 *)
  else if (0 <? z)%Z then encode_head 6 2 ++ write_bounded_bytes (to_bytes_be (Z.to_N z))
  else encode_head 6 3 ++ write_bounded_bytes (to_bytes_be (Z.to_N (-1 - z))).

Definition bigint_deserialize (bs : bytes) : result (Z * bytes) :=
  match decode_head bs with
  | Some (6, Arg tag, r) =>
      let* '(b, r') := read_bounded_bytes r in
      if tag =? 2 then Ok (Z.of_N (from_bytes_be b), r')
      else if tag =? 3 then Ok ((- (Z.of_N (from_bytes_be b) + 1))%Z, r')
      else Err
  | Some (0, Arg n, r) => Ok (Z.of_N n, r)
  | Some (1, Arg n, r) => Ok ((- Z.of_N n - 1)%Z, r)
  | _ => Err
  end.
Definition bigint_from_bytes (bs : bytes) : result Z :=
  let* '(z, _) := bigint_deserialize bs in Ok z.

(* before /repo 07262c5 the one-digit negative case went through write_negative_integer(.. as i64) *)
Definition bigint_serialize_legacy (overflow_checks : bool) (z : Z) : result bytes :=
  if ((- two64Z <=? z) && (z <? 0))%Z
  then let* a := nint_arg_legacy overflow_checks z in Ok (encode_head 1 a)
  else Ok (bigint_serialize z).

(* ---- decimal ---- *)
Definition bigint_to_str (z : Z) : text := print_Z z.
Definition bigint_from_str (s : text) : result Z := parse_bigint s.

(* ---- arithmetic (arbitrary precision; num_integer::Integer::div_floor / div_ceil; division by zero panics) ---- *)
Inductive bi_op := BAdd | BSub | BMul | BDivFloor | BDivCeil.
Definition bi_apply (op : bi_op) (a b : Z) : result Z :=
  match op with
  | BAdd => Ok (a + b)%Z
  | BSub => Ok (a - b)%Z
  | BMul => Ok (a * b)%Z
  | BDivFloor => if (b =? 0)%Z then Panic else Ok (a / b)%Z
  | BDivCeil => if (b =? 0)%Z then Panic else Ok (- ((- a) / b))%Z
  end.
Definition bi_abs (a : Z) : Z := Z.abs a.
Definition bi_increment (a : Z) : Z := (a + 1)%Z.
Definition bi_pow (a : Z) (e : N) : Z := (a ^ Z.of_N e)%Z.
Definition bi_is_zero (a : Z) : bool := (a =? 0)%Z.
