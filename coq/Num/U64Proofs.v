(* Proofs about Num/U64.v: the BigNum operations are exact or fail explicitly. *)
From CSL Require Import Base.Prelude Base.U64 Num.Decimal Num.U64.
Local Open Scope N_scope.

Lemma two64Z_eq : two64Z = Z.of_N two64.
Proof. reflexivity. Qed.

Lemma bn_apply_exact (op : bn_op) (a b : N) :
  a < two64 -> b < two64 -> known_div_by_zero op b = false ->
  bn_apply op a b = exact_or_error_u64 (bn_exact op a b).
Proof.
  intros Ha Hb K. pose proof two64Z_eq as E.
  destruct op; cbn [bn_apply bn_exact exact_or_error_u64 known_div_by_zero] in *;
    unfold checked_add, checked_sub, checked_mul, clamped_sub, div_floor.
  - destruct (a + b <? two64) eqn:T.
    + replace ((0 <=? Z.of_N a + Z.of_N b)%Z && (Z.of_N a + Z.of_N b <? two64Z)%Z) with true by lia. f_equal. lia.
    + replace ((0 <=? Z.of_N a + Z.of_N b)%Z && (Z.of_N a + Z.of_N b <? two64Z)%Z) with false by lia. reflexivity.
  - destruct (b <=? a) eqn:T.
    + replace ((0 <=? Z.of_N a - Z.of_N b)%Z && (Z.of_N a - Z.of_N b <? two64Z)%Z) with true by lia. f_equal. lia.
    + replace ((0 <=? Z.of_N a - Z.of_N b)%Z && (Z.of_N a - Z.of_N b <? two64Z)%Z) with false by lia. reflexivity.
  - assert (Hm : (Z.of_N a * Z.of_N b = Z.of_N (a * b))%Z) by lia. rewrite Hm.
    generalize dependent (a * b). intros m _.
    destruct (m <? two64) eqn:T.
    + replace ((0 <=? Z.of_N m)%Z && (Z.of_N m <? two64Z)%Z) with true by lia. f_equal. lia.
    + replace ((0 <=? Z.of_N m)%Z && (Z.of_N m <? two64Z)%Z) with false by lia. reflexivity.
  - replace ((0 <=? Z.max 0 (Z.of_N a - Z.of_N b))%Z && (Z.max 0 (Z.of_N a - Z.of_N b) <? two64Z)%Z) with true by lia.
    f_equal. lia.
  - rewrite K. assert (b <> 0) by lia.
    assert (Hq : (Z.of_N a / Z.of_N b = Z.of_N (a / b))%Z) by (symmetry; apply N2Z.inj_div).
    rewrite Hq. assert (a / b <= a) by (apply N.div_le_upper_bound; [lia | nia]).
    generalize dependent (a / b). intros q _ Hq'.
    replace ((0 <=? Z.of_N q)%Z && (Z.of_N q <? two64Z)%Z) with true by lia.
    unfold exact_or_error_u64. replace ((0 <=? Z.of_N q)%Z && (Z.of_N q <? two64Z)%Z) with true by lia. rewrite N2Z.id. reflexivity.
Qed.
