(* Batch/Proposal.v — transaction proposals of the send-all batcher: bookkeeping, min-ADA / fee recalculation,
   finalisation and transaction assembly, as the code does them.
     rust/src/builders/batch_tools/proposals.rs         TxOutputProposal::{new, add_ada, add_asset, contains_only_ada, ...},
         TxProposal::{new, add_new_output, add_asset, add_utxo, is_empty, get_total_ada_for_ouputs, get_need_ada,
         get_unused_ada, add_last_ada_to_last_output, create_tx}, create_output                       (lines 18-220)
     rust/src/builders/batch_tools/asset_categorizer.rs AssetCategorizer::{new (classification of the UTxOs into the free
         asset / free pure-ADA pools, 83-160), build_value (200-228), set_min_ada_for_tx, recalculate_outputs,
         get_tx_proposal_size, estimate_output_cost, estimate_fee (491-650), check_finished_tx_proposal,
         the value-size test of add_assets_to_proposal_output (455-474)}
     rust/src/builders/batch_tools/witnesses_calculator.rs  add_address (30-94)
     rust/src/builders/tx_batch_builder.rs              TxBatchBuilder::build (84-119): finalisation of a proposal, the
         batch loop and its termination condition, create_tx for every proposal
   NOT modelled (abstracted, see notes/design/C13.md): which UTxO is tried next and how its assets are distributed over
   outputs (try_append_next_utxos, try_append_next_asset_utxos, try_append_pure_ada_utxo, prototype_append,
   add_assets_to_proposal_output's iteration, make_candidate, get_asset_intersections, get_policy_intersections, get_next_pure_ada_utxo, get_next_pure_ada_utxo_by_amount): these only
   ever act on a proposal through the primitive operations [op] below, in an order the model leaves arbitrary.
   Sets (HashSet / HashMap) are duplicate-free lists; every size below is a sum, hence independent of their order.
   No proofs in this file. *)
From CSL Require Import Base.Prelude Base.U64 Batch.Calc.
Local Open Scope N_scope.

(* ---------------------------------------------------------------- static data (AssetCategorizer fields) *)

Inductive okind :=
| KVkey                       (* base / enterprise / pointer address with a key payment credential: add_vkey *)
| KByron (witness_size : N)   (* Byron address: add_boostrap, size of its fake bootstrap witness *)
| KScript                     (* script payment credential: "Script input is not supported for send all" *)
| KNone.                      (* anything else (reward address, malformed): no witness is counted *)

Record uinfo := mkUinfo {
  ui_ada : N;                 (* utxos_ada *)
  ui_input_size : N;          (* inputs_sizes: length of the serialised TransactionInput *)
  ui_owner : N;               (* index of the owner address in [cx_owners] (equal addresses = equal index) *)
  ui_ma_present : bool;       (* amount.multiasset is Some(_) *)
  ui_assets : list (N * N) }. (* (asset index, quantity) of every asset of the UTxO: assets_amounts *)

Record ainfo := mkAinfo {
  ai_policy : N;              (* asset_to_policy *)
  ai_name_len : N;            (* assets_name_sizes = asset_name_size of it *)
  ai_total : N }.             (* UtxosStat::coins_in_assets: grand total over all supplied UTxOs *)

Record ctx := mkCtx {
  cx_utxos : list uinfo; cx_assets : list ainfo; cx_owners : list okind;
  cx_addr_size : N;           (* length of the target address bytes *)
  cx_a : N; cx_b : N; cx_cpb : N; cx_max_value : N; cx_max_tx : N;
  cx_ada_total : N }.         (* UtxosStat::ada_coins *)

Definition nthN {A} (l : list A) (i : N) : option A := nth_error l (N.to_nat i).
Definition dummy_u := mkUinfo 0 0 0 false [].
Definition dummy_a := mkAinfo 0 0 0.
Definition utxo_of (c : ctx) (u : N) : uinfo := match nthN (cx_utxos c) u with Some x => x | None => dummy_u end.
Definition asset_of (c : ctx) (a : N) : ainfo := match nthN (cx_assets c) a with Some x => x | None => dummy_a end.
Definition owner_of (c : ctx) (o : N) : okind := match nthN (cx_owners c) o with Some x => x | None => KNone end.

(* quantity of asset [a] held by UTxO [u] (assets_amounts[a].get(u)) *)
Fixpoint lookupN (a : N) (l : list (N * N)) : N :=
  match l with [] => 0 | (k, q) :: t => if a =? k then q else lookupN a t end.
Definition amount (c : ctx) (u a : N) : N := lookupN a (ui_assets (utxo_of c u)).

(* classification of the supplied UTxOs by AssetCategorizer::new into the pool of UTxOs with assets
   (free_utxo_to_assets) and the pool of pure-ADA UTxOs (free_ada_utxos).
   [legacy = true]: the code before /repo 8fdcd51, where a UTxO with multiasset = Some(empty) entered neither pool *)
Definition is_asset_utxo (x : uinfo) : bool := match ui_assets x with [] => false | _ => true end.
Definition is_ada_utxo (legacy : bool) (x : uinfo) : bool :=
  if legacy then negb (ui_ma_present x) else negb (is_asset_utxo x).
Fixpoint indices_where {A} (f : A -> bool) (l : list A) (i : N) : list N :=
  match l with [] => [] | x :: t => (if f x then [i] else []) ++ indices_where f t (i + 1) end.
Definition free_pools (legacy : bool) (c : ctx) : list N * list N :=
  (indices_where is_asset_utxo (cx_utxos c) 0, indices_where (is_ada_utxo legacy) (cx_utxos c) 0).

(* ---------------------------------------------------------------- proposals *)

Record oprop := mkOprop {
  o_assets : list N;          (* used_assets (grouped_assets is this set grouped by policy) *)
  o_min_ada : N; o_total_ada : N; o_size : N }.

Record tprop := mkTprop {
  t_outputs : list oprop;     (* tx_output_proposals, first to last *)
  t_utxos : list N;           (* used_utoxs *)
  t_assets : list N;          (* used_assets *)
  t_total_ada : N; t_fee : N;
  t_owners : list N;          (* WitnessesCalculator::adresses *)
  t_wit : witcalc }.

Definition body_fields : list N := [0; 1; 2].       (* TxProposal::new: Inputs, Outputs, Fee *)
Definition tp_new : tprop := mkTprop [] [] [] 0 0 [] wit_new.
Definition op_new : oprop := mkOprop [] 0 0 0.

Definition insertN (x : N) (l : list N) : list N := if memN x l then l else l ++ [x].

Fixpoint map_last {A} (f : A -> A) (l : list A) : list A :=
  match l with [] => [] | [x] => [f x] | x :: t => x :: map_last f t end.

Definition add_new_output (p : tprop) : tprop :=
  mkTprop (t_outputs p ++ [op_new]) (t_utxos p) (t_assets p) (t_total_ada p) (t_fee p) (t_owners p) (t_wit p).

(* TxProposal::add_asset: recorded in the proposal and, when there is one, in the last output *)
Definition add_asset (p : tprop) (a : N) : tprop :=
  mkTprop (map_last (fun o => mkOprop (insertN a (o_assets o)) (o_min_ada o) (o_total_ada o) (o_size o)) (t_outputs p))
          (t_utxos p) (insertN a (t_assets p)) (t_total_ada p) (t_fee p) (t_owners p) (t_wit p).

(* WitnessesCalculator::add_address *)
Definition add_address (c : ctx) (owners : list N) (w : witcalc) (o : N) : result (list N * witcalc) :=
  if memN o owners then Ok (owners, w)
  else match owner_of c o with
       | KVkey => Ok (owners ++ [o], wit_add_vkey w)
       | KByron sz => Ok (owners ++ [o], wit_add_bootstrap w sz)
       | KScript => Err
       | KNone => Ok (owners ++ [o], w)
       end.

Definition add_utxo (c : ctx) (p : tprop) (u : N) : result tprop :=
  if memN u (t_utxos p) then Err                                   (* "UTxO already used" *)
  else
    let* total := checked_add (t_total_ada p) (ui_ada (utxo_of c u)) in
    let* ow := add_address c (t_owners p) (t_wit p) (ui_owner (utxo_of c u)) in
    Ok (mkTprop (t_outputs p) (t_utxos p ++ [u]) (t_assets p) total (t_fee p) (fst ow) (snd ow)).

Fixpoint checked_sum (l : list N) : result N :=
  match l with [] => Ok 0 | x :: t => let* s := checked_sum t in checked_add x s end.

Definition get_total_ada_for_outputs (p : tprop) : result N := checked_sum (map o_total_ada (t_outputs p)).
Definition get_need_ada (p : tprop) : result N :=
  let* outs := get_total_ada_for_outputs p in
  let* need := checked_add outs (t_fee p) in
  Ok (need - t_total_ada p).
Definition get_unused_ada (p : tprop) : result N :=
  let* outs := get_total_ada_for_outputs p in
  let* need := checked_add outs (t_fee p) in
  Ok (t_total_ada p - need).

Definition add_last_ada_to_last_output (p : tprop) : result tprop :=
  let* unused := get_unused_ada p in
  match t_outputs p with
  | [] => Ok p
  | _ =>
      let last := last (t_outputs p) op_new in
      let* total := checked_add (o_total_ada last) unused in
      Ok (mkTprop (map_last (fun o => mkOprop (o_assets o) (o_min_ada o) total (o_size o)) (t_outputs p))
                  (t_utxos p) (t_assets p) (t_total_ada p) (t_fee p) (t_owners p) (t_wit p))
  end.

(* ---------------------------------------------------------------- what an output holds *)

(* quantity of asset [a] in an output of a transaction spending [used] (build_value / calc_value_size) *)
Definition out_qty (c : ctx) (used : list N) (a : N) : result N := checked_sum (map (fun u => amount c u a) used).

(* the assets of an output grouped by policy (HashMap<PolicyIndex, HashSet<AssetIndex>>); built like the policy table of
   IntermediateOutputValue (Calc.iv_add_asset): update the policy's entry in place, or put a new entry in front *)
Fixpoint group_has (pol : N) (gs : list (N * list N)) : bool :=
  match gs with [] => false | (k, _) :: t => if pol =? k then true else group_has pol t end.
Fixpoint group_update (pol a : N) (gs : list (N * list N)) : list (N * list N) :=
  match gs with
  | [] => []
  | (k, l) :: t => if pol =? k then (k, a :: l) :: t else (k, l) :: group_update pol a t
  end.
Definition group_insert (pol a : N) (gs : list (N * list N)) : list (N * list N) :=
  if group_has pol gs then group_update pol a gs else (pol, [a]) :: gs.
Definition groups_of (c : ctx) (assets : list N) : list (N * list N) :=
  fold_left (fun gs a => group_insert (ai_policy (asset_of c a)) a gs) assets [].

Fixpoint omapR {A B} (f : A -> result B) (l : list A) : result (list B) :=
  match l with [] => Ok [] | x :: t => let* y := f x in let* r := omapR f t in Ok (y :: r) end.

(* per group, per asset: (name length, quantity in this output, grand total of the asset) *)
Definition out_groups (c : ctx) (used : list N) (assets : list N) : result (list (list (N * N * N))) :=
  omapR (fun g => omapR (fun a => let* q := out_qty c used a in
                                  Ok (ai_name_len (asset_of c a), q, ai_total (asset_of c a))) (snd g))
        (groups_of c assets).

Definition shape_of (gs : list (list (N * N * N))) : list (list (N * N)) :=
  map (map (fun x => match x with (nl, q, _) => (nl, q) end)) gs.

(* the value-size test of add_assets_to_proposal_output: the intermediate value (coin priced at the grand ADA total,
   every quantity at its asset's grand total; closed form of IntermediateOutputValue, IntermediateProofs.iv_total_closed) *)
Definition bound_of (c : ctx) (assets : list N) : N :=
  get_coin_size (cx_ada_total c) +
  match assets with
  | [] => 0
  | _ => get_struct_size 2 + get_struct_size (lenN (groups_of c assets)) +
         sumN (map (fun g => policy_size + get_struct_size (lenN (snd g)) +
                             sumN (map (fun a => asset_name_size (ai_name_len (asset_of c a)) +
                                                 get_coin_size (ai_total (asset_of c a))) (snd g)))
                   (groups_of c assets))
  end.

(* ---------------------------------------------------------------- recalculation (asset_categorizer.rs 491-650) *)

Definition categorizer_output_size (c : ctx) : N := get_output_size (cx_addr_size c).

(* AssetCategorizer::estimate_output_cost *)
Definition estimate_output (c : ctx) (used : list N) (o : oprop) : result (N * N) :=
  let* gs := out_groups c used (o_assets o) in
  let assets_size := calc_value_size (o_total_ada o) (shape_of gs) in
  let output_size := categorizer_output_size c + assets_size +
                     get_value_struct_size (match o_assets o with [] => true | _ => false end) in
  estimate_output_cost (o_total_ada o) output_size (cx_cpb c).

Definition recalc_output (c : ctx) (used : list N) (o : oprop) : result oprop :=
  let* cs := estimate_output c used o in
  Ok (mkOprop (o_assets o) (fst cs) (if o_total_ada o <? fst cs then fst cs else o_total_ada o) (snd cs)).

Definition recalculate_outputs (c : ctx) (p : tprop) : result tprop :=
  let* outs := omapR (recalc_output c (t_utxos p)) (t_outputs p) in
  Ok (mkTprop outs (t_utxos p) (t_assets p) (t_total_ada p) (t_fee p) (t_owners p) (t_wit p)).

Definition get_tx_proposal_size (c : ctx) (p : tprop) (with_fee : bool) : N :=
  get_bare_tx_size false + get_bare_tx_body_size body_fields + w_total (t_wit p) +
  (match t_outputs p with
   | [] => 0
   | _ => get_struct_size (lenN (t_outputs p)) + sumN (map o_size (t_outputs p))
   end) +
  (if with_fee then get_coin_size (t_fee p) else 0) +
  get_struct_size (lenN (t_utxos p)) + sumN (map (fun u => ui_input_size (utxo_of c u)) (t_utxos p)).

(* AssetCategorizer::estimate_fee (with the dependable amount of /repo 258992b: unused + last total + current fee;
   [legacy = true]: before the repair, without the current fee) *)
Definition estimate_fee_p (legacy : bool) (c : ctx) (p : tprop) : result (N * N) :=
  let tx_len := get_tx_proposal_size c p false in
  match t_outputs p with
  | [] => estimate_fee tx_len None None (cx_a c) (cx_b c)
  | _ =>
      let last := last (t_outputs p) op_new in
      let* unused := get_unused_ada p in
      let* d := checked_add unused (o_total_ada last) in
      let* d := if legacy then Ok d else checked_add d (t_fee p) in
      estimate_fee (tx_len - get_coin_size (o_total_ada last)) (Some (o_min_ada last)) (Some d) (cx_a c) (cx_b c)
  end.

(* set_min_ada_for_tx: returns the proposal with recalculated outputs and fee, and the estimated size *)
Definition set_min_ada_for_tx_gen (legacy : bool) (c : ctx) (p : tprop) : result (tprop * N) :=
  let* p1 := recalculate_outputs c p in
  let* fs := estimate_fee_p legacy c p1 in
  Ok (mkTprop (t_outputs p1) (t_utxos p1) (t_assets p1) (t_total_ada p1) (fst fs) (t_owners p1) (t_wit p1), snd fs).
Definition set_min_ada_for_tx := set_min_ada_for_tx_gen false.

(* ---------------------------------------------------------------- the primitive operations and their guards *)

Inductive op :=
| OpNewOutput                  (* add_new_output *)
| OpAddAsset (a : N)           (* add_asset, after the value-size test accepted it for the last output *)
| OpAddUtxo (u : N)            (* add_utxo *)
| OpSetMinAda.                 (* set_min_ada_for_tx (the size test against max_tx_size is the caller's) *)

Definition subsetN (l m : list N) : bool := forallb (fun x => memN x m) l.

(* one operation; [Err] = the code reports an error or the guard under which the code performs it does not hold:
   - an asset is added only to an existing last output, only if it is not yet in the transaction
     (asset_for_add = utxo assets - used assets) and only if the intermediate value size stays within max_value_size;
   - a UTxO is added after all its assets have been placed (prototype_append) and after the proposal got its first
     output (prototype_append and try_append_pure_ada_utxo both call add_new_output first when there is none) *)
Definition step (c : ctx) (p : tprop) (o : op) : result tprop :=
  match o with
  | OpNewOutput => Ok (add_new_output p)
  | OpAddAsset a =>
      match t_outputs p with
      | [] => Err
      | _ =>
          let lst := last (t_outputs p) op_new in
          if memN a (t_assets p) then Err
          else if bound_of c (insertN a (o_assets lst)) <=? cx_max_value c then Ok (add_asset p a)
          else Err
      end
  | OpAddUtxo u =>
      match t_outputs p with
      | [] => Err
      | _ => if subsetN (map fst (ui_assets (utxo_of c u))) (t_assets p) then add_utxo c p u else Err
      end
  | OpSetMinAda => let* r := set_min_ada_for_tx c p in Ok (fst r)
  end.

Fixpoint run (c : ctx) (p : tprop) (ops : list op) : result tprop :=
  match ops with [] => Ok p | o :: t => let* p' := step c p o in run c p' t end.

(* ---------------------------------------------------------------- finalisation (TxBatchBuilder::build 97-110) *)

(* check_finished_tx_proposal (/repo 8a86580) *)
Definition check_finished (c : ctx) (p : tprop) (tx_size : N) : result unit :=
  let* need := get_need_ada p in
  let* unused := get_unused_ada p in
  if 0 <? need then Err else if 0 <? unused then Err else if cx_max_tx c <? tx_size then Err else Ok tt.

(* the transaction a proposal denotes: inputs, outputs (coin, assets with quantities), fee *)
Record atx := mkAtx {
  x_inputs : list N;
  x_outputs : list (N * list (list (N * N * N)));     (* coin, groups of (name length, quantity, grand total) *)
  x_fee : N;
  x_owners : list N }.                                (* one mock witness per distinct owner address *)

Definition create_tx (c : ctx) (p : tprop) : result atx :=
  let* outs := omapR (fun o => let* gs := out_groups c (t_utxos p) (o_assets o) in Ok (o_total_ada o, gs)) (t_outputs p) in
  Ok (mkAtx (t_utxos p) outs (t_fee p) (t_owners p)).

(* [with_check = false]: the code before /repo 8a86580 (no check of the finished proposal) *)
Definition finalise_gen (with_check : bool) (c : ctx) (p : tprop) : result (tprop * atx) :=
  if match t_utxos p with [] => true | _ => false end then Err       (* "Unable to build transaction batch" *)
  else
    let* p1 := add_last_ada_to_last_output p in
    let* r := set_min_ada_for_tx c p1 in
    let* _ := if with_check then check_finished c (fst r) (snd r) else Ok tt in
    let* tx := create_tx c (fst r) in
    Ok (fst r, tx).
Definition finalise := finalise_gen true.

(* ---------------------------------------------------------------- real sizes of what a proposal denotes *)

(* sizes of the encoded objects (EncProofs: output_size_exact, witness_set_exact, tx_size_exact make these the lengths
   of the real encodings) *)
Definition is_nilb {A} (l : list A) : bool := match l with [] => true | _ => false end.
Definition real_value_size (coin : N) (gs : list (list (N * N * N))) : N :=
  calc_value_size coin (shape_of gs) + get_value_struct_size (is_nilb gs).
Definition real_out_size (c : ctx) (coin : N) (gs : list (list (N * N * N))) : N :=
  get_output_size (cx_addr_size c) + real_value_size coin gs.
Definition owner_vkeys (c : ctx) (owners : list N) : N :=
  lenN (filter (fun o => match owner_of c o with KVkey => true | _ => false end) owners).
Definition owner_boots (c : ctx) (owners : list N) : list N :=
  flat_map (fun o => match owner_of c o with KByron sz => [sz] | _ => [] end) owners.
Definition wit_size (v : N) (boots : list N) : N :=
  if (v =? 0) && (lenN boots =? 0) then 0
  else
    1 + (if 0 <? v then 1 + get_wrapped_struct_size v + get_fake_vkey_size * v else 0)
      + (if 0 <? lenN boots then 1 + get_wrapped_struct_size (lenN boots) + sumN boots else 0).
Definition real_tx_size (c : ctx) (x : atx) : N :=
  get_bare_tx_size false + get_bare_tx_body_size body_fields +
  wit_size (owner_vkeys c (x_owners x)) (owner_boots c (x_owners x)) +
  (get_struct_size (lenN (x_outputs x)) + sumN (map (fun o => real_out_size c (fst o) (snd o)) (x_outputs x))) +
  get_coin_size (x_fee x) +
  (get_struct_size (lenN (x_inputs x)) + sumN (map (fun u => ui_input_size (utxo_of c u)) (x_inputs x))).

(* ---------------------------------------------------------------- the batch loop (TxBatchBuilder::build) *)

Definition removeN (x : N) (l : list N) : list N := filter (fun y => negb (x =? y)) l.
Definition remove_all (xs l : list N) : list N := fold_left (fun acc x => removeN x acc) xs l.

(* one transaction of the batch: an operation sequence on a fresh proposal that only uses free UTxOs, then the
   finalisation; the used UTxOs leave the free pool (remove_assets_utxo / remove_pure_ada_utxo) *)
Definition batch_step (c : ctx) (free : list N) (ops : list op) : result (list N * atx) :=
  let* p := run c tp_new ops in
  if subsetN (t_utxos p) free then
    let* r := finalise c p in
    Ok (remove_all (t_utxos p) free, snd r)
  else Err.

(* the loop runs while a pool is non-empty; it ends successfully exactly when both are empty *)
Fixpoint batch (c : ctx) (free : list N) (plan : list (list op)) : result (list atx) :=
  match plan with
  | [] => match free with [] => Ok [] | _ => Err end
  | ops :: rest =>
      match free with
      | [] => Err
      | _ => let* r := batch_step c free ops in
             let* txs := batch c (fst r) rest in
             Ok (snd r :: txs)
      end
  end.

Definition send_all_gen (legacy_pools : bool) (c : ctx) (plan : list (list op)) : result (list atx) :=
  let '(assets, adas) := free_pools legacy_pools c in batch c (assets ++ adas) plan.
Definition send_all := send_all_gen false.
