(* Batch/IntermediateProofs.v — IntermediateOutputValue (assets_calculator.rs): the incrementally maintained size is a
   closed form of the set of assets added (independent of the order of additions, duplicates ignored), and that closed
   form is an UPPER bound of the real value size: it prices the coin at the width of the grand ADA total and every
   quantity at the width of the asset's grand total.
     iv_inv_add / iv_inv_set_coin   the invariant  iv_total = coin part + iv_closed (policies)
     iv_total_closed                for any sequence of additions followed / preceded by set_coin
     intermediate_upper_bound       calc_value_size + array head <= closed form, with the exact slack *)
From CSL Require Import Base.Prelude Base.U64 Cbor.Head Cbor.HeadProofs Batch.Calc Batch.CalcProofs.
Local Open Scope N_scope.

Lemma lenN_cons' {A} (x : A) l : lenN (x :: l) = lenN l + 1.
Proof. unfold lenN. cbn [length]. lia. Qed.

Lemma sumN_cons x l : sumN (x :: l) = x + sumN l.
Proof. reflexivity. Qed.

Section Intermediate.
  Variable policy_sz : N.
  Variable asz csz : N -> N.          (* per asset index: name size, size of the quantity *)

  Definition ip_closed (assets : list N) : N :=
    match assets with
    | [] => 0
    | _ => get_struct_size (lenN assets) + sumN (map (fun a => asz a + csz a) assets)
    end.
  Definition iv_closed (pols : list (N * ipolicy)) : N :=
    match pols with
    | [] => 0
    | _ => get_struct_size 2 + get_struct_size (lenN pols) +
           sumN (map (fun kp => policy_sz + ip_closed (ip_assets (snd kp))) pols)
    end.

  Definition ip_inv (p : ipolicy) : Prop := ip_total p = ip_closed (ip_assets p).
  Definition iv_inv (c : N) (v : ivalue) : Prop :=
    iv_total v = c + iv_closed (iv_policies v) /\
    Forall (fun kp => ip_inv (snd kp) /\ ip_assets (snd kp) <> []) (iv_policies v).

  Lemma ip_add_inv p a : ip_inv p -> ip_inv (ip_add_asset p a (asz a) (csz a)) /\
                                     ip_assets (ip_add_asset p a (asz a) (csz a)) <> [].
  Proof.
    unfold ip_inv, ip_add_asset. intros H. destruct (memN a (ip_assets p)) eqn:E.
    - split; [exact H|]. destruct (ip_assets p); [discriminate|discriminate].
    - cbn [ip_assets ip_total]. split; [|discriminate]. rewrite H. unfold ip_closed.
      destruct (ip_assets p) as [|b t] eqn:Ea.
      + change (lenN (@nil N)) with 0. change (0 <? 0) with false. cbn iota. cbn [map]. rewrite sumN_cons.
        change (lenN [a]) with 1. change (0 + 1) with 1. change (sumN []) with 0. lia.
      + assert (0 <? lenN (b :: t) = true) as -> by (rewrite lenN_cons'; lia).
        rewrite (lenN_cons' a). cbn [map]. rewrite !sumN_cons. pose proof (struct_size_bounds (lenN (b :: t))). lia.
  Qed.

  Lemma iv_is_empty_nil v c : iv_inv c v -> iv_is_empty v = match iv_policies v with [] => true | _ => false end.
  Proof.
    intros [_ H]. unfold iv_is_empty. destruct (iv_policies v) as [|[k p] t]; [reflexivity|].
    inversion H as [|x l [_ Hne] _]; subst. cbn [map snd] in *. rewrite sumN_cons.
    destruct (ip_assets p) as [|a r]; [contradiction Hne; reflexivity|]. rewrite lenN_cons'.
    destruct (lenN r + 1 + sumN _ <=? 0) eqn:E; [lia|reflexivity].
  Qed.

  Lemma iv_find_replace k p l p' :
    iv_find k l = Some p ->
    sumN (map (fun kp => policy_sz + ip_closed (ip_assets (snd kp))) (iv_replace k p' l)) + ip_closed (ip_assets p) =
    sumN (map (fun kp => policy_sz + ip_closed (ip_assets (snd kp))) l) + ip_closed (ip_assets p') /\
    lenN (iv_replace k p' l) = lenN l.
  Proof.
    induction l as [|[k' q] t IH]; cbn [iv_find iv_replace]; [discriminate|].
    destruct (k =? k') eqn:E.
    - intros H; injection H as ->. cbn [map snd]. rewrite !sumN_cons. split; [lia | rewrite !lenN_cons'; reflexivity].
    - intros H. destruct (IH H) as [A B]. cbn [map snd]. rewrite !sumN_cons, !lenN_cons', B. split; [lia|reflexivity].
  Qed.

  Lemma iv_find_In k p l : iv_find k l = Some p -> In p (map snd l).
  Proof.
    induction l as [|[k' q] t IH]; cbn [iv_find]; [discriminate|]. destruct (k =? k').
    - intros H; injection H as ->. left. reflexivity.
    - intros H. right. apply IH, H.
  Qed.

  Lemma iv_replace_Forall (P : N * ipolicy -> Prop) k p' l :
    Forall P l -> (forall k', P (k', p')) -> Forall P (iv_replace k p' l).
  Proof.
    induction 1 as [|[k' q] t Hq Ht IH]; intros Hp; cbn [iv_replace]; [constructor|].
    destruct (k =? k'); constructor; auto.
  Qed.

  Lemma iv_closed_ne l : lenN l <> 0 ->
    iv_closed l = get_struct_size 2 + get_struct_size (lenN l) +
                  sumN (map (fun kp => policy_sz + ip_closed (ip_assets (snd kp))) l).
  Proof. destruct l; [intros X; contradiction X; reflexivity | reflexivity]. Qed.

  Theorem iv_inv_add c v pol a :
    iv_inv c v -> iv_inv c (iv_add_asset v pol a policy_sz (asz a) (csz a)).
  Proof.
    intros I. pose proof (iv_is_empty_nil v c I) as He. destruct I as [Ht Hf]. unfold iv_add_asset. rewrite He.
    destruct (iv_find pol (iv_policies v)) as [p|] eqn:Ef.
    - (* existing policy *)
      destruct (iv_policies v) as [|kp0 t0] eqn:Ep; [discriminate|]. rewrite <- Ep in *.
      assert (Hp : ip_inv p /\ ip_assets p <> []).
      { rewrite Forall_forall in Hf. apply iv_find_In in Ef. apply in_map_iff in Ef as [[k q] [<- Hin]]. apply (Hf _ Hin). }
      destruct Hp as [Hp Hne]. destruct (ip_add_inv p a Hp) as [Hp' Hne'].
      set (p' := ip_add_asset p a (asz a) (csz a)) in *.
      destruct (iv_find_replace pol p (iv_policies v) p' Ef) as [A B].
      unfold iv_inv. cbn [iv_policies iv_total]. split.
      + rewrite Ht.
        assert (L : lenN (iv_policies v) <> 0) by (rewrite Ep, lenN_cons'; lia).
        rewrite (iv_closed_ne _ L), (iv_closed_ne (iv_replace pol p' (iv_policies v))) by (rewrite B; exact L).
        rewrite B. unfold ip_inv in Hp, Hp'. rewrite Hp, Hp'.
        assert (ip_closed (ip_assets p) <= sumN (map (fun kp => policy_sz + ip_closed (ip_assets (snd kp))) (iv_policies v))).
        { clear - Ef. induction (iv_policies v) as [|[k' q] t IH]; cbn [iv_find] in Ef; [discriminate|].
          cbn [map snd]. rewrite sumN_cons. destruct (pol =? k'); [injection Ef as ->; lia | specialize (IH Ef); lia]. }
        lia.
      + apply iv_replace_Forall; [exact Hf | intros k'; cbn [snd]; split; assumption].
    - (* new policy *)
      destruct (ip_add_inv ip_new a eq_refl) as [Hp' Hne'].
      set (p' := ip_add_asset ip_new a (asz a) (csz a)) in *.
      unfold iv_inv. cbn [iv_policies iv_total]. split.
      + rewrite (iv_closed_ne ((pol, p') :: iv_policies v)) by (rewrite lenN_cons'; lia).
        rewrite lenN_cons'. cbn [map snd]. rewrite sumN_cons. unfold ip_inv in Hp'. rewrite <- Hp'.
        rewrite Ht. destruct (iv_policies v) as [|kp0 t0] eqn:Ep.
        * change (lenN (@nil (N * ipolicy))) with 0. change (0 <? 0) with false. cbn iota. unfold iv_closed.
          change (sumN (map _ [])) with 0. lia.
        * rewrite <- Ep. assert (L : lenN (iv_policies v) <> 0) by (rewrite Ep, lenN_cons'; lia).
          assert (0 <? lenN (iv_policies v) = true) as -> by lia.
          rewrite (iv_closed_ne _ L). pose proof (struct_size_bounds (lenN (iv_policies v))). lia.
      + constructor; [cbn [snd]; split; assumption | exact Hf].
  Qed.

  Lemma iv_inv_set_coin c v coin : iv_inv c v -> iv_inv (c + get_coin_size coin) (iv_set_coin v coin).
  Proof. intros [A B]. split; [cbn [iv_set_coin iv_total iv_policies]; lia | exact B]. Qed.

  Lemma iv_inv_new : iv_inv 0 iv_new.
  Proof. split; [reflexivity | constructor]. Qed.

  (* the operations applied to an intermediate value: add_asset_to_intermediate_value / set_coin *)
  Inductive iv_op := IAdd (pol a : N) | ICoin (coin : N).
  Definition iv_step (v : ivalue) (o : iv_op) : ivalue :=
    match o with
    | IAdd pol a => iv_add_asset v pol a policy_sz (asz a) (csz a)
    | ICoin coin => iv_set_coin v coin
    end.
  Definition iv_coins (ops : list iv_op) : N :=
    sumN (map (fun o => match o with ICoin c => get_coin_size c | _ => 0 end) ops).

  (* C13: whatever the order of additions (HashSet iteration), the maintained total is the closed form *)
  Theorem iv_total_closed ops :
    let v := fold_left iv_step ops iv_new in
    iv_total v = iv_coins ops + iv_closed (iv_policies v).
  Proof.
    cbn zeta.
    assert (H : forall ops c v, iv_inv c v -> iv_inv (c + iv_coins ops) (fold_left iv_step ops v)).
    { clear ops. induction ops as [|o t IH]; intros c v I.
      - unfold iv_coins. cbn. replace (c + 0) with c by lia. exact I.
      - cbn [fold_left]. unfold iv_coins. cbn [map]. rewrite sumN_cons. fold (iv_coins t).
        destruct o as [pol a|coin]; cbn [iv_step].
        + replace (c + (0 + iv_coins t)) with (c + iv_coins t) by lia. apply IH, iv_inv_add, I.
        + replace (c + (get_coin_size coin + iv_coins t)) with (c + get_coin_size coin + iv_coins t) by lia.
          apply IH, iv_inv_set_coin, I. }
    destruct (H ops 0 iv_new iv_inv_new) as [A _]. rewrite A. lia.
  Qed.
End Intermediate.

(* ---------------------------------------------------------------- upper bound of the real value size *)

(* an output's assets grouped by policy, each asset with its name length, its quantity in the output and the
   grand total of that asset over all supplied UTxOs (UtxosStat::coins_in_assets) *)
Definition real_shape (gs : list (list (N * N * N))) : list (list (N * N)) :=
  map (map (fun a => match a with (nl, q, _) => (nl, q) end)) gs.
Definition bound_group (g : list (N * N * N)) : N :=
  policy_size + get_struct_size (lenN g) +
  sumN (map (fun a => match a with (nl, _, tot) => asset_name_size nl + get_coin_size tot end) g).
Definition bound_value (ada_total : N) (gs : list (list (N * N * N))) : N :=
  get_coin_size ada_total +
  match gs with [] => 0 | _ => get_struct_size 2 + get_struct_size (lenN gs) + sumN (map bound_group gs) end.
Definition slack_value (coin ada_total : N) (gs : list (list (N * N * N))) : N :=
  (get_coin_size ada_total - get_coin_size coin) +
  sumN (map (fun g => sumN (map (fun a => match a with (_, q, tot) => get_coin_size tot - get_coin_size q end) g)) gs).

(* C13: the value size the splitting decision is based on over-approximates the real value size by exactly the
   width differences (coin priced at the grand ADA total, quantities at the assets' grand totals) *)
Theorem intermediate_upper_bound coin ada_total (gs : list (list (N * N * N))) :
  coin <= ada_total ->
  Forall (Forall (fun a => match a with (_, q, tot) => q <= tot end)) gs ->
  calc_value_size coin (real_shape gs) + get_value_struct_size (match gs with [] => true | _ => false end)
    + slack_value coin ada_total gs = bound_value ada_total gs.
Proof.
  intros Hc Hq. unfold calc_value_size, bound_value, slack_value, real_shape.
  pose proof (struct_size_mono coin ada_total Hc) as Mc. unfold get_coin_size in *.
  assert (G : sumN (map calc_group_size (map (map (fun a : N * N * N => let '(nl, q, _) := a in (nl, q))) gs)) +
              sumN (map (fun g => sumN (map (fun a : N * N * N => let '(_, q, tot) := a in
                                              get_struct_size tot - get_struct_size q) g)) gs) =
              sumN (map bound_group gs)).
  { induction Hq as [|g t Hg Ht IH]; [reflexivity|]. cbn [map]. rewrite !(sumN_cons). rewrite <- IH.
    assert (calc_group_size (map (fun a : N * N * N => let '(nl, q, _) := a in (nl, q)) g) +
            sumN (map (fun a : N * N * N => let '(_, q, tot) := a in get_struct_size tot - get_struct_size q) g) =
            bound_group g); [|lia].
    unfold calc_group_size, bound_group. unfold lenN. rewrite map_length. fold (lenN g).
    assert (sumN (map (fun a : N * N => asset_name_size (fst a) + get_coin_size (snd a))
                      (map (fun a : N * N * N => let '(nl, q, _) := a in (nl, q)) g)) +
            sumN (map (fun a : N * N * N => let '(_, q, tot) := a in get_struct_size tot - get_struct_size q) g) =
            sumN (map (fun a : N * N * N => let '(nl, _, tot) := a in asset_name_size nl + get_coin_size tot) g)); [|lia].
    clear - Hg. induction Hg as [|[[nl q] tot] r Ha Hr IH]; [reflexivity|]. cbn [map fst snd]. rewrite !sumN_cons.
    pose proof (struct_size_mono q tot Ha). unfold get_coin_size in *. lia. }
  destruct gs as [|g t].
  - cbn [map get_value_struct_size]. change (lenN (@nil (list (N * N)))) with 0. change (0 <? 0) with false.
    cbn iota. change (sumN []) with 0. lia.
  - set (l := g :: t) in *.
    assert (E : lenN (map (map (fun a : N * N * N => let '(nl, q, _) := a in (nl, q))) l) = lenN l)
      by (unfold lenN; rewrite map_length; reflexivity).
    rewrite E. assert (0 <? lenN l = true) as -> by (unfold l; rewrite lenN_cons'; lia).
    cbn [get_value_struct_size]. lia.
Qed.
