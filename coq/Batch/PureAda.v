(* Batch/PureAda.v — the COMPLETE batcher on UTxO sets without assets (the pure-ADA path), where the code is
   deterministic: here nothing is abstracted.
     rust/src/builders/batch_tools/asset_categorizer.rs  AssetCategorizer::new: free_ada_utxos (stable sort by amount, 157-171),
         try_append_next_utxos (230-254, the `has_ada` branch), try_append_pure_ada_utxo (277-322),
         get_next_pure_ada_utxo (538-540), get_next_pure_ada_utxo_by_amount (542-567), remove_pure_ada_utxo (648-654)
     rust/src/builders/tx_batch_builder.rs               TxBatchBuilder::build (84-119)
   The loops are bounded by the number of free UTxOs (every round consumes one or fails); the fuel passed by
   [pure_send_all] is enough (PureAdaProofs: never OutOfFuel).  No proofs in this file. *)
From CSL Require Import Base.Prelude Base.U64 Batch.Calc Batch.Proposal.
Local Open Scope N_scope.

(* free_ada_utxos: (index, amount) pairs sorted by amount, ascending, stable *)
Fixpoint insert_sorted (c : ctx) (u : N) (l : list N) : list N :=
  match l with
  | [] => [u]
  | v :: t => if ui_ada (utxo_of c u) <? ui_ada (utxo_of c v) then u :: v :: t else v :: insert_sorted c u t
  end.
Definition sort_pool (c : ctx) (l : list N) : list N := fold_left (fun acc u => insert_sorted c u acc) l [].

Definition ada_pool (c : ctx) : list N := sort_pool c (snd (free_pools false c)).

(* get_next_pure_ada_utxo_by_amount: from the largest down, skipping the ignore list, until the need is covered *)
Fixpoint by_amount (c : ctx) (rev_pool ignore : list N) (left : N) (acc : list N) : result (list N) :=
  match rev_pool with
  | [] => if left =? 0 then Ok (rev acc) else Err                    (* "Not enough funds" *)
  | u :: t =>
      if memN u ignore then by_amount c t ignore left acc
      else
        let left' := left - ui_ada (utxo_of c u) in
        if left' =? 0 then Ok (rev (u :: acc)) else by_amount c t ignore left' (u :: acc)
  end.

Fixpoint add_utxos (c : ctx) (p : tprop) (us : list N) : result tprop :=
  match us with [] => Ok p | u :: t => let* p' := add_utxo c p u in add_utxos c p' t end.

(* the `while new_proposal.get_need_ada()? > 0` loop of try_append_pure_ada_utxo *)
Fixpoint topup_loop (fuel : nat) (c : ctx) (pool : list N) (orig_empty : bool) (p : tprop) (used : list N) (size : N)
  : result (tprop * list N * N) :=
  let* need := get_need_ada p in
  if need =? 0 then Ok (p, used, size)
  else match fuel with
       | O => OutOfFuel
       | S f =>
           let* next := by_amount c (rev pool) used need [] in
           let* p1 := add_utxos c p next in
           let* r := set_min_ada_for_tx c p1 in
           if (cx_max_tx c <? snd r) && orig_empty then Err        (* "Utxo can not be places into tx" *)
           else topup_loop f c pool orig_empty (fst r) (used ++ next) (snd r)
       end.

(* try_append_pure_ada_utxo: None = nothing (more) fits *)
Definition try_append_pure (c : ctx) (pool : list N) (p : tprop) : result (option (tprop * list N)) :=
  let* need := get_need_ada p in
  let* start :=
    if need =? 0 then
      match rev pool with
      | [] => Ok None
      | u :: _ =>
          let p0 := match t_outputs p with [] => add_new_output p | _ => p end in
          let* p1 := add_utxo c p0 u in Ok (Some (p1, [u]))
      end
    else Ok (Some (p, [])) in
  match start with
  | None => Ok None
  | Some (p1, used) =>
      let* r := set_min_ada_for_tx c p1 in
      let* t := topup_loop (S (length pool)) c pool (is_nilb (t_utxos p)) (fst r) used (snd r) in
      match t with (p2, used', size) =>
        if cx_max_tx c <? size then Ok None else Ok (Some (p2, used'))
      end
  end.

(* the inner loop of build: append while something fits; every success removes its UTxOs from the pool *)
Fixpoint fill (fuel : nat) (c : ctx) (pool : list N) (p : tprop) : result (tprop * list N) :=
  match pool with
  | [] => Ok (p, pool)                                               (* has_ada() = false: try_append_next_utxos = None *)
  | _ =>
      match fuel with
      | O => OutOfFuel
      | S f =>
          let* r := try_append_pure c pool p in
          match r with
          | None => Ok (p, pool)
          | Some (p', used) => fill f c (remove_all used pool) p'
          end
      end
  end.

Fixpoint pure_build (fuel : nat) (c : ctx) (pool : list N) : result (list atx) :=
  match pool with
  | [] => Ok []
  | _ =>
      match fuel with
      | O => OutOfFuel
      | S f =>
          let* r := fill (S (length pool)) c pool tp_new in
          let* tx := finalise c (fst r) in              (* Err when the proposal is still empty *)
          let* rest := pure_build f c (snd r) in
          Ok (snd tx :: rest)
      end
  end.

(* create_send_all on a UTxO set in which no UTxO holds an asset *)
Definition no_assets (c : ctx) : bool := forallb (fun x => negb (is_asset_utxo x)) (cx_utxos c).
Definition pure_send_all (c : ctx) : result (list atx) :=
  pure_build (S (length (cx_utxos c))) c (ada_pool c).

(* the top-up step before /repo 180f5b3: `if need > 0 { ... }` instead of `while`: one round, the shortage not re-checked *)
Definition topup_once (c : ctx) (pool : list N) (orig_empty : bool) (p : tprop) (used : list N) (size : N)
  : result (tprop * list N * N) :=
  let* need := get_need_ada p in
  if need =? 0 then Ok (p, used, size)
  else
    let* next := by_amount c (rev pool) used need [] in
    let* p1 := add_utxos c p next in
    let* r := set_min_ada_for_tx c p1 in
    if (cx_max_tx c <? snd r) && orig_empty then Err else Ok (fst r, used ++ next, snd r).
