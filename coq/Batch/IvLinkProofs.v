(* Batch/IvLinkProofs.v — the value-size test of the model ([bound_of], a closed form over the assets grouped by
   policy) IS the size the code maintains incrementally in IntermediateOutputValue (Calc.iv_add_asset / iv_set_coin):
     iv_groups_fold   the policy table after adding the assets of a duplicate-free list = groups_of
     iv_bound_link    build_intermediate_value (assets, then set_coin) and build_empty_intermediate_value followed by the
                      additions (set_coin first) both end with iv_total = bound_of *)
From CSL Require Import Base.Prelude Base.U64 Batch.Calc Batch.CalcProofs Batch.EncProofs Batch.IntermediateProofs
  Batch.Proposal Batch.ProposalProofs.
Local Open Scope N_scope.

Section Link.
  Variable c : ctx.
  Definition pol_of (a : N) : N := ai_policy (asset_of c a).
  Definition asz (a : N) : N := asset_name_size (ai_name_len (asset_of c a)).
  Definition csz (a : N) : N := get_coin_size (ai_total (asset_of c a)).
  Definition add_op (a : N) : iv_op := IAdd (pol_of a) a.
  Definition stepc := iv_step policy_size asz csz.

  Definition iv_groups (v : ivalue) : list (N * list N) := map (fun kp => (fst kp, ip_assets (snd kp))) (iv_policies v).

  Lemma find_has pol l : group_has pol (map (fun kp : N * ipolicy => (fst kp, ip_assets (snd kp))) l) =
                         match iv_find pol l with Some _ => true | None => false end.
  Proof. induction l as [|[k p] t IH]; [reflexivity|]. cbn [map fst snd group_has iv_find]. destruct (pol =? k); [reflexivity|exact IH]. Qed.

  Lemma replace_update pol a l p p' :
    iv_find pol l = Some p -> ip_assets p' = a :: ip_assets p ->
    map (fun kp : N * ipolicy => (fst kp, ip_assets (snd kp))) (iv_replace pol p' l) =
    group_update pol a (map (fun kp : N * ipolicy => (fst kp, ip_assets (snd kp))) l).
  Proof.
    intros Hf Hp. induction l as [|[k q] t IH]; cbn [iv_find] in Hf; [discriminate|].
    cbn [iv_replace map fst snd group_update]. destruct (pol =? k).
    - injection Hf as ->. cbn [map fst snd]. rewrite Hp. reflexivity.
    - cbn [map fst snd]. rewrite (IH Hf). reflexivity.
  Qed.

  Lemma find_assets pol l p : iv_find pol l = Some p -> In (ip_assets p) (map (fun kp : N * ipolicy => ip_assets (snd kp)) l).
  Proof.
    induction l as [|[k q] t IH]; cbn [iv_find]; [discriminate|]. destruct (pol =? k).
    - intros H; injection H as ->. left. reflexivity.
    - intros H. right. apply IH, H.
  Qed.

  (* one addition of an asset that is in no list yet *)
  Lemma iv_groups_add v a :
    (forall l, In l (map snd (iv_groups v)) -> ~ In a l) ->
    iv_groups (stepc v (add_op a)) = group_insert (pol_of a) a (iv_groups v).
  Proof.
    intros Hfresh. unfold stepc, add_op, iv_step, iv_add_asset, group_insert, iv_groups. rewrite find_has.
    destruct (iv_find (pol_of a) (iv_policies v)) as [p|] eqn:Ef; cbn [iv_policies].
    - apply replace_update with (p := p); [exact Ef|]. unfold ip_add_asset.
      assert (M : memN a (ip_assets p) = false).
      { apply memN_false. apply Hfresh. unfold iv_groups. rewrite map_map. cbn [snd]. eapply find_assets, Ef. }
      rewrite M. reflexivity.
    - cbn [map fst snd]. reflexivity.
  Qed.

  Lemma group_insert_lists pol a gs l :
    In l (map snd (group_insert pol a gs)) -> (exists l0, l = a :: l0 /\ (l0 = [] \/ In l0 (map snd gs))) \/ In l (map snd gs).
  Proof.
    unfold group_insert. destruct (group_has pol gs).
    - induction gs as [|[k g] t IH]; cbn [group_update map snd In]; [tauto|]. destruct (pol =? k); cbn [map snd In].
      + intros [<-|H]; [left; exists g; split; [reflexivity | right; left; reflexivity] | right; right; exact H].
      + intros [<-|H]; [right; left; reflexivity|]. destruct (IH H) as [(l0 & E & [E0|E0])|H']; [left; exists l0; tauto | left; exists l0; split; [exact E | right; right; exact E0] | right; right; exact H'].
    - cbn [map snd In]. intros [<-|H]; [left; exists []; tauto | right; exact H].
  Qed.

  (* all the additions of a duplicate-free list: the policy table is groups_of *)
  Lemma iv_groups_fold : forall l v,
    NoDup l -> (forall a g, In a l -> In g (map snd (iv_groups v)) -> ~ In a g) ->
    iv_groups (fold_left stepc (map add_op l) v) =
    fold_left (fun gs a => group_insert (pol_of a) a gs) l (iv_groups v).
  Proof.
    induction l as [|a t IH]; intros v Hn Hf; [reflexivity|]. inversion Hn as [|? ? Ha Ht]; subst. cbn [map fold_left].
    rewrite IH; [rewrite iv_groups_add; [reflexivity | intros g Hg; apply (Hf a g (or_introl eq_refl) Hg)] | exact Ht|].
    intros b g Hb Hg. rewrite iv_groups_add in Hg by (intros g' Hg'; apply (Hf a g' (or_introl eq_refl) Hg')).
    destruct (group_insert_lists _ _ _ _ Hg) as [(l0 & -> & [->|H0])|H0].
    - intros [<-|[]]. contradiction.
    - intros [<-|H]; [contradiction | apply (Hf b l0 (or_intror Hb) H0 H)].
    - apply (Hf b g (or_intror Hb) H0).
  Qed.

  Lemma set_coin_groups v coin : iv_groups (iv_set_coin v coin) = iv_groups v.
  Proof. reflexivity. Qed.

  (* the closed form of IntermediateProofs in terms of the groups *)
  Definition groups_closed (gs : list (N * list N)) : N :=
    match gs with
    | [] => 0
    | _ => get_struct_size 2 + get_struct_size (lenN gs) +
           sumN (map (fun g => policy_size + get_struct_size (lenN (snd g)) + sumN (map (fun a => asz a + csz a) (snd g))) gs)
    end.

  Lemma closed_sum (l : list (N * ipolicy)) :
    (forall g, In g (map (fun kp : N * ipolicy => ip_assets (snd kp)) l) -> g <> []) ->
    sumN (map (fun kp : N * ipolicy => policy_size + ip_closed asz csz (ip_assets (snd kp))) l) =
    sumN (map (fun g : N * list N => policy_size + get_struct_size (lenN (snd g)) + sumN (map (fun a => asz a + csz a) (snd g)))
              (map (fun kp : N * ipolicy => (fst kp, ip_assets (snd kp))) l)).
  Proof.
    induction l as [|[k q] t IH]; intros H; [reflexivity|]. cbn [map fst snd]. rewrite !sumN_cons, IH.
    - f_equal. unfold ip_closed. specialize (H (ip_assets q) (or_introl eq_refl)).
      destruct (ip_assets q); [contradiction H; reflexivity | lia].
    - intros g Hg. apply H. right. exact Hg.
  Qed.

  Lemma iv_closed_groups v :
    (forall g, In g (map snd (iv_groups v)) -> g <> []) ->
    iv_closed policy_size asz csz (iv_policies v) = groups_closed (iv_groups v).
  Proof.
    unfold iv_groups. rewrite map_map. cbn [snd]. intros H. unfold iv_closed, groups_closed.
    destruct (iv_policies v) as [|kp0 t0] eqn:E; [reflexivity|]. rewrite <- E in *.
    assert (M : map (fun kp : N * ipolicy => (fst kp, ip_assets (snd kp))) (iv_policies v) <> []) by (rewrite E; discriminate).
    destruct (map (fun kp : N * ipolicy => (fst kp, ip_assets (snd kp))) (iv_policies v)) eqn:Em; [contradiction M; reflexivity|].
    rewrite <- Em. unfold lenN at 2. rewrite map_length. fold (lenN (iv_policies v)). rewrite (closed_sum _ H). reflexivity.
  Qed.

  Lemma fold_groups_nonempty : forall l gs, (forall g, In g (map snd gs) -> g <> []) ->
    forall g, In g (map snd (fold_left (fun gs a => group_insert (pol_of a) a gs) l gs)) -> g <> [].
  Proof.
    induction l as [|a t IH]; intros gs H g Hg; [apply H, Hg|]. cbn [fold_left] in Hg. eapply IH; [|exact Hg].
    intros g' Hg'. destruct (group_insert_lists _ _ _ _ Hg') as [(l0 & -> & _)|H0]; [discriminate | apply H, H0].
  Qed.

  Lemma bound_of_groups l : bound_of c l = get_coin_size (cx_ada_total c) + groups_closed (groups_of c l).
  Proof.
    unfold bound_of, groups_closed. f_equal. destruct l as [|a t] eqn:E; [reflexivity|]. rewrite <- E.
    destruct (groups_of c l) eqn:Eg; [apply groups_of_nil_iff in Eg; rewrite E in Eg; discriminate|]. rewrite <- Eg. reflexivity.
  Qed.

  (* C13: the incrementally maintained intermediate value size is the closed form the model's value-size test uses *)
  Theorem iv_bound_link l : NoDup l ->
    iv_total (fold_left stepc (map add_op l ++ [ICoin (cx_ada_total c)]) iv_new) = bound_of c l /\
    iv_total (fold_left stepc (ICoin (cx_ada_total c) :: map add_op l) iv_new) = bound_of c l.
  Proof.
    intros Hn.
    assert (G : forall v0, iv_policies v0 = [] ->
                iv_groups (fold_left stepc (map add_op l) v0) = groups_of c l /\
                (forall g, In g (map snd (iv_groups (fold_left stepc (map add_op l) v0))) -> g <> [])).
    { intros v0 E0. assert (Eg : iv_groups v0 = []) by (unfold iv_groups; rewrite E0; reflexivity).
      rewrite iv_groups_fold; [|exact Hn | rewrite Eg; intros a g _ []]. rewrite Eg. split; [reflexivity|].
      apply fold_groups_nonempty. intros g []. }
    rewrite bound_of_groups. split.
    - rewrite (iv_total_closed policy_size asz csz). rewrite fold_left_app. cbn [fold_left].
      change (iv_step policy_size asz csz) with stepc. cbn [stepc iv_step]. unfold iv_set_coin at 1. cbn [iv_policies].
      destruct (G iv_new eq_refl) as [E1 E2]. rewrite (iv_closed_groups _ E2), E1.
      unfold iv_coins. rewrite map_app, sumN_app. cbn [map].
      assert (Z : sumN (map (fun o => match o with ICoin c0 => get_coin_size c0 | _ => 0 end) (map add_op l)) = 0).
      { clear. induction l as [|a t IH]; [reflexivity|]. cbn [map]. rewrite sumN_cons, IH. reflexivity. }
      rewrite Z. cbn. lia.
    - rewrite (iv_total_closed policy_size asz csz). cbn [fold_left]. change (iv_step policy_size asz csz) with stepc.
      destruct (G (stepc iv_new (ICoin (cx_ada_total c))) eq_refl) as [E1 E2]. rewrite (iv_closed_groups _ E2), E1.
      unfold iv_coins. cbn [map]. rewrite sumN_cons.
      assert (Z : sumN (map (fun o => match o with ICoin c0 => get_coin_size c0 | _ => 0 end) (map add_op l)) = 0).
      { clear. induction l as [|a t IH]; [reflexivity|]. cbn [map]. rewrite sumN_cons, IH. reflexivity. }
      rewrite Z. lia.
  Qed.
End Link.
